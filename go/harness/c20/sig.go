//go:build verif

package main

import (
	"bytes"
	"fmt"

	"github.com/tink-crypto/tink-go/v2/internal/internalapi"
	icomp "github.com/tink-crypto/tink-go/v2/internal/signature/compositemldsa"
	imldsa "github.com/tink-crypto/tink-go/v2/internal/signature/mldsa"
	islh "github.com/tink-crypto/tink-go/v2/internal/signature/slhdsa"
	"github.com/tink-crypto/tink-go/v2/internal/verifharness/hlib"
	"github.com/tink-crypto/tink-go/v2/key"
	"github.com/tink-crypto/tink-go/v2/keyset"
	"github.com/tink-crypto/tink-go/v2/signature"
	pcomp "github.com/tink-crypto/tink-go/v2/signature/compositemldsa"
	"github.com/tink-crypto/tink-go/v2/signature/ecdsa"
	"github.com/tink-crypto/tink-go/v2/signature/ed25519"
	pmldsa "github.com/tink-crypto/tink-go/v2/signature/mldsa"
	"github.com/tink-crypto/tink-go/v2/signature/rsassapss"
	pslh "github.com/tink-crypto/tink-go/v2/signature/slhdsa"
	phmldsa "github.com/tink-crypto/tink-go/v2/signprehash/mldsa"
	"github.com/tink-crypto/tink-go/v2/tink"
)

// Where signing randomness comes from (read from the code):
//   ML-DSA   internal/signature/mldsa Sign / SignWithMu: `rand.Read(rnd[:])`, 32 bytes, then Sign_internal.
//   SLH-DSA  internal/signature/slhdsa Sign: `rand.Read(addrnd)`, n bytes, then slh_sign_internal.
//   RSA-PSS  crypto/rsa.SignPSS(rand.Reader, …): one read of saltLen bytes (no MaybeReadByte, no blinding).
//   ECDSA    crypto/ecdsa.Sign / SignASN1(rand.Reader, …): MaybeReadByte, then one read Z of len(d)
//            bytes which seeds a hedged HMAC-DRBG together with the key and the digest.
//   Ed25519  deterministic: nothing is read.

type sigScheme struct {
	label string
	s     tink.Signer
	v     tink.Verifier
}

// sigRoutes: the keyset-level factory and the per-key constructor.
func (e *env) sigRoutes(label string, priv key.Key, perKey func() (tink.Signer, tink.Verifier, error)) []*sigScheme {
	o := e.o
	var out []*sigScheme
	if h, err := hlib.HandleOf(priv); err != nil {
		o.Violate("%s: handle: %v", label, err)
	} else {
		s, err1 := signature.NewSigner(h)
		v, err2 := signature.NewVerifier(must(h.Public()))
		if err1 != nil || err2 != nil {
			o.Violate("%s: keyset-level primitives: %v %v", label, err1, err2)
		} else {
			out = append(out, &sigScheme{label + "/handle", s, v})
		}
	}
	if s, v, err := perKey(); err != nil {
		o.Violate("%s: per-key primitives: %v", label, err)
	} else {
		out = append(out, &sigScheme{label + "/perkey", s, v})
	}
	return out
}

func (e *env) sign(s tink.Signer, strict bool, forced, msg []byte) (sig []byte, log [][]byte, drawn []byte, err error) {
	e.t.Strict = strict
	log, drawn = e.t.run(forced, func() { sig, err = s.Sign(msg) })
	e.t.Strict = false
	return
}

func fmtMsg(ctx, msg []byte) []byte { return cat([]byte{0, byte(len(ctx))}, ctx, msg) }

func idFor(rng *hlib.Rng, raw bool) uint32 {
	if raw {
		return 0
	}
	return rng.KeyID()
}

func (e *env) sigSection() {
	rng := e.rng("sig")
	e.mldsaSection(rng)
	e.compositeSection(rng)
	e.slhSection(rng)
	e.pssSection(rng)
	e.ecdsaSection(rng)
	e.ed25519Section(rng)
}

// ---------- ML-DSA: the whole signature is Sign_internal(sk, M', rnd = tape) ----------

func (e *env) mldsaSection(rng *hlib.Rng) {
	o := e.o
	sets := []struct {
		name string
		par  *imldsa.VerifParams
		inst pmldsa.Instance
	}{{"44", imldsa.MLDSA44, pmldsa.MLDSA44}, {"65", imldsa.MLDSA65, pmldsa.MLDSA65}, {"87", imldsa.MLDSA87, pmldsa.MLDSA87}}
	variants := []pmldsa.Variant{pmldsa.VariantTink, pmldsa.VariantNoPrefix}
	rounds := hlib.N(2, 10)
	for round := 0; round < rounds; round++ {
		for _, set := range sets {
			o.Case()
			var seed [32]byte
			copy(seed[:], rng.Bytes(32))
			ipk, isk := set.par.KeyGenFromSeed(seed)
			skTok := hlib.Tok(isk.Encode())
			op := "sign" // D sign <set> <sk> <M'> <rnd>  |  D signmu <set> <sk> <mu> <rnd>
			check := func(label string, prefix []byte, mp []byte, sign func() ([]byte, error), verify func(sig []byte) error) {
				var sig []byte
				var err error
				e.t.Strict = true
				_, drawn := e.t.run(nil, func() { sig, err = sign() })
				e.t.Strict = false
				if err != nil || !bytes.HasPrefix(sig, prefix) {
					o.Violate("ML-DSA-%s %s: signing failed or wrong prefix: %v", set.name, label, err)
					return
				}
				if !e.expectPattern("mldsa/"+set.name, "32") {
					return
				}
				// the reference's deterministic Sign_internal with rnd = the 32 tape bytes
				o.Emit("!D "+op+" "+set.name+" "+skTok+" "+hlib.Tok(mp)+" "+hlib.Tok(drawn), "ok "+hlib.Tok(sig[len(prefix):]), true)
				o.Count("mldsa/" + set.name + "/signature-from-tape/" + label)
				if err := verify(sig); err != nil {
					o.Violate("ML-DSA-%s %s: own signature rejected: %v", set.name, label, err)
				}
				// a second signature of the same message under a fresh tape window differs
				var sig2 []byte
				e.t.Strict = true
				e.t.run(nil, func() { sig2, err = sign() })
				e.t.Strict = false
				if err != nil || bytes.Equal(sig, sig2) {
					o.Violate("ML-DSA-%s %s: two signatures of one message are equal", set.name, label)
				}
				var sig3 []byte
				e.t.Strict = true
				e.t.run(drawn, func() { sig3, err = sign() })
				e.t.Strict = false
				if err != nil || !bytes.Equal(sig, sig3) {
					o.Violate("ML-DSA-%s %s: replaying the tape does not reproduce the signature", set.name, label)
				}
				o.Count("mldsa/differs+replay")
			}
			// which (variant, route) pairs this round: all four over two rounds, plus the library API with a context
			for vi := 0; vi < 2; vi++ {
				id := idFor(rng, vi == 1)
				params := must(pmldsa.NewParameters(set.inst, variants[vi]))
				priv, err := pmldsa.NewPrivateKey(hlib.Secret(seed[:]), id, params)
				if err != nil {
					o.Violate("mldsa.NewPrivateKey: %v", err)
					continue
				}
				routes := e.sigRoutes(fmt.Sprintf("mldsa%s/%s", set.name, []string{"TINK", "RAW"}[vi]), priv, func() (tink.Signer, tink.Verifier, error) {
					s, err := pmldsa.NewSigner(priv, internalapi.Token{})
					if err != nil {
						return nil, nil, err
					}
					pk, _ := priv.PublicKey()
					v, err := pmldsa.NewVerifier(pk.(*pmldsa.PublicKey), internalapi.Token{})
					return s, v, err
				})
				for _, r := range routes {
					msg := rng.Bytes(rng.MsgLen(200))
					check(r.label[lastSlash(r.label)+1:]+"/"+[]string{"TINK", "RAW"}[vi], priv.OutputPrefix(), fmtMsg(nil, msg),
						func() ([]byte, error) { return r.s.Sign(msg) }, func(sig []byte) error { return r.v.Verify(sig, msg) })
				}
			}
			// the library's own API with a context string
			ctx, msg := rng.Bytes(rng.Pick(1, 17, 255)), rng.Bytes(rng.MsgLen(100))
			check("internal-with-ctx", nil, fmtMsg(ctx, msg), func() ([]byte, error) { return isk.Sign(msg, ctx) },
				func(sig []byte) error { return ipk.Verify(msg, sig, ctx) })
			// external-mu signing: the library's SignWithMu and the signprehash primitive built on it
			op = "signmu"
			mu := [64]byte(rng.Bytes(64))
			check("internal-SignWithMu", nil, mu[:], func() ([]byte, error) { return isk.SignWithMu(mu), nil },
				func(sig []byte) error { return ipk.VerifyWithMu(mu, sig) })
			for _, pv := range []pmldsa.Variant{pmldsa.VariantTink, pmldsa.VariantNoPrefixWithPrehashID} {
				id := rng.KeyID()
				priv, err := pmldsa.NewPrivateKey(hlib.Secret(seed[:]), id, must(pmldsa.NewParameters(set.inst, pv)))
				if err != nil {
					o.Violate("mldsa.NewPrivateKey(%v): %v", pv, err)
					continue
				}
				ps, err := phmldsa.NewPrehashSigner(priv, internalapi.Token{})
				if err != nil {
					o.Violate("signprehash NewPrehashSigner(%v): %v", pv, err)
					continue
				}
				mu2 := [64]byte(rng.Bytes(64))
				prehash := cat([]byte{0xff}, be32(id), mu2[:])
				check("signprehash/"+pv.String(), nil, mu2[:], func() ([]byte, error) { return ps.SignPrehash(prehash) },
					func(sig []byte) error { return ipk.VerifyWithMu(mu2, sig) })
			}
		}
	}
}

// ---------- SLH-DSA: the whole signature is slh_sign_internal(M', sk, addrnd = tape) ----------

func (e *env) slhSection(rng *hlib.Rng) {
	o := e.o
	sets := []struct {
		name string
		p    interface {
			VerifKeygenInternal(skSeed, skPrf, pkSeed []byte) (*islh.SecretKey, *islh.PublicKey)
		}
		ht pslh.HashType
	}{{"SLH-DSA-SHA2-128f", islh.SLH_DSA_SHA2_128f, pslh.SHA2}, {"SLH-DSA-SHAKE-128f", islh.SLH_DSA_SHAKE_128f, pslh.SHAKE}}
	variants := []pslh.Variant{pslh.VariantTink, pslh.VariantNoPrefix}
	for round := 0; round < hlib.N(1, 4); round++ {
		for _, set := range sets {
			o.Case()
			isk, _ := set.p.VerifKeygenInternal(rng.Bytes(16), rng.Bytes(16), rng.Bytes(16))
			skb := isk.Encode()
			for vi := 0; vi < 2; vi++ {
				id := idFor(rng, vi == 1)
				params := must(pslh.NewParameters(set.ht, 64, pslh.FastSigning, variants[vi]))
				priv, err := pslh.NewPrivateKey(hlib.Secret(skb), id, params)
				if err != nil {
					o.Violate("slhdsa.NewPrivateKey: %v", err)
					continue
				}
				routes := e.sigRoutes(set.name+"/"+[]string{"TINK", "RAW"}[vi], priv, func() (tink.Signer, tink.Verifier, error) {
					s, err := pslh.NewSigner(priv, internalapi.Token{})
					if err != nil {
						return nil, nil, err
					}
					pk, _ := priv.PublicKey()
					v, err := pslh.NewVerifier(pk.(*pslh.PublicKey), internalapi.Token{})
					return s, v, err
				})
				for _, r := range routes {
					msg := rng.Bytes(rng.MsgLen(100))
					sig, _, drawn, err := e.sign(r.s, true, nil, msg)
					pre := priv.OutputPrefix()
					if err != nil || !bytes.HasPrefix(sig, pre) {
						o.Violate("%s: signing failed or wrong prefix: %v", r.label, err)
						continue
					}
					if !e.expectPattern("slhdsa/"+set.name, "16") {
						continue
					}
					o.Emit(fmt.Sprintf("!G slhsign %s %s %s %s", set.name, hlib.Tok(skb), hlib.Tok(fmtMsg(nil, msg)), hlib.Tok(drawn)), "ok "+hlib.Tok(sig[len(pre):]), true)
					o.Count("slhdsa/" + set.name + "/signature-from-tape/" + r.label[lastSlash(r.label)+1:])
					if err := r.v.Verify(sig, msg); err != nil {
						o.Violate("%s: own signature rejected: %v", r.label, err)
					}
					sig2, _, _, err := e.sign(r.s, true, nil, msg)
					if err != nil || bytes.Equal(sig, sig2) {
						o.Violate("%s: two signatures of one message are equal", r.label)
					}
					sig3, _, _, err := e.sign(r.s, true, drawn, msg)
					if err != nil || !bytes.Equal(sig, sig3) {
						o.Violate("%s: replaying the tape does not reproduce the signature", r.label)
					}
					o.Count("slhdsa/differs+replay")
				}
			}
		}
	}
}

// ---------- RSA-PSS: the salt the reference recovers from the signature is the tape ----------

func (e *env) pssSection(rng *hlib.Rng) {
	o := e.o
	hashes := []struct {
		name string
		id   rsassapss.HashType
	}{{"SHA256", rsassapss.SHA256}, {"SHA384", rsassapss.SHA384}, {"SHA512", rsassapss.SHA512}}
	variants := []rsassapss.Variant{rsassapss.VariantTink, rsassapss.VariantCrunchy, rsassapss.VariantLegacy, rsassapss.VariantNoPrefix}
	vn := []string{"TINK", "CRUNCHY", "LEGACY", "RAW"}
	rsaKey := e.rsa()
	nTok := hlib.Tok(rsaKey.N.Bytes())
	c := 0
	for _, salt := range []int{20, 32, 48, 64} {
		for hi, h := range hashes {
			for rep := 0; rep < hlib.N(2, 6); rep++ {
				o.Case()
				vi := (c + rep) % 4
				c++
				id := idFor(rng, vi == 3)
				params, err := rsassapss.NewParameters(rsassapss.ParametersValues{ModulusSizeBits: 2048, SigHashType: h.id, MGF1HashType: h.id,
					PublicExponent: 65537, SaltLengthBytes: salt}, variants[vi])
				if err != nil {
					o.Violate("rsassapss.NewParameters: %v", err)
					continue
				}
				pub, err := rsassapss.NewPublicKey(rsaKey.N.Bytes(), id, params)
				if err != nil {
					o.Violate("rsassapss.NewPublicKey: %v", err)
					continue
				}
				priv, err := rsassapss.NewPrivateKey(pub, rsassapss.PrivateKeyValues{P: hlib.Secret(rsaKey.Primes[0].Bytes()), Q: hlib.Secret(rsaKey.Primes[1].Bytes()), D: hlib.Secret(rsaKey.D.Bytes())})
				if err != nil {
					o.Violate("rsassapss.NewPrivateKey: %v", err)
					continue
				}
				routes := e.sigRoutes(fmt.Sprintf("rsapss/%s/salt%d/%s", h.name, salt, vn[vi]), priv, func() (tink.Signer, tink.Verifier, error) {
					s, err := rsassapss.NewSigner(priv, internalapi.Token{})
					if err != nil {
						return nil, nil, err
					}
					v, err := rsassapss.NewVerifier(pub, internalapi.Token{})
					return s, v, err
				})
				for _, r := range routes {
					msg := rng.Bytes(rng.MsgLen(100))
					sig, _, drawn, err := e.sign(r.s, true, nil, msg)
					pre := priv.OutputPrefix()
					if err != nil || !bytes.HasPrefix(sig, pre) {
						o.Violate("%s: signing failed or wrong prefix: %v", r.label, err)
						continue
					}
					if !e.expectPattern(fmt.Sprintf("rsapss/salt%d", salt), fmt.Sprint(salt)) {
						continue
					}
					signed := msg
					if vi == 2 {
						signed = append(clone(msg), 0) // LEGACY signs data ‖ 0x00
					}
					o.Emit(fmt.Sprintf("!R psssalt %s %d %s 010001 %s %s", h.name, salt, nTok, hlib.Tok(signed), hlib.Tok(sig[len(pre):])), "ok "+hlib.Tok(drawn), true)
					o.Count(fmt.Sprintf("rsapss/salt-from-tape/%s/salt%d", h.name, salt))
					o.Count("rsapss/variant/" + vn[vi])
					if err := r.v.Verify(sig, msg); err != nil {
						o.Violate("%s: own signature rejected: %v", r.label, err)
					}
					sig2, _, _, err := e.sign(r.s, true, nil, msg)
					if err != nil || bytes.Equal(sig, sig2) {
						o.Violate("%s: two signatures of one message are equal", r.label)
					}
					sig3, _, _, err := e.sign(r.s, true, drawn, msg)
					if err != nil || !bytes.Equal(sig, sig3) {
						o.Violate("%s: replaying the tape does not reproduce the signature", r.label)
					}
					d4 := clone(drawn)
					d4[rng.Intn(len(d4))] ^= 1 << uint(rng.Intn(8))
					sig4, _, _, err := e.sign(r.s, true, d4, msg)
					if err != nil || bytes.Equal(sig, sig4) {
						o.Violate("%s: a different salt gives the same signature", r.label)
					}
					o.Count("rsapss/differs+replay+perturb")
				}
				_ = hi
			}
		}
	}
}

// ---------- ECDSA: a function of the tape (no reference for the hedged nonce derivation) ----------

func (e *env) ecdsaSection(rng *hlib.Rng) {
	o := e.o
	cts := []ecdsa.CurveType{ecdsa.NistP256, ecdsa.NistP384, ecdsa.NistP521}
	hs := []struct {
		name string
		id   ecdsa.HashType
	}{{"SHA256", ecdsa.SHA256}, {"SHA384", ecdsa.SHA384}, {"SHA512", ecdsa.SHA512}}
	allowed := [][]int{{0}, {1, 2}, {2}}
	encs := []ecdsa.SignatureEncoding{ecdsa.DER, ecdsa.IEEEP1363}
	en := []string{"DER", "P1363"}
	variants := []ecdsa.Variant{ecdsa.VariantTink, ecdsa.VariantCrunchy, ecdsa.VariantLegacy, ecdsa.VariantNoPrefix}
	vc := []string{"T", "C", "L", "R"}
	c := 0
	for ci, cv := range curves {
		for ei := range encs {
			for rep := 0; rep < hlib.N(4, 12); rep++ {
				o.Case()
				vi := c % 4
				c++
				hi := allowed[ci][rng.Intn(len(allowed[ci]))]
				id := idFor(rng, vi == 3)
				params, err := ecdsa.NewParameters(cts[ci], hs[hi].id, encs[ei], variants[vi])
				if err != nil {
					o.Violate("ecdsa.NewParameters: %v", err)
					continue
				}
				priv, err := ecdsa.NewPrivateKey(hlib.Secret(cv.scalar(rng)), id, params)
				if err != nil {
					o.Violate("ecdsa.NewPrivateKey: %v", err)
					continue
				}
				pk, _ := priv.PublicKey()
				pub := pk.(*ecdsa.PublicKey)
				pt := pub.PublicPoint()
				routes := e.sigRoutes(fmt.Sprintf("ecdsa/%s/%s/%s/%s", cv.name, hs[hi].name, en[ei], vc[vi]), priv, func() (tink.Signer, tink.Verifier, error) {
					s, err := ecdsa.NewSigner(priv, internalapi.Token{})
					if err != nil {
						return nil, nil, err
					}
					v, err := ecdsa.NewVerifier(pub, internalapi.Token{})
					return s, v, err
				})
				for ri, r := range routes {
					msg := rng.Bytes(rng.MsgLen(100))
					sig, log, drawn, err := e.sign(r.s, false, nil, msg)
					if err != nil {
						o.Violate("%s: signing failed: %v", r.label, err)
						continue
					}
					cat := "ecdsa/" + cv.name
					o.Count("pattern/" + cat + "=" + patternOf(log))
					if patternOf(log) != fmt.Sprint(cv.bl) {
						o.Violate("%s: read pattern %s, want one read of %d bytes", r.label, patternOf(log), cv.bl)
						continue
					}
					if err := r.v.Verify(sig, msg); err != nil {
						o.Violate("%s: own signature rejected: %v", r.label, err)
					}
					// the reference verifier accepts what the tape produced (a few per curve: P-521 is slow)
					if ri == 0 && (rep == 0 || hlib.Thorough()) {
						o.Emit(fmt.Sprintf("!G ecdsa %s %s %s %s %d %s %s %s %s", cv.name, hs[hi].name, en[ei], vc[vi], id, hlib.Tok(pt[1:1+cv.bl]), hlib.Tok(pt[1+cv.bl:]),
							hlib.Tok(msg), hlib.Tok(sig)), "1", true)
						o.Count(cat + "/reference-accepts")
					}
					sig2, _, _, err := e.sign(r.s, false, nil, msg)
					if err != nil || bytes.Equal(sig, sig2) {
						o.Violate("%s: two signatures of one message under fresh randomness are equal", r.label)
					}
					sig3, _, _, err := e.sign(r.s, false, drawn, msg)
					if err != nil || !bytes.Equal(sig, sig3) {
						o.Violate("%s: replaying the tape does not reproduce the signature (randomness from elsewhere)", r.label)
					}
					d4 := clone(drawn)
					d4[rng.Intn(len(d4))] ^= 1 << uint(rng.Intn(8))
					sig4, _, _, err := e.sign(r.s, false, d4, msg)
					if err != nil || bytes.Equal(sig, sig4) {
						o.Violate("%s: one flipped tape byte leaves the signature unchanged", r.label)
					}
					o.Count(cat + "/function-of-tape/" + en[ei])
					o.Count("ecdsa/variant/" + vc[vi])
				}
			}
		}
	}
}

// ---------- Ed25519: deterministic, must not draw ----------

func (e *env) ed25519Section(rng *hlib.Rng) {
	o := e.o
	o.Case()
	variants := []ed25519.Variant{ed25519.VariantTink, ed25519.VariantCrunchy, ed25519.VariantLegacy, ed25519.VariantNoPrefix}
	for vi, v := range variants {
		params, err := ed25519.NewParameters(v)
		if err != nil {
			o.Violate("ed25519.NewParameters: %v", err)
			continue
		}
		priv, err := ed25519.NewPrivateKey(hlib.Secret(rng.Bytes(32)), idFor(rng, vi == 3), params)
		if err != nil {
			o.Violate("ed25519.NewPrivateKey: %v", err)
			continue
		}
		routes := e.sigRoutes("ed25519", priv, func() (tink.Signer, tink.Verifier, error) {
			s, err := ed25519.NewSigner(priv, internalapi.Token{})
			if err != nil {
				return nil, nil, err
			}
			pk, _ := priv.PublicKey()
			vf, err := ed25519.NewVerifier(pk.(*ed25519.PublicKey), internalapi.Token{})
			return s, vf, err
		})
		for _, r := range routes {
			msg := rng.Bytes(rng.MsgLen(100))
			sig, _, _, err := e.sign(r.s, true, nil, msg)
			if err != nil {
				o.Violate("%s: signing failed: %v", r.label, err)
				continue
			}
			e.expectPattern("ed25519/sign", "-")
			sig2, _, _, _ := e.sign(r.s, true, nil, msg)
			if !bytes.Equal(sig, sig2) {
				o.Violate("%s: Ed25519 signatures of one message differ", r.label)
			}
			o.Count("ed25519/deterministic-draws-nothing")
		}
	}
}

// ---------- composite ML-DSA: ML-DSA half from the first 32 tape bytes, classical half after it ----------

func (e *env) compositeSection(rng *hlib.Rng) {
	o := e.o
	combos := []struct {
		name   string
		alg    pcomp.ClassicalAlgorithm
		ialg   icomp.ClassicalAlgorithm
		inst   pcomp.MLDSAInstance
		iinst  icomp.MLDSAInstance
		set    string
		par    *imldsa.VerifParams
		sigLen int
		cl     string // read pattern of the classical half
	}{
		{"MLDSA65-Ed25519", pcomp.Ed25519, icomp.Ed25519, pcomp.MLDSA65, icomp.MLDSA65, "65", imldsa.MLDSA65, 3309, ""},
		{"MLDSA65-ECDSA-P256", pcomp.ECDSAP256, icomp.ECDSAP256, pcomp.MLDSA65, icomp.MLDSA65, "65", imldsa.MLDSA65, 3309, "32"},
		{"MLDSA87-ECDSA-P384", pcomp.ECDSAP384, icomp.ECDSAP384, pcomp.MLDSA87, icomp.MLDSA87, "87", imldsa.MLDSA87, 4627, "48"},
		{"MLDSA87-ECDSA-P521", pcomp.ECDSAP521, icomp.ECDSAP521, pcomp.MLDSA87, icomp.MLDSA87, "87", imldsa.MLDSA87, 4627, "66"},
	}
	variants := []pcomp.Variant{pcomp.VariantTink, pcomp.VariantNoPrefix}
	for ci, c := range combos {
		for rep := 0; rep < hlib.N(1, 4); rep++ {
			o.Case()
			vi := (ci + rep) % 2
			params, err := pcomp.NewParameters(c.alg, c.inst, variants[vi])
			if err != nil {
				o.Violate("compositemldsa.NewParameters(%s): %v", c.name, err)
				continue
			}
			m := keyset.NewManager()
			var id uint32
			e.t.run(nil, func() { id, err = m.AddNewKeyFromParameters(params) })
			if err != nil {
				o.Violate("composite key generation (%s): %v", c.name, err)
				continue
			}
			// ML-DSA seed (32) then the classical key: both from the tape
			o.Count("pattern/composite-keygen/" + c.name + "=" + e.t.Pattern())
			es, _ := keyset.VerifManagerDump(m)
			priv, ok := es[0].Key.(*pcomp.PrivateKey)
			if !ok {
				o.Violate("composite key generation (%s): key is %T", c.name, es[0].Key)
				continue
			}
			_ = id
			var seed [32]byte
			copy(seed[:], sdata(priv.MLDSAPrivateKey().PrivateKeyBytes()))
			if len(e.t.Log) < 2 || !bytes.Equal(e.t.Log[1], seed[:]) {
				o.Violate("composite key generation (%s): the ML-DSA seed is not the 32 bytes drawn after the key id", c.name)
			}
			_, isk := c.par.KeyGenFromSeed(seed)
			skTok := hlib.Tok(isk.Encode())
			label, err := icomp.ComputeLabel(c.iinst, c.ialg)
			if err != nil {
				o.Violate("ComputeLabel(%s): %v", c.name, err)
				continue
			}
			routes := e.sigRoutes("composite/"+c.name+"/"+[]string{"TINK", "RAW"}[vi], priv, func() (tink.Signer, tink.Verifier, error) {
				s, err := pcomp.NewSigner(priv, internalapi.Token{})
				if err != nil {
					return nil, nil, err
				}
				pk, _ := priv.PublicKey()
				v, err := pcomp.NewVerifier(pk.(*pcomp.PublicKey), internalapi.Token{})
				return s, v, err
			})
			for _, r := range routes {
				msg := rng.Bytes(rng.MsgLen(100))
				sig, log, drawn, err := e.sign(r.s, false, nil, msg)
				pre := priv.OutputPrefix()
				if err != nil || !bytes.HasPrefix(sig, pre) || len(sig) < len(pre)+c.sigLen {
					o.Violate("%s: signing failed or wrong shape: %v", r.label, err)
					continue
				}
				want := "32"
				if c.cl != "" {
					want += "," + c.cl
				}
				o.Count("pattern/composite/" + c.name + "=" + patternOf(log))
				if patternOf(log) != want {
					o.Violate("%s: read pattern %s, want %s", r.label, patternOf(log), want)
					continue
				}
				mPrime := icomp.ComputeMessagePrime(label, msg)
				o.Emit("!D sign "+c.set+" "+skTok+" "+hlib.Tok(fmtMsg([]byte(label), mPrime))+" "+hlib.Tok(log[0]), "ok "+hlib.Tok(sig[len(pre):len(pre)+c.sigLen]), true)
				o.Count("composite/" + c.name + "/mldsa-half-from-tape")
				if err := r.v.Verify(sig, msg); err != nil {
					o.Violate("%s: own signature rejected: %v", r.label, err)
				}
				sig2, _, _, err := e.sign(r.s, false, nil, msg)
				if err != nil || bytes.Equal(sig[:len(pre)+c.sigLen], sig2[:len(pre)+c.sigLen]) || (c.cl != "" && bytes.Equal(sig[len(pre)+c.sigLen:], sig2[len(pre)+c.sigLen:])) {
					o.Violate("%s: a randomized half of two signatures of one message is equal", r.label)
				}
				sig3, _, _, err := e.sign(r.s, false, drawn, msg)
				if err != nil || !bytes.Equal(sig, sig3) {
					o.Violate("%s: replaying the tape does not reproduce the signature", r.label)
				}
				if c.cl != "" {
					// a flipped byte of the second read changes the classical half only
					d4 := clone(drawn)
					d4[32+rng.Intn(len(d4)-32)] ^= 1 << uint(rng.Intn(8))
					sig4, _, _, err := e.sign(r.s, false, d4, msg)
					if err != nil || !bytes.Equal(sig4[:len(pre)+c.sigLen], sig[:len(pre)+c.sigLen]) || bytes.Equal(sig4[len(pre)+c.sigLen:], sig[len(pre)+c.sigLen:]) {
						o.Violate("%s: flipping a byte of the classical half's randomness does not change exactly the classical half", r.label)
					}
				}
				o.Count("composite/differs+replay+perturb")
			}
		}
	}
}
