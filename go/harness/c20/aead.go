//go:build verif

package main

import (
	"bytes"
	"fmt"
	"strings"

	"github.com/tink-crypto/tink-go/v2/aead"
	"github.com/tink-crypto/tink-go/v2/aead/aesctrhmac"
	"github.com/tink-crypto/tink-go/v2/aead/aesgcm"
	"github.com/tink-crypto/tink-go/v2/aead/aesgcmsiv"
	"github.com/tink-crypto/tink-go/v2/aead/chacha20poly1305"
	asubtle "github.com/tink-crypto/tink-go/v2/aead/subtle"
	"github.com/tink-crypto/tink-go/v2/aead/xaesgcm"
	"github.com/tink-crypto/tink-go/v2/aead/xchacha20poly1305"
	"github.com/tink-crypto/tink-go/v2/core/registry"
	"github.com/tink-crypto/tink-go/v2/internal/internalapi"
	"github.com/tink-crypto/tink-go/v2/internal/primitiveregistry"
	"github.com/tink-crypto/tink-go/v2/internal/protoserialization"
	"github.com/tink-crypto/tink-go/v2/internal/verifharness/hlib"
	"github.com/tink-crypto/tink-go/v2/key"
	msubtle "github.com/tink-crypto/tink-go/v2/mac/subtle"
	"github.com/tink-crypto/tink-go/v2/tink"
)

// aeadScheme is one way of reaching one randomized AEAD under one key.
type aeadScheme struct {
	fam   string // family for the counters
	label string
	pfx   int // output prefix length (5 for TINK/CRUNCHY, 0 for RAW)
	n     int // length of the random field according to the key parameters
	a     tink.AEAD
	want  []byte // expected output prefix (nil: none)
}

var vnames = []string{"TINK", "CRUNCHY", "RAW"}

func prefixOf(vi int, id uint32) []byte {
	switch vi {
	case 0:
		return []byte{1, byte(id >> 24), byte(id >> 16), byte(id >> 8), byte(id)}
	case 1:
		return []byte{0, byte(id >> 24), byte(id >> 16), byte(id >> 8), byte(id)}
	}
	return nil
}

// aeadKeySpec describes how to make the key of one configuration and its legacy constructor.
type aeadKeySpec struct {
	fam    string
	cfg    string
	n      int
	mk     func(vi int, id uint32) (key.Key, error) // vi indexes vnames
	vis    []int
	subtle func() (tink.AEAD, error) // legacy aead/subtle constructor on the same key bytes (RAW)
}

func (e *env) aeadSpecs(rng *hlib.Rng) []*aeadKeySpec {
	var specs []*aeadKeySpec
	all := []int{0, 1, 2}
	gcmV := []aesgcm.Variant{aesgcm.VariantTink, aesgcm.VariantCrunchy, aesgcm.VariantNoPrefix}
	sivV := []aesgcmsiv.Variant{aesgcmsiv.VariantTink, aesgcmsiv.VariantCrunchy, aesgcmsiv.VariantNoPrefix}
	ccV := []chacha20poly1305.Variant{chacha20poly1305.VariantTink, chacha20poly1305.VariantCrunchy, chacha20poly1305.VariantNoPrefix}
	xcV := []xchacha20poly1305.Variant{xchacha20poly1305.VariantTink, xchacha20poly1305.VariantCrunchy, xchacha20poly1305.VariantNoPrefix}
	chV := []aesctrhmac.Variant{aesctrhmac.VariantTink, aesctrhmac.VariantCrunchy, aesctrhmac.VariantNoPrefix}
	for _, ks := range []int{16, 32} {
		ks := ks
		kb := rng.Bytes(ks)
		specs = append(specs, &aeadKeySpec{fam: "aesgcm", cfg: fmt.Sprintf("aesgcm-k%d-iv12", ks), n: 12, vis: all,
			mk: func(vi int, id uint32) (key.Key, error) {
				p, err := aesgcm.NewParameters(aesgcm.ParametersOpts{KeySizeInBytes: ks, IVSizeInBytes: 12, TagSizeInBytes: 16, Variant: gcmV[vi]})
				if err != nil {
					return nil, err
				}
				return aesgcm.NewKey(hlib.Secret(kb), id, p)
			},
			subtle: func() (tink.AEAD, error) { return asubtle.NewAESGCM(kb) }})
		kb2 := rng.Bytes(ks)
		specs = append(specs, &aeadKeySpec{fam: "aesgcmsiv", cfg: fmt.Sprintf("aesgcmsiv-k%d", ks), n: 12, vis: all,
			mk: func(vi int, id uint32) (key.Key, error) {
				p, err := aesgcmsiv.NewParameters(ks, sivV[vi])
				if err != nil {
					return nil, err
				}
				return aesgcmsiv.NewKey(hlib.Secret(kb2), id, p)
			},
			subtle: func() (tink.AEAD, error) { return asubtle.NewAESGCMSIV(kb2) }})
	}
	{
		kb := rng.Bytes(32)
		specs = append(specs, &aeadKeySpec{fam: "chacha20poly1305", cfg: "chacha20poly1305", n: 12, vis: all,
			mk: func(vi int, id uint32) (key.Key, error) {
				p, err := chacha20poly1305.NewParameters(ccV[vi])
				if err != nil {
					return nil, err
				}
				return chacha20poly1305.NewKey(hlib.Secret(kb), id, p)
			},
			subtle: func() (tink.AEAD, error) { return asubtle.NewChaCha20Poly1305(kb) }})
		kb2 := rng.Bytes(32)
		specs = append(specs, &aeadKeySpec{fam: "xchacha20poly1305", cfg: "xchacha20poly1305", n: 24, vis: all,
			mk: func(vi int, id uint32) (key.Key, error) {
				p, err := xchacha20poly1305.NewParameters(xcV[vi])
				if err != nil {
					return nil, err
				}
				return xchacha20poly1305.NewKey(hlib.Secret(kb2), id, p)
			},
			subtle: func() (tink.AEAD, error) { return asubtle.NewXChaCha20Poly1305(kb2) }})
	}
	hashes := []struct {
		name string
		id   aesctrhmac.HashType
		max  int
	}{{"SHA1", aesctrhmac.SHA1, 20}, {"SHA224", aesctrhmac.SHA224, 28}, {"SHA256", aesctrhmac.SHA256, 32}, {"SHA384", aesctrhmac.SHA384, 48}, {"SHA512", aesctrhmac.SHA512, 64}}
	for iv := 12; iv <= 16; iv++ {
		iv := iv
		reps := 1
		if hlib.Thorough() {
			reps = 3
		}
		for r := 0; r < reps; r++ {
			aesLen := rng.Pick(16, 32)
			h := hashes[rng.Intn(len(hashes))]
			macLen := rng.Pick(16, 20, 32, 64)
			tag := 10 + rng.Intn(h.max-9)
			ak, mk := rng.Bytes(aesLen), rng.Bytes(macLen)
			specs = append(specs, &aeadKeySpec{fam: "aesctrhmac", cfg: fmt.Sprintf("aesctrhmac-k%d-iv%d-%s-tag%d", aesLen, iv, h.name, tag), n: iv, vis: all,
				mk: func(vi int, id uint32) (key.Key, error) {
					p, err := aesctrhmac.NewParameters(aesctrhmac.ParametersOpts{AESKeySizeInBytes: aesLen, HMACKeySizeInBytes: macLen, IVSizeInBytes: iv,
						TagSizeInBytes: tag, HashType: h.id, Variant: chV[vi]})
					if err != nil {
						return nil, err
					}
					return aesctrhmac.NewKey(aesctrhmac.KeyOpts{AESKeyBytes: hlib.Secret(ak), HMACKeyBytes: hlib.Secret(mk), IDRequirement: id, Parameters: p})
				},
				subtle: func() (tink.AEAD, error) {
					ctr, err := asubtle.NewAESCTR(ak, iv)
					if err != nil {
						return nil, err
					}
					m, err := msubtle.NewHMAC(h.name, mk, uint32(tag))
					if err != nil {
						return nil, err
					}
					return asubtle.NewEncryptThenAuthenticate(ctr, m, tag)
				}})
		}
	}
	xaV := []xaesgcm.Variant{xaesgcm.VariantTink, 0, xaesgcm.VariantNoPrefix}
	for salt := 8; salt <= 12; salt++ {
		salt := salt
		kb := rng.Bytes(32)
		specs = append(specs, &aeadKeySpec{fam: "xaesgcm", cfg: fmt.Sprintf("xaesgcm-salt%d", salt), n: salt + 12, vis: []int{0, 2},
			mk: func(vi int, id uint32) (key.Key, error) {
				p, err := xaesgcm.NewParameters(xaV[vi], salt)
				if err != nil {
					return nil, err
				}
				return xaesgcm.NewKey(hlib.Secret(kb), id, p)
			}})
	}
	return specs
}

// schemesOf builds every route to the AEAD of one key.
func (e *env) schemesOf(sp *aeadKeySpec, vi int, id uint32) []*aeadScheme {
	o := e.o
	if vi == 2 {
		id = 0
	}
	k, err := sp.mk(vi, id)
	if err != nil {
		o.Violate("%s/%s: key construction failed: %v", sp.cfg, vnames[vi], err)
		return nil
	}
	pre := prefixOf(vi, id)
	var out []*aeadScheme
	add := func(path string, a tink.AEAD, pre []byte) {
		out = append(out, &aeadScheme{fam: sp.fam, label: sp.cfg + "/" + vnames[vi] + "/" + path, pfx: len(pre), n: sp.n, a: a, want: pre})
	}
	// 1. keyset level
	e.t.Strict = false // HandleOf draws nothing relevant here; ids are fixed by the key
	h, err := hlib.HandleOf(k)
	if err != nil {
		o.Violate("%s: handle: %v", sp.cfg, err)
		return nil
	}
	if a, err := aead.New(h); err != nil {
		o.Violate("%s/%s: aead.New(handle): %v", sp.cfg, vnames[vi], err)
	} else {
		add("handle", a, pre)
	}
	// 2. the per-key full primitive
	if p, err := primitiveregistry.Primitive(k); err != nil {
		o.Count("aead/no-primitive-constructor/" + sp.fam)
	} else if a, ok := p.(tink.AEAD); ok {
		add("perkey", a, pre)
	}
	switch kk := k.(type) {
	case *aesgcm.Key:
		if a, err := aesgcm.NewAEAD(kk); err == nil {
			add("NewAEAD", a, pre)
		} else {
			o.Violate("%s: aesgcm.NewAEAD: %v", sp.cfg, err)
		}
	case *xaesgcm.Key:
		if a, err := xaesgcm.NewAEAD(kk, internalapi.Token{}); err == nil {
			add("NewAEAD", a, pre)
		} else {
			o.Violate("%s: xaesgcm.NewAEAD: %v", sp.cfg, err)
		}
	}
	// 3. the legacy key manager (raw primitive: never a prefix)
	if ser, err := protoserialization.SerializeKey(k); err == nil {
		if p, err := registry.Primitive(ser.KeyData().GetTypeUrl(), ser.KeyData().GetValue()); err == nil {
			if a, ok := p.(tink.AEAD); ok {
				add("keymanager", a, nil)
			}
		} else {
			o.Count("aead/no-key-manager/" + sp.fam)
		}
	}
	// 4. aead/subtle on the raw key bytes
	if vi == 2 && sp.subtle != nil {
		if a, err := sp.subtle(); err != nil {
			o.Violate("%s: subtle constructor: %v", sp.cfg, err)
		} else {
			add("subtle", a, nil)
		}
	}
	return out
}

func (e *env) aeadSection() {
	o := e.o
	rng := e.rng("aead")
	singles := hlib.N(8, 40)
	hists := hlib.N(3, 10)
	for _, sp := range e.aeadSpecs(rng) {
		for _, vi := range sp.vis {
			o.Case()
			for _, s := range e.schemesOf(sp, vi, rng.KeyID()) {
				e.aeadCheck(rng, s, singles, hists)
			}
		}
	}
	e.aesCtrSection(rng)
}

// encStrict runs one Encrypt under the strict tape.
func (e *env) encStrict(a tink.AEAD, forced, pt, ad []byte) (ct []byte, log [][]byte, drawn []byte, err error) {
	e.t.Strict = true
	defer func() { e.t.Strict = false }()
	log, drawn = e.t.run(forced, func() { ct, err = a.Encrypt(pt, ad) })
	return
}

func (e *env) aeadCheck(rng *hlib.Rng, s *aeadScheme, singles, hists int) {
	o := e.o
	cat := "aead/" + s.fam
	path := s.label[strings.LastIndex(s.label, "/")+1:]
	for i := 0; i < singles; i++ {
		pt, ad := rng.Bytes(rng.MsgLen(300)), rng.Bytes(rng.MsgLen(64))
		ct, _, drawn, err := e.encStrict(s.a, nil, pt, ad)
		if err != nil {
			o.Violate("%s: Encrypt failed: %v", s.label, err)
			return
		}
		e.expectPattern(cat, fmt.Sprint(s.n))
		if !bytes.HasPrefix(ct, s.want) {
			o.Violate("%s: ciphertext does not start with the key's output prefix %x", s.label, s.want)
		}
		// one line: exactly n bytes drawn AND they are the field of the ciphertext
		o.Emit(fmt.Sprintf("!R field %d %d %s", s.pfx, s.n, hlib.Tok(ct)), hlib.Tok(drawn), true)
		o.Count(cat + "/field/" + path)
		o.Count("aead/variant/" + map[int]string{5: "prefixed", 0: "raw"}[s.pfx])
		if back, err := s.a.Decrypt(ct, ad); err != nil || !bytes.Equal(back, pt) {
			o.Violate("%s: own ciphertext does not decrypt", s.label)
		}
		if i > 0 {
			continue
		}
		// replay: the same tape gives the same ciphertext
		ct2, _, _, err := e.encStrict(s.a, drawn, pt, ad)
		if err != nil || !bytes.Equal(ct, ct2) {
			o.Violate("%s: replaying the tape does not reproduce the ciphertext (randomness from elsewhere?)", s.label)
		}
		o.Count(cat + "/replay")
		// one flipped tape byte: exactly the corresponding field byte changes inside the field
		if len(drawn) == s.n && s.n > 0 {
			j := rng.Intn(s.n)
			d3 := clone(drawn)
			d3[j] ^= 1 << uint(rng.Intn(8))
			ct3, _, drawn3, err := e.encStrict(s.a, d3, pt, ad)
			f3 := field(ct3, s.pfx, s.n)
			if err != nil || !bytes.Equal(drawn3, d3) || !bytes.Equal(f3, d3) || bytes.Equal(ct3, ct) || !bytes.Equal(ct3[:s.pfx], ct[:s.pfx]) {
				o.Violate("%s: flipping tape byte %d does not flip exactly field byte %d of the output", s.label, j, j)
			} else if len(ct3) > s.pfx+s.n && bytes.Equal(ct3[s.pfx+s.n:], ct[s.pfx+s.n:]) && len(pt) > 0 {
				o.Violate("%s: the payload does not depend on the nonce", s.label)
			}
			o.Emit(fmt.Sprintf("!R field %d %d %s", s.pfx, s.n, hlib.Tok(ct3)), hlib.Tok(drawn3), true)
			o.Count(cat + "/perturb")
		}
	}
	// histories: k consecutive calls draw k consecutive windows
	for hI := 0; hI < hists; hI++ {
		k := 2 + rng.Intn(19)
		e.t.Reset()
		e.t.Strict = true
		var fs [][]byte
		ns := make([]int, k)
		seen := map[string]bool{}
		for i := 0; i < k; i++ {
			ct, err := s.a.Encrypt(rng.Bytes(rng.Intn(40)), rng.Bytes(rng.Intn(8)))
			if err != nil {
				o.Violate("%s: Encrypt failed: %v", s.label, err)
				e.t.Strict = false
				return
			}
			f := field(ct, s.pfx, s.n)
			if seen[string(f)] {
				o.Violate("%s: nonce field %x repeated within %d calls", s.label, f, k)
			}
			seen[string(f)] = true
			fs = append(fs, f)
			ns[i] = s.n
		}
		all := e.t.Drawn()
		e.t.Strict = false
		o.Emit(fmt.Sprintf("!R hist %s %s", hlib.Tok(all), lensCSV(ns)), toks(fs), true)
		o.Count(cat + "/history")
		o.Count(fmt.Sprintf("aead/history-len/%02d", k))
	}
}

// aesCtrSection: the IND-CPA cipher of aead/subtle on its own (iv ‖ ciphertext), every iv size.
func (e *env) aesCtrSection(rng *hlib.Rng) {
	o := e.o
	o.Case()
	for iv := 12; iv <= 16; iv++ {
		for _, ks := range []int{16, 32} {
			c, err := asubtle.NewAESCTR(rng.Bytes(ks), iv)
			if err != nil {
				o.Violate("subtle.NewAESCTR(%d, %d): %v", ks, iv, err)
				continue
			}
			for i := 0; i < hlib.N(2, 10); i++ {
				pt := rng.Bytes(rng.MsgLen(200))
				var ct []byte
				e.t.Strict = true
				_, drawn := e.t.run(nil, func() { ct, err = c.Encrypt(pt) })
				e.t.Strict = false
				if err != nil {
					o.Violate("subtle AESCTR encrypt: %v", err)
					continue
				}
				e.expectPattern("aead/subtle-aesctr", fmt.Sprint(iv))
				o.Emit(fmt.Sprintf("!R field 0 %d %s", iv, hlib.Tok(ct)), hlib.Tok(drawn), true)
				o.Count("aead/subtle-aesctr/field")
			}
		}
	}
}
