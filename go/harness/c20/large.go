//go:build verif

package main

// LARGE-SIZES section of c20: the consumption discipline at sizes around k·64 KiB.
//
// Everything the other sections check at 16..300 bytes is repeated where an implementation is most likely to
// switch to another code path: key sizes / message sizes / plaintext sizes 2^16−1, 2^16, 2^16+1, 2^17, …, 1 MiB+1.
//
//   key generation   every key type whose key size has no upper bound (HMAC, HMAC-PRF, HKDF-PRF, JWT-HMAC, both
//                    streaming AEADs' main key) through every generation route, and the raw generators
//                    (secretdata.NewBytesFromRand, subtle/random.GetRandomBytes): the key bytes are, byte for
//                    byte and in order, the bytes drawn after the key id; exactly `size` bytes are drawn; no
//                    constant run. Model line `!R histgen` (the tape model's `fields` over a window written
//                    compactly) under a forced tape, full-hex `!R hist` for a few sizes under the natural tape.
//   signing          ML-DSA / SLH-DSA: the signature is the reference's Sign_internal with rnd = the bytes
//                    drawn (`!R mldsasign`, `!R slhsign`, message written `@len:seed`); RSA-PSS: the salt the
//                    reference recovers is the tape (`!R psssaltgen`); ECDSA: one read of len(d), a function of
//                    the tape; Ed25519 / RSA-PKCS1: nothing drawn; JWT signing with claims sized so that the
//                    signing input lies just below / at 64 KiB. In every case: the read pattern is the one of
//                    small inputs, two signatures differ, replaying the tape reproduces the signature, a flipped
//                    tape byte changes it.
//   encryption       AEAD nonces, KMS envelope, HPKE / ECIES ephemerals, streaming headers with large plaintexts
//                    and large associated data: pattern, field = tape, two calls differ, replay.
//   deterministic    MAC / PRF / deterministic AEAD on large inputs draw nothing.

import (
	"bytes"
	"crypto/sha256"
	"encoding/base64"
	"encoding/binary"
	"encoding/hex"
	"fmt"
	"io"
	"os"
	"strings"

	"github.com/tink-crypto/tink-go/v2/aead"
	"github.com/tink-crypto/tink-go/v2/core/registry"
	"github.com/tink-crypto/tink-go/v2/daead"
	"github.com/tink-crypto/tink-go/v2/hybrid/ecies"
	"github.com/tink-crypto/tink-go/v2/internal/internalapi"
	"github.com/tink-crypto/tink-go/v2/internal/keygenregistry"
	imldsa "github.com/tink-crypto/tink-go/v2/internal/signature/mldsa"
	islh "github.com/tink-crypto/tink-go/v2/internal/signature/slhdsa"
	"github.com/tink-crypto/tink-go/v2/internal/protoserialization"
	"github.com/tink-crypto/tink-go/v2/internal/verifharness/hlib"
	"github.com/tink-crypto/tink-go/v2/jwt"
	"github.com/tink-crypto/tink-go/v2/jwt/jwthmac"
	"github.com/tink-crypto/tink-go/v2/jwt/jwtmldsa"
	"github.com/tink-crypto/tink-go/v2/key"
	"github.com/tink-crypto/tink-go/v2/keyset"
	"github.com/tink-crypto/tink-go/v2/mac"
	"github.com/tink-crypto/tink-go/v2/mac/hmac"
	"github.com/tink-crypto/tink-go/v2/prf"
	"github.com/tink-crypto/tink-go/v2/prf/hkdfprf"
	"github.com/tink-crypto/tink-go/v2/prf/hmacprf"
	"github.com/tink-crypto/tink-go/v2/secretdata"
	"github.com/tink-crypto/tink-go/v2/signature/ecdsa"
	"github.com/tink-crypto/tink-go/v2/signature/ed25519"
	pmldsa "github.com/tink-crypto/tink-go/v2/signature/mldsa"
	"github.com/tink-crypto/tink-go/v2/signature/rsassapkcs1"
	"github.com/tink-crypto/tink-go/v2/signature/rsassapss"
	pslh "github.com/tink-crypto/tink-go/v2/signature/slhdsa"
	trandom "github.com/tink-crypto/tink-go/v2/subtle/random"
	"github.com/tink-crypto/tink-go/v2/tink"

	tinkpb "github.com/tink-crypto/tink-go/v2/proto/tink_go_proto"
)

// genMsg: the compact byte strings of the `@<len>:<seedhex>` tokens (Driver/Sym.lean genBytes):
// byte i = seed[i mod |seed|] + i + (i >> 8) mod 256. Seeds here have 7 bytes: the period of the
// sequence is then 7·65536, so that two 64 KiB chunks of one window never coincide.
func genMsg(seed []byte, n int) []byte {
	b := make([]byte, n)
	m := len(seed)
	for i := range b {
		s := 0
		if m > 0 {
			s = int(seed[i%m])
		}
		b[i] = byte(s + i + i>>8)
	}
	return b
}

func genTok(seed []byte, n int) string { return fmt.Sprintf("@%d:%s", n, hlib.Tok(seed)) }

// showField mirrors Driver/Rand.lean showField: long fields by length and SHA-256.
func showField(f []byte) string {
	if len(f) <= 64 {
		return hlib.Tok(f)
	}
	h := sha256.Sum256(f)
	return fmt.Sprintf("#%d:%s", len(f), hex.EncodeToString(h[:]))
}

func showFields(parts [][]byte) string {
	ss := make([]string, len(parts))
	for i, p := range parts {
		ss[i] = showField(p)
	}
	return strings.Join(ss, " ")
}

// cutBy cuts b at the cumulative offsets of ns (as far as b reaches).
func cutBy(b []byte, ns []int) [][]byte {
	var out [][]byte
	for _, n := range ns {
		if n > len(b) {
			n = len(b)
		}
		out = append(out, b[:n])
		b = b[n:]
	}
	return out
}

func lensOf(log [][]byte) []int {
	ns := make([]int, len(log))
	for i, l := range log {
		ns[i] = len(l)
	}
	return ns
}

func firstDiff(a, b []byte) int {
	for i := 0; i < len(a) && i < len(b); i++ {
		if a[i] != b[i] {
			return i
		}
	}
	return min(len(a), len(b))
}

// longestZeroRun: the longest run of one repeated byte value 0x00 in b and where it starts.
func longestZeroRun(b []byte) (best, at int) {
	run := 0
	for i, x := range b {
		if x == 0 {
			run++
			if run > best {
				best, at = run, i-run+1
			}
		} else {
			run = 0
		}
	}
	return
}

// the size grid k·2^16 + d
func largeKeySizes() []int {
	s := []int{65535, 65536, 65537, 70000, 100000, 131072, 200000}
	if hlib.Thorough() {
		s = append(s, 65534, 65538, 98304, 131071, 131073, 196607, 196608, 196609, 262144, 262145, 1<<20 - 1, 1 << 20, 1<<20 + 1)
	}
	return s
}

func largeMsgSizes() []int {
	s := []int{65533, 65534, 65535, 65536, 65537, 100000, 131071, 131072, 131073}
	if hlib.Thorough() {
		s = append(s, 65516, 65525, 65531, 65532, 65538, 65539, 65545, 65556, 131070, 131074, 196608, 196609, 262144, 1 << 20, 1<<20 + 1, 2<<20 + 3)
	}
	return s
}

func (e *env) largeSection() {
	rng := e.rng("large")
	e.largeKeygen(rng)
	lap("large-keygen")
	e.largeRaw(rng)
	lap("large-raw")
	e.largeSig(rng)
	lap("large-sig")
	e.largeJWT(rng)
	lap("large-jwt")
	e.largeAEAD(rng)
	lap("large-aead")
	e.largeHybrid(rng)
	lap("large-hybrid")
	e.largeStream(rng)
	lap("large-stream")
	e.largeDeterministic(rng)
}

// ---------- key material of large sizes ----------

// largeDraw runs a generator of n bytes of secret material (after a 4-byte key id when withID) twice:
// under the natural tape (oracle: material = the bytes drawn, in order; exactly n drawn; no constant run; optional
// full-hex model line) and under a forced, compactly written tape (model line `!R histgen`).
// gen returns the material, the id and whether the route is available.
func (e *env) largeDraw(rng *hlib.Rng, label string, n int, withID bool, hexLine bool, seen map[string]bool, gen func() (mat []byte, id uint32, err error)) bool {
	o := e.o
	idLen := 0
	if withID {
		idLen = 4
	}
	var mat []byte
	var id uint32
	var err error
	e.t.Strict = true
	log, drawn := e.t.run(nil, func() { mat, id, err = gen() })
	e.t.Strict = false
	if err != nil {
		o.Count("large/keygen/route-unavailable/" + label[:strings.Index(label+" ", " ")])
		if os.Getenv("C20_TIMING") != "" {
			fmt.Fprintf(os.Stderr, "c20: %s size %d unavailable: %v\n", label, n, err)
		}
		return false
	}
	pat := patternOf(log)
	switch pat {
	case fmt.Sprint(n):
		pat = "n"
	case "4," + fmt.Sprint(n):
		pat = "4,n"
	}
	o.Count(fmt.Sprintf("pattern/large/%s=%s", label[:strings.Index(label+" ", " ")], pat))
	ok := true
	bad := func(f string, a ...any) {
		ok = false
		o.Violate("%s, size %d: "+f, append([]any{label, n}, a...)...)
	}
	if len(mat) != n {
		bad("the generated material has %d bytes", len(mat))
	}
	if len(drawn) != idLen+n {
		bad("%d bytes drawn from crypto/rand (reads %s), want %d", len(drawn), patternOf(log), idLen+n)
	}
	if withID && (len(drawn) < 4 || binary.BigEndian.Uint32(drawn) != id) {
		bad("key id %d is not the first drawn word", id)
	}
	if len(drawn) >= idLen && !bytes.Equal(mat, drawn[idLen:]) {
		d := firstDiff(mat, drawn[idLen:])
		bad("key byte %d is not tape byte %d (the material is not the drawn bytes in order)", d, idLen+d)
	}
	if run, at := longestZeroRun(mat); run >= 12 {
		bad("%d constant zero bytes from offset %d of the generated material", run, at)
	}
	if seen[string(mat)] {
		bad("the same material generated twice")
	}
	seen[string(mat)] = true
	o.Count("large/keygen/material-from-tape")
	if hexLine && ok {
		whole := mat
		if withID {
			whole = cat(be32(id), mat)
		}
		// the natural tape's window written out in full (the model's array-backed tape: `hist` walks a list)
		o.Emit(fmt.Sprintf("!R histgen %s %s", hlib.Tok(drawn), lensCSV(lensOf(log))), showFields(cutBy(whole, lensOf(log))), true)
		o.Count("large/keygen/hist-hex")
	}
	// replay: the same tape gives the same material
	var mat2 []byte
	e.t.Strict = true
	e.t.run(drawn, func() { mat2, _, err = gen() })
	e.t.Strict = false
	if err != nil || !bytes.Equal(mat, mat2) {
		bad("replaying the tape gives other material")
	}
	// forced compact tape: the model's fields of the window against the material cut at the reads
	seed := rng.Bytes(7)
	var fid uint32
	winTok := genTok(seed, n)
	forced := genMsg(seed, n)
	if withID {
		fid = 0x40000000 | uint32(rng.U64())&0x3fffffff
		winTok = hlib.Tok(be32(fid)) + "+" + winTok
		forced = cat(be32(fid), forced)
	}
	var mat3 []byte
	var id3 uint32
	e.t.Strict = true
	log3, _ := e.t.run(forced, func() { mat3, id3, err = gen() })
	e.t.Strict = false
	if err != nil {
		bad("generation under the forced tape failed: %v", err)
		return false
	}
	whole := mat3
	if withID {
		whole = cat(be32(id3), mat3)
	}
	o.Emit(fmt.Sprintf("!R histgen %s %s", winTok, lensCSV(lensOf(log3))), showFields(cutBy(whole, lensOf(log3))), true)
	if len(mat3) != n || !bytes.Equal(mat3, genMsg(seed, n)) {
		bad("under the forced tape key byte %d is not tape byte %d", firstDiff(mat3, genMsg(seed, n)), idLen+firstDiff(mat3, genMsg(seed, n)))
	}
	o.Count("large/keygen/histgen")
	return ok
}

type largeFam struct {
	name   string
	params func(n int, raw bool) (key.Parameters, error)
}

func largeFams() []largeFam {
	return []largeFam{
		{"HMAC", func(n int, raw bool) (key.Parameters, error) {
			v := hmac.VariantTink
			if raw {
				v = hmac.VariantNoPrefix
			}
			return hmac.NewParameters(hmac.ParametersOpts{KeySizeInBytes: n, TagSizeInBytes: 16, HashType: hmac.SHA256, Variant: v})
		}},
		{"HMAC_PRF", func(n int, raw bool) (key.Parameters, error) { return hmacprf.NewParameters(n, hmacprf.SHA256) }},
		{"HKDF_PRF", func(n int, raw bool) (key.Parameters, error) { return hkdfprf.NewParameters(n, hkdfprf.SHA256, []byte("salt")) }},
		{"JWT_HMAC", func(n int, raw bool) (key.Parameters, error) {
			st := jwthmac.Base64EncodedKeyIDAsKID
			if raw {
				st = jwthmac.IgnoredKID
			}
			return jwthmac.NewParameters(n, st, jwthmac.HS256)
		}},
		// (the streaming AEADs' parameters admit any main-key size ≥ the derived size, but key generation refuses
		// everything except 16 and 32 bytes: not reachable)
	}
}

var largeRoutes = []string{"AddNewKeyFromParameters", "NewHandle", "Manager.Add", "CreateKey", "registry.NewKeyData"}

func (e *env) largeKeygen(rng *hlib.Rng) {
	o := e.o
	for fi, fam := range largeFams() {
		o.Case()
		seen := map[string]bool{}
		for si, n := range largeKeySizes() {
			raw := (fi+si)%2 == 1
			params, err := fam.params(n, raw)
			if err != nil {
				// a key size this family does not admit is not a finding of this property
				o.Count("large/keygen/params-refused/" + fam.name)
				continue
			}
			tpl, err := protoserialization.SerializeParameters(params)
			if err != nil {
				o.Count("large/keygen/params-unserializable/" + fam.name)
				continue
			}
			isRaw := tpl.GetOutputPrefixType() == tinkpb.OutputPrefixType_RAW
			routes := largeRoutes
			if !hlib.Thorough() {
				// two routes per (family, size), all five over the grid
				routes = []string{largeRoutes[(fi+si)%5], largeRoutes[(fi+si+2)%5]}
			}
			for ri, route := range routes {
				withID := route != "CreateKey" && route != "registry.NewKeyData"
				gen := func() (mat []byte, id uint32, err error) {
					var k key.Key
					switch route {
					case "NewHandle":
						var h *keyset.Handle
						if h, err = keyset.NewHandle(tpl); err == nil {
							var en *keyset.Entry
							if en, err = h.Primary(); err == nil {
								k, id = en.Key(), en.KeyID()
							}
						}
					case "Manager.Add", "AddNewKeyFromParameters":
						// a fresh manager per generation: a replayed tape must not meet its own earlier id
						mgr := keyset.NewManager()
						if route == "Manager.Add" {
							id, err = mgr.Add(tpl)
						} else {
							id, err = mgr.AddNewKeyFromParameters(params)
						}
						if err == nil {
							es, _ := keyset.VerifManagerDump(mgr)
							k = es[len(es)-1].Key
						}
					case "CreateKey":
						req := uint32(0)
						if !isRaw {
							req = 0x01020304
						}
						k, err = keygenregistry.CreateKey(params, req)
					case "registry.NewKeyData":
						var kd *tinkpb.KeyData
						if kd, err = registry.NewKeyData(tpl); err == nil {
							var ser *protoserialization.KeySerialization
							if ser, err = protoserialization.NewKeySerialization(kd, tinkpb.OutputPrefixType_RAW, 0); err == nil {
								k, err = protoserialization.ParseKey(ser)
							}
						}
					}
					if err != nil {
						return
					}
					m := keyMaterial(k)
					if len(m) != 1 {
						err = fmt.Errorf("cannot take the key apart (%T)", k)
						return
					}
					if req, need := k.IDRequirement(); withID && (need != !isRaw || (need && req != id)) {
						o.Violate("large keygen %s via %s: id requirement (%d,%v) does not match the keyset id %d", fam.name, route, req, need, id)
					}
					return m[0], id, nil
				}
				hexLine := ri == 0 && (n == 65537 || (hlib.Thorough() && n <= 70000))
				if e.largeDraw(rng, fmt.Sprintf("%s via %s", fam.name, route), n, withID, hexLine, seen, gen) {
					o.Count("large/keygen/" + fam.name)
					o.Count("large/keygen/route/" + route)
				}
			}
		}
	}
}

// largeRaw: the raw generators on the full grid.
func (e *env) largeRaw(rng *hlib.Rng) {
	o := e.o
	o.Case()
	var sizes []int
	ks := []int{1, 2, 3}
	ds := []int{-1, 0, 1}
	if hlib.Thorough() {
		ks = []int{1, 2, 3, 4, 5, 8, 15, 16, 17}
		ds = []int{-2, -1, 0, 1, 2, 255, 256, 4096}
	}
	for _, k := range ks {
		for _, d := range ds {
			sizes = append(sizes, k<<16+d)
		}
	}
	sizes = append(sizes, 70000, 100000, 200000, 1<<20+1)
	gens := []struct {
		name string
		f    func(n int) ([]byte, error)
	}{
		{"secretdata.NewBytesFromRand", func(n int) ([]byte, error) {
			b, err := secretdata.NewBytesFromRand(uint32(n))
			if err != nil {
				return nil, err
			}
			if b.Len() != n {
				return nil, fmt.Errorf("Len() = %d", b.Len())
			}
			return sdata(b), nil
		}},
		{"subtle/random.GetRandomBytes", func(n int) ([]byte, error) { return trandom.GetRandomBytes(uint32(n)), nil }},
	}
	for _, g := range gens {
		seen := map[string]bool{}
		for si, n := range sizes {
			ok := e.largeDraw(rng, g.name, n, false, si == 2 || (hlib.Thorough() && n < 66000), seen, func() ([]byte, uint32, error) {
				b, err := g.f(n)
				return b, 0, err
			})
			if ok {
				o.Count("large/raw/" + g.name)
			} else {
				o.Violate("%s(%d) failed", g.name, n)
			}
		}
	}
}

// ---------- signing large messages ----------

type largeSigner struct {
	label   string
	cat     string
	strict  bool
	pattern string // read pattern of one Sign ("-": deterministic, draws nothing)
	sign    func(msg []byte) ([]byte, error)
	verify  func(sig, msg []byte) error
	// model, when set, gives the property-level line for (message token, message, drawn bytes, signature)
	model func(msgTok string, drawn, sig []byte) (op, res string)
	// half: compare only sig[:half] for "two signatures differ" (0: all)
}

// largeSign: one message of L generated bytes through one signer.
func (e *env) largeSign(rng *hlib.Rng, s *largeSigner, L int) {
	o := e.o
	seed := rng.Bytes(7)
	msg := genMsg(seed, L)
	run := func(forced []byte) (sig []byte, log [][]byte, drawn []byte, err error) {
		e.t.Strict = s.strict
		log, drawn = e.t.run(forced, func() { sig, err = s.sign(msg) })
		e.t.Strict = false
		return
	}
	sig, log, drawn, err := run(nil)
	if err != nil {
		o.Violate("%s: signing a %d-byte message failed: %v", s.label, L, err)
		return
	}
	o.Count(fmt.Sprintf("pattern/large/%s=%s", s.cat, patternOf(log)))
	if patternOf(log) != s.pattern {
		o.Violate("%s: signing a %d-byte message: crypto/rand read pattern %s, for small messages and by the scheme's parameters %s", s.label, L, patternOf(log), s.pattern)
		return
	}
	if s.model != nil {
		op, res := s.model(genTok(seed, L), drawn, sig)
		o.Emit(op, res, true)
		o.Count("large/sig/" + s.cat + "/signature-from-tape")
	}
	if err := s.verify(sig, msg); err != nil {
		o.Violate("%s: own signature of a %d-byte message rejected: %v", s.label, L, err)
	}
	sig2, _, _, err := run(nil)
	if s.pattern == "-" {
		if err != nil || !bytes.Equal(sig, sig2) {
			o.Violate("%s: a deterministic scheme gives two signatures for one %d-byte message", s.label, L)
		}
		o.Count("large/sig/" + s.cat + "/deterministic-draws-nothing")
		return
	}
	if err != nil || bytes.Equal(sig, sig2) {
		o.Violate("%s: two signatures of one %d-byte message are equal", s.label, L)
	}
	sig3, _, _, err := run(drawn)
	if err != nil || !bytes.Equal(sig, sig3) {
		o.Violate("%s: replaying the tape does not reproduce the signature of a %d-byte message", s.label, L)
	}
	d4 := clone(drawn)
	d4[rng.Intn(len(d4))] ^= 1 << uint(rng.Intn(8))
	sig4, _, _, err := run(d4)
	if err != nil || bytes.Equal(sig, sig4) {
		o.Violate("%s: one flipped tape byte leaves the signature of a %d-byte message unchanged", s.label, L)
	}
	o.Count("large/sig/" + s.cat + "/differs+replay+perturb")
}

// pick: in the quick tier signer (i mod len) for size index i, all signers in the thorough tier.
func pickSigners(all []*largeSigner, i int) []*largeSigner {
	if hlib.Thorough() || len(all) == 0 {
		return all
	}
	return all[i%len(all) : i%len(all)+1]
}

func (e *env) largeSig(rng *hlib.Rng) {
	o := e.o
	sizes := largeMsgSizes()
	// ---- ML-DSA
	for si, set := range []struct {
		name string
		par  *imldsa.VerifParams
		inst pmldsa.Instance
	}{{"44", imldsa.MLDSA44, pmldsa.MLDSA44}, {"65", imldsa.MLDSA65, pmldsa.MLDSA65}, {"87", imldsa.MLDSA87, pmldsa.MLDSA87}} {
		o.Case()
		var seed [32]byte
		copy(seed[:], rng.Bytes(32))
		ipk, isk := set.par.KeyGenFromSeed(seed)
		skTok := hlib.Tok(isk.Encode())
		var all []*largeSigner
		mk := func(label string, pre, ctx []byte, sign func(msg []byte) ([]byte, error), verify func(sig, msg []byte) error) {
			all = append(all, &largeSigner{label: "ML-DSA-" + set.name + " " + label, cat: "mldsa" + set.name, strict: true, pattern: "32", sign: sign, verify: verify,
				model: func(msgTok string, drawn, sig []byte) (string, string) {
					if !bytes.HasPrefix(sig, pre) {
						return "!R mldsasign " + set.name + " " + skTok + " " + hlib.Tok(ctx) + " " + msgTok + " " + hlib.Tok(drawn), "wrong-prefix"
					}
					return "!R mldsasign " + set.name + " " + skTok + " " + hlib.Tok(ctx) + " " + msgTok + " " + hlib.Tok(drawn), "ok " + hlib.Tok(sig[len(pre):])
				}})
		}
		for vi, v := range []pmldsa.Variant{pmldsa.VariantTink, pmldsa.VariantNoPrefix} {
			priv, err := pmldsa.NewPrivateKey(hlib.Secret(seed[:]), idFor(rng, vi == 1), must(pmldsa.NewParameters(set.inst, v)))
			if err != nil {
				o.Violate("mldsa.NewPrivateKey: %v", err)
				continue
			}
			for _, r := range e.sigRoutes(fmt.Sprintf("mldsa%s/%s", set.name, []string{"TINK", "RAW"}[vi]), priv, func() (tink.Signer, tink.Verifier, error) {
				s, err := pmldsa.NewSigner(priv, internalapi.Token{})
				if err != nil {
					return nil, nil, err
				}
				pk, _ := priv.PublicKey()
				v, err := pmldsa.NewVerifier(pk.(*pmldsa.PublicKey), internalapi.Token{})
				return s, v, err
			}) {
				mk(r.label, priv.OutputPrefix(), nil, r.s.Sign, r.v.Verify)
			}
		}
		ctx := rng.Bytes(rng.Pick(1, 17, 255))
		mk("internal Sign with context", nil, ctx, func(msg []byte) ([]byte, error) { return isk.Sign(msg, ctx) },
			func(sig, msg []byte) error { return ipk.Verify(msg, sig, ctx) })
		for i, L := range sizes {
			for _, s := range pickSigners(all, i+si) {
				e.largeSign(rng, s, L)
			}
		}
	}
	lap("large-mldsa")
	// ---- SLH-DSA (the two sets whose signing is fast)
	for si, set := range []struct {
		name string
		p    interface {
			VerifKeygenInternal(skSeed, skPrf, pkSeed []byte) (*islh.SecretKey, *islh.PublicKey)
		}
		ht pslh.HashType
	}{{"SLH-DSA-SHA2-128f", islh.SLH_DSA_SHA2_128f, pslh.SHA2}, {"SLH-DSA-SHAKE-128f", islh.SLH_DSA_SHAKE_128f, pslh.SHAKE}} {
		o.Case()
		isk, _ := set.p.VerifKeygenInternal(rng.Bytes(16), rng.Bytes(16), rng.Bytes(16))
		skb := isk.Encode()
		var all []*largeSigner
		for vi, v := range []pslh.Variant{pslh.VariantTink, pslh.VariantNoPrefix} {
			priv, err := pslh.NewPrivateKey(hlib.Secret(skb), idFor(rng, vi == 1), must(pslh.NewParameters(set.ht, 64, pslh.FastSigning, v)))
			if err != nil {
				o.Violate("slhdsa.NewPrivateKey: %v", err)
				continue
			}
			pre := priv.OutputPrefix()
			for _, r := range e.sigRoutes(set.name+"/"+[]string{"TINK", "RAW"}[vi], priv, func() (tink.Signer, tink.Verifier, error) {
				s, err := pslh.NewSigner(priv, internalapi.Token{})
				if err != nil {
					return nil, nil, err
				}
				pk, _ := priv.PublicKey()
				v, err := pslh.NewVerifier(pk.(*pslh.PublicKey), internalapi.Token{})
				return s, v, err
			}) {
				all = append(all, &largeSigner{label: r.label, cat: "slhdsa/" + set.name, strict: true, pattern: "16", sign: r.s.Sign, verify: r.v.Verify,
					model: func(msgTok string, drawn, sig []byte) (string, string) {
						op := fmt.Sprintf("!R slhsign %s %s - %s %s", set.name, hlib.Tok(skb), msgTok, hlib.Tok(drawn))
						if !bytes.HasPrefix(sig, pre) {
							return op, "wrong-prefix"
						}
						return op, "ok " + hlib.Tok(sig[len(pre):])
					}})
			}
		}
		ss := []int{65533, 65534, 65536, 131072}
		if hlib.Thorough() {
			ss = sizes
		}
		for i, L := range ss {
			for _, s := range pickSigners(all, i+si) {
				e.largeSign(rng, s, L)
			}
		}
	}
	lap("large-slh")
	// ---- RSA-PSS (salt recovered by the reference), RSA-PKCS1 (draws nothing)
	rsaKey := e.rsa()
	nTok := hlib.Tok(rsaKey.N.Bytes())
	pv := rsassapss.PrivateKeyValues{P: hlib.Secret(rsaKey.Primes[0].Bytes()), Q: hlib.Secret(rsaKey.Primes[1].Bytes()), D: hlib.Secret(rsaKey.D.Bytes())}
	{
		o.Case()
		hashes := []struct {
			name string
			id   rsassapss.HashType
			salt int
		}{{"SHA256", rsassapss.SHA256, 32}, {"SHA384", rsassapss.SHA384, 48}, {"SHA512", rsassapss.SHA512, 64}, {"SHA256", rsassapss.SHA256, 20}}
		variants := []rsassapss.Variant{rsassapss.VariantTink, rsassapss.VariantCrunchy, rsassapss.VariantLegacy, rsassapss.VariantNoPrefix}
		var all []*largeSigner
		for c, h := range hashes {
			vi := c % 4
			params, err := rsassapss.NewParameters(rsassapss.ParametersValues{ModulusSizeBits: 2048, SigHashType: h.id, MGF1HashType: h.id,
				PublicExponent: 65537, SaltLengthBytes: h.salt}, variants[vi])
			if err != nil {
				o.Violate("rsassapss.NewParameters: %v", err)
				continue
			}
			pub, err := rsassapss.NewPublicKey(rsaKey.N.Bytes(), idFor(rng, vi == 3), params)
			if err != nil {
				o.Violate("rsassapss.NewPublicKey: %v", err)
				continue
			}
			priv, err := rsassapss.NewPrivateKey(pub, pv)
			if err != nil {
				o.Violate("rsassapss.NewPrivateKey: %v", err)
				continue
			}
			pre := priv.OutputPrefix()
			for _, r := range e.sigRoutes(fmt.Sprintf("rsapss/%s/salt%d/%d", h.name, h.salt, vi), priv, func() (tink.Signer, tink.Verifier, error) {
				s, err := rsassapss.NewSigner(priv, internalapi.Token{})
				if err != nil {
					return nil, nil, err
				}
				v, err := rsassapss.NewVerifier(pub, internalapi.Token{})
				return s, v, err
			}) {
				all = append(all, &largeSigner{label: r.label, cat: "rsapss", strict: true, pattern: fmt.Sprint(h.salt), sign: r.s.Sign, verify: r.v.Verify,
					model: func(msgTok string, drawn, sig []byte) (string, string) {
						if vi == 2 {
							msgTok += "+00" // LEGACY signs data ‖ 0x00
						}
						op := fmt.Sprintf("!R psssaltgen %s %d %s 010001 %s ", h.name, h.salt, nTok, msgTok)
						if !bytes.HasPrefix(sig, pre) {
							return op + "-", "wrong-prefix"
						}
						return op + hlib.Tok(sig[len(pre):]), "ok " + hlib.Tok(drawn)
					}})
			}
		}
		for i, L := range sizes {
			for _, s := range pickSigners(all, i) {
				e.largeSign(rng, s, L)
			}
		}
		// RSA-PKCS1: deterministic
		p1, err := rsassapkcs1.NewParameters(2048, rsassapkcs1.SHA256, 65537, rsassapkcs1.VariantTink)
		if err == nil {
			pub1, err1 := rsassapkcs1.NewPublicKey(rsaKey.N.Bytes(), 0x01020304, p1)
			if err1 == nil {
				priv1, err2 := rsassapkcs1.NewPrivateKey(pub1, rsassapkcs1.PrivateKeyValues{P: pv.P, Q: pv.Q, D: pv.D})
				if err2 == nil {
					for _, r := range e.sigRoutes("rsapkcs1", priv1, func() (tink.Signer, tink.Verifier, error) {
						s, err := rsassapkcs1.NewSigner(priv1, internalapi.Token{})
						if err != nil {
							return nil, nil, err
						}
						v, err := rsassapkcs1.NewVerifier(pub1, internalapi.Token{})
						return s, v, err
					}) {
						for _, L := range []int{65535, 65536, 131073} {
							e.largeSign(rng, &largeSigner{label: r.label, cat: "rsapkcs1", strict: true, pattern: "-", sign: r.s.Sign, verify: r.v.Verify}, L)
						}
					}
				} else {
					o.Violate("rsassapkcs1.NewPrivateKey: %v", err2)
				}
			} else {
				o.Violate("rsassapkcs1.NewPublicKey: %v", err1)
			}
		} else {
			o.Violate("rsassapkcs1.NewParameters: %v", err)
		}
	}
	lap("large-rsa")
	// ---- ECDSA: one read of len(d) (after the standard library's coin flip), a function of the tape
	{
		o.Case()
		cts := []ecdsa.CurveType{ecdsa.NistP256, ecdsa.NistP384, ecdsa.NistP521}
		hs := []ecdsa.HashType{ecdsa.SHA256, ecdsa.SHA384, ecdsa.SHA512}
		encs := []ecdsa.SignatureEncoding{ecdsa.DER, ecdsa.IEEEP1363}
		variants := []ecdsa.Variant{ecdsa.VariantTink, ecdsa.VariantCrunchy, ecdsa.VariantLegacy, ecdsa.VariantNoPrefix}
		c := 0
		for ci, cv := range curves {
			var all []*largeSigner
			for ei := range encs {
				vi := c % 4
				c++
				params, err := ecdsa.NewParameters(cts[ci], hs[ci], encs[ei], variants[vi])
				if err != nil {
					o.Violate("ecdsa.NewParameters: %v", err)
					continue
				}
				priv, err := ecdsa.NewPrivateKey(hlib.Secret(cv.scalar(rng)), idFor(rng, vi == 3), params)
				if err != nil {
					o.Violate("ecdsa.NewPrivateKey: %v", err)
					continue
				}
				for _, r := range e.sigRoutes(fmt.Sprintf("ecdsa/%s/%d/%d", cv.name, ei, vi), priv, func() (tink.Signer, tink.Verifier, error) {
					s, err := ecdsa.NewSigner(priv, internalapi.Token{})
					if err != nil {
						return nil, nil, err
					}
					pk, _ := priv.PublicKey()
					v, err := ecdsa.NewVerifier(pk.(*ecdsa.PublicKey), internalapi.Token{})
					return s, v, err
				}) {
					all = append(all, &largeSigner{label: r.label, cat: "ecdsa/" + cv.name, strict: false, pattern: fmt.Sprint(cv.bl), sign: r.s.Sign, verify: r.v.Verify})
				}
			}
			for i, L := range sizes {
				for _, s := range pickSigners(all, i) {
					e.largeSign(rng, s, L)
				}
			}
		}
	}
	// ---- Ed25519: deterministic
	{
		o.Case()
		for vi, v := range []ed25519.Variant{ed25519.VariantTink, ed25519.VariantLegacy, ed25519.VariantNoPrefix} {
			priv, err := ed25519.NewPrivateKey(hlib.Secret(rng.Bytes(32)), idFor(rng, vi == 2), must(ed25519.NewParameters(v)))
			if err != nil {
				o.Violate("ed25519.NewPrivateKey: %v", err)
				continue
			}
			for _, r := range e.sigRoutes("ed25519", priv, func() (tink.Signer, tink.Verifier, error) {
				s, err := ed25519.NewSigner(priv, internalapi.Token{})
				if err != nil {
					return nil, nil, err
				}
				pk, _ := priv.PublicKey()
				vf, err := ed25519.NewVerifier(pk.(*ed25519.PublicKey), internalapi.Token{})
				return s, vf, err
			}) {
				for _, L := range []int{65535, 65536, 65537, 131072} {
					e.largeSign(rng, &largeSigner{label: r.label, cat: "ed25519", strict: true, pattern: "-", sign: r.s.Sign, verify: r.v.Verify}, L)
				}
			}
		}
	}
	lap("large-ec")
}

// ---------- JWT signing with large claims ----------

func (e *env) largeJWT(rng *hlib.Rng) {
	o := e.o
	o.Case()
	mkRaw := func(L int) *jwt.RawJWT {
		return must(jwt.NewRawJWT(&jwt.RawJWTOptions{WithoutExpiration: true, CustomClaims: map[string]any{"x": strings.Repeat("a", L)}}))
	}
	type jwtScheme struct {
		name    string
		strict  bool
		pattern string
		sign    func(r *jwt.RawJWT) (string, error)
		model   func(unsigned string, drawn, sig []byte) (string, string)
	}
	var schemes []*jwtScheme
	addSigner := func(name string, strict bool, pattern string, h *keyset.Handle, model func(unsigned string, drawn, sig []byte) (string, string)) {
		s, err := jwt.NewSigner(h)
		if err != nil {
			o.Violate("jwt.NewSigner(%s): %v", name, err)
			return
		}
		schemes = append(schemes, &jwtScheme{name, strict, pattern, s.SignAndEncode, model})
	}
	e.t.Reset()
	if h, err := keyset.NewHandle(jwt.ES256Template()); err == nil {
		addSigner("ES256", false, "32", h, nil)
	} else {
		o.Violate("jwt ES256 key: %v", err)
	}
	if h, err := keyset.NewHandle(jwt.RawPS256_2048_F4_Key_Template()); err == nil {
		addSigner("PS256", true, "32", h, nil)
	} else {
		o.Violate("jwt PS256 key: %v", err)
	}
	for _, a := range []struct {
		alg jwtmldsa.Algorithm
		set string
		par *imldsa.VerifParams
	}{{jwtmldsa.MLDSA44, "44", imldsa.MLDSA44}, {jwtmldsa.MLDSA65, "65", imldsa.MLDSA65}, {jwtmldsa.MLDSA87, "87", imldsa.MLDSA87}} {
		params, err := jwtmldsa.NewParameters(jwtmldsa.Base64EncodedKeyIDAsKID, a.alg)
		if err != nil {
			o.Violate("jwtmldsa.NewParameters: %v", err)
			continue
		}
		m := keyset.NewManager()
		id, err := m.AddNewKeyFromParameters(params)
		if err != nil {
			o.Violate("jwt ML-DSA key generation: %v", err)
			continue
		}
		m.SetPrimary(id)
		h, err := m.Handle()
		if err != nil {
			o.Violate("jwt ML-DSA handle: %v", err)
			continue
		}
		es := keyset.VerifHandleDump(h)
		km := keyMaterial(es[0].Key)
		if len(km) != 1 || len(km[0]) != 32 {
			o.Violate("jwt ML-DSA key: cannot read the seed of %T", es[0].Key)
			continue
		}
		_, isk := a.par.KeyGenFromSeed([32]byte(km[0]))
		skTok := hlib.Tok(isk.Encode())
		addSigner("ML-DSA-"+a.set, true, "32", h, func(unsigned string, drawn, sig []byte) (string, string) {
			return "!R mldsasign " + a.set + " " + skTok + " - " + hlib.Tok([]byte(unsigned)) + " " + hlib.Tok(drawn), "ok " + hlib.Tok(sig)
		})
		if !hlib.Thorough() {
			break
		}
	}
	if h, err := keyset.NewHandle(jwt.HS256Template()); err == nil {
		if m, err := jwt.NewMAC(h); err == nil {
			schemes = append(schemes, &jwtScheme{"HS256", true, "-", m.ComputeMACAndEncode, nil})
		} else {
			o.Violate("jwt.NewMAC: %v", err)
		}
	}
	for _, s := range schemes {
		run := func(forced []byte, raw *jwt.RawJWT) (tok string, log [][]byte, drawn []byte, err error) {
			e.t.Strict = s.strict
			log, drawn = e.t.run(forced, func() { tok, err = s.sign(raw) })
			e.t.Strict = false
			return
		}
		unsignedLen := func(L int) int {
			tok, _, _, err := run(nil, mkRaw(L))
			if err != nil {
				return -1
			}
			return strings.LastIndex(tok, ".")
		}
		// claim sizes whose signing input header.payload lies just below and at/above the thresholds
		var Ls []int
		for _, T := range []int{65534, 65536, 131072} {
			L := T*3/4 - 200
			if u := unsignedLen(L); u >= 0 && u < T {
				L += max(0, (T-u)*3/4-4)
			}
			for unsignedLen(L) >= T && L > 0 {
				L -= 100
			}
			for i := 0; i < 400 && unsignedLen(L) < T; i++ {
				L++
			}
			Ls = append(Ls, L-1, L)
			if !hlib.Thorough() && T == 65536 {
				break
			}
		}
		Ls = append(Ls, 100000)
		for _, L := range Ls {
			raw := mkRaw(L)
			tok, log, drawn, err := run(nil, raw)
			if err != nil {
				o.Violate("jwt %s: signing a token with a %d-byte claim failed: %v", s.name, L, err)
				continue
			}
			dot := strings.LastIndex(tok, ".")
			o.Count(fmt.Sprintf("pattern/large/jwt-%s=%s", s.name, patternOf(log)))
			o.Count(fmt.Sprintf("large/jwt/%s/signing-input=%d", s.name, dot))
			if patternOf(log) != s.pattern {
				o.Violate("jwt %s: signing input of %d bytes: crypto/rand read pattern %s, for small tokens %s", s.name, dot, patternOf(log), s.pattern)
				continue
			}
			if s.model != nil {
				sig, err := base64.RawURLEncoding.DecodeString(tok[dot+1:])
				if err != nil {
					o.Violate("jwt %s: signature part is not base64url", s.name)
					continue
				}
				op, res := s.model(tok[:dot], drawn, sig)
				o.Emit(op, res, true)
				o.Count("large/jwt/" + s.name + "/signature-from-tape")
			}
			tok2, _, _, err := run(nil, raw)
			if s.pattern == "-" {
				if err != nil || tok2 != tok {
					o.Violate("jwt %s: a deterministic scheme gives two tokens", s.name)
				}
				continue
			}
			if err != nil || tok2 == tok {
				o.Violate("jwt %s: two signatures of one token (signing input %d bytes) are equal", s.name, dot)
			}
			tok3, _, _, err := run(drawn, raw)
			if err != nil || tok3 != tok {
				o.Violate("jwt %s: replaying the tape does not reproduce the token (signing input %d bytes)", s.name, dot)
			}
			o.Count("large/jwt/differs+replay")
		}
	}
}

// ---------- AEAD / envelope / hybrid / streaming with large plaintexts ----------

func (e *env) largeAEAD(rng *hlib.Rng) {
	o := e.o
	sizes := []int{65535, 65536, 65537, 131072}
	if hlib.Thorough() {
		sizes = append(sizes, 65519, 65520, 65521, 131071, 131073, 1 << 20, 1<<20 + 1)
	}
	c := 0
	for _, sp := range e.aeadSpecs(rng) {
		o.Case()
		vi := sp.vis[c%len(sp.vis)]
		schemes := e.schemesOf(sp, vi, rng.KeyID())
		if !hlib.Thorough() && len(schemes) > 0 {
			schemes = schemes[c%len(schemes) : c%len(schemes)+1]
		}
		for _, s := range schemes {
			ss := append([]int{65536}, sizes...)
			if !hlib.Thorough() {
				// 64 KiB exactly and one neighbour as plaintext, one large associated data
				ss = []int{65536, sizes[(c+1)%4], []int{65535, 65537, 131072}[c%3]}
			}
			for k, L := range ss {
				pt, ad := genMsg(rng.Bytes(7), L), rng.Bytes(rng.Intn(20))
				if k == 1 {
					// the large input is the associated data
					pt, ad = rng.Bytes(8+rng.Intn(32)), pt
				}
				ct, _, drawn, err := e.encStrict(s.a, nil, pt, ad)
				if err != nil {
					o.Violate("%s: Encrypt of %d bytes failed: %v", s.label, L, err)
					continue
				}
				cat := "aead/" + s.fam
				if !e.expectPattern(cat, fmt.Sprint(s.n)) {
					continue
				}
				if !bytes.HasPrefix(ct, s.want) || len(ct) < s.pfx+s.n+16 {
					o.Violate("%s: ciphertext of a %d-byte plaintext has the wrong shape", s.label, L)
					continue
				}
				// the field of the ciphertext is the bytes drawn (the line carries the head of the ciphertext)
				o.Emit(fmt.Sprintf("!R field %d %d %s", s.pfx, s.n, hlib.Tok(ct[:s.pfx+s.n+16])), hlib.Tok(drawn), true)
				o.Count("large/" + cat + "/field")
				if back, err := s.a.Decrypt(ct, ad); err != nil || !bytes.Equal(back, pt) {
					o.Violate("%s: own ciphertext of a %d-byte plaintext does not decrypt", s.label, L)
				}
				ct2, _, _, err := e.encStrict(s.a, nil, pt, ad)
				if err != nil || bytes.Equal(field(ct2, s.pfx, s.n), field(ct, s.pfx, s.n)) {
					o.Violate("%s: two encryptions of one %d-byte plaintext carry the same nonce field", s.label, L)
				}
				ct3, _, _, err := e.encStrict(s.a, drawn, pt, ad)
				if err != nil || !bytes.Equal(ct, ct3) {
					o.Violate("%s: replaying the tape does not reproduce the ciphertext of a %d-byte plaintext", s.label, L)
				}
				o.Count("large/" + cat + "/differs+replay")
			}
		}
		c++
	}
	// KMS envelope: DEK key material, KEK iv, payload nonce
	o.Case()
	kp := must(aesgcmParamsRaw())
	kek := &spyKEK{inner: must(aead.New(must(hlib.HandleOf(must(keygenregistry.CreateKey(kp, 0))))))}
	for _, tp := range []struct {
		t    *tinkpb.KeyTemplate
		want string
		n    int
	}{{aead.AES256GCMKeyTemplate(), "32,12,12", 12}, {aead.AES128CTRHMACSHA256KeyTemplate(), "16,32,12,16", 16}, {aead.XChaCha20Poly1305KeyTemplate(), "32,12,24", 24}} {
		env2 := aead.NewKMSEnvelopeAEAD2(tp.t, kek)
		for _, L := range sizes[:3] {
			pt, ad := genMsg(rng.Bytes(7), L), rng.Bytes(8)
			kek.deks = nil
			ct, _, drawn, err := e.encStrict(env2, nil, pt, ad)
			if err != nil || len(kek.deks) != 1 || len(ct) < 4 {
				o.Violate("kms envelope: Encrypt of %d bytes failed: %v", L, err)
				continue
			}
			if !e.expectPattern("kms/large", tp.want) {
				continue
			}
			l := int(binary.BigEndian.Uint32(ct))
			if len(ct) < 4+l+tp.n || l < 12 {
				o.Violate("kms envelope: short ciphertext")
				continue
			}
			// KEK iv and payload nonce are the last two windows of this call's tape
			o.Emit(fmt.Sprintf("!R hist %s %d,12,%d", hlib.Tok(drawn), len(drawn)-12-tp.n, tp.n),
				toks([][]byte{drawn[:len(drawn)-12-tp.n], ct[4 : 4+12], ct[4+l : 4+l+tp.n]}), true)
			if !bytes.Contains(kek.deks[0], drawn[:16]) {
				o.Violate("kms envelope: the DEK does not contain the first bytes drawn")
			}
			if back, err := env2.Decrypt(ct, ad); err != nil || !bytes.Equal(back, pt) {
				o.Violate("kms envelope: own ciphertext of a %d-byte plaintext does not decrypt", L)
			}
			prev := clone(kek.deks[0])
			kek.deks = nil
			if _, _, _, err := e.encStrict(env2, nil, pt, ad); err != nil || len(kek.deks) != 1 || bytes.Equal(prev, kek.deks[0]) {
				o.Violate("kms envelope: the same DEK for two encryptions of a %d-byte plaintext", L)
			}
			o.Count("large/kms")
		}
	}
}

func aesgcmParamsRaw() (key.Parameters, error) {
	return protoserialization.ParseParameters(aead.AES256GCMNoPrefixKeyTemplate())
}

func (e *env) largeHybrid(rng *hlib.Rng) {
	o := e.o
	sizes := []int{65535, 65536, 65537}
	if hlib.Thorough() {
		sizes = append(sizes, 131072, 1<<20+1)
	}
	// HPKE: P-256 (crypto/ecdh), X25519 (tink's own rand.Read), X-Wing (X25519 half)
	for _, ki := range []int{0, 3, 4} {
		o.Case()
		k := &kems[ki]
		vi := ki % 3
		priv, _, err := e.hpkeKey(rng, k, rng.Intn(3), rng.Intn(3), vi)
		if err != nil {
			o.Violate("hpke key %s: %v", k.name, err)
			continue
		}
		pre := 5
		if vi == 2 {
			pre = 0
		}
		routes := e.hybridRoutes("hpke-large "+k.name, priv, hpkePerKey(priv))
		for i, L := range sizes {
			s := routes[i%len(routes)]
			pt, info := genMsg(rng.Bytes(7), L), rng.Bytes(rng.Intn(20))
			if i == 2 {
				pt, info = rng.Bytes(20), pt // large context info
			}
			strict := k.curve == nil
			ct, log, drawn, err := e.hybEncrypt(s, strict, nil, pt, info)
			if err != nil || len(ct) < pre+k.nEnc {
				o.Violate("%s: Encrypt of %d bytes failed: %v", s.label, L, err)
				continue
			}
			o.Count("pattern/large/hpke-" + k.name + "=" + patternOf(log))
			if k.curve == nil {
				if !e.expectPattern("hpke/"+k.name, "32") {
					continue
				}
				o.Emit("!R x25519pub "+hlib.Tok(drawn), hlib.Tok(ct[pre+k.nEnc-32:pre+k.nEnc]), true)
			} else {
				if len(log) != 1 {
					o.Violate("%s: %d reads for the ephemeral of a %d-byte plaintext, want 1", s.label, len(log), L)
				}
				if _, err := k.curve.ephemeral(log); err != nil {
					o.Violate("%s: reads of crypto/ecdh GenerateKey do not explain themselves: %v", s.label, err)
					continue
				}
			}
			if back, err := s.dec.Decrypt(ct, info); err != nil || !bytes.Equal(back, pt) {
				o.Violate("%s: own ciphertext of a %d-byte plaintext does not decrypt", s.label, L)
			}
			ct2, _, _, err := e.hybEncrypt(s, strict, nil, pt, info)
			if err != nil || bytes.Equal(ct2[pre:pre+k.nEnc], ct[pre:pre+k.nEnc]) {
				o.Violate("%s: two encryptions of a %d-byte plaintext carry the same encapsulation", s.label, L)
			}
			if ki != 4 {
				ct3, _, _, err := e.hybEncrypt(s, strict, drawn, pt, info)
				if err != nil || !bytes.Equal(ct, ct3) {
					o.Violate("%s: replaying the tape does not reproduce the ciphertext of a %d-byte plaintext", s.label, L)
				}
			}
			o.Count("large/hpke/" + k.name)
		}
	}
	// ECIES P-256 with AES128-GCM and AES256-CTR-HMAC DEMs
	for _, mi := range []int{0, 3} {
		o.Case()
		c, dm := curves[0], &dems[mi]
		params, err := ecies.NewParameters(ecies.ParametersOpts{CurveType: ecies.NISTP256, HashType: ecies.SHA256, NISTCurvePointFormat: ecies.UncompressedPointFormat,
			DEMParameters: dm.params(), Salt: rng.Bytes(8), Variant: ecies.VariantTink})
		if err != nil {
			o.Violate("ecies.NewParameters: %v", err)
			continue
		}
		priv, err := ecies.NewPrivateKey(hlib.Secret(c.scalar(rng)), 0x0a0b0c0d, params)
		if err != nil {
			o.Violate("ecies.NewPrivateKey: %v", err)
			continue
		}
		pk, _ := priv.PublicKey()
		routes := e.hybridRoutes("ecies-large "+dm.name, priv, func() (tink.HybridEncrypt, tink.HybridDecrypt, error) {
			en, err := ecies.NewHybridEncrypt(pk.(*ecies.PublicKey), internalapi.Token{})
			if err != nil {
				return nil, nil, err
			}
			de, err := ecies.NewHybridDecrypt(priv, internalapi.Token{})
			return en, de, err
		})
		hl := c.hdrLen("U")
		for i, L := range sizes {
			s := routes[i%len(routes)]
			pt, info := genMsg(rng.Bytes(7), L), rng.Bytes(rng.Intn(20))
			ct, log, drawn, err := e.hybEncrypt(s, true, nil, pt, info)
			if err != nil || len(ct) < 5+hl+dm.ivLen+16 {
				o.Violate("%s: Encrypt of %d bytes failed: %v", s.label, L, err)
				continue
			}
			if !e.expectPattern("ecies/large/"+dm.name, fmt.Sprintf("%d,%d", c.bl, dm.ivLen)) {
				continue
			}
			if _, err := c.ephemeral(log[:1]); err != nil {
				o.Violate("%s: reads of crypto/elliptic.GenerateKey do not explain themselves: %v", s.label, err)
			}
			o.Emit(fmt.Sprintf("!R field %d %d %s", 5+hl, dm.ivLen, hlib.Tok(ct[:5+hl+dm.ivLen+16])), hlib.Tok(log[1]), true)
			if back, err := s.dec.Decrypt(ct, info); err != nil || !bytes.Equal(back, pt) {
				o.Violate("%s: own ciphertext of a %d-byte plaintext does not decrypt", s.label, L)
			}
			ct2, _, _, err := e.hybEncrypt(s, true, nil, pt, info)
			if err != nil || bytes.Equal(ct2[5:5+hl], ct[5:5+hl]) || bytes.Equal(ct2[5+hl:5+hl+dm.ivLen], ct[5+hl:5+hl+dm.ivLen]) {
				o.Violate("%s: two encryptions of a %d-byte plaintext share the KEM header or the DEM iv", s.label, L)
			}
			ct3, _, _, err := e.hybEncrypt(s, true, drawn, pt, info)
			if err != nil || !bytes.Equal(ct, ct3) {
				o.Violate("%s: replaying the tape does not reproduce the ciphertext of a %d-byte plaintext", s.label, L)
			}
			o.Count("large/ecies/" + dm.name)
		}
	}
}

func (e *env) largeStream(rng *hlib.Rng) {
	o := e.o
	sizes := []int{65535, 65536, 65537, 200000}
	if hlib.Thorough() {
		sizes = append(sizes, 131072, 1<<20+1)
	}
	schemes := e.streamSchemes(rng)
	for si, s := range schemes {
		if !hlib.Thorough() && si%3 != 0 {
			continue
		}
		o.Case()
		hl := 1 + s.derived + 7
		want := fmt.Sprintf("%d,7", s.derived)
		for i, L := range sizes {
			if !hlib.Thorough() && i%2 != si%2 {
				continue
			}
			pt, ad := genMsg(rng.Bytes(7), L), rng.Bytes(rng.Intn(24))
			var ct []byte
			var err error
			e.t.Strict = true
			log, drawn := e.t.run(nil, func() { ct, err = streamEnc(s.s, pt, ad, 1+rng.Intn(70000)) })
			e.t.Strict = false
			if err != nil || len(ct) < hl {
				o.Violate("%s: encrypting writer failed on %d bytes: %v", s.label, L, err)
				break
			}
			if !e.expectPattern("stream/"+s.fam, want) {
				continue
			}
			o.Emit(fmt.Sprintf("!R hdr %d %s", s.derived, hlib.Tok(ct[:hl])), hlib.Tok(log[0])+" "+hlib.Tok(log[1]), true)
			r, err := s.s.NewDecryptingReader(bytes.NewReader(ct), ad)
			if err == nil {
				var back []byte
				back, err = io.ReadAll(r)
				if err == nil && !bytes.Equal(back, pt) {
					err = fmt.Errorf("plaintext differs")
				}
			}
			if err != nil {
				o.Violate("%s: own ciphertext of %d bytes does not decrypt: %v", s.label, L, err)
			}
			var ct2, ct3 []byte
			e.t.Strict = true
			e.t.run(nil, func() { ct2, err = streamEnc(s.s, pt, ad, 65536) })
			e.t.Strict = false
			if err != nil || bytes.Equal(ct2[1:hl], ct[1:hl]) {
				o.Violate("%s: two writers for one %d-byte plaintext share salt ‖ nonce prefix", s.label, L)
			}
			e.t.Strict = true
			e.t.run(drawn, func() { ct3, err = streamEnc(s.s, pt, ad, 4096) })
			e.t.Strict = false
			if err != nil || !bytes.Equal(ct, ct3) {
				o.Violate("%s: replaying the tape does not reproduce the %d-byte ciphertext", s.label, L)
			}
			o.Count("large/stream/" + s.fam)
		}
	}
}

// largeDeterministic: deterministic primitives must not draw, whatever the input size.
func (e *env) largeDeterministic(rng *hlib.Rng) {
	o := e.o
	o.Case()
	e.t.Reset()
	hm := must(mac.New(must(keyset.NewHandle(mac.HMACSHA256Tag128KeyTemplate()))))
	cm := must(mac.New(must(keyset.NewHandle(mac.AESCMACTag128KeyTemplate()))))
	dd := must(daead.New(must(keyset.NewHandle(daead.AESSIVKeyTemplate()))))
	ps := must(prf.NewPRFSet(must(keyset.NewHandle(prf.HKDFSHA256PRFKeyTemplate()))))
	for _, L := range []int{65535, 65536, 65537, 131072} {
		msg := genMsg(rng.Bytes(7), L)
		for _, c := range []struct {
			name string
			f    func() ([]byte, error)
		}{
			{"HMAC", func() ([]byte, error) { return hm.ComputeMAC(msg) }},
			{"AES-CMAC", func() ([]byte, error) { return cm.ComputeMAC(msg) }},
			{"AES-SIV", func() ([]byte, error) { return dd.EncryptDeterministically(msg, nil) }},
			{"HKDF-PRF", func() ([]byte, error) { return ps.ComputePrimaryPRF(msg, 32) }},
		} {
			var a, b []byte
			var err error
			e.t.Strict = true
			e.t.run(nil, func() { a, err = c.f() })
			p := e.t.Pattern()
			e.t.run(nil, func() { b, _ = c.f() })
			e.t.Strict = false
			if err != nil {
				o.Violate("%s on %d bytes failed: %v", c.name, L, err)
				continue
			}
			if p != "-" || !bytes.Equal(a, b) {
				o.Violate("%s on %d bytes: a deterministic primitive drew randomness (%s) or gave two outputs", c.name, L, p)
			}
			o.Count("large/deterministic/" + c.name)
		}
	}
}
