//go:build verif

package main

import (
	"bytes"
	"crypto"
	"crypto/ecdh"
	"crypto/ecdsa"
	"crypto/ed25519"
	"crypto/elliptic"
	"crypto/mlkem"
	"crypto/rand"
	"crypto/rsa"
	"crypto/sha256"
)

// rsaKey is the 2048-bit RSA key used by the RSA-PSS checks: generated once by crypto/rsa from the
// tape (the probe below establishes that the result is a function of the logged tape bytes).
var rsaKey *rsa.PrivateKey

// probe runs gen `runs` times on a fresh tape window and once more on a replay of the first
// window; it records whether the output is a function of the logged reads, the read pattern and
// whether unlogged single-byte reads (randutil.MaybeReadByte) were seen.
func (e *env) probe(name string, runs int, gen func() []byte) {
	o := e.o
	e.t.Strict = false
	var first, firstDrawn []byte
	pat := ""
	singles := 0
	distinct := map[string]bool{}
	for i := 0; i < runs; i++ {
		var out []byte
		_, drawn := e.t.run(nil, func() { out = gen() })
		singles += e.t.Singles
		distinct[string(out)] = true
		if i == 0 {
			first, firstDrawn, pat = out, drawn, e.t.Pattern()
		}
	}
	var again []byte
	e.t.run(firstDrawn, func() { again = gen() })
	if bytes.Equal(first, again) {
		o.Count("stdlib/" + name + "/function-of-tape")
	} else {
		o.Count("stdlib/" + name + "/NOT-a-function-of-tape")
	}
	if len(firstDrawn) == 0 {
		o.Count("stdlib/" + name + "/reads-nothing-from-rand.Reader")
	}
	o.Count("stdlib/" + name + "/pattern=" + pat)
	if runs >= 40 && singles > 0 {
		o.Count("stdlib/" + name + "/MaybeReadByte-seen")
	}
	if len(distinct) == runs {
		o.Count("stdlib/" + name + "/outputs-distinct")
	} else if len(firstDrawn) > 0 || name == "mlkem768.Encapsulate" {
		o.Violate("stdlib %s: %d distinct outputs in %d runs", name, len(distinct), runs)
	}
}

// rsa returns the RSA key of the PSS checks, made by crypto/rsa from a private tape that depends on
// the seed only.
func (e *env) rsa() *rsa.PrivateKey {
	if rsaKey == nil {
		t := &tapeT{rng: e.rng("rsa-key"), single: e.rng("rsa-key-single")}
		rsaKey = must(rsa.GenerateKey(t, 2048))
		if rsaKey.E != 65537 || rsaKey.N.BitLen() != 2048 || len(rsaKey.Primes) != 2 {
			panic("unexpected RSA key shape")
		}
	}
	return rsaKey
}

func (e *env) stdlibSection() {
	o := e.o
	runs := 40
	for _, c := range []struct {
		name string
		c    ecdh.Curve
	}{{"P256", ecdh.P256()}, {"P384", ecdh.P384()}, {"P521", ecdh.P521()}, {"X25519", ecdh.X25519()}} {
		e.probe("ecdh."+c.name+".GenerateKey", runs, func() []byte { return must(c.c.GenerateKey(rand.Reader)).Bytes() })
	}
	for _, c := range []struct {
		name string
		c    elliptic.Curve
	}{{"P256", elliptic.P256()}, {"P384", elliptic.P384()}, {"P521", elliptic.P521()}} {
		e.probe("ecdsa.GenerateKey."+c.name, runs, func() []byte { return must(ecdsa.GenerateKey(c.c, rand.Reader)).D.Bytes() })
		e.probe("elliptic.GenerateKey."+c.name, runs, func() []byte {
			p, _, _, err := elliptic.GenerateKey(c.c, rand.Reader)
			if err != nil {
				panic(err)
			}
			return p
		})
		k := must(ecdsa.GenerateKey(c.c, rand.Reader))
		d := sha256.Sum256([]byte("c20"))
		e.probe("ecdsa.SignASN1."+c.name, runs, func() []byte { return must(ecdsa.SignASN1(rand.Reader, k, d[:])) })
		e.probe("ecdsa.Sign."+c.name, runs, func() []byte {
			r, s, err := ecdsa.Sign(rand.Reader, k, d[:])
			if err != nil {
				panic(err)
			}
			return append(r.Bytes(), s.Bytes()...)
		})
	}
	e.probe("ed25519.GenerateKey", runs, func() []byte {
		_, priv, err := ed25519.GenerateKey(rand.Reader)
		if err != nil {
			panic(err)
		}
		return priv
	})
	e.probe("rand.Read(16)", runs, func() []byte { b := make([]byte, 16); rand.Read(b); return b })
	// RSA
	rsaBytes := func(k *rsa.PrivateKey) []byte { return cat(k.N.Bytes(), k.Primes[0].Bytes()) }
	e.probe("rsa.GenerateKey(2048)", 2, func() []byte { return rsaBytes(must(rsa.GenerateKey(rand.Reader, 2048))) })
	e.rsa()
	d := sha256.Sum256([]byte("c20"))
	e.probe("rsa.SignPSS(salt32)", runs, func() []byte {
		return must(rsa.SignPSS(rand.Reader, rsaKey, crypto.SHA256, d[:], &rsa.PSSOptions{SaltLength: 32}))
	})
	e.t.run(nil, func() { must(rsa.SignPKCS1v15(rand.Reader, rsaKey, crypto.SHA256, d[:])) })
	o.Count("stdlib/rsa.SignPKCS1v15/pattern=" + e.t.Pattern())
	// ML-KEM: the standard library's own DRBG
	dk := must(mlkem.GenerateKey768())
	o.Count("stdlib/mlkem.GenerateKey768/pattern=" + e.t.Pattern())
	e.probe("mlkem768.Encapsulate", runs, func() []byte { _, ct := dk.EncapsulationKey().Encapsulate(); return ct })
}
