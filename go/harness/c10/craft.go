//go:build verif

package main

import (
	"bytes"
	"fmt"
	"strings"

	"github.com/tink-crypto/tink-go/v2/internal/verifharness/hlib"
)

// Section 4: boundary signatures made by the reference with the secret key (two-phase: the
// requests go out in the pre phase, the answers are fed to the REAL verifier in the main phase).
//   zmax    ‖z‖∞ = γ1 − β − 1, the largest admissible norm      → must verify
//   hintmax number of hints = ω, no padding byte left            → must verify
//   zover   ‖z‖∞ = γ1 − β, passes everything but the norm check  → must be rejected

func centred(x uint32) uint32 {
	if x > (q-1)/2 {
		return q - x
	}
	return x
}

func craftSection(o *hlib.Out, seed uint64) {
	rng := hlib.NewRng(seed, "c10/craft")
	for _, ps := range psets {
		per := hlib.N(1, 6)
		if ps.name == "44" {
			per = hlib.N(2, 8) // the cheapest set for the reference to search
		}
		k := newKey(ps, rng.Bytes(32))
		for _, kind := range []string{"zmax", "hintmax", "zover"} {
			for i := 0; i < per; i++ {
				o.Case()
				msg, ctx := rng.Bytes(rng.Intn(64)), []byte{}
				if rng.Bool() {
					ctx = rng.Bytes(1 + rng.Intn(32))
				}
				rnd := rng.Bytes(32)
				flipAt := rng.Intn(ps.sigLen)
				flipBit := uint(rng.Intn(8))
				mp := fmtMsg(ctx, msg)
				ans := hlib.Ask(fmt.Sprintf("D craft %s %s %s %s %s", ps.name, k.skTok, hlib.Tok(mp), hlib.Tok(rnd), kind))
				if hlib.Pre() {
					continue
				}
				if !strings.HasPrefix(ans, "ok ") {
					o.Count("craft/" + kind + "/reference-found-none")
					continue
				}
				sig := hlib.FromTok(ans[3:])
				_, z, h, derr := ps.par.VerifSigDecode(sig)
				if derr != nil {
					o.Violate("ML-DSA-%s: sigDecode rejects the reference's %s signature: %v", ps.name, kind, derr)
					emitVerify(o, k, k.pkb, ctx, msg, sig, "crafted-"+kind)
					continue
				}
				var zn uint32
				for _, p := range z {
					for _, c := range p {
						if centred(c) > zn {
							zn = centred(c)
						}
					}
				}
				ones := 0
				for _, p := range h {
					for _, c := range p {
						if c != 0 {
							ones++
						}
					}
				}
				// the crafted signature must really sit on the boundary it claims
				bound := ps.gamma1 - ps.beta
				switch kind {
				case "zmax":
					if zn != bound-1 {
						o.Violate("harness: zmax signature has ‖z‖∞ = %d, wanted %d", zn, bound-1)
					}
				case "zover":
					if zn != bound {
						o.Violate("harness: zover signature has ‖z‖∞ = %d, wanted %d", zn, bound)
					}
				case "hintmax":
					if ones != ps.omega {
						o.Violate("harness: hintmax signature has %d hints, wanted %d", ones, ps.omega)
					}
				}
				v := emitVerify(o, k, k.pkb, ctx, msg, sig, "crafted-"+kind)
				o.Count("craft/" + kind + "/" + ps.name)
				if kind == "zover" {
					if v == "1" {
						o.Violate("ML-DSA-%s: signature with ‖z‖∞ = γ1−β = %d ACCEPTED (FIPS 204 Alg. 8 line 13 requires < γ1−β)", ps.name, bound)
					}
					continue
				}
				if v != "1" {
					o.Violate("ML-DSA-%s: valid boundary signature (%s: ‖z‖∞ = %d, %d hints) REJECTED", ps.name, kind, zn, ones)
				}
				// and it stops verifying when touched
				s2 := append([]byte(nil), sig...)
				s2[flipAt] ^= 1 << flipBit
				if emitVerify(o, k, k.pkb, ctx, msg, s2, "crafted-"+kind+"-flipped") == "1" && !bytes.Equal(s2, sig) {
					o.Violate("ML-DSA-%s: flipped boundary signature accepted", ps.name)
				}
				if kind == "hintmax" {
					// ω hints leave no padding: raising the last counter must be refused (counter > ω)
					s3 := append([]byte(nil), sig...)
					s3[len(s3)-1]++
					if emitVerify(o, k, k.pkb, ctx, msg, s3, "crafted-hintmax-counter=ω+1") == "1" {
						o.Violate("ML-DSA-%s: hint counter ω+1 accepted", ps.name)
					}
				}
			}
		}
	}
}
