//go:build verif

package main

import (
	"fmt"
	"strconv"
	"strings"

	"github.com/tink-crypto/tink-go/v2/internal/verifharness/hlib"
)

// Section 4b: messages whose signing run sits on a rejection bound of the loop of Algorithm 7
// (two-phase). The reference SEARCHES (driver op `D signscan`, pre phase) for a message i such that
// deterministic signing of "c10-edge-<seed>-<i>" has an attempt in which exactly one comparison is
// on its edge while the others pass:
//
//	z-accept   ‖z‖∞ = γ1−β−1   the attempt is accepted        z-reject   ‖z‖∞ = γ1−β    refused
//	r0-accept  ‖r0‖∞ = γ2−β−1                                 r0-reject  ‖r0‖∞ = γ2−β
//	h-accept   ω hints                                        h-reject   ω+1 hints
//	ct0-*      ‖ct0‖∞ = γ2−1 / γ2 (thorough only; practically unreachable: ‖ct0‖∞ stays far below γ2)
//
// A signer whose comparison is off by one (<  ↔  ≤) then stops one attempt early or late and its
// deterministic signature differs from the reference's (`!D sign`); the attempt the signature comes
// from is also recovered from the signature alone (signIterations) and compared with the reference's.
func edgeSection(o *hlib.Out, seed uint64) {
	rng := hlib.NewRng(seed, "c10/edge")
	kinds := []string{"z-accept", "z-reject", "r0-accept", "r0-reject", "h-accept", "h-reject"}
	if hlib.Thorough() {
		kinds = append(kinds, "ct0-accept", "ct0-reject")
	}
	keys := make([]*gkey, len(psets))
	for i, ps := range psets {
		keys[i] = newKey(ps, rng.Bytes(32))
	}
	if !hlib.Pre() {
		// the offline-found table: fixed key (seed 00 01 … 1f), all of it in both tiers
		tk := map[string]*gkey{}
		for _, ps := range psets {
			tk[ps.name] = newKey(ps, longKeySeed)
		}
		for _, e := range edgeTable {
			edgeCase(o, tk[e.set], e.kind, "c10-edge-"+strconv.Itoa(e.idx), e.att, e.attempts, "table")
		}
	}
	// live scans by the reference on seed-dependent messages and keys
	prefix := fmt.Sprintf("c10-edge-%d-", seed)
	for ki, kind := range kinds {
		for si, ps := range psets {
			// quick: one scan (edge and parameter set rotate with the seed; ≈ 12 ms per scanned message in the reference);
			// thorough: every edge on every set
			if !hlib.Thorough() && !(ki == int(seed%6) && si == int(seed/6%3)) {
				continue
			}
			k := keys[si]
			count := hlib.N(300, 1500)
			if strings.HasPrefix(kind, "ct0") {
				count = 200
			}
			ans := hlib.Ask(fmt.Sprintf("D signscan %s %s %s 0 %d %s", ps.name, k.skTok, hlib.Tok([]byte(prefix)), count, kind))
			if hlib.Pre() {
				continue
			}
			f := strings.Fields(ans)
			if len(f) != 4 || f[0] != "ok" {
				o.Count("edge/" + kind + "/" + ps.name + "/reference-found-none(" + ans + ")")
				continue
			}
			idx, _ := strconv.Atoi(f[1])
			att, _ := strconv.Atoi(f[2])
			total, _ := strconv.Atoi(f[3])
			edgeCase(o, k, kind, prefix+strconv.Itoa(idx), att, total, "live-scan")
		}
	}
}

// edgeTable: results of `D signscan <set> <sk of key seed 00 01 … 1f> "c10-edge-" …` run offline (the first three
// hits per parameter set and edge): message index, the attempt on the edge, the accepted attempt.
var edgeTable = []struct {
	set, kind          string
	idx, att, attempts int
}{
	{"44", "h-accept", 155, 4, 4},
	{"44", "h-accept", 226, 10, 10},
	{"44", "h-accept", 233, 1, 1},
	{"44", "h-reject", 432, 1, 4},
	{"44", "h-reject", 1389, 7, 9},
	{"44", "h-reject", 1590, 1, 7},
	{"44", "r0-accept", 49, 2, 2},
	{"44", "r0-accept", 57, 2, 2},
	{"44", "r0-accept", 146, 1, 1},
	{"44", "r0-reject", 148, 1, 6},
	{"44", "r0-reject", 235, 13, 14},
	{"44", "r0-reject", 251, 4, 5},
	{"44", "z-accept", 214, 5, 5},
	{"44", "z-accept", 433, 9, 9},
	{"44", "z-accept", 722, 1, 1},
	{"44", "z-reject", 99, 2, 3},
	{"44", "z-reject", 142, 1, 3},
	{"44", "z-reject", 150, 2, 3},
	{"65", "h-accept", 666, 1, 1},
	{"65", "h-accept", 1557, 12, 12},
	{"65", "h-reject", 40, 4, 5},
	{"65", "h-reject", 89, 3, 16},
	{"65", "h-reject", 1196, 4, 6},
	{"65", "r0-accept", 27, 3, 3},
	{"65", "r0-accept", 314, 8, 8},
	{"65", "r0-accept", 429, 11, 11},
	{"65", "r0-reject", 238, 2, 5},
	{"65", "r0-reject", 295, 4, 7},
	{"65", "r0-reject", 615, 3, 6},
	{"65", "z-accept", 929, 1, 1},
	{"65", "z-accept", 943, 24, 24},
	{"65", "z-accept", 1002, 2, 2},
	{"65", "z-reject", 288, 6, 8},
	{"65", "z-reject", 884, 12, 27},
	{"65", "z-reject", 943, 19, 24},
	{"87", "h-accept", 64, 1, 1},
	{"87", "h-accept", 85, 1, 1},
	{"87", "h-accept", 691, 3, 3},
	{"87", "h-reject", 141, 4, 24},
	{"87", "h-reject", 457, 5, 8},
	{"87", "h-reject", 486, 16, 23},
	{"87", "r0-accept", 131, 5, 5},
	{"87", "r0-accept", 278, 18, 18},
	{"87", "r0-accept", 294, 1, 1},
	{"87", "r0-reject", 208, 4, 8},
	{"87", "r0-reject", 425, 9, 16},
	{"87", "r0-reject", 466, 1, 3},
	{"87", "z-accept", 1065, 2, 2},
	{"87", "z-accept", 1118, 1, 1},
	{"87", "z-accept", 1161, 2, 2},
	{"87", "z-reject", 75, 8, 9},
	{"87", "z-reject", 789, 3, 4},
	{"87", "z-reject", 1629, 4, 5},
}

// edgeCase signs one found message with the real code and ties it to the reference.
func edgeCase(o *hlib.Out, k *gkey, kind, msg string, att, total int, src string) {
	ps := k.ps
	var zero [32]byte
	o.Case()
	mp := fmtMsg(nil, []byte(msg))
	sig := k.sk.VerifSignInternal(mp, zero)
	o.Emit("!D sign "+ps.name+" "+k.skTok+" "+hlib.Tok(mp)+" "+hlib.Tok(zero[:]), okTok(sig), true)
	o.Count("edge/" + kind + "/" + ps.name + "/" + src)
	o.Count("edge/sign-lines")
	tr := k.pk.TR()
	its := signIterations(ps, k.skb, shake256(64, tr[:], mp), zero[:], sig, 1000)
	if its != total {
		o.Violate("ML-DSA-%s %q: FIPS 204 accepts attempt %d of the signing loop (attempt %d is on the edge %s), Go's signature comes from attempt %d",
			ps.name, msg, total, att, kind, its)
	}
	if emitVerify(o, k, k.pkb, nil, []byte(msg), sig, "edge-"+kind) != "1" {
		o.Violate("ML-DSA-%s: Go rejects its own signature (%s, %q)", ps.name, kind, msg)
	}
	if _, z, h, err := ps.par.VerifSigDecode(sig); err == nil && strings.HasSuffix(kind, "-accept") && att == total {
		var zn uint32
		for _, p := range z {
			for _, c := range p {
				if centred(c) > zn {
					zn = centred(c)
				}
			}
		}
		ones := 0
		for _, p := range h {
			for _, c := range p {
				if c != 0 {
					ones++
				}
			}
		}
		switch kind {
		case "z-accept":
			if zn != ps.gamma1-ps.beta-1 {
				o.Violate("ML-DSA-%s %q: the FIPS 204 signature has ‖z‖∞ = γ1−β−1 = %d, Go's has %d", ps.name, msg, ps.gamma1-ps.beta-1, zn)
			}
		case "h-accept":
			if ones != ps.omega {
				o.Violate("ML-DSA-%s %q: the FIPS 204 signature has ω = %d hints, Go's has %d", ps.name, msg, ps.omega, ones)
			}
		}
	}
}
