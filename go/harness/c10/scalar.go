//go:build verif

package main

import (
	"fmt"
	"sort"
	"strconv"

	imldsa "github.com/tink-crypto/tink-go/v2/internal/signature/mldsa"
	"github.com/tink-crypto/tink-go/v2/internal/verifharness/hlib"
)

// Section 1: translation validation. Every `D s` line is answered by the Go original (through
// the export hooks) on this side and by the regenerated Lean definition on the other.

const (
	g88 = (q - 1) / 88 // 95232
	g32 = (q - 1) / 32 // 261888
)

var gammas = []uint32{g88, g32}

func us(x uint32) string { return strconv.FormatUint(uint64(x), 10) }

var need = map[string]int{"reduceOnce": 1, "add": 2, "sub": 2, "neg": 1, "mul": 2, "power2Round": 1, "scalePower2": 1,
	"divBy2Gamma2": 2, "decompose": 2, "highBits": 2, "lowBits": 2, "makeHint": 3, "useHint": 3, "centeredAbs": 1,
	"centeredMax": 2, "zeta": 1}

// scalarRes evaluates the Go original of a scalar function.
func scalarRes(fn string, a []uint32) (string, bool) {
	if n, ok := need[fn]; !ok || n != len(a) {
		return "", false
	}
	switch fn {
	case "reduceOnce":
		return us(imldsa.VerifReduceOnce(a[0])), true
	case "add":
		return us(imldsa.VerifAdd(a[0], a[1])), true
	case "sub":
		return us(imldsa.VerifSub(a[0], a[1])), true
	case "neg":
		return us(imldsa.VerifNeg(a[0])), true
	case "mul":
		return us(imldsa.VerifMul(a[0], a[1])), true
	case "power2Round":
		r1, r0 := imldsa.VerifPower2Round(a[0])
		return us(r1) + " " + us(r0), true
	case "scalePower2":
		return us(imldsa.VerifScalePower2(a[0])), true
	case "divBy2Gamma2":
		return us(imldsa.VerifDivBy2Gamma2(a[0], a[1])), true
	case "decompose":
		r1, r0 := imldsa.VerifDecompose(a[0], a[1])
		return us(r1) + " " + us(r0), true
	case "highBits":
		return us(imldsa.VerifHighBits(a[0], a[1])), true
	case "lowBits":
		return us(imldsa.VerifLowBits(a[0], a[1])), true
	case "makeHint":
		return us(imldsa.VerifMakeHint(a[0], a[1], a[2])), true
	case "useHint":
		return us(imldsa.VerifUseHint(a[0], a[1], a[2])), true
	case "centeredAbs":
		return us(imldsa.VerifCenteredAbs(a[0])), true
	case "centeredMax":
		return us(imldsa.VerifCenteredMax(a[0], a[1])), true
	case "zeta":
		if a[0] >= 256 {
			return "", false
		}
		return us(imldsa.VerifZeta(int(a[0]))), true
	}
	return "", false
}

func emitS(o *hlib.Out, fn string, a ...uint32) {
	line := make([]byte, 0, 48)
	line = append(line, "D s "...)
	line = append(line, fn...)
	for _, x := range a {
		line = append(line, ' ')
		line = strconv.AppendUint(line, uint64(x), 10)
	}
	r, ok := scalarRes(fn, a)
	if !ok {
		panic("scalar: bad call " + string(line))
	}
	o.Emit(string(line), r, true)
	o.Hist["s/"+fn]++
}

// boundary field elements: 0, 1, q-1, (q±1)/2, multiples of 2^13 (and the rounding points
// 2^12 mod 2^13) ±1, multiples of 2γ2 ±γ2 ±{0,1,2} for both γ2.
var bnd []uint32

func initBoundary() {
	seen := map[uint32]bool{}
	add := func(x int64) {
		if x >= 0 && x < q && !seen[uint32(x)] {
			seen[uint32(x)] = true
			bnd = append(bnd, uint32(x))
		}
	}
	for _, x := range []int64{0, 1, 2, 3, q - 1, q - 2, q - 3, (q-1)/2 - 1, (q - 1) / 2, (q + 1) / 2, (q+1)/2 + 1, 1 << 22, 1<<22 - 1, 1<<22 + 1} {
		add(x)
	}
	for k := int64(0); k <= q>>13+1; k++ {
		for d := int64(-1); d <= 1; d++ {
			add(k<<13 + d)
			add(k<<13 + 4096 + d)
		}
	}
	for _, g := range gammas {
		gg := int64(g)
		for k := int64(0); (k-1)*2*gg <= q; k++ {
			for d := int64(-2); d <= 2; d++ {
				add(k*2*gg + d)
				add(k*2*gg + gg + d)
				add(k*2*gg - gg + d)
			}
		}
	}
	sort.Slice(bnd, func(i, j int) bool { return bnd[i] < bnd[j] })
}

// fe draws a field element with weight on the boundaries.
func fe(r *hlib.Rng) uint32 {
	switch r.Intn(10) {
	case 0, 1, 2:
		return bnd[r.Intn(len(bnd))]
	case 3:
		return uint32(r.Intn(1 << 14))
	case 4:
		return uint32(q - 1 - r.Intn(1<<14))
	}
	return uint32(r.U64() % q)
}

// small draws a field element of small centred absolute value (hint arguments).
func small(r *hlib.Rng, bound int) uint32 {
	v := r.Intn(bound + 1)
	if v != 0 && r.Bool() {
		return uint32(q - v)
	}
	return uint32(v)
}

func scalarSection(o *hlib.Out, seed uint64) {
	initBoundary()
	rng := hlib.NewRng(seed, "c10/scalar")
	n := hlib.N(20000, 120000) // lines per function (boundary values first, then random)
	o.Case()
	for k := 0; k < 256; k++ {
		emitS(o, "zeta", uint32(k))
	}
	// unary functions over Z_q
	unary := []string{"neg", "power2Round", "scalePower2", "centeredAbs"}
	for _, fn := range unary {
		o.Case()
		for _, a := range bnd {
			emitS(o, fn, a)
		}
		for i := len(bnd); i < n; i++ {
			emitS(o, fn, uint32(rng.U64()%q))
		}
	}
	// reduceOnce: [0, 2q)
	o.Case()
	for _, a := range bnd {
		emitS(o, "reduceOnce", a)
		emitS(o, "reduceOnce", a+q)
	}
	for i := 2 * len(bnd); i < n; i++ {
		emitS(o, "reduceOnce", uint32(rng.U64()%(2*q)))
	}
	// γ2-parametrised unary functions
	for _, fn := range []string{"decompose", "highBits", "lowBits"} {
		o.Case()
		for _, g := range gammas {
			for _, a := range bnd {
				emitS(o, fn, a, g)
			}
			for i := len(bnd); i < n/2; i++ {
				emitS(o, fn, uint32(rng.U64()%q), g)
			}
		}
	}
	o.Case()
	for _, g := range gammas {
		for _, a := range bnd {
			emitS(o, "divBy2Gamma2", a, g)
			emitS(o, "divBy2Gamma2", a+g-1, g) // the argument Decompose passes
		}
		for i := 2 * len(bnd); i < n/2; i++ {
			switch rng.Intn(3) {
			case 0:
				emitS(o, "divBy2Gamma2", uint32(rng.U64()%(q+uint64(g))), g)
			case 1:
				emitS(o, "divBy2Gamma2", uint32(rng.U64()), g) // any uint32
			default:
				k := uint32(rng.Intn(int(q/(2*g)) + 2))
				emitS(o, "divBy2Gamma2", k*2*g+uint32(rng.Intn(5))-2+2*g, g)
			}
		}
	}
	o.Case()
	for _, g := range gammas {
		for _, h := range []uint32{0, 1} {
			for _, a := range bnd {
				emitS(o, "useHint", a, g, h)
			}
			for i := len(bnd); i < n/4; i++ {
				hh := h
				if rng.Intn(200) == 0 {
					hh = uint32(rng.Pick(2, 3, q-1)) // anything but 1 means "no hint"
				}
				emitS(o, "useHint", fe(rng), g, hh)
			}
		}
	}
	// binary functions
	for _, fn := range []string{"add", "sub", "mul", "centeredMax"} {
		o.Case()
		for i := 0; i < n; i++ {
			var a, b uint32
			switch rng.Intn(6) {
			case 0:
				a, b = bnd[rng.Intn(len(bnd))], bnd[rng.Intn(len(bnd))]
			case 1:
				a = fe(rng)
				b = uint32((uint64(q) - uint64(a) + uint64(rng.Intn(5)) + q - 2) % q) // a + b ≈ q
			case 2:
				a = fe(rng)
				b = uint32((uint64(a) + uint64(rng.Intn(5)) + q - 2) % q) // a ≈ b
			default:
				a, b = fe(rng), fe(rng)
			}
			emitS(o, fn, a, b)
		}
	}
	o.Case()
	for _, g := range gammas {
		for i := 0; i < n/2; i++ {
			var z, r uint32
			switch rng.Intn(5) {
			case 0:
				z, r = small(rng, 3), bnd[rng.Intn(len(bnd))]
			case 1:
				z, r = small(rng, int(g)), bnd[rng.Intn(len(bnd))]
			case 2:
				z, r = small(rng, int(g)), fe(rng)
			case 3:
				z, r = small(rng, 1<<13), fe(rng)
			default:
				z, r = fe(rng), fe(rng)
			}
			emitS(o, "makeHint", z, g, r)
		}
	}
	if !hlib.Thorough() {
		return
	}
	// thorough tier: EXHAUSTIVE over Z_q for neg, power2Round, scalePower2, centeredAbs and
	// decompose (both γ2; highBits/lowBits are its projections), over [0, 2q) for reduceOnce;
	// strided for the rest (the residue class visited depends on the seed). Sweep lines are
	// distinct by construction and are not entered into the distinct-hash set (memory).
	sweep := func(fn string, hi uint32, stride uint32, extra ...uint32) {
		o.Case()
		args := make([]uint32, 1+len(extra))
		copy(args[1:], extra)
		line := make([]byte, 0, 64)
		n := 0
		for a := uint32(seed % uint64(stride)); a < hi; a += stride {
			args[0] = a
			line = append(line[:0], "D s "...)
			line = append(line, fn...)
			for _, x := range args {
				line = append(line, ' ')
				line = strconv.AppendUint(line, uint64(x), 10)
			}
			r, _ := scalarRes(fn, args)
			o.Emit(string(line), r, false)
			n++
		}
		o.Hist["s/"+fn] += n
		o.Hist[fmt.Sprintf("s-sweep/%s stride %d", fn, stride)] += n
	}
	const s1, s2 = 7, 61
	for _, fn := range unary {
		sweep(fn, q, 1)
	}
	sweep("reduceOnce", 2*q, 1)
	for _, g := range gammas {
		sweep("decompose", q, 1, g)
		sweep("useHint", q, s1, g, 1)
		sweep("useHint", q, s2, g, 0)
		sweep("highBits", q, s2, g)
		sweep("lowBits", q, s2, g)
		sweep("divBy2Gamma2", q+g, s2, g)
	}
}
