//go:build verif

package main

import (
	"bytes"

	"github.com/tink-crypto/tink-go/v2/internal/verifharness/hlib"
)

// Section 3: key generation, signing (deterministic, hedged with known rnd, external mu, raw M′)
// and verification decisions, Go vs the independent FIPS 204 reference.

func ff32() []byte { return bytes.Repeat([]byte{0xff}, 32) }

func msgOf(r *hlib.Rng) []byte {
	switch r.Intn(8) {
	case 0:
		return []byte{}
	case 1:
		return r.Bytes(1)
	case 2:
		return r.Bytes(r.Pick(135, 136, 137, 271, 272, 273)) // SHAKE256 rate boundaries (tr ‖ M′ shifts them)
	case 3:
		return r.Bytes(1000 + r.Intn(3000))
	}
	return r.Bytes(r.Intn(200))
}

func ctxOf(r *hlib.Rng) []byte {
	switch r.Intn(8) {
	case 0, 1, 2:
		return []byte{}
	case 3:
		return r.Bytes(1)
	case 4:
		return r.Bytes(255)
	case 5:
		return r.Bytes(254)
	}
	return r.Bytes(2 + r.Intn(252))
}

// setBits writes the n-bit little-endian integer v at bit offset off of buf.
func setBits(buf []byte, off, n int, v uint32) {
	for j := 0; j < n; j++ {
		bit := off + j
		buf[bit/8] &^= 1 << uint(bit%8)
		buf[bit/8] |= byte((v>>uint(j))&1) << uint(bit%8)
	}
}

// hintLayout parses the counters of a canonical hint region.
func hintLayout(ps *pset, hb []byte) (ends []int, total int) {
	ends = make([]int, ps.k)
	for i := range ends {
		ends[i] = int(hb[ps.omega+i])
	}
	return ends, ends[ps.k-1]
}

// overrunHint builds the hint region described at "hint-counter-overrun".
func overrunHint(r *hlib.Rng, ps *pset) []byte {
	h := make([]byte, ps.omega+ps.k)
	// ω−1 hints spread over the first k−1 polynomials, at least one each
	cnt := make([]int, ps.k-1)
	for i := range cnt {
		cnt[i] = 1
	}
	for n := ps.k - 1; n < ps.omega-1; n++ {
		cnt[r.Intn(ps.k-1)]++
	}
	pos := 0
	for i, c := range cnt {
		// c strictly increasing indices
		step := 256 / c
		for j := 0; j < c; j++ {
			h[pos] = byte(j*step + r.Intn(step))
			pos++
		}
		h[ps.omega+i] = byte(pos)
	}
	h[ps.omega-1] = 0
	h[ps.omega+ps.k-1] = 255
	return h
}

type mut struct {
	kind string
	sig  []byte
}

// sigMutations builds one mutation of every kind that applies to the valid signature sig.
func sigMutations(r *hlib.Rng, ps *pset, sig []byte) []mut {
	var out []mut
	cl := func() []byte { return append([]byte(nil), sig...) }
	add := func(kind string, s []byte) { out = append(out, mut{kind, s}) }
	zOff, hOff := ps.ctLen, ps.ctLen+ps.zLen
	// bit flips per region (first / last byte of the region now and then)
	flip := func(kind string, lo, n int) {
		s := cl()
		pos := lo + r.Intn(n)
		switch r.Intn(6) {
		case 0:
			pos = lo
		case 1:
			pos = lo + n - 1
		}
		s[pos] ^= 1 << uint(r.Intn(8))
		add(kind, s)
	}
	flip("flip-ctilde", 0, ps.ctLen)
	flip("flip-z", zOff, ps.zLen)
	flip("flip-z", zOff, ps.zLen)
	flip("flip-h-indices", hOff, ps.omega)
	flip("flip-h-counters", hOff+ps.omega, ps.k)
	// lengths
	add("len-1", cl()[:len(sig)-1])
	add("len+1", append(cl(), byte(r.Intn(2)*r.Intn(256))))
	switch r.Intn(4) {
	case 0:
		add("len-drop-first", cl()[1:])
	case 1:
		add("len-empty", []byte{})
	case 2:
		add("len-truncated", cl()[:r.Intn(len(sig))])
	case 3:
		add("len-doubled", append(cl(), sig...))
	}
	// z coefficients set to chosen values (encoded integer e = γ1 − z)
	g1, be := int64(ps.gamma1), int64(ps.beta)
	zvals := []struct {
		name string
		z    int64
	}{
		{"z=γ1", g1}, {"z=γ1-1", g1 - 1}, {"z=γ1-β", g1 - be}, {"z=γ1-β-1", g1 - be - 1},
		{"z=-(γ1-β)", -(g1 - be)}, {"z=-(γ1-β-1)", -(g1 - be - 1)}, {"z=-(γ1-1)", -(g1 - 1)}, {"z=0", 0},
	}
	pickZ := func(i int) {
		zv := zvals[i]
		s := cl()
		poly, coef := r.Intn(ps.l), r.Intn(256)
		if r.Chance(25) {
			poly, coef = r.Pick(0, ps.l-1), r.Pick(0, 255)
		}
		setBits(s[zOff+poly*ps.zPoly:], coef*ps.zBits, ps.zBits, uint32(g1-zv.z))
		if !bytes.Equal(s, sig) {
			add("set-"+zv.name, s)
		}
	}
	a := r.Intn(len(zvals))
	pickZ(a)
	pickZ((a + 1 + r.Intn(len(zvals)-1)) % len(zvals))
	pickZ(2 + r.Intn(3)) // one of the values next to the norm bound
	// hint region rewrites
	hb := func(s []byte) []byte { return s[hOff:] }
	ends, total := hintLayout(ps, hb(sig))
	start := func(i int) int {
		if i == 0 {
			return 0
		}
		return ends[i-1]
	}
	var multi []int // polynomials with ≥ 2 hints
	var nonEmpty []int
	for i := 0; i < ps.k; i++ {
		if ends[i]-start(i) >= 2 {
			multi = append(multi, i)
		}
		if ends[i]-start(i) >= 1 {
			nonEmpty = append(nonEmpty, i)
		}
	}
	if len(multi) > 0 {
		// same set of hint positions, indices not increasing
		i := multi[r.Intn(len(multi))]
		p := start(i) + r.Intn(ends[i]-start(i)-1)
		s := cl()
		hb(s)[p], hb(s)[p+1] = hb(s)[p+1], hb(s)[p]
		add("hint-unsorted", s)
		s = cl()
		hb(s)[p+1] = hb(s)[p]
		add("hint-repeated-index", s)
	}
	if total < ps.omega {
		// same hint, non-zero padding
		s := cl()
		p := total + r.Intn(ps.omega-total)
		switch r.Intn(3) {
		case 0:
			p = total
		case 1:
			p = ps.omega - 1
		}
		hb(s)[p] = byte(1 + r.Intn(255))
		add("hint-nonzero-padding", s)
		// one more hint, canonically encoded (a different h)
		s = cl()
		last := -1
		if ends[ps.k-1] > start(ps.k-1) {
			last = int(hb(s)[total-1])
		}
		if last < 255 {
			hb(s)[total] = byte(last + 1 + r.Intn(255-last))
			hb(s)[ps.omega+ps.k-1]++
			add("hint-extra-one", s)
		}
	}
	if total < ps.omega && len(nonEmpty) > 0 {
		// same set of hint positions, the last index of one polynomial written twice (indices after
		// it move up by one, its counter and the later ones grow by one): a decoder that only
		// checks "not decreasing" would accept this second encoding of the same signature
		i := nonEmpty[r.Intn(len(nonEmpty))]
		s := cl()
		h := hb(s)
		copy(h[ends[i]+1:ps.omega], h[ends[i]:ps.omega-1])
		h[ends[i]] = h[ends[i]-1]
		for j := i; j < ps.k; j++ {
			h[ps.omega+j]++
		}
		add("hint-index-written-twice", s)
	}
	if len(nonEmpty) > 0 {
		i := nonEmpty[r.Intn(len(nonEmpty))]
		if i+1 < ps.k {
			// counter of the next polynomial below this one's
			s := cl()
			hb(s)[ps.omega+i+1] = byte(r.Intn(ends[i]))
			add("hint-counter-decreasing", s)
		}
		if ends[ps.k-1] > start(ps.k-1) {
			s := cl()
			hb(s)[total-1] = 0
			hb(s)[ps.omega+ps.k-1]--
			add("hint-drop-last", s)
		}
	}
	{
		// counters strictly increasing up to ω−1, the last one 255, a zero in the last index slot: a
		// decoder without the "counter ≤ ω" check walks through the counter bytes and off the end
		s := cl()
		h := hb(s)
		copy(h, overrunHint(r, ps))
		add("hint-counter-overrun", s)
	}
	{
		s := cl()
		i := r.Intn(ps.k)
		if r.Bool() {
			i = ps.k - 1
		}
		hb(s)[ps.omega+i] = byte(ps.omega + 1 + r.Intn(255-ps.omega))
		if r.Intn(3) == 0 {
			hb(s)[ps.omega+i] = byte(ps.omega + 1)
		}
		add("hint-counter>ω", s)
		s = cl()
		i = r.Intn(ps.k)
		if r.Bool() {
			hb(s)[ps.omega+i]++
		} else {
			hb(s)[ps.omega+i]--
		}
		add("hint-counter±1", s)
	}
	return out
}

func algSection(o *hlib.Out, seed uint64) {
	rng := hlib.NewRng(seed, "c10/alg")
	for _, ps := range psets {
		// ---- key generation ----
		seeds := [][]byte{make([]byte, 32), ff32()}
		for i := 0; i < hlib.N(4, 60); i++ {
			seeds = append(seeds, rng.Bytes(32))
		}
		var keys []*gkey
		for _, sd := range seeds {
			o.Case()
			k := newKey(ps, sd)
			o.Emit("!D keygen "+ps.name+" "+hlib.Tok(sd), "ok "+k.pkTok+" "+k.skTok, true)
			o.Count("keygen/" + ps.name)
			if len(k.pkb) != ps.pkLen || len(k.skb) != ps.skLen {
				o.Violate("ML-DSA-%s key sizes %d/%d", ps.name, len(k.pkb), len(k.skb))
			}
			if pk2, err := ps.par.DecodePublicKey(k.pkb); err != nil || !bytes.Equal(pk2.Encode(), k.pkb) || pk2.TR() != k.pk.TR() {
				o.Violate("ML-DSA-%s pkDecode/pkEncode round trip fails", ps.name)
			}
			if sk2, err := ps.par.DecodeSecretKey(k.skb); err != nil || !bytes.Equal(sk2.Encode(), k.skb) {
				o.Violate("ML-DSA-%s skDecode/skEncode round trip fails", ps.name)
			}
			tr := k.pk.TR()
			if !bytes.Equal(tr[:], shake256(64, k.pkb)) || !bytes.Equal(k.skb[64:128], tr[:]) {
				o.Violate("ML-DSA-%s tr ≠ H(pk, 64)", ps.name)
			}
			if s := k.sk.Seed(); s == nil || !bytes.Equal(s[:], sd) {
				o.Violate("ML-DSA-%s SecretKey.Seed() does not return the seed", ps.name)
			}
			keys = append(keys, k)
		}
		// ---- signing and verification ----
		for c := 0; c < hlib.N(14, 260); c++ {
			o.Case()
			k := keys[rng.Intn(len(keys))]
			other := keys[(rng.Intn(len(keys)-1)+1+indexOf(keys, k))%len(keys)]
			signCase(o, rng, k, other)
		}
		bulkSign(o, rng, keys)
	}
}

// bulkSign: many deterministic and explicit-rnd signatures on short messages, byte for byte against
// the reference — every rejection-loop comparison of Alg. 7 (‖z‖∞ < γ1−β, ‖r0‖∞ < γ2−β,
// ‖ct0‖∞ < γ2, hints ≤ ω) sits on its boundary for roughly one candidate in a hundred.
func bulkSign(o *hlib.Out, rng *hlib.Rng, keys []*gkey) {
	for c := 0; c < hlib.N(30, 900); c++ {
		if c%10 == 0 {
			o.Case()
		}
		k := keys[rng.Intn(len(keys))]
		mp := fmtMsg(nil, rng.Bytes(1+rng.Intn(16)))
		var rnd [32]byte
		if rng.Bool() {
			copy(rnd[:], rng.Bytes(32))
		}
		s := k.sk.VerifSignInternal(mp, rnd)
		o.Emit("!D sign "+k.ps.name+" "+k.skTok+" "+hlib.Tok(mp)+" "+hlib.Tok(rnd[:]), okTok(s), true)
		if k.pk.VerifVerifyInternal(mp, s) != nil {
			o.Violate("ML-DSA-%s: own signature rejected (bulk)", k.ps.name)
		}
		o.Count("sign/bulk")
	}
}

func indexOf(ks []*gkey, k *gkey) int {
	for i := range ks {
		if ks[i] == k {
			return i
		}
	}
	return 0
}

func signCase(o *hlib.Out, rng *hlib.Rng, k, other *gkey) {
	ps := k.ps
	set := ps.name
	msg, ctx := msgOf(rng), ctxOf(rng)
	mp := fmtMsg(ctx, msg)
	mpTok := hlib.Tok(mp)
	o.Emit("!D fmt "+hlib.Tok(ctx)+" "+hlib.Tok(msg), okTok(mp), true)
	o.Count("fmt/ctx-len-class-" + map[bool]string{true: "0", false: "1..255"}[len(ctx) == 0])

	// deterministic variant: rnd = 0^32
	sigD, err := k.sk.SignDeterministic(msg, ctx)
	if err != nil {
		o.Violate("ML-DSA-%s SignDeterministic fails with |ctx| = %d: %v", set, len(ctx), err)
		return
	}
	o.Emit("!D sign "+set+" "+k.skTok+" "+mpTok+" "+hlib.Tok(zero32), okTok(sigD), true)
	o.Count("sign/deterministic")
	if sk2, e := ps.par.DecodeSecretKey(k.skb); e == nil {
		if s2, _ := sk2.SignDeterministic(msg, ctx); !bytes.Equal(s2, sigD) {
			o.Violate("ML-DSA-%s: the decoded secret key signs differently from the generated one", set)
		}
	}
	if len(sigD) != ps.sigLen {
		o.Violate("ML-DSA-%s signature length %d", set, len(sigD))
	}
	if emitVerify(o, k, k.pkb, ctx, msg, sigD, "valid-deterministic") != "1" {
		o.Violate("ML-DSA-%s: Go rejects its own deterministic signature", set)
	}

	// hedged variant with known rnd (crypto/rand.Reader tape)
	rnd := rng.Bytes(32)
	var sigH []byte
	okr := forced(rng, rnd, func() { sigH, err = k.sk.Sign(msg, ctx) })
	if err != nil || !okr {
		o.Violate("ML-DSA-%s Sign: err=%v, rnd taken from crypto/rand first: %v", set, err, okr)
		return
	}
	o.Emit("!D sign "+set+" "+k.skTok+" "+mpTok+" "+hlib.Tok(rnd), okTok(sigH), true)
	o.Count("sign/hedged-known-rnd")
	if emitVerify(o, k, k.pkb, ctx, msg, sigH, "valid-hedged") != "1" {
		o.Violate("ML-DSA-%s: Go rejects its own hedged signature", set)
	}
	if bytes.Equal(sigH, sigD) {
		o.Violate("ML-DSA-%s: hedged signature equals the deterministic one (rnd ignored)", set)
	}

	// context longer than 255 bytes: error on both sides
	if rng.Chance(30) {
		long := rng.Bytes(256 + rng.Intn(2)*rng.Intn(300))
		_, e1 := k.sk.SignDeterministic(msg, long)
		_, e2 := k.sk.Sign(msg, long)
		e3 := k.pk.Verify(msg, sigD, long)
		// a context of L > 255 bytes would be framed with the length byte L−256: the same M′ as the
		// legitimate pair (ctx = long[:L−256], M = long[L−256:] ‖ msg), whose signature must not carry over
		cut := len(long) - 256
		if sw, e := k.sk.SignDeterministic(append(append([]byte(nil), long[cut:]...), msg...), long[:cut]); e == nil {
			if k.pk.Verify(msg, sw, long) == nil {
				o.Violate("ML-DSA-%s: Verify accepts a context of %d bytes (length byte wraps)", set, len(long))
			}
			o.Count("verify/ctx>255-wrapping-signature=0")
		}
		if e1 == nil || e2 == nil || e3 == nil {
			o.Violate("ML-DSA-%s: context of %d bytes accepted (sign det %v, sign %v, verify %v)", set, len(long), e1, e2, e3)
		}
		o.Emit("!D fmt "+hlib.Tok(long)+" "+hlib.Tok(msg), "err", true)
		o.Count("fmt/ctx>255=err")
	}

	// Sign_internal on an arbitrary M′ (not of the 0x00‖|ctx|‖ctx‖M form), explicit rnd
	if rng.Chance(50) {
		raw := rng.Bytes(rng.Intn(120))
		if len(raw) > 0 && rng.Chance(40) {
			raw[0] = 1 // HashML-DSA domain separator
		}
		var r2 [32]byte
		copy(r2[:], rng.Bytes(32))
		s := k.sk.VerifSignInternal(raw, r2)
		o.Emit("!D sign "+set+" "+k.skTok+" "+hlib.Tok(raw)+" "+hlib.Tok(r2[:]), okTok(s), true)
		v := v01(k.pk.VerifVerifyInternal(raw, s))
		o.Emit("!D verify "+set+" "+k.pkTok+" "+hlib.Tok(raw)+" "+hlib.Tok(s), v, true)
		if v != "1" {
			o.Violate("ML-DSA-%s: Verify_internal rejects Sign_internal's output on a raw M′", set)
		}
		o.Count("sign/raw-mprime")
	}

	// ---- decisions on mutated inputs ----
	base, baseKind := sigD, "det"
	if rng.Bool() {
		base, baseKind = sigH, "hedged"
	}
	o.Count("mutation-base/" + baseKind)
	for _, m := range sigMutations(rng, ps, base) {
		v := emitVerify(o, k, k.pkb, ctx, msg, m.sig, m.kind)
		if v == "1" && !bytes.Equal(m.sig, base) {
			o.Violate("ML-DSA-%s: Go accepts a modified signature (%s)", set, m.kind)
		}
	}
	// other key / context / message
	if emitVerify(o, k, other.pkb, ctx, msg, base, "other-key") == "1" {
		o.Violate("ML-DSA-%s: signature accepted under another key", set)
	}
	{
		pkm := append([]byte(nil), k.pkb...)
		kind := "pk-flip-rho"
		if rng.Bool() {
			pkm[32+rng.Intn(len(pkm)-32)] ^= 1 << uint(rng.Intn(8))
			kind = "pk-flip-t1"
		} else {
			pkm[rng.Intn(32)] ^= 1 << uint(rng.Intn(8))
		}
		if emitVerify(o, k, pkm, ctx, msg, base, kind) == "1" {
			o.Violate("ML-DSA-%s: signature accepted under a modified public key", set)
		}
		if rng.Chance(25) {
			pkl := append([]byte(nil), k.pkb...)
			kind := "pk-len+1"
			if rng.Bool() {
				pkl = pkl[:len(pkl)-1]
				kind = "pk-len-1"
			} else {
				pkl = append(pkl, 0)
			}
			emitVerify(o, k, pkl, ctx, msg, base, kind)
		}
	}
	var ctx2 []byte
	switch {
	case len(ctx) == 0:
		ctx2 = rng.Bytes(1 + rng.Intn(4))
	case rng.Intn(3) == 0:
		ctx2 = []byte{}
	case rng.Intn(2) == 0 && len(ctx) < 255:
		ctx2 = append(append([]byte(nil), ctx...), 0)
	default:
		ctx2 = append([]byte(nil), ctx...)
		ctx2[rng.Intn(len(ctx2))] ^= 1 << uint(rng.Intn(8))
	}
	if emitVerify(o, k, k.pkb, ctx2, msg, base, "other-context") == "1" {
		o.Violate("ML-DSA-%s: signature accepted under another context", set)
	}
	// moving a byte between ctx and message keeps ctx‖M but not M′
	if len(ctx) > 0 {
		if emitVerify(o, k, k.pkb, ctx[:len(ctx)-1], append([]byte{ctx[len(ctx)-1]}, msg...), base, "ctx-msg-boundary-shift") == "1" {
			o.Violate("ML-DSA-%s: ctx/message boundary is not bound", set)
		}
	}
	msg2 := append([]byte(nil), msg...)
	if len(msg2) == 0 || rng.Intn(4) == 0 {
		msg2 = append(msg2, byte(rng.Intn(256)))
	} else {
		msg2[rng.Intn(len(msg2))] ^= 1 << uint(rng.Intn(8))
	}
	if emitVerify(o, k, k.pkb, ctx, msg2, base, "other-message") == "1" {
		o.Violate("ML-DSA-%s: signature accepted for another message", set)
	}

	// ---- external mu ----
	tr := k.pk.TR()
	muB := shake256(64, tr[:], mp)
	o.Emit("!D mu "+set+" "+k.pkTok+" "+mpTok, hlib.Tok(muB), true)
	var mu [64]byte
	copy(mu[:], muB)
	sMuD := k.sk.SignDeterministicWithMu(mu)
	o.Emit("!D signmu "+set+" "+k.skTok+" "+hlib.Tok(muB)+" "+hlib.Tok(zero32), okTok(sMuD), true)
	if !bytes.Equal(sMuD, sigD) {
		o.Violate("ML-DSA-%s: SignDeterministicWithMu(H(tr‖M′)) ≠ SignDeterministic(M, ctx)", set)
	}
	rnd2 := rng.Bytes(32)
	var sMuH []byte
	if !forced(rng, rnd2, func() { sMuH = k.sk.SignWithMu(mu) }) {
		o.Violate("ML-DSA-%s SignWithMu does not take rnd from crypto/rand first", set)
	}
	o.Emit("!D signmu "+set+" "+k.skTok+" "+hlib.Tok(muB)+" "+hlib.Tok(rnd2), okTok(sMuH), true)
	o.Count("signmu/det+hedged")
	if emitVerify(o, k, k.pkb, ctx, msg, sMuH, "valid-external-mu") != "1" {
		o.Violate("ML-DSA-%s: the ordinary verifier rejects an external-mu signature", set)
	}
	emitVerifyMu := func(muv [64]byte, sig []byte, kind string) string {
		v := v01(k.pk.VerifyWithMu(muv, sig))
		o.Emit("!D verifymu "+set+" "+k.pkTok+" "+hlib.Tok(muv[:])+" "+hlib.Tok(sig), v, true)
		o.Count("verifymu/" + kind + "=" + v)
		return v
	}
	if emitVerifyMu(mu, sMuH, "valid") != "1" {
		o.Violate("ML-DSA-%s: VerifyWithMu rejects SignWithMu's output", set)
	}
	if rng.Bool() {
		if emitVerifyMu(mu, sigH, "valid-ordinary-signature") != "1" {
			o.Violate("ML-DSA-%s: VerifyWithMu rejects an ordinary signature on the same μ", set)
		}
	}
	mu2 := mu
	mu2[rng.Intn(64)] ^= 1 << uint(rng.Intn(8))
	if emitVerifyMu(mu2, sMuH, "other-mu") == "1" {
		o.Violate("ML-DSA-%s: VerifyWithMu accepts under another μ", set)
	}
	ms := sigMutations(rng, ps, sMuH)
	m := ms[rng.Intn(len(ms))]
	if emitVerifyMu(mu, m.sig, "mutated") == "1" && !bytes.Equal(m.sig, sMuH) {
		o.Violate("ML-DSA-%s: VerifyWithMu accepts a modified signature (%s)", set, m.kind)
	}
}
