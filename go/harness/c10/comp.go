//go:build verif

package main

import (
	"bytes"
	"crypto/sha512"
	"encoding/binary"
	"fmt"

	"github.com/tink-crypto/tink-go/v2/internal/internalapi"
	"github.com/tink-crypto/tink-go/v2/internal/keygenregistry"
	icomp "github.com/tink-crypto/tink-go/v2/internal/signature/compositemldsa"
	"github.com/tink-crypto/tink-go/v2/internal/verifharness/hlib"
	"github.com/tink-crypto/tink-go/v2/key"
	"github.com/tink-crypto/tink-go/v2/signature"
	comp "github.com/tink-crypto/tink-go/v2/signature/compositemldsa"
	"github.com/tink-crypto/tink-go/v2/signature/ecdsa"
	"github.com/tink-crypto/tink-go/v2/signature/ed25519"
	pmldsa "github.com/tink-crypto/tink-go/v2/signature/mldsa"
	"github.com/tink-crypto/tink-go/v2/signature/rsassapkcs1"
	"github.com/tink-crypto/tink-go/v2/signature/rsassapss"
	"github.com/tink-crypto/tink-go/v2/signprehash"
	"github.com/tink-crypto/tink-go/v2/tink"
)

// Section 5: the public API — signature/mldsa keys through keyset handles (TINK / NO_PREFIX /
// NO_PREFIX_WITH_PREHASH_ID), and signprehash (external mu).

func tinkPrefix(id uint32) []byte {
	p := []byte{1, 0, 0, 0, 0}
	binary.BigEndian.PutUint32(p[1:], id)
	return p
}

func apiSection(o *hlib.Out, seed uint64) {
	rng := hlib.NewRng(seed, "c10/api")
	variants := []pmldsa.Variant{pmldsa.VariantTink, pmldsa.VariantNoPrefix, pmldsa.VariantNoPrefixWithPrehashID}
	vname := []string{"TINK", "RAW", "RAW-PREHASH-ID"}
	for c := 0; c < hlib.N(12, 240); c++ {
		o.Case()
		ps := psets[c%3]
		vi := (c / 3) % 3
		id := rng.KeyID()
		if vi == 1 {
			id = 0
		}
		params, err := pmldsa.NewParameters(ps.inst, variants[vi])
		if err != nil {
			panic(err)
		}
		sd := rng.Bytes(32)
		priv, err := pmldsa.NewPrivateKey(hlib.Secret(sd), id, params)
		if err != nil {
			panic(err)
		}
		k := newKey(ps, sd)
		pubK, _ := priv.PublicKey()
		pub := pubK.(*pmldsa.PublicKey)
		// the key object's public key bytes against the reference's key generation
		o.Emit("!D keygen "+ps.name+" "+hlib.Tok(sd), "ok "+hlib.Tok(pub.KeyBytes())+" "+k.skTok, true)
		o.Count("api/key-" + vname[vi])
		wantPrefix := []byte{}
		if vi == 0 {
			wantPrefix = tinkPrefix(id)
		}
		if !bytes.Equal(priv.OutputPrefix(), wantPrefix) || !bytes.Equal(pub.OutputPrefix(), wantPrefix) {
			o.Violate("signature/mldsa %s key id %08x: output prefix %x, want %x", vname[vi], id, priv.OutputPrefix(), wantPrefix)
		}
		kh, err := hlib.HandleOf(priv)
		if err != nil {
			panic(err)
		}
		pubH, err := kh.Public()
		if err != nil {
			panic(err)
		}
		signer, err := signature.NewSigner(kh)
		if err != nil {
			panic(err)
		}
		verifier, err := signature.NewVerifier(pubH)
		if err != nil {
			panic(err)
		}
		msg := msgOf(rng)
		mp := fmtMsg(nil, msg)
		rnd := rng.Bytes(32)
		var sig []byte
		if !forced(rng, rnd, func() { sig, err = signer.Sign(msg) }) || err != nil {
			o.Violate("signature/mldsa %s signer: err=%v or rnd not drawn first", vname[vi], err)
			continue
		}
		if !bytes.HasPrefix(sig, wantPrefix) || len(sig) != len(wantPrefix)+ps.sigLen {
			o.Violate("signature/mldsa %s: signature is not prefix ‖ σ (prefix %x, length %d)", vname[vi], wantPrefix, len(sig))
			continue
		}
		raw := sig[len(wantPrefix):]
		o.Emit("!D sign "+ps.name+" "+k.skTok+" "+hlib.Tok(mp)+" "+hlib.Tok(rnd), okTok(raw), true)
		emitVerify(o, k, pub.KeyBytes(), nil, msg, raw, "api-suffix-"+vname[vi])
		if e := verifier.Verify(sig, msg); e != nil {
			o.Violate("signature/mldsa %s: keyset verifier rejects the keyset signer's output: %v", vname[vi], e)
		}
		o.Count("api/sign-verify-" + vname[vi])
		// prefix handling
		type alt struct {
			kind string
			sig  []byte
			ok   bool
		}
		var alts []alt
		if vi == 0 {
			alts = append(alts, alt{"tink-without-prefix", raw, false})
			alts = append(alts, alt{"tink-other-id", append(tinkPrefix(id^(1<<uint(rng.Intn(32)))), raw...), false})
			alts = append(alts, alt{"tink-crunchy-start-byte", append(append([]byte{0}, sig[1:5]...), raw...), false})
		} else {
			alts = append(alts, alt{"raw-with-tink-prefix", append(tinkPrefix(id), raw...), false})
		}
		fl := append([]byte(nil), sig...)
		fl[rng.Intn(len(fl))] ^= 1 << uint(rng.Intn(8))
		alts = append(alts, alt{"flip", fl, false})
		alts = append(alts, alt{"truncated", sig[:rng.Intn(len(sig))], false})
		direct, err := pmldsa.NewVerifier(pub, internalapi.Token{}) // the primitive without the keyset wrapper
		if err != nil {
			panic(err)
		}
		if e := direct.Verify(sig, msg); e != nil {
			o.Violate("signature/mldsa %s: the primitive rejects the signer's output: %v", vname[vi], e)
		}
		for _, a := range alts {
			got := verifier.Verify(a.sig, msg) == nil
			if got != a.ok {
				o.Violate("signature/mldsa %s: %s → accepted=%v", vname[vi], a.kind, got)
			}
			if got2 := direct.Verify(a.sig, msg) == nil; got2 != a.ok {
				o.Violate("signature/mldsa %s primitive (no keyset wrapper): %s → accepted=%v", vname[vi], a.kind, got2)
			}
			o.Count("api/reject-" + a.kind)
		}
		if e := verifier.Verify(sig, append(append([]byte(nil), msg...), 0)); e == nil {
			o.Violate("signature/mldsa %s: other message accepted", vname[vi])
		}

		// ---- signprehash: μ computed from the public key, signed with SignPrehash ----
		if vi == 1 {
			_, e1 := signprehash.NewPrehash(pubH)
			_, e2 := signprehash.NewPrehashSigner(kh)
			if e1 == nil || e2 == nil {
				o.Violate("signprehash accepts a NO_PREFIX key (no key id to bind): %v %v", e1, e2)
			}
			o.Count("prehash/raw-key-refused")
			continue
		}
		ph, err := signprehash.NewPrehash(pubH)
		if err != nil {
			o.Violate("signprehash.NewPrehash(%s): %v", vname[vi], err)
			continue
		}
		phs, err := signprehash.NewPrehashSigner(kh)
		if err != nil {
			o.Violate("signprehash.NewPrehashSigner(%s): %v", vname[vi], err)
			continue
		}
		pre, err := ph.ComputePrehash(msg)
		if err != nil || len(pre) != 69 || pre[0] != 0xff || binary.BigEndian.Uint32(pre[1:5]) != id {
			o.Violate("ComputePrehash: err=%v, value %x… is not 0xff ‖ id ‖ μ", err, pre[:min(len(pre), 5)])
			continue
		}
		mu := pre[5:]
		o.Emit("!D mu "+ps.name+" "+k.pkTok+" "+hlib.Tok(mp), hlib.Tok(mu), true)
		rnd2 := rng.Bytes(32)
		var psig []byte
		if !forced(rng, rnd2, func() { psig, err = phs.SignPrehash(pre) }) || err != nil {
			o.Violate("SignPrehash: err=%v or rnd not drawn first", err)
			continue
		}
		o.Emit("!D signmu "+ps.name+" "+k.skTok+" "+hlib.Tok(mu)+" "+hlib.Tok(rnd2), okTok(psig), true)
		if emitVerify(o, k, k.pkb, nil, msg, psig, "prehash-signature") != "1" {
			o.Violate("ML-DSA-%s: external-mu signature from SignPrehash does not verify as an ordinary signature", ps.name)
		}
		o.Emit("!D verifymu "+ps.name+" "+k.pkTok+" "+hlib.Tok(mu)+" "+hlib.Tok(psig), v01(k.pk.VerifyWithMu([64]byte(mu), psig)), true)
		// under the keyset verifier of the same key
		e := verifier.Verify(psig, msg)
		if vi == 2 {
			if e != nil {
				o.Violate("%s: keyset verifier rejects the SignPrehash signature: %v", vname[vi], e)
			}
			o.Count("prehash/verifies-under-keyset-verifier-" + vname[vi])
		} else {
			// TINK keys: SignPrehash returns the bare σ; the ordinary TINK verifier wants 0x01‖id‖σ.
			if e == nil {
				o.Count("prehash/TINK-bare-signature-accepted-by-keyset-verifier")
			} else {
				o.Count("prehash/TINK-bare-signature-needs-prefix-for-keyset-verifier")
			}
			if e2 := verifier.Verify(append(tinkPrefix(id), psig...), msg); e2 != nil {
				o.Violate("TINK: keyset verifier rejects prefix ‖ SignPrehash signature: %v", e2)
			}
		}
		// malformed prehash values
		bad := [][]byte{pre[:68], append(append([]byte(nil), pre...), 0), append([]byte{0xfe}, pre[1:]...),
			append(append([]byte{0xff}, tinkPrefix(id ^ 1)[1:]...), mu...), mu}
		for _, b := range bad {
			if _, e := phs.SignPrehash(b); e == nil {
				o.Violate("SignPrehash accepts a malformed prehash of %d bytes (%x…)", len(b), b[:5])
			}
			o.Count("prehash/malformed-refused")
		}
	}
}

// Section 6: composite ML-DSA (draft-ietf-lamps-pq-composite-sigs): accept iff both components
// accept; the ML-DSA component is checked by the reference on M′ = Prefix ‖ Label ‖ 0x00 ‖ SHA-512(M)
// with ctx = Label.

type compCombo struct {
	alg   comp.ClassicalAlgorithm
	ialg  icomp.ClassicalAlgorithm
	inst  comp.MLDSAInstance
	set   string
	label string
	slow  bool
}

var compCombos = []compCombo{
	{comp.Ed25519, icomp.Ed25519, comp.MLDSA65, "65", "COMPSIG-MLDSA65-Ed25519-SHA512", false},
	{comp.ECDSAP256, icomp.ECDSAP256, comp.MLDSA65, "65", "COMPSIG-MLDSA65-ECDSA-P256-SHA512", false},
	{comp.ECDSAP384, icomp.ECDSAP384, comp.MLDSA65, "65", "COMPSIG-MLDSA65-ECDSA-P384-SHA512", false},
	{comp.ECDSAP384, icomp.ECDSAP384, comp.MLDSA87, "87", "COMPSIG-MLDSA87-ECDSA-P384-SHA512", false},
	{comp.ECDSAP521, icomp.ECDSAP521, comp.MLDSA87, "87", "COMPSIG-MLDSA87-ECDSA-P521-SHA512", false},
	{comp.RSA3072PSS, icomp.RSA3072PSS, comp.MLDSA65, "65", "COMPSIG-MLDSA65-RSA3072-PSS-SHA512", true},
	{comp.RSA3072PKCS1, icomp.RSA3072PKCS1, comp.MLDSA65, "65", "COMPSIG-MLDSA65-RSA3072-PKCS15-SHA512", true},
	{comp.RSA3072PSS, icomp.RSA3072PSS, comp.MLDSA87, "87", "COMPSIG-MLDSA87-RSA3072-PSS-SHA512", true},
	{comp.RSA4096PKCS1, icomp.RSA4096PKCS1, comp.MLDSA65, "65", "COMPSIG-MLDSA65-RSA4096-PKCS15-SHA512", true},
}

func classicalVerifier(k key.Key) (tink.Verifier, error) {
	switch p := k.(type) {
	case *ed25519.PublicKey:
		return ed25519.NewVerifier(p, internalapi.Token{})
	case *ecdsa.PublicKey:
		return ecdsa.NewVerifier(p, internalapi.Token{})
	case *rsassapss.PublicKey:
		return rsassapss.NewVerifier(p, internalapi.Token{})
	case *rsassapkcs1.PublicKey:
		return rsassapkcs1.NewVerifier(p, internalapi.Token{})
	}
	return nil, fmt.Errorf("unknown classical key %T", k)
}

func compositeSection(o *hlib.Out, seed uint64) {
	rng := hlib.NewRng(seed, "c10/comp")
	rounds := hlib.N(1, 6)
	for round := 0; round < rounds; round++ {
		for ci, cc := range compCombos {
			if cc.slow && (!hlib.Thorough() || round > 0) {
				continue
			}
			o.Case()
			ps := psetByName(cc.set)
			variant, vname := comp.VariantTink, "TINK"
			id := rng.KeyID()
			if (ci+round)%2 == 1 {
				variant, vname, id = comp.VariantNoPrefix, "RAW", 0
			}
			params, err := comp.NewParameters(cc.alg, cc.inst, variant)
			if err != nil {
				panic(err)
			}
			sd := rng.Bytes(32)
			k := newKey(ps, sd)
			mlParams, err := pmldsa.NewParameters(ps.inst, pmldsa.VariantNoPrefix)
			if err != nil {
				panic(err)
			}
			mlPriv, err := pmldsa.NewPrivateKey(hlib.Secret(sd), 0, mlParams)
			if err != nil {
				panic(err)
			}
			clParams, err := icomp.ParametersForClassicalAlgorithm(cc.ialg)
			if err != nil {
				panic(err)
			}
			hlib.InstallTape(rng.U64())
			clPriv, err := keygenregistry.CreateKey(clParams, 0)
			if err != nil {
				panic(err)
			}
			priv, err := comp.NewPrivateKey(mlPriv, clPriv, id, params)
			if err != nil {
				panic(err)
			}
			pubK, _ := priv.PublicKey()
			pub := pubK.(*comp.PublicKey)
			if !bytes.Equal(pub.MLDSAPublicKey().KeyBytes(), k.pkb) {
				o.Violate("composite: ML-DSA public key differs from key generation on the seed")
			}
			prefix := []byte{}
			if variant == comp.VariantTink {
				prefix = tinkPrefix(id)
			}
			var signer tink.Signer
			var verifier tink.Verifier
			if (round+ci)%2 == 0 {
				signer, err = comp.NewSigner(priv, internalapi.Token{})
				if err != nil {
					panic(err)
				}
				verifier, err = comp.NewVerifier(pub, internalapi.Token{})
				if err != nil {
					panic(err)
				}
				o.Count("composite/direct-primitives")
			} else {
				kh, err := hlib.HandleOf(priv)
				if err != nil {
					panic(err)
				}
				pubH, err := kh.Public()
				if err != nil {
					panic(err)
				}
				if signer, err = signature.NewSigner(kh); err != nil {
					panic(err)
				}
				if verifier, err = signature.NewVerifier(pubH); err != nil {
					panic(err)
				}
				o.Count("composite/keyset-handle")
			}
			clV, err := classicalVerifier(pub.ClassicalPublicKey())
			if err != nil {
				panic(err)
			}
			lbl, err := icomp.ComputeLabel(map[string]icomp.MLDSAInstance{"65": icomp.MLDSA65, "87": icomp.MLDSA87}[cc.set], cc.ialg)
			if err != nil || lbl != cc.label {
				o.Violate("composite label %q, the draft's table says %q (%v)", lbl, cc.label, err)
			}
			label := []byte(cc.label)
			mprimeOf := func(m []byte) []byte {
				h := sha512.Sum512(m)
				out := append([]byte("CompositeAlgorithmSignatures2025"), label...)
				out = append(out, 0)
				return append(out, h[:]...)
			}
			type sigParts struct{ ml, cl []byte }
			sign := func(m []byte) (sigParts, []byte, bool) {
				rnd := rng.Bytes(32)
				var sig []byte
				var err error
				okr := forced(rng, rnd, func() { sig, err = signer.Sign(m) })
				if err != nil || !okr || !bytes.HasPrefix(sig, prefix) || len(sig) < len(prefix)+ps.sigLen {
					o.Violate("composite %s %s: Sign err=%v rnd-first=%v |sig|=%d", cc.label, vname, err, okr, len(sig))
					return sigParts{}, nil, false
				}
				body := sig[len(prefix):]
				p := sigParts{append([]byte(nil), body[:ps.sigLen]...), append([]byte(nil), body[ps.sigLen:]...)}
				// the ML-DSA component is Sign(sk, M′, ctx = Label) with the rnd drawn
				cm := mprimeOf(m)
				if !bytes.Equal(cm, icomp.ComputeMessagePrime(cc.label, m)) {
					o.Violate("composite: ComputeMessagePrime ≠ Prefix ‖ Label ‖ 0x00 ‖ SHA-512(M)")
				}
				o.Emit("!D sign "+cc.set+" "+k.skTok+" "+hlib.Tok(fmtMsg(label, cm))+" "+hlib.Tok(rnd), okTok(p.ml), true)
				return p, sig, true
			}
			join := func(p sigParts) []byte { return append(append(append([]byte(nil), prefix...), p.ml...), p.cl...) }
			// check: composite verdict = ML-DSA verdict (shared with the reference) ∧ classical verdict
			check := func(kind string, m []byte, p sigParts, full []byte) {
				cm := mprimeOf(m)
				mlV := emitVerify(o, k, k.pkb, label, cm, p.ml, "composite-mldsa-part")
				clOK := clV.Verify(p.cl, cm) == nil
				got := verifier.Verify(full, m) == nil
				want := mlV == "1" && clOK
				if got != want {
					o.Violate("composite %s %s [%s]: accepted=%v but ML-DSA component=%s, classical component=%v", cc.label, vname, kind, got, mlV, clOK)
				}
				o.Count(fmt.Sprintf("composite/%s=%v", kind, got))
			}
			for it := 0; it < hlib.N(1, 3); it++ {
				msg := msgOf(rng)
				p1, full1, ok := sign(msg)
				if !ok {
					break
				}
				p2, _, ok := sign(msg)
				if !ok {
					break
				}
				msgB := append(append([]byte(nil), msg...), 1)
				p3, _, ok := sign(msgB)
				if !ok {
					break
				}
				if verifier.Verify(full1, msg) != nil {
					o.Violate("composite %s %s: own signature rejected", cc.label, vname)
				}
				check("untouched", msg, p1, full1)
				// components of two valid signatures on the same message, recombined: both verify
				mix := sigParts{p1.ml, p2.cl}
				check("recombined-same-message", msg, mix, join(mix))
				if verifier.Verify(join(mix), msg) != nil {
					o.Violate("composite %s: two valid components on the same message rejected", cc.label)
				}
				// one component broken at a time
				b := sigParts{append([]byte(nil), p1.ml...), p1.cl}
				b.ml[rng.Intn(len(b.ml))] ^= 1 << uint(rng.Intn(8))
				check("mldsa-part-flipped", msg, b, join(b))
				if verifier.Verify(join(b), msg) == nil {
					o.Violate("composite %s: accepted with a broken ML-DSA component", cc.label)
				}
				b = sigParts{p1.ml, append([]byte(nil), p1.cl...)}
				b.cl[rng.Intn(len(b.cl))] ^= 1 << uint(rng.Intn(8))
				check("classical-part-flipped", msg, b, join(b))
				if verifier.Verify(join(b), msg) == nil {
					o.Violate("composite %s: accepted with a broken classical component", cc.label)
				}
				// one component taken from a signature on another message
				b = sigParts{p3.ml, p1.cl}
				check("mldsa-part-of-other-message", msg, b, join(b))
				b = sigParts{p1.ml, p3.cl}
				check("classical-part-of-other-message", msg, b, join(b))
				b = sigParts{p1.ml, []byte{}}
				check("classical-part-missing", msg, b, join(b))
				// the whole signature on another message, truncated, wrong prefix
				check("other-message", msgB, p1, full1)
				if verifier.Verify(full1[:len(prefix)+ps.sigLen-1], msg) == nil {
					o.Violate("composite %s: truncated signature accepted", cc.label)
				}
				if variant == comp.VariantTink {
					w := append([]byte(nil), full1...)
					w[rng.Intn(5)] ^= 1 << uint(rng.Intn(8))
					if verifier.Verify(w, msg) == nil || verifier.Verify(full1[5:], msg) == nil {
						o.Violate("composite %s TINK: wrong or missing prefix accepted", cc.label)
					}
					o.Count("composite/prefix-checked")
				}
				o.Count("composite/" + cc.label)
			}
		}
	}
}
