//go:build verif

package main

import (
	"bytes"

	imldsa "github.com/tink-crypto/tink-go/v2/internal/signature/mldsa"
	"github.com/tink-crypto/tink-go/v2/internal/verifharness/hlib"
)

// Section 2: the codecs of marshal.go against FIPS 204 Algorithms 16–21 and 28 written out here
// bit by bit from the standard (IntegerToBits / BitsToBytes), plus NTT laws. These are oracles on
// the Go side (no driver command exists for the codecs); end to end the same codecs are tied to the
// Lean reference by the byte-identical keys and signatures of section 3.

// specPack: z ← z ‖ IntegerToBits(v_i, b); BitsToBytes(z).
func specPack(vals []uint32, b int) []byte {
	var bitsv []byte
	for _, v := range vals {
		for j := 0; j < b; j++ {
			bitsv = append(bitsv, byte((v>>uint(j))&1))
		}
	}
	out := make([]byte, len(bitsv)/8)
	for i, bit := range bitsv {
		out[i/8] += bit << uint(i%8)
	}
	return out
}

func specUnpack(enc []byte, b int) []uint32 {
	out := make([]uint32, 256)
	for i := 0; i < 256; i++ {
		var v uint32
		for j := 0; j < b; j++ {
			bit := i*b + j
			v += uint32((enc[bit/8]>>uint(bit%8))&1) << uint(j)
		}
		out[i] = v
	}
	return out
}

// specHintUnpack is Algorithm 21; nil means ⊥.
func specHintUnpack(omega, k int, y []byte) [][]uint32 {
	h := make([][]uint32, k)
	for i := range h {
		h[i] = make([]uint32, 256)
	}
	index := 0
	for i := 0; i < k; i++ {
		if int(y[omega+i]) < index || int(y[omega+i]) > omega {
			return nil
		}
		first := index
		for index < int(y[omega+i]) {
			if index > first && y[index-1] >= y[index] {
				return nil
			}
			h[i][y[index]] = 1
			index++
		}
	}
	for i := index; i < omega; i++ {
		if y[i] != 0 {
			return nil
		}
	}
	return h
}

func specHintPack(omega, k int, h [][]uint32) []byte {
	y := make([]byte, omega+k)
	index := 0
	for i := 0; i < k; i++ {
		for j := 0; j < 256; j++ {
			if h[i][j] != 0 {
				y[index] = byte(j)
				index++
			}
		}
		y[omega+i] = byte(index)
	}
	return y
}

func eqU32(a, b []uint32) bool {
	if len(a) != len(b) {
		return false
	}
	for i := range a {
		if a[i] != b[i] {
			return false
		}
	}
	return true
}

// randHint draws a hint vector with exactly total ones (total ≤ ω), clustered or spread.
func randHint(r *hlib.Rng, k, total int) [][]uint32 {
	h := make([][]uint32, k)
	for i := range h {
		h[i] = make([]uint32, 256)
	}
	for n := 0; n < total; {
		i := r.Intn(k)
		if r.Chance(30) {
			i = 0
		}
		j := r.Intn(256)
		if r.Chance(10) {
			j = r.Pick(0, 255)
		}
		if h[i][j] == 0 {
			h[i][j] = 1
			n++
		}
	}
	return h
}

func codecSection(o *hlib.Out, seed uint64) {
	rng := hlib.NewRng(seed, "c10/codec")
	n := hlib.N(60, 1500)
	type shape struct {
		name string
		a, b uint32 // coefficient range [-a, b] for BitPack; a = 0 means SimpleBitPack with b = max
		bits int
	}
	shapes := []shape{
		{"t1", 0, 1023, 10}, {"w1-88", 0, 43, 6}, {"w1-32", 0, 15, 4},
		{"eta2", 2, 2, 3}, {"eta4", 4, 4, 4}, {"t0", 4095, 4096, 13},
		{"z17", (1 << 17) - 1, 1 << 17, 18}, {"z19", (1 << 19) - 1, 1 << 19, 20},
	}
	for c := 0; c < n; c++ {
		for _, s := range shapes {
			// coefficients as residues mod q, in range, with the extremes over-represented
			w := make([]uint32, 256)
			enc := make([]uint32, 256) // the integers the standard packs: w_i resp. b − w_i
			for i := range w {
				span := int(s.a + s.b + 1)
				v := rng.Intn(span) // 0..a+b, meaning coefficient v − a
				switch rng.Intn(12) {
				case 0:
					v = 0
				case 1:
					v = span - 1
				}
				if s.a == 0 {
					w[i], enc[i] = uint32(v), uint32(v)
				} else {
					coef := int64(v) - int64(s.a)
					w[i] = uint32((coef + q) % q)
					enc[i] = uint32(int64(s.b) - coef)
				}
			}
			want := specPack(enc, s.bits)
			var got []byte
			var back []uint32
			if s.a == 0 {
				got = imldsa.VerifSimpleBitPack(w, s.bits)
				back = imldsa.VerifSimpleBitUnpack(got, s.bits)
				if g2 := imldsa.VerifSimpleBitPackNTT(w, s.bits); !bytes.Equal(g2, got) {
					o.Violate("simpleBitPack differs between poly and polyNTT (%s)", s.name)
				}
				if b2 := imldsa.VerifSimpleBitUnpackNTT(got, s.bits); !eqU32(b2, back) {
					o.Violate("simpleBitUnpack differs between poly and polyNTT (%s)", s.name)
				}
			} else {
				got = imldsa.VerifBitPack(w, s.b, s.bits)
				back = imldsa.VerifBitUnpack(got, s.b, s.bits)
			}
			if !bytes.Equal(got, want) {
				o.Violate("BitPack(%s) differs from FIPS 204 Alg. 16/17: coefficients %v", s.name, w[:8])
			}
			if !eqU32(back, w) {
				o.Violate("BitUnpack(BitPack(w)) ≠ w for %s", s.name)
			}
			o.Count("codec/pack-" + s.name)
			// unpacking arbitrary bytes (out-of-range values included, as Alg. 18/19 do not check)
			raw := rng.Bytes(32 * s.bits)
			ints := specUnpack(raw, s.bits)
			var gu []uint32
			if s.a == 0 {
				gu = imldsa.VerifSimpleBitUnpack(raw, s.bits)
			} else {
				gu = imldsa.VerifBitUnpack(raw, s.b, s.bits)
				for i := range ints {
					ints[i] = uint32((int64(s.b) - int64(ints[i]) + q) % q)
				}
			}
			if !eqU32(gu, ints) {
				o.Violate("BitUnpack(%s) of arbitrary bytes differs from FIPS 204 Alg. 18/19", s.name)
			}
			o.Count("codec/unpack-" + s.name)
		}
		// hints
		for _, ps := range psets {
			total := rng.Intn(ps.omega + 1)
			switch rng.Intn(5) {
			case 0:
				total = ps.omega
			case 1:
				total = 0
			}
			h := randHint(rng, ps.k, total)
			y := ps.par.VerifHintBitPack(h)
			if !bytes.Equal(y, specHintPack(ps.omega, ps.k, h)) {
				o.Violate("hintBitPack(ML-DSA-%s) differs from FIPS 204 Alg. 20", ps.name)
			}
			back, err := ps.par.VerifHintBitUnpack(y)
			if err != nil {
				o.Violate("hintBitUnpack rejects hintBitPack output (ML-DSA-%s, %d ones)", ps.name, total)
			} else {
				for i := range h {
					if !eqU32(back[i], h[i]) {
						o.Violate("hintBitUnpack(hintBitPack(h)) ≠ h (ML-DSA-%s)", ps.name)
						break
					}
				}
			}
			o.Count("codec/hint-roundtrip")
			// decisions on damaged and on arbitrary encodings
			for m := 0; m < 6; m++ {
				y2 := append([]byte(nil), y...)
				switch rng.Intn(6) {
				case 5:
					y2 = overrunHint(rng, ps)
				case 0:
					y2[rng.Intn(len(y2))] ^= 1 << uint(rng.Intn(8))
				case 1:
					y2[ps.omega+rng.Intn(ps.k)] = byte(rng.Intn(ps.omega + 3))
				case 2:
					if total >= 2 {
						p := rng.Intn(total - 1)
						y2[p], y2[p+1] = y2[p+1], y2[p]
					}
				case 3:
					if total < ps.omega {
						y2[total+rng.Intn(ps.omega-total)] = byte(1 + rng.Intn(255))
					}
				case 4:
					y2 = rng.Bytes(len(y))
					for i := 0; i < ps.k; i++ {
						y2[ps.omega+i] = byte(rng.Intn(ps.omega + 2))
					}
				}
				want := specHintUnpack(ps.omega, ps.k, y2)
				var got [][]uint32
				var err error
				if p := hlib.Recover(func() { got, err = ps.par.VerifHintBitUnpack(y2) }); p != "" {
					o.Violate("hintBitUnpack(ML-DSA-%s) PANICS on %x: %s", ps.name, y2, p)
					continue
				}
				if (want == nil) != (err != nil) {
					o.Violate("hintBitUnpack(ML-DSA-%s) decision differs from FIPS 204 Alg. 21 on %x: Go err=%v, standard ⊥=%v", ps.name, y2, err, want == nil)
				} else if want != nil {
					for i := range want {
						if !eqU32(got[i], want[i]) {
							o.Violate("hintBitUnpack(ML-DSA-%s) value differs from FIPS 204 Alg. 21 on %x", ps.name, y2)
							break
						}
					}
				}
				if want == nil {
					o.Count("codec/hint-decode=⊥")
				} else {
					o.Count("codec/hint-decode=ok")
				}
			}
			// w1Encode = concatenated SimpleBitPack with bitlen((q-1)/(2γ2)-1) bits
			m := (q - 1) / (2 * ps.gamma2)
			w1 := make([][]uint32, ps.k)
			var want []byte
			for i := range w1 {
				w1[i] = make([]uint32, 256)
				for j := range w1[i] {
					w1[i][j] = uint32(rng.Intn(int(m)))
					if rng.Intn(10) == 0 {
						w1[i][j] = m - 1
					}
				}
				want = append(want, specPack(w1[i], ps.par.VerifW1Bits())...)
			}
			if !bytes.Equal(ps.par.VerifW1Encode(w1), want) {
				o.Violate("w1Encode(ML-DSA-%s) differs from FIPS 204 Alg. 28", ps.name)
			}
			o.Count("codec/w1Encode")
		}
	}
	// ExpandMask (Alg. 34) incl. counters ≥ 256, which ordinary signing reaches only after 64+
	// rejections: y_r = BitUnpack(H(ρ″ ‖ IntegerToBytes(μ + r, 2), 32·(1+bitlen(γ1−1))), γ1−1, γ1)
	for c := 0; c < hlib.N(20, 300); c++ {
		for _, ps := range psets {
			var rho [64]byte
			copy(rho[:], rng.Bytes(64))
			mu := rng.Pick(0, ps.l, 252, 255, 256, 257, 256+ps.l*rng.Intn(200), 65535-ps.l, ps.l*rng.Intn(16000))
			got := ps.par.VerifExpandMask(rho, mu)
			for r := 0; r < ps.l; r++ {
				n := mu + r
				v := shake256(32*ps.zBits, rho[:], []byte{byte(n), byte(n >> 8)})
				ints := specUnpack(v, ps.zBits)
				for i := range ints {
					ints[i] = uint32((int64(ps.gamma1) - int64(ints[i]) + q) % q)
				}
				if !eqU32(got[r], ints) {
					o.Violate("expandMask(ML-DSA-%s, κ = %d) polynomial %d differs from FIPS 204 Alg. 34", ps.name, mu, r)
					break
				}
			}
			if mu+ps.l > 256 {
				o.Count("codec/expandMask-κ≥256")
			} else {
				o.Count("codec/expandMask-κ<256")
			}
		}
	}
	// NTT laws: NTT⁻¹(NTT(w)) = w, and NTT⁻¹(NTT(a) ∘ NTT(b)) = a·b in Z_q[X]/(X^256+1)
	nn := hlib.N(40, 600)
	for c := 0; c < nn; c++ {
		a := make([]uint32, 256)
		b := make([]uint32, 256)
		for i := range a {
			a[i] = fe(rng)
			if rng.Chance(70) {
				b[i] = 0
			} else {
				b[i] = fe(rng)
			}
		}
		if !eqU32(imldsa.VerifNTTRoundTrip(a), a) {
			o.Violate("NTT⁻¹(NTT(w)) ≠ w")
		}
		want := make([]uint64, 256)
		for i := 0; i < 256; i++ {
			if b[i] == 0 {
				continue
			}
			for j := 0; j < 256; j++ {
				p := uint64(a[j]) * uint64(b[i]) % q
				if i+j < 256 {
					want[i+j] = (want[i+j] + p) % q
				} else {
					want[i+j-256] = (want[i+j-256] + q - p) % q
				}
			}
		}
		got := imldsa.VerifNTTMul(a, b)
		for i := range got {
			if uint64(got[i]) != want[i] {
				o.Violate("NTT⁻¹(NTT(a)∘NTT(b)) ≠ a·b mod (X^256+1) at coefficient %d", i)
				break
			}
		}
		mx := uint32(0)
		for _, x := range a {
			c := x
			if c > (q-1)/2 {
				c = q - c
			}
			if c > mx {
				mx = c
			}
		}
		if imldsa.VerifInfinityNorm(a) != mx {
			o.Violate("infinityNorm differs from max |a_i mod± q|")
		}
		o.Count("codec/ntt-laws")
	}
}
