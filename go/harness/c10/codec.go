//go:build verif

package main

import (
	"bytes"
	"fmt"
	"strconv"
	"strings"

	imldsa "github.com/tink-crypto/tink-go/v2/internal/signature/mldsa"
	"github.com/tink-crypto/tink-go/v2/internal/verifharness/hlib"
)

// Section 2: the codecs of marshal.go against FIPS 204 Algorithms 16–21 and 28 written out here
// bit by bit from the standard (IntegerToBits / BitsToBytes), plus NTT laws. These are oracles on
// the Go side. Every codec check is ALSO put to the Lean list model of the codecs
// (lean/TinkVerif/Model/MldsaPack.lean, laws proved in Props/C10Pack.lean) as a driver line
// `!D spack|sunpack|bpack|bunpack|hpack|hunpack|w1enc …` whose implementation answer is what the Go
// function returned through the export hooks; end to end the same codecs are tied to the Lean
// reference by the byte-identical keys and signatures of section 3.

// emitD puts one codec question to the Lean model with Go's answer.
func emitD(o *hlib.Out, res string, op string, args ...string) {
	o.Emit("!D "+op+" "+strings.Join(args, " "), res, true)
	o.Count("codec/lean-" + op)
}

// hintShow prints a decoded hint vector the way the driver does: "ok" and, per polynomial, the
// positions of its ones ("-" for none). A coefficient other than 0/1 is reported as such.
func hintShow(h [][]uint32) string {
	var sb strings.Builder
	sb.WriteString("ok")
	for _, p := range h {
		var pos []uint32
		for j, c := range p {
			if c > 1 {
				return fmt.Sprintf("bad-coeff %d at %d", c, j)
			}
			if c == 1 {
				pos = append(pos, uint32(j))
			}
		}
		sb.WriteString(" " + hlib.U32List(pos))
	}
	return sb.String()
}

func hintArgs(h [][]uint32) []string {
	out := make([]string, len(h))
	for i, p := range h {
		var pos []uint32
		for j, c := range p {
			if c != 0 {
				pos = append(pos, uint32(j))
			}
		}
		out[i] = hlib.U32List(pos)
	}
	return out
}

// goHintUnpack is Go's hintBitUnpackVector as a driver answer: "reject", "ok pos…" or "panic".
func goHintUnpack(par *imldsa.VerifParams, y []byte) string {
	res := "reject"
	if p := hlib.Recover(func() {
		h, err := par.VerifHintBitUnpack(y)
		if err == nil {
			res = hintShow(h)
		}
	}); p != "" {
		return "panic"
	}
	return res
}

func polyArgs(v [][]uint32) []string {
	out := make([]string, len(v))
	for i := range v {
		out[i] = hlib.U32List(v[i])
	}
	return out
}

func csvU32(s string) ([]uint32, bool) {
	if s == "-" {
		return nil, true
	}
	return u32s(strings.Split(s, ","))
}

// codecRes recomputes Go's answer for a codec driver line (replay); toks starts at the op name.
func codecRes(toks []string) (string, bool) {
	atoi := func(s string) int { n, _ := strconv.Atoi(s); return n }
	psetFor := func(omega, k int) *pset {
		for _, ps := range psets {
			if ps.omega == omega && ps.k == k {
				return ps
			}
		}
		return nil
	}
	switch {
	case toks[0] == "spack" && len(toks) == 3:
		if w, ok := csvU32(toks[2]); ok {
			return hlib.Tok(imldsa.VerifSimpleBitPack(w, atoi(toks[1]))), true
		}
	case toks[0] == "sunpack" && len(toks) == 3:
		return hlib.U32List(imldsa.VerifSimpleBitUnpack(hlib.FromTok(toks[2]), atoi(toks[1]))), true
	case toks[0] == "bpack" && len(toks) == 4:
		if w, ok := csvU32(toks[3]); ok {
			a, b := atoi(toks[1]), atoi(toks[2])
			return hlib.Tok(imldsa.VerifBitPack(w, uint32(b), bitlen(a+b))), true
		}
	case toks[0] == "bunpack" && len(toks) == 4:
		a, b := atoi(toks[1]), atoi(toks[2])
		return hlib.U32List(imldsa.VerifBitUnpack(hlib.FromTok(toks[3]), uint32(b), bitlen(a+b))), true
	case toks[0] == "hpack" && len(toks) >= 3:
		ps := psetFor(atoi(toks[1]), atoi(toks[2]))
		if ps == nil || len(toks) != 3+ps.k {
			return "", false
		}
		h := make([][]uint32, ps.k)
		for i := range h {
			h[i] = make([]uint32, 256)
			pos, ok := csvU32(toks[3+i])
			if !ok {
				return "", false
			}
			for _, j := range pos {
				if j > 255 {
					return "", false
				}
				h[i][j] = 1
			}
		}
		return hlib.Tok(ps.par.VerifHintBitPack(h)), true
	case toks[0] == "hunpack" && len(toks) == 4:
		ps := psetFor(atoi(toks[1]), atoi(toks[2]))
		y := hlib.FromTok(toks[3])
		if ps == nil {
			return "", false
		}
		if len(y) != ps.omega+ps.k { // sigDecode never hands over another length
			return "reject", true
		}
		return goHintUnpack(ps.par, y), true
	case toks[0] == "w1enc" && len(toks) >= 3:
		for _, ps := range psets {
			if ps.k == len(toks)-2 && ps.par.VerifW1Bits() == atoi(toks[1]) {
				v := make([][]uint32, ps.k)
				for i := range v {
					w, ok := csvU32(toks[2+i])
					if !ok {
						return "", false
					}
					v[i] = w
				}
				return hlib.Tok(ps.par.VerifW1Encode(v)), true
			}
		}
	}
	return "", false
}

func bitlen(n int) int {
	b := 0
	for ; n > 0; n >>= 1 {
		b++
	}
	return b
}

// specPack: z ← z ‖ IntegerToBits(v_i, b); BitsToBytes(z).
func specPack(vals []uint32, b int) []byte {
	var bitsv []byte
	for _, v := range vals {
		for j := 0; j < b; j++ {
			bitsv = append(bitsv, byte((v>>uint(j))&1))
		}
	}
	out := make([]byte, len(bitsv)/8)
	for i, bit := range bitsv {
		out[i/8] += bit << uint(i%8)
	}
	return out
}

func specUnpack(enc []byte, b int) []uint32 {
	out := make([]uint32, 256)
	for i := 0; i < 256; i++ {
		var v uint32
		for j := 0; j < b; j++ {
			bit := i*b + j
			v += uint32((enc[bit/8]>>uint(bit%8))&1) << uint(j)
		}
		out[i] = v
	}
	return out
}

// specHintUnpack is Algorithm 21; nil means ⊥.
func specHintUnpack(omega, k int, y []byte) [][]uint32 {
	h := make([][]uint32, k)
	for i := range h {
		h[i] = make([]uint32, 256)
	}
	index := 0
	for i := 0; i < k; i++ {
		if int(y[omega+i]) < index || int(y[omega+i]) > omega {
			return nil
		}
		first := index
		for index < int(y[omega+i]) {
			if index > first && y[index-1] >= y[index] {
				return nil
			}
			h[i][y[index]] = 1
			index++
		}
	}
	for i := index; i < omega; i++ {
		if y[i] != 0 {
			return nil
		}
	}
	return h
}

func specHintPack(omega, k int, h [][]uint32) []byte {
	y := make([]byte, omega+k)
	index := 0
	for i := 0; i < k; i++ {
		for j := 0; j < 256; j++ {
			if h[i][j] != 0 {
				y[index] = byte(j)
				index++
			}
		}
		y[omega+i] = byte(index)
	}
	return y
}

func eqU32(a, b []uint32) bool {
	if len(a) != len(b) {
		return false
	}
	for i := range a {
		if a[i] != b[i] {
			return false
		}
	}
	return true
}

// randHint draws a hint vector with exactly total ones (total ≤ ω), clustered or spread.
func randHint(r *hlib.Rng, k, total int) [][]uint32 {
	h := make([][]uint32, k)
	for i := range h {
		h[i] = make([]uint32, 256)
	}
	for n := 0; n < total; {
		i := r.Intn(k)
		if r.Chance(30) {
			i = 0
		}
		j := r.Intn(256)
		if r.Chance(10) {
			j = r.Pick(0, 255)
		}
		if h[i][j] == 0 {
			h[i][j] = 1
			n++
		}
	}
	return h
}

// loweredCounterHint is a valid encoding in which the counter of an EMPTY polynomial i ≥ 1 is lowered
// below its predecessor. Everything else stays consistent (no index belongs to polynomial i, the
// following counters are untouched), so the only check of Algorithm 21 that rejects it is
// `y[ω+i] < Index`; a decoder without it would accept a second encoding of the same hint vector.
func loweredCounterHint(r *hlib.Rng, ps *pset) []byte {
	i := 1 + r.Intn(ps.k-1)
	h := randHint(r, ps.k, 1+r.Intn(ps.omega-1))
	for j := range h[i] {
		h[i][j] = 0
	}
	y := specHintPack(ps.omega, ps.k, h)
	if y[ps.omega+i-1] == 0 { // no ones before polynomial i: add one (total stays ≤ ω)
		h[0][r.Intn(256)] = 1
		y = specHintPack(ps.omega, ps.k, h)
	}
	y[ps.omega+i] = byte(r.Intn(int(y[ps.omega+i-1])))
	return y
}

func codecSection(o *hlib.Out, seed uint64) {
	rng := hlib.NewRng(seed, "c10/codec")
	n := hlib.N(60, 1500)
	type shape struct {
		name string
		a, b uint32 // coefficient range [-a, b] for BitPack; a = 0 means SimpleBitPack with b = max
		bits int
	}
	shapes := []shape{
		{"t1", 0, 1023, 10}, {"w1-88", 0, 43, 6}, {"w1-32", 0, 15, 4},
		{"eta2", 2, 2, 3}, {"eta4", 4, 4, 4}, {"t0", 4095, 4096, 13},
		{"z17", (1 << 17) - 1, 1 << 17, 18}, {"z19", (1 << 19) - 1, 1 << 19, 20},
	}
	for c := 0; c < n; c++ {
		for _, s := range shapes {
			// coefficients as residues mod q, in range, with the extremes over-represented
			w := make([]uint32, 256)
			enc := make([]uint32, 256) // the integers the standard packs: w_i resp. b − w_i
			for i := range w {
				span := int(s.a + s.b + 1)
				v := rng.Intn(span) // 0..a+b, meaning coefficient v − a
				switch rng.Intn(12) {
				case 0:
					v = 0
				case 1:
					v = span - 1
				}
				if s.a == 0 {
					w[i], enc[i] = uint32(v), uint32(v)
				} else {
					coef := int64(v) - int64(s.a)
					w[i] = uint32((coef + q) % q)
					enc[i] = uint32(int64(s.b) - coef)
				}
			}
			want := specPack(enc, s.bits)
			var got []byte
			var back []uint32
			if s.a == 0 {
				got = imldsa.VerifSimpleBitPack(w, s.bits)
				back = imldsa.VerifSimpleBitUnpack(got, s.bits)
				if g2 := imldsa.VerifSimpleBitPackNTT(w, s.bits); !bytes.Equal(g2, got) {
					o.Violate("simpleBitPack differs between poly and polyNTT (%s)", s.name)
				}
				if b2 := imldsa.VerifSimpleBitUnpackNTT(got, s.bits); !eqU32(b2, back) {
					o.Violate("simpleBitUnpack differs between poly and polyNTT (%s)", s.name)
				}
			} else {
				got = imldsa.VerifBitPack(w, s.b, s.bits)
				back = imldsa.VerifBitUnpack(got, s.b, s.bits)
			}
			if !bytes.Equal(got, want) {
				o.Violate("BitPack(%s) differs from FIPS 204 Alg. 16/17: coefficients %v", s.name, w[:8])
			}
			if !eqU32(back, w) {
				o.Violate("BitUnpack(BitPack(w)) ≠ w for %s", s.name)
			}
			o.Count("codec/pack-" + s.name)
			// the same two calls put to the Lean model (the model computes the width as bitlen(a+b))
			sa, sb, sbits := fmt.Sprint(s.a), fmt.Sprint(s.b), fmt.Sprint(s.bits)
			if s.a == 0 {
				emitD(o, hlib.Tok(got), "spack", sbits, hlib.U32List(w))
				emitD(o, hlib.U32List(back), "sunpack", sbits, hlib.Tok(got))
			} else {
				emitD(o, hlib.Tok(got), "bpack", sa, sb, hlib.U32List(w))
				emitD(o, hlib.U32List(back), "bunpack", sa, sb, hlib.Tok(got))
			}
			// unpacking arbitrary bytes (out-of-range values included, as Alg. 18/19 do not check)
			raw := rng.Bytes(32 * s.bits)
			ints := specUnpack(raw, s.bits)
			var gu []uint32
			if s.a == 0 {
				gu = imldsa.VerifSimpleBitUnpack(raw, s.bits)
			} else {
				gu = imldsa.VerifBitUnpack(raw, s.b, s.bits)
				for i := range ints {
					ints[i] = uint32((int64(s.b) - int64(ints[i]) + q) % q)
				}
			}
			if !eqU32(gu, ints) {
				o.Violate("BitUnpack(%s) of arbitrary bytes differs from FIPS 204 Alg. 18/19", s.name)
			}
			o.Count("codec/unpack-" + s.name)
			if s.a == 0 {
				emitD(o, hlib.U32List(gu), "sunpack", sbits, hlib.Tok(raw))
			} else {
				emitD(o, hlib.U32List(gu), "bunpack", sa, sb, hlib.Tok(raw))
			}
		}
		// packing is defined on every field element (bits above the width are dropped, out-of-range
		// signed coefficients wrap): one shape per case with arbitrary residues, model vs Go only
		{
			s := shapes[rng.Intn(len(shapes))]
			w := make([]uint32, 256)
			for i := range w {
				w[i] = fe(rng)
			}
			if s.a == 0 {
				emitD(o, hlib.Tok(imldsa.VerifSimpleBitPack(w, s.bits)), "spack", fmt.Sprint(s.bits), hlib.U32List(w))
			} else {
				emitD(o, hlib.Tok(imldsa.VerifBitPack(w, s.b, s.bits)), "bpack", fmt.Sprint(s.a), fmt.Sprint(s.b), hlib.U32List(w))
			}
			o.Count("codec/pack-any-residue")
		}
		// hints
		for _, ps := range psets {
			total := rng.Intn(ps.omega + 1)
			switch rng.Intn(5) {
			case 0:
				total = ps.omega
			case 1:
				total = 0
			}
			h := randHint(rng, ps.k, total)
			y := ps.par.VerifHintBitPack(h)
			if !bytes.Equal(y, specHintPack(ps.omega, ps.k, h)) {
				o.Violate("hintBitPack(ML-DSA-%s) differs from FIPS 204 Alg. 20", ps.name)
			}
			back, err := ps.par.VerifHintBitUnpack(y)
			if err != nil {
				o.Violate("hintBitUnpack rejects hintBitPack output (ML-DSA-%s, %d ones)", ps.name, total)
			} else {
				for i := range h {
					if !eqU32(back[i], h[i]) {
						o.Violate("hintBitUnpack(hintBitPack(h)) ≠ h (ML-DSA-%s)", ps.name)
						break
					}
				}
			}
			o.Count("codec/hint-roundtrip")
			somega, sk := fmt.Sprint(ps.omega), fmt.Sprint(ps.k)
			emitD(o, hlib.Tok(y), "hpack", append([]string{somega, sk}, hintArgs(h)...)...)
			emitD(o, goHintUnpack(ps.par, y), "hunpack", somega, sk, hlib.Tok(y))
			// decisions on damaged and on arbitrary encodings
			for m := 0; m < 6; m++ {
				y2 := append([]byte(nil), y...)
				switch rng.Intn(7) {
				case 6:
					y2 = loweredCounterHint(rng, ps)
				case 5:
					y2 = overrunHint(rng, ps)
				case 0:
					y2[rng.Intn(len(y2))] ^= 1 << uint(rng.Intn(8))
				case 1:
					y2[ps.omega+rng.Intn(ps.k)] = byte(rng.Intn(ps.omega + 3))
				case 2:
					if total >= 2 {
						p := rng.Intn(total - 1)
						y2[p], y2[p+1] = y2[p+1], y2[p]
					}
				case 3:
					if total < ps.omega {
						y2[total+rng.Intn(ps.omega-total)] = byte(1 + rng.Intn(255))
					}
				case 4:
					y2 = rng.Bytes(len(y))
					for i := 0; i < ps.k; i++ {
						y2[ps.omega+i] = byte(rng.Intn(ps.omega + 2))
					}
				}
				want := specHintUnpack(ps.omega, ps.k, y2)
				var got [][]uint32
				var err error
				if p := hlib.Recover(func() { got, err = ps.par.VerifHintBitUnpack(y2) }); p != "" {
					o.Violate("hintBitUnpack(ML-DSA-%s) PANICS on %x: %s", ps.name, y2, p)
					emitD(o, "panic", "hunpack", somega, sk, hlib.Tok(y2))
					continue
				}
				if (want == nil) != (err != nil) {
					o.Violate("hintBitUnpack(ML-DSA-%s) decision differs from FIPS 204 Alg. 21 on %x: Go err=%v, standard ⊥=%v", ps.name, y2, err, want == nil)
				} else if want != nil {
					for i := range want {
						if !eqU32(got[i], want[i]) {
							o.Violate("hintBitUnpack(ML-DSA-%s) value differs from FIPS 204 Alg. 21 on %x", ps.name, y2)
							break
						}
					}
				}
				if want == nil {
					o.Count("codec/hint-decode=⊥")
				} else {
					o.Count("codec/hint-decode=ok")
				}
				if err != nil {
					emitD(o, "reject", "hunpack", somega, sk, hlib.Tok(y2))
				} else {
					emitD(o, hintShow(got), "hunpack", somega, sk, hlib.Tok(y2))
				}
			}
			// w1Encode = concatenated SimpleBitPack with bitlen((q-1)/(2γ2)-1) bits
			m := (q - 1) / (2 * ps.gamma2)
			w1 := make([][]uint32, ps.k)
			var want []byte
			for i := range w1 {
				w1[i] = make([]uint32, 256)
				for j := range w1[i] {
					w1[i][j] = uint32(rng.Intn(int(m)))
					if rng.Intn(10) == 0 {
						w1[i][j] = m - 1
					}
				}
				want = append(want, specPack(w1[i], ps.par.VerifW1Bits())...)
			}
			gotW1 := ps.par.VerifW1Encode(w1)
			if !bytes.Equal(gotW1, want) {
				o.Violate("w1Encode(ML-DSA-%s) differs from FIPS 204 Alg. 28", ps.name)
			}
			o.Count("codec/w1Encode")
			emitD(o, hlib.Tok(gotW1), "w1enc", append([]string{fmt.Sprint(ps.par.VerifW1Bits())}, polyArgs(w1)...)...)
		}
	}
	// ExpandMask (Alg. 34) incl. counters ≥ 256, which ordinary signing reaches only after 64+
	// rejections: y_r = BitUnpack(H(ρ″ ‖ IntegerToBytes(μ + r, 2), 32·(1+bitlen(γ1−1))), γ1−1, γ1)
	for c := 0; c < hlib.N(20, 300); c++ {
		for _, ps := range psets {
			var rho [64]byte
			copy(rho[:], rng.Bytes(64))
			mu := rng.Pick(0, ps.l, 252, 255, 256, 257, 256+ps.l*rng.Intn(200), 65535-ps.l, ps.l*rng.Intn(16000))
			got := ps.par.VerifExpandMask(rho, mu)
			for r := 0; r < ps.l; r++ {
				n := mu + r
				v := shake256(32*ps.zBits, rho[:], []byte{byte(n), byte(n >> 8)})
				ints := specUnpack(v, ps.zBits)
				for i := range ints {
					ints[i] = uint32((int64(ps.gamma1) - int64(ints[i]) + q) % q)
				}
				if !eqU32(got[r], ints) {
					o.Violate("expandMask(ML-DSA-%s, κ = %d) polynomial %d differs from FIPS 204 Alg. 34", ps.name, mu, r)
					break
				}
			}
			if mu+ps.l > 256 {
				o.Count("codec/expandMask-κ≥256")
			} else {
				o.Count("codec/expandMask-κ<256")
			}
		}
	}
	// NTT laws: NTT⁻¹(NTT(w)) = w, and NTT⁻¹(NTT(a) ∘ NTT(b)) = a·b in Z_q[X]/(X^256+1)
	nn := hlib.N(40, 600)
	for c := 0; c < nn; c++ {
		a := make([]uint32, 256)
		b := make([]uint32, 256)
		for i := range a {
			a[i] = fe(rng)
			if rng.Chance(70) {
				b[i] = 0
			} else {
				b[i] = fe(rng)
			}
		}
		if !eqU32(imldsa.VerifNTTRoundTrip(a), a) {
			o.Violate("NTT⁻¹(NTT(w)) ≠ w")
		}
		want := make([]uint64, 256)
		for i := 0; i < 256; i++ {
			if b[i] == 0 {
				continue
			}
			for j := 0; j < 256; j++ {
				p := uint64(a[j]) * uint64(b[i]) % q
				if i+j < 256 {
					want[i+j] = (want[i+j] + p) % q
				} else {
					want[i+j-256] = (want[i+j-256] + q - p) % q
				}
			}
		}
		got := imldsa.VerifNTTMul(a, b)
		for i := range got {
			if uint64(got[i]) != want[i] {
				o.Violate("NTT⁻¹(NTT(a)∘NTT(b)) ≠ a·b mod (X^256+1) at coefficient %d", i)
				break
			}
		}
		mx := uint32(0)
		for _, x := range a {
			c := x
			if c > (q-1)/2 {
				c = q - c
			}
			if c > mx {
				mx = c
			}
		}
		if imldsa.VerifInfinityNorm(a) != mx {
			o.Violate("infinityNorm differs from max |a_i mod± q|")
		}
		o.Count("codec/ntt-laws")
	}
}
