//go:build verif

// placeholder: harness c10 is being written
package main

import "github.com/tink-crypto/tink-go/v2/internal/verifharness/hlib"

func main() {
	o := hlib.Open("c10")
	defer o.Close()
	o.Emit("D s mul 8380416 8380416", "1", true)
	o.Emit("D s add 8380416 1", "0", true)
}
