//go:build verif

// Harness c10: ML-DSA (FIPS 204) — translation validation of the regenerated scalar functions
// against the Go originals (export hooks), codec oracles, and algorithm-level correspondence
// (key generation, deterministic / hedged / external-mu signing, verification decisions incl.
// boundary signatures crafted by the reference, composite ML-DSA, keyset API) — property C10.
package main

import (
	"bufio"
	"bytes"
	"fmt"
	"os"
	"strconv"
	"strings"

	"golang.org/x/crypto/sha3"

	imldsa "github.com/tink-crypto/tink-go/v2/internal/signature/mldsa"
	"github.com/tink-crypto/tink-go/v2/internal/verifharness/hlib"
	pmldsa "github.com/tink-crypto/tink-go/v2/signature/mldsa"
)

const q = imldsa.VerifQ

// pset is one ML-DSA parameter set with the derived layout of a signature.
type pset struct {
	name                 string
	par                  *imldsa.VerifParams
	inst                 pmldsa.Instance
	k, l, omega, lg      int
	gamma1, gamma2, beta uint32
	ctLen, zPoly, zLen   int // c~ bytes; bytes per z polynomial; bytes of the whole z region
	hLen, sigLen         int
	pkLen, skLen, zBits  int
}

func mkPset(name string, par *imldsa.VerifParams, inst pmldsa.Instance) *pset {
	p := &pset{name: name, par: par, inst: inst, k: par.VerifK(), l: par.VerifL(), omega: par.VerifOmega(), lg: par.VerifLog2Gamma1()}
	p.gamma1 = 1 << uint(p.lg)
	p.gamma2 = par.VerifGamma2()
	p.beta = uint32(par.VerifTau() * par.VerifEta())
	p.ctLen = par.VerifLambda() / 4
	p.zBits = 1 + p.lg
	p.zPoly = 32 * p.zBits
	p.zLen = p.l * p.zPoly
	p.hLen = p.omega + p.k
	p.sigLen = p.ctLen + p.zLen + p.hLen
	p.pkLen = par.PublicKeyLength()
	p.skLen = par.SecretKeyLength()
	return p
}

var psets []*pset

func psetByName(n string) *pset {
	for _, p := range psets {
		if p.name == n {
			return p
		}
	}
	return nil
}

// gkey is a key pair produced by Go's key generation.
type gkey struct {
	ps           *pset
	seed         [32]byte
	pk           *imldsa.PublicKey
	sk           *imldsa.SecretKey
	pkb, skb     []byte
	pkTok, skTok string
}

func newKey(ps *pset, seed []byte) *gkey {
	k := &gkey{ps: ps}
	copy(k.seed[:], seed)
	k.pk, k.sk = ps.par.KeyGenFromSeed(k.seed)
	k.pkb, k.skb = k.pk.Encode(), k.sk.Encode()
	k.pkTok, k.skTok = hlib.Tok(k.pkb), hlib.Tok(k.skb)
	return k
}

func fmtMsg(ctx, msg []byte) []byte {
	out := []byte{0, byte(len(ctx))}
	out = append(out, ctx...)
	return append(out, msg...)
}

func shake256(n int, parts ...[]byte) []byte {
	h := sha3.NewShake256()
	for _, p := range parts {
		h.Write(p)
	}
	out := make([]byte, n)
	h.Read(out)
	return out
}

func v01(err error) string {
	if err != nil {
		return "0"
	}
	return "1"
}

func okTok(b []byte) string { return "ok " + hlib.Tok(b) }

var zero32 = make([]byte, 32)

// forced runs f with crypto/rand.Reader replaced by a fresh tape whose first bytes are rnd, and
// reports whether exactly those bytes were the first ones drawn.
func forced(rng *hlib.Rng, rnd []byte, f func()) bool {
	t := hlib.InstallTape(rng.U64())
	t.Forced = append([]byte(nil), rnd...)
	f()
	d := t.Drawn()
	t.Forced = nil
	return len(d) >= len(rnd) && bytes.Equal(d[:len(rnd)], rnd)
}

// verify3 asks Go for its decision through three routes that must agree: the API with context,
// Verify_internal on the formatted message, and a public key re-decoded from its bytes.
func verify3(o *hlib.Out, k *gkey, pkb []byte, ctx, msg, sig []byte) string {
	mp := fmtMsg(ctx, msg)
	a := "0"
	if p := hlib.Recover(func() {
		pk, err := k.ps.par.DecodePublicKey(pkb)
		if err != nil {
			return
		}
		a = v01(pk.Verify(msg, sig, ctx))
		b := v01(pk.VerifVerifyInternal(mp, sig))
		if a != b {
			o.Violate("ML-DSA-%s: Verify (ctx API) = %s but Verify_internal = %s", k.ps.name, a, b)
		}
		if bytes.Equal(pkb, k.pkb) {
			c := v01(k.pk.Verify(msg, sig, ctx))
			if a != c {
				o.Violate("ML-DSA-%s: verification with the decoded public key = %s, with the generated key object = %s", k.ps.name, a, c)
			}
		}
	}); p != "" {
		o.Violate("ML-DSA-%s: verification PANICS (%s) on signature %s", k.ps.name, p, hlib.Tok(sig))
		return "panic"
	}
	return a
}

func emitVerify(o *hlib.Out, k *gkey, pkb []byte, ctx, msg, sig []byte, kind string) string {
	v := verify3(o, k, pkb, ctx, msg, sig)
	o.Emit("!D verify "+k.ps.name+" "+hlib.Tok(pkb)+" "+hlib.Tok(fmtMsg(ctx, msg))+" "+hlib.Tok(sig), v, true)
	o.Count("verify/" + kind + "=" + v)
	o.Count("set/" + k.ps.name + "/verify-lines")
	return v
}

// ---------- replay: recompute Go's answer for any op line ----------

func u32s(toks []string) ([]uint32, bool) {
	out := make([]uint32, len(toks))
	for i, t := range toks {
		v, err := strconv.ParseUint(t, 10, 32)
		if err != nil {
			return nil, false
		}
		out[i] = uint32(v)
	}
	return out, true
}

func evalLine(line string) string {
	toks := strings.Fields(line)
	if len(toks) < 2 {
		return "bad-op"
	}
	toks[0] = strings.TrimPrefix(toks[0], "!")
	if toks[0] != "D" {
		return "bad-op"
	}
	res := "bad-op"
	p := hlib.Recover(func() {
		switch toks[1] {
		case "s":
			if len(toks) < 4 {
				return
			}
			a, ok := u32s(toks[3:])
			if !ok {
				return
			}
			if r, ok := scalarRes(toks[2], a); ok {
				res = r
			}
		case "keygen":
			ps := psetByName(toks[2])
			k := newKey(ps, hlib.FromTok(toks[3]))
			res = "ok " + k.pkTok + " " + k.skTok
		case "sign", "signmu":
			ps := psetByName(toks[2])
			sk, err := ps.par.DecodeSecretKey(hlib.FromTok(toks[3]))
			rb := hlib.FromTok(toks[5])
			if err != nil || len(rb) != 32 {
				res = "err"
				return
			}
			var rnd [32]byte
			copy(rnd[:], rb)
			if toks[1] == "sign" {
				res = okTok(sk.VerifSignInternal(hlib.FromTok(toks[4]), rnd))
			} else {
				mb := hlib.FromTok(toks[4])
				if len(mb) != 64 {
					res = "err"
					return
				}
				var mu [64]byte
				copy(mu[:], mb)
				res = okTok(sk.VerifSignInternalWithMu(mu, rnd))
			}
		case "verify", "verifymu":
			ps := psetByName(toks[2])
			pk, err := ps.par.DecodePublicKey(hlib.FromTok(toks[3]))
			if err != nil {
				res = "0"
				return
			}
			if toks[1] == "verify" {
				res = v01(pk.VerifVerifyInternal(hlib.FromTok(toks[4]), hlib.FromTok(toks[5])))
			} else {
				mb := hlib.FromTok(toks[4])
				if len(mb) != 64 {
					res = "0"
					return
				}
				var mu [64]byte
				copy(mu[:], mb)
				res = v01(pk.VerifyWithMu(mu, hlib.FromTok(toks[5])))
			}
		case "fmt":
			ctx := hlib.FromTok(toks[2])
			if len(ctx) > 255 {
				res = "err"
				return
			}
			res = okTok(fmtMsg(ctx, hlib.FromTok(toks[3])))
		case "mu":
			ps := psetByName(toks[2])
			pk, err := ps.par.DecodePublicKey(hlib.FromTok(toks[3]))
			if err != nil {
				return
			}
			tr := pk.TR()
			res = hlib.Tok(shake256(64, tr[:], hlib.FromTok(toks[4])))
		default:
			if r, ok := codecRes(toks[1:]); ok {
				res = r
			} else if r, ok := samplingRes(toks[1:]); ok {
				res = r
			}
		}
	})
	if p != "" {
		return "panic"
	}
	return res
}

func replay(o *hlib.Out, path string) {
	f, err := os.Open(path)
	if err != nil {
		panic(err)
	}
	defer f.Close()
	sc := bufio.NewScanner(f)
	sc.Buffer(make([]byte, 1<<20), 1<<28)
	for sc.Scan() {
		l := strings.TrimSpace(sc.Text())
		if l == "" {
			continue
		}
		if strings.HasPrefix(l, "#") {
			if strings.HasPrefix(l, "# case") {
				o.Case()
			}
			continue
		}
		o.Emit(l, evalLine(l), true)
		o.Count("replay")
	}
}

func main() {
	o := hlib.Open("C10")
	defer o.Close()
	psets = []*pset{
		mkPset("44", imldsa.MLDSA44, pmldsa.MLDSA44),
		mkPset("65", imldsa.MLDSA65, pmldsa.MLDSA65),
		mkPset("87", imldsa.MLDSA87, pmldsa.MLDSA87),
	}
	for _, p := range psets {
		want := map[string][3]int{"44": {1312, 2560, 2420}, "65": {1952, 4032, 3309}, "87": {2592, 4896, 4627}}[p.name]
		if p.pkLen != want[0] || p.skLen != want[1] || p.sigLen != want[2] {
			o.Violate("ML-DSA-%s sizes pk/sk/sig = %d/%d/%d, FIPS 204 Table 2 says %v", p.name, p.pkLen, p.skLen, p.sigLen, want)
		}
	}
	seed := *hlib.FlagSeed
	hlib.InstallTape(seed)
	if strings.HasPrefix(*hlib.FlagMode, "longsearch:") {
		longSearchMode(*hlib.FlagMode)
		return
	}
	if *hlib.FlagReplay != "" {
		if !hlib.Pre() {
			replay(o, *hlib.FlagReplay)
		}
		return
	}
	if hlib.Pre() {
		// only the section that puts questions to the model runs in the request-collecting phase
		craftSection(o, seed)
		edgeSection(o, seed)
		return
	}
	scalarSection(o, seed)
	codecSection(o, seed)
	algSection(o, seed)
	sampleSection(o, seed)
	craftSection(o, seed)
	edgeSection(o, seed)
	apiSection(o, seed)
	compositeSection(o, seed)
	if len(o.Violation) > 0 {
		fmt.Fprintln(os.Stderr, "oracle violations:", len(o.Violation))
	}
}
