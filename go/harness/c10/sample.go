//go:build verif

package main

import (
	"encoding/binary"
	"fmt"
	"os"
	"runtime"
	"sort"
	"strconv"
	"strings"
	"sync"
	"time"

	"golang.org/x/crypto/sha3"

	imldsa "github.com/tink-crypto/tink-go/v2/internal/signature/mldsa"
	"github.com/tink-crypto/tink-go/v2/internal/verifharness/hlib"
)

// Section 3b: the pseudorandom sampling layer (FIPS 204 §7.3) on its BOUNDARIES.
//
// Random seeds hit the rejection boundaries of the samplers with probability 2^-23 per candidate
// (RejNTTPoly), 2^-18 … 2^-20 per coefficient (ExpandMask), or only after dozens of rejected signing
// attempts (the 16-bit ExpandMask counter). This section SEARCHES for such inputs with samplers
// written out here from the standard (cheap: pure Go + SHAKE), feeds them to the real code through
// the export hooks and puts every one of them to the independent Lean reference as a driver line:
//
//	!D rejntt ρ32 s r          RejNTTPoly(ρ‖s‖r)            (Alg. 30 / CoeffFromThreeBytes Alg. 14)
//	!D rejbounded η ρ′64 r     RejBoundedPoly(ρ′‖r₁₆)        (Alg. 31 / CoeffFromHalfByte Alg. 15)
//	!D chb η b                 CoeffFromHalfByte
//	!D sampleinball set c̃      SampleInBall                 (Alg. 29)
//	!D expandmask set ρ″64 κ   ExpandMask                   (Alg. 34)
//	!D keygen set ξ            keys whose ExpandA stream contains a boundary candidate
//	!D sign set sk M′ 0³²      deterministic signatures needing ≥ 20 / ≥ 37 / ≥ 52 loop iterations
//
// The samplers below double as oracles (Go ≠ standard → oracle violation with the exact position).

// ---------- samplers written from the standard ----------

type nttTarget struct {
	name string
	val  uint32
}

// candidates (after clearing bit 23) on both sides of the acceptance bound z < q, and the two ends
// of the 23-bit range
var nttTargets = []nttTarget{{"q-1", q - 1}, {"q", q}, {"q+1", q + 1}, {"2^23-1", 1<<23 - 1}, {"0", 0}}

type nttEvents struct {
	cands, rejected, blocks int
	hit                     [5]int // consumed candidates equal to nttTargets[i]
	hitTop                  [5]int // … of which came from a byte triple with bit 23 set
	firstPos                [5]int // index of the coefficient slot at the first hit
}

// specRejNTT is Algorithm 30 with Algorithm 14 on a 34-byte XOF input.
func specRejNTT(x sha3.ShakeHash, in []byte, out []uint32) (ev nttEvents) {
	x.Reset()
	x.Write(in)
	var buf [168]byte
	n := 0
	for n < 256 {
		x.Read(buf[:])
		ev.blocks++
		for t := 0; t < 168 && n < 256; t += 3 {
			b2 := buf[t+2]
			b2p := b2
			if b2p > 127 {
				b2p -= 128
			}
			z := 65536*uint32(b2p) + 256*uint32(buf[t+1]) + uint32(buf[t])
			ev.cands++
			if z >= q-1 || z == 0 { // the five targets are 0 and values ≥ q−1
				for i, tg := range nttTargets {
					if z == tg.val {
						if ev.hit[i] == 0 {
							ev.firstPos[i] = n
						}
						ev.hit[i]++
						if b2 > 127 {
							ev.hitTop[i]++
						}
					}
				}
			}
			if z < q {
				out[n] = z
				n++
			} else {
				ev.rejected++
			}
		}
	}
	return ev
}

type rbEvents struct {
	bytes       int  // bytes of the XOF stream consumed
	droppedHigh bool // the 256th coefficient came from a low half-byte and the high one was acceptable too
	lastHigh    bool // the 256th coefficient came from a high half-byte
	seen        [16]int
}

func specHalfByte(eta int, b byte) (uint32, bool) {
	if eta == 2 && b < 15 {
		return uint32((int(q) + 2 - int(b%5)) % int(q)), true
	}
	if eta == 4 && b < 9 {
		return uint32((int(q) + 4 - int(b)) % int(q)), true
	}
	return 0, false
}

// specRejBounded is Algorithm 31 with Algorithm 15 on a 66-byte XOF input.
func specRejBounded(x sha3.ShakeHash, eta int, in []byte, out []uint32) (ev rbEvents) {
	x.Reset()
	x.Write(in)
	var buf [136]byte
	n := 0
	for n < 256 {
		x.Read(buf[:])
		for t := 0; t < 136 && n < 256; t++ {
			ev.bytes++
			lo, hi := buf[t]&15, buf[t]>>4
			ev.seen[lo]++
			if z0, ok := specHalfByte(eta, lo); ok {
				out[n] = z0
				n++
			}
			z1, ok := specHalfByte(eta, hi)
			if n < 256 {
				ev.seen[hi]++
				if ok {
					out[n] = z1
					n++
					ev.lastHigh = n == 256
				}
			} else if ok {
				ev.droppedHigh = true
			}
		}
	}
	return ev
}

type sibEvents struct {
	cands, rejected int
	eqI, eqI1       int // candidates j == i (accepted on the boundary) / j == i+1 (smallest rejected)
	eqIFirst        bool
	eqILast         bool // j == 255 at i == 255
	zeroJ           int
	signs           uint64
}

// specSampleInBall is Algorithm 29.
func specSampleInBall(tau int, rho []byte, out []uint32) (ev sibEvents) {
	x := sha3.NewShake256()
	x.Write(rho)
	var s [8]byte
	x.Read(s[:])
	for i := range out {
		out[i] = 0
	}
	ev.signs = binary.LittleEndian.Uint64(s[:])
	for i := 256 - tau; i < 256; i++ {
		var jb [1]byte
		for {
			x.Read(jb[:])
			ev.cands++
			j := int(jb[0])
			if j == i+1 {
				ev.eqI1++
			}
			if j <= i {
				break
			}
			ev.rejected++
		}
		j := int(jb[0])
		if j == i {
			ev.eqI++
			if i == 256-tau {
				ev.eqIFirst = true
			}
			if i == 255 {
				ev.eqILast = true
			}
		}
		if j == 0 {
			ev.zeroJ++
		}
		out[i] = out[j]
		bit := (s[(i+tau-256)/8] >> uint((i+tau-256)%8)) & 1 // h[i+τ−256] of BytesToBits(s)
		if bit == 1 {
			out[j] = q - 1
		} else {
			out[j] = 1
		}
	}
	return ev
}

// specExpandMaskPoly is one polynomial of Algorithm 34, returned as the packed integers e = γ1 − y
// (the BitUnpack fields) — e = 0 is y = γ1, e = 2γ1−1 is y = −γ1+1, the two ends of the range.
func specExpandMaskE(ps *pset, rho []byte, counter int) []uint32 {
	v := shake256(32*ps.zBits, rho, []byte{byte(counter), byte(counter >> 8)})
	return specUnpack(v, ps.zBits)
}

func eToResidue(ps *pset, e []uint32) []uint32 {
	out := make([]uint32, len(e))
	for i := range e {
		out[i] = uint32((int64(ps.gamma1) - int64(e[i]) + q) % q)
	}
	return out
}

// ---------- line helpers ----------

func polysTok(v [][]uint32) string {
	ss := make([]string, len(v))
	for i := range v {
		ss[i] = hlib.U32List(v[i])
	}
	return strings.Join(ss, " ")
}

func goRejNTT(in []byte) string {
	var a [34]byte
	copy(a[:], in)
	res := "panic"
	hlib.Recover(func() { res = hlib.U32List(imldsa.VerifRejectNTTPoly(a)) })
	return res
}

func firstDiff(a, b []uint32) int {
	for i := range a {
		if i >= len(b) || a[i] != b[i] {
			return i
		}
	}
	return -1
}

// samplingRes recomputes Go's answer for a sampling driver line (replay); toks starts at the op name.
func samplingRes(toks []string) (string, bool) {
	atoi := func(s string) int { n, _ := strconv.Atoi(s); return n }
	setOfEta := func(eta int) *pset {
		for _, ps := range psets {
			if ps.par.VerifEta() == eta {
				return ps
			}
		}
		return nil
	}
	switch {
	case toks[0] == "rejntt" && len(toks) == 4:
		rho := hlib.FromTok(toks[1])
		if len(rho) != 32 {
			return "", false
		}
		return goRejNTT(append(append([]byte(nil), rho...), byte(atoi(toks[2])), byte(atoi(toks[3])))), true
	case toks[0] == "rejbounded" && len(toks) == 4:
		ps := setOfEta(atoi(toks[1]))
		rho := hlib.FromTok(toks[2])
		if ps == nil || len(rho) != 64 {
			return "", false
		}
		var a [66]byte
		copy(a[:], rho)
		a[64], a[65] = byte(atoi(toks[3])), byte(atoi(toks[3])>>8)
		return hlib.U32List(ps.par.VerifRejectBoundedPoly(a)), true
	case toks[0] == "chb" && len(toks) == 3:
		ps := setOfEta(atoi(toks[1]))
		if ps == nil {
			return "", false
		}
		if c, ok := ps.par.VerifCoeffFromHalfByte(byte(atoi(toks[2]))); ok {
			return "ok " + us(c), true
		}
		return "reject", true
	case toks[0] == "sampleinball" && len(toks) == 3:
		ps := psetByName(toks[1])
		if ps == nil {
			return "", false
		}
		return hlib.U32List(ps.par.VerifSampleInBall(hlib.FromTok(toks[2]))), true
	case toks[0] == "expandmask" && len(toks) == 4:
		ps := psetByName(toks[1])
		rho := hlib.FromTok(toks[2])
		if ps == nil || len(rho) != 64 {
			return "", false
		}
		var a [64]byte
		copy(a[:], rho)
		return polysTok(ps.par.VerifExpandMask(a, atoi(toks[3]))), true
	}
	return "", false
}

// ---------- 1. RejNTTPoly / ExpandA ----------

func emitRejNTT(o *hlib.Out, in []byte, kind string) {
	x := sha3.NewShake128()
	want := make([]uint32, 256)
	ev := specRejNTT(x, in, want)
	got := goRejNTT(in)
	o.Emit(fmt.Sprintf("!D rejntt %s %d %d", hlib.Tok(in[:32]), in[32], in[33]), got, true)
	o.Count("sample/rejntt/lines")
	o.Count("sample/rejntt/" + kind)
	o.Count(fmt.Sprintf("sample/rejntt/blocks=%d", ev.blocks))
	if got != hlib.U32List(want) {
		g, _ := csvU32(got)
		at := firstDiff(want, g)
		desc := ""
		for i, tg := range nttTargets {
			if ev.hit[i] > 0 {
				desc += fmt.Sprintf(" [stream has candidate %s = %d at coefficient slot %d]", tg.name, tg.val, ev.firstPos[i])
			}
		}
		o.Violate("RejNTTPoly(%s) differs from FIPS 204 Alg. 30 from coefficient %d on%s", hlib.Tok(in), at, desc)
	}
}

func rejNTTSection(o *hlib.Out, rng *hlib.Rng) {
	// (a) searched inputs: each boundary candidate inside the consumed part of the stream
	per := hlib.N(4, 24)
	need := [5]int{2 * per, 2 * per, per, per, per} // q−1 and q, the two sides of the acceptance bound, twice as often
	left := 7 * per
	base := rng.Bytes(34)
	x := sha3.NewShake128()
	tmp := make([]uint32, 256)
	in := make([]byte, 34)
	tries := 0
	for ctr := uint64(0); left > 0 && ctr < uint64(hlib.N(4_000_000, 40_000_000)); ctr++ {
		copy(in, base)
		binary.LittleEndian.PutUint64(in[8:], ctr)
		in[32], in[33] = byte(ctr*131>>4), byte(ctr*197>>9)
		tries++
		ev := specRejNTT(x, in, tmp)
		for i, tg := range nttTargets {
			if ev.hit[i] > 0 && need[i] > 0 {
				need[i]--
				left--
				o.Case()
				emitRejNTT(o, in, "searched-candidate-"+tg.name)
				if ev.hitTop[i] > 0 {
					o.Count("sample/rejntt/searched-candidate-" + tg.name + "/from-triple-with-bit23-set")
				}
			}
		}
	}
	o.Hist["sample/rejntt/search-inputs-tried"] += tries
	for i, tg := range nttTargets {
		if need[i] > 0 {
			o.Hist["sample/rejntt/search-MISSED-"+tg.name] += need[i]
		}
	}
	// (b) random inputs, all values of the two index bytes
	o.Case()
	for c := 0; c < hlib.N(500, 5000); c++ {
		if c%50 == 49 {
			o.Case()
		}
		in := rng.Bytes(34)
		switch c % 5 {
		case 0:
			in[32], in[33] = byte(rng.Pick(0, 255)), byte(rng.Pick(0, 255))
		case 1:
			in[32], in[33] = byte(rng.Intn(7)), byte(rng.Intn(8))
		}
		emitRejNTT(o, in, "random")
	}
	// (c) ExpandA: Â[r][s] = RejNTTPoly(ρ ‖ s ‖ r) — the order of the two index bytes
	for _, ps := range psets {
		for c := 0; c < hlib.N(1, 6); c++ {
			o.Case()
			var rho [32]byte
			copy(rho[:], rng.Bytes(32))
			var A [][][]uint32
			if p := hlib.Recover(func() { A = ps.par.VerifExpandA(rho) }); p != "" || len(A) != ps.k {
				o.Violate("ML-DSA-%s ExpandA panics or has %d rows (%s)", ps.name, len(A), p)
				continue
			}
			for r := 0; r < ps.k; r++ {
				if len(A[r]) != ps.l {
					o.Violate("ML-DSA-%s ExpandA row %d has %d entries", ps.name, r, len(A[r]))
					continue
				}
				for s := 0; s < ps.l; s++ {
					o.Emit(fmt.Sprintf("!D rejntt %s %d %d", hlib.Tok(rho[:]), s, r), hlib.U32List(A[r][s]), true)
					o.Count("sample/rejntt/lines")
					o.Count("sample/rejntt/expandA-entry-" + ps.name)
				}
			}
		}
	}
}

// keygenBoundarySection: seeds ξ whose matrix expansion consumes a boundary candidate.
func keygenBoundarySection(o *hlib.Out, rng *hlib.Rng) {
	nt := len(nttTargets)
	pers := []int{2, 2, 1, 1, 1} // per set; Lean key generation costs ≈ 10 ms, the search ≈ 0.1 s per hit
	if hlib.Thorough() {
		pers = []int{8, 8, 4, 4, 4}
	}
	x := sha3.NewShake128()
	tmp := make([]uint32, 256)
	in := make([]byte, 34)
	for _, ps := range psets {
		need := make([]int, nt)
		left := 0
		for i := range need {
			need[i] = pers[i] * *hlib.FlagScale
			left += need[i]
		}
		base := rng.Bytes(32)
		tries := 0
		for ctr := uint64(0); left > 0 && ctr < 400_000; ctr++ {
			xi := append([]byte(nil), base...)
			binary.LittleEndian.PutUint64(xi[:8], ctr)
			tries++
			sm := shake256(128, xi, []byte{byte(ps.k), byte(ps.l)}) // (ρ, ρ′, K) ← H(ξ ‖ k ‖ l, 128)
			copy(in, sm[:32])
			found := -1
			var where string
			for r := 0; r < ps.k && found < 0; r++ {
				for s := 0; s < ps.l && found < 0; s++ {
					in[32], in[33] = byte(s), byte(r)
					ev := specRejNTT(x, in, tmp)
					for i := 0; i < nt; i++ {
						if ev.hit[i] > 0 && need[i] > 0 {
							found = i
							where = fmt.Sprintf("Â[%d][%d] coefficient slot %d", r, s, ev.firstPos[i])
							break
						}
					}
				}
			}
			if found < 0 {
				continue
			}
			need[found]--
			left--
			o.Case()
			var k *gkey
			if p := hlib.Recover(func() { k = newKey(ps, xi) }); p != "" {
				o.Violate("ML-DSA-%s key generation panics (%s) for seed %s", ps.name, p, hlib.Tok(xi))
				continue
			}
			o.Emit("!D keygen "+ps.name+" "+hlib.Tok(xi), "ok "+k.pkTok+" "+k.skTok, true)
			o.Count("sample/keygen/matrix-has-candidate-" + nttTargets[found].name + "/" + ps.name)
			o.Count("keygen/" + ps.name)
			// the same matrix entry straight from ExpandA against the standard
			var rho [32]byte
			copy(rho[:], sm[:32])
			A := ps.par.VerifExpandA(rho)
			for r := 0; r < ps.k; r++ {
				for s := 0; s < ps.l; s++ {
					in[32], in[33] = byte(s), byte(r)
					specRejNTT(x, in, tmp)
					if !eqU32(A[r][s], tmp) {
						o.Violate("ML-DSA-%s seed %s: ExpandA entry Â[%d][%d] differs from FIPS 204 (the stream of %s holds the candidate %s = %d)",
							ps.name, hlib.Tok(xi), r, s, where, nttTargets[found].name, nttTargets[found].val)
					}
				}
			}
			if !strings.HasPrefix(k.pkTok, hlib.Tok(sm[:32])) || !strings.HasPrefix(k.skTok, hlib.Tok(sm[:32])+hlib.Tok(sm[96:128])) {
				o.Violate("ML-DSA-%s seed %s: pk/sk do not start with ρ (‖ K) = H(ξ‖k‖l)", ps.name, hlib.Tok(xi))
			}
		}
		o.Hist["sample/keygen/search-seeds-tried"] += tries
		if left > 0 {
			o.Hist["sample/keygen/search-MISSED"] += left
		}
	}
	// seeds whose ExpandS needs a third SHAKE256 block for one of the l + k polynomials (η = 4 only:
	// ≈ 1 polynomial in 150 000; with η = 2 two blocks always suffice)
	ps := psets[1]
	eta := ps.par.VerifEta()
	y := sha3.NewShake256()
	in66 := make([]byte, 66)
	base := rng.Bytes(32)
	need := hlib.N(1, 6)
	tries := 0
	for ctr := uint64(0); need > 0 && ctr < 400_000; ctr++ {
		xi := append([]byte(nil), base...)
		binary.LittleEndian.PutUint64(xi[:8], ctr)
		tries++
		sm := shake256(128, xi, []byte{byte(ps.k), byte(ps.l)})
		copy(in66, sm[32:96])
		hit := -1
		for r := 0; r < ps.l+ps.k && hit < 0; r++ {
			in66[64], in66[65] = byte(r), 0
			if ev := specRejBounded(y, eta, in66, tmp); ev.bytes > 272 {
				hit = r
			}
		}
		if hit < 0 {
			continue
		}
		need--
		o.Case()
		var k *gkey
		if p := hlib.Recover(func() { k = newKey(ps, xi) }); p != "" {
			o.Violate("ML-DSA-%s key generation panics (%s) for seed %s", ps.name, p, hlib.Tok(xi))
			continue
		}
		o.Emit("!D keygen "+ps.name+" "+hlib.Tok(xi), "ok "+k.pkTok+" "+k.skTok, true)
		o.Count("sample/keygen/expandS-needs-3-xof-blocks/" + ps.name)
		o.Count("keygen/" + ps.name)
		var rhop [64]byte
		copy(rhop[:], sm[32:96])
		s1, s2 := ps.par.VerifExpandS(rhop)
		for r, p := range append(append([][]uint32(nil), s1...), s2...) {
			in66[64], in66[65] = byte(r), 0
			specRejBounded(y, eta, in66, tmp)
			if !eqU32(p, tmp) {
				o.Violate("ML-DSA-%s seed %s: ExpandS polynomial %d differs from FIPS 204 (polynomial %d needs a third SHAKE256 block)", ps.name, hlib.Tok(xi), r, hit)
			}
		}
	}
	o.Hist["sample/keygen/expandS-search-seeds-tried"] += tries
	if need > 0 {
		o.Hist["sample/keygen/expandS-search-MISSED"] += need
	}
}

// ---------- 2. RejBoundedPoly / CoeffFromHalfByte / ExpandS ----------

func emitRejBounded(o *hlib.Out, ps *pset, in []byte, kind string) rbEvents {
	eta := ps.par.VerifEta()
	x := sha3.NewShake256()
	want := make([]uint32, 256)
	ev := specRejBounded(x, eta, in, want)
	var a [66]byte
	copy(a[:], in)
	got := "panic"
	hlib.Recover(func() { got = hlib.U32List(ps.par.VerifRejectBoundedPoly(a)) })
	o.Emit(fmt.Sprintf("!D rejbounded %d %s %d", eta, hlib.Tok(in[:64]), int(in[64])|int(in[65])<<8), got, true)
	o.Count("sample/rejbounded/lines")
	o.Count(fmt.Sprintf("sample/rejbounded/η=%d/%s", eta, kind))
	o.Count(fmt.Sprintf("sample/rejbounded/η=%d/xof-blocks=%d", eta, (ev.bytes+135)/136))
	if ev.droppedHigh {
		o.Count(fmt.Sprintf("sample/rejbounded/η=%d/acceptable-high-half-byte-after-256th-dropped", eta))
	}
	if ev.lastHigh {
		o.Count(fmt.Sprintf("sample/rejbounded/η=%d/256th-from-high-half-byte", eta))
	}
	if eta == 2 {
		o.Hist["sample/rejbounded/η=2/half-byte-14-accepted"] += ev.seen[14]
		o.Hist["sample/rejbounded/η=2/half-byte-15-rejected"] += ev.seen[15]
	} else {
		o.Hist["sample/rejbounded/η=4/half-byte-8-accepted"] += ev.seen[8]
		o.Hist["sample/rejbounded/η=4/half-byte-9-rejected"] += ev.seen[9]
	}
	if got != hlib.U32List(want) {
		g, _ := csvU32(got)
		o.Violate("RejBoundedPoly(η = %d, %s) differs from FIPS 204 Alg. 31 from coefficient %d on (%d stream bytes)", eta, hlib.Tok(in), firstDiff(want, g), ev.bytes)
	}
	return ev
}

func rejBoundedSection(o *hlib.Out, rng *hlib.Rng) {
	// CoeffFromHalfByte, every half-byte, both η
	o.Case()
	for _, ps := range psets[:2] { // ML-DSA-44: η = 2, ML-DSA-65: η = 4
		eta := ps.par.VerifEta()
		for b := 0; b < 16; b++ {
			c, ok := ps.par.VerifCoeffFromHalfByte(byte(b))
			res := "reject"
			if ok {
				res = "ok " + us(c)
			}
			o.Emit(fmt.Sprintf("!D chb %d %d", eta, b), res, true)
			o.Count("sample/chb/lines")
			w, wok := specHalfByte(eta, byte(b))
			if ok != wok || (ok && c != w) {
				o.Violate("CoeffFromHalfByte(η = %d, %d) = (%d, %v), FIPS 204 Alg. 15 gives (%d, %v)", eta, b, c, ok, w, wok)
			}
		}
	}
	// random inputs with edge values of the 16-bit index
	for _, ps := range psets {
		o.Case()
		for c := 0; c < hlib.N(100, 2000); c++ {
			if c%50 == 49 {
				o.Case()
			}
			in := rng.Bytes(66)
			switch c % 4 {
			case 0:
				n := rng.Pick(0, 1, ps.l-1, ps.l, ps.l+ps.k-1, 255, 256, 257, 65535)
				in[64], in[65] = byte(n), byte(n>>8)
			case 1:
				in[65] = 0
			}
			emitRejBounded(o, ps, in, "random")
		}
	}
	// searched: streams on the XOF block edge, and streams needing the largest number of blocks
	x := sha3.NewShake256()
	tmp := make([]uint32, 256)
	for _, ps := range psets[:2] {
		eta := ps.par.VerifEta()
		type cls struct {
			name string
			ok   func(ev rbEvents) bool
			need int
		}
		var classes []*cls
		if eta == 2 {
			classes = []*cls{
				{"searched-ends-exactly-at-block-1-end(136-bytes)", func(ev rbEvents) bool { return ev.bytes == 136 }, hlib.N(3, 20)},
				{"searched-ends-on-first-byte-of-block-2(137-bytes)", func(ev rbEvents) bool { return ev.bytes == 137 }, hlib.N(3, 20)},
				{"searched-short-stream(≤131-bytes)", func(ev rbEvents) bool { return ev.bytes <= 131 }, hlib.N(2, 10)},
				{"searched-long-stream(≥145-bytes)", func(ev rbEvents) bool { return ev.bytes >= 145 }, hlib.N(2, 10)},
			}
		} else {
			classes = []*cls{
				{"searched-3-xof-blocks(>272-bytes)", func(ev rbEvents) bool { return ev.bytes > 272 }, hlib.N(2, 12)},
				{"searched-ends-exactly-at-block-2-end(272-bytes)", func(ev rbEvents) bool { return ev.bytes == 272 }, hlib.N(1, 4)},
				{"searched-short-stream(≤200-bytes)", func(ev rbEvents) bool { return ev.bytes <= 200 }, hlib.N(2, 10)},
			}
		}
		left := 0
		for _, c := range classes {
			left += c.need
		}
		base := rng.Bytes(66)
		in := make([]byte, 66)
		tries, minB, maxB := 0, 1<<30, 0
		for ctr := uint64(0); left > 0 && ctr < uint64(hlib.N(1_500_000, 15_000_000)); ctr++ {
			copy(in, base)
			binary.LittleEndian.PutUint64(in[8:], ctr)
			in[64], in[65] = byte(ctr%uint64(ps.l+ps.k)), 0
			tries++
			ev := specRejBounded(x, eta, in, tmp)
			if ev.bytes < minB {
				minB = ev.bytes
			}
			if ev.bytes > maxB {
				maxB = ev.bytes
			}
			for _, c := range classes {
				if c.need > 0 && c.ok(ev) {
					c.need--
					left--
					o.Case()
					emitRejBounded(o, ps, in, c.name)
					break
				}
			}
		}
		o.Hist[fmt.Sprintf("sample/rejbounded/η=%d/search-inputs-tried", eta)] += tries
		o.Hist[fmt.Sprintf("sample/rejbounded/η=%d/search-min-stream-bytes", eta)] = minB
		o.Hist[fmt.Sprintf("sample/rejbounded/η=%d/search-max-stream-bytes", eta)] = maxB
		for _, c := range classes {
			if c.need > 0 {
				o.Hist[fmt.Sprintf("sample/rejbounded/η=%d/search-MISSED-%s", eta, c.name)] += c.need
			}
		}
	}
	// ExpandS: s1[r] = RejBoundedPoly(ρ′ ‖ r₁₆), s2[r] = RejBoundedPoly(ρ′ ‖ (r + l)₁₆)
	for _, ps := range psets {
		for c := 0; c < hlib.N(2, 12); c++ {
			o.Case()
			var rho [64]byte
			copy(rho[:], rng.Bytes(64))
			var s1, s2 [][]uint32
			if p := hlib.Recover(func() { s1, s2 = ps.par.VerifExpandS(rho) }); p != "" || len(s1) != ps.l || len(s2) != ps.k {
				o.Violate("ML-DSA-%s ExpandS panics or returns %d/%d polynomials (%s)", ps.name, len(s1), len(s2), p)
				continue
			}
			for i, p := range append(append([][]uint32(nil), s1...), s2...) {
				o.Emit(fmt.Sprintf("!D rejbounded %d %s %d", ps.par.VerifEta(), hlib.Tok(rho[:]), i), hlib.U32List(p), true)
				o.Count("sample/rejbounded/lines")
				o.Count("sample/rejbounded/expandS-entry-" + ps.name)
			}
		}
	}
}

// ---------- 3. SampleInBall ----------

func emitSampleInBall(o *hlib.Out, ps *pset, ct []byte, kind string) {
	want := make([]uint32, 256)
	ev := specSampleInBall(ps.par.VerifTau(), ct, want)
	got := "panic"
	hlib.Recover(func() { got = hlib.U32List(ps.par.VerifSampleInBall(ct)) })
	o.Emit("!D sampleinball "+ps.name+" "+hlib.Tok(ct), got, true)
	o.Count("sample/sampleinball/lines")
	o.Count("sample/sampleinball/" + ps.name + "/" + kind)
	if ev.eqI > 0 {
		o.Count("sample/sampleinball/has-candidate-j=i(accepted)")
	}
	if ev.eqI1 > 0 {
		o.Count("sample/sampleinball/has-candidate-j=i+1(rejected)")
	}
	if ev.cands+8 > 136 {
		o.Count("sample/sampleinball/second-xof-block-needed")
	}
	if got != hlib.U32List(want) {
		g, _ := csvU32(got)
		o.Violate("SampleInBall(ML-DSA-%s, %s) differs from FIPS 204 Alg. 29 at coefficient %d (candidates j = i: %d, j = i+1: %d, rejected: %d)",
			ps.name, hlib.Tok(ct), firstDiff(want, g), ev.eqI, ev.eqI1, ev.rejected)
	}
	ones := 0
	for _, c := range want {
		if c != 0 {
			ones++
		}
	}
	if ones != ps.par.VerifTau() {
		o.Violate("harness: reference SampleInBall has %d non-zero coefficients, τ = %d", ones, ps.par.VerifTau())
	}
}

func sampleInBallSection(o *hlib.Out, rng *hlib.Rng) {
	tmp := make([]uint32, 256)
	for _, ps := range psets {
		tau := ps.par.VerifTau()
		o.Case()
		for c := 0; c < hlib.N(60, 1500); c++ {
			if c%50 == 49 {
				o.Case()
			}
			n := ps.ctLen
			kind := "random-λ/4-bytes"
			if c%10 == 9 { // the sampler takes any byte string: SHAKE256 absorb-block edges too
				n = rng.Pick(0, 1, 31, 33, 135, 136, 137, 272)
				kind = "random-other-length"
			}
			emitSampleInBall(o, ps, rng.Bytes(n), kind)
		}
		type cls struct {
			name string
			ok   func(ev sibEvents) bool
			need int
		}
		unusedMask := (uint64(0xff) << uint(tau)) // bits τ … τ+7 ∩ [0, 64)
		n1, n2 := hlib.N(2, 12), hlib.N(1, 6)
		classes := []*cls{
			{"searched-j=i-at-first-step", func(ev sibEvents) bool { return ev.eqIFirst }, n1},
			{"searched-j=255-at-last-step", func(ev sibEvents) bool { return ev.eqILast }, n1},
			{"searched-j=i-three-times", func(ev sibEvents) bool { return ev.eqI >= 3 }, n1},
			{"searched-j=i+1-three-times", func(ev sibEvents) bool { return ev.eqI1 >= 3 }, n1},
			{"searched-j=0-twice", func(ev sibEvents) bool { return ev.zeroJ >= 2 }, n1},
			{"searched-no-rejection", func(ev sibEvents) bool { return ev.rejected == 0 }, n2},
			{"searched-many-rejections", func(ev sibEvents) bool { return ev.rejected >= tau/3 }, n2},
			{"searched-first-sign-byte-ff", func(ev sibEvents) bool { return ev.signs&0xff == 0xff }, n1},
			{"searched-first-sign-byte-00", func(ev sibEvents) bool { return ev.signs&0xff == 0 }, n1},
			{"searched-first-two-sign-bytes-ffff", func(ev sibEvents) bool { return ev.signs&0xffff == 0xffff }, n2},
			{"searched-first-two-sign-bytes-0000", func(ev sibEvents) bool { return ev.signs&0xffff == 0 }, n2},
			// the first unused sign bits (bit τ … τ+7, as far as they exist) opposite to the last used one
			{"searched-last-used-sign-bit-1-following-unused-bits-0", func(ev sibEvents) bool {
				return ev.signs>>uint(tau-1)&1 == 1 && ev.signs&unusedMask == 0
			}, n2},
			{"searched-last-used-sign-bit-0-following-unused-bits-1", func(ev sibEvents) bool {
				return ev.signs>>uint(tau-1)&1 == 0 && ev.signs&unusedMask == unusedMask
			}, n2},
		}
		left := 0
		for _, c := range classes {
			left += c.need
		}
		base := rng.Bytes(ps.ctLen)
		ct := make([]byte, ps.ctLen)
		tries, maxRej, maxRun1, maxRun0 := 0, 0, 0, 0
		for ctr := uint64(0); left > 0 && ctr < uint64(hlib.N(600_000, 6_000_000)); ctr++ {
			copy(ct, base)
			binary.LittleEndian.PutUint64(ct[8:], ctr)
			tries++
			ev := specSampleInBall(tau, ct, tmp)
			if ev.rejected > maxRej {
				maxRej = ev.rejected
			}
			if r := trailingOnes(ev.signs); r > maxRun1 {
				maxRun1 = r
			}
			if r := trailingOnes(^ev.signs); r > maxRun0 {
				maxRun0 = r
			}
			for _, c := range classes {
				if c.need > 0 && c.ok(ev) {
					c.need--
					left--
					o.Case()
					emitSampleInBall(o, ps, ct, c.name)
					break
				}
			}
		}
		o.Hist["sample/sampleinball/"+ps.name+"/search-inputs-tried"] += tries
		o.Hist["sample/sampleinball/"+ps.name+"/search-max-rejections"] = maxRej
		o.Hist["sample/sampleinball/"+ps.name+"/search-longest-run-of-leading-sign-bits-1"] = maxRun1
		o.Hist["sample/sampleinball/"+ps.name+"/search-longest-run-of-leading-sign-bits-0"] = maxRun0
		for _, c := range classes {
			if c.need > 0 {
				o.Hist["sample/sampleinball/"+ps.name+"/search-MISSED-"+c.name] += c.need
			}
		}
	}
}

func trailingOnes(v uint64) int {
	n := 0
	for v&1 == 1 {
		n++
		v >>= 1
	}
	return n
}

// ---------- 4. ExpandMask ----------

func emitExpandMask(o *hlib.Out, ps *pset, rho []byte, kappa int, kind string) {
	var a [64]byte
	copy(a[:], rho)
	got := "panic"
	var gv [][]uint32
	hlib.Recover(func() { gv = ps.par.VerifExpandMask(a, kappa); got = polysTok(gv) })
	o.Emit(fmt.Sprintf("!D expandmask %s %s %d", ps.name, hlib.Tok(rho), kappa), got, true)
	o.Count("sample/expandmask/lines")
	o.Count("sample/expandmask/" + ps.name + "/" + kind)
	for r := 0; r < ps.l; r++ {
		want := eToResidue(ps, specExpandMaskE(ps, rho, kappa+r))
		if r >= len(gv) || !eqU32(gv[r], want) {
			o.Violate("ExpandMask(ML-DSA-%s, %s, κ = %d) polynomial %d (counter %d) differs from FIPS 204 Alg. 34", ps.name, hlib.Tok(rho), kappa, r, kappa+r)
			break
		}
	}
}

func expandMaskSection(o *hlib.Out, rng *hlib.Rng) {
	for _, ps := range psets {
		// counters: 0, around the carry into the high counter byte, the top of the 16-bit range
		kappas := []int{0, ps.l, 255 - ps.l, 252, 255, 256, 257, 256 - ps.l, 256 + ps.l, 511, 512, 65535 - ps.l, 65536 - ps.l, 65280, 32768 - 1}
		for i := 1; i < ps.l; i++ {
			kappas = append(kappas, 256-i) // κ < 256 ≤ κ + r for r ≥ i
		}
		// the κ the signing loop actually reaches next to the carry: multiples of l
		for m := (250 / ps.l) - 1; m <= 256/ps.l+1; m++ {
			kappas = append(kappas, m*ps.l)
		}
		o.Case()
		for i, kp := range kappas {
			if i%8 == 7 {
				o.Case()
			}
			emitExpandMask(o, ps, rng.Bytes(64), kp, fmt.Sprintf("κ-class-%s", kappaClass(ps, kp)))
		}
		for c := 0; c < hlib.N(6, 200); c++ {
			if c%8 == 7 {
				o.Case()
			}
			kp := ps.l * rng.Intn(65536/ps.l)
			emitExpandMask(o, ps, rng.Bytes(64), kp, fmt.Sprintf("κ-class-%s", kappaClass(ps, kp)))
		}
		// searched: a coefficient on either end of BitUnpack's range, y = γ1 (field 0) and y = −γ1+1 (field all ones)
		needLo, needHi := hlib.N(2, 12), hlib.N(2, 12)
		base := rng.Bytes(64)
		rho := make([]byte, 64)
		top := uint32(1)<<uint(ps.zBits) - 1
		tries := 0
		for ctr := uint64(0); needLo+needHi > 0 && ctr < uint64(hlib.N(60_000, 600_000)); ctr++ {
			copy(rho, base)
			binary.LittleEndian.PutUint64(rho[8:], ctr)
			tries++
			kp := ps.l * int(ctr%64)
			lo, hi := false, false
			for r := 0; r < ps.l; r++ {
				for _, e := range specExpandMaskE(ps, rho, kp+r) {
					lo = lo || e == 0
					hi = hi || e == top
				}
			}
			if lo && needLo > 0 {
				needLo--
				o.Case()
				emitExpandMask(o, ps, rho, kp, "searched-coefficient=γ1")
			} else if hi && needHi > 0 {
				needHi--
				o.Case()
				emitExpandMask(o, ps, rho, kp, "searched-coefficient=-γ1+1")
			}
		}
		o.Hist["sample/expandmask/"+ps.name+"/search-inputs-tried"] += tries
		if needLo+needHi > 0 {
			o.Hist["sample/expandmask/"+ps.name+"/search-MISSED"] += needLo + needHi
		}
	}
}

func kappaClass(ps *pset, kp int) string {
	switch {
	case kp == 0:
		return "0"
	case kp+ps.l-1 < 256:
		return "<256"
	case kp < 256:
		return "carry-inside(κ<256≤κ+l-1)"
	case kp == 256:
		return "256"
	case kp+ps.l-1 == 65535:
		return "top(κ+l-1=65535)"
	case kp >= 65535-ps.l:
		return "65535-l"
	}
	return ">256"
}

// ---------- 5. long signing loops ----------

// sparseMul returns c·s in Z_q[X]/(X^256+1) for a polynomial c with few non-zero coefficients.
func sparseMul(c, s []uint32) []uint32 {
	acc := make([]int64, 256)
	for j, cj := range c {
		if cj == 0 {
			continue
		}
		sg := int64(1)
		if cj == q-1 {
			sg = -1
		}
		for i, si := range s {
			v := int64(si)
			if si > (q-1)/2 {
				v -= q
			}
			if i+j < 256 {
				acc[i+j] += sg * v
			} else {
				acc[i+j-256] -= sg * v
			}
		}
	}
	out := make([]uint32, 256)
	for i, a := range acc {
		out[i] = uint32(((a % q) + q) % q)
	}
	return out
}

// signIterations recovers, from the signature alone, in which iteration of the loop of Algorithm 7 it
// was produced: y₀ = z₀ − c·s₁[0] must equal polynomial 0 of ExpandMask(ρ″, κ) for κ = (iter−1)·l,
// with ρ″ = H(K ‖ rnd ‖ μ, 64). Everything is computed here from the standard (no Go sampler).
// 0 means: no κ up to the limit matches.
func signIterations(ps *pset, skb, mu, rnd, sig []byte, limit int) int {
	if len(sig) != ps.sigLen || len(skb) != ps.skLen {
		return 0
	}
	etaBits, eta := ps.par.VerifEtaBits(), ps.par.VerifEta()
	s1e := specUnpack(skb[128:128+32*etaBits], etaBits)
	s1 := make([]uint32, 256)
	for i, e := range s1e {
		s1[i] = uint32((int64(eta) - int64(e) + q) % q)
	}
	c := make([]uint32, 256)
	specSampleInBall(ps.par.VerifTau(), sig[:ps.ctLen], c)
	cs1 := sparseMul(c, s1)
	ze := specUnpack(sig[ps.ctLen:ps.ctLen+ps.zPoly], ps.zBits)
	ye := make([]uint32, 256) // field e with y = γ1 − e
	for i := range ze {
		// y = z − cs1 = γ1 − ze − cs1  ⇒  e_y = ze + cs1 (mod q)
		ye[i] = uint32((uint64(ze[i]) + uint64(cs1[i])) % q)
	}
	rhopp := shake256(64, skb[32:64], rnd, mu)
	for it := 1; it <= limit; it++ {
		if eqU32(specExpandMaskE(ps, rhopp, (it-1)*ps.l), ye) {
			return it
		}
	}
	return 0
}

var longKeySeed = []byte{0, 1, 2, 3, 4, 5, 6, 7, 8, 9, 10, 11, 12, 13, 14, 15, 16, 17, 18, 19, 20, 21, 22, 23, 24, 25, 26, 27, 28, 29, 30, 31}

type longHit struct {
	idx   int
	msg   string
	iters int
}

// searchLong signs messages prefix+i (i in [from, to)) deterministically with the fixed key and keeps
// those needing at least min iterations. The result does not depend on the scheduling.
func searchLong(k *gkey, prefix string, from, to, min int) []longHit {
	workers := runtime.NumCPU()
	if workers > 16 {
		workers = 16
	}
	var mu sync.Mutex
	var hits []longHit
	var wg sync.WaitGroup
	for w := 0; w < workers; w++ {
		wg.Add(1)
		go func(w int) {
			defer wg.Done()
			var zero [32]byte
			for i := from + w; i < to; i += workers {
				msg := prefix + strconv.Itoa(i)
				mp := fmtMsg(nil, []byte(msg))
				sig := k.sk.VerifSignInternal(mp, zero)
				tr := k.pk.TR()
				n := signIterations(k.ps, k.skb, shake256(64, tr[:], mp), zero[:], sig, 400)
				if n >= min || n == 0 {
					mu.Lock()
					hits = append(hits, longHit{i, msg, n})
					mu.Unlock()
				}
			}
		}(w)
	}
	wg.Wait()
	sort.Slice(hits, func(a, b int) bool { return hits[a].idx < hits[b].idx })
	return hits
}

// longTable: messages (ctx empty, rnd = 0³², key seed 00 01 … 1f) whose deterministic signature needs the
// stated number of iterations per FIPS 204; found with `h_c10 -mode longsearch` (searchLong over
// "c10-long-<i>") and confirmed against the Lean reference. ML-DSA-87 reaches the ExpandMask counter
// carry (κ + r ≥ 256) in iteration 37, ML-DSA-65 in iteration 52; ML-DSA-44 would need 65 (never seen).
var longTable = []struct {
	set   string
	msg   string
	iters int
}{
	{"87", "c10-mask-counter-19429", 41},
	{"87", "c10-long-28472", 39},
	{"87", "c10-long-892", 45},
	{"87", "c10-long-67796", 37},
	{"87", "c10-long-99616", 45},
	{"87", "c10-long-220060", 37},
	{"87", "c10-long-264896", 37},
	{"87", "c10-long-20832", 36},
	{"87", "c10-long-4280", 34},
	{"65", "c10-long-18128", 56},
	{"65", "c10-long-166856", 56},
	{"65", "c10-long-268918", 57},
	{"65", "c10-long-317409", 56},
	{"65", "c10-long-12680", 48},
	{"44", "c10-long-13199", 32},
	{"44", "c10-long-19322", 31},
}

func emitLongSign(o *hlib.Out, k *gkey, msg string, wantIters int, kind string) {
	var zero [32]byte
	mp := fmtMsg(nil, []byte(msg))
	sig := k.sk.VerifSignInternal(mp, zero)
	o.Emit("!D sign "+k.ps.name+" "+k.skTok+" "+hlib.Tok(mp)+" "+hlib.Tok(zero[:]), okTok(sig), true)
	tr := k.pk.TR()
	n := signIterations(k.ps, k.skb, shake256(64, tr[:], mp), zero[:], sig, 400)
	o.Count("sample/longsign/lines")
	o.Count("sample/longsign/" + k.ps.name + "/" + kind)
	switch {
	case n == 0:
		o.Violate("ML-DSA-%s: the deterministic signature of %q does not come from ExpandMask(ρ″, κ) for any κ = i·l, i < 400 (FIPS 204 Alg. 7 line 11)", k.ps.name, msg)
	case wantIters > 0 && n != wantIters:
		o.Violate("ML-DSA-%s: the deterministic signature of %q (key seed 00..1f) must come from iteration %d of the signing loop (κ = %d) per FIPS 204, Go's comes from iteration %d",
			k.ps.name, msg, wantIters, (wantIters-1)*k.ps.l, n)
	}
	if n > 0 {
		o.Hist["sample/longsign/iterations-total"] += n
		if (n-1)*k.ps.l+k.ps.l-1 >= 256 {
			o.Count("sample/longsign/reaches-counter≥256")
		}
		for _, th := range []int{20, 37, 52} {
			if n >= th {
				o.Count(fmt.Sprintf("sample/longsign/iterations≥%d", th))
			}
		}
	}
	if k.pk.VerifVerifyInternal(mp, sig) != nil {
		o.Violate("ML-DSA-%s: own signature rejected (long loop, %q)", k.ps.name, msg)
	}
}

func longSignSection(o *hlib.Out, seed uint64, rng *hlib.Rng) {
	keys := map[string]*gkey{}
	for _, ps := range psets {
		keys[ps.name] = newKey(ps, longKeySeed)
	}
	if !hlib.Thorough() {
		// quick: per set one live-searched signature with 20 … 30 iterations (seed-dependent messages)
		for _, ps := range psets {
			k := keys[ps.name]
			prefix := fmt.Sprintf("c10-live-%d-", seed)
			found := false
			for from := 0; from < 8000 && !found; from += 200 {
				for _, h := range searchLong(k, prefix, from, from+200, 20) {
					if h.iters == 0 { // not derivable from ExpandMask at all: reported by emitLongSign
						o.Case()
						emitLongSign(o, k, h.msg, 0, "live-searched")
					}
					if h.iters >= 20 && h.iters <= 30 {
						o.Case()
						emitLongSign(o, k, h.msg, 0, "live-searched")
						found = true
						break
					}
				}
				o.Hist["sample/longsign/live-search-signatures"] += 200
			}
		}
	}
	// the table (the Lean reference signs at ≈ 3 ms per iteration)
	for _, e := range longTable {
		o.Case()
		emitLongSign(o, keys[e.set], e.msg, e.iters, "table")
	}
	if !hlib.Thorough() {
		return
	}
	for _, ps := range psets {
		min := map[string]int{"44": 26, "65": 36, "87": 26}[ps.name]
		n := 20_000 * *hlib.FlagScale
		cnt := 0
		for _, h := range searchLong(keys[ps.name], fmt.Sprintf("c10-live-%d-", seed), 0, n, min) {
			if cnt++; cnt > 8 {
				break
			}
			o.Case()
			emitLongSign(o, keys[ps.name], h.msg, 0, "live-searched")
		}
		o.Hist["sample/longsign/live-search-signatures"] += n
	}
}

// longSearchMode prints table candidates (run by hand: h_c10 -mode longsearch:<set>:<min>:<count>).
func longSearchMode(mode string) {
	f := strings.Split(mode, ":")
	ps := psetByName(f[1])
	min, _ := strconv.Atoi(f[2])
	n, _ := strconv.Atoi(f[3])
	k := newKey(ps, longKeySeed)
	for from := 0; from < n; from += 20000 {
		for _, h := range searchLong(k, "c10-long-", from, from+20000, min) {
			fmt.Fprintf(os.Stderr, "HIT {%q, %q, %d},\n", ps.name, h.msg, h.iters)
		}
		fmt.Fprintf(os.Stderr, "progress %s %d\n", ps.name, from+20000)
	}
}

func sampleSection(o *hlib.Out, seed uint64) {
	rng := hlib.NewRng(seed, "c10/sample")
	t0 := time.Now()
	lap := func(name string) {
		if os.Getenv("C10_TIMING") != "" {
			fmt.Fprintf(os.Stderr, "c10/sample %-12s %6d ms\n", name, time.Since(t0).Milliseconds())
		}
		t0 = time.Now()
	}
	rejNTTSection(o, rng)
	lap("rejntt")
	keygenBoundarySection(o, rng)
	lap("keygen")
	rejBoundedSection(o, rng)
	lap("rejbounded")
	sampleInBallSection(o, rng)
	lap("sampleinball")
	expandMaskSection(o, rng)
	lap("expandmask")
	longSignSection(o, seed, rng)
	lap("longsign")
}
