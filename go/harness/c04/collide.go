//go:build verif

// COLLIDING-PREFIX section of harness c04 (property C04 at the keyset level).
//
// A RAW (no prefix) MAC key R and a TINK / CRUNCHY / LEGACY key P live in one keyset, and a valid tag of R starts
// with P's 5-byte output prefix (0x01‖id or 0x00‖id). With random ids this happens with probability 2^-40, so it
// is built on purpose: messages are searched until R's tag starts with the wanted byte, then P gets id = tag[1:5].
// wrappedMAC.VerifyMAC tries P first (it rejects) and must still try the RAW keys. Every keyset is probed with
//   - the colliding RAW tag (must be accepted), a flipped / truncated / extended copy and another message,
//   - ordinary tags of every member (also DISABLED ones), the keyset's own ComputeMAC,
//   - P's tag without its prefix and R's tag behind P's prefix (with equal key material the twin legitimately
//     accepts those — the expected verdict is never hard-coded but derived from the members),
// and the demand is the property: the keyset accepts (tag, msg) iff an ENABLED member's own single-key primitive
// (hmac.NewMAC / aescmac.NewMAC, not the factory) accepts it. Every member verdict of an accepted colliding tag is
// also a model line (`!X hmacv` / `!X cmacv`: Lean HMAC / AES-CMAC reference), and the keyset verdict is compared with
// the Lean wrap model (`W keys …`, `W macb <first 5 bytes> <len> <member bits>` = TinkVerif.Wrap.macAccept).
package main

import (
	"bytes"
	"encoding/binary"
	"fmt"
	"strings"

	"github.com/tink-crypto/tink-go/v2/internal/internalapi"
	"github.com/tink-crypto/tink-go/v2/internal/verifharness/hlib"
	"github.com/tink-crypto/tink-go/v2/key"
	"github.com/tink-crypto/tink-go/v2/keyset"
	"github.com/tink-crypto/tink-go/v2/mac"
	cmackey "github.com/tink-crypto/tink-go/v2/mac/aescmac"
	hmackey "github.com/tink-crypto/tink-go/v2/mac/hmac"
	"github.com/tink-crypto/tink-go/v2/tink"
)

// mspec describes one MAC key completely (enough to rebuild it and to name it on a model line).
type mspec struct {
	cmac   bool
	hi     int // index into hashes (HMAC)
	key    []byte
	tagLen int
	vi     int // 0 T, 1 C, 2 L, 3 R
	id     uint32
}

func (s mspec) label() string {
	if s.cmac {
		return fmt.Sprintf("cmac/%d/%d/%s", len(s.key), s.tagLen, hlib.VariantCodes[s.vi])
	}
	return fmt.Sprintf("hmac/%s/%d/%d/%s", hashes[s.hi].name, len(s.key), s.tagLen, hlib.VariantCodes[s.vi])
}

// modelV: the single-key verify line of the Lean model for this key.
func (s mspec) modelV(tag, msg []byte) string {
	kid := s.id
	if s.vi == 3 {
		kid = 0
	}
	if s.cmac {
		return fmt.Sprintf("X cmacv 1 %s %d %s %d %s %s", hlib.Tok(s.key), s.tagLen, hlib.VariantCodes[s.vi], kid, hlib.Tok(tag), hlib.Tok(msg))
	}
	return fmt.Sprintf("X hmacv %s %s %d %s %d %s %s", hashes[s.hi].name, hlib.Tok(s.key), s.tagLen, hlib.VariantCodes[s.vi], kid, hlib.Tok(tag), hlib.Tok(msg))
}

func (s mspec) prefix() []byte {
	switch s.vi {
	case 0:
		return binary.BigEndian.AppendUint32([]byte{1}, s.id)
	case 1, 2:
		return binary.BigEndian.AppendUint32([]byte{0}, s.id)
	}
	return nil
}

// build returns the key object and its single-key primitive (per-key constructor, no keyset wrapper involved).
func (s mspec) build() (key.Key, tink.MAC) {
	kid := s.id
	if s.vi == 3 {
		kid = 0
	}
	if s.cmac {
		ps, err := cmackey.NewParameters(cmackey.ParametersOpts{KeySizeInBytes: len(s.key), TagSizeInBytes: s.tagLen, Variant: cvariants[s.vi]})
		if err != nil {
			panic(err)
		}
		k, err := cmackey.NewKey(hlib.Secret(s.key), ps, kid)
		if err != nil {
			panic(err)
		}
		m, err := cmackey.NewMAC(k, internalapi.Token{})
		if err != nil {
			panic(err)
		}
		return k, m
	}
	ps, err := hmackey.NewParameters(hmackey.ParametersOpts{KeySizeInBytes: len(s.key), TagSizeInBytes: s.tagLen, HashType: hashes[s.hi].ht, Variant: hvariants[s.vi]})
	if err != nil {
		panic(err)
	}
	k, err := hmackey.NewKey(hlib.Secret(s.key), ps, kid)
	if err != nil {
		panic(err)
	}
	m, err := hmackey.NewMAC(k, internalapi.Token{})
	if err != nil {
		panic(err)
	}
	return k, m
}

func randMacSpec(rng *hlib.Rng, cmac bool, vi int, id uint32) mspec {
	s := mspec{cmac: cmac, vi: vi, id: id}
	if cmac {
		s.key = rng.Bytes(32) // aescmac.NewMAC admits 32-byte keys only
		s.tagLen = 10 + rng.Intn(7)
		return s
	}
	s.hi = rng.Intn(len(hashes))
	s.key = rng.Bytes(rng.Pick(16, 20, 32, 48, 64, 65, 16+rng.Intn(100)))
	s.tagLen = 10 + rng.Intn(hashes[s.hi].dl-9)
	return s
}

type cmember struct {
	s       mspec
	role    byte // 'R' target RAW key, 'r' other RAW key, 'P' colliding key, 'F' unrelated prefixed key
	enabled bool
	primary bool
	k       key.Key
	p       tink.MAC
}

type cset struct {
	o       *hlib.Out
	desc    string
	members []*cmember
	ks      tink.MAC
}

func (c *cset) keysLine() string {
	parts := make([]string, len(c.members))
	for i, m := range c.members {
		st := "E"
		if !m.enabled {
			st = "D"
		}
		parts[i] = fmt.Sprintf("%d:%s:%s:%s", m.s.id, st, hlib.B01(m.primary), hlib.Tok(m.s.prefix()))
	}
	return strings.Join(parts, ";")
}

func (c *cset) describe() string {
	ls := make([]string, len(c.members))
	for i, m := range c.members {
		ls[i] = fmt.Sprintf("%c=%s key=%s", m.role, m.s.label(), hlib.Tok(m.s.key))
	}
	return fmt.Sprintf("%s keyset [%s] members {%s}", c.desc, c.keysLine(), strings.Join(ls, "; "))
}

// probe: one VerifyMAC on the keyset against the members' own verdicts and the wrap model.
// modelMembers: also ask the Lean MAC reference for every member's verdict (property-level lines).
func (c *cset) probe(what string, tag, msg []byte, modelMembers bool) bool {
	o := c.o
	bits := make([]byte, len(c.members))
	enabledAcc := false
	for i, m := range c.members {
		err := m.p.VerifyMAC(tag, msg)
		bits[i] = '0'
		if err == nil {
			bits[i] = '1'
			if m.enabled {
				enabledAcc = true
			}
		}
		if modelMembers {
			o.Emit("!"+m.s.modelV(tag, msg), verRes(err), true)
		}
	}
	in := append([]byte(nil), tag...)
	var err error
	if p := hlib.Recover(func() { err = c.ks.VerifyMAC(in, msg) }); p != "" {
		o.Violate("keyset VerifyMAC PANICS on %s: %s (%s tag=%s msg=%s)", what, p, c.describe(), hlib.Tok(tag), hlib.Tok(msg))
		return false
	}
	if !bytes.Equal(in, tag) {
		o.Violate("keyset VerifyMAC modified the tag buffer on %s (%s)", what, c.describe())
	}
	got := err == nil
	verdict := "reject"
	if got {
		verdict = "accept"
	}
	o.Count("collide/probe/" + what + "/" + verdict)
	if got && !enabledAcc {
		o.Violate("keyset VerifyMAC accepts %s although no ENABLED member accepts it (%s tag=%s msg=%s bits=%s)", what, c.describe(), hlib.Tok(tag), hlib.Tok(msg), bits)
	}
	if !got && enabledAcc && len(tag) > 5 {
		o.Violate("keyset VerifyMAC rejects %s although an ENABLED member's own primitive accepts it (%s tag=%s msg=%s bits=%s)", what, c.describe(), hlib.Tok(tag), hlib.Tok(msg), bits)
	}
	n := len(tag)
	if n > 5 {
		n = 5
	}
	o.Emit(fmt.Sprintf("!W macb %s %d %s", hlib.Tok(tag[:n]), len(tag), bits), verRes(err), true)
	return got
}

// collideShapes: keyset layouts. R = the RAW key whose tag collides, r = another RAW key, P = the colliding prefixed
// key, F = an unrelated prefixed key; lower-case p / x = DISABLED colliding key / DISABLED target RAW key.
var collideShapes = []string{"PR", "RP", "PRr", "PrR", "RPr", "rPR", "RrP", "rRP", "FPR", "PFR", "RFP", "RPF", "pR", "Rp", "Px", "xP", "PxR", "FrPRF"}

func runCollide(o *hlib.Out, rng *hlib.Rng) {
	for _, rawCmac := range []bool{false, true} {
		for pv := 0; pv < 3; pv++ { // colliding key: TINK, CRUNCHY, LEGACY
			for si, shape := range collideShapes {
				for mat := 0; mat < 3; mat++ { // 0 equal key material, 1 other key of the same family, 2 other family
					if !hlib.Thorough() && (si+2*pv+mat)%3 != 0 {
						// quick: a third of the matrix; per RAW family every shape × variant and every shape × material once
						continue
					}
					collideCase(o, hlib.NewRng(rng.U64(), "collide"), rawCmac, pv, shape, mat)
				}
			}
		}
	}
}

func collideCase(o *hlib.Out, rng *hlib.Rng, rawCmac bool, pv int, shape string, mat int) {
	o.Case()
	fam := "hmac"
	if rawCmac {
		fam = "cmac"
	}
	desc := fmt.Sprintf("raw=%s colliding=%s shape=%s material=%s", fam, hlib.VariantCodes[pv], shape, []string{"equal", "other-key", "other-family"}[mat])
	// --- the target RAW key and a tag of it that starts like an output prefix
	rs := randMacSpec(rng, rawCmac, 3, 0)
	_, rp := rs.build()
	want := byte(0)
	if pv == 0 {
		want = 1
	}
	base := rng.Bytes(rng.MsgLen(200))
	var msg, tag []byte
	tries := 0
	for i := 0; i < 4000; i++ {
		m := binary.BigEndian.AppendUint16(append([]byte(nil), base...), uint16(i))
		t, err := rp.ComputeMAC(m)
		if err != nil {
			panic(err)
		}
		if t[0] == want {
			msg, tag, tries = m, t, i+1
			break
		}
	}
	if tag == nil {
		o.Count("collide/search/not-found/" + fam)
		return
	}
	o.Count("collide/search/found/" + fam)
	o.Count(fmt.Sprintf("collide/search/tries<=%d", 1<<uint(bitLen(tries))))
	pid := binary.BigEndian.Uint32(tag[1:5])
	// --- the colliding key
	var ps mspec
	switch mat {
	case 0:
		ps = rs
		ps.key = append([]byte(nil), rs.key...)
	case 1:
		ps = randMacSpec(rng, rawCmac, pv, pid)
	default:
		ps = randMacSpec(rng, !rawCmac, pv, pid)
	}
	ps.vi, ps.id = pv, pid
	// --- members
	used := map[uint32]bool{pid: true}
	freshID := func() uint32 {
		for {
			id := rng.KeyID()
			if !used[id] {
				used[id] = true
				return id
			}
		}
	}
	c := &cset{o: o, desc: desc}
	var enabledIdx []int
	for i := 0; i < len(shape); i++ {
		m := &cmember{enabled: true}
		switch shape[i] {
		case 'R', 'x':
			m.s, m.role, m.enabled = rs, 'R', shape[i] == 'R'
			m.s.id = freshID()
		case 'r':
			// another RAW key: same parameters and key material as R, or something else
			if rng.Bool() {
				m.s = rs
			} else {
				m.s = randMacSpec(rng, rng.Bool(), 3, 0)
			}
			m.s.id, m.role = freshID(), 'r'
		case 'P', 'p':
			m.s, m.role, m.enabled = ps, 'P', shape[i] == 'P'
		case 'F':
			m.s = randMacSpec(rng, rng.Bool(), rng.Intn(3), freshID())
			m.role = 'F'
		}
		m.k, m.p = m.s.build()
		if m.enabled {
			enabledIdx = append(enabledIdx, i)
		}
		c.members = append(c.members, m)
	}
	c.members[enabledIdx[rng.Intn(len(enabledIdx))]].primary = true
	km := keyset.NewManager()
	for _, m := range c.members {
		opts := []keyset.KeyOpts{keyset.WithFixedID(m.s.id)}
		if m.primary {
			opts = append(opts, keyset.AsPrimary())
		}
		if !m.enabled {
			opts = append(opts, keyset.WithStatus(keyset.Disabled))
		}
		if _, err := km.AddKeyWithOpts(m.k, internalapi.Token{}, opts...); err != nil {
			panic(fmt.Sprintf("harness: %v (%s)", err, c.describe()))
		}
	}
	kh, err := km.Handle()
	if err != nil {
		panic(err)
	}
	c.ks, err = mac.New(kh)
	if err != nil {
		o.Violate("mac.New refuses a valid keyset: %v (%s)", err, c.describe())
		return
	}
	o.Count("collide/keysets/" + fam + "/" + hlib.VariantCodes[pv])
	o.Emit("W keys "+c.keysLine(), "ok", true)

	// --- the colliding tag of the RAW key
	if !bytes.HasPrefix(tag, ps.prefix()) {
		panic("harness: colliding prefix was not built")
	}
	c.probe("colliding-raw-tag", tag, msg, true)
	flip := append([]byte(nil), tag...)
	flip[len(flip)-1-rng.Intn(len(flip)-5)] ^= 1 << uint(rng.Intn(8))
	c.probe("colliding-raw-tag/flipped", flip, msg, false)
	fp := append([]byte(nil), tag...)
	fp[rng.Intn(5)] ^= 1 << uint(rng.Intn(8))
	c.probe("colliding-raw-tag/flipped-in-prefix", fp, msg, false)
	c.probe("colliding-raw-tag/truncated", tag[:len(tag)-1], msg, false)
	c.probe("colliding-raw-tag/extended", append(append([]byte(nil), tag...), byte(rng.Intn(256))), msg, false)
	c.probe("colliding-raw-tag/other-message", tag, append(append([]byte(nil), msg...), 0), false)
	c.probe("colliding-raw-tag/prefix-only", tag[:5], msg, false)
	c.probe("colliding-raw-tag/6-bytes", tag[:6], msg, false)
	// --- ordinary tags of every member, on the colliding message and on a fresh one
	other := rng.Bytes(rng.MsgLen(100))
	for i, m := range c.members {
		for _, mm := range [][]byte{msg, other} {
			t, err := m.p.ComputeMAC(mm)
			if err != nil {
				panic(err)
			}
			what := fmt.Sprintf("member-tag/%c", m.role)
			if !m.enabled {
				what += "-disabled"
			}
			c.probe(what, t, mm, i == 0 || m.role == 'P')
			if pre := m.s.prefix(); pre != nil {
				// a prefixed member's tag without the prefix, under the colliding prefix, under the other start byte
				c.probe(what+"/prefix-stripped", t[5:], mm, false)
				sw := append([]byte(nil), t...)
				sw[0] ^= 1
				c.probe(what+"/start-byte-swapped", sw, mm, false)
			} else {
				c.probe(what+"/behind-colliding-prefix", append(append([]byte(nil), ps.prefix()...), t...), mm, m.role == 'R')
			}
		}
	}
	// --- the keyset's own tag
	kt, err := c.ks.ComputeMAC(other)
	if err != nil {
		o.Violate("keyset ComputeMAC fails: %v (%s)", err, c.describe())
		return
	}
	for _, m := range c.members {
		if m.primary {
			pt, _ := m.p.ComputeMAC(other)
			if !bytes.Equal(pt, kt) {
				o.Violate("keyset ComputeMAC output %s is not the primary key's tag %s (%s msg=%s)", hlib.Tok(kt), hlib.Tok(pt), c.describe(), hlib.Tok(other))
			}
			o.Emit("!"+m.s.modelV(kt, other), "ok", true)
		}
	}
	if !c.probe("keyset-own-tag", kt, other, false) {
		o.Violate("keyset VerifyMAC rejects the keyset's own ComputeMAC output (%s tag=%s msg=%s)", c.describe(), hlib.Tok(kt), hlib.Tok(other))
	}
}

func bitLen(n int) int {
	b := 0
	for n > 1 {
		n = (n + 1) / 2
		b++
	}
	return b
}
