//go:build verif

// Harness c04: MAC tags vs the independent HMAC / AES-CMAC reference (property C04).
package main

import (
	"bytes"
	"fmt"

	"github.com/tink-crypto/tink-go/v2/internal/mac/aescmac"
	"github.com/tink-crypto/tink-go/v2/internal/verifharness/hlib"
	"github.com/tink-crypto/tink-go/v2/mac"
	cmackey "github.com/tink-crypto/tink-go/v2/mac/aescmac"
	hmackey "github.com/tink-crypto/tink-go/v2/mac/hmac"
	"github.com/tink-crypto/tink-go/v2/mac/subtle"
	"github.com/tink-crypto/tink-go/v2/tink"
)

var hashes = []struct {
	name string
	ht   hmackey.HashType
	dl   int
}{{"SHA1", hmackey.SHA1, 20}, {"SHA224", hmackey.SHA224, 28}, {"SHA256", hmackey.SHA256, 32}, {"SHA384", hmackey.SHA384, 48}, {"SHA512", hmackey.SHA512, 64}}

var hvariants = []hmackey.Variant{hmackey.VariantTink, hmackey.VariantCrunchy, hmackey.VariantLegacy, hmackey.VariantNoPrefix}
var cvariants = []cmackey.Variant{cmackey.VariantTink, cmackey.VariantCrunchy, cmackey.VariantLegacy, cmackey.VariantNoPrefix}

func tagRes(t []byte, err error) string {
	if err != nil {
		return "err"
	}
	return "ok " + hlib.Tok(t)
}

func verRes(err error) string {
	if err != nil {
		return "reject"
	}
	return "ok"
}

// exercise runs compute + verify + mutation stream on one primitive.
func exercise(o *hlib.Out, rng *hlib.Rng, m tink.MAC, cfgCompute, cfgVerify string, nmsg int) {
	for j := 0; j < nmsg; j++ {
		msg := rng.Bytes(rng.MsgLen(300))
		tag, err := m.ComputeMAC(msg)
		o.Emit(fmt.Sprintf("!%s %s", cfgCompute, hlib.Tok(msg)), tagRes(tag, err), true)
		if err != nil {
			continue
		}
		// determinism
		tag2, _ := m.ComputeMAC(msg)
		if !bytes.Equal(tag, tag2) {
			o.Violate("ComputeMAC is not deterministic (%s)", cfgCompute)
		}
		if err := m.VerifyMAC(tag, msg); err != nil {
			o.Violate("VerifyMAC rejects ComputeMAC's own output (%s)", cfgCompute)
		}
		o.Emit(fmt.Sprintf("%s %s %s", cfgVerify, hlib.Tok(tag), hlib.Tok(msg)), "ok", true)
		for _, mu := range rng.Mutations(tag, 6) {
			e := m.VerifyMAC(mu.Data, msg)
			o.Count("mut/" + mu.Kind)
			if e == nil && !bytes.Equal(mu.Data, tag) {
				o.Violate("VerifyMAC accepted a %s-mutated tag (%s msg=%s tag=%s)", mu.Kind, cfgVerify, hlib.Tok(msg), hlib.Tok(mu.Data))
			}
			o.Emit(fmt.Sprintf("%s %s %s", cfgVerify, hlib.Tok(mu.Data), hlib.Tok(msg)), verRes(e), true)
		}
		for _, mu := range rng.Mutations(msg, 2) {
			e := m.VerifyMAC(tag, mu.Data)
			if e == nil && !bytes.Equal(mu.Data, msg) {
				o.Violate("VerifyMAC accepted a modified message (%s)", cfgVerify)
			}
			o.Emit(fmt.Sprintf("%s %s %s", cfgVerify, hlib.Tok(tag), hlib.Tok(mu.Data)), verRes(e), true)
		}
	}
}

func main() {
	o := hlib.Open("C04")
	defer o.Close()
	rng := hlib.NewRng(*hlib.FlagSeed, "c04")
	n := hlib.N(500, 12000)
	for c := 0; c < n; c++ {
		o.Case()
		id := rng.KeyID()
		vi := rng.Intn(4)
		if rng.Chance(55) {
			// ---------- HMAC ----------
			h := hashes[rng.Intn(len(hashes))]
			keyLen := rng.Pick(16, 20, 32, 63, 64, 65, 128, 129, 16+rng.Intn(120))
			tagLen := 10 + rng.Intn(h.dl-9)
			if rng.Chance(8) {
				keyLen = rng.Pick(0, 1, 15) // rejected
			}
			if rng.Chance(8) {
				tagLen = rng.Pick(0, 9, h.dl+1) // rejected
			}
			key := rng.Bytes(keyLen)
			cfg := fmt.Sprintf("%s %s %d", h.name, hlib.Tok(key), tagLen)
			switch rng.Intn(3) {
			case 0: // subtle (no prefix)
				o.Count("hmac/subtle/" + h.name)
				m, err := subtle.NewHMAC(h.name, key, uint32(tagLen))
				if err != nil {
					o.Emit("!X hmac "+cfg+" R 0 -", "err", true)
					continue
				}
				exercise(o, rng, m, "X hmac "+cfg+" R 0", "X hmacv "+cfg+" R 0", 3)
			default: // key object -> keyset handle -> mac.New (factory path)
				o.Count("hmac/key/" + h.name + "/" + hlib.VariantCodes[vi])
				kid := id
				if vi == 3 {
					kid = 0
				}
				ps, err := hmackey.NewParameters(hmackey.ParametersOpts{KeySizeInBytes: keyLen, TagSizeInBytes: tagLen, HashType: h.ht, Variant: hvariants[vi]})
				full := fmt.Sprintf("%s %s %d", cfg, hlib.VariantCodes[vi], kid)
				if err != nil {
					o.Emit("!X hmac "+full+" -", "err", true)
					continue
				}
				k, err := hmackey.NewKey(hlib.Secret(key), ps, kid)
				if err != nil {
					panic(err)
				}
				kh, err := hlib.HandleOf(k)
				if err != nil {
					panic(err)
				}
				m, err := mac.New(kh)
				if err != nil {
					o.Emit("!X hmac "+full+" -", "err", true)
					continue
				}
				exercise(o, rng, m, "X hmac "+full, "X hmacv "+full, 3)
			}
		} else {
			// ---------- AES-CMAC ----------
			keyLen := rng.Pick(16, 32, 32, 32, 24)
			tagLen := 10 + rng.Intn(7)
			if rng.Chance(8) {
				tagLen = rng.Pick(9, 17, 0)
			}
			if rng.Chance(5) {
				keyLen = rng.Pick(15, 17, 33, 0)
			}
			key := rng.Bytes(keyLen)
			switch rng.Intn(4) {
			case 0: // subtle
				o.Count("cmac/subtle")
				cfg := fmt.Sprintf("0 %s %d R 0", hlib.Tok(key), tagLen)
				m, err := subtle.NewAESCMAC(key, uint32(tagLen))
				if err != nil {
					o.Emit("!X cmac "+cfg+" -", "err", true)
					continue
				}
				exercise(o, rng, m, "X cmac "+cfg, "X cmacv "+cfg, 3)
			case 1: // the internal routine against RFC 4493 written from the RFC, lengths 0..80
				if c, err := aescmac.New(key); err == nil {
					o.Count("cmac/internal-spec")
					for l := 0; l <= 80; l += 1 + rng.Intn(3) {
						msg := rng.Bytes(l)
						o.Emit(fmt.Sprintf("!X cmacspec %s %s", hlib.Tok(key), hlib.Tok(msg)), hlib.Tok(c.Compute(msg)), true)
					}
				}
			default:
				o.Count("cmac/key/" + hlib.VariantCodes[vi])
				kid := id
				if vi == 3 {
					kid = 0
				}
				full := fmt.Sprintf("1 %s %d %s %d", hlib.Tok(key), tagLen, hlib.VariantCodes[vi], kid)
				ps, err := cmackey.NewParameters(cmackey.ParametersOpts{KeySizeInBytes: keyLen, TagSizeInBytes: tagLen, Variant: cvariants[vi]})
				if err != nil {
					o.Emit("!X cmac "+full+" -", "err", true)
					continue
				}
				k, err := cmackey.NewKey(hlib.Secret(key), ps, kid)
				if err != nil {
					panic(err)
				}
				kh, err := hlib.HandleOf(k)
				if err != nil {
					panic(err)
				}
				m, err := mac.New(kh)
				if err != nil {
					o.Emit("!X cmac "+full+" -", "err", true)
					continue
				}
				exercise(o, rng, m, "X cmac "+full, "X cmacv "+full, 3)
			}
		}
	}
	// large.go: inputs around k·64 KiB, 1 MiB and k·4 KiB (own PRNG stream)
	largeSizes(o, hlib.NewRng(*hlib.FlagSeed, "c04/sizes"))
	// collide.go: keysets in which a RAW key's tag starts with another member's output prefix (own PRNG stream)
	runCollide(o, hlib.NewRng(*hlib.FlagSeed, "c04/collide"))
}
