//go:build verif

// LARGE-SIZES section of harness c04 (own PRNG stream "c04/sizes": the lines of main.go stay what they were).
//
// AES-CMAC and HMAC inputs of k·2^16 + d bytes, k ∈ {1,2,3,4,8,16}, d ∈ {−17,−16,−15,−1,0,1,15,16,17} (which contains
// 2^20 ± {0,1,16}), 2^20 + 2^16, and the "mid" grid k·4096 + d, k ∈ {1,2,3,4,8}; for LEGACY keys the message is one
// byte shorter, so that message‖0x00 has those lengths. Messages travel as `@<len>:<seedhex>` (driver ops `X …gen`,
// Driver/Sym.lean genBytes): byte i = (seed[i mod |seed|] + i + (i >> 8)) mod 256, generated here by genMsg.
//
//	quick:    CMAC: the whole grid once, the construction path (keyset TINK/CRUNCHY/RAW, mac/subtle, internal routine)
//	          rotating with the length; LEGACY on a 14-length subset holding every k and every d; HMAC: the whole grid
//	          once, hash and path rotating; LEGACY on the subset. Mid grid: whole, rotating.
//	thorough: every path × the whole grid, every hash × the whole grid, LEGACY on the whole grid.
package main

import (
	"bytes"
	"crypto/sha256"
	"fmt"

	"github.com/tink-crypto/tink-go/v2/internal/mac/aescmac"
	"github.com/tink-crypto/tink-go/v2/internal/verifharness/hlib"
	"github.com/tink-crypto/tink-go/v2/mac"
	cmackey "github.com/tink-crypto/tink-go/v2/mac/aescmac"
	hmackey "github.com/tink-crypto/tink-go/v2/mac/hmac"
	"github.com/tink-crypto/tink-go/v2/mac/subtle"
	"github.com/tink-crypto/tink-go/v2/tink"
)

var (
	sizeKs = []int{1, 2, 3, 4, 8, 16}
	midKs  = []int{1, 2, 3, 4, 8}
	sizeDs = []int{-17, -16, -15, -1, 0, 1, 15, 16, 17}
)

// genMsg: the bytes the driver's `@<n>:<seed>` token stands for.
func genMsg(seed []byte, n int) []byte {
	b := make([]byte, n)
	m := len(seed)
	for i := range b {
		s := 0
		if m > 0 {
			s = int(seed[i%m])
		}
		b[i] = byte(s + i + i>>8)
	}
	return b
}

func genTok(seed []byte, n int) string { return fmt.Sprintf("@%d:%s", n, hlib.Tok(seed)) }

// bigGrid: k·2^16 + d for every k and d, then 2^20 + 2^16.
func bigGrid() []int {
	var g []int
	for _, k := range sizeKs {
		for _, d := range sizeDs {
			g = append(g, k<<16+d)
		}
	}
	return append(g, 1<<20+1<<16)
}

func midGrid() []int {
	var g []int
	for _, k := range midKs {
		for _, d := range sizeDs {
			g = append(g, k<<12+d)
		}
	}
	return g
}

// subGrid: 14 lengths of the big grid in which every k and every d occurs: d = 0 with every k, every other d with the
// k chosen by the rotation.
func subGrid(rot int) []int {
	var g []int
	for _, k := range sizeKs {
		g = append(g, k<<16)
	}
	for j, d := range sizeDs {
		if d != 0 {
			g = append(g, sizeKs[(j+rot)%len(sizeKs)]<<16+d)
		}
	}
	return g
}

type rawCmac struct{ c *aescmac.CMAC }

func (r rawCmac) ComputeMAC(data []byte) ([]byte, error) { return r.c.Compute(data), nil }
func (r rawCmac) VerifyMAC(tag, data []byte) error {
	if !bytes.Equal(tag, r.c.Compute(data)) {
		return fmt.Errorf("invalid")
	}
	return nil
}

type macInst struct {
	m       tink.MAC
	compute string // op prefix, the message token follows
	verify  string // op prefix, tag and message tokens follow
	legacy  bool
	name    string
}

const (
	pathLegacy   = 2 // index of LEGACY in hlib.VariantCodes
	pathSubtle   = 4
	pathInternal = 5 // CMAC only
)

// newCmac: path 0..3 = key object → keyset handle → mac.New with variant T/C/L/R, 4 = mac/subtle, 5 = internal routine.
func newCmac(rng *hlib.Rng, path int) macInst {
	id := rng.KeyID()
	tagLen := 10 + rng.Intn(7)
	switch path {
	case pathSubtle:
		key := rng.Bytes(rng.Pick(16, 24, 32))
		m, err := subtle.NewAESCMAC(key, uint32(tagLen))
		if err != nil {
			panic(err)
		}
		cfg := fmt.Sprintf("0 %s %d R 0", hlib.Tok(key), tagLen)
		return macInst{m: m, compute: "X cmacgen " + cfg, verify: "X cmacvgen " + cfg, name: "cmac/subtle"}
	case pathInternal:
		key := rng.Bytes(rng.Pick(16, 32))
		c, err := aescmac.New(key)
		if err != nil {
			panic(err)
		}
		cfg := fmt.Sprintf("0 %s 16 R 0", hlib.Tok(key))
		return macInst{m: rawCmac{c}, compute: "X cmacgen " + cfg, verify: "X cmacvgen " + cfg, name: "cmac/internal"}
	}
	key := rng.Bytes(32)
	if path == 3 {
		id = 0
	}
	ps, err := cmackey.NewParameters(cmackey.ParametersOpts{KeySizeInBytes: 32, TagSizeInBytes: tagLen, Variant: cvariants[path]})
	if err != nil {
		panic(err)
	}
	k, err := cmackey.NewKey(hlib.Secret(key), ps, id)
	if err != nil {
		panic(err)
	}
	kh, err := hlib.HandleOf(k)
	if err != nil {
		panic(err)
	}
	m, err := mac.New(kh)
	if err != nil {
		panic(err)
	}
	cfg := fmt.Sprintf("1 %s %d %s %d", hlib.Tok(key), tagLen, hlib.VariantCodes[path], id)
	return macInst{m: m, compute: "X cmacgen " + cfg, verify: "X cmacvgen " + cfg, legacy: path == pathLegacy, name: "cmac/key/" + hlib.VariantCodes[path]}
}

// newHmac: path 0..3 = keyset with variant T/C/L/R, 4 = mac/subtle; hi indexes hashes.
func newHmac(rng *hlib.Rng, path, hi int) macInst {
	h := hashes[hi]
	id := rng.KeyID()
	key := rng.Bytes(rng.Pick(16, 32, 63, 64, 65, 128, 129, 200))
	tagLen := 10 + rng.Intn(h.dl-9)
	if rng.Chance(40) {
		tagLen = h.dl
	}
	if path == pathSubtle {
		m, err := subtle.NewHMAC(h.name, key, uint32(tagLen))
		if err != nil {
			panic(err)
		}
		cfg := fmt.Sprintf("%s %s %d R 0", h.name, hlib.Tok(key), tagLen)
		return macInst{m: m, compute: "X hmacgen " + cfg, verify: "X hmacvgen " + cfg, name: "hmac/subtle/" + h.name}
	}
	if path == 3 {
		id = 0
	}
	ps, err := hmackey.NewParameters(hmackey.ParametersOpts{KeySizeInBytes: len(key), TagSizeInBytes: tagLen, HashType: h.ht, Variant: hvariants[path]})
	if err != nil {
		panic(err)
	}
	k, err := hmackey.NewKey(hlib.Secret(key), ps, id)
	if err != nil {
		panic(err)
	}
	kh, err := hlib.HandleOf(k)
	if err != nil {
		panic(err)
	}
	m, err := mac.New(kh)
	if err != nil {
		panic(err)
	}
	cfg := fmt.Sprintf("%s %s %d %s %d", h.name, hlib.Tok(key), tagLen, hlib.VariantCodes[path], id)
	return macInst{m: m, compute: "X hmacgen " + cfg, verify: "X hmacvgen " + cfg, legacy: path == pathLegacy,
		name: "hmac/key/" + h.name + "/" + hlib.VariantCodes[path]}
}

func sizeClass(n int) string {
	switch {
	case n < 1<<16-17:
		return "4K-grid"
	case n <= 1<<16+17:
		return "64K"
	case n < 1<<20-17:
		return "128K..512K"
	}
	return ">=1M"
}

// sizeCase: one input whose MAC INPUT has L bytes (LEGACY: the message has L−1). Compute line (property level),
// optionally the two verify lines, and the implementation-side oracles (determinism, own tag accepted, tag and message
// modifications rejected — also at the 64 KiB chunk borders).
func sizeCase(o *hlib.Out, rng *hlib.Rng, in macInst, L int, verifyLines bool) {
	o.Case()
	n := L
	if in.legacy {
		n = L - 1
	}
	seed := rng.Bytes(rng.Intn(25))
	msg := genMsg(seed, n)
	tok := genTok(seed, n)
	o.Count("sizes/" + in.name)
	o.Count("sizes/len " + sizeClass(L))
	tag, err := in.m.ComputeMAC(msg)
	o.Emit("!"+in.compute+" "+tok, tagRes(tag, err), true)
	if err != nil {
		o.Violate("ComputeMAC failed on a %d-byte message (%s)", n, in.name)
		return
	}
	if tag2, _ := in.m.ComputeMAC(msg); !bytes.Equal(tag, tag2) {
		o.Violate("ComputeMAC is not deterministic on a %d-byte message (%s)", n, in.name)
	}
	if err := in.m.VerifyMAC(tag, msg); err != nil {
		o.Violate("VerifyMAC rejects ComputeMAC's own output on a %d-byte message (%s)", n, in.name)
	}
	bad := append([]byte(nil), tag...)
	bad[rng.Intn(len(bad))] ^= 1 << uint(rng.Intn(8))
	e := in.m.VerifyMAC(bad, msg)
	if e == nil {
		o.Violate("VerifyMAC accepted a modified tag on a %d-byte message (%s)", n, in.name)
	}
	if verifyLines {
		o.Emit(fmt.Sprintf("%s %s %s", in.verify, hlib.Tok(tag), tok), "ok", true)
		o.Emit(fmt.Sprintf("%s %s %s", in.verify, hlib.Tok(bad), tok), verRes(e), true)
	}
	for _, pos := range []int{0, 1<<16 - 1, 1 << 16, n - 1<<16, n - 17, n - 1, rng.Intn(n)} {
		if pos < 0 || pos >= n {
			continue
		}
		msg[pos] ^= 0x01
		if in.m.VerifyMAC(tag, msg) == nil {
			o.Violate("VerifyMAC accepted a %d-byte message modified at byte %d (%s)", n, pos, in.name)
		}
		msg[pos] ^= 0x01
	}
}

// genEquivalence: the generator on both sides. `X gen` returns the bytes themselves, `X gensha` their SHA-256, and a
// few MAC lines carry the same message once as hex and once as `@len:seed`.
func genEquivalence(o *hlib.Out, rng *hlib.Rng) {
	o.Case()
	for _, n := range []int{0, 1, 2, 255, 256, 257, 511, 512, 513, 1000, 4097} {
		seed := rng.Bytes(rng.Pick(0, 1, 2, 7, 16, 24))
		o.Emit(fmt.Sprintf("!X gen %d %s", n, hlib.Tok(seed)), hlib.Tok(genMsg(seed, n)), true)
		o.Count("sizes/gen")
	}
	for _, n := range []int{65535, 65536, 65537, 1 << 17, 1<<20 + 1<<16} {
		seed := rng.Bytes(1 + rng.Intn(24))
		d := sha256.Sum256(genMsg(seed, n))
		o.Emit(fmt.Sprintf("!X gensha %d %s", n, hlib.Tok(seed)), hlib.Tok(d[:]), true)
		o.Count("sizes/gensha")
	}
	for i, n := range []int{0, 15, 16, 17, 300, 4096, 4111, 8209, 65553} {
		seed := rng.Bytes(1 + rng.Intn(24))
		msg := genMsg(seed, n)
		c := newCmac(rng, []int{0, 4, 5, 2}[i%4])
		h := newHmac(rng, []int{4, 1, 2, 3}[i%4], i%len(hashes))
		for _, in := range []macInst{c, h} {
			tag, err := in.m.ComputeMAC(msg)
			o.Emit("!"+in.compute+" "+genTok(seed, n), tagRes(tag, err), true)
			o.Emit("!"+in.compute+" "+hlib.Tok(msg), tagRes(tag, err), true)
			// the same message through the ordinary op of the main loop
			plain := "X cmac" + in.compute[len("X cmacgen"):]
			if in.compute[2] == 'h' {
				plain = "X hmac" + in.compute[len("X hmacgen"):]
			}
			o.Emit("!"+plain+" "+hlib.Tok(msg), tagRes(tag, err), true)
			o.Count("sizes/both-forms")
		}
	}
}

func largeSizes(o *hlib.Out, rng *hlib.Rng) {
	genEquivalence(o, rng)
	big, mid := bigGrid(), midGrid()
	rot := rng.Intn(1 << 16)
	sub := subGrid(rot)
	inSub := map[int]bool{}
	for _, l := range sub {
		inSub[l] = true
	}
	cmacPaths := []int{0, 1, 3, pathSubtle, pathInternal}
	hmacPaths := []int{0, 1, 3, pathSubtle}
	// ---------- AES-CMAC ----------
	for i, l := range append(append([]int(nil), mid...), big...) {
		if hlib.Thorough() {
			for _, p := range cmacPaths {
				sizeCase(o, rng, newCmac(rng, p), l, inSub[l])
			}
		} else {
			sizeCase(o, rng, newCmac(rng, cmacPaths[(i+rot)%len(cmacPaths)]), l, l%(1<<16) == 0 && l <= 1<<17)
		}
	}
	legacy := append(append([]int(nil), mid...), sub...)
	if hlib.Thorough() {
		legacy = append(append([]int(nil), mid...), big...)
	}
	for _, l := range legacy {
		sizeCase(o, rng, newCmac(rng, pathLegacy), l, l == 1<<17)
	}
	// ---------- HMAC ----------
	for i, l := range append(append([]int(nil), mid...), big...) {
		if hlib.Thorough() {
			for hi := range hashes {
				sizeCase(o, rng, newHmac(rng, hmacPaths[(i+hi+rot)%len(hmacPaths)], hi), l, inSub[l] && hi == i%len(hashes))
			}
		} else {
			sizeCase(o, rng, newHmac(rng, hmacPaths[(i+rot)%len(hmacPaths)], (i+rot/7)%len(hashes)), l, l%(1<<16) == 0 && l <= 1<<17)
		}
	}
	for i, l := range legacy {
		sizeCase(o, rng, newHmac(rng, pathLegacy, (i+rot/3)%len(hashes)), l, l == 1<<17)
	}
}
