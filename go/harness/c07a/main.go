//go:build verif

// Harness c07a: the real noncebased.Writer / noncebased.Reader state machines driven with a toy
// segment cipher (re-implemented identically in Lean, Driver/Stream.lean) over generated write
// partitions, read capacities, source chunkings, manipulations and I/O faults (property C07).
package main

import (
	"bytes"
	"encoding/binary"
	"errors"
	"fmt"
	"io"

	"github.com/tink-crypto/tink-go/v2/internal/verifharness/hlib"
	"github.com/tink-crypto/tink-go/v2/streamingaead/subtle/noncebased"
)

var errIO = errors.New("verif: injected I/O error")

func fnv32(b []byte) uint32 {
	h := uint32(2166136261)
	for _, x := range b {
		h = (h ^ uint32(x)) * 16777619
	}
	return h
}

type toy struct{}

func keystream(nonce []byte, n int) []byte {
	ks := make([]byte, n)
	for j := range ks {
		ks[j] = nonce[j%len(nonce)] + byte(j*7%256)
	}
	return ks
}

func (toy) EncryptSegment(segment, nonce []byte) ([]byte, error) {
	ks := keystream(nonce, len(segment))
	out := make([]byte, len(segment)+4)
	for i := range segment {
		out[i] = segment[i] ^ ks[i]
	}
	binary.BigEndian.PutUint32(out[len(segment):], fnv32(append(append([]byte{}, nonce...), segment...)))
	return out, nil
}

func (toy) DecryptSegment(segment, nonce []byte) ([]byte, error) {
	if len(segment) < 4 {
		return nil, errors.New("toy: too short")
	}
	body := segment[:len(segment)-4]
	ks := keystream(nonce, len(body))
	pt := make([]byte, len(body))
	for i := range body {
		pt[i] = body[i] ^ ks[i]
	}
	if binary.BigEndian.Uint32(segment[len(body):]) != fnv32(append(append([]byte{}, nonce...), pt...)) {
		return nil, errors.New("toy: bad tag")
	}
	return pt, nil
}

// sink records what is written and fails persistently from call index failFrom on.
type sink struct {
	buf      bytes.Buffer
	calls    int
	failFrom int // -1: never
}

func (s *sink) Write(p []byte) (int, error) {
	c := s.calls
	s.calls++
	if s.failFrom >= 0 && c >= s.failFrom {
		return 0, errIO
	}
	s.buf.Write(p)
	return len(p), nil
}

// source serves data with a chosen chunking behaviour; at the end it returns io.EOF or errIO.
type source struct {
	data     []byte
	pos      int
	mode     int
	rng      *hlib.Rng
	errAtEnd bool
	seg      int
}

func (s *source) Read(p []byte) (int, error) {
	if len(p) == 0 {
		return 0, nil
	}
	rem := len(s.data) - s.pos
	end := func() error {
		if s.errAtEnd {
			return errIO
		}
		return io.EOF
	}
	if rem == 0 {
		return 0, end()
	}
	n := len(p)
	switch s.mode {
	case 0: // one byte at a time
		n = 1
	case 1: // as much as asked
	case 2: // random short reads, sometimes (0, nil)
		n = s.rng.Intn(len(p) + 1)
	case 3: // segment sized
		n = s.seg
	case 4: // segment ± 1
		n = s.seg + s.rng.Intn(3) - 1
	}
	if n > len(p) {
		n = len(p)
	}
	if n > rem {
		n = rem
	}
	if n < 0 {
		n = 0
	}
	copy(p, s.data[s.pos:s.pos+n])
	s.pos += n
	if s.pos == len(s.data) && s.mode != 0 && s.rng.Chance(50) && n > 0 {
		return n, end() // data and end-of-stream together
	}
	return n, nil
}

func werr(err error) string {
	switch {
	case err == nil:
		return "ok"
	case errors.Is(err, errIO):
		return "io"
	case errors.Is(err, noncebased.ErrTooManySegments):
		return "toomany"
	case err.Error() == "write on closed writer":
		return "closed"
	}
	return "other:" + err.Error()
}

func main() {
	o := hlib.Open("C07")
	defer o.Close()
	rng := hlib.NewRng(*hlib.FlagSeed, "c07a")
	ncases := hlib.N(6000, 150000)
	for c := 0; c < ncases; c++ {
		o.Case()
		ptSeg := 1 + rng.Intn(40)
		if rng.Chance(10) {
			ptSeg = 1 + rng.Intn(3)
		}
		off := 0
		if rng.Chance(60) {
			off = rng.Intn(ptSeg)
		}
		nsz := 12
		preLen := 7
		if rng.Chance(15) {
			nsz = 5 + rng.Intn(12)
			preLen = nsz - 5 - rng.Intn(2)
			if rng.Chance(20) {
				preLen = nsz - rng.Intn(5) // invalid: too little room for counter+flag
			}
			if preLen < 0 {
				preLen = 0
			}
		}
		pre := rng.Bytes(preLen)
		first := ptSeg - off
		// plaintext length concentrated on the boundaries
		var n int
		switch rng.Intn(8) {
		case 0:
			n = 0
		case 1:
			n = 1
		case 2:
			n = first + rng.Intn(3) - 1
		case 3, 4:
			n = first + rng.Intn(5)*ptSeg + rng.Intn(3) - 1
		default:
			n = rng.Intn(5*ptSeg + 2)
		}
		if n < 0 {
			n = 0
		}
		pt := rng.Bytes(n)
		failFrom := -1
		if rng.Chance(20) {
			failFrom = rng.Intn(n/ptSeg + 3)
		}
		ff := "-"
		if failFrom >= 0 {
			ff = fmt.Sprint(failFrom)
		}
		snk := &sink{failFrom: failFrom}
		w, err := noncebased.NewWriter(noncebased.WriterParams{W: snk, SegmentEncrypter: toy{}, NonceSize: nsz,
			NoncePrefix: pre, PlaintextSegmentSize: ptSeg, FirstCiphertextSegmentOffset: off})
		hdr := fmt.Sprintf("%d %d %d %s", ptSeg, off, nsz, hlib.Tok(pre))
		if err != nil {
			o.Count("wnew/err")
			o.Emit("S wnew "+hdr+" "+ff, "err nonce", true)
			continue
		}
		o.Emit("S wnew "+hdr+" "+ff, "ok", false)
		// random write partition (zero-length writes allowed)
		sawErr := false
		rest := pt
		for len(rest) > 0 || rng.Chance(10) {
			k := 0
			if len(rest) > 0 {
				switch rng.Intn(5) {
				case 0:
					k = 0
				case 1:
					k = 1
				case 2:
					k = len(rest)
				default:
					k = rng.Intn(len(rest) + 1)
				}
			}
			chunk := rest[:k]
			nw, err := w.Write(chunk)
			if err != nil {
				sawErr = true
			}
			o.Emit("S write "+hlib.Tok(chunk), fmt.Sprintf("%d %s", nw, werr(err)), true)
			if err != nil {
				// retry once after a failure (the property only needs the error to surface), then stop
				if rng.Chance(50) {
					nw2, err2 := w.Write(chunk[nw:])
					o.Emit("S write "+hlib.Tok(chunk[nw:]), fmt.Sprintf("%d %s", nw2, werr(err2)), true)
				}
				break
			}
			rest = rest[k:]
		}
		err = w.Close()
		if err != nil {
			sawErr = true
		}
		o.Emit("S close", werr(err), true)
		if rng.Chance(30) {
			err2 := w.Close()
			o.Emit("S close", werr(err2), true)
			nw, err3 := w.Write([]byte{1})
			o.Emit("S write 01", fmt.Sprintf("%d %s", nw, werr(err3)), true)
		}
		o.Emit("S sink", hlib.Tok(snk.buf.Bytes()), true)
		// fault oracle: a sink that failed must have produced an error somewhere
		if failFrom >= 0 && snk.calls > failFrom && !sawErr {
			o.Violate("sink failed from call %d (calls=%d) but Write/Close all succeeded", failFrom, snk.calls)
		}
		if failFrom >= 0 || sawErr {
			o.Count("writer/faulted")
			continue
		}
		o.Count("writer/clean")
		ct := append([]byte(nil), snk.buf.Bytes()...)
		// !-line: the documented format computed by the specification function must equal the real output
		o.Emit("S encode "+hdr+" "+hlib.Tok(pt), hlib.Tok(ct), true)

		// ----- reading -----
		for rep := 0; rep < 2; rep++ {
			src := append([]byte(nil), ct...)
			kind := "honest"
			ctSeg := ptSeg + 4
			if rep == 1 {
				switch rng.Intn(8) {
				case 0: // truncate anywhere
					src = src[:rng.Intn(len(src)+1)]
					kind = "truncate"
					if len(src) == len(ct) {
						kind = "honest"
					}
				case 1: // drop a segment-sized window
					if len(src) > ctSeg {
						at := rng.Intn(len(src) - ctSeg + 1)
						if rng.Chance(60) {
							at = (ctSeg - off) + rng.Intn(1+(len(src)-ctSeg)/ctSeg)*ctSeg
							if at+ctSeg > len(src) {
								at = len(src) - ctSeg
							}
							if at < 0 {
								at = 0
							}
						}
						src = append(src[:at:at], src[at+ctSeg:]...)
						kind = "drop"
					}
				case 2: // duplicate a window
					if len(src) > 0 {
						at := rng.Intn(len(src))
						l := ctSeg
						if at+l > len(src) {
							l = len(src) - at
						}
						dup := append([]byte(nil), src[at:at+l]...)
						src = append(src[:at+l:at+l], append(dup, src[at+l:]...)...)
						kind = "dup"
					}
				case 3: // flip a bit
					if len(src) > 0 {
						src[rng.Intn(len(src))] ^= 1 << uint(rng.Intn(8))
						kind = "flip"
					}
				case 4: // append
					src = append(src, rng.Bytes(1+rng.Intn(ctSeg+2))...)
					kind = "append"
				case 5: // swap two segment windows
					if len(src) >= (ctSeg-off)+2*ctSeg {
						a := ctSeg - off
						b := a + ctSeg
						x := append([]byte(nil), src[a:a+ctSeg]...)
						copy(src[a:a+ctSeg], src[b:b+ctSeg])
						copy(src[b:b+ctSeg], x)
						if !bytes.Equal(src, ct) {
							kind = "swap"
						}
					}
				case 6: // empty
					src = nil
					kind = "truncate"
				default:
				}
			}
			errAtEnd := rep == 1 && rng.Chance(25)
			if errAtEnd && rng.Chance(60) {
				src = src[:rng.Intn(len(src)+1)]
			}
			rd := &source{data: src, mode: rng.Intn(5), rng: rng, errAtEnd: errAtEnd, seg: ctSeg}
			r, err := noncebased.NewReader(noncebased.ReaderParams{R: rd, SegmentDecrypter: toy{}, NonceSize: nsz,
				NoncePrefix: pre, CiphertextSegmentSize: ctSeg, FirstCiphertextSegmentOffset: off})
			if err != nil {
				panic(err)
			}
			o.Count("reader/" + kind)
			o.Emit(fmt.Sprintf("S rnew %s %s %s", hdr, hlib.B01(errAtEnd), hlib.Tok(src)), "ok", false)
			var got []byte
			after := 0
			sawE := false
			sawEOF := false
			for it := 0; it < 10*len(pt)+60 && after < 3; it++ {
				capn := 0
				switch rng.Intn(6) {
				case 0:
					capn = 0
				case 1:
					capn = 1
				case 2:
					capn = ptSeg
				case 3:
					capn = 4 * ptSeg
				default:
					capn = 1 + rng.Intn(2*ptSeg)
				}
				buf := make([]byte, capn)
				nr, err := r.Read(buf)
				var res string
				switch {
				case err == nil:
					res = "data " + hlib.Tok(buf[:nr])
					// bytes handed out after an error are outside the property (it speaks about the
					// bytes returned *before* the error); after a clean EOF nothing may follow.
					if !sawE && !sawEOF {
						got = append(got, buf[:nr]...)
					} else if nr > 0 && sawEOF && !sawE {
						o.Violate("Read returned %d data bytes after a clean EOF", nr)
					}
				case err == io.EOF:
					res = "eof"
					if nr != 0 {
						o.Violate("Read returned n=%d together with EOF", nr)
					}
					if !sawE {
						sawEOF = true
					}
				case errors.Is(err, errIO):
					res = "err io"
					sawE = true
				case errors.Is(err, noncebased.ErrTooManySegments):
					res = "err toomany"
					sawE = true
				default:
					res = "err auth"
					sawE = true
				}
				if sawE || sawEOF {
					after++
				}
				o.Emit(fmt.Sprintf("S read %d", capn), res, true)
			}
			// property oracles on the real reader
			if !bytes.HasPrefix(pt, got) {
				o.Violate("reader returned bytes that are not a prefix of the plaintext (kind=%s)", kind)
			}
			manipulated := !bytes.Equal(src, ct)
			if sawEOF && !sawE && (manipulated || errAtEnd) {
				o.Violate("clean EOF on a manipulated/failing stream (kind=%s errAtEnd=%v)", kind, errAtEnd)
			}
			if sawEOF && !sawE && !bytes.Equal(got, pt) {
				o.Violate("clean EOF before the whole plaintext was returned (kind=%s)", kind)
			}
			if !manipulated && !errAtEnd && sawE {
				o.Violate("error on an honest stream")
			}
		}
	}
}
