//go:build verif

// Harness c05: keyset-level ("wrapped") primitives of all ten factories against the Lean selection
// model (property C05). For generated keysets — mixed key types, prefix variants, statuses, primary
// position, special ids, duplicated key material, manager histories, serialisation round trips —
// every key (member, removed, foreign) produces an output with its own single-key primitive, the
// acceptance row over the member keys is MEASURED on the single-key primitives, and the model is
// asked what the keyset primitive must answer and which key id it must log. The real factories'
// decisions, the producing key's prefix and the fakemonitoring log are the implementation's answer.
package main

import (
	"bytes"
	"crypto/rand"
	"fmt"
	"strings"

	"github.com/tink-crypto/tink-go/v2/aead"
	"github.com/tink-crypto/tink-go/v2/daead"
	"github.com/tink-crypto/tink-go/v2/hybrid"
	"github.com/tink-crypto/tink-go/v2/insecurecleartextkeyset"
	"github.com/tink-crypto/tink-go/v2/internal/internalapi"
	"github.com/tink-crypto/tink-go/v2/internal/internalregistry"
	"github.com/tink-crypto/tink-go/v2/internal/verifharness/hlib"
	"github.com/tink-crypto/tink-go/v2/jwt"
	"github.com/tink-crypto/tink-go/v2/key"
	"github.com/tink-crypto/tink-go/v2/keyset"
	"github.com/tink-crypto/tink-go/v2/mac"
	"github.com/tink-crypto/tink-go/v2/prf"
	"github.com/tink-crypto/tink-go/v2/signature"
	"github.com/tink-crypto/tink-go/v2/streamingaead"
	"github.com/tink-crypto/tink-go/v2/testing/fakemonitoring"
	"github.com/tink-crypto/tink-go/v2/tink"
)

// ---------------------------------------------------------------- deterministic crypto/rand

// detTape replaces crypto/rand.Reader. The bytes of a Read depend only on (seed, epoch, length of
// the read, how many reads of that length happened in the epoch): the 0-or-1 byte that the Go
// standard library draws at random (randutil.MaybeReadByte) cannot shift anything else, so nonces,
// ECDSA signatures and random key ids are functions of the seed.
type detTape struct {
	seed   uint64
	epoch  uint64
	counts map[int]int
	force  []byte // put at the start of the next read of at least 12 bytes (a nonce / IV / salt)
}

func (t *detTape) Read(p []byte) (int, error) {
	idx := t.counts[len(p)]
	t.counts[len(p)] = idx + 1
	r := hlib.NewRng(t.seed, fmt.Sprintf("tape/%d/%d/%d", t.epoch, len(p), idx))
	copy(p, r.Bytes(len(p)))
	if len(t.force) > 0 && len(p) >= 12 {
		copy(p, t.force)
		t.force = nil
	}
	return len(p), nil
}

func (t *detTape) next() {
	t.force = nil
	t.epoch++
	t.counts = map[int]int{}
}

var tape *detTape

// vio records an oracle violation, at most three per kind of message (hlib keeps 20 in total: one
// noisy kind must not crowd out the others).
var vioSeen = map[string]int{}

func vio(o *hlib.Out, format string, a ...any) {
	vioSeen[format]++
	if vioSeen[format] <= 3 {
		o.Violate(format, a...)
	}
}

// ---------------------------------------------------------------- families

func families() []*family {
	pick := func(cfg keyset.Config, plain, with func() (any, error)) (any, error) {
		if cfg == nil {
			return plain()
		}
		return with()
	}
	fs := []*family{
		{name: "aead", cmd: "accept", nkinds: 7, stubKind: 6, hasLog: true, prodCtx: [2]string{"aead", "encrypt"}, accCtx: [2]string{"aead", "decrypt"},
			variants: func(k int) []int {
				switch k {
				case 5:
					return []int{vT, vR}
				case 6:
					return tclr
				}
				return tcr
			}, gen: genAEAD,
			wrap: func(priv, pub *keyset.Handle, cfg keyset.Config) (*wrapped, error) {
				p, err := pick(cfg, func() (any, error) { return aead.New(priv) }, func() (any, error) { return aead.NewWithConfig(priv, cfg) })
				if err != nil {
					return nil, err
				}
				a := p.(tink.AEAD)
				return &wrapped{produce: func(in probeIn) ([]byte, error) { return a.Encrypt(fresh(in.pt), fresh(in.x)) },
					accept: func(y []byte, in probeIn) ([]byte, error) { return a.Decrypt(fresh(y), fresh(in.x)) }}, nil
			}},
		{name: "daead", cmd: "accept", nkinds: 2, stubKind: 1, hasLog: true, prodCtx: [2]string{"daead", "encrypt"}, accCtx: [2]string{"daead", "decrypt"},
			variants: func(k int) []int {
				if k == 1 {
					return tclr
				}
				return tcr
			}, gen: genDAEAD,
			wrap: func(priv, pub *keyset.Handle, cfg keyset.Config) (*wrapped, error) {
				p, err := pick(cfg, func() (any, error) { return daead.New(priv) }, func() (any, error) { return daead.NewWithConfig(priv, cfg) })
				if err != nil {
					return nil, err
				}
				a := p.(tink.DeterministicAEAD)
				return &wrapped{produce: func(in probeIn) ([]byte, error) { return a.EncryptDeterministically(fresh(in.pt), fresh(in.x)) },
					accept: func(y []byte, in probeIn) ([]byte, error) { return a.DecryptDeterministically(fresh(y), fresh(in.x)) }}, nil
			}},
		{name: "mac", cmd: "mac", nkinds: 3, stubKind: 2, hasLog: true, prodCtx: [2]string{"mac", "compute"}, accCtx: [2]string{"mac", "verify"},
			variants: func(int) []int { return tclr }, gen: genMAC,
			wrap: func(priv, pub *keyset.Handle, cfg keyset.Config) (*wrapped, error) {
				p, err := pick(cfg, func() (any, error) { return mac.New(priv) }, func() (any, error) { return mac.NewWithConfig(priv, cfg) })
				if err != nil {
					return nil, err
				}
				a := p.(tink.MAC)
				return &wrapped{produce: func(in probeIn) ([]byte, error) { return a.ComputeMAC(fresh(in.x)) },
					accept: func(y []byte, in probeIn) ([]byte, error) { return nil, a.VerifyMAC(fresh(y), fresh(in.x)) }}, nil
			}},
		{name: "signature", cmd: "accept", nkinds: 7, stubKind: 6, public: true, hasLog: true,
			prodCtx: [2]string{"public_key_sign", "sign"}, accCtx: [2]string{"public_key_verify", "verify"},
			variants: func(int) []int { return tclr }, gen: genSig,
			wrap: func(priv, pub *keyset.Handle, cfg keyset.Config) (*wrapped, error) {
				ps, err := pick(cfg, func() (any, error) { return signature.NewSigner(priv) }, func() (any, error) { return signature.NewSignerWithConfig(priv, cfg) })
				if err != nil {
					return nil, err
				}
				pv, err := pick(cfg, func() (any, error) { return signature.NewVerifier(pub) }, func() (any, error) { return signature.NewVerifierWithConfig(pub, cfg) })
				if err != nil {
					return nil, err
				}
				s, v := ps.(tink.Signer), pv.(tink.Verifier)
				return &wrapped{produce: func(in probeIn) ([]byte, error) { return s.Sign(fresh(in.x)) },
					accept: func(y []byte, in probeIn) ([]byte, error) { return nil, v.Verify(fresh(y), fresh(in.x)) }}, nil
			}},
		{name: "hybrid", cmd: "accept", nkinds: 6, stubKind: 5, public: true, hasLog: true,
			prodCtx: [2]string{"hybrid_encrypt", "encrypt"}, accCtx: [2]string{"hybrid_decrypt", "decrypt"},
			variants: func(k int) []int {
				if k == 5 {
					return tclr
				}
				return tcr
			}, gen: genHybrid,
			wrap: func(priv, pub *keyset.Handle, cfg keyset.Config) (*wrapped, error) {
				pe, err := pick(cfg, func() (any, error) { return hybrid.NewHybridEncrypt(pub) }, func() (any, error) { return hybrid.NewHybridEncryptWithConfig(pub, cfg) })
				if err != nil {
					return nil, err
				}
				pd, err := pick(cfg, func() (any, error) { return hybrid.NewHybridDecrypt(priv) }, func() (any, error) { return hybrid.NewHybridDecryptWithConfig(priv, cfg) })
				if err != nil {
					return nil, err
				}
				e, d := pe.(tink.HybridEncrypt), pd.(tink.HybridDecrypt)
				return &wrapped{produce: func(in probeIn) ([]byte, error) { return e.Encrypt(fresh(in.pt), fresh(in.x)) },
					accept: func(y []byte, in probeIn) ([]byte, error) { return d.Decrypt(fresh(y), fresh(in.x)) }}, nil
			}},
		{name: "jwtmac", cmd: "tryall", nkinds: 3, stubKind: -1, hasLog: true, prodCtx: [2]string{"jwtmac", "compute"}, accCtx: [2]string{"jwtmac", "verify"},
			variants: func(int) []int { return []int{vT, vR, vK} }, gen: genJWTMAC,
			wrap: func(priv, pub *keyset.Handle, cfg keyset.Config) (*wrapped, error) {
				p, err := pick(cfg, func() (any, error) { return jwt.NewMAC(priv) }, func() (any, error) { return jwt.NewMACWithConfig(priv, cfg) })
				if err != nil {
					return nil, err
				}
				a := p.(jwt.MAC)
				return &wrapped{produce: func(in probeIn) ([]byte, error) {
					t, err := a.ComputeMACAndEncode(rawJWTOf(in))
					return []byte(t), err
				}, accept: func(y []byte, in probeIn) ([]byte, error) {
					v, err := a.VerifyMACAndDecode(string(y), jwtValidator)
					if err != nil {
						return nil, err
					}
					return issuerOf(v), nil
				}}, nil
			}},
		{name: "jwtsig", cmd: "tryall", nkinds: 2, stubKind: -1, public: true, hasLog: true, prodCtx: [2]string{"jwtsign", "sign"}, accCtx: [2]string{"jwtverify", "verify"},
			variants: func(int) []int { return []int{vT, vR, vK} }, gen: genJWTSig,
			wrap: func(priv, pub *keyset.Handle, cfg keyset.Config) (*wrapped, error) {
				ps, err := pick(cfg, func() (any, error) { return jwt.NewSigner(priv) }, func() (any, error) { return jwt.NewSignerWithConfig(priv, cfg) })
				if err != nil {
					return nil, err
				}
				pv, err := pick(cfg, func() (any, error) { return jwt.NewVerifier(pub) }, func() (any, error) { return jwt.NewVerifierWithConfig(pub, cfg) })
				if err != nil {
					return nil, err
				}
				s, v := ps.(jwt.Signer), pv.(jwt.Verifier)
				return &wrapped{produce: func(in probeIn) ([]byte, error) {
					t, err := s.SignAndEncode(rawJWTOf(in))
					return []byte(t), err
				}, accept: func(y []byte, in probeIn) ([]byte, error) {
					vj, err := v.VerifyAndDecode(string(y), jwtValidator)
					if err != nil {
						return nil, err
					}
					return issuerOf(vj), nil
				}}, nil
			}},
		{name: "streamingaead", cmd: "tryall", nkinds: 3, stubKind: 2, hasLog: false,
			variants: func(int) []int { return []int{vR} }, gen: genStream,
			wrap: func(priv, pub *keyset.Handle, cfg keyset.Config) (*wrapped, error) {
				p, err := pick(cfg, func() (any, error) { return streamingaead.New(priv) }, func() (any, error) { return streamingaead.NewWithConfig(priv, cfg) })
				if err != nil {
					return nil, err
				}
				a := p.(tink.StreamingAEAD)
				return &wrapped{produce: func(in probeIn) ([]byte, error) { return streamEncrypt(a, in) },
					accept: func(y []byte, in probeIn) ([]byte, error) { return streamDecrypt(a, y, in) }}, nil
			}},
		{name: "prf", cmd: "prf", nkinds: 4, stubKind: 3, hasLog: true, prodCtx: [2]string{"prf", "compute"}, accCtx: [2]string{"prf", "compute"},
			variants: func(int) []int { return []int{vR} }, gen: genPRF,
			wrap: func(priv, pub *keyset.Handle, cfg keyset.Config) (*wrapped, error) {
				var s *prf.Set
				var err error
				if cfg == nil {
					s, err = prf.NewPRFSet(priv)
				} else {
					s, err = prf.NewPRFSetWithConfig(priv, cfg)
				}
				if err != nil {
					return nil, err
				}
				return &wrapped{prfs: s}, nil
			}},
	}
	return fs
}

// ---------------------------------------------------------------- one keyset under test

type env struct {
	o       *hlib.Out
	rng     *hlib.Rng
	f       *family
	caseNo  int
	client  *fakemonitoring.Client
	members []*kspec
	removed []*kspec
	foreign []*kspec
	keyIdx  map[key.Key]int // key object held by the final handles → member index
	spy     *spyLog
	w1, w2  *wrapped
	w3      *wrapped // built from handles WITHOUT annotations (public one straight from Handle.Public()): must decide alike and log nothing
	nontriv bool
	build   string
	cur     *kspec // JWT families: the key whose single-key primitive made the token being probed
}

var annotations = map[string]string{"verif": "c05"}

var statusLetter = map[keyset.KeyStatus]string{keyset.Enabled: "E", keyset.Disabled: "D", keyset.Destroyed: "X"}

type idAlloc struct {
	rng  *hlib.Rng
	used map[uint32]bool
}

func (a *idAlloc) next() uint32 {
	id := a.rng.KeyID()
	for a.used[id] {
		id = uint32(a.rng.U64())
	}
	a.used[id] = true
	return id
}

func (e *env) mk(kind, variant int, id uint32, matSeed string, hdr []byte) *kspec {
	tape.next()
	if kind != e.f.stubKind {
		hdr = nil
	}
	s := e.f.gen(kind, variant, id, hlib.NewRng(*hlib.FlagSeed, matSeed), hdr)
	s.matSeed = matSeed
	return s
}

// prefixBytes: the 5-byte output prefix of a non-RAW key (TINK: 0x01, CRUNCHY/LEGACY: 0x00, then the id big-endian).
func prefixBytes(variant int, id uint32) []byte {
	b := []byte{0, byte(id >> 24), byte(id >> 16), byte(id >> 8), byte(id)}
	if variant == vT {
		b[0] = 1
	}
	return b
}

func pickOf(rng *hlib.Rng, xs []int) int { return xs[rng.Intn(len(xs))] }

func (e *env) pickKind() int {
	f := e.f
	if f.stubKind >= 0 && e.rng.Chance(18) {
		return f.stubKind
	}
	n := f.nkinds
	if f.stubKind >= 0 {
		n--
	}
	k := e.rng.Intn(n)
	if f.name == "signature" && k == 5 && e.rng.Chance(60) { // RSA: keep it rarer (slow to build)
		k = e.rng.Intn(5)
	}
	return k
}

func has(xs []int, v int) bool {
	for _, x := range xs {
		if x == v {
			return true
		}
	}
	return false
}

// pool draws n key specs with the deliberate structures: shared material under two ids, two RAW keys.
func (e *env) pool(n int, ids *idAlloc) []*kspec {
	rng, f := e.rng, e.f
	type sl struct {
		kind, variant int
		mat           string
		id            uint32
		hdr           []byte
	}
	sls := make([]sl, n)
	for i := range sls {
		k := e.pickKind()
		sls[i] = sl{kind: k, variant: pickOf(rng, f.variants(k)), mat: fmt.Sprintf("c05/%s/%d/%d", f.name, e.caseNo, i)}
	}
	if n >= 2 && rng.Chance(45) {
		j := 1 + rng.Intn(n-1)
		i := rng.Intn(j)
		sls[j].kind, sls[j].mat = sls[i].kind, sls[i].mat
		sls[j].variant = pickOf(rng, f.variants(sls[i].kind))
		e.o.Count(f.name + "/structure/same-material-two-ids")
	}
	if n >= 2 && rng.Chance(30) {
		c := 0
		for _, i := range []int{rng.Intn(n), rng.Intn(n)} {
			if has(f.variants(sls[i].kind), vR) {
				sls[i].variant = vR
				c++
			}
		}
		if c == 2 {
			e.o.Count(f.name + "/structure/two-raw-forced")
		}
	}
	for i := range sls {
		sls[i].id = ids.next()
	}
	// a stub key whose RAW primitive itself starts every output with the 5 prefix bytes of another
	// key of the pool: as a RAW member its outputs fall into that key's prefix bucket
	if f.cmd == "accept" || f.cmd == "mac" {
		for i := range sls {
			if sls[i].kind != f.stubKind || n < 2 || !rng.Chance(60) {
				continue
			}
			j := rng.Intn(n)
			if j == i || sls[j].variant == vR {
				continue
			}
			sls[i].hdr = prefixBytes(sls[j].variant, sls[j].id)
			if sls[i].variant == vR {
				e.o.Count(f.name + "/structure/raw-key-emitting-another-keys-prefix")
			}
		}
	}
	out := make([]*kspec, n)
	for i, s := range sls {
		out[i] = e.mk(s.kind, s.variant, s.id, s.mat, s.hdr)
	}
	return out
}

func addErr(err error) {
	if err != nil {
		panic(fmt.Sprintf("harness: manager rejected a valid operation: %v", err))
	}
}

// buildDirect adds the keys in order with fixed id, status and primary flag.
func (e *env) buildDirect(km *keyset.Manager, pool []*kspec) {
	rng := e.rng
	prim := rng.Intn(len(pool))
	late := rng.Chance(30) // promote with SetPrimary afterwards instead of AsPrimary
	for i, s := range pool {
		s.status = keyset.Enabled
		if i != prim {
			switch rng.Intn(10) {
			case 0, 1, 2:
				s.status = keyset.Disabled
			case 3, 4:
				s.status = keyset.Destroyed
			}
		}
		opts := []keyset.KeyOpts{keyset.WithFixedID(s.id), keyset.WithStatus(s.status)}
		if i == prim && !late {
			opts = append(opts, keyset.AsPrimary())
			s.primary = true
		}
		_, err := km.AddKeyWithOpts(s.key, internalapi.Token{}, opts...)
		addErr(err)
		e.members = append(e.members, s)
	}
	if late {
		addErr(km.SetPrimary(pool[prim].id))
		pool[prim].primary = true
	}
}

// buildHistory runs a random valid manager history (add / promote / disable / enable / delete).
func (e *env) buildHistory(km *keyset.Manager, pool []*kspec) (unused []*kspec) {
	rng := e.rng
	add := func(s *kspec, forcePrimary bool) {
		s.status = keyset.Enabled
		if !forcePrimary {
			switch rng.Intn(10) {
			case 0, 1:
				s.status = keyset.Disabled
			case 2, 3:
				s.status = keyset.Destroyed
			}
		}
		asPrim := forcePrimary || (s.status == keyset.Enabled && rng.Chance(25))
		_, needID := s.key.IDRequirement()
		if s.status == keyset.Enabled && !asPrim && rng.Chance(50) {
			// public API; keys without id requirement receive a random id (from the tape)
			id, err := km.AddKey(s.key)
			addErr(err)
			if needID && id != s.id {
				panic("AddKey ignored the id requirement")
			}
			s.id = id
			e.o.Count(e.f.name + "/history/AddKey")
		} else {
			opts := []keyset.KeyOpts{keyset.WithStatus(s.status)}
			if needID || rng.Chance(70) {
				opts = append(opts, keyset.WithFixedID(s.id))
			}
			if asPrim {
				opts = append(opts, keyset.AsPrimary())
			}
			id, err := km.AddKeyWithOpts(s.key, internalapi.Token{}, opts...)
			addErr(err)
			s.id = id
			e.o.Count(e.f.name + "/history/AddKeyWithOpts")
		}
		if asPrim {
			for _, m := range e.members {
				m.primary = false
			}
			s.primary = true
		}
		e.members = append(e.members, s)
	}
	add(pool[0], true)
	next := 1
	steps := 2*len(pool) + rng.Intn(6)
	sel := func(pred func(*kspec) bool) *kspec {
		var c []*kspec
		for _, m := range e.members {
			if pred(m) {
				c = append(c, m)
			}
		}
		if len(c) == 0 {
			return nil
		}
		return c[rng.Intn(len(c))]
	}
	for st := 0; st < steps; st++ {
		switch r := rng.Intn(10); {
		case r < 4:
			if next < len(pool) && len(e.members) < 6 {
				add(pool[next], false)
				next++
			}
		case r < 6:
			if m := sel(func(m *kspec) bool { return m.status == keyset.Enabled }); m != nil {
				addErr(km.SetPrimary(m.id))
				for _, x := range e.members {
					x.primary = false
				}
				m.primary = true
				e.o.Count(e.f.name + "/history/SetPrimary")
			}
		case r < 7:
			if m := sel(func(m *kspec) bool { return m.status == keyset.Enabled && !m.primary }); m != nil {
				addErr(km.Disable(m.id))
				m.status = keyset.Disabled
				e.o.Count(e.f.name + "/history/Disable")
			}
		case r < 8:
			if m := sel(func(m *kspec) bool { return m.status == keyset.Disabled }); m != nil {
				addErr(km.Enable(m.id))
				m.status = keyset.Enabled
				e.o.Count(e.f.name + "/history/Enable")
			}
		default:
			if m := sel(func(m *kspec) bool { return !m.primary }); m != nil && len(e.members) > 1 {
				addErr(km.Delete(m.id))
				for i, x := range e.members {
					if x == m {
						e.members = append(e.members[:i:i], e.members[i+1:]...)
						break
					}
				}
				e.removed = append(e.removed, m)
				e.o.Count(e.f.name + "/history/Delete")
			}
		}
	}
	return pool[next:]
}

func roundTrip(h *keyset.Handle, opts ...keyset.Option) *keyset.Handle {
	var buf bytes.Buffer
	if err := insecurecleartextkeyset.Write(h, keyset.NewBinaryWriter(&buf)); err != nil {
		panic(err)
	}
	return must(insecurecleartextkeyset.Read(keyset.NewBinaryReader(&buf), opts...))
}

// checkHandle compares the handle given to the factories with what the harness told the manager,
// and records which key object sits at which index.
func (e *env) checkHandle(h *keyset.Handle, what string, public bool) bool {
	if h.Len() != len(e.members) {
		vio(e.o, "%s handle has %d entries, the manager was given %d", what, h.Len(), len(e.members))
		return false
	}
	ok := true
	for i, m := range e.members {
		en := must(h.Entry(i))
		k := en.Key()
		if j, dup := e.keyIdx[k]; dup && j != i {
			panic("harness: two members share one key object")
		}
		e.keyIdx[k] = i
		if en.KeyID() != m.id || en.KeyStatus() != m.status || en.IsPrimary() != m.primary {
			vio(e.o, "%s handle entry %d is (id %d, %v, primary %v); the manager history gives (id %d, %v, primary %v)",
				what, i, en.KeyID(), en.KeyStatus(), en.IsPrimary(), m.id, m.status, m.primary)
			ok = false
		}
		if e.f.cmd == "accept" || e.f.cmd == "mac" {
			if !bytes.Equal(prefixOf(k), m.prefix) {
				vio(e.o, "%s handle entry %d has output prefix %x, the key was created with %x", what, i, prefixOf(k), m.prefix)
				ok = false
			}
		}
	}
	return ok
}

func (e *env) keysLine() string {
	parts := make([]string, len(e.members))
	for i, m := range e.members {
		parts[i] = fmt.Sprintf("%d:%s:%s:%s", m.id, statusLetter[m.status], hlib.B01(m.primary), hlib.Tok(m.prefix))
	}
	return "W keys " + strings.Join(parts, ";")
}

func (e *env) labels() string {
	ls := make([]string, len(e.members))
	for i, m := range e.members {
		ls[i] = m.label
	}
	return strings.Join(ls, ",")
}

func (e *env) primary() *kspec {
	for _, m := range e.members {
		if m.primary {
			return m
		}
	}
	return nil
}

// ---------------------------------------------------------------- monitored calls

type outcome struct {
	ok     bool
	out    []byte
	logged int64 // logged key id, -1 if none
}

// call runs one wrapped operation and reads what it logged.
func (e *env) call(ctx [2]string, what string, fn func() ([]byte, error)) outcome {
	ne, nf := len(e.client.Events()), len(e.client.Failures())
	var out []byte
	var err error
	if p := hlib.Recover(func() { out, err = fn() }); p != "" {
		vio(e.o, "%s %s PANICS: %s (keyset [%s])", e.f.name, what, p, strings.TrimPrefix(e.keysLine(), "W keys "))
		return outcome{ok: false, logged: -1}
	}
	evs, fls := e.client.Events()[ne:], e.client.Failures()[nf:]
	r := outcome{ok: err == nil, out: out, logged: -1}
	if !e.f.hasLog {
		if len(evs)+len(fls) != 0 {
			vio(e.o, "%s %s: unexpected monitoring records (%d events, %d failures)", e.f.name, what, len(evs), len(fls))
		}
		return r
	}
	if err == nil {
		if len(evs) != 1 || len(fls) != 0 {
			vio(e.o, "%s %s succeeded but logged %d events and %d failures (want exactly one event)", e.f.name, what, len(evs), len(fls))
		}
		if len(evs) >= 1 {
			ev := evs[len(evs)-1]
			r.logged = int64(ev.KeyID)
			if ev.Context.Primitive != ctx[0] || ev.Context.APIFunction != ctx[1] {
				vio(e.o, "%s %s logged under context %s/%s, want %s/%s", e.f.name, what, ev.Context.Primitive, ev.Context.APIFunction, ctx[0], ctx[1])
			}
			e.checkKeysetInfo(ev.Context.KeysetInfo.PrimaryKeyID, len(ev.Context.KeysetInfo.Entries))
		}
	} else {
		if len(fls) != 1 || len(evs) != 0 {
			vio(e.o, "%s %s failed but logged %d failures and %d events (want exactly one failure, no event)", e.f.name, what, len(fls), len(evs))
		}
		if len(fls) >= 1 {
			c := fls[len(fls)-1].Context
			if c.Primitive != ctx[0] || c.APIFunction != ctx[1] {
				vio(e.o, "%s %s failure logged under context %s/%s, want %s/%s", e.f.name, what, c.Primitive, c.APIFunction, ctx[0], ctx[1])
			}
		}
	}
	return r
}

func (e *env) checkKeysetInfo(primaryID uint32, nEntries int) {
	en := 0
	for _, m := range e.members {
		if m.status == keyset.Enabled {
			en++
		}
	}
	if p := e.primary(); p != nil && (primaryID != p.id || nEntries != en) {
		vio(e.o, "%s: monitoring keyset info names primary %d with %d entries, the keyset has primary %d and %d enabled keys", e.f.name, primaryID, nEntries, p.id, en)
	}
}

func (r outcome) res() string {
	if !r.ok {
		return "reject"
	}
	if r.logged < 0 {
		return "ok nolog"
	}
	return fmt.Sprintf("ok %d", r.logged)
}

// workerIdx: member index of the key whose primitive made the last spied call succeed.
func (e *env) workerIdx() int {
	k, ok := e.spy.worker()
	if !ok {
		return -1
	}
	i, ok := e.keyIdx[k]
	if !ok {
		return -2
	}
	return i
}

// ---------------------------------------------------------------- probes

func (e *env) probe(y []byte, in probeIn, src, mut string) {
	o, f := e.o, e.f
	bits := make([]byte, len(e.members))
	outs := make([][]byte, len(e.members))
	enabledAcc := false
	for i, m := range e.members {
		ok, out := m.accepts(y, in)
		bits[i] = '0'
		if ok {
			bits[i] = '1'
			outs[i] = out
			if m.status == keyset.Enabled {
				enabledAcc = true
			}
		}
	}
	byConstr, enabledByConstr := (f.name == "jwtmac" || f.name == "jwtsig") && mut == "genuine" && e.cur != nil, false
	if byConstr {
		enabledByConstr = e.jwtRowByConstruction(y, string(bits), src)
	}
	r1 := e.call(f.accCtx, "accept", func() ([]byte, error) { return e.w1.accept(y, in) })
	if byConstr && r1.ok != enabledByConstr {
		// independent of the measured row: which members have the producing key's material AND exactly its kid
		vio(o, "%s keyset primitive answers accept=%v on a genuine token of a %s key {%s}, but by construction (same material AND kid byte-equal) some ENABLED member accepts = %v; keyset %s; token %q",
			f.name, r1.ok, src, kidDesc(e.cur), enabledByConstr, e.describeJWTMembers(), y)
	}
	e.spy.reset()
	r2 := e.call(f.accCtx, "accept(spied)", func() ([]byte, error) { return e.w2.accept(y, in) })
	wi := e.workerIdx()
	if e.w3 != nil {
		ne, nf := len(e.client.Events()), len(e.client.Failures())
		var out3 []byte
		var err3 error
		if p := hlib.Recover(func() { out3, err3 = e.w3.accept(y, in) }); p != "" {
			err3 = fmt.Errorf("panic: %s", p)
		}
		if (err3 == nil) != r1.ok || !bytes.Equal(out3, r1.out) {
			vio(o, "%s: the primitive of the un-annotated handle decides differently (%v vs %v) on y=%s", f.name, err3 == nil, r1.ok, hlib.Tok(y))
		}
		if len(e.client.Events()) != ne || len(e.client.Failures()) != nf {
			vio(o, "%s: a primitive built from a handle without annotations logged to the monitoring client", f.name)
		}
		o.Count(f.name + "/unannotated-handle-probes")
	}

	var op string
	switch f.cmd {
	case "tryall":
		op = "W tryall " + string(bits)
	default:
		n := len(y)
		if n > 5 {
			n = 5
		}
		op = fmt.Sprintf("W %s %s %d %s", f.cmd, hlib.Tok(y[:n]), len(y), bits)
	}
	res := r1.res()
	if !f.hasLog && r1.ok {
		// streaming AEAD logs nothing: the working key is the one the recorder saw
		if wi >= 0 {
			res = fmt.Sprintf("ok %d", e.members[wi].id)
		} else {
			res = "ok unknown-worker"
		}
	}
	o.Emit(op, res, e.nontriv)
	verdict := "reject"
	if r1.ok {
		verdict = "accept"
	}
	o.Count(fmt.Sprintf("%s/src=%s/%s", f.name, src, verdict))
	o.Count(fmt.Sprintf("%s/mut=%s/%s", f.name, mut, verdict))

	desc := func() string {
		ys := hlib.Tok(y)
		if len(y) > 4096 {
			ys = fmt.Sprintf("#%d-bytes.%x…(members: %s; source kind %d)", len(y), y[:48], e.labels(), in.src)
		}
		return fmt.Sprintf("%s keyset [%s] probe %s/%s y=%s x=%s bits=%s", f.name, strings.TrimPrefix(e.keysLine(), "W keys "), src, mut, ys, hlib.Tok(in.x), bits)
	}
	// --- property oracles on the real code
	if r1.ok != r2.ok || (f.hasLog && r1.logged != r2.logged) || !bytes.Equal(r1.out, r2.out) {
		vio(o, "factory New and NewWithConfig(registry primitives) disagree: %v/%d vs %v/%d (%s)", r1.ok, r1.logged, r2.ok, r2.logged, desc())
	}
	if r1.ok && !enabledAcc {
		if src != "E" && src != "wrapped" {
			vio(o, "output of a %s key was accepted although no ENABLED key of the keyset accepts it (%s)", src, desc())
		} else {
			vio(o, "accepted although no ENABLED key of the keyset accepts it (%s)", desc())
		}
	}
	if f.cmd == "mac" && len(y) <= 5 && enabledAcc {
		// wrappedMAC's documented extra rule (in the model as macAccept): such a tag is refused
		o.Count("mac/tag<=5-bytes-valid-under-an-enabled-key/" + verdict)
	}
	if !r1.ok && enabledAcc && !(f.cmd == "mac" && len(y) <= 5) {
		vio(o, "rejected although an ENABLED key of the keyset accepts it (%s)", desc())
	}
	if r1.ok {
		if f.hasLog {
			hit := false
			for i, m := range e.members {
				if int64(m.id) == r1.logged && m.status == keyset.Enabled && bits[i] == '1' {
					hit = true
					if !bytes.Equal(outs[i], r1.out) {
						vio(o, "the result differs from what the logged key %d yields on its own (%s)", m.id, desc())
					}
				}
			}
			if !hit {
				vio(o, "logged key id %d is not an ENABLED key of the keyset that accepts the input (%s)", r1.logged, desc())
			}
		}
		if r2.ok {
			switch {
			case wi < 0:
				vio(o, "accepted, but no key's primitive reported a successful call (%s)", desc())
			case e.members[wi].status != keyset.Enabled:
				vio(o, "the call was served by the %v key %d (%s)", e.members[wi].status, e.members[wi].id, desc())
			case f.hasLog && int64(e.members[wi].id) != r2.logged:
				vio(o, "key %d did the work but key id %d was logged (%s)", e.members[wi].id, r2.logged, desc())
			case bits[wi] != '1':
				vio(o, "key %d served the call although its single-key primitive rejects the input (%s)", e.members[wi].id, desc())
			case !bytes.Equal(outs[wi], r2.out):
				vio(o, "the result differs from what the working key %d yields on its own (%s)", e.members[wi].id, desc())
			}
		}
	}
}

func flipBit(rng *hlib.Rng, y []byte) []byte {
	c := fresh(y)
	if len(c) == 0 {
		return c
	}
	lo := 5
	if len(c) <= lo {
		lo = 0
	}
	c[lo+rng.Intn(len(c)-lo)] ^= 1 << uint(rng.Intn(8))
	return c
}

// otherPrefix picks a member prefix different from p, preferring a member with c's material.
func (e *env) otherPrefix(c *kspec, p []byte) []byte {
	var same, any [][]byte
	for _, m := range e.members {
		if len(m.prefix) == 0 || bytes.Equal(m.prefix, p) || m == c {
			continue
		}
		any = append(any, m.prefix)
		if m.matSeed == c.matSeed && m.kind == c.kind {
			same = append(same, m.prefix)
		}
	}
	if len(same) > 0 && e.rng.Chance(75) {
		return same[e.rng.Intn(len(same))]
	}
	if len(any) > 0 {
		return any[e.rng.Intn(len(any))]
	}
	return nil
}

func (e *env) newIn() probeIn {
	if bigStream {
		const kib, mib = 1 << 10, 1 << 20
		n := e.rng.Pick(60*kib, 64*kib-100, 64*kib+32, 100*kib, 100*kib, mib-64, mib+128, mib+64*kib, mib+64*kib, 2*mib+512*kib)
		in := probeIn{pt: e.rng.Bytes(n), x: e.rng.Bytes(e.rng.Pick(0, 1, 12)), src: e.rng.Intn(3)}
		e.o.Count(fmt.Sprintf("streamingaead/big/plaintext=%dKiB", n/kib))
		e.o.Count(fmt.Sprintf("streamingaead/big/source=%d", in.src))
		return in
	}
	return probeIn{pt: e.rng.Bytes(e.rng.Pick(0, 1, 7, 16, 33, 70, 130)), x: e.rng.Bytes(e.rng.Pick(0, 1, 5, 12, 32))}
}

func (e *env) probeCandidate(c *kspec, src string, nmut int) {
	rng := e.rng
	in := e.newIn()
	tape.next()
	y, err := c.produce(in)
	if err != nil {
		panic(fmt.Sprintf("single-key %s (%s) cannot produce: %v", c.label, e.f.name, err))
	}
	e.cur = c
	e.probe(y, in, src, "genuine")
	e.cur = nil
	if e.f.name == "aead" && len(c.prefix) == 0 && rng.Chance(60) {
		// a RAW AEAD ciphertext starts with the random nonce: make that nonce start with a member's
		// 5 prefix bytes, so that the ciphertext of the RAW key sits in that member's prefix bucket
		if p := e.otherPrefix(c, nil); p != nil {
			tape.next()
			tape.force = fresh(p)
			y2, err := c.produce(in)
			if err != nil {
				panic(err)
			}
			if bytes.HasPrefix(y2, p) {
				e.probe(y2, in, src, "raw-nonce=member-prefix")
			} else {
				e.o.Count("aead/nonce-not-forced/" + c.label)
			}
		}
	}
	type mu struct {
		kind string
		y    []byte
	}
	var ms []mu
	if e.f.cmd == "accept" || e.f.cmd == "mac" {
		if len(c.prefix) > 0 && len(y) >= 5 {
			ms = append(ms, mu{"strip-prefix", y[5:]})
			if p := e.otherPrefix(c, c.prefix); p != nil {
				ms = append(ms, mu{"re-prefix", append(fresh(p), y[5:]...)})
			}
		}
		if len(c.prefix) == 0 {
			if p := e.otherPrefix(c, nil); p != nil {
				ms = append(ms, mu{"add-prefix", append(fresh(p), y...)})
			}
		}
	}
	k := rng.Intn(6)
	if k > len(y) {
		k = len(y)
	}
	ms = append(ms, mu{"truncate<=5", y[:k]}, mu{"bit-flip", flipBit(rng, y)})
	// draw nmut of them without replacement
	for i := 0; i < nmut && len(ms) > 0; i++ {
		j := rng.Intn(len(ms))
		e.probe(ms[j].y, in, src, ms[j].kind)
		ms = append(ms[:j], ms[j+1:]...)
	}
}

func (e *env) producerCheck() {
	o, f := e.o, e.f
	p := e.primary()
	in := e.newIn()
	tape.next()
	r1 := e.call(f.prodCtx, "produce", func() ([]byte, error) { return e.w1.produce(in) })
	e.spy.reset()
	tape.next()
	r2 := e.call(f.prodCtx, "produce(spied)", func() ([]byte, error) { return e.w2.produce(in) })
	wi := e.workerIdx()
	res := "fail"
	if r1.ok {
		pre := "-"
		if len(p.prefix) > 0 {
			n := len(r1.out)
			if n > 5 {
				n = 5
			}
			pre = hlib.Tok(r1.out[:n])
		}
		switch {
		case f.hasLog && r1.logged >= 0:
			res = fmt.Sprintf("ok %d %s", r1.logged, pre)
		case f.hasLog:
			res = "ok nolog " + pre
		case wi >= 0:
			res = fmt.Sprintf("ok %d %s", e.members[wi].id, pre)
		default:
			res = "ok unknown-worker " + pre
		}
	}
	o.Emit("W producer", res, e.nontriv)
	o.Count(f.name + "/producer/primary=" + vnames[p.variant] + "/" + map[bool]string{true: "legacy-adapter", false: "full"}[p.legacy])
	if !r1.ok || !r2.ok {
		vio(o, "%s keyset [%s]: the keyset primitive cannot produce", f.name, strings.TrimPrefix(e.keysLine(), "W keys "))
		return
	}
	for n, r := range []outcome{r1, r2} {
		if !bytes.HasPrefix(r.out, p.prefix) {
			vio(o, "%s keyset [%s]: produced output %s does not start with the primary key's prefix %x", f.name, strings.TrimPrefix(e.keysLine(), "W keys "), hlib.Tok(r.out), p.prefix)
		}
		ok, out := p.accepts(r.out, in)
		if !ok || !bytes.Equal(out, payloadOf(f, in)) {
			vio(o, "%s keyset [%s]: produced output %s is not valid under the primary key %d alone", f.name, strings.TrimPrefix(e.keysLine(), "W keys "), hlib.Tok(r.out), p.id)
		}
		if f.hasLog && r.logged != int64(p.id) {
			vio(o, "%s keyset [%s]: producing logged key id %d, the primary is %d", f.name, strings.TrimPrefix(e.keysLine(), "W keys "), r.logged, p.id)
		}
		if n == 1 && (wi < 0 || e.members[wi] != p) {
			vio(o, "%s keyset [%s]: the producing call was not served by the primary key's primitive (worker index %d)", f.name, strings.TrimPrefix(e.keysLine(), "W keys "), wi)
		}
	}
	// the keyset primitive must accept its own output (and log the primary or an equal key)
	e.cur = p
	e.probe(r1.out, in, "wrapped", "genuine")
	e.cur = nil
}

// payloadOf: what a successful acceptance returns for in.
func payloadOf(f *family, in probeIn) []byte {
	switch f.name {
	case "mac", "signature":
		return nil
	case "jwtmac", "jwtsig":
		return []byte(fmt.Sprintf("iss-%x", in.pt))
	}
	return in.pt
}

// ---------------------------------------------------------------- PRF sets

func (e *env) prfCheck() {
	o, f := e.o, e.f
	var implIDs []uint32
	for id := range e.w1.prfs.PRFs {
		implIDs = append(implIDs, id)
	}
	o.Emit("W prfids", fmt.Sprintf("%s | %d", hlib.U32List(hlib.SortedU32(implIDs)), e.w1.prfs.PrimaryID), e.nontriv)
	ks := strings.TrimPrefix(e.keysLine(), "W keys ")
	for n, w := range []*wrapped{e.w1, e.w2} {
		set := w.prfs
		if len(set.PRFs) != len(e.w1.prfs.PRFs) || set.PrimaryID != e.w1.prfs.PrimaryID {
			vio(o, "prf keyset [%s]: NewPRFSet and NewPRFSetWithConfig differ", ks)
		}
		for i, m := range e.members {
			p, present := set.PRFs[m.id]
			if present != (m.status == keyset.Enabled) {
				vio(o, "prf keyset [%s]: key %d is %v but present=%v in the PRF set", ks, m.id, m.status, present)
			}
			if !present {
				o.Count("prf/not-in-set/" + statusLetter[m.status])
				continue
			}
			in := e.rng.Bytes(e.rng.Pick(0, 1, 16, 40))
			want, err := m.prfOut(in, 16)
			if err != nil {
				panic(err)
			}
			e.spy.reset()
			r := e.call(f.prodCtx, "ComputePRF", func() ([]byte, error) { return p.ComputePRF(fresh(in), 16) })
			o.Count("prf/compute/" + m.label)
			if !r.ok || !bytes.Equal(r.out, want) {
				vio(o, "prf keyset [%s]: PRFs[%d] does not compute key %d's PRF", ks, m.id, m.id)
			}
			if r.ok && r.logged != int64(m.id) {
				vio(o, "prf keyset [%s]: PRFs[%d] logged key id %d", ks, m.id, r.logged)
			}
			if n == 1 && e.workerIdx() != i {
				vio(o, "prf keyset [%s]: PRFs[%d] was served by member index %d, not %d", ks, m.id, e.workerIdx(), i)
			}
		}
		p := e.primary()
		in := e.rng.Bytes(12)
		want, _ := p.prfOut(in, 13)
		r := e.call(f.prodCtx, "ComputePrimaryPRF", func() ([]byte, error) { return set.ComputePrimaryPRF(fresh(in), 13) })
		if !r.ok || !bytes.Equal(r.out, want) || r.logged != int64(p.id) {
			vio(o, "prf keyset [%s]: ComputePrimaryPRF is not the primary key %d's PRF (logged %d)", ks, p.id, r.logged)
		}
	}
	// outputs of removed / foreign keys are simply not reachable through the set: their ids are absent
	for _, c := range append(append([]*kspec{}, e.removed...), e.foreign...) {
		if _, present := e.w1.prfs.PRFs[c.id]; present {
			clash := false
			for _, m := range e.members {
				if m.id == c.id {
					clash = true
				}
			}
			if !clash {
				vio(o, "prf keyset [%s]: the set serves id %d of a %s key", ks, c.id, c.role)
			}
		}
		o.Count("prf/absent/" + c.role)
	}
}

// ---------------------------------------------------------------- one case

func runCase(o *hlib.Out, rng *hlib.Rng, f *family, caseNo int) {
	e := &env{o: o, rng: rng, f: f, caseNo: caseNo, keyIdx: map[key.Key]int{}, spy: &spyLog{}}
	tape.next()
	internalregistry.ClearMonitoringClient()
	e.client = fakemonitoring.NewClient("c05")
	if err := internalregistry.RegisterMonitoringClient(e.client); err != nil {
		panic(err)
	}
	defer internalregistry.ClearMonitoringClient()

	ids := &idAlloc{rng: rng, used: map[uint32]bool{}}
	size := []int{1, 2, 2, 2, 3, 3, 3, 4, 4, 5, 5, 6}[rng.Intn(12)]
	// every 16th streaming keyset: large segments and 60 KiB .. 2.5 MiB plaintexts (2-4 keys)
	bigStream = f.name == "streamingaead" && caseNo%16 == 3
	if bigStream {
		size = 2 + size%3
		o.Count("streamingaead/big/keysets")
	}
	km := keyset.NewManager()
	var unused []*kspec
	if rng.Chance(45) {
		e.build = "direct"
		e.buildDirect(km, e.pool(size, ids))
	} else {
		e.build = "history"
		unused = e.buildHistory(km, e.pool(size+rng.Intn(4), ids))
	}
	for _, r := range e.removed {
		r.role = "removed"
	}
	// foreign keys: never in this keyset
	for i, u := range unused {
		if i < 2 {
			u.role = "foreign"
			e.foreign = append(e.foreign, u)
		}
	}
	if len(e.foreign) == 0 || rng.Chance(40) {
		k := e.pickKind()
		s := e.mk(k, pickOf(rng, f.variants(k)), ids.next(), fmt.Sprintf("c05/%s/%d/f", f.name, caseNo), nil)
		s.role = "foreign"
		e.foreign = append(e.foreign, s)
	}
	// a foreign key with the SAME id (hence the same prefix bytes / kid) as a member but other material;
	// CRUNCHY↔LEGACY where the key type has both: identical prefix bytes under a different variant
	if m := e.members[rng.Intn(len(e.members))]; m.variant != vR && m.variant != vK || f.cmd == "tryall" || f.cmd == "prf" {
		v := m.variant
		if vs := f.variants(m.kind); v == vC && has(vs, vL) {
			v = vL
		} else if v == vL {
			v = vC
		}
		k := m.kind
		if rng.Chance(40) {
			k = e.pickKind()
			if !has(f.variants(k), v) {
				k = m.kind
			}
		}
		s := e.mk(k, v, m.id, fmt.Sprintf("c05/%s/%d/clash", f.name, caseNo), nil)
		s.role = "foreign-same-id"
		e.foreign = append(e.foreign, s)
		// such a key cannot become a member: ids are unique within a keyset (manager and keyset validation)
		_, needID := s.key.IDRequirement()
		opts := []keyset.KeyOpts{}
		if !needID {
			opts = append(opts, keyset.WithFixedID(m.id))
		}
		if _, err := km.AddKeyWithOpts(s.key, internalapi.Token{}, opts...); err == nil {
			vio(o, "%s: the manager accepted a second key with id %d", f.name, m.id)
			return
		}
		o.Count(f.name + "/structure/same-id-second-member-refused/" + vnames[m.variant] + "+" + vnames[v])
	}
	// a foreign key with a member's MATERIAL under an id that is not in the keyset
	if rng.Chance(35) {
		m := e.members[rng.Intn(len(e.members))]
		if !(f.name == "signature" && m.kind == 5) {
			s := e.mk(m.kind, m.variant, ids.next(), m.matSeed, m.hdr)
			s.role = "foreign-same-material"
			e.foreign = append(e.foreign, s)
		}
	}

	// JWT: a foreign key with a member's MATERIAL whose kid is a near miss of the member's kid (letter case,
	// trailing white space / NUL, base64 padding, prefix); drawn from a stream of its own
	if f.name == "jwtmac" || f.name == "jwtsig" {
		if s := e.kidVariantForeign(hlib.NewRng(*hlib.FlagSeed, fmt.Sprintf("c05/kidvariant/%d", caseNo)), ids); s != nil {
			s.role = "foreign-kid-variant"
			e.foreign = append(e.foreign, s)
		}
	}

	addErr(km.SetAnnotations(annotations))
	priv := must(km.Handle())
	if rng.Chance(30) {
		e.build += "+serialised"
		priv = roundTrip(priv, keyset.WithAnnotations(annotations))
	}
	var pub *keyset.Handle
	if f.public {
		p0 := must(priv.Public()) // carries no annotations: re-annotate it the two supported ways
		if rng.Bool() {
			pm := keyset.NewManagerFromHandle(p0)
			addErr(pm.SetAnnotations(annotations))
			pub = must(pm.Handle())
		} else {
			pub = roundTrip(p0, keyset.WithAnnotations(annotations))
		}
	}
	okH := e.checkHandle(priv, "private/symmetric", false)
	if pub != nil {
		okH = e.checkHandle(pub, "public", true) && okH
	}
	e.nontriv = len(e.members) >= 2
	o.Count(f.name + "/keysets")
	o.Count(fmt.Sprintf("%s/size=%d", f.name, len(e.members)))
	o.Count(f.name + "/build=" + e.build)
	nraw := 0
	for i, m := range e.members {
		o.Count(fmt.Sprintf("%s/key/%s", f.name, m.label))
		o.Count(fmt.Sprintf("%s/variant=%s/%s", f.name, vnames[m.variant], statusLetter[m.status]))
		if m.primary {
			o.Count(fmt.Sprintf("%s/primary-at=%d", f.name, i))
		}
		if m.id == 0 || m.id == 0xFFFFFFFF {
			o.Count(fmt.Sprintf("%s/id=%d", f.name, m.id))
		}
		if len(m.prefix) == 0 && (f.cmd == "accept" || f.cmd == "mac") {
			nraw++
		}
	}
	if nraw >= 2 {
		o.Count(f.name + "/structure/two-or-more-raw")
	}
	o.Emit(e.keysLine(), "ok", e.nontriv)
	if !okH {
		return
	}

	w1, err := f.wrap(priv, pub, nil)
	if err != nil {
		vio(o, "%s keyset [%s]: the factory refuses a valid keyset: %v", f.name, strings.TrimPrefix(e.keysLine(), "W keys "), err)
		return
	}
	cfg := &spyCfg{fam: f.name, log: e.spy}
	w2, err := f.wrap(priv, pub, cfg)
	if err != nil {
		vio(o, "%s keyset [%s]: the WithConfig factory refuses a valid keyset: %v", f.name, strings.TrimPrefix(e.keysLine(), "W keys "), err)
		return
	}
	e.w1, e.w2 = w1, w2
	if rng.Chance(50) {
		// the same keyset without annotations; the public handle exactly as Handle.Public() returns it
		addErr(km.SetAnnotations(nil))
		privU := must(km.Handle())
		var pubU *keyset.Handle
		if f.public {
			pubU = must(privU.Public())
		}
		w3, err := f.wrap(privU, pubU, nil)
		if err != nil {
			vio(o, "%s keyset [%s]: the factory refuses the un-annotated handle: %v", f.name, strings.TrimPrefix(e.keysLine(), "W keys "), err)
			return
		}
		e.w3 = w3
	}
	if cfg.nLegacy > 0 {
		o.Count(f.name + "/keysets-with-legacy-adapter")
	}
	if f.cmd == "prf" {
		e.prfCheck()
		return
	}
	e.producerCheck()
	nmut := 2
	for _, m := range e.members {
		e.probeCandidate(m, statusLetter[m.status], nmut)
	}
	for _, c := range e.removed {
		e.probeCandidate(c, c.role, nmut)
	}
	for _, c := range e.foreign {
		e.probeCandidate(c, c.role, nmut)
	}
}

func main() {
	o := hlib.Open("C05")
	defer o.Close()
	registerStubs()
	tape = &detTape{seed: *hlib.FlagSeed, counts: map[int]int{}}
	rand.Reader = tape
	quick := map[string]int{"aead": 300, "daead": 160, "mac": 300, "signature": 200, "hybrid": 160, "jwtmac": 160, "jwtsig": 100, "streamingaead": 200, "prf": 160}
	fams := families()
	caseNo := 0
	for _, f := range fams {
		rng := hlib.NewRng(*hlib.FlagSeed, "c05/"+f.name)
		n := hlib.N(quick[f.name], 20*quick[f.name])
		if *hlib.FlagMode == "kidtwins" { // by hand: only the last section
			n = 0
		}
		for c := 0; c < n; c++ {
			caseNo++
			o.Case()
			runCase(o, rng, f, caseNo)
		}
	}
	// twin keys (same material) whose kids differ only in letter case / Unicode folding / white space / …,
	// judged by an acceptance row computed independently of the jwt package (kidtwins.go)
	runKidTwins(o, fams, &caseNo)
}
