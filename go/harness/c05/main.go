//go:build verif

// placeholder: harness c05 is being written
package main

import "github.com/tink-crypto/tink-go/v2/internal/verifharness/hlib"

func main() {
	o := hlib.Open("c05")
	defer o.Close()
	o.Emit("W keys 9:E:1:-", "ok", true)
	o.Emit("W producer", "ok 9 -", true)
}
