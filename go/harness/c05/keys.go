//go:build verif

package main

// Key generation per primitive family. Every key is built from explicit material drawn from a
// named stream, so that the same material can deliberately be placed under two ids / variants.
// Each key carries its SINGLE-KEY full primitive (from primitiveregistry.Primitive — the per-key
// constructors, not the keyset factories) used to produce outputs and to measure acceptance.

import (
	"bytes"
	"crypto/ecdh"
	"encoding/base64"
	"fmt"
	"io"
	"slices"

	"github.com/tink-crypto/tink-go/v2/aead/aesctrhmac"
	"github.com/tink-crypto/tink-go/v2/aead/aesgcm"
	"github.com/tink-crypto/tink-go/v2/aead/aesgcmsiv"
	"github.com/tink-crypto/tink-go/v2/aead/chacha20poly1305"
	"github.com/tink-crypto/tink-go/v2/aead/xaesgcm"
	"github.com/tink-crypto/tink-go/v2/aead/xchacha20poly1305"
	"github.com/tink-crypto/tink-go/v2/daead/aessiv"
	"github.com/tink-crypto/tink-go/v2/hybrid/ecies"
	"github.com/tink-crypto/tink-go/v2/hybrid/hpke"
	"github.com/tink-crypto/tink-go/v2/internal/primitiveregistry"
	"github.com/tink-crypto/tink-go/v2/internal/verifharness/hlib"
	"github.com/tink-crypto/tink-go/v2/jwt"
	"github.com/tink-crypto/tink-go/v2/jwt/jwtecdsa"
	"github.com/tink-crypto/tink-go/v2/jwt/jwthmac"
	"github.com/tink-crypto/tink-go/v2/key"
	"github.com/tink-crypto/tink-go/v2/keyset"
	"github.com/tink-crypto/tink-go/v2/mac/aescmac"
	"github.com/tink-crypto/tink-go/v2/mac/hmac"
	"github.com/tink-crypto/tink-go/v2/prf"
	"github.com/tink-crypto/tink-go/v2/prf/aescmacprf"
	"github.com/tink-crypto/tink-go/v2/prf/hkdfprf"
	"github.com/tink-crypto/tink-go/v2/prf/hmacprf"
	tinkpb "github.com/tink-crypto/tink-go/v2/proto/tink_go_proto"
	"github.com/tink-crypto/tink-go/v2/signature/ecdsa"
	"github.com/tink-crypto/tink-go/v2/signature/ed25519"
	"github.com/tink-crypto/tink-go/v2/signature/rsassapkcs1"
	streamctr "github.com/tink-crypto/tink-go/v2/streamingaead/aesctrhmac"
	streamgcm "github.com/tink-crypto/tink-go/v2/streamingaead/aesgcmhkdf"
	"github.com/tink-crypto/tink-go/v2/tink"
)

// variant codes
const (
	vT = 0 // TINK
	vC = 1 // CRUNCHY
	vL = 2 // LEGACY
	vR = 3 // RAW / no prefix
	vK = 4 // JWT only: custom kid (no id requirement)
)

var vnames = []string{"T", "C", "L", "R", "K"}

// probeIn is the input of one probe: pt is the payload (plaintext / JWT issuer), x the data the
// output is bound to (associated data, MAC/signature message, hybrid context info).
type probeIn struct {
	pt, x []byte
	src   int // streaming AEAD: kind of ciphertext source (0: bytes.Reader, 1: 4 KiB reads, 2: last bytes together with io.EOF)
}

// bigStream: the streaming-AEAD case under construction uses large segments (4 KiB, 64 KiB + 1, 1 MiB as in the
// *1MB templates, 2 MiB) and plaintexts of 60 KiB .. 2.5 MiB: a trial with a non-matching key consumes a whole
// segment of ITS size, which the keyset-level reader has to replay for the next key.
var bigStream bool

type kspec struct {
	label   string
	kind    int
	variant int
	matSeed string
	legacy  bool   // custom type URL → legacy adapter path
	hdr     []byte // stub keys: bytes the RAW primitive itself puts in front of its outputs
	id      uint32
	key     key.Key // symmetric or private key
	prefix  []byte

	produce func(in probeIn) ([]byte, error)
	// accepts: does this key's full single-key primitive accept y for in.x; second value is the
	// recovered payload where the primitive has one.
	accepts func(y []byte, in probeIn) (bool, []byte)
	prfOut  func(in []byte, n uint32) ([]byte, error)

	status  keyset.KeyStatus
	primary bool
	role    string

	// JWT keys of the near-identical-kid section (kidtwins.go): the material with its jwt-independent
	// verifier, and the custom kid of a vK key
	jm     *jmat
	custom string
}

func must[T any](v T, err error) T {
	if err != nil {
		panic(err)
	}
	return v
}

func prim(k key.Key) any {
	p, err := primitiveregistry.Primitive(k)
	if err != nil {
		panic(fmt.Sprintf("no single-key primitive for %T: %v", k, err))
	}
	return p
}

func pubOf(k key.Key) key.Key {
	pk, ok := k.(interface{ PublicKey() (key.Key, error) })
	if !ok {
		panic(fmt.Sprintf("%T is not a private key", k))
	}
	return must(pk.PublicKey())
}

func prefixOf(k key.Key) []byte {
	if p, ok := k.(interface{ OutputPrefix() []byte }); ok {
		return p.OutputPrefix()
	}
	return nil
}

// fresh returns a copy with len == cap (the LEGACY MAC adapter's append issue belongs to another
// check, and no call may be influenced by an earlier one through shared backing arrays).
func fresh(b []byte) []byte {
	c := make([]byte, len(b))
	copy(c, b)
	return c[:len(c):len(c)]
}

func withZero(b []byte) []byte {
	c := make([]byte, len(b)+1)
	copy(c, b)
	return c
}

func idFor(variant int, id uint32) uint32 {
	if variant == vR || variant == vK {
		return 0
	}
	return id
}

type family struct {
	name     string
	cmd      string // accept | mac | tryall | prf
	nkinds   int
	stubKind int // kind index of the custom-type-URL key, -1 if none
	public   bool
	hasLog   bool
	// monitoring context names: primitive / api function, for produce and accept
	prodCtx, accCtx [2]string
	variants        func(kind int) []int
	gen             func(kind, variant int, id uint32, mat *hlib.Rng, hdr []byte) *kspec
	// wrap builds the keyset-level primitive; cfg == nil means the plain factory function.
	wrap func(priv, pub *keyset.Handle, cfg keyset.Config) (*wrapped, error)
}

type wrapped struct {
	produce func(in probeIn) ([]byte, error)
	accept  func(y []byte, in probeIn) ([]byte, error)
	prfs    *prf.Set
}

var tcr = []int{vT, vC, vR}
var tclr = []int{vT, vC, vL, vR}

// ---------------------------------------------------------------- AEAD

func bindAEAD(s *kspec) *kspec {
	a := prim(s.key).(tink.AEAD)
	s.produce = func(in probeIn) ([]byte, error) { return a.Encrypt(fresh(in.pt), fresh(in.x)) }
	s.accepts = func(y []byte, in probeIn) (bool, []byte) {
		pt, err := a.Decrypt(fresh(y), fresh(in.x))
		return err == nil, pt
	}
	return s
}

func genAEAD(kind, v int, id uint32, m *hlib.Rng, hdr []byte) *kspec {
	kid := idFor(v, id)
	s := &kspec{kind: kind, variant: v, id: id, hdr: hdr}
	switch kind {
	case 0:
		s.label = "aesgcm"
		kb := m.Bytes(m.Pick(16, 32))
		ps := must(aesgcm.NewParameters(aesgcm.ParametersOpts{KeySizeInBytes: len(kb), IVSizeInBytes: 12, TagSizeInBytes: 16,
			Variant: map[int]aesgcm.Variant{vT: aesgcm.VariantTink, vC: aesgcm.VariantCrunchy, vR: aesgcm.VariantNoPrefix}[v]}))
		s.key = must(aesgcm.NewKey(hlib.Secret(kb), kid, ps))
	case 1:
		s.label = "aesctrhmac"
		ak, hk := m.Bytes(m.Pick(16, 32)), m.Bytes(32)
		ps := must(aesctrhmac.NewParameters(aesctrhmac.ParametersOpts{AESKeySizeInBytes: len(ak), HMACKeySizeInBytes: 32, IVSizeInBytes: 16,
			TagSizeInBytes: m.Pick(16, 32), HashType: aesctrhmac.SHA256,
			Variant: map[int]aesctrhmac.Variant{vT: aesctrhmac.VariantTink, vC: aesctrhmac.VariantCrunchy, vR: aesctrhmac.VariantNoPrefix}[v]}))
		s.key = must(aesctrhmac.NewKey(aesctrhmac.KeyOpts{AESKeyBytes: hlib.Secret(ak), HMACKeyBytes: hlib.Secret(hk), IDRequirement: kid, Parameters: ps}))
	case 2:
		s.label = "aesgcmsiv"
		kb := m.Bytes(m.Pick(16, 32))
		ps := must(aesgcmsiv.NewParameters(len(kb), map[int]aesgcmsiv.Variant{vT: aesgcmsiv.VariantTink, vC: aesgcmsiv.VariantCrunchy, vR: aesgcmsiv.VariantNoPrefix}[v]))
		s.key = must(aesgcmsiv.NewKey(hlib.Secret(kb), kid, ps))
	case 3:
		s.label = "chacha20poly1305"
		ps := must(chacha20poly1305.NewParameters(map[int]chacha20poly1305.Variant{vT: chacha20poly1305.VariantTink, vC: chacha20poly1305.VariantCrunchy, vR: chacha20poly1305.VariantNoPrefix}[v]))
		s.key = must(chacha20poly1305.NewKey(hlib.Secret(m.Bytes(32)), kid, ps))
	case 4:
		s.label = "xchacha20poly1305"
		ps := must(xchacha20poly1305.NewParameters(map[int]xchacha20poly1305.Variant{vT: xchacha20poly1305.VariantTink, vC: xchacha20poly1305.VariantCrunchy, vR: xchacha20poly1305.VariantNoPrefix}[v]))
		s.key = must(xchacha20poly1305.NewKey(hlib.Secret(m.Bytes(32)), kid, ps))
	case 5:
		s.label = "xaesgcm"
		ps := must(xaesgcm.NewParameters(map[int]xaesgcm.Variant{vT: xaesgcm.VariantTink, vR: xaesgcm.VariantNoPrefix}[v], 8+m.Intn(5)))
		s.key = must(xaesgcm.NewKey(hlib.Secret(m.Bytes(32)), kid, ps))
	default:
		s.label = "legacy-aesgcm"
		s.legacy = true
		val := encVal(s.hdr, m.Bytes(16))
		s.key = stubKey(urlAEAD, val, tinkpb.KeyData_SYMMETRIC, v, id)
		raw := must(rawAEAD(val))
		pre := prefixOf(s.key)
		s.prefix = pre
		s.produce = func(in probeIn) ([]byte, error) {
			ct, err := raw.Encrypt(fresh(in.pt), fresh(in.x))
			return slices.Concat(pre, ct), err
		}
		s.accepts = func(y []byte, in probeIn) (bool, []byte) {
			if !bytes.HasPrefix(y, pre) {
				return false, nil
			}
			pt, err := raw.Decrypt(fresh(y[len(pre):]), fresh(in.x))
			return err == nil, pt
		}
		return s
	}
	s.prefix = prefixOf(s.key)
	return bindAEAD(s)
}

// ---------------------------------------------------------------- DAEAD

func genDAEAD(kind, v int, id uint32, m *hlib.Rng, hdr []byte) *kspec {
	s := &kspec{kind: kind, variant: v, id: id, hdr: hdr}
	if kind == 0 {
		s.label = "aessiv"
		ps := must(aessiv.NewParameters(64, map[int]aessiv.Variant{vT: aessiv.VariantTink, vC: aessiv.VariantCrunchy, vR: aessiv.VariantNoPrefix}[v]))
		s.key = must(aessiv.NewKey(hlib.Secret(m.Bytes(64)), idFor(v, id), ps))
		s.prefix = prefixOf(s.key)
		a := prim(s.key).(tink.DeterministicAEAD)
		s.produce = func(in probeIn) ([]byte, error) { return a.EncryptDeterministically(fresh(in.pt), fresh(in.x)) }
		s.accepts = func(y []byte, in probeIn) (bool, []byte) {
			pt, err := a.DecryptDeterministically(fresh(y), fresh(in.x))
			return err == nil, pt
		}
		return s
	}
	s.label = "legacy-aessiv"
	s.legacy = true
	val := encVal(s.hdr, m.Bytes(64))
	s.key = stubKey(urlDAEAD, val, tinkpb.KeyData_SYMMETRIC, v, id)
	raw := must(rawDAEAD(val))
	pre := prefixOf(s.key)
	s.prefix = pre
	s.produce = func(in probeIn) ([]byte, error) {
		ct, err := raw.EncryptDeterministically(fresh(in.pt), fresh(in.x))
		return slices.Concat(pre, ct), err
	}
	s.accepts = func(y []byte, in probeIn) (bool, []byte) {
		if !bytes.HasPrefix(y, pre) {
			return false, nil
		}
		pt, err := raw.DecryptDeterministically(fresh(y[len(pre):]), fresh(in.x))
		return err == nil, pt
	}
	return s
}

// ---------------------------------------------------------------- MAC

func genMAC(kind, v int, id uint32, m *hlib.Rng, hdr []byte) *kspec {
	s := &kspec{kind: kind, variant: v, id: id, hdr: hdr}
	kid := idFor(v, id)
	switch kind {
	case 0:
		s.label = "hmac"
		ht := []hmac.HashType{hmac.SHA256, hmac.SHA512, hmac.SHA1}[m.Intn(3)]
		kb := m.Bytes(m.Pick(16, 32, 64))
		ps := must(hmac.NewParameters(hmac.ParametersOpts{KeySizeInBytes: len(kb), TagSizeInBytes: m.Pick(10, 16, 20), HashType: ht,
			Variant: map[int]hmac.Variant{vT: hmac.VariantTink, vC: hmac.VariantCrunchy, vL: hmac.VariantLegacy, vR: hmac.VariantNoPrefix}[v]}))
		s.key = must(hmac.NewKey(hlib.Secret(kb), ps, kid))
	case 1:
		s.label = "aescmac"
		ps := must(aescmac.NewParameters(aescmac.ParametersOpts{KeySizeInBytes: 32, TagSizeInBytes: m.Pick(10, 16),
			Variant: map[int]aescmac.Variant{vT: aescmac.VariantTink, vC: aescmac.VariantCrunchy, vL: aescmac.VariantLegacy, vR: aescmac.VariantNoPrefix}[v]}))
		s.key = must(aescmac.NewKey(hlib.Secret(m.Bytes(32)), ps, kid))
	default:
		s.label = "legacy-hmac"
		s.legacy = true
		tagLen := m.Pick(16, 16, 16, 16, 16, 16, 4, 5, 6)
		if tagLen != 16 {
			s.label = fmt.Sprintf("legacy-hmac-tag%d", tagLen)
		}
		val := encVal(s.hdr, append([]byte{byte(tagLen)}, m.Bytes(32)...))
		s.key = stubKey(urlMAC, val, tinkpb.KeyData_SYMMETRIC, v, id)
		raw := must(rawMAC(val))
		pre := prefixOf(s.key)
		s.prefix = pre
		data := func(x []byte) []byte {
			if v == vL {
				return withZero(x)
			}
			return fresh(x)
		}
		s.produce = func(in probeIn) ([]byte, error) {
			t, err := raw.ComputeMAC(data(in.x))
			return slices.Concat(pre, t), err
		}
		s.accepts = func(y []byte, in probeIn) (bool, []byte) {
			if !bytes.HasPrefix(y, pre) {
				return false, nil
			}
			return raw.VerifyMAC(fresh(y[len(pre):]), data(in.x)) == nil, nil
		}
		return s
	}
	s.prefix = prefixOf(s.key)
	a := prim(s.key).(tink.MAC)
	s.produce = func(in probeIn) ([]byte, error) { return a.ComputeMAC(fresh(in.x)) }
	s.accepts = func(y []byte, in probeIn) (bool, []byte) { return a.VerifyMAC(fresh(y), fresh(in.x)) == nil, nil }
	return s
}

// ---------------------------------------------------------------- signatures

const (
	rsaN = "s1EKK81M5kTFtZSuUFnhKy8FS2WNXaWVmi_fGHG4CLw98-Yo0nkuUarVwSS0O9pFPcpc3kvPKOe9Tv-6DLS3Qru21aATy2PRqjqJ4CYn71OYtSwM_ZfSCKvrjXybzgu-sBmobdtYm-sppbdL-GEHXGd8gdQw8DDCZSR6-dPJFAzLZTCdB-Ctwe_RXPF-ewVdfaOGjkZIzDoYDw7n-OHnsYCYozkbTOcWHpjVevipR-IBpGPi1rvKgFnlcG6d_tj0hWRl_6cS7RqhjoiNEtxqoJzpXs_Kg8xbCxXbCchkf11STA8udiCjQWuWI8rcDwl69XMmHJjIQAqhKvOOQ8rYTQ"
	rsaD = "GlAtDupse2niHVg5EB9wVFbtDvhS-0f-IQcfVMXzPIzrBmxi1yfjLSbFgTcyn4nTGVMlt5UmTBldhUcvdQfb0JYdKVH5NaJrNPCsJNFUkOESiptxOJFbx9v6j-OWNXExxUOunJhQc2jZzrCMHGGYo-2nrqGFoOl2zULCLQDwA9nxnZbqTJr8v-FEHMyALPsGifWdgExqTk9ATBUXR0XtbLi8iO8LM7oNKoDjXkO8kPNQBS5yAW51sA01ejgcnA1GcGnKZgiHyYd2Y0n8xDRgtKpRa84Hnt2HuhZDB7dSwnftlSitO6C_GHc0ntO3lmpsJAEQQJv00PreDGj9rdhH_Q"
	rsaP = "7BJc834xCi_0YmO5suBinWOQAF7IiRPU-3G9TdhWEkSYquupg9e6K9lC5k0iP-t6I69NYF7-6mvXDTmv6Z01o6oV50oXaHeAk74O3UqNCbLe9tybZ_-FdkYlwuGSNttMQBzjCiVy0-y0-Wm3rRnFIsAtd0RlZ24aN3bFTWJINIs"
	rsaQ = "wnQqvNmJe9SwtnH5c_yCqPhKv1cF_4jdQZSGI6_p3KYNxlQzkHZ_6uvrU5V27ov6YbX8vKlKfO91oJFQxUD6lpTdgAStI3GMiJBJIZNpyZ9EWNSvwUj28H34cySpbZz3s4XdhiJBShgy-fKURvBQwtWmQHZJ3EGrcOI7PcwiyYc"
)

func b64(s string) []byte { return must(base64.RawURLEncoding.DecodeString(s)) }

// rsaKey builds a key object around the fixed 2048-bit RSA material (no key generation: slow and
// not a function of the seed). Every call returns a distinct object: two members never share one.
func rsaKey(v int, id uint32) *rsassapkcs1.PrivateKey {
	ps := must(rsassapkcs1.NewParameters(2048, rsassapkcs1.SHA256, 65537,
		map[int]rsassapkcs1.Variant{vT: rsassapkcs1.VariantTink, vC: rsassapkcs1.VariantCrunchy, vL: rsassapkcs1.VariantLegacy, vR: rsassapkcs1.VariantNoPrefix}[v]))
	pub := must(rsassapkcs1.NewPublicKey(b64(rsaN), idFor(v, id), ps))
	return must(rsassapkcs1.NewPrivateKey(pub, rsassapkcs1.PrivateKeyValues{P: hlib.Secret(b64(rsaP)), Q: hlib.Secret(b64(rsaQ)), D: hlib.Secret(b64(rsaD))}))
}

// scalar draws a private scalar of n bytes that is certainly below the group order and non-zero.
func scalar(m *hlib.Rng, n int) []byte {
	b := m.Bytes(n)
	b[0] &= 0x7f
	b[n-1] |= 1
	return b
}

func genSig(kind, v int, id uint32, m *hlib.Rng, hdr []byte) *kspec {
	s := &kspec{kind: kind, variant: v, id: id, hdr: hdr}
	kid := idFor(v, id)
	ev := map[int]ecdsa.Variant{vT: ecdsa.VariantTink, vC: ecdsa.VariantCrunchy, vL: ecdsa.VariantLegacy, vR: ecdsa.VariantNoPrefix}[v]
	switch kind {
	case 0, 1, 2, 3:
		curve, hash, n := ecdsa.NistP256, ecdsa.SHA256, 32
		if kind >= 2 {
			curve, hash, n = ecdsa.NistP384, []ecdsa.HashType{ecdsa.SHA384, ecdsa.SHA512}[kind-2], 48
		}
		enc := []ecdsa.SignatureEncoding{ecdsa.DER, ecdsa.IEEEP1363}[kind%2]
		s.label = fmt.Sprintf("ecdsa-%s-%s", curve, enc)
		ps := must(ecdsa.NewParameters(curve, hash, enc, ev))
		s.key = must(ecdsa.NewPrivateKey(hlib.Secret(scalar(m, n)), kid, ps))
	case 4:
		s.label = "ed25519"
		ps := must(ed25519.NewParameters(map[int]ed25519.Variant{vT: ed25519.VariantTink, vC: ed25519.VariantCrunchy, vL: ed25519.VariantLegacy, vR: ed25519.VariantNoPrefix}[v]))
		s.key = must(ed25519.NewPrivateKey(hlib.Secret(m.Bytes(32)), kid, ps))
	case 5:
		s.label = "rsassapkcs1"
		s.key = rsaKey(v, id)
	default:
		s.label = "legacy-ed25519"
		s.legacy = true
		val := encVal(s.hdr, m.Bytes(32))
		s.key = stubKey(urlSigPriv, val, tinkpb.KeyData_ASYMMETRIC_PRIVATE, v, id)
		rs, rv := must(rawSigner(val)), must(rawVerifier(sigPubVal(val)))
		pre := prefixOf(s.key)
		s.prefix = pre
		data := func(x []byte) []byte {
			if v == vL {
				return withZero(x)
			}
			return fresh(x)
		}
		s.produce = func(in probeIn) ([]byte, error) {
			sg, err := rs.Sign(data(in.x))
			return slices.Concat(pre, sg), err
		}
		s.accepts = func(y []byte, in probeIn) (bool, []byte) {
			if !bytes.HasPrefix(y, pre) {
				return false, nil
			}
			return rv.Verify(fresh(y[len(pre):]), data(in.x)) == nil, nil
		}
		return s
	}
	s.prefix = prefixOf(s.key)
	sg := prim(s.key).(tink.Signer)
	vf := prim(pubOf(s.key)).(tink.Verifier)
	s.produce = func(in probeIn) ([]byte, error) { return sg.Sign(fresh(in.x)) }
	s.accepts = func(y []byte, in probeIn) (bool, []byte) { return vf.Verify(fresh(y), fresh(in.x)) == nil, nil }
	return s
}

// ---------------------------------------------------------------- hybrid

func genHybrid(kind, v int, id uint32, m *hlib.Rng, hdr []byte) *kspec {
	s := &kspec{kind: kind, variant: v, id: id, hdr: hdr}
	kid := idFor(v, id)
	hv := map[int]hpke.Variant{vT: hpke.VariantTink, vC: hpke.VariantCrunchy, vR: hpke.VariantNoPrefix}[v]
	cv := map[int]ecies.Variant{vT: ecies.VariantTink, vC: ecies.VariantCrunchy, vR: ecies.VariantNoPrefix}[v]
	switch kind {
	case 0, 1:
		s.label = "hpke-x25519"
		ps := must(hpke.NewParameters(hpke.ParametersOpts{KEMID: hpke.DHKEM_X25519_HKDF_SHA256, KDFID: hpke.HKDFSHA256,
			AEADID: []hpke.AEADID{hpke.AES128GCM, hpke.ChaCha20Poly1305}[kind], Variant: hv}))
		s.key = must(hpke.NewPrivateKey(hlib.Secret(m.Bytes(32)), kid, ps))
	case 2:
		s.label = "hpke-p256"
		ps := must(hpke.NewParameters(hpke.ParametersOpts{KEMID: hpke.DHKEM_P256_HKDF_SHA256, KDFID: hpke.HKDFSHA256, AEADID: hpke.AES256GCM, Variant: hv}))
		s.key = must(hpke.NewPrivateKey(hlib.Secret(scalar(m, 32)), kid, ps))
	case 3:
		s.label = "ecies-p256"
		dem := must(aesgcm.NewParameters(aesgcm.ParametersOpts{KeySizeInBytes: 16, IVSizeInBytes: 12, TagSizeInBytes: 16, Variant: aesgcm.VariantNoPrefix}))
		ps := must(ecies.NewParameters(ecies.ParametersOpts{CurveType: ecies.NISTP256, HashType: ecies.SHA256, NISTCurvePointFormat: ecies.UncompressedPointFormat,
			DEMParameters: dem, Salt: m.Bytes(m.Pick(0, 8)), Variant: cv}))
		s.key = must(ecies.NewPrivateKey(hlib.Secret(scalar(m, 32)), kid, ps))
	case 4:
		s.label = "ecies-p384"
		dem := must(aesgcm.NewParameters(aesgcm.ParametersOpts{KeySizeInBytes: 32, IVSizeInBytes: 12, TagSizeInBytes: 16, Variant: aesgcm.VariantNoPrefix}))
		ps := must(ecies.NewParameters(ecies.ParametersOpts{CurveType: ecies.NISTP384, HashType: ecies.SHA384, NISTCurvePointFormat: ecies.UncompressedPointFormat,
			DEMParameters: dem, Variant: cv}))
		s.key = must(ecies.NewPrivateKey(hlib.Secret(scalar(m, 48)), kid, ps))
	default:
		s.label = "legacy-toyhybrid"
		s.legacy = true
		val := encVal(s.hdr, m.Bytes(16))
		s.key = stubKey(urlHybPriv, val, tinkpb.KeyData_ASYMMETRIC_PRIVATE, v, id)
		re, rd := must(rawHybEnc(val)), must(rawHybDec(val))
		pre := prefixOf(s.key)
		s.prefix = pre
		s.produce = func(in probeIn) ([]byte, error) {
			ct, err := re.Encrypt(fresh(in.pt), fresh(in.x))
			return slices.Concat(pre, ct), err
		}
		s.accepts = func(y []byte, in probeIn) (bool, []byte) {
			if !bytes.HasPrefix(y, pre) {
				return false, nil
			}
			pt, err := rd.Decrypt(fresh(y[len(pre):]), fresh(in.x))
			return err == nil, pt
		}
		return s
	}
	s.prefix = prefixOf(s.key)
	enc := prim(pubOf(s.key)).(tink.HybridEncrypt)
	dec := prim(s.key).(tink.HybridDecrypt)
	s.produce = func(in probeIn) ([]byte, error) { return enc.Encrypt(fresh(in.pt), fresh(in.x)) }
	s.accepts = func(y []byte, in probeIn) (bool, []byte) {
		pt, err := dec.Decrypt(fresh(y), fresh(in.x))
		return err == nil, pt
	}
	return s
}

// ---------------------------------------------------------------- JWT

var jwtValidator = must(jwt.NewValidator(&jwt.ValidatorOpts{AllowMissingExpiration: true, IgnoreIssuer: true}))

func rawJWTOf(in probeIn) *jwt.RawJWT {
	iss := fmt.Sprintf("iss-%x", in.pt)
	return must(jwt.NewRawJWT(&jwt.RawJWTOptions{Issuer: &iss, WithoutExpiration: true}))
}

func issuerOf(v *jwt.VerifiedJWT) []byte {
	iss, err := v.Issuer()
	if err != nil {
		return []byte("?")
	}
	return []byte(iss)
}

// forceCustomKID: when set, the custom kid of the next vK key built by genJWTMAC / genJWTSig (then reset).
var forceCustomKID *string

func customKID(v int, id uint32) string {
	if v != vK {
		return ""
	}
	if forceCustomKID != nil {
		k := *forceCustomKID
		forceCustomKID = nil
		return k
	}
	return fmt.Sprintf("k%d", id%3)
}

func genJWTMAC(kind, v int, id uint32, m *hlib.Rng, hdr []byte) *kspec {
	s := &kspec{kind: kind, variant: v, id: id, hdr: hdr}
	alg := []jwthmac.Algorithm{jwthmac.HS256, jwthmac.HS384, jwthmac.HS512}[kind]
	size := []int{32, 48, 64}[kind]
	s.label = "jwt-" + alg.String()
	strat := map[int]jwthmac.KIDStrategy{vT: jwthmac.Base64EncodedKeyIDAsKID, vR: jwthmac.IgnoredKID, vK: jwthmac.CustomKID}[v]
	ps := must(jwthmac.NewParameters(size, strat, alg))
	s.custom = customKID(v, id)
	s.key = must(jwthmac.NewKey(jwthmac.KeyOpts{KeyBytes: hlib.Secret(m.Bytes(size)), IDRequirement: idFor(v, id), CustomKID: s.custom, HasCustomKID: v == vK, Parameters: ps}))
	a := prim(s.key).(jwt.MAC)
	s.produce = func(in probeIn) ([]byte, error) {
		t, err := a.ComputeMACAndEncode(rawJWTOf(in))
		return []byte(t), err
	}
	s.accepts = func(y []byte, in probeIn) (bool, []byte) {
		vj, err := a.VerifyMACAndDecode(string(y), jwtValidator)
		if err != nil {
			return false, nil
		}
		return true, issuerOf(vj)
	}
	return s
}

func genJWTSig(kind, v int, id uint32, m *hlib.Rng, hdr []byte) *kspec {
	s := &kspec{kind: kind, variant: v, id: id, hdr: hdr}
	alg := []jwtecdsa.Algorithm{jwtecdsa.ES256, jwtecdsa.ES384}[kind]
	n := []int{32, 48}[kind]
	curve := []ecdh.Curve{ecdh.P256(), ecdh.P384()}[kind]
	s.label = "jwt-" + alg.String()
	strat := map[int]jwtecdsa.KIDStrategy{vT: jwtecdsa.Base64EncodedKeyIDAsKID, vR: jwtecdsa.IgnoredKID, vK: jwtecdsa.CustomKID}[v]
	ps := must(jwtecdsa.NewParameters(strat, alg))
	d := scalar(m, n)
	point := must(curve.NewPrivateKey(d)).PublicKey().Bytes()
	s.custom = customKID(v, id)
	pub := must(jwtecdsa.NewPublicKey(jwtecdsa.PublicKeyOpts{PublicPoint: point, IDRequirement: idFor(v, id), CustomKID: s.custom, HasCustomKID: v == vK, Parameters: ps}))
	s.key = must(jwtecdsa.NewPrivateKeyFromPublicKey(hlib.Secret(d), pub))
	sg := prim(s.key).(jwt.Signer)
	vf := prim(pubOf(s.key)).(jwt.Verifier)
	s.produce = func(in probeIn) ([]byte, error) {
		t, err := sg.SignAndEncode(rawJWTOf(in))
		return []byte(t), err
	}
	s.accepts = func(y []byte, in probeIn) (bool, []byte) {
		vj, err := vf.VerifyAndDecode(string(y), jwtValidator)
		if err != nil {
			return false, nil
		}
		return true, issuerOf(vj)
	}
	return s
}

// ---------------------------------------------------------------- streaming AEAD

func streamEncrypt(a tink.StreamingAEAD, in probeIn) ([]byte, error) {
	var buf bytes.Buffer
	w, err := a.NewEncryptingWriter(&buf, fresh(in.x))
	if err != nil {
		return nil, err
	}
	if _, err := w.Write(fresh(in.pt)); err != nil {
		return nil, err
	}
	if err := w.Close(); err != nil {
		return nil, err
	}
	return buf.Bytes(), nil
}

func streamDecrypt(a tink.StreamingAEAD, y []byte, in probeIn) ([]byte, error) {
	var src io.Reader = bytes.NewReader(fresh(y))
	if in.src != 0 {
		src = &chunkSource{data: fresh(y), mode: in.src}
	}
	r, err := a.NewDecryptingReader(src, fresh(in.x))
	if err != nil {
		return nil, err
	}
	return io.ReadAll(r)
}

// chunkSource is a non-seekable source: mode 1 hands out at most 4 KiB per Read, mode 2 everything asked for
// with the last bytes coming together with io.EOF.
type chunkSource struct {
	data []byte
	pos  int
	mode int
}

func (s *chunkSource) Read(p []byte) (int, error) {
	if len(p) == 0 {
		return 0, nil
	}
	rem := len(s.data) - s.pos
	if rem == 0 {
		return 0, io.EOF
	}
	n := len(p)
	if s.mode == 1 && n > 4096 {
		n = 4096
	}
	if n > rem {
		n = rem
	}
	copy(p, s.data[s.pos:s.pos+n])
	s.pos += n
	if s.pos == len(s.data) && s.mode == 2 {
		return n, io.EOF
	}
	return n, nil
}

func streamSeg(m *hlib.Rng, small ...int) int32 {
	if bigStream {
		return int32(m.Pick(4096, 65537, 1<<20, 2<<20))
	}
	return int32(m.Pick(small...))
}

func genStream(kind, v int, id uint32, m *hlib.Rng, hdr []byte) *kspec {
	s := &kspec{kind: kind, variant: vR, id: id, hdr: hdr}
	var a tink.StreamingAEAD
	switch kind {
	case 0:
		s.label = "aesgcmhkdf"
		ks := m.Pick(16, 32)
		ps := must(streamgcm.NewParameters(streamgcm.ParametersOpts{KeySizeInBytes: 32, DerivedKeySizeInBytes: ks,
			HKDFHashType: []streamgcm.HashType{streamgcm.SHA256, streamgcm.SHA512}[m.Intn(2)], SegmentSizeInBytes: streamSeg(m, 64, 128, 4096)}))
		s.key = must(streamgcm.NewKey(ps, hlib.Secret(m.Bytes(32))))
		if bigStream {
			s.label = fmt.Sprintf("aesgcmhkdf/derived%d/seg%d", ks, ps.SegmentSizeInBytes())
		}
		a = prim(s.key).(tink.StreamingAEAD)
	case 1:
		s.label = "aesctrhmac-stream"
		ps := must(streamctr.NewParameters(streamctr.ParametersOpts{KeySizeInBytes: 32, DerivedKeySizeInBytes: m.Pick(16, 32), HkdfHashType: streamctr.SHA256,
			HmacHashType: streamctr.SHA256, HmacTagSizeInBytes: m.Pick(16, 32), SegmentSizeInBytes: streamSeg(m, 128, 256, 4096)}))
		s.key = must(streamctr.NewKey(ps, hlib.Secret(m.Bytes(32))))
		if bigStream {
			s.label = fmt.Sprintf("aesctrhmac-stream/derived%d/seg%d", ps.DerivedKeySizeInBytes(), ps.SegmentSizeInBytes())
		}
		a = prim(s.key).(tink.StreamingAEAD)
	default:
		s.label = "legacy-aesgcmhkdf"
		s.legacy = true
		val := m.Bytes(32)
		s.key = stubKey(urlStream, val, tinkpb.KeyData_SYMMETRIC, vR, 0)
		a = must(rawStream(val))
	}
	s.produce = func(in probeIn) ([]byte, error) { return streamEncrypt(a, in) }
	s.accepts = func(y []byte, in probeIn) (bool, []byte) {
		pt, err := streamDecrypt(a, y, in)
		return err == nil, pt
	}
	return s
}

// ---------------------------------------------------------------- PRF

func genPRF(kind, v int, id uint32, m *hlib.Rng, hdr []byte) *kspec {
	s := &kspec{kind: kind, variant: vR, id: id, hdr: hdr}
	var p prf.PRF
	switch kind {
	case 0:
		s.label = "hmacprf"
		kb := m.Bytes(m.Pick(16, 32, 64))
		s.key = must(hmacprf.NewKey(hlib.Secret(kb), must(hmacprf.NewParameters(len(kb), []hmacprf.HashType{hmacprf.SHA256, hmacprf.SHA512}[m.Intn(2)]))))
		p = prim(s.key).(prf.PRF)
	case 1:
		s.label = "hkdfprf"
		s.key = must(hkdfprf.NewKey(hlib.Secret(m.Bytes(32)), must(hkdfprf.NewParameters(32, hkdfprf.SHA256, m.Bytes(m.Pick(0, 8))))))
		p = prim(s.key).(prf.PRF)
	case 2:
		s.label = "aescmacprf"
		s.key = must(aescmacprf.NewKey(hlib.Secret(m.Bytes(32))))
		p = prim(s.key).(prf.PRF)
	default:
		s.label = "legacy-hmacprf"
		s.legacy = true
		val := m.Bytes(32)
		s.key = stubKey(urlPRF, val, tinkpb.KeyData_SYMMETRIC, vR, 0)
		p = must(rawPRF(val))
	}
	s.prfOut = func(in []byte, n uint32) ([]byte, error) { return p.ComputePRF(fresh(in), n) }
	return s
}
