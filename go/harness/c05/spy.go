//go:build verif

package main

// A keyset.Config that hands the factories the very same primitives as the registry config, each
// wrapped in a recorder. The recorder tells which key's primitive performed the call that made a
// wrapped operation succeed — the ground truth for "the logged key id names the key that did the
// work", and the only way to observe the working key for streaming AEAD (which has no logging).

import (
	"fmt"
	"io"

	"github.com/tink-crypto/tink-go/v2/internal/internalapi"
	"github.com/tink-crypto/tink-go/v2/internal/registryconfig"
	"github.com/tink-crypto/tink-go/v2/internal/registryconfig/legacyprimitive"
	"github.com/tink-crypto/tink-go/v2/jwt"
	"github.com/tink-crypto/tink-go/v2/key"
	"github.com/tink-crypto/tink-go/v2/prf"
	"github.com/tink-crypto/tink-go/v2/tink"
)

type spyEv struct {
	k  key.Key
	op string
	ok bool
}

type spyLog struct{ evs []spyEv }

func (l *spyLog) reset() { l.evs = l.evs[:0] }

// worker returns the key of the last successful call, if any.
func (l *spyLog) worker() (key.Key, bool) {
	for i := len(l.evs) - 1; i >= 0; i-- {
		if l.evs[i].ok {
			return l.evs[i].k, true
		}
	}
	return nil, false
}

type spyCfg struct {
	fam string
	log *spyLog
	// nLegacy counts primitives that came through the legacy (key manager) path.
	nLegacy int
}

type recFn func(op string, err error)

func (c *spyCfg) PrimitiveFromKey(k key.Key, t internalapi.Token) (any, error) {
	p, err := (&registryconfig.RegistryConfig{}).PrimitiveFromKey(k, t)
	if err != nil {
		return nil, err
	}
	rec := func(op string, err error) { c.log.evs = append(c.log.evs, spyEv{k, op, err == nil}) }
	if lp, ok := p.(legacyprimitive.LegacyPrimitive); ok {
		c.nLegacy++
		w, err := c.wrap(lp.Primitive(), rec)
		if err != nil {
			return nil, err
		}
		return legacyprimitive.New(w), nil
	}
	return c.wrap(p, rec)
}

func (c *spyCfg) wrap(p any, rec recFn) (any, error) {
	switch c.fam {
	case "aead":
		if a, ok := p.(tink.AEAD); ok {
			return &spyAEAD{a, rec}, nil
		}
	case "daead":
		if a, ok := p.(tink.DeterministicAEAD); ok {
			return &spyDAEAD{a, rec}, nil
		}
	case "mac":
		if a, ok := p.(tink.MAC); ok {
			return &spyMAC{a, rec}, nil
		}
	case "signature":
		if a, ok := p.(tink.Signer); ok {
			return &spySigner{a, rec}, nil
		}
		if a, ok := p.(tink.Verifier); ok {
			return &spyVerifier{a, rec}, nil
		}
	case "hybrid":
		if a, ok := p.(tink.HybridEncrypt); ok {
			return &spyHEnc{a, rec}, nil
		}
		if a, ok := p.(tink.HybridDecrypt); ok {
			return &spyHDec{a, rec}, nil
		}
	case "jwtmac":
		if a, ok := p.(jwt.MAC); ok {
			return &spyJWTMAC{a, rec}, nil
		}
	case "jwtsig":
		if a, ok := p.(jwt.Signer); ok {
			return &spyJWTSigner{a, rec}, nil
		}
		if a, ok := p.(jwt.Verifier); ok {
			return &spyJWTVerifier{a, rec}, nil
		}
	case "streamingaead":
		if a, ok := p.(tink.StreamingAEAD); ok {
			return &spyStream{a, rec}, nil
		}
	case "prf":
		if a, ok := p.(prf.PRF); ok {
			return &spyPRF{a, rec}, nil
		}
	}
	return nil, fmt.Errorf("spy config: primitive %T does not fit family %s", p, c.fam)
}

type spyAEAD struct {
	a   tink.AEAD
	rec recFn
}

func (s *spyAEAD) Encrypt(pt, ad []byte) ([]byte, error) {
	r, err := s.a.Encrypt(pt, ad)
	s.rec("enc", err)
	return r, err
}
func (s *spyAEAD) Decrypt(ct, ad []byte) ([]byte, error) {
	r, err := s.a.Decrypt(ct, ad)
	s.rec("dec", err)
	return r, err
}

type spyDAEAD struct {
	a   tink.DeterministicAEAD
	rec recFn
}

func (s *spyDAEAD) EncryptDeterministically(pt, ad []byte) ([]byte, error) {
	r, err := s.a.EncryptDeterministically(pt, ad)
	s.rec("enc", err)
	return r, err
}
func (s *spyDAEAD) DecryptDeterministically(ct, ad []byte) ([]byte, error) {
	r, err := s.a.DecryptDeterministically(ct, ad)
	s.rec("dec", err)
	return r, err
}

type spyMAC struct {
	a   tink.MAC
	rec recFn
}

func (s *spyMAC) ComputeMAC(d []byte) ([]byte, error) {
	r, err := s.a.ComputeMAC(d)
	s.rec("compute", err)
	return r, err
}
func (s *spyMAC) VerifyMAC(m, d []byte) error {
	err := s.a.VerifyMAC(m, d)
	s.rec("verify", err)
	return err
}

type spySigner struct {
	a   tink.Signer
	rec recFn
}

func (s *spySigner) Sign(d []byte) ([]byte, error) {
	r, err := s.a.Sign(d)
	s.rec("sign", err)
	return r, err
}

type spyVerifier struct {
	a   tink.Verifier
	rec recFn
}

func (s *spyVerifier) Verify(sig, d []byte) error {
	err := s.a.Verify(sig, d)
	s.rec("verify", err)
	return err
}

type spyHEnc struct {
	a   tink.HybridEncrypt
	rec recFn
}

func (s *spyHEnc) Encrypt(pt, ci []byte) ([]byte, error) {
	r, err := s.a.Encrypt(pt, ci)
	s.rec("enc", err)
	return r, err
}

type spyHDec struct {
	a   tink.HybridDecrypt
	rec recFn
}

func (s *spyHDec) Decrypt(ct, ci []byte) ([]byte, error) {
	r, err := s.a.Decrypt(ct, ci)
	s.rec("dec", err)
	return r, err
}

type spyJWTMAC struct {
	a   jwt.MAC
	rec recFn
}

func (s *spyJWTMAC) ComputeMACAndEncode(t *jwt.RawJWT) (string, error) {
	r, err := s.a.ComputeMACAndEncode(t)
	s.rec("compute", err)
	return r, err
}
func (s *spyJWTMAC) VerifyMACAndDecode(c string, v *jwt.Validator) (*jwt.VerifiedJWT, error) {
	r, err := s.a.VerifyMACAndDecode(c, v)
	s.rec("verify", err)
	return r, err
}

type spyJWTSigner struct {
	a   jwt.Signer
	rec recFn
}

func (s *spyJWTSigner) SignAndEncode(t *jwt.RawJWT) (string, error) {
	r, err := s.a.SignAndEncode(t)
	s.rec("sign", err)
	return r, err
}

type spyJWTVerifier struct {
	a   jwt.Verifier
	rec recFn
}

func (s *spyJWTVerifier) VerifyAndDecode(c string, v *jwt.Validator) (*jwt.VerifiedJWT, error) {
	r, err := s.a.VerifyAndDecode(c, v)
	s.rec("verify", err)
	return r, err
}

type spyStream struct {
	a   tink.StreamingAEAD
	rec recFn
}

func (s *spyStream) NewEncryptingWriter(w io.Writer, ad []byte) (io.WriteCloser, error) {
	r, err := s.a.NewEncryptingWriter(w, ad)
	s.rec("enc", err)
	return r, err
}

func (s *spyStream) NewDecryptingReader(r io.Reader, ad []byte) (io.Reader, error) {
	dr, err := s.a.NewDecryptingReader(r, ad)
	if err != nil {
		s.rec("dec", err)
		return nil, err
	}
	return &spyReader{r: dr, rec: s.rec}, nil
}

// spyReader reports the outcome of the first Read: that is what the wrapped streaming primitive
// uses to decide that this key matches.
type spyReader struct {
	r    io.Reader
	rec  recFn
	done bool
}

func (s *spyReader) Read(p []byte) (int, error) {
	n, err := s.r.Read(p)
	if !s.done {
		s.done = true
		s.rec("dec", err)
	}
	return n, err
}

type spyPRF struct {
	a   prf.PRF
	rec recFn
}

func (s *spyPRF) ComputePRF(in []byte, n uint32) ([]byte, error) {
	r, err := s.a.ComputePRF(in, n)
	s.rec("prf", err)
	return r, err
}
