//go:build verif

package main

// Twin keys with near-identical kids (JWT MAC and every JWT signature family).
//
// Two keys share their key MATERIAL; their kids differ only in a way a sloppy comparison would ignore:
// TINK keys whose ids are chosen so that the base64url kids are case variants of each other, custom kids
// that are ASCII / Unicode case-folding variants, carry trailing white space or NUL, are a prefix of one
// another, are NFC vs NFD spellings, look alike after a lenient base64 decoding, are empty vs absent.
//
// Unlike the rest of c05 the acceptance row handed to the Lean model is NOT measured on the single-key
// JWT primitives (the kid comparison lives inside them, model and implementation would agree by
// construction). It is computed here: the MAC / signature over "header.payload" is verified with the Go
// standard library (ML-DSA: tink's non-JWT verifier), the header's kid is read with encoding/json and
// compared BYTE FOR BYTE with the kid this file computed for the key (RFC 7515 §4.1.4: the kid is a
// case-sensitive string). The lines are property-level ("!W …"): the model side is the reference.

import (
	"bytes"
	"crypto"
	"crypto/ecdh"
	stdecdsa "crypto/ecdsa"
	"crypto/elliptic"
	stdhmac "crypto/hmac"
	"crypto/rand"
	"crypto/rsa"
	"crypto/sha256"
	"crypto/sha512"
	"encoding/base64"
	"encoding/binary"
	"encoding/json"
	"fmt"
	"hash"
	"math/big"
	"strings"

	"github.com/tink-crypto/tink-go/v2/internal/internalapi"
	"github.com/tink-crypto/tink-go/v2/internal/internalregistry"
	"github.com/tink-crypto/tink-go/v2/internal/verifharness/hlib"
	"github.com/tink-crypto/tink-go/v2/jwt"
	"github.com/tink-crypto/tink-go/v2/jwt/jwtecdsa"
	"github.com/tink-crypto/tink-go/v2/jwt/jwthmac"
	"github.com/tink-crypto/tink-go/v2/jwt/jwtmldsa"
	"github.com/tink-crypto/tink-go/v2/jwt/jwtrsassapkcs1"
	"github.com/tink-crypto/tink-go/v2/jwt/jwtrsassapss"
	"github.com/tink-crypto/tink-go/v2/key"
	"github.com/tink-crypto/tink-go/v2/keyset"
	"github.com/tink-crypto/tink-go/v2/signature/mldsa"
	"github.com/tink-crypto/tink-go/v2/testing/fakemonitoring"
)

// ---------------------------------------------------------------- algorithms and material

type jalg struct {
	fam  string // HS ES RS PS ML
	ai   int    // 0..2 within the family
	name string // JWS "alg" value, written out here
}

var jalgNames = map[string][]string{
	"HS": {"HS256", "HS384", "HS512"},
	"ES": {"ES256", "ES384", "ES512"},
	"RS": {"RS256", "RS384", "RS512"},
	"PS": {"PS256", "PS384", "PS512"},
	"ML": {"ML-DSA-44", "ML-DSA-65", "ML-DSA-87"},
}

var jfams = []string{"HS", "ES", "RS", "PS", "ML"}

var stdHashes = []crypto.Hash{crypto.SHA256, crypto.SHA384, crypto.SHA512}

func stdHash(ai int) hash.Hash {
	switch ai {
	case 0:
		return sha256.New()
	case 1:
		return sha512.New384()
	}
	return sha512.New()
}

func digest(ai int, data []byte) []byte {
	h := stdHash(ai)
	h.Write(data)
	return h.Sum(nil)
}

type rsaVals struct{ n, p, q, d []byte }

// jmat: one piece of key material under one algorithm, with a verifier that does not go through the jwt package.
type jmat struct {
	alg     jalg
	name    string // "a" (the twins' material) or "u" (unrelated)
	hmacKey []byte
	ecD     []byte
	ecPoint []byte
	rsa     *rsaVals
	mlSeed  []byte
	mlPub   []byte
	rawOK   func(sig, data []byte) bool
	rawMemo map[string]bool   // signed part + signature -> verdict of rawOK
	keyMemo map[string]*kspec // kid strategy / id requirement / custom kid -> key object with its single-key primitives
}

// rawValid: rawOK, remembered per token (the same token is shown to several keysets).
func (m *jmat) rawValid(f tokenFacts) bool {
	k := f.signed + "." + string(f.sig)
	v, ok := m.rawMemo[k]
	if !ok {
		v = m.rawOK(f.sig, []byte(f.signed))
		m.rawMemo[k] = v
	}
	return v
}

func newJMat(alg jalg, name string, rng *hlib.Rng, r *rsaVals) *jmat {
	m := &jmat{alg: alg, name: name, rawMemo: map[string]bool{}, keyMemo: map[string]*kspec{}}
	ai := alg.ai
	switch alg.fam {
	case "HS":
		m.hmacKey = rng.Bytes([]int{32, 48, 64}[ai] + rng.Pick(0, 0, 7))
		m.rawOK = func(sig, data []byte) bool {
			h := stdhmac.New(func() hash.Hash { return stdHash(ai) }, m.hmacKey)
			h.Write(data)
			return stdhmac.Equal(h.Sum(nil), sig)
		}
	case "ES":
		n := []int{32, 48, 66}[ai]
		curve := []ecdh.Curve{ecdh.P256(), ecdh.P384(), ecdh.P521()}[ai]
		d := scalar(rng, n)
		if ai == 2 {
			d[0] = 0 // 521 bits: keep the scalar below the order
		}
		m.ecD, m.ecPoint = d, must(curve.NewPrivateKey(d)).PublicKey().Bytes()
		pub := &stdecdsa.PublicKey{Curve: []elliptic.Curve{elliptic.P256(), elliptic.P384(), elliptic.P521()}[ai],
			X: new(big.Int).SetBytes(m.ecPoint[1 : 1+n]), Y: new(big.Int).SetBytes(m.ecPoint[1+n:])}
		m.rawOK = func(sig, data []byte) bool {
			if len(sig) != 2*n {
				return false
			}
			return stdecdsa.Verify(pub, digest(ai, data), new(big.Int).SetBytes(sig[:n]), new(big.Int).SetBytes(sig[n:]))
		}
	case "RS", "PS":
		m.rsa = r
		pub := &rsa.PublicKey{N: new(big.Int).SetBytes(r.n), E: 65537}
		if alg.fam == "RS" {
			m.rawOK = func(sig, data []byte) bool {
				return rsa.VerifyPKCS1v15(pub, stdHashes[ai], digest(ai, data), sig) == nil
			}
		} else {
			m.rawOK = func(sig, data []byte) bool {
				return rsa.VerifyPSS(pub, stdHashes[ai], digest(ai, data), sig, &rsa.PSSOptions{SaltLength: []int{32, 48, 64}[ai], Hash: stdHashes[ai]}) == nil
			}
		}
	case "ML":
		m.mlSeed = rng.Bytes(32)
		ps := must(mldsa.NewParameters([]mldsa.Instance{mldsa.MLDSA44, mldsa.MLDSA65, mldsa.MLDSA87}[ai], mldsa.VariantNoPrefix))
		priv := must(mldsa.NewPrivateKey(hlib.Secret(m.mlSeed), 0, ps))
		pub := must(priv.PublicKey()).(*mldsa.PublicKey)
		m.mlPub = pub.KeyBytes()
		vf := must(mldsa.NewVerifier(pub, internalapi.Token{}))
		m.rawOK = func(sig, data []byte) bool { return vf.Verify(fresh(sig), fresh(data)) == nil }
	}
	return m
}

// jwtKey builds the jwt key object (MAC key or private key) for this material under a kid strategy.
func (m *jmat) jwtKey(v int, id uint32, custom string) key.Key {
	ai := m.alg.ai
	idReq := idFor(v, id)
	hasCustom := v == vK
	if !hasCustom {
		custom = ""
	}
	switch m.alg.fam {
	case "HS":
		st := map[int]jwthmac.KIDStrategy{vT: jwthmac.Base64EncodedKeyIDAsKID, vR: jwthmac.IgnoredKID, vK: jwthmac.CustomKID}[v]
		ps := must(jwthmac.NewParameters(len(m.hmacKey), st, []jwthmac.Algorithm{jwthmac.HS256, jwthmac.HS384, jwthmac.HS512}[ai]))
		return must(jwthmac.NewKey(jwthmac.KeyOpts{KeyBytes: hlib.Secret(m.hmacKey), IDRequirement: idReq, CustomKID: custom, HasCustomKID: hasCustom, Parameters: ps}))
	case "ES":
		st := map[int]jwtecdsa.KIDStrategy{vT: jwtecdsa.Base64EncodedKeyIDAsKID, vR: jwtecdsa.IgnoredKID, vK: jwtecdsa.CustomKID}[v]
		ps := must(jwtecdsa.NewParameters(st, []jwtecdsa.Algorithm{jwtecdsa.ES256, jwtecdsa.ES384, jwtecdsa.ES512}[ai]))
		pub := must(jwtecdsa.NewPublicKey(jwtecdsa.PublicKeyOpts{PublicPoint: m.ecPoint, IDRequirement: idReq, CustomKID: custom, HasCustomKID: hasCustom, Parameters: ps}))
		return must(jwtecdsa.NewPrivateKeyFromPublicKey(hlib.Secret(m.ecD), pub))
	case "RS":
		st := map[int]jwtrsassapkcs1.KIDStrategy{vT: jwtrsassapkcs1.Base64EncodedKeyIDAsKID, vR: jwtrsassapkcs1.IgnoredKID, vK: jwtrsassapkcs1.CustomKID}[v]
		ps := must(jwtrsassapkcs1.NewParameters(jwtrsassapkcs1.ParametersOpts{ModulusSizeInBits: 2048, PublicExponent: 65537,
			Algorithm: []jwtrsassapkcs1.Algorithm{jwtrsassapkcs1.RS256, jwtrsassapkcs1.RS384, jwtrsassapkcs1.RS512}[ai], KidStrategy: st}))
		pub := must(jwtrsassapkcs1.NewPublicKey(jwtrsassapkcs1.PublicKeyOpts{Modulus: m.rsa.n, IDRequirement: idReq, CustomKID: custom, HasCustomKID: hasCustom, Parameters: ps}))
		return must(jwtrsassapkcs1.NewPrivateKey(jwtrsassapkcs1.PrivateKeyOpts{PublicKey: pub, D: hlib.Secret(m.rsa.d), P: hlib.Secret(m.rsa.p), Q: hlib.Secret(m.rsa.q)}))
	case "PS":
		st := map[int]jwtrsassapss.KIDStrategy{vT: jwtrsassapss.Base64EncodedKeyIDAsKID, vR: jwtrsassapss.IgnoredKID, vK: jwtrsassapss.CustomKID}[v]
		ps := must(jwtrsassapss.NewParameters(jwtrsassapss.ParametersOpts{ModulusSizeInBits: 2048, PublicExponent: 65537,
			Algorithm: []jwtrsassapss.Algorithm{jwtrsassapss.PS256, jwtrsassapss.PS384, jwtrsassapss.PS512}[ai], KidStrategy: st}))
		pub := must(jwtrsassapss.NewPublicKey(jwtrsassapss.PublicKeyOpts{Modulus: m.rsa.n, IDRequirement: idReq, CustomKID: custom, HasCustomKID: hasCustom, Parameters: ps}))
		return must(jwtrsassapss.NewPrivateKey(jwtrsassapss.PrivateKeyOpts{PublicKey: pub, D: hlib.Secret(m.rsa.d), P: hlib.Secret(m.rsa.p), Q: hlib.Secret(m.rsa.q)}))
	}
	st := map[int]jwtmldsa.KIDStrategy{vT: jwtmldsa.Base64EncodedKeyIDAsKID, vR: jwtmldsa.IgnoredKID, vK: jwtmldsa.CustomKID}[v]
	ps := must(jwtmldsa.NewParameters(st, []jwtmldsa.Algorithm{jwtmldsa.MLDSA44, jwtmldsa.MLDSA65, jwtmldsa.MLDSA87}[ai]))
	pub := must(jwtmldsa.NewPublicKey(jwtmldsa.PublicKeyOpts{KeyBytes: m.mlPub, IDRequirement: idReq, CustomKID: custom, HasCustomKID: hasCustom, Parameters: ps}))
	return must(jwtmldsa.NewPrivateKeyFromPublicKey(hlib.Secret(m.mlSeed), pub))
}

// spec builds a keyset entry candidate. The single-key primitives are created on first use (RSA signers
// test themselves when constructed).
func (m *jmat) spec(v int, id uint32, custom string) *kspec {
	ck := fmt.Sprintf("%d/%d/%q", v, idFor(v, id), custom)
	if c, ok := m.keyMemo[ck]; ok {
		d := *c // same key object and primitives; the keyset-level id of a key without id requirement is per use
		d.id = id
		return &d
	}
	s := m.newSpec(v, id, custom)
	m.keyMemo[ck] = s
	return s
}

// newSpec always builds a new key object.
func (m *jmat) newSpec(v int, id uint32, custom string) *kspec {
	s := &kspec{label: "jwt-" + m.alg.name, kind: 100 + 3*indexOf(jfams, m.alg.fam) + m.alg.ai, variant: v, id: id, matSeed: "kidtwins/" + m.name, jm: m}
	if v == vK {
		s.custom = custom
	}
	s.key = m.jwtKey(v, id, custom)
	if m.alg.fam == "HS" {
		var a jwt.MAC
		get := func() jwt.MAC {
			if a == nil {
				a = prim(s.key).(jwt.MAC)
			}
			return a
		}
		s.produce = func(in probeIn) ([]byte, error) {
			t, err := get().ComputeMACAndEncode(rawJWTOf(in))
			return []byte(t), err
		}
		s.accepts = func(y []byte, in probeIn) (bool, []byte) {
			vj, err := get().VerifyMACAndDecode(string(y), jwtValidator)
			if err != nil {
				return false, nil
			}
			return true, issuerOf(vj)
		}
		return s
	}
	var sg jwt.Signer
	var vf jwt.Verifier
	s.produce = func(in probeIn) ([]byte, error) {
		if sg == nil {
			sg = prim(s.key).(jwt.Signer)
		}
		t, err := sg.SignAndEncode(rawJWTOf(in))
		return []byte(t), err
	}
	s.accepts = func(y []byte, in probeIn) (bool, []byte) {
		if vf == nil {
			vf = prim(pubOf(s.key)).(jwt.Verifier)
		}
		vj, err := vf.VerifyAndDecode(string(y), jwtValidator)
		if err != nil {
			return false, nil
		}
		return true, issuerOf(vj)
	}
	return s
}

func indexOf(xs []string, x string) int {
	for i, y := range xs {
		if x == y {
			return i
		}
	}
	panic("kidtwins: unknown " + x)
}

// ---------------------------------------------------------------- the kid rule, computed here

func kidOfID(id uint32) string {
	var b [4]byte
	binary.BigEndian.PutUint32(b[:], id)
	return base64.RawURLEncoding.EncodeToString(b[:])
}

// idOfKid: the key id whose TINK kid is exactly kid (ok=false if kid is not the canonical encoding of 4 bytes).
func idOfKid(kid string) (uint32, bool) {
	b, err := base64.RawURLEncoding.Strict().DecodeString(kid)
	if err != nil || len(b) != 4 || base64.RawURLEncoding.EncodeToString(b) != kid {
		return 0, false
	}
	return binary.BigEndian.Uint32(b), true
}

// keyKid: the kid a token must carry for this key (has=false: the key has none).
func keyKid(s *kspec) (kid string, has bool) {
	switch s.variant {
	case vT:
		return kidOfID(s.id), true
	case vK:
		return s.custom, true
	}
	return "", false
}

func kidDesc(s *kspec) string {
	switch s.variant {
	case vT:
		return fmt.Sprintf("TINK id %#08x kid %q", s.id, kidOfID(s.id))
	case vK:
		return fmt.Sprintf("CUSTOM kid %+q (% x) id %#08x", s.custom, s.custom, s.id)
	}
	return fmt.Sprintf("IGNORED (no kid) id %#08x", s.id)
}

type tokenFacts struct {
	ok      bool // three parts, header is a JSON object with a string "alg" and a string-or-absent "kid"
	alg     string
	kid     string
	hasKid  bool
	signed  string
	sig     []byte
	payload bool // payload part is a JSON object
}

func factsOf(tok string) tokenFacts {
	var f tokenFacts
	parts := strings.Split(tok, ".")
	if len(parts) != 3 {
		return f
	}
	dec := base64.RawURLEncoding.Strict()
	hb, err1 := dec.DecodeString(parts[0])
	pb, err2 := dec.DecodeString(parts[1])
	sb, err3 := dec.DecodeString(parts[2])
	if err1 != nil || err2 != nil || err3 != nil {
		return f
	}
	var hdr map[string]any
	if json.Unmarshal(hb, &hdr) != nil {
		return f
	}
	alg, isStr := hdr["alg"].(string)
	if !isStr {
		return f
	}
	f.alg = alg
	if k, present := hdr["kid"]; present {
		ks, isStr := k.(string)
		if !isStr {
			return f
		}
		f.kid, f.hasKid = ks, true
	}
	if _, crit := hdr["crit"]; crit {
		return f
	}
	var pl map[string]any
	f.payload = json.Unmarshal(pb, &pl) == nil
	f.signed, f.sig = parts[0]+"."+parts[1], sb
	f.ok = f.payload
	return f
}

// indepAccepts: must key s accept the token? MAC / signature valid under s's material AND the header
// names s's algorithm AND the kid rule: a TINK key needs a kid header equal to its kid, a key with a
// custom kid accepts an absent kid header or one EQUAL to its kid, a key without kid ignores the header.
func indepAccepts(s *kspec, f tokenFacts) bool {
	if !f.ok || f.alg != s.jm.alg.name || !s.jm.rawValid(f) {
		return false
	}
	switch s.variant {
	case vT:
		return f.hasKid && f.kid == kidOfID(s.id)
	case vK:
		return !f.hasKid || f.kid == s.custom
	}
	return true
}

// ---------------------------------------------------------------- the pairs

// kd describes a key's kid: TINK (kid = canonical base64url of the id), CUSTOM, or none.
type kd struct {
	v   int
	kid string
}

type kidPair struct {
	class string
	a, b  kd
}

func swapCase(s string) string {
	return strings.Map(func(r rune) rune {
		switch {
		case r >= 'a' && r <= 'z':
			return r - 32
		case r >= 'A' && r <= 'Z':
			return r + 32
		}
		return r
	}, s)
}

// flipSome flips the ASCII case of the letters selected by mask (bit i = i-th byte).
func flipSome(s string, mask uint64) string {
	b := []byte(s)
	for i := range b {
		if mask>>uint(i)&1 == 1 && (b[i]|0x20) >= 'a' && (b[i]|0x20) <= 'z' {
			b[i] ^= 0x20
		}
	}
	return string(b)
}

func tinkPair(class, a, b string) kidPair {
	ia, oka := idOfKid(a)
	ib, okb := idOfKid(b)
	if !oka || !okb || ia == ib {
		panic(fmt.Sprintf("kidtwins: %q / %q are not two canonical TINK kids", a, b))
	}
	return kidPair{class, kd{vT, a}, kd{vT, b}}
}

const b64Letters = "ABCDEFGHIJKLMNOPQRSTUVWXYZabcdefghijklmnopqrstuvwxyz"
const b64Alphabet = b64Letters + "0123456789-_"

func kidPairs(rng *hlib.Rng, nRandom int) []kidPair {
	var ps []kidPair
	// --- TINK / TINK: ids constructed from case-flipped base64url strings (the last character keeps its
	// low four bits zero — A, Q, g, w — so that six characters are the canonical encoding of four bytes)
	ps = append(ps,
		tinkPair("tink-case-all", "abcdeQ", "ABCDEQ"),
		tinkPair("tink-case-one", "abcdeQ", "abcdEQ"),
		tinkPair("tink-case-first", "abcdeQ", "AbcdeQ"),
		tinkPair("tink-case-several", "abcdeQ", "AbCdeQ"),
		tinkPair("tink-case-all", "ZZZZZg", "zzzzzg"),
		tinkPair("tink-case-id0", "AAAAAA", "aaaaaA"),
		tinkPair("tink-case-all", "Tink_A", "tINK_A"),
		tinkPair("tink-case-mixed-digits", "a1B2cw", "A1b2Cw"),
		tinkPair("tink-case-mixed-dash", "x-Y_zQ", "X-y_ZQ"),
		tinkPair("tink-one-letter-differs", "abcdeQ", "abcdfQ"),
		tinkPair("tink-last-char-differs", "abcdeQ", "abcdeg"),
	)
	for i := 0; i < nRandom; i++ {
		b := make([]byte, 6)
		for j := 0; j < 5; j++ {
			if rng.Chance(80) {
				b[j] = b64Letters[rng.Intn(len(b64Letters))]
			} else {
				b[j] = b64Alphabet[rng.Intn(len(b64Alphabet))]
			}
		}
		b[0] = b64Letters[rng.Intn(len(b64Letters))]
		b[5] = "AQgw"[rng.Intn(4)]
		a := string(b)
		c := flipSome(a, uint64(1+rng.Intn(31)))
		if c == a {
			c = flipSome(a, 1)
		}
		ps = append(ps, tinkPair("tink-case-random", a, c))
	}
	// --- TINK / CUSTOM: a RAW key with a custom kid that is a near miss of the TINK kid
	for _, k := range []string{"abcdeQ", "a-b_cQ"} {
		near := []struct{ class, kid string }{
			{"tink-vs-custom-identical", k}, // control: the SAME kid string, accepted both ways
			{"tink-vs-custom-case", swapCase(k)},
			{"tink-vs-custom-case-one", flipSome(k, 1)},
			{"tink-vs-custom-noncanonical-base64", k[:5] + string(b64Alphabet[strings.IndexByte(b64Alphabet, k[5])+1])},
			{"tink-vs-custom-padded", k + "=="},
			{"tink-vs-custom-trailing-newline", k + "\n"},
			{"tink-vs-custom-trailing-space", k + " "},
			{"tink-vs-custom-leading-space", " " + k},
			{"tink-vs-custom-trailing-nul", k + "\x00"},
			{"tink-vs-custom-prefix", k[:5]},
			{"tink-vs-custom-extended", k + "A"},
			{"tink-vs-custom-std-alphabet", strings.NewReplacer("-", "+", "_", "/").Replace(k)},
			{"tink-vs-custom-empty", ""},
		}
		for _, n := range near {
			if n.kid == k && n.class != "tink-vs-custom-identical" {
				continue
			}
			ps = append(ps, kidPair{n.class, kd{vT, k}, kd{vK, n.kid}})
		}
		ps = append(ps, kidPair{"tink-vs-absent", kd{vT, k}, kd{vR, ""}})
	}
	// --- CUSTOM / CUSTOM
	cc := []struct{ class, a, b string }{
		{"custom-case-ascii", "Signing-Key-2024", "signing-key-2024"},
		{"custom-case-ascii", "Signing-Key-2024", "SIGNING-KEY-2024"},
		{"custom-case-one", "kid-a", "kid-A"},
		{"custom-fold-kelvin", "Key-1", "\u212Aey-1"}, // K vs KELVIN SIGN (strings.EqualFold equates them)
		{"custom-fold-kelvin", "key-1", "\u212Aey-1"},
		{"custom-fold-long-s", "sig", "\u017Fig"}, // s vs LATIN SMALL LETTER LONG S
		{"custom-fold-long-s", "Sig", "\u017Fig"},
		{"custom-fold-dotted-I", "id-1", "\u0130d-1"},        // ToLower maps U+0130 to i
		{"custom-fold-dotless-i", "ID-1", "\u0131D-1"},       // ToUpper maps U+0131 to I
		{"custom-fold-angstrom", "\u00C5-key", "\u212B-key"}, // A WITH RING vs ANGSTROM SIGN
		{"custom-fold-greek", "\u03C3-key", "\u03C2-key"},    // sigma vs final sigma
		{"custom-fold-sharp-s", "stra\u00DFe", "strasse"},
		{"custom-trailing-nul", "kid", "kid\x00"},
		{"custom-trailing-space", "kid", "kid "},
		{"custom-leading-space", "kid", " kid"},
		{"custom-trailing-newline", "kid", "kid\n"},
		{"custom-trailing-tab", "kid", "kid\t"},
		{"custom-embedded-nul", "kid", "kid\x00tail"},
		{"custom-zero-width", "kid", "kid\u200B"},
		{"custom-bom", "kid", "\uFEFFkid"},
		{"custom-prefix", "key", "key-2"},
		{"custom-prefix", "key-2024", "key-20"},
		{"custom-nfc-nfd", "caf\u00E9", "cafe\u0301"},
		{"custom-fullwidth", "kid", "\uFF4B\uFF49\uFF44"},
		{"custom-empty-vs-space", "", " "},
		{"custom-empty-vs-nul", "", "\x00"},
		{"custom-identical", "same-kid", "same-kid"}, // control: accepted both ways
	}
	for _, c := range cc {
		ps = append(ps, kidPair{c.class, kd{vK, c.a}, kd{vK, c.b}})
	}
	for i := 0; i < nRandom; i++ {
		n := 1 + rng.Intn(12)
		b := make([]byte, n)
		for j := range b {
			b[j] = b64Alphabet[rng.Intn(len(b64Alphabet))]
		}
		b[rng.Intn(n)] = b64Letters[rng.Intn(len(b64Letters))]
		a := string(b)
		c := flipSome(a, 1+rng.U64()%(1<<uint(n)-1))
		if c == a {
			c = swapCase(a)
		}
		ps = append(ps, kidPair{"custom-case-random", kd{vK, a}, kd{vK, c}})
	}
	ps = append(ps,
		kidPair{"custom-empty-vs-absent", kd{vK, ""}, kd{vR, ""}},
		kidPair{"custom-vs-absent", kd{vK, "kid"}, kd{vR, ""}},
	)
	return ps
}

// ---------------------------------------------------------------- running one pair

type twinRun struct {
	o      *hlib.Out
	rng    *hlib.Rng
	fMAC   *family
	fSig   *family
	caseNo *int
}

// member of a keyset shape: which of the four keys, its status, primary flag
type shapeEntry struct {
	who     byte // 'X' producer twin, 'Y' the other twin, 'S' unrelated material with X's kid, 'U' unrelated material and kid
	status  keyset.KeyStatus
	primary bool
}

var (
	en  = keyset.Enabled
	dis = keyset.Disabled
	des = keyset.Destroyed
)

var quickShapes = [][]shapeEntry{
	{{'Y', en, true}},
	{{'U', en, true}, {'Y', en, false}, {'S', en, false}},
	{{'X', dis, false}, {'Y', en, true}},
	{{'Y', en, true}, {'X', en, false}},
}

var moreShapes = [][]shapeEntry{
	{{'X', en, true}, {'Y', en, false}},
	{{'Y', en, true}, {'S', en, false}},
	{{'X', des, false}, {'Y', en, true}, {'U', dis, false}},
	{{'Y', dis, false}, {'X', en, true}},
	{{'Y', dis, false}, {'U', en, true}},
	{{'U', en, false}, {'Y', en, false}, {'X', en, true}},
}

func (t *twinRun) family(m *jmat) *family {
	if m.alg.fam == "HS" {
		return t.fMAC
	}
	return t.fSig
}

// build turns a descriptor into a key of material m; ids of keys without TINK kid come from fresh.
func buildKD(m *jmat, d kd, fresh func() uint32) *kspec {
	if d.v == vT {
		id, ok := idOfKid(d.kid)
		if !ok {
			panic("kidtwins: not a TINK kid: " + d.kid)
		}
		s := m.spec(vT, id, "")
		if got := kidOfID(s.id); got != d.kid {
			panic("kidtwins: id does not re-encode to its kid")
		}
		return s
	}
	return m.spec(d.v, fresh(), d.kid)
}

// keysetEnv makes the env (monitoring client, handles, plain and recording verifier, optionally the
// producing primitive) of one keyset.
func (t *twinRun) keysetEnv(f *family, members []*kspec, wantProducer bool) *env {
	e := &env{o: t.o, rng: t.rng, f: f, caseNo: *t.caseNo, keyIdx: map[key.Key]int{}, spy: &spyLog{}, nontriv: true, build: "kidtwins"}
	internalregistry.ClearMonitoringClient()
	e.client = fakemonitoring.NewClient("c05-kidtwins")
	if err := internalregistry.RegisterMonitoringClient(e.client); err != nil {
		panic(err)
	}
	km := keyset.NewManager()
	for _, s := range members {
		opts := []keyset.KeyOpts{keyset.WithFixedID(s.id), keyset.WithStatus(s.status)}
		if s.primary {
			opts = append(opts, keyset.AsPrimary())
		}
		_, err := km.AddKeyWithOpts(s.key, internalapi.Token{}, opts...)
		addErr(err)
		e.members = append(e.members, s)
	}
	addErr(km.SetAnnotations(annotations))
	priv := must(km.Handle())
	ok := e.checkHandle(priv, "private/symmetric", false)
	acc := priv
	if f.public {
		pm := keyset.NewManagerFromHandle(must(priv.Public()))
		addErr(pm.SetAnnotations(annotations))
		acc = must(pm.Handle())
		ok = e.checkHandle(acc, "public", true) && ok
	}
	if !ok {
		return nil
	}
	cfg := &spyCfg{fam: f.name, log: e.spy}
	e.w1, e.w2 = &wrapped{}, &wrapped{}
	ks := strings.TrimPrefix(e.keysLine(), "W keys ")
	if f.public {
		v1, err1 := jwt.NewVerifier(acc)
		v2, err2 := jwt.NewVerifierWithConfig(acc, cfg)
		if err1 != nil || err2 != nil {
			vio(t.o, "jwtsig keyset [%s]: the verifier factory refuses a valid keyset: %v / %v", ks, err1, err2)
			return nil
		}
		for i, v := range []jwt.Verifier{v1, v2} {
			v := v
			[]*wrapped{e.w1, e.w2}[i].accept = func(y []byte, in probeIn) ([]byte, error) {
				vj, err := v.VerifyAndDecode(string(y), jwtValidator)
				if err != nil {
					return nil, err
				}
				return issuerOf(vj), nil
			}
		}
		if wantProducer {
			s1, err := jwt.NewSigner(priv)
			if err != nil {
				vio(t.o, "jwtsig keyset [%s]: the signer factory refuses a valid keyset: %v", ks, err)
				return nil
			}
			e.w1.produce = func(in probeIn) ([]byte, error) {
				tk, err := s1.SignAndEncode(rawJWTOf(in))
				return []byte(tk), err
			}
		}
		return e
	}
	m1, err1 := jwt.NewMAC(priv)
	m2, err2 := jwt.NewMACWithConfig(priv, cfg)
	if err1 != nil || err2 != nil {
		vio(t.o, "jwtmac keyset [%s]: the factory refuses a valid keyset: %v / %v", ks, err1, err2)
		return nil
	}
	for i, a := range []jwt.MAC{m1, m2} {
		a := a
		w := []*wrapped{e.w1, e.w2}[i]
		w.accept = func(y []byte, in probeIn) ([]byte, error) {
			vj, err := a.VerifyMACAndDecode(string(y), jwtValidator)
			if err != nil {
				return nil, err
			}
			return issuerOf(vj), nil
		}
		w.produce = func(in probeIn) ([]byte, error) {
			tk, err := a.ComputeMACAndEncode(rawJWTOf(in))
			return []byte(tk), err
		}
	}
	return e
}

// tvio: at most one report per kind of message and algorithm family (hlib keeps 20 in total).
var tvioSeen = map[string]bool{}

func tvio(e *env, format string, a ...any) {
	k := format + "/" + e.members[0].jm.alg.fam
	if !tvioSeen[k] {
		tvioSeen[k] = true
		e.o.Violate(format, a...)
	}
}

func (e *env) describeMembers() string {
	parts := make([]string, len(e.members))
	for i, m := range e.members {
		p := ""
		if m.primary {
			p = " primary"
		}
		parts[i] = fmt.Sprintf("{%s%s material %s: %s}", statusLetter[m.status], p, m.jm.name, kidDesc(m))
	}
	return strings.Join(parts, " ")
}

// probeIndep verifies tok with the keyset primitives of e; the acceptance row given to the model and to the
// Go-side oracle is the independent one.
func (e *env) probeIndep(tok string, in probeIn, what string, spied, measured bool) (accepted bool) {
	o, f := e.o, e.f
	facts := factsOf(tok)
	bits := make([]byte, len(e.members))
	var want []uint32 // ids of the ENABLED keys that must accept
	for i, m := range e.members {
		bits[i] = '0'
		if indepAccepts(m, facts) {
			bits[i] = '1'
			if m.status == keyset.Enabled {
				want = append(want, m.id)
			}
		}
	}
	desc := func() string {
		return fmt.Sprintf("%s %s: keyset %s; token %s; header kid %+q (present=%v); expected row %s; token %q", f.name, e.members[0].label, e.describeMembers(), what, facts.kid, facts.hasKid, bits, tok)
	}
	// the op lines of this probe, preceded by a comment both sides echo: a replay is cut at the last comment
	c := fmt.Sprintf("# kidtwins %s keyset=%s; token %s; header kid=%+q; token=%q", e.members[0].label, e.describeMembers(), what, facts.kid, tok)
	o.Emit(c, c, false)
	o.Emit(e.keysLine(), "ok", false)
	y := []byte(tok)
	r1 := e.call(f.accCtx, "accept", func() ([]byte, error) { return e.w1.accept(y, in) })
	r2, wi := r1, -1
	if spied {
		e.spy.reset()
		r2 = e.call(f.accCtx, "accept(spied)", func() ([]byte, error) { return e.w2.accept(y, in) })
		wi = e.workerIdx()
	}
	o.Emit("!W tryall "+string(bits), r1.res(), true)

	inWant := func(id int64) bool {
		for _, w := range want {
			if int64(w) == id {
				return true
			}
		}
		return false
	}
	verdict := "reject"
	if r1.ok {
		verdict = "accept"
	}
	o.Count("kidtwins/" + f.name + "/" + verdict)
	switch {
	case r1.ok && len(want) == 0:
		tvio(e, "ACCEPTED a token that no ENABLED key of the keyset may accept (MAC/signature valid AND kid byte-equal): %s", desc())
	case !r1.ok && len(want) > 0:
		tvio(e, "REJECTED a token that ENABLED key %#08x must accept (MAC/signature valid and kid byte-equal): %s", want[0], desc())
	case r1.ok && !inWant(r1.logged):
		tvio(e, "accepted, but the logged key id %#08x is not a key with this material AND exactly this kid (those are %#08x): %s", r1.logged, want, desc())
	case r1.ok && !bytes.Equal(r1.out, payloadOf(f, in)):
		tvio(e, "accepted, but the verified token's issuer is %q: %s", r1.out, desc())
	}
	if r1.ok != r2.ok || r1.logged != r2.logged || !bytes.Equal(r1.out, r2.out) {
		tvio(e, "factory New and NewWithConfig(registry primitives) disagree: %v/%d vs %v/%d (%s)", r1.ok, r1.logged, r2.ok, r2.logged, desc())
	}
	if spied && r2.ok {
		switch {
		case wi < 0:
			tvio(e, "accepted, but no key's primitive reported a successful call (%s)", desc())
		case !inWant(int64(e.members[wi].id)):
			tvio(e, "the call was served by key %#08x (%s), which must not accept this token: %s", e.members[wi].id, kidDesc(e.members[wi]), desc())
		case int64(e.members[wi].id) != r2.logged:
			tvio(e, "key %d did the work but key id %d was logged (%s)", e.members[wi].id, r2.logged, desc())
		}
	}
	// the single-key JWT primitives against the same independent row
	for i, m := range e.members {
		if !measured {
			break
		}
		got, _ := m.accepts(y, in)
		if got != (bits[i] == '1') {
			tvio(e, "the single-key JWT primitive of key %#08x (%s) answers accept=%v, the independent rule (raw MAC/signature check + exact kid) says %v: %s", m.id, kidDesc(m), got, bits[i] == '1', desc())
		}
	}
	return r1.ok
}

func (t *twinRun) pair(mA, mU *jmat, p kidPair, pi int) {
	o, rng := t.o, t.rng
	f := t.family(mA)
	*t.caseNo++
	o.Case()
	tape.next()
	o.Count("kidtwins/pairs/" + mA.alg.fam)
	o.Count("kidtwins/class/" + p.class)
	used := map[uint32]bool{}
	for _, d := range []kd{p.a, p.b} {
		if id, ok := idOfKid(d.kid); ok && d.v == vT {
			used[id] = true
		}
	}
	freshID := func() uint32 {
		for {
			id := uint32(rng.U64())
			if !used[id] {
				used[id] = true
				return id
			}
		}
	}
	shapes := quickShapes
	if hlib.Thorough() {
		shapes = append(append([][]shapeEntry{}, quickShapes...), moreShapes...)
	}
	// quick tier, families with slow signing / key construction (RSA, ML-DSA): one direction per pair
	// (alternating) and the single-key primitive's token for every fourth pair only
	all := hlib.Thorough()
	slow := !all && (mA.alg.fam == "RS" || mA.alg.fam == "PS" || mA.alg.fam == "ML")
	for dir := 0; dir < 2; dir++ {
		if slow && dir != (pi+int(*hlib.FlagSeed))%2 {
			continue
		}
		o.Count("kidtwins/directions/" + mA.alg.fam)
		dx, dy := p.a, p.b
		if dir == 1 {
			dx, dy = p.b, p.a
		}
		X, Y := buildKD(mA, dx, freshID), buildKD(mA, dy, freshID)
		if X.key == Y.key { // identical descriptors (controls): two members never share one key object
			Y = mA.newSpec(Y.variant, Y.id, Y.custom)
		}
		S := buildKD(mU, dx, freshID) // other material, X's very kid (for a TINK kid: X's id — never together with X)
		var U *kspec
		switch dy.v {
		case vT:
			U = mU.spec(vT, freshID(), "")
		case vK:
			U = mU.spec(vK, freshID(), "unrelated-kid")
		default:
			U = mU.spec(vR, freshID(), "")
		}
		who := map[byte]*kspec{'X': X, 'Y': Y, 'S': S, 'U': U}
		mk := func(sh []shapeEntry) []*kspec {
			out := make([]*kspec, len(sh))
			for i, se := range sh {
				c := *who[se.who]
				c.status, c.primary = se.status, se.primary
				out[i] = &c
			}
			return out
		}
		what := fmt.Sprintf("made by twin X = {material a: %s} (class %s, other twin Y = {%s})", kidDesc(X), p.class, kidDesc(Y))
		in := probeIn{pt: rng.Bytes(rng.Pick(0, 1, 7)), x: nil}

		// --- the keyset holding only X: produces (logs X, header carries X's kid) and accepts its own tokens
		eX := t.keysetEnv(f, mk([]shapeEntry{{'X', en, true}}), true)
		if eX == nil {
			return
		}
		tape.next()
		rp := eX.call(f.prodCtx, "produce", func() ([]byte, error) { return eX.w1.produce(in) })
		c := fmt.Sprintf("# kidtwins %s producer keyset=%s", X.label, eX.describeMembers())
		o.Emit(c, c, false)
		o.Emit(eX.keysLine(), "ok", false)
		res := "fail"
		if rp.ok {
			res = fmt.Sprintf("ok %d -", rp.logged)
		}
		o.Emit("!W producer", res, true)
		if !rp.ok {
			vio(o, "%s: the keyset primitive of a one-key keyset cannot produce (keyset %s)", f.name, eX.describeMembers())
			return
		}
		tok := string(rp.out)
		facts := factsOf(tok)
		wantKid, wantHas := keyKid(X)
		if !facts.ok || facts.alg != mA.alg.name || facts.hasKid != wantHas || facts.kid != wantKid {
			vio(o, "%s: the token %q produced by keyset %s does not carry alg %q and the key's kid (has kid %v, %+q)", f.name, tok, eX.describeMembers(), mA.alg.name, facts.hasKid, facts.kid)
		}
		toks := []struct{ tok, how string }{{tok, "by the keyset primitive"}}
		if !slow || pi%4 == 0 {
			tape.next()
			tok1b, err := X.produce(in)
			if err != nil {
				panic(fmt.Sprintf("kidtwins: single-key %s cannot produce: %v", X.label, err))
			}
			toks = append(toks, struct{ tok, how string }{string(tok1b), "by the single-key primitive"})
		}
		// control: the producer's own keyset accepts (otherwise the section would be vacuous)
		for ti, tk := range toks {
			if !eX.probeIndep(tk.tok, in, tk.how+" "+what, all || ti == 0, true) {
				vio(o, "%s: control failed, the keyset holding only the producing key rejects its token %q (%s)", f.name, tk.tok, eX.describeMembers())
				return
			}
			o.Count("kidtwins/control/own-keyset-accepts")
		}
		yAccepts := indepAccepts(Y, facts)
		if yAccepts {
			o.Count("kidtwins/other-twin-must-accept/" + p.class)
		} else {
			o.Count("kidtwins/other-twin-must-reject/" + p.class)
		}
		for si, sh := range shapes {
			e := t.keysetEnv(f, mk(sh), false)
			if e == nil {
				return
			}
			n := 1
			if si == 0 {
				n = 2 // the keyset holding only the other twin sees both tokens
			}
			if n > len(toks) {
				n = len(toks)
			}
			for _, tk := range toks[:n] {
				acc := e.probeIndep(tk.tok, in, tk.how+" "+what, all || si == 3 || (si == 1 && !slow), all || si == 0)
				o.Count(fmt.Sprintf("kidtwins/shape%d/%s", si, map[bool]string{true: "accept", false: "reject"}[acc]))
			}
		}
	}
}

// genRSAOnce: one 2048-bit RSA key per run from crypto/rsa reading the deterministic tape (the 0-or-1 byte
// of randutil.MaybeReadByte cannot shift the tape: see detTape).
func genRSAOnce() *rsaVals {
	tape.next()
	k, err := rsa.GenerateKey(rand.Reader, 2048)
	if err != nil || k.N.BitLen() != 2048 || k.E != 65537 || len(k.Primes) != 2 {
		panic(fmt.Sprintf("kidtwins: crypto/rsa.GenerateKey(2048): %v", err))
	}
	return &rsaVals{n: k.N.Bytes(), p: k.Primes[0].Bytes(), q: k.Primes[1].Bytes(), d: k.D.Bytes()}
}

func runKidTwins(o *hlib.Out, fams []*family, caseNo *int) {
	t := &twinRun{o: o, rng: hlib.NewRng(*hlib.FlagSeed, "c05/kidtwins"), caseNo: caseNo}
	for _, f := range fams {
		switch f.name {
		case "jwtmac":
			t.fMAC = f
		case "jwtsig":
			t.fSig = f
		}
	}
	defer internalregistry.ClearMonitoringClient()
	twinRSA := genRSAOnce()
	fixedRSA := &rsaVals{n: b64(rsaN), p: b64(rsaP), q: b64(rsaQ), d: b64(rsaD)}
	nRandom := hlib.N(3, 12)
	for fi, fam := range jfams {
		// quick: one algorithm per family — rotating with the seed where that is cheap, the fast P-256 /
		// ML-DSA-44 otherwise (P-521 and ML-DSA-87 cost 20-40 times as much per operation)
		ais := []int{int(*hlib.FlagSeed+uint64(fi)) % 3}
		if fam == "ES" || fam == "ML" {
			ais = []int{0}
		}
		if hlib.Thorough() {
			ais = []int{0, 1, 2}
		}
		for _, ai := range ais {
			alg := jalg{fam, ai, jalgNames[fam][ai]}
			mrng := hlib.NewRng(*hlib.FlagSeed, "c05/kidtwins/material/"+alg.name)
			mA, mU := newJMat(alg, "a", mrng, twinRSA), newJMat(alg, "u", mrng, fixedRSA)
			o.Count("kidtwins/alg/" + alg.name)
			for pi, p := range kidPairs(hlib.NewRng(*hlib.FlagSeed, "c05/kidtwins/pairs/"+alg.name), nRandom) {
				t.pair(mA, mU, p, pi)
			}
		}
	}
}

// ---------------------------------------------------------------- the generated JWT keysets of runCase

// kidVariantForeign: a key with the MATERIAL of a member and a kid that is a near miss of that member's kid.
func (e *env) kidVariantForeign(vr *hlib.Rng, ids *idAlloc) *kspec {
	m := e.members[vr.Intn(len(e.members))]
	custom := func(kid string) *kspec {
		forceCustomKID = &kid
		s := e.mk(m.kind, vK, ids.next(), m.matSeed, nil)
		if forceCustomKID != nil || s.custom != kid {
			panic("kidtwins: custom kid not taken")
		}
		return s
	}
	near := func(kid string) string {
		switch vr.Intn(7) {
		case 0:
			return kid + " "
		case 1:
			return kid + "\x00"
		case 2:
			return kid + "=="
		case 3:
			return kid + "\n"
		case 4:
			if len(kid) > 1 {
				return kid[:len(kid)-1]
			}
			return kid + "0"
		case 5:
			return " " + kid
		}
		if c := swapCase(kid); c != kid {
			return c
		}
		return kid + "\t"
	}
	switch m.variant {
	case vT:
		kid := kidOfID(m.id)
		if vr.Chance(65) {
			// another TINK id whose kid differs from the member's only in letter case
			for try := 0; try < 8; try++ {
				c := flipSome(kid, uint64(1+vr.Intn(31)))
				if id2, ok := idOfKid(c); ok && c != kid && !ids.used[id2] {
					ids.used[id2] = true
					e.o.Count(e.f.name + "/structure/foreign-kid-variant/tink-case")
					return e.mk(m.kind, vT, id2, m.matSeed, nil)
				}
			}
		}
		e.o.Count(e.f.name + "/structure/foreign-kid-variant/custom-near-tink")
		return custom(near(kid))
	case vK:
		e.o.Count(e.f.name + "/structure/foreign-kid-variant/custom-near-custom")
		return custom(near(m.custom))
	}
	return nil
}

// jwtRowByConstruction: the acceptance row of a genuine token of e.cur that holds by construction — member i
// accepts iff it has the producing key's material (same stream, same algorithm) and the kid rule holds with
// byte equality. The MEASURED row (single-key primitives) must equal it; enabled reports whether some ENABLED
// member accepts by construction.
func (e *env) jwtRowByConstruction(y []byte, measured string, src string) (enabled bool) {
	c := e.cur
	ckid, chas := keyKid(c)
	for i, m := range e.members {
		same := m.matSeed == c.matSeed && m.kind == c.kind
		want := same
		if want {
			switch m.variant {
			case vT:
				want = chas && ckid == kidOfID(m.id)
			case vK:
				want = !chas || ckid == m.custom
			}
		}
		if want && m.status == keyset.Enabled {
			enabled = true
		}
		if want != (measured[i] == '1') {
			vio(e.o, "%s: the single-key primitive of member key %#08x (%s) answers accept=%v on a token of a %s key {%s} (same material: %v); by construction (same material AND kid byte-equal) it must answer %v; token %q",
				e.f.name, m.id, kidDesc(m), measured[i] == '1', src, kidDesc(c), same, want, y)
		}
	}
	e.o.Count(e.f.name + "/rows-checked-by-construction")
	return enabled
}

func (e *env) describeJWTMembers() string {
	parts := make([]string, len(e.members))
	for i, m := range e.members {
		p := ""
		if m.primary {
			p = " primary"
		}
		parts[i] = fmt.Sprintf("{%s%s %s material %s: %s}", statusLetter[m.status], p, m.label, m.matSeed, kidDesc(m))
	}
	return strings.Join(parts, " ")
}
