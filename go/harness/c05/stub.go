//go:build verif

package main

// Key managers for custom type URLs whose primitives are RAW (prefix-less) tink primitives. Keys of
// these types become protoserialization.FallbackProtoKey values, for which the registry config
// returns a legacyprimitive — so every factory takes its `isLegacyPrimitive` branch and wraps the
// primitive with the full*Adapter types (prefix + LEGACY 0x00 suffix handling).

import (
	"bytes"
	"crypto/ed25519"
	"crypto/subtle"
	"errors"
	"fmt"

	"google.golang.org/protobuf/proto"

	aeadsubtle "github.com/tink-crypto/tink-go/v2/aead/subtle"
	"github.com/tink-crypto/tink-go/v2/core/registry"
	daeadsubtle "github.com/tink-crypto/tink-go/v2/daead/subtle"
	"github.com/tink-crypto/tink-go/v2/internal/protoserialization"
	"github.com/tink-crypto/tink-go/v2/key"
	macsubtle "github.com/tink-crypto/tink-go/v2/mac/subtle"
	prfsubtle "github.com/tink-crypto/tink-go/v2/prf/subtle"
	tinkpb "github.com/tink-crypto/tink-go/v2/proto/tink_go_proto"
	sigsubtle "github.com/tink-crypto/tink-go/v2/signature/subtle"
	streamsubtle "github.com/tink-crypto/tink-go/v2/streamingaead/subtle"
	"github.com/tink-crypto/tink-go/v2/tink"
)

const (
	urlAEAD    = "type.googleapis.com/verif.c05.RawAead"
	urlDAEAD   = "type.googleapis.com/verif.c05.RawDaead"
	urlMAC     = "type.googleapis.com/verif.c05.RawMac"
	urlSigPriv = "type.googleapis.com/verif.c05.RawSigPriv"
	urlSigPub  = "type.googleapis.com/verif.c05.RawSigPub"
	urlHybPriv = "type.googleapis.com/verif.c05.RawHybPriv"
	urlHybPub  = "type.googleapis.com/verif.c05.RawHybPub"
	urlStream  = "type.googleapis.com/verif.c05.RawStream"
	urlPRF     = "type.googleapis.com/verif.c05.RawPrf"
)

type stubKM struct {
	url string
	mk  func(val []byte) (any, error)
}

func (m *stubKM) Primitive(v []byte) (any, error) { return m.mk(v) }
func (m *stubKM) NewKey([]byte) (proto.Message, error) {
	return nil, errors.New("verif stub: key generation unsupported")
}
func (m *stubKM) NewKeyData([]byte) (*tinkpb.KeyData, error) {
	return nil, errors.New("verif stub: key generation unsupported")
}
func (m *stubKM) DoesSupport(u string) bool { return u == m.url }
func (m *stubKM) TypeURL() string           { return m.url }

type stubPrivKM struct {
	stubKM
	pub func(val []byte) (*tinkpb.KeyData, error)
}

func (m *stubPrivKM) PublicKeyData(v []byte) (*tinkpb.KeyData, error) { return m.pub(v) }

// toy hybrid scheme: "public" and "private" value are the same 16 bytes; the ciphertext is
// AES-GCM(value) with the context info as associated data. Deliberately implements only one
// method each (the hybrid factories refuse anything that also is a tink.AEAD).
type toyHybridEnc struct{ a tink.AEAD }

func (t *toyHybridEnc) Encrypt(pt, ctx []byte) ([]byte, error) { return t.a.Encrypt(pt, ctx) }

type toyHybridDec struct{ a tink.AEAD }

func (t *toyHybridDec) Decrypt(ct, ctx []byte) ([]byte, error) { return t.a.Decrypt(ct, ctx) }

// The value of a stub key is [n][n header bytes][key material]. The raw primitive prepends the
// header to everything it outputs and insists on it on input: with a header equal to another
// key's 5-byte output prefix, a RAW key's outputs collide with that key's prefix bucket — the case
// where the prefix-map iterator must continue into the RAW bucket.
func encVal(hdr, mat []byte) []byte {
	return append(append([]byte{byte(len(hdr))}, hdr...), mat...)
}

func splitVal(v []byte) (hdr, mat []byte) {
	n := int(v[0])
	return v[1 : 1+n], v[1+n:]
}

var errHdr = errors.New("verif stub: header mismatch")

type hdrAEAD struct {
	h []byte
	a tink.AEAD
}

func (t *hdrAEAD) Encrypt(pt, ad []byte) ([]byte, error) {
	ct, err := t.a.Encrypt(pt, ad)
	return append(append([]byte{}, t.h...), ct...), err
}
func (t *hdrAEAD) Decrypt(ct, ad []byte) ([]byte, error) {
	if !bytes.HasPrefix(ct, t.h) {
		return nil, errHdr
	}
	return t.a.Decrypt(ct[len(t.h):], ad)
}

type hdrDAEAD struct {
	h []byte
	a tink.DeterministicAEAD
}

func (t *hdrDAEAD) EncryptDeterministically(pt, ad []byte) ([]byte, error) {
	ct, err := t.a.EncryptDeterministically(pt, ad)
	return append(append([]byte{}, t.h...), ct...), err
}
func (t *hdrDAEAD) DecryptDeterministically(ct, ad []byte) ([]byte, error) {
	if !bytes.HasPrefix(ct, t.h) {
		return nil, errHdr
	}
	return t.a.DecryptDeterministically(ct[len(t.h):], ad)
}

type hdrMAC struct {
	h []byte
	a tink.MAC
}

func (t *hdrMAC) ComputeMAC(d []byte) ([]byte, error) {
	m, err := t.a.ComputeMAC(d)
	return append(append([]byte{}, t.h...), m...), err
}
func (t *hdrMAC) VerifyMAC(m, d []byte) error {
	if !bytes.HasPrefix(m, t.h) {
		return errHdr
	}
	return t.a.VerifyMAC(m[len(t.h):], d)
}

type hdrSigner struct {
	h []byte
	a tink.Signer
}

func (t *hdrSigner) Sign(d []byte) ([]byte, error) {
	s, err := t.a.Sign(d)
	return append(append([]byte{}, t.h...), s...), err
}

type hdrVerifier struct {
	h []byte
	a tink.Verifier
}

func (t *hdrVerifier) Verify(s, d []byte) error {
	if !bytes.HasPrefix(s, t.h) {
		return errHdr
	}
	return t.a.Verify(s[len(t.h):], d)
}

// raw primitives per stub type (also used by the harness to compute, independently of the
// factories' adapters, what prefix||raw means).
func rawAEAD(v []byte) (tink.AEAD, error) {
	h, m := splitVal(v)
	a, err := aeadsubtle.NewAESGCM(m)
	if len(h) == 0 || err != nil {
		return a, err
	}
	return &hdrAEAD{h, a}, nil
}
func rawDAEAD(v []byte) (tink.DeterministicAEAD, error) {
	h, m := splitVal(v)
	a, err := daeadsubtle.NewAESSIV(m)
	if len(h) == 0 || err != nil {
		return a, err
	}
	return &hdrDAEAD{h, a}, nil
}

// rawMAC: the material is [tag length][HMAC-SHA256 key]; tag lengths below 10 (not offered by any
// real key type) are obtained by truncating the 16-byte tag — they reach wrappedMAC's
// "a MAC of at most 5 bytes is rejected outright" rule.
func rawMAC(v []byte) (tink.MAC, error) {
	h, m := splitVal(v)
	var a tink.MAC
	a, err := macsubtle.NewHMAC("SHA256", m[1:], 16)
	if err != nil {
		return nil, err
	}
	if n := int(m[0]); n != 16 {
		a = &truncMAC{a, n}
	}
	if len(h) == 0 {
		return a, nil
	}
	return &hdrMAC{h, a}, nil
}

type truncMAC struct {
	a tink.MAC
	n int
}

func (t *truncMAC) ComputeMAC(d []byte) ([]byte, error) {
	m, err := t.a.ComputeMAC(d)
	if err != nil {
		return nil, err
	}
	return m[:t.n], nil
}
func (t *truncMAC) VerifyMAC(m, d []byte) error {
	w, err := t.a.ComputeMAC(d)
	if err != nil {
		return err
	}
	if subtle.ConstantTimeCompare(w[:t.n], m) != 1 {
		return errors.New("verif stub: invalid mac")
	}
	return nil
}
func rawSigner(v []byte) (tink.Signer, error) {
	h, m := splitVal(v)
	a, err := sigsubtle.NewED25519Signer(m)
	if len(h) == 0 || err != nil {
		return a, err
	}
	return &hdrSigner{h, a}, nil
}
func rawVerifier(v []byte) (tink.Verifier, error) {
	h, m := splitVal(v)
	a, err := sigsubtle.NewED25519Verifier(m)
	if len(h) == 0 || err != nil {
		return a, err
	}
	return &hdrVerifier{h, a}, nil
}
func rawHybEnc(v []byte) (tink.HybridEncrypt, error) {
	a, err := rawAEAD(v)
	return &toyHybridEnc{a}, err
}
func rawHybDec(v []byte) (tink.HybridDecrypt, error) {
	a, err := rawAEAD(v)
	return &toyHybridDec{a}, err
}
func rawStream(v []byte) (tink.StreamingAEAD, error) {
	return streamsubtle.NewAESGCMHKDF(v, "SHA256", 16, 64, 0)
}
func rawPRF(v []byte) (*prfsubtle.HMACPRF, error) { return prfsubtle.NewHMACPRF("SHA256", v) }

// sigPubVal: the public stub value belonging to a private stub value (same header).
func sigPubVal(priv []byte) []byte {
	h, seed := splitVal(priv)
	return encVal(h, sigPubOf(seed))
}

func sigPubOf(seed []byte) []byte {
	return []byte(ed25519.NewKeyFromSeed(seed).Public().(ed25519.PublicKey))
}

func registerStubs() {
	reg := func(km registry.KeyManager) {
		if err := registry.RegisterKeyManager(km); err != nil {
			panic(err)
		}
	}
	reg(&stubKM{urlAEAD, func(v []byte) (any, error) { return rawAEAD(v) }})
	reg(&stubKM{urlDAEAD, func(v []byte) (any, error) { return rawDAEAD(v) }})
	reg(&stubKM{urlMAC, func(v []byte) (any, error) { return rawMAC(v) }})
	reg(&stubKM{urlSigPub, func(v []byte) (any, error) { return rawVerifier(v) }})
	reg(&stubPrivKM{stubKM{urlSigPriv, func(v []byte) (any, error) { return rawSigner(v) }},
		func(v []byte) (*tinkpb.KeyData, error) {
			return &tinkpb.KeyData{TypeUrl: urlSigPub, Value: sigPubVal(v), KeyMaterialType: tinkpb.KeyData_ASYMMETRIC_PUBLIC}, nil
		}})
	reg(&stubKM{urlHybPub, func(v []byte) (any, error) { return rawHybEnc(v) }})
	reg(&stubPrivKM{stubKM{urlHybPriv, func(v []byte) (any, error) { return rawHybDec(v) }},
		func(v []byte) (*tinkpb.KeyData, error) {
			return &tinkpb.KeyData{TypeUrl: urlHybPub, Value: append([]byte(nil), v...), KeyMaterialType: tinkpb.KeyData_ASYMMETRIC_PUBLIC}, nil
		}})
	reg(&stubKM{urlStream, func(v []byte) (any, error) { return rawStream(v) }})
	reg(&stubKM{urlPRF, func(v []byte) (any, error) { return rawPRF(v) }})
}

var prefixTypes = []tinkpb.OutputPrefixType{tinkpb.OutputPrefixType_TINK, tinkpb.OutputPrefixType_CRUNCHY,
	tinkpb.OutputPrefixType_LEGACY, tinkpb.OutputPrefixType_RAW}

// stubKey builds a key.Key of a custom type URL (a FallbackProtoKey / FallbackProtoPrivateKey).
func stubKey(url string, val []byte, mt tinkpb.KeyData_KeyMaterialType, variant int, id uint32) key.Key {
	if variant == vR {
		id = 0
	}
	ser, err := protoserialization.NewKeySerialization(&tinkpb.KeyData{TypeUrl: url, Value: val, KeyMaterialType: mt}, prefixTypes[variant], id)
	if err != nil {
		panic(err)
	}
	k, err := protoserialization.ParseKey(ser)
	if err != nil {
		panic(err)
	}
	switch k.(type) {
	case *protoserialization.FallbackProtoKey, *protoserialization.FallbackProtoPrivateKey:
	default:
		panic(fmt.Sprintf("stub key of %s parsed to %T, not a fallback key", url, k))
	}
	return k
}
