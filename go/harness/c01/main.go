//go:build verif

// Harness c01: every AEAD key type against the independent implementation, both directions
// (property C01, -mode rt) and under mutation (property C02, -mode mut).
package main

import (
	"bytes"
	"fmt"
	"strings"

	"github.com/tink-crypto/tink-go/v2/aead"
	"github.com/tink-crypto/tink-go/v2/aead/aesctrhmac"
	"github.com/tink-crypto/tink-go/v2/aead/aesgcm"
	"github.com/tink-crypto/tink-go/v2/aead/aesgcmsiv"
	"github.com/tink-crypto/tink-go/v2/aead/chacha20poly1305"
	"github.com/tink-crypto/tink-go/v2/aead/subtle"
	"github.com/tink-crypto/tink-go/v2/aead/xaesgcm"
	"github.com/tink-crypto/tink-go/v2/aead/xchacha20poly1305"
	"github.com/tink-crypto/tink-go/v2/internal/verifharness/hlib"
	"github.com/tink-crypto/tink-go/v2/key"
	"github.com/tink-crypto/tink-go/v2/tink"
)

// cfg describes one AEAD instance: the model's config tokens, the real primitive, and where the
// random field sits in a ciphertext.
type cfg struct {
	model  string
	prim   tink.AEAD
	preLen int
	rndLen int
	tagLen int
	kind   string
}

var vcodes = []string{"T", "C", "R"}

func res(b []byte, err error) string {
	if err != nil {
		return "err"
	}
	return "ok " + hlib.Tok(b)
}

func rej(b []byte, err error) string {
	if err != nil {
		return "reject"
	}
	return "ok " + hlib.Tok(b)
}

func fromKey(k key.Key) (tink.AEAD, error) {
	kh, err := hlib.HandleOf(k)
	if err != nil {
		return nil, err
	}
	return aead.New(kh)
}

var ctrHashes = []struct {
	name string
	ht   aesctrhmac.HashType
	dl   int
}{{"SHA1", aesctrhmac.SHA1, 20}, {"SHA224", aesctrhmac.SHA224, 28}, {"SHA256", aesctrhmac.SHA256, 32}, {"SHA384", aesctrhmac.SHA384, 48}, {"SHA512", aesctrhmac.SHA512, 64}}

// pick builds a random AEAD configuration; ok=false with a model line when construction is
// expected to fail on both sides.
func pick(rng *hlib.Rng) (c cfg, constructErr error) {
	vi := rng.Intn(3)
	id := rng.KeyID()
	if vi == 2 {
		id = 0
	}
	pl := 5
	if vi == 2 {
		pl = 0
	}
	vs := fmt.Sprintf("%s %d", vcodes[vi], id)
	switch rng.Intn(9) {
	case 0, 1: // AES-GCM
		kl := rng.Pick(16, 32, 32, 24)
		kb := rng.Bytes(kl)
		c = cfg{model: fmt.Sprintf("gcm %s %s", hlib.Tok(kb), vs), preLen: pl, rndLen: 12, tagLen: 16, kind: "gcm"}
		if vi == 2 && rng.Chance(40) && kl != 24 {
			c.prim, constructErr = subtle.NewAESGCM(kb)
			c.kind = "gcm/subtle"
			return
		}
		ps, err := aesgcm.NewParameters(aesgcm.ParametersOpts{KeySizeInBytes: kl, IVSizeInBytes: 12, TagSizeInBytes: 16,
			Variant: []aesgcm.Variant{aesgcm.VariantTink, aesgcm.VariantCrunchy, aesgcm.VariantNoPrefix}[vi]})
		if err != nil {
			panic(err)
		}
		k, err := aesgcm.NewKey(hlib.Secret(kb), id, ps)
		if err != nil {
			panic(err)
		}
		c.prim, constructErr = fromKey(k)
	case 2, 3: // AES-CTR-HMAC
		h := ctrHashes[rng.Intn(len(ctrHashes))]
		akl := rng.Pick(16, 32, 32, 24)
		hkl := rng.Pick(16, 20, 32, 64, 65, 130)
		ivl := 12 + rng.Intn(5)
		tl := 10 + rng.Intn(h.dl-9)
		ak, hk := rng.Bytes(akl), rng.Bytes(hkl)
		c = cfg{model: fmt.Sprintf("ctrhmac %s %s %s %d %d %s", hlib.Tok(ak), hlib.Tok(hk), h.name, ivl, tl, vs), preLen: pl, rndLen: ivl, tagLen: tl, kind: "ctrhmac/" + h.name}
		if vi == 2 && rng.Chance(30) && akl != 24 {
			ctr, err := subtle.NewAESCTR(ak, ivl)
			if err != nil {
				panic(err)
			}
			m, err := hlib.SubtleHMAC(h.name, hk, tl)
			if err != nil {
				panic(err)
			}
			c.prim, constructErr = subtle.NewEncryptThenAuthenticate(ctr, m, tl)
			c.kind = "ctrhmac/subtle"
			return
		}
		ps, err := aesctrhmac.NewParameters(aesctrhmac.ParametersOpts{AESKeySizeInBytes: akl, HMACKeySizeInBytes: hkl, IVSizeInBytes: ivl,
			TagSizeInBytes: tl, HashType: h.ht, Variant: []aesctrhmac.Variant{aesctrhmac.VariantTink, aesctrhmac.VariantCrunchy, aesctrhmac.VariantNoPrefix}[vi]})
		if err != nil {
			panic(err)
		}
		k, err := aesctrhmac.NewKey(aesctrhmac.KeyOpts{AESKeyBytes: hlib.Secret(ak), HMACKeyBytes: hlib.Secret(hk), IDRequirement: id, Parameters: ps})
		if err != nil {
			panic(err)
		}
		c.prim, constructErr = fromKey(k)
	case 4, 5: // AES-GCM-SIV
		kl := rng.Pick(16, 32)
		kb := rng.Bytes(kl)
		c = cfg{model: fmt.Sprintf("gcmsiv %s %s", hlib.Tok(kb), vs), preLen: pl, rndLen: 12, tagLen: 16, kind: "gcmsiv"}
		if vi == 2 && rng.Chance(40) {
			c.prim, constructErr = subtle.NewAESGCMSIV(kb)
			c.kind = "gcmsiv/subtle"
			return
		}
		ps, err := aesgcmsiv.NewParameters(kl, []aesgcmsiv.Variant{aesgcmsiv.VariantTink, aesgcmsiv.VariantCrunchy, aesgcmsiv.VariantNoPrefix}[vi])
		if err != nil {
			panic(err)
		}
		k, err := aesgcmsiv.NewKey(hlib.Secret(kb), id, ps)
		if err != nil {
			panic(err)
		}
		c.prim, constructErr = fromKey(k)
	case 6: // ChaCha20-Poly1305
		kb := rng.Bytes(32)
		c = cfg{model: fmt.Sprintf("chacha %s %s", hlib.Tok(kb), vs), preLen: pl, rndLen: 12, tagLen: 16, kind: "chacha"}
		if vi == 2 && rng.Chance(40) {
			c.prim, constructErr = subtle.NewChaCha20Poly1305(kb)
			c.kind = "chacha/subtle"
			return
		}
		ps, err := chacha20poly1305.NewParameters([]chacha20poly1305.Variant{chacha20poly1305.VariantTink, chacha20poly1305.VariantCrunchy, chacha20poly1305.VariantNoPrefix}[vi])
		if err != nil {
			panic(err)
		}
		k, err := chacha20poly1305.NewKey(hlib.Secret(kb), id, ps)
		if err != nil {
			panic(err)
		}
		c.prim, constructErr = fromKey(k)
	case 7: // XChaCha20-Poly1305
		kb := rng.Bytes(32)
		c = cfg{model: fmt.Sprintf("xchacha %s %s", hlib.Tok(kb), vs), preLen: pl, rndLen: 24, tagLen: 16, kind: "xchacha"}
		if vi == 2 && rng.Chance(40) {
			c.prim, constructErr = subtle.NewXChaCha20Poly1305(kb)
			c.kind = "xchacha/subtle"
			return
		}
		ps, err := xchacha20poly1305.NewParameters([]xchacha20poly1305.Variant{xchacha20poly1305.VariantTink, xchacha20poly1305.VariantCrunchy, xchacha20poly1305.VariantNoPrefix}[vi])
		if err != nil {
			panic(err)
		}
		k, err := xchacha20poly1305.NewKey(hlib.Secret(kb), id, ps)
		if err != nil {
			panic(err)
		}
		c.prim, constructErr = fromKey(k)
	default: // XAES-256-GCM (TINK / NO_PREFIX only)
		if vi == 1 {
			vi = 0
			vs = fmt.Sprintf("T %d", id)
		}
		kb := rng.Bytes(32)
		sl := 8 + rng.Intn(5)
		c = cfg{model: fmt.Sprintf("xaes %s %d %s", hlib.Tok(kb), sl, vs), preLen: pl, rndLen: sl + 12, tagLen: 16, kind: fmt.Sprintf("xaes/%d", sl)}
		v := xaesgcm.VariantTink
		if vi == 2 {
			v = xaesgcm.VariantNoPrefix
		}
		ps, err := xaesgcm.NewParameters(v, sl)
		if err != nil {
			panic(err)
		}
		k, err := xaesgcm.NewKey(hlib.Secret(kb), id, ps)
		if err != nil {
			panic(err)
		}
		c.prim, constructErr = fromKey(k)
	}
	return
}

func ptLenMax(rng *hlib.Rng, max int) int {
	if max >= 4200 && hlib.Thorough() && rng.Chance(2) {
		return rng.Pick(65535, 65536, 65537, 1<<18)
	}
	return rng.MsgLen(max)
}

func main() {
	o := hlib.Open("C01")
	defer o.Close()
	mut := *hlib.FlagMode == "mut"
	// crypto/rand is served from a seeded tape: nonces, DEKs and key ids are functions of the seed, so
	// the op lines (and hence every replay) are reproducible and the pre and main phases see the same bytes.
	tape := hlib.InstallTape(*hlib.FlagSeed)
	rng := hlib.NewRng(*hlib.FlagSeed, "c01"+*hlib.FlagMode)
	n := hlib.N(500, 15000)
	for i := 0; i < n; i++ {
		o.Case()
		c, cerr := pick(rng)
		if cerr != nil {
			o.Count("construct-err/" + c.kind)
			o.Emit("A dec "+c.model+" - -", "err", true)
			continue
		}
		o.Count(c.kind)
		exercise(o, rng, c, mut, 2, 4200)
	}
	// systematic parts (own PRNG streams, so the random stream above is unaffected by them)
	runGrid(o, hlib.NewRng(*hlib.FlagSeed, "c01grid"+*hlib.FlagMode), mut)
	runKeysets(o, hlib.NewRng(*hlib.FlagSeed, "c01ks"+*hlib.FlagMode), mut)
	runKMS(o, hlib.NewRng(*hlib.FlagSeed, "c01kms"+*hlib.FlagMode), mut)
	runAADBits(o, hlib.NewRng(*hlib.FlagSeed, "c01aad"+*hlib.FlagMode))
	// nonces / IVs that crypto/rand reaches with probability ≤ 2^-56: counter carries of every width (special.go)
	runSpecial(o, hlib.NewRng(*hlib.FlagSeed, "c01special"+*hlib.FlagMode), tape, mut)
	// last (it registers a key manager and more KMS stubs): keyset shapes × legacy-adapter / full primitives ×
	// prefix types × prefix mutations and short inputs (adapter.go)
	runAdapters(o, hlib.NewRng(*hlib.FlagSeed, "c01adp"+*hlib.FlagMode), mut)
}

// exercise runs the two-way correspondence (and, in mut mode, the mutation stream) for one AEAD
// instance on `rounds` fresh (plaintext, associated data) pairs.
func exercise(o *hlib.Out, rng *hlib.Rng, c cfg, mut bool, rounds, maxPt int) {
	for j := 0; j < rounds; j++ {
		pt := rng.Bytes(ptLenMax(rng, maxPt))
		var ad []byte
		adTok := "-"
		switch rng.Intn(4) {
		case 0:
			ad = nil
		case 1:
			ad = []byte{}
		default:
			ad = rng.Bytes(rng.MsgLen(300))
			adTok = hlib.Tok(ad)
		}
		// (a) Tink encrypts; the independent implementation must reproduce the ciphertext from the
		// random field and decrypt it.
		ct, err := c.prim.Encrypt(pt, ad)
		if err != nil {
			o.Violate("Encrypt failed (%s): %v", c.kind, err)
			continue
		}
		if len(ct) != c.preLen+c.rndLen+len(pt)+c.tagLen {
			o.Violate("ciphertext length %d is not prefix+nonce+|pt|+tag (%s)", len(ct), c.kind)
			continue
		}
		rnd := ct[c.preLen : c.preLen+c.rndLen]
		o.Emit(fmt.Sprintf("!A enc %s %s %s %s", c.model, hlib.Tok(rnd), hlib.Tok(pt), adTok), "ok "+hlib.Tok(ct), true)
		ctCopy := append([]byte(nil), ct...)
		back, err := c.prim.Decrypt(ct, ad)
		if err != nil || !bytes.Equal(back, pt) {
			o.Violate("Decrypt(Encrypt(pt)) != pt (%s, |pt|=%d)", c.kind, len(pt))
		}
		// the same buffer decrypts again (Decrypt must leave the caller's ciphertext alone)
		if !bytes.Equal(ct, ctCopy) {
			o.Violate("Decrypt modified the caller's ciphertext buffer (%s, |pt|=%d)", c.kind, len(pt))
		}
		if b2, e2 := c.prim.Decrypt(ct, ad); e2 != nil || !bytes.Equal(b2, pt) {
			o.Violate("second Decrypt of the same ciphertext buffer failed (%s, |pt|=%d)", c.kind, len(pt))
		}
		copy(ct, ctCopy)
		o.Emit(fmt.Sprintf("!A dec %s %s %s", c.model, hlib.Tok(ct), adTok), rej(back, err), true)
		// nil and empty associated data are interchangeable
		if len(ad) == 0 {
			var other []byte
			if ad == nil {
				other = []byte{}
			}
			if b2, e2 := c.prim.Decrypt(ct, other); e2 != nil || !bytes.Equal(b2, pt) {
				o.Violate("nil/empty associated data are not interchangeable (%s)", c.kind)
			}
		}
		// (b) the independent implementation encrypts with a nonce of our choosing; Tink must decrypt.
		rnd2 := rng.Bytes(c.rndLen)
		ans := hlib.Ask(fmt.Sprintf("A enc %s %s %s %s", c.model, hlib.Tok(rnd2), hlib.Tok(pt), adTok))
		if !hlib.Pre() {
			if !strings.HasPrefix(ans, "ok ") {
				o.Violate("model could not encrypt: %s", ans)
			} else {
				mct := hlib.FromTok(ans[3:])
				b3, e3 := c.prim.Decrypt(mct, ad)
				if e3 != nil || !bytes.Equal(b3, pt) {
					o.Violate("Tink does not decrypt the independent implementation's ciphertext (%s |pt|=%d |ad|=%d)", c.kind, len(pt), len(ad))
				}
				o.Emit(fmt.Sprintf("!A dec %s %s %s", c.model, hlib.Tok(mct), adTok), rej(b3, e3), true)
			}
		}
		if !mut {
			continue
		}
		// ---- C02: nothing but the genuine (ciphertext, ad) pair is accepted ----
		nm, step := 10, 6
		if lite { // systematic parts: the boundary mutations stay complete, the random ones are thinned
			nm, step = 4, 23
		}
		muts := rng.Mutations(ct, nm)
		// every field boundary: cut points and flips around prefix / nonce / body / tag edges
		for _, pos := range []int{c.preLen, c.preLen + c.rndLen, len(ct) - c.tagLen, len(ct) - 1, 0} {
			if pos >= 0 && pos < len(ct) {
				m := append([]byte(nil), ct...)
				m[pos] ^= 1 << uint(rng.Intn(8))
				muts = append(muts, hlib.Mut{Kind: "flip-boundary", Data: m})
				muts = append(muts, hlib.Mut{Kind: "cut-boundary", Data: append([]byte(nil), ct[:pos]...)})
			}
		}
		for l := 0; l <= c.preLen+c.rndLen+c.tagLen+1 && l < 80; l += 1 + rng.Intn(step) {
			muts = append(muts, hlib.Mut{Kind: "short-random", Data: rng.Bytes(l)})
		}
		if c.preLen == 5 {
			m := append([]byte(nil), ct...)
			m[0] ^= 1 // the other variant's start byte
			muts = append(muts, hlib.Mut{Kind: "other-variant", Data: m})
			muts = append(muts, hlib.Mut{Kind: "raw-of-prefixed", Data: append([]byte(nil), ct[5:]...)})
		} else {
			muts = append(muts, hlib.Mut{Kind: "prefixed-of-raw", Data: append([]byte{1, 0, 0, 0, 1}, ct...)})
		}
		for _, mu := range muts {
			var b []byte
			var e error
			if p := hlib.Recover(func() { b, e = c.prim.Decrypt(mu.Data, ad) }); p != "" {
				o.Violate("Decrypt panicked on a %s input (%s): %s", mu.Kind, c.kind, p)
				continue
			}
			o.Count("mut/" + mu.Kind)
			if e == nil && !bytes.Equal(mu.Data, ct) {
				o.Violate("Decrypt accepted a %s-mutated ciphertext (%s) ct=%s", mu.Kind, c.kind, hlib.Tok(mu.Data))
			}
			o.Emit(fmt.Sprintf("A dec %s %s %s", c.model, hlib.Tok(mu.Data), adTok), rej(b, e), true)
		}
		for _, mu := range append(rng.Mutations(ad, 3), hlib.Mut{Kind: "ad-dropped", Data: nil}, hlib.Mut{Kind: "ad-extended", Data: append(append([]byte(nil), ad...), 0)}) {
			b, e := c.prim.Decrypt(ct, mu.Data)
			if e == nil && !bytes.Equal(mu.Data, ad) {
				o.Violate("Decrypt accepted modified associated data (%s, %s)", mu.Kind, c.kind)
			}
			o.Emit(fmt.Sprintf("A dec %s %s %s", c.model, hlib.Tok(ct), hlib.Tok(mu.Data)), rej(b, e), true)
		}
	}
}
