//go:build verif

// Systematic part of harness c01: every AEAD key type with ALL its parameter values through every
// entry point (aead.New(handle), the per-key constructor, the registry key manager), and keysets
// holding several RAW keys where the key that made the ciphertext is not the first candidate.
package main

import (
	"bytes"
	"fmt"
	"strings"

	"github.com/tink-crypto/tink-go/v2/aead"
	"github.com/tink-crypto/tink-go/v2/aead/aesctrhmac"
	"github.com/tink-crypto/tink-go/v2/aead/aesgcm"
	"github.com/tink-crypto/tink-go/v2/aead/aesgcmsiv"
	"github.com/tink-crypto/tink-go/v2/aead/chacha20poly1305"
	"github.com/tink-crypto/tink-go/v2/aead/xaesgcm"
	"github.com/tink-crypto/tink-go/v2/aead/xchacha20poly1305"
	"github.com/tink-crypto/tink-go/v2/core/registry"
	"github.com/tink-crypto/tink-go/v2/internal/internalapi"
	"github.com/tink-crypto/tink-go/v2/internal/primitiveregistry"
	"github.com/tink-crypto/tink-go/v2/internal/protoserialization"
	"github.com/tink-crypto/tink-go/v2/internal/verifharness/hlib"
	"github.com/tink-crypto/tink-go/v2/key"
	"github.com/tink-crypto/tink-go/v2/keyset"
	"github.com/tink-crypto/tink-go/v2/tink"
)

// pspec is one point of the parameter space of an AEAD key type.
type pspec struct {
	fam     string // gcm ctrhmac gcmsiv chacha xchacha xaes
	keyLen  int    // AES / ChaCha key bytes
	hmacLen int
	ivLen   int
	tagLen  int
	hash    int // index into ctrHashes
	salt    int
	vi      int // 0 TINK, 1 CRUNCHY, 2 RAW
	id      uint32
}

func (s pspec) String() string {
	switch s.fam {
	case "ctrhmac":
		return fmt.Sprintf("ctrhmac aes=%d hmac=%d iv=%d tag=%d %s %s", s.keyLen, s.hmacLen, s.ivLen, s.tagLen, ctrHashes[s.hash].name, vcodes[s.vi])
	case "xaes":
		return fmt.Sprintf("xaes salt=%d %s", s.salt, vcodes[s.vi])
	}
	return fmt.Sprintf("%s key=%d %s", s.fam, s.keyLen, vcodes[s.vi])
}

// buildKey makes the key object and the model description for a parameter point (fresh key bytes).
func buildKey(s pspec, rng *hlib.Rng) (cfg, key.Key) {
	id := s.id
	pl := 5
	if s.vi == 2 {
		id, pl = 0, 0
	}
	vs := fmt.Sprintf("%s %d", vcodes[s.vi], id)
	must := func(err error) {
		if err != nil {
			panic(fmt.Sprintf("c01 grid: %v: %v", s, err))
		}
	}
	switch s.fam {
	case "gcm":
		kb := rng.Bytes(s.keyLen)
		ps, err := aesgcm.NewParameters(aesgcm.ParametersOpts{KeySizeInBytes: s.keyLen, IVSizeInBytes: 12, TagSizeInBytes: 16,
			Variant: []aesgcm.Variant{aesgcm.VariantTink, aesgcm.VariantCrunchy, aesgcm.VariantNoPrefix}[s.vi]})
		must(err)
		k, err := aesgcm.NewKey(hlib.Secret(kb), id, ps)
		must(err)
		return cfg{model: fmt.Sprintf("gcm %s %s", hlib.Tok(kb), vs), preLen: pl, rndLen: 12, tagLen: 16, kind: "gcm"}, k
	case "gcmsiv":
		kb := rng.Bytes(s.keyLen)
		ps, err := aesgcmsiv.NewParameters(s.keyLen, []aesgcmsiv.Variant{aesgcmsiv.VariantTink, aesgcmsiv.VariantCrunchy, aesgcmsiv.VariantNoPrefix}[s.vi])
		must(err)
		k, err := aesgcmsiv.NewKey(hlib.Secret(kb), id, ps)
		must(err)
		return cfg{model: fmt.Sprintf("gcmsiv %s %s", hlib.Tok(kb), vs), preLen: pl, rndLen: 12, tagLen: 16, kind: "gcmsiv"}, k
	case "chacha":
		kb := rng.Bytes(32)
		ps, err := chacha20poly1305.NewParameters([]chacha20poly1305.Variant{chacha20poly1305.VariantTink, chacha20poly1305.VariantCrunchy, chacha20poly1305.VariantNoPrefix}[s.vi])
		must(err)
		k, err := chacha20poly1305.NewKey(hlib.Secret(kb), id, ps)
		must(err)
		return cfg{model: fmt.Sprintf("chacha %s %s", hlib.Tok(kb), vs), preLen: pl, rndLen: 12, tagLen: 16, kind: "chacha"}, k
	case "xchacha":
		kb := rng.Bytes(32)
		ps, err := xchacha20poly1305.NewParameters([]xchacha20poly1305.Variant{xchacha20poly1305.VariantTink, xchacha20poly1305.VariantCrunchy, xchacha20poly1305.VariantNoPrefix}[s.vi])
		must(err)
		k, err := xchacha20poly1305.NewKey(hlib.Secret(kb), id, ps)
		must(err)
		return cfg{model: fmt.Sprintf("xchacha %s %s", hlib.Tok(kb), vs), preLen: pl, rndLen: 24, tagLen: 16, kind: "xchacha"}, k
	case "xaes":
		kb := rng.Bytes(32)
		v := xaesgcm.VariantTink
		if s.vi == 2 {
			v = xaesgcm.VariantNoPrefix
		} else if s.vi != 0 {
			panic("xaes has no CRUNCHY variant")
		}
		ps, err := xaesgcm.NewParameters(v, s.salt)
		must(err)
		k, err := xaesgcm.NewKey(hlib.Secret(kb), id, ps)
		must(err)
		return cfg{model: fmt.Sprintf("xaes %s %d %s", hlib.Tok(kb), s.salt, vs), preLen: pl, rndLen: s.salt + 12, tagLen: 16, kind: fmt.Sprintf("xaes/%d", s.salt)}, k
	case "ctrhmac":
		h := ctrHashes[s.hash]
		ak, hk := rng.Bytes(s.keyLen), rng.Bytes(s.hmacLen)
		ps, err := aesctrhmac.NewParameters(aesctrhmac.ParametersOpts{AESKeySizeInBytes: s.keyLen, HMACKeySizeInBytes: s.hmacLen, IVSizeInBytes: s.ivLen,
			TagSizeInBytes: s.tagLen, HashType: h.ht, Variant: []aesctrhmac.Variant{aesctrhmac.VariantTink, aesctrhmac.VariantCrunchy, aesctrhmac.VariantNoPrefix}[s.vi]})
		must(err)
		k, err := aesctrhmac.NewKey(aesctrhmac.KeyOpts{AESKeyBytes: hlib.Secret(ak), HMACKeyBytes: hlib.Secret(hk), IDRequirement: id, Parameters: ps})
		must(err)
		return cfg{model: fmt.Sprintf("ctrhmac %s %s %s %d %d %s", hlib.Tok(ak), hlib.Tok(hk), h.name, s.ivLen, s.tagLen, vs), preLen: pl, rndLen: s.ivLen, tagLen: s.tagLen, kind: "ctrhmac/" + h.name}, k
	}
	panic("unknown family " + s.fam)
}

// perKey is the per-key constructor of a key type: the public one where the package exports it
// (aesgcm.NewAEAD, xaesgcm.NewAEAD), the registered primitive constructor otherwise.
func perKey(k key.Key) (tink.AEAD, error) {
	switch kk := k.(type) {
	case *aesgcm.Key:
		return aesgcm.NewAEAD(kk)
	case *xaesgcm.Key:
		return xaesgcm.NewAEAD(kk, internalapi.Token{})
	}
	p, err := primitiveregistry.Primitive(k)
	if err != nil {
		return nil, err
	}
	a, ok := p.(tink.AEAD)
	if !ok {
		return nil, fmt.Errorf("not an AEAD: %T", p)
	}
	return a, nil
}

// viaKeyManager is the legacy entry point registry.Primitive(typeURL, serialized key) (always RAW);
// it is the one the KMS envelope AEAD uses for its DEKs.
func viaKeyManager(k key.Key) (tink.AEAD, error) {
	ser, err := protoserialization.SerializeKey(k)
	if err != nil {
		return nil, err
	}
	p, err := registry.Primitive(ser.KeyData().GetTypeUrl(), ser.KeyData().GetValue())
	if err != nil {
		return nil, err
	}
	a, ok := p.(tink.AEAD)
	if !ok {
		return nil, fmt.Errorf("not an AEAD: %T", p)
	}
	return a, nil
}

func someAD(rng *hlib.Rng, max int) ([]byte, string) {
	switch rng.Intn(4) {
	case 0:
		return nil, "-"
	case 1:
		return []byte{}, "-"
	}
	ad := rng.Bytes(rng.MsgLen(max))
	return ad, hlib.Tok(ad)
}

// cross checks that two primitives built from the same key through different entry points are the
// same function: each decrypts the other's ciphertexts, and b's ciphertext is the standard one.
func cross(o *hlib.Out, rng *hlib.Rng, c cfg, a, b tink.AEAD, what string, maxPt int) {
	pt := rng.Bytes(rng.MsgLen(maxPt))
	ad, adTok := someAD(rng, 64)
	ctb, err := b.Encrypt(pt, ad)
	if err != nil {
		o.Violate("Encrypt failed (%s via %s): %v", c.kind, what, err)
		return
	}
	if len(ctb) != c.preLen+c.rndLen+len(pt)+c.tagLen {
		o.Violate("ciphertext length %d is not prefix+nonce+|pt|+tag (%s via %s)", len(ctb), c.kind, what)
		return
	}
	o.Emit(fmt.Sprintf("!A enc %s %s %s %s", c.model, hlib.Tok(ctb[c.preLen:c.preLen+c.rndLen]), hlib.Tok(pt), adTok), "ok "+hlib.Tok(ctb), true)
	if back, err := a.Decrypt(ctb, ad); err != nil || !bytes.Equal(back, pt) {
		o.Violate("aead.New(handle) does not decrypt the ciphertext of the same key's %s primitive (%s |pt|=%d)", what, c.kind, len(pt))
	}
	back, err := b.Decrypt(ctb, ad)
	if err != nil || !bytes.Equal(back, pt) {
		o.Violate("Decrypt(Encrypt(pt)) != pt (%s via %s, |pt|=%d)", c.kind, what, len(pt))
	}
	o.Emit(fmt.Sprintf("!A dec %s %s %s", c.model, hlib.Tok(ctb), adTok), rej(back, err), true)
	cta, err := a.Encrypt(pt, ad)
	if err != nil {
		o.Violate("Encrypt failed (%s): %v", c.kind, err)
		return
	}
	back, err = b.Decrypt(cta, ad)
	if err != nil || !bytes.Equal(back, pt) {
		o.Violate("the %s primitive does not decrypt the ciphertext of aead.New(handle) for the same key (%s |pt|=%d)", what, c.kind, len(pt))
	}
	o.Emit(fmt.Sprintf("!A dec %s %s %s", c.model, hlib.Tok(cta), adTok), rej(back, err), true)
}

// edge: the empty and the one-byte plaintext (with empty and non-empty associated data) for a
// parameter point, deterministically: length guards that depend on a parameter show up here.
func edge(o *hlib.Out, rng *hlib.Rng, c cfg, what string) {
	for _, ptl := range []int{0, 1} {
		for _, adl := range []int{0, 1 + rng.Intn(40)} {
			pt, ad := rng.Bytes(ptl), rng.Bytes(adl)
			ct, err := c.prim.Encrypt(pt, ad)
			if err != nil {
				o.Violate("Encrypt failed (%s via %s, |pt|=%d): %v", c.kind, what, ptl, err)
				continue
			}
			if len(ct) != c.preLen+c.rndLen+len(pt)+c.tagLen {
				o.Violate("ciphertext length %d is not prefix+nonce+|pt|+tag (%s via %s)", len(ct), c.kind, what)
				continue
			}
			o.Emit(fmt.Sprintf("!A enc %s %s %s %s", c.model, hlib.Tok(ct[c.preLen:c.preLen+c.rndLen]), hlib.Tok(pt), hlib.Tok(ad)), "ok "+hlib.Tok(ct), true)
			back, err := c.prim.Decrypt(ct, ad)
			if err != nil || !bytes.Equal(back, pt) {
				o.Violate("Decrypt(Encrypt(pt)) != pt (%s via %s, |pt|=%d |ad|=%d): %v", c.kind, what, ptl, adl, err)
			}
			o.Emit(fmt.Sprintf("!A dec %s %s %s", c.model, hlib.Tok(ct), hlib.Tok(ad)), rej(back, err), true)
			o.Count("grid/edge-plaintexts")
		}
	}
}

// gridSpecs enumerates the parameter space. AES-CTR-HMAC: aes key {16,32} × iv {12..16} × hash
// {SHA1..SHA512} × tag sizes (quick: 10, 11, 16, digest-1, digest and two in between; thorough:
// every size 10..digest), HMAC key size and variant cycling; the other types completely.
func gridSpecs(rng *hlib.Rng) []pspec {
	var out []pspec
	n := 0
	nextVi := func() int { n++; return n % 3 }
	for _, fam := range []string{"gcm", "gcmsiv"} {
		for _, kl := range []int{16, 32} {
			for vi := 0; vi < 3; vi++ {
				out = append(out, pspec{fam: fam, keyLen: kl, vi: vi, id: rng.KeyID()})
			}
		}
	}
	for _, fam := range []string{"chacha", "xchacha"} {
		for vi := 0; vi < 3; vi++ {
			out = append(out, pspec{fam: fam, keyLen: 32, vi: vi, id: rng.KeyID()})
		}
	}
	for salt := 8; salt <= 12; salt++ {
		for _, vi := range []int{0, 2} {
			out = append(out, pspec{fam: "xaes", keyLen: 32, salt: salt, vi: vi, id: rng.KeyID()})
		}
	}
	hk := []int{16, 20, 32, 64, 65, 130}
	for _, akl := range []int{16, 32} {
		for iv := 12; iv <= 16; iv++ {
			for hi, h := range ctrHashes {
				var tags []int
				if hlib.Thorough() {
					for t := 10; t <= h.dl; t++ {
						tags = append(tags, t)
					}
				} else {
					seen := map[int]bool{}
					for _, t := range []int{10, 11, 16, h.dl - 1, h.dl, 12 + rng.Intn(h.dl-12), 12 + rng.Intn(h.dl-12)} {
						if t >= 10 && t <= h.dl && !seen[t] {
							seen[t] = true
							tags = append(tags, t)
						}
					}
				}
				for _, t := range tags {
					out = append(out, pspec{fam: "ctrhmac", keyLen: akl, hmacLen: hk[n%len(hk)], ivLen: iv, tagLen: t, hash: hi, vi: nextVi(), id: rng.KeyID()})
				}
			}
		}
	}
	return out
}

// lite shortens the mutation stream of exercise() for the systematic parts (mode mut).
var lite bool

func runGrid(o *hlib.Out, rng *hlib.Rng, mut bool) {
	lite = true
	defer func() { lite = false }()
	combos := map[string]bool{}
	for _, s := range gridSpecs(rng) {
		o.Case()
		c, k := buildKey(s, rng)
		c.kind = "grid/" + c.kind
		viaNew, err := fromKey(k)
		if err != nil {
			o.Violate("aead.New(handle) failed for a valid key (%v): %v", s, err)
			continue
		}
		viaKey, err := perKey(k)
		if err != nil {
			o.Violate("per-key constructor failed for a valid key (%v): %v", s, err)
			continue
		}
		combos[s.String()] = true
		o.Count("grid/" + s.fam)
		o.Count("grid/variant=" + vcodes[s.vi])
		switch s.fam {
		case "ctrhmac":
			o.Count(fmt.Sprintf("grid/ctrhmac/iv=%d", s.ivLen))
			o.Count("grid/ctrhmac/hash=" + ctrHashes[s.hash].name)
			o.Count(fmt.Sprintf("grid/ctrhmac/aes=%d", s.keyLen))
			o.Count(fmt.Sprintf("grid/ctrhmac/iv=%d,variant=%s", s.ivLen, vcodes[s.vi]))
			switch s.tagLen {
			case 10:
				o.Count("grid/ctrhmac/tag=min")
			case ctrHashes[s.hash].dl:
				o.Count("grid/ctrhmac/tag=digest")
			default:
				o.Count("grid/ctrhmac/tag=between")
			}
		case "xaes":
			o.Count(fmt.Sprintf("grid/xaes/salt=%d", s.salt))
		default:
			o.Count(fmt.Sprintf("grid/%s/key=%d", s.fam, s.keyLen))
		}
		// entry point 1: aead.New(handle): full two-way correspondence (+ mutation stream in mode mut)
		c.prim = viaNew
		exercise(o, rng, c, mut, 1, 130)
		// entry point 2: the per-key constructor, full as well, and cross-checked against entry point 1
		c2 := c
		c2.prim = viaKey
		c2.kind = c.kind + "/perkey"
		exercise(o, rng, c2, mut, 1, 130)
		edge(o, rng, c, "aead.New")
		edge(o, rng, c2, "per-key")
		cross(o, rng, c, viaNew, viaKey, "per-key", 70)
		o.Count("grid/entry/new+perkey")
		// entry point 3 (RAW keys): the key manager, registry.Primitive(typeURL, serialized key)
		if s.vi == 2 {
			viaKM, err := viaKeyManager(k)
			if err != nil {
				o.Violate("registry.Primitive failed for a valid serialized key (%v): %v", s, err)
				continue
			}
			cross(o, rng, c, viaNew, viaKM, "key-manager", 70)
			o.Count("grid/entry/keymanager")
		}
	}
	o.Hist["grid/distinct-parameter-points"] = len(combos)
}

// runKeysets: keysets with several RAW keys (same type, or mixed types), optionally a prefixed key in
// front; ciphertexts made by every member — in particular by keys that are not the first RAW
// candidate — must decrypt, the caller's buffer must survive, and a second Decrypt of it must work.
func runKeysets(o *hlib.Out, rng *hlib.Rng, mut bool) {
	fams := []string{"gcm", "gcmsiv", "ctrhmac", "chacha", "xchacha", "xaes", "mixed"}
	n := hlib.N(140, 1400)
	if mut {
		n = hlib.N(70, 700)
	}
	for t := 0; t < n; t++ {
		o.Case()
		fam := fams[t%len(fams)]
		nk := 2 + rng.Intn(3)
		type member struct {
			c    cfg
			k    key.Key
			prim tink.AEAD
		}
		var ms []member
		km := keyset.NewManager()
		primary := rng.Intn(nk)
		if rng.Chance(25) { // a prefixed key in the set must not get in the way
			s := randSpec(rng, fams[rng.Intn(6)], 0)
			c, k := buildKey(s, rng)
			if _, err := km.AddKeyWithOpts(k, internalapi.Token{}); err != nil {
				// an id collision with a later random id is not interesting here
				panic(err)
			}
			_ = c
		}
		for i := 0; i < nk; i++ {
			f := fam
			if f == "mixed" {
				f = fams[rng.Intn(6)]
			}
			c, k := buildKey(randSpec(rng, f, 2), rng)
			p, err := perKey(k)
			if err != nil {
				panic(err)
			}
			var opts []keyset.KeyOpts
			if i == primary {
				opts = append(opts, keyset.AsPrimary())
			}
			if _, err := km.AddKeyWithOpts(k, internalapi.Token{}, opts...); err != nil {
				panic(err)
			}
			ms = append(ms, member{c, k, p})
		}
		kh, err := km.Handle()
		if err != nil {
			panic(err)
		}
		ks, err := aead.New(kh)
		if err != nil {
			o.Violate("aead.New failed on a keyset of %d RAW %s keys: %v", nk, fam, err)
			continue
		}
		o.Count("keyset/" + fam)
		o.Count(fmt.Sprintf("keyset/size=%d", nk))
		for i, m := range ms {
			// all randomness of this member is drawn up front: the pre phase leaves early
			pt := rng.Bytes(rng.MsgLen(200))
			ad, adTok := someAD(rng, 64)
			nonce := rng.Bytes(m.c.rndLen)
			bits := []uint{uint(rng.Intn(8)), uint(rng.Intn(8)), uint(rng.Intn(8)), uint(rng.Intn(8))}
			var ct []byte
			src := "tink"
			if i%2 == 0 {
				// made by the independent implementation with a nonce of our choosing
				src = "model"
				ans := hlib.Ask(fmt.Sprintf("A enc %s %s %s %s", m.c.model, hlib.Tok(nonce), hlib.Tok(pt), adTok))
				if hlib.Pre() {
					continue
				}
				if !strings.HasPrefix(ans, "ok ") {
					o.Violate("model could not encrypt: %s", ans)
					continue
				}
				ct = hlib.FromTok(ans[3:])
			} else {
				ct, err = m.prim.Encrypt(pt, ad)
				if err != nil {
					o.Violate("Encrypt failed (%s): %v", m.c.kind, err)
					continue
				}
				o.Emit(fmt.Sprintf("!A enc %s %s %s %s", m.c.model, hlib.Tok(ct[:m.c.rndLen]), hlib.Tok(pt), adTok), "ok "+hlib.Tok(ct), true)
			}
			if i > 0 {
				o.Count("keyset/ct-by-non-first-key")
			} else {
				o.Count("keyset/ct-by-first-key")
			}
			saved := append([]byte(nil), ct...)
			b1, e1 := ks.Decrypt(ct, ad)
			if e1 != nil || !bytes.Equal(b1, pt) {
				o.Violate("keyset of %d RAW keys (%s) does not decrypt a %s-made ciphertext of its key #%d (%s, |pt|=%d |ad|=%d): %v", nk, fam, src, i, m.c.kind, len(pt), len(ad), e1)
			}
			o.Emit(fmt.Sprintf("!A dec %s %s %s", m.c.model, hlib.Tok(saved), adTok), rej(b1, e1), true)
			if !bytes.Equal(ct, saved) {
				o.Violate("Decrypt through a keyset of %d RAW keys (%s) modified the caller's ciphertext buffer (ciphertext of key #%d, %s, |pt|=%d)", nk, fam, i, m.c.kind, len(pt))
			}
			b2, e2 := ks.Decrypt(ct, ad)
			if e2 != nil || !bytes.Equal(b2, pt) {
				o.Violate("second Decrypt of the same ciphertext buffer failed (keyset of %d RAW %s keys, ciphertext of key #%d, %s, |pt|=%d)", nk, fam, i, m.c.kind, len(pt))
			}
			o.Count("keyset/double-decrypt")
			if mut {
				for bi, pos := range []int{0, m.c.rndLen, len(saved) - m.c.tagLen, len(saved) - 1} {
					if pos < 0 || pos >= len(saved) {
						continue
					}
					mc := append([]byte(nil), saved...)
					mc[pos] ^= 1 << bits[bi]
					b, e := ks.Decrypt(mc, ad)
					if e == nil {
						o.Violate("keyset of RAW keys accepted a flipped ciphertext (%s, key #%d) ct=%s", m.c.kind, i, hlib.Tok(mc))
					}
					o.Count("mut/keyset-flip")
					o.Emit(fmt.Sprintf("A dec %s %s %s", m.c.model, hlib.Tok(mc), adTok), rej(b, e), true)
				}
			}
		}
		// the keyset encrypts with its primary; that key alone decrypts
		pt := rng.Bytes(rng.MsgLen(100))
		ad, adTok := someAD(rng, 32)
		ct, err := ks.Encrypt(pt, ad)
		if err != nil {
			o.Violate("keyset Encrypt failed: %v", err)
			continue
		}
		pm := ms[primary]
		b, e := pm.prim.Decrypt(ct, ad)
		if e != nil || !bytes.Equal(b, pt) {
			o.Violate("the primary key's primitive does not decrypt the keyset's ciphertext (%s)", pm.c.kind)
		}
		o.Emit(fmt.Sprintf("!A dec %s %s %s", pm.c.model, hlib.Tok(ct), adTok), rej(b, e), true)
	}
}

// randSpec draws a parameter point of the family (vi: 0 prefixed TINK/CRUNCHY, 2 RAW).
func randSpec(rng *hlib.Rng, fam string, vi int) pspec {
	if vi == 0 && fam != "xaes" && rng.Bool() {
		vi = 1
	}
	s := pspec{fam: fam, vi: vi, id: uint32(rng.U64()) | 1, keyLen: 32}
	switch fam {
	case "gcm", "gcmsiv":
		s.keyLen = rng.Pick(16, 32)
	case "xaes":
		s.salt = 8 + rng.Intn(5)
	case "ctrhmac":
		s.keyLen = rng.Pick(16, 32)
		s.hash = rng.Intn(len(ctrHashes))
		s.hmacLen = rng.Pick(16, 20, 32, 64, 65, 130)
		s.ivLen = 12 + rng.Intn(5)
		s.tagLen = 10 + rng.Intn(ctrHashes[s.hash].dl-9)
	}
	return s
}
