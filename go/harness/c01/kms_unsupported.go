//go:build verif

// KMS envelope AEAD, unsupported DEK templates (called from runKMS after misconfigured()).
//
// NewKMSEnvelopeAEAD2 cannot report an error and documents that an object built with a DEK template
// outside the allow-list "always fails"; NewKMSEnvelopeAEADWithContext and the KmsEnvelopeAeadKey key
// manager return an error instead. misconfigured() feeds such objects arbitrary strings and genuine
// envelopes of a SUPPORTED instance — all of which fail for a second reason too (the DEK does not
// parse under the other type URL). Here the independent side hand-assembles, for every unsupported
// template whose type URL has a registered key manager, the envelope such an object WOULD produce if it
// could encrypt:
//
//	be32(|wrapped|) ‖ wrapped = KEK(serialized DEK of that very type) ‖ payload = DEK-primitive.Encrypt(pt, ad)
//
// and demands (Go-side oracle; C02: "Decrypt returns plaintext only for a pair produced by Encrypt under
// the same key" — an object whose Encrypt fails has produced nothing):
//   - no call panics;
//   - an object whose Encrypt fails never releases plaintext: Decrypt of the crafted envelope fails with the
//     right, a modified, and nil associated data, for several wrapped-DEK lengths of the stub KEK and for a
//     real AEAD as KEK, and (mode mut) for mutations of the crafted envelope; no plaintext next to an error;
//   - the three ways to get an object (NewKMSEnvelopeAEAD2, NewKMSEnvelopeAEADWithContext, registry.Primitive
//     of a hand-made KmsEnvelopeAeadKey) agree on whether the template is usable;
//   - a SUPPORTED instance over the same KEK gives the crafted envelope the verdict derived from the DEK's
//     bytes read under the supported type URL (reject, unless they happen to parse and the payload verifies).
//
// If an "unsupported" template turns out to be usable (Encrypt succeeds — e.g. a later Tink version extends
// the allow-list), the object must round-trip and is only counted. Supported type URLs with unusable
// formats stay with misconfigured() (count only, DESIGN.md §9.6).
//
// Model lines: `!A envparse` ties the framing of every crafted envelope to envelopeParse, `A envparse`
// compares the supported instance's parse verdict (observed at the stub), `!A dec xaes …` shows that the
// crafted XAES payload is a genuine ciphertext of the plaintext under the wrapped DEK.
package main

import (
	"bytes"
	"context"
	"crypto/rand"
	"encoding/binary"
	"errors"
	"fmt"

	"google.golang.org/protobuf/proto"

	"github.com/tink-crypto/tink-go/v2/aead"
	"github.com/tink-crypto/tink-go/v2/aead/subtle"
	"github.com/tink-crypto/tink-go/v2/core/registry"
	"github.com/tink-crypto/tink-go/v2/daead"
	"github.com/tink-crypto/tink-go/v2/internal/verifharness/hlib"
	"github.com/tink-crypto/tink-go/v2/mac"
	"github.com/tink-crypto/tink-go/v2/prf"
	kmsenvpb "github.com/tink-crypto/tink-go/v2/proto/kms_envelope_go_proto"
	tinkpb "github.com/tink-crypto/tink-go/v2/proto/tink_go_proto"
	xaespb "github.com/tink-crypto/tink-go/v2/proto/x_aes_gcm_go_proto"
	"github.com/tink-crypto/tink-go/v2/streamingaead"
	"github.com/tink-crypto/tink-go/v2/tink"
)

const (
	urlKMSEnv = "type.googleapis.com/google.crypto.tink.KmsEnvelopeAeadKey"
	// custom AEAD key types of this section (generating key managers; adapter.go's verif.c01.RawAesGcm
	// refuses key generation and is registered only later). The second one carries a supported type URL
	// as a proper prefix.
	urlDekStub  = "type.googleapis.com/verif.c01.DekAesGcm"
	urlDekStub2 = urlGCM + "VerifC01"
)

// dekStubKM: key = 16 or 32 raw AES-GCM key bytes (format: one byte, the key size; default 32).
type dekStubKM struct{ url string }

func (dekStubKM) Primitive(v []byte) (any, error) {
	if len(v) != 16 && len(v) != 32 {
		return nil, errors.New("verif dek stub: invalid key")
	}
	return subtle.NewAESGCM(v)
}
func (dekStubKM) NewKey([]byte) (proto.Message, error) {
	return nil, errors.New("verif dek stub: not a proto key")
}
func (m dekStubKM) NewKeyData(format []byte) (*tinkpb.KeyData, error) {
	n := 32
	if len(format) == 1 && format[0] == 16 {
		n = 16
	}
	k := make([]byte, n)
	if _, err := rand.Read(k); err != nil { // the harness's tape
		return nil, err
	}
	return &tinkpb.KeyData{TypeUrl: m.url, Value: k, KeyMaterialType: tinkpb.KeyData_SYMMETRIC}, nil
}
func (m dekStubKM) DoesSupport(u string) bool { return u == m.url }
func (m dekStubKM) TypeURL() string           { return m.url }

var dekStubRegistered bool

func setLen32(env []byte, n uint32) []byte {
	m := cp(env)
	binary.BigEndian.PutUint32(m, n)
	return m
}

type udTemplate struct {
	name string
	t    *tinkpb.KeyTemplate
}

// unsupportedTemplates: the class, as an ordered list (never a map).
func unsupportedTemplates(innerURIs []string) []udTemplate {
	var ts []udTemplate
	add := func(name string, t *tinkpb.KeyTemplate) { ts = append(ts, udTemplate{name, t}) }
	// XAES-256-GCM: every exported template, and every salt size × both variants
	add("XAES256GCM192BitNonce", aead.XAES256GCM192BitNonceKeyTemplate())
	add("XAES256GCM192BitNonceNoPrefix", aead.XAES256GCM192BitNonceNoPrefixKeyTemplate())
	add("XAES256GCM160BitNonce", aead.XAES256GCM160BitNonceKeyTemplate())
	add("XAES256GCM160BitNonceNoPrefix", aead.XAES256GCM160BitNonceNoPrefixKeyTemplate())
	for salt := 8; salt <= 12; salt++ {
		opt := tinkpb.OutputPrefixType_RAW
		if salt%2 == 1 {
			opt = tinkpb.OutputPrefixType_TINK
		}
		add(fmt.Sprintf("XAES-salt%d/%v", salt, opt), dekTemplate(pspec{fam: "xaes", salt: salt}, opt))
	}
	// a KMS envelope key template as DEK template (over stub KMS keys of its own)
	for i, inner := range []*tinkpb.KeyTemplate{aead.AES128GCMKeyTemplate(), aead.XChaCha20Poly1305KeyTemplate(), aead.AES256CTRHMACSHA256KeyTemplate()} {
		if kt, err := aead.CreateKMSEnvelopeAEADKeyTemplate(innerURIs[i], inner); err == nil {
			if i == 1 {
				kt.OutputPrefixType = tinkpb.OutputPrefixType_TINK
			}
			add(fmt.Sprintf("nested-KmsEnvelope(%d)", i), kt)
		}
	}
	// custom AEAD key types behind a registry.KeyManager
	add("custom-AEAD-km/32", &tinkpb.KeyTemplate{TypeUrl: urlDekStub, OutputPrefixType: tinkpb.OutputPrefixType_RAW})
	add("custom-AEAD-km/16", &tinkpb.KeyTemplate{TypeUrl: urlDekStub, Value: []byte{16}, OutputPrefixType: tinkpb.OutputPrefixType_TINK})
	add("custom-AEAD-km/supported-url-as-prefix", &tinkpb.KeyTemplate{TypeUrl: urlDekStub2, OutputPrefixType: tinkpb.OutputPrefixType_RAW})
	// registered key types whose primitive is not a tink.AEAD: error, no panic
	add("HMACSHA256Tag128", mac.HMACSHA256Tag128KeyTemplate())
	add("AESCMACTag128", mac.AESCMACTag128KeyTemplate())
	add("AESSIV", daead.AESSIVKeyTemplate())
	add("AES128GCMHKDF4KB", streamingaead.AES128GCMHKDF4KBKeyTemplate())
	add("AES128CTRHMACSHA256Segment4KB", streamingaead.AES128CTRHMACSHA256Segment4KBKeyTemplate())
	add("HMACSHA256PRF", prf.HMACSHA256PRFKeyTemplate())
	add("HKDFSHA256PRF", prf.HKDFSHA256PRFKeyTemplate())
	// type URLs without a key manager that resemble a supported one (the DEK is then a genuine AES-GCM key)
	add("unregistered/AesGcmKey+X", &tinkpb.KeyTemplate{TypeUrl: urlGCM + "X", Value: aead.AES128GCMKeyTemplate().Value, OutputPrefixType: tinkpb.OutputPrefixType_RAW})
	add("unregistered/no-host", &tinkpb.KeyTemplate{TypeUrl: "google.crypto.tink.AesGcmKey", Value: aead.AES128GCMKeyTemplate().Value, OutputPrefixType: tinkpb.OutputPrefixType_RAW})
	add("unregistered/upper-case", &tinkpb.KeyTemplate{TypeUrl: "TYPE.GOOGLEAPIS.COM/GOOGLE.CRYPTO.TINK.AESGCMKEY", Value: aead.AES128GCMKeyTemplate().Value, OutputPrefixType: tinkpb.OutputPrefixType_RAW})
	add("unregistered/trailing-space", &tinkpb.KeyTemplate{TypeUrl: urlGCM + " ", Value: aead.AES128GCMKeyTemplate().Value, OutputPrefixType: tinkpb.OutputPrefixType_RAW})
	return ts
}

// udObj is one way of obtaining an envelope AEAD object for a template.
type udObj struct {
	ctor     string
	built    bool  // the constructor yielded an object
	ctorErr  error // … or this error
	enc, dec func(in, ad []byte) ([]byte, error)
	usable   bool // Encrypt succeeded
}

func udBuild(t *tinkpb.KeyTemplate, k *kek, uri string) []*udObj {
	var objs []*udObj
	// NewKMSEnvelopeAEAD2
	{
		ob := &udObj{ctor: "NewKMSEnvelopeAEAD2"}
		if p := hlib.Recover(func() {
			a := aead.NewKMSEnvelopeAEAD2(t, k)
			if a != nil {
				ob.built, ob.enc, ob.dec = true, a.Encrypt, a.Decrypt
			} else {
				ob.ctorErr = errors.New("nil object")
			}
		}); p != "" {
			ob.ctorErr = errors.New("panic: " + p)
		}
		objs = append(objs, ob)
	}
	// NewKMSEnvelopeAEADWithContext
	{
		ob := &udObj{ctor: "NewKMSEnvelopeAEADWithContext"}
		if p := hlib.Recover(func() {
			a, err := aead.NewKMSEnvelopeAEADWithContext(t, k)
			if err == nil && a != nil {
				ob.built = true
				ob.enc = func(pt, ad []byte) ([]byte, error) { return a.EncryptWithContext(context.Background(), pt, ad) }
				ob.dec = func(ct, ad []byte) ([]byte, error) { return a.DecryptWithContext(context.Background(), ct, ad) }
			} else if ob.ctorErr = err; err == nil {
				ob.ctorErr = errors.New("nil object")
			}
		}); p != "" {
			ob.ctorErr = errors.New("panic: " + p)
		}
		objs = append(objs, ob)
	}
	// the key manager, on a hand-made KmsEnvelopeAeadKey (what a keyset read from storage holds)
	{
		ob := &udObj{ctor: "registry.Primitive(KmsEnvelopeAeadKey)"}
		ser := mustMarshal(&kmsenvpb.KmsEnvelopeAeadKey{Version: 0, Params: &kmsenvpb.KmsEnvelopeAeadKeyFormat{KekUri: uri, DekTemplate: t}})
		if p := hlib.Recover(func() {
			pr, err := registry.Primitive(urlKMSEnv, ser)
			if a, ok := pr.(tink.AEAD); err == nil && ok {
				ob.built, ob.enc, ob.dec = true, a.Encrypt, a.Decrypt
			} else if ob.ctorErr = err; err == nil {
				ob.ctorErr = errors.New("not a tink.AEAD")
			}
		}); p != "" {
			ob.ctorErr = errors.New("panic: " + p)
		}
		objs = append(objs, ob)
	}
	return objs
}

// udSupported: the supported instances the crafted envelopes are also shown to.
var udSupported = []struct {
	name string
	t    func() *tinkpb.KeyTemplate
}{
	{"AES128GCM", aead.AES128GCMKeyTemplate},
	{"AES256GCMSIV", aead.AES256GCMSIVKeyTemplate},
	{"XChaCha20Poly1305", aead.XChaCha20Poly1305KeyTemplate},
	{"AES256GCMNoPrefix", aead.AES256GCMNoPrefixKeyTemplate},
	{"AES128CTRHMACSHA256", aead.AES128CTRHMACSHA256KeyTemplate},
	{"ChaCha20Poly1305", aead.ChaCha20Poly1305KeyTemplate},
}

func unsupportedDEK(o *hlib.Out, rng *hlib.Rng, mut bool) {
	if !dekStubRegistered {
		for _, u := range []string{urlDekStub, urlDekStub2} {
			if err := registry.RegisterKeyManager(dekStubKM{url: u}); err != nil {
				panic(err)
			}
		}
		dekStubRegistered = true
	}
	// KMS keys behind the nested templates
	var innerURIs []string
	for i := 0; i < 3; i++ {
		uri := fmt.Sprintf("stub-kms://ud-inner/%d", i)
		ik := newKEK(hlib.NewRng(rng.U64(), "ud-inner-kek"))
		ik.nextLen = 33 + i
		stubClient.m[uri] = ik
		innerURIs = append(innerURIs, uri)
	}
	released := map[string]int{}
	stubLens := [][]int{{1, 48, 4096}, {2, 28, 4095}, {1, 60, 4096}}
	for ti, ut := range unsupportedTemplates(innerURIs) {
		o.Case()
		t := ut.t
		// ---- all randomness of the case up front ----
		pt := rng.Bytes([]int{0, 1, 16, 33, 100}[ti%5] + rng.Intn(3))
		ad, adTok := someAD(rng, 40)
		if ti%4 == 0 && len(ad) == 0 {
			ad = rng.Bytes(1 + rng.Intn(20))
			adTok = hlib.Tok(ad)
		}
		fakeDEK := rng.Bytes(34)
		fakePayload := rng.Bytes(12 + 16 + len(pt))
		realKey := rng.Bytes(16 + 16*(ti%2))
		wraps := make([][]byte, 0, 4)
		for _, L := range append(stubLens[ti%3], 4097) {
			wraps = append(wraps, rng.Bytes(L))
		}
		kStub := newKEK(hlib.NewRng(rng.U64(), "ud-kek"))
		kReal := newKEK(hlib.NewRng(rng.U64(), "ud-kek-real"))
		mrng := hlib.NewRng(rng.U64(), "ud-mut")
		kStub.nextLen, kReal.nextLen = 40, 40

		// ---- the DEK of the template's own type, and a payload under it ----
		class := "aead"
		dek, payload := fakeDEK, fakePayload
		var kd *tinkpb.KeyData
		var kerr error
		if p := hlib.Recover(func() { kd, kerr = registry.NewKeyData(t) }); p != "" {
			kerr = errors.New("panic: " + p)
		}
		if kerr != nil {
			// no key manager: the DEK is a genuine AES-GCM key, the payload a genuine ciphertext under it
			class = "no-key-manager"
			s := pspec{fam: "gcm", keyLen: 16}
			d, _ := makeDEK(s, hlib.NewRng(uint64(ti), "ud-gcm-dek"))
			if pr, err := registry.Primitive(urlGCM, d); err == nil {
				if c, err := pr.(tink.AEAD).Encrypt(pt, ad); err == nil {
					dek, payload = d, c
				}
			}
		} else {
			dek = kd.GetValue()
			var pr any
			var perr error
			if p := hlib.Recover(func() { pr, perr = registry.Primitive(t.GetTypeUrl(), dek) }); p != "" {
				perr = errors.New("panic: " + p)
			}
			switch a := pr.(type) {
			case tink.AEAD:
				c, err := a.Encrypt(pt, ad)
				if err != nil {
					o.Violate("KMS envelope, unsupported DEK template %s: the DEK's own AEAD could not encrypt: %v", ut.name, err)
					continue
				}
				payload = c
			case tink.DeterministicAEAD:
				class = "non-aead"
				if c, err := a.EncryptDeterministically(pt, ad); err == nil {
					payload = c
				}
			default:
				class = "non-aead"
				if perr != nil {
					class = "no-primitive"
				}
			}
		}
		o.Count("kms/unsupported/class=" + class)
		if supportedDEK[t.GetTypeUrl()] {
			panic("unsupportedTemplates lists a supported type URL")
		}
		// the crafted XAES payload is a genuine ciphertext of pt under the DEK (independent implementation)
		if t.GetTypeUrl() == urlXAES {
			m := &xaespb.XAesGcmKey{}
			if err := proto.Unmarshal(dek, m); err != nil || len(m.GetKeyValue()) != 32 {
				o.Violate("KMS envelope, unsupported DEK template %s: registry.NewKeyData did not give an XAesGcmKey: %v", ut.name, err)
				continue
			}
			o.Emit(fmt.Sprintf("!A dec xaes %s %d R 0 %s %s", hlib.Tok(m.GetKeyValue()), m.GetParams().GetSaltSize(), hlib.Tok(payload), adTok), "ok "+hlib.Tok(pt), true)
		}

		// ---- the KEKs and the crafted envelopes ----
		type crafted struct {
			k    *kek
			mode string
			w    []byte
		}
		var cs []crafted
		for _, w := range wraps {
			kStub.put(w, dek)
			cs = append(cs, crafted{kStub, "stub", w})
		}
		inner, err := subtle.NewAESGCM(realKey)
		if err != nil {
			panic(err)
		}
		kReal.inner = inner
		w, err := inner.Encrypt(dek, []byte{})
		if err != nil {
			panic(err)
		}
		cs = append(cs, crafted{kReal, "real-kek", w})
		uriStub, uriReal := fmt.Sprintf("stub-kms://ud/%d/stub", ti), fmt.Sprintf("stub-kms://ud/%d/real", ti)
		stubClient.m[uriStub], stubClient.m[uriReal] = kStub, kReal
		objsOf := map[*kek][]*udObj{kStub: udBuild(t, kStub, uriStub), kReal: udBuild(t, kReal, uriReal)}

		// ---- each object: does it encrypt? ----
		for _, k := range []*kek{kStub, kReal} {
			for _, ob := range objsOf[k] {
				if !ob.built {
					o.Count("kms/unsupported/" + ob.ctor + "/constructor-refused")
					continue
				}
				o.Count("kms/unsupported/" + ob.ctor + "/object")
				var ct []byte
				var eerr error
				if p := hlib.Recover(func() { ct, eerr = ob.enc(pt, ad) }); p != "" {
					o.Violate("KMS envelope Encrypt panicked (%s, unsupported DEK template %s): %s", ob.ctor, ut.name, p)
					continue
				}
				if eerr != nil {
					if len(ct) != 0 {
						o.Violate("KMS envelope Encrypt returned an error and %d bytes (%s, unsupported DEK template %s)", len(ct), ob.ctor, ut.name)
					}
					o.Count("kms/unsupported/" + ob.ctor + "/encrypt-refused")
					continue
				}
				// usable after all: then it must work (counted, see the file comment)
				ob.usable = true
				o.Count("kms/unsupported/" + ob.ctor + "/usable")
				var back []byte
				var derr error
				if p := hlib.Recover(func() { back, derr = ob.dec(ct, ad) }); p != "" || derr != nil || !bytes.Equal(back, pt) {
					o.Violate("KMS envelope object accepts Encrypt but does not decrypt its own output (%s, DEK template %s) ct=%s: panic=%q err=%v", ob.ctor, ut.name, hlib.Tok(ct), p, derr)
				}
			}
			// the entry points agree on whether the template can be used
			objs := objsOf[k]
			for _, ob := range objs[1:] {
				if ob.usable != objs[0].usable {
					o.Violate("KMS envelope entry points disagree about DEK template %s (type %q): %s usable=%v (constructor error: %v), %s usable=%v (constructor error: %v)",
						ut.name, t.GetTypeUrl(), objs[0].ctor, objs[0].usable, objs[0].ctorErr, ob.ctor, ob.usable, ob.ctorErr)
				}
			}
		}

		// ---- the crafted envelopes ----
		for ci, c := range cs {
			env := envelope(c.w, payload)
			want := "reject"
			if len(c.w) >= 1 && len(c.w) <= 4096 {
				want = "ok " + hlib.Tok(c.w) + " " + hlib.Tok(payload)
			}
			o.Emit(fmt.Sprintf("!A envparse %s", hlib.Tok(env)), want, true)
			o.Count(fmt.Sprintf("kms/unsupported/crafted/%s/wrapped-len=%s", c.mode, lenBucket(len(c.w))))
			ads := []struct {
				kind string
				ad   []byte
			}{{"genuine", ad}, {"nil", nil}, {"extended", append(cp(ad), byte(ci))}}
			if len(ad) > 0 {
				f := cp(ad)
				f[len(f)-1] ^= 0x80
				ads = append(ads, struct {
					kind string
					ad   []byte
				}{"flipped", f})
			}
			inputs := []hlib.Mut{{Kind: "crafted", Data: env}}
			if mut {
				L := len(c.w)
				flip := func(kind string, pos int) {
					if pos >= 0 && pos < len(env) {
						m := cp(env)
						m[pos] ^= 1 << uint(mrng.Intn(8))
						inputs = append(inputs, hlib.Mut{Kind: kind, Data: m})
					}
				}
				flip("len-flip", 3)
				flip("dek-flip", 4+mrng.Intn(L))
				flip("payload-flip", 4+L)
				flip("payload-flip", len(env)-1)
				inputs = append(inputs,
					hlib.Mut{Kind: "payload-cut", Data: cp(env[:len(env)-1])},
					hlib.Mut{Kind: "payload-dropped", Data: cp(env[:4+L])},
					hlib.Mut{Kind: "extend", Data: append(cp(env), byte(mrng.Intn(256)))},
					hlib.Mut{Kind: "len-1", Data: setLen32(env, uint32(L-1))},
					hlib.Mut{Kind: "len+1", Data: setLen32(env, uint32(L+1))})
			}
			for _, ob := range objsOf[c.k] {
				if !ob.built {
					continue
				}
				for _, in := range inputs {
					for _, a := range ads {
						if in.Kind != "crafted" && a.kind != "genuine" {
							continue
						}
						c.k.reset()
						var got []byte
						var derr error
						buf := cp(in.Data)
						p := hlib.Recover(func() { got, derr = ob.dec(buf, a.ad) })
						what := fmt.Sprintf("%s, DEK template %s (type %q, %s), %s KEK, input %s, ad %s", ob.ctor, ut.name, t.GetTypeUrl(), class, c.mode, in.Kind, a.kind)
						switch {
						case p != "":
							o.Violate("KMS envelope Decrypt panicked (%s) ct=%s ad=%s: %s", what, hlib.Tok(in.Data), hlib.Tok(a.ad), p)
						case derr == nil && !ob.usable:
							if released[ut.name+"/"+ob.ctor]++; released[ut.name+"/"+ob.ctor] > 1 {
								break // one report per template and constructor (hlib keeps 20 messages)
							}
							o.Violate("KMS envelope object whose Encrypt always fails (unsupported DEK key type) released plaintext for a hand-assembled envelope len32‖KEK(DEK)‖payload whose DEK has that same key type (%s) ct=%s ad=%s dek=%s pt=%s",
								what, hlib.Tok(in.Data), hlib.Tok(a.ad), hlib.Tok(dek), hlib.Tok(got))
						case derr == nil && (in.Kind != "crafted" || a.kind == "extended" || a.kind == "flipped" || (a.kind == "nil" && len(ad) > 0) || len(c.w) > 4096 || class != "aead"):
							o.Violate("KMS envelope Decrypt accepted a modified envelope / associated data (%s) ct=%s ad=%s pt=%s", what, hlib.Tok(in.Data), hlib.Tok(a.ad), hlib.Tok(got))
						case derr == nil && !bytes.Equal(got, pt):
							o.Violate("KMS envelope Decrypt returned a wrong plaintext (%s) ct=%s ad=%s pt=%s", what, hlib.Tok(in.Data), hlib.Tok(a.ad), hlib.Tok(got))
						case derr != nil && len(got) != 0:
							o.Violate("KMS envelope Decrypt returned an error and %d bytes of plaintext (%s) ct=%s", len(got), what, hlib.Tok(in.Data))
						case derr == nil:
							o.Count("kms/unsupported/decrypt-ok-usable-object")
						default:
							o.Count("kms/unsupported/decrypt-refused/" + in.Kind)
						}
						if !bytes.Equal(buf, in.Data) {
							o.Violate("KMS envelope Decrypt modified the caller's ciphertext buffer (%s)", what)
						}
						if !ob.usable && c.k.decCalls > 0 {
							o.Count("kms/unsupported/kek-consulted-by-failing-object")
						}
					}
				}
			}
			// a SUPPORTED instance over the same KEK: verdict derived from the DEK bytes under its type URL
			sup := udSupported[(ti+ci)%len(udSupported)]
			st := sup.t()
			var sdec func(ct, ad []byte) ([]byte, error)
			sname := "NewKMSEnvelopeAEAD2"
			if (ti+ci)%2 == 0 {
				sdec = aead.NewKMSEnvelopeAEAD2(st, c.k).Decrypt
			} else {
				sname = "NewKMSEnvelopeAEADWithContext"
				a, err := aead.NewKMSEnvelopeAEADWithContext(st, c.k)
				if err != nil {
					o.Violate("NewKMSEnvelopeAEADWithContext refused the supported DEK template %s: %v", sup.name, err)
					continue
				}
				sdec = func(ct, ad []byte) ([]byte, error) { return a.DecryptWithContext(context.Background(), ct, ad) }
			}
			wantS := "reject"
			if len(c.w) >= 1 && len(c.w) <= 4096 {
				if pr, err := registry.Primitive(st.GetTypeUrl(), dek); err == nil {
					if a, ok := pr.(tink.AEAD); ok {
						o.Count("kms/unsupported/dek-parses-under-supported-type/" + sup.name)
						b, e := a.Decrypt(payload, ad)
						wantS = rej(b, e)
					}
				}
			}
			c.k.reset()
			var got []byte
			var derr error
			if p := hlib.Recover(func() { got, derr = sdec(cp(env), ad) }); p != "" {
				o.Violate("KMS envelope Decrypt panicked (%s with supported DEK template %s, envelope crafted for unsupported template %s) ct=%s: %s", sname, sup.name, ut.name, hlib.Tok(env), p)
				continue
			}
			if rej(got, derr) != wantS {
				o.Violate("KMS envelope (%s, supported DEK template %s) on an envelope whose DEK is a %s key: got %s, want %s; ct=%s ad=%s dek=%s",
					sname, sup.name, ut.name, rej(got, derr), wantS, hlib.Tok(env), hlib.Tok(ad), hlib.Tok(dek))
			}
			o.Emit(fmt.Sprintf("A envparse %s", hlib.Tok(env)), goParse(c.k, env), true)
			o.Count("kms/unsupported/crafted-to-supported-instance")
		}
	}
}
