//go:build verif

// Special nonces (harness c01, part `runSpecial`): every AEAD with a counter is driven with nonces / IVs that
// random generation reaches with probability ~2^-56 or less — low 1, 2, 3, 4, 8, 12, 16 bytes all ones (and all
// ones minus 1, minus 2), all zero, top bit set — combined with plaintexts long enough that the counter crosses
// every carry width:
//
//   - AES-CTR-HMAC (the IV *is* the 128-bit big-endian counter block, zero-padded on the right for iv < 16):
//     iv 16 × AES-128/256 through aead.New(handle), the per-key constructor, the key manager and the legacy
//     aead/subtle.EncryptThenAuthenticate(subtle.AESCTR, HMAC); iv 12..15 likewise; iv 15 also with plaintexts of
//     257+ blocks (the carry leaves the padding byte and runs through the all-ones tail of the IV), iv 14 with
//     65537 blocks (thorough). aead/subtle.AESCTR on its own: Decrypt(iv ‖ body) and Encrypt (IV forced through the
//     crypto/rand tape) against the model's key stream.
//   - AES-GCM-SIV (the counter is the LE32 in the first four bytes of the TAG): plaintexts are CRAFTED so that the tag
//     has chosen low 32 bits (0xff, 0xffff, 0xffffff, 0xffffffff, minus 1, 2; 0; 2^31): POLYVAL is linear in each
//     plaintext block, so one block is solved for after picking the tag (own GF(2^128) arithmetic and crypto/aes
//     below; the model then confirms tag and ciphertext). All four carry widths incl. the 2^32 wrap are crossed.
//   - AES-GCM, XAES-256-GCM, ChaCha20-Poly1305, XChaCha20-Poly1305: special nonces / salts only. Their block
//     counters are not part of the nonce (GCM: J0 = nonce ‖ 00000001 for the only admitted nonce size 12; ChaCha:
//     separate 32-bit state word starting at 1), so a counter carry beyond the first byte needs ≥ 4 KiB (covered by
//     the long plaintexts here: 257+ blocks cross the first byte carry) and a wrap needs 2^32 blocks (64 / 256 GiB):
//     not reachable.
//
// Both directions: (b) the model encrypts with the chosen nonce (hlib.Ask) and Go must decrypt to the plaintext;
// (a) Go encrypts with the nonce forced through the crypto/rand tape and the model must reproduce the ciphertext
// byte for byte. In mode mut every model-made special ciphertext is also mutated (flips before / at / after the
// carry block, in nonce and tag, cuts) and must be rejected.
package main

import (
	"bytes"
	"crypto/aes"
	"encoding/binary"
	"fmt"
	"math/big"
	"strings"

	"github.com/tink-crypto/tink-go/v2/aead"
	"github.com/tink-crypto/tink-go/v2/aead/subtle"
	"github.com/tink-crypto/tink-go/v2/internal/internalapi"
	"github.com/tink-crypto/tink-go/v2/internal/verifharness/hlib"
	"github.com/tink-crypto/tink-go/v2/keyset"
	"github.com/tink-crypto/tink-go/v2/tink"
)

type noncePat struct {
	name string
	b    []byte
	d    int // blocks until the carry (0 if none intended)
}

// noncePatterns: nonces of n bytes. full: all widths and the −1/−2 neighbours (counter nonces); otherwise a
// reduced set.
func noncePatterns(rng *hlib.Rng, n int, full bool) []noncePat {
	var out []noncePat
	seen := map[string]bool{}
	add := func(name string, b []byte, d int) {
		if !seen[string(b)] {
			seen[string(b)] = true
			out = append(out, noncePat{name, b, d})
		}
	}
	ds := []int{0}
	if full {
		ds = []int{0, 1, 2}
	}
	for _, k := range []int{1, 2, 3, 4, 8, 12, 16, n} {
		if k > n {
			continue
		}
		for _, d := range ds {
			b := rng.Bytes(n)
			if k < n && b[n-k-1] == 0xff {
				b[n-k-1] = 0x3c // the carry stops right above the all-ones run
			}
			for i := n - k; i < n; i++ {
				b[i] = 0xff
			}
			b[n-1] -= byte(d)
			add(fmt.Sprintf("low%d-ones-minus%d", k, d), b, d+1)
		}
	}
	add("zero", make([]byte, n), 0)
	tb := make([]byte, n)
	tb[0] = 0x80
	add("top-bit", tb, 0)
	hi := rng.Bytes(n)
	for i := 0; i < n/2; i++ {
		hi[i] = 0xff
	}
	add("high-half-ones", hi, 0)
	lo := make([]byte, n)
	lo[n-1] = 1
	add("one", lo, 0)
	return out
}

type specCfg struct {
	c    cfg
	what string
	full bool // nonce is the counter: all patterns
	ctr  *subtle.AESCTR
	key  []byte // AES key (subtle.AESCTR check)
}

func runSpecial(o *hlib.Out, rng *hlib.Rng, tape *hlib.Tape, mut bool) {
	var cfgs []specCfg
	addKey := func(s pspec, entry string, full bool) {
		c, k := buildKey(s, rng)
		var p tink.AEAD
		var err error
		switch entry {
		case "new":
			p, err = fromKey(k)
		case "perkey":
			p, err = perKey(k)
		case "keymanager":
			p, err = viaKeyManager(k)
		}
		if err != nil {
			panic(fmt.Sprintf("c01 special: %v via %s: %v", s, entry, err))
		}
		c.prim = p
		c.kind = "special/" + s.fam
		if s.fam == "ctrhmac" {
			c.kind = fmt.Sprintf("special/ctrhmac/iv=%d", s.ivLen)
		}
		cfgs = append(cfgs, specCfg{c: c, what: entry, full: full})
	}
	hk := []int{16, 20, 32, 64, 65, 130}
	n := 0
	ctrSpec := func(akl, iv, vi int) pspec {
		n++
		h := n % len(ctrHashes)
		tags := []int{10, 16, ctrHashes[h].dl, 13}
		return pspec{fam: "ctrhmac", keyLen: akl, hmacLen: hk[n%len(hk)], ivLen: iv, tagLen: tags[n%len(tags)], hash: h, vi: vi, id: rng.KeyID()}
	}
	// AES-CTR-HMAC, iv 16: every entry point × both AES key sizes
	for _, akl := range []int{16, 32} {
		addKey(ctrSpec(akl, 16, 0), "new", true)
		addKey(ctrSpec(akl, 16, 1), "perkey", true)
		addKey(ctrSpec(akl, 16, 2), "keymanager", true)
		// legacy composition over aead/subtle.AESCTR
		ak, hkey := rng.Bytes(akl), rng.Bytes(32)
		ctr, err := subtle.NewAESCTR(ak, 16)
		if err != nil {
			panic(err)
		}
		m, err := hlib.SubtleHMAC("SHA256", hkey, 16)
		if err != nil {
			panic(err)
		}
		eta, err := subtle.NewEncryptThenAuthenticate(ctr, m, 16)
		if err != nil {
			panic(err)
		}
		cfgs = append(cfgs, specCfg{c: cfg{model: fmt.Sprintf("ctrhmac %s %s SHA256 16 16 R 0", hlib.Tok(ak), hlib.Tok(hkey)), prim: eta, rndLen: 16, tagLen: 16,
			kind: "special/ctrhmac/iv=16/subtle"}, what: "subtle", full: true, ctr: ctr, key: ak})
	}
	// iv 12..15 (zero-padded on the right: the IV is the high part of the counter)
	for iv := 12; iv <= 15; iv++ {
		addKey(ctrSpec([]int{16, 32}[iv%2], iv, iv%3), "new", false)
	}
	if hlib.Thorough() {
		for iv := 12; iv <= 15; iv++ {
			addKey(ctrSpec([]int{32, 16}[iv%2], iv, (iv+1)%3), "perkey", true)
		}
	}
	// the other families: the nonce is not the counter
	for _, kl := range []int{16, 32} {
		addKey(pspec{fam: "gcm", keyLen: kl, vi: kl / 16 % 3, id: rng.KeyID()}, "new", false)
		addKey(pspec{fam: "gcmsiv", keyLen: kl, vi: (kl/16 + 1) % 3, id: rng.KeyID()}, "new", false)
	}
	addKey(pspec{fam: "chacha", keyLen: 32, vi: 0, id: rng.KeyID()}, "new", false)
	addKey(pspec{fam: "xchacha", keyLen: 32, vi: 2, id: rng.KeyID()}, "new", false)
	addKey(pspec{fam: "xaes", keyLen: 32, salt: 8, vi: 0, id: rng.KeyID()}, "new", false)
	addKey(pspec{fam: "xaes", keyLen: 32, salt: 12, vi: 2, id: rng.KeyID()}, "perkey", false)

	for _, sc := range cfgs {
		c := sc.c
		ivLen := c.rndLen
		for _, np := range noncePatterns(rng, ivLen, sc.full) {
			// lengths: the carry falls into the last (partial) block; and a long one, 3..40 blocks
			lens := []int{16*np.d + 1 + rng.Intn(16), 16*(4+rng.Intn(37)) + rng.Intn(16)}
			if !sc.full {
				lens = lens[1:]
			}
			for _, l := range lens {
				o.Case()
				o.Count(c.kind + "/" + np.name)
				special(o, rng, tape, sc, np.b, rng.Bytes(l), mut, 16*np.d)
			}
		}
		// long plaintexts: 257+ blocks push the carry out of the lowest counter byte whatever the scheme
		// (AES-CTR-HMAC iv 15: out of the padding byte into the IV's all-ones tail)
		if !strings.Contains(c.kind, "ctrhmac") || ivLen >= 15 {
			for _, k := range []int{1, 3, ivLen} {
				iv := rng.Bytes(ivLen)
				for i := ivLen - k; i < ivLen; i++ {
					iv[i] = 0xff
				}
				if ivLen == 16 {
					iv[15] = 0 // 256 blocks until the carry out of the low byte
				}
				o.Case()
				o.Count(fmt.Sprintf("%s/long-%d", c.kind, k))
				special(o, rng, tape, sc, iv, rng.Bytes(257*16+rng.Intn(40)), mut, 256*16)
			}
		}
		if hlib.Thorough() && ivLen == 14 && strings.Contains(c.kind, "ctrhmac") {
			iv := rng.Bytes(14)
			iv[13], iv[12] = 0xff, 0xff
			o.Case()
			o.Count(c.kind + "/long-65537-blocks")
			special(o, rng, tape, sc, iv, rng.Bytes(65537*16+3), false, 65536*16)
		}
	}
	runGcmSivCrafted(o, rng, tape, mut)
	runSpecialKeysets(o, rng, tape, mut)
}

// special runs one (configuration, nonce, plaintext) point in both directions. carryAt: offset in the plaintext
// of the first block after the intended carry (mutations are placed around it).
func special(o *hlib.Out, rng *hlib.Rng, tape *hlib.Tape, sc specCfg, nonce, pt []byte, mut bool, carryAt int) {
	c := sc.c
	var ad []byte
	adTok := "-"
	if rng.Chance(60) {
		ad = rng.Bytes(rng.MsgLen(48))
		adTok = hlib.Tok(ad)
	}
	mrng := hlib.NewRng(rng.U64(), "special-mut")
	// (a) Go encrypts with the nonce forced through the crypto/rand tape (both phases: the tape stays in step)
	tape.Forced = append([]byte(nil), nonce...)
	ct, err := c.prim.Encrypt(pt, ad)
	left := len(tape.Forced)
	tape.Forced = nil
	if err != nil {
		o.Violate("Encrypt failed (%s, special nonce %s): %v", c.kind, hlib.Tok(nonce), err)
	} else if left != 0 || len(ct) != c.preLen+c.rndLen+len(pt)+c.tagLen || !bytes.Equal(ct[c.preLen:c.preLen+c.rndLen], nonce) {
		o.Violate("Encrypt did not take its %d nonce bytes from crypto/rand in one piece (%s): %d forced bytes left, ciphertext nonce %s", c.rndLen, c.kind, left,
			hlib.Tok(ct[min(len(ct), c.preLen):min(len(ct), c.preLen+c.rndLen)]))
	} else {
		o.Emit(fmt.Sprintf("!A enc %s %s %s %s", c.model, hlib.Tok(nonce), hlib.Tok(pt), adTok), "ok "+hlib.Tok(ct), true)
		back, err := c.prim.Decrypt(ct, ad)
		if err != nil || !bytes.Equal(back, pt) {
			o.Violate("Decrypt(Encrypt(pt)) != pt (%s, nonce %s, |pt|=%d)", c.kind, hlib.Tok(nonce), len(pt))
		}
		o.Emit(fmt.Sprintf("!A dec %s %s %s", c.model, hlib.Tok(ct), adTok), rej(back, err), true)
		if sc.ctr != nil {
			// aead/subtle.AESCTR on its own, IV forced: same iv ‖ body as inside the composition
			tape.Forced = append([]byte(nil), nonce...)
			raw, err := sc.ctr.Encrypt(pt)
			tape.Forced = nil
			if err != nil || !bytes.Equal(raw, ct[:len(ct)-c.tagLen]) {
				o.Violate("aead/subtle.AESCTR.Encrypt differs from the AES-CTR part of EncryptThenAuthenticate (iv %s, |pt|=%d)", hlib.Tok(nonce), len(pt))
			}
			o.Count("special/subtle.AESCTR/encrypt")
		}
	}
	// (b) the independent implementation encrypts with the same nonce; Go must decrypt
	ans := hlib.Ask(fmt.Sprintf("A enc %s %s %s %s", c.model, hlib.Tok(nonce), hlib.Tok(pt), adTok))
	if hlib.Pre() {
		return
	}
	if !strings.HasPrefix(ans, "ok ") {
		o.Violate("model could not encrypt: %s", ans)
		return
	}
	mct := hlib.FromTok(ans[3:])
	saved := append([]byte(nil), mct...)
	b3, e3 := c.prim.Decrypt(mct, ad)
	if e3 != nil || !bytes.Equal(b3, pt) {
		first := -1
		for i := range pt {
			if i >= len(b3) || b3[i] != pt[i] {
				first = i
				break
			}
		}
		o.Violate("Tink does not decrypt the independent implementation's ciphertext made with a special nonce (%s via %s, nonce %s, |pt|=%d |ad|=%d, err=%v, first wrong plaintext byte %d)",
			c.kind, sc.what, hlib.Tok(nonce), len(pt), len(ad), e3, first)
	}
	if !bytes.Equal(mct, saved) {
		o.Violate("Decrypt modified the caller's ciphertext buffer (%s)", c.kind)
	}
	o.Emit(fmt.Sprintf("!A dec %s %s %s", c.model, hlib.Tok(saved), adTok), rej(b3, e3), true)
	if sc.ctr != nil {
		// aead/subtle.AESCTR.Decrypt takes the IV from the ciphertext: chosen IV
		raw, err := sc.ctr.Decrypt(saved[:len(saved)-c.tagLen])
		if err != nil || !bytes.Equal(raw, pt) {
			o.Violate("aead/subtle.AESCTR.Decrypt(iv ‖ body) is not standard AES-CTR (iv %s, |pt|=%d): differs from the independent implementation's key stream", hlib.Tok(nonce), len(pt))
		}
		o.Count("special/subtle.AESCTR/decrypt")
	}
	if !mut {
		return
	}
	body := c.preLen + c.rndLen
	var muts []hlib.Mut
	flip := func(kind string, pos int) {
		if pos >= 0 && pos < len(saved) {
			m := append([]byte(nil), saved...)
			m[pos] ^= 1 << uint(mrng.Intn(8))
			muts = append(muts, hlib.Mut{Kind: kind, Data: m})
		}
	}
	flip("special/flip-nonce-low", body-1)
	flip("special/flip-nonce-high", c.preLen)
	flip("special/flip-before-carry", body+carryAt-1)
	flip("special/flip-at-carry", body+carryAt+mrng.Intn(16))
	flip("special/flip-last-body", len(saved)-c.tagLen-1)
	flip("special/flip-tag", len(saved)-1-mrng.Intn(c.tagLen))
	muts = append(muts, hlib.Mut{Kind: "special/cut-1", Data: append([]byte(nil), saved[:len(saved)-1]...)})
	if len(saved) > 16 {
		muts = append(muts, hlib.Mut{Kind: "special/cut-block", Data: append([]byte(nil), saved[:len(saved)-16]...)})
	}
	if len(saved)-c.tagLen > body+16 { // a block dropped from the body: every later counter shifts
		m := append(append([]byte(nil), saved[:body]...), saved[body+16:]...)
		muts = append(muts, hlib.Mut{Kind: "special/drop-first-block", Data: m})
	}
	// the nonce one up / one down with the same body: key stream shifted by one block
	for _, dlt := range []int{1, -1} {
		m := append([]byte(nil), saved...)
		for i := body - 1; i >= c.preLen; i-- {
			m[i] += byte(dlt)
			if (dlt == 1 && m[i] != 0) || (dlt == -1 && m[i] != 0xff) {
				break
			}
		}
		muts = append(muts, hlib.Mut{Kind: "special/nonce-plus-minus-1", Data: m})
	}
	muts = append(muts, mrng.Mutations(saved, 2)...)
	for _, mu := range muts {
		var b []byte
		var e error
		if p := hlib.Recover(func() { b, e = c.prim.Decrypt(mu.Data, ad) }); p != "" {
			o.Violate("Decrypt panicked on a %s input (%s): %s", mu.Kind, c.kind, p)
			continue
		}
		o.Count("mut/" + mu.Kind)
		if e == nil && !bytes.Equal(mu.Data, saved) {
			o.Violate("Decrypt accepted a %s-mutated ciphertext (%s) ct=%s", mu.Kind, c.kind, hlib.Tok(mu.Data))
		}
		o.Emit(fmt.Sprintf("A dec %s %s %s", c.model, hlib.Tok(mu.Data), adTok), rej(b, e), true)
	}
}

// ---------- AES-GCM-SIV: plaintexts crafted for a chosen tag ----------

// GF(2^128) of POLYVAL (RFC 8452 §3): x^128 + x^127 + x^126 + x^121 + 1, bit i of the little-endian integer is
// the coefficient of x^i. Written here from the RFC, independent of internal/aead/polyval.go.
var pvP = func() *big.Int {
	p := new(big.Int)
	for _, b := range []int{128, 127, 126, 121, 0} {
		p.SetBit(p, b, 1)
	}
	return p
}()

func pvFromBytes(b []byte) *big.Int {
	r := make([]byte, 16)
	for i := 0; i < 16; i++ {
		r[15-i] = b[i]
	}
	return new(big.Int).SetBytes(r)
}

func pvToBytes(x *big.Int) []byte {
	be := x.FillBytes(make([]byte, 16))
	r := make([]byte, 16)
	for i := 0; i < 16; i++ {
		r[15-i] = be[i]
	}
	return r
}

func pvMul(a, b *big.Int) *big.Int {
	r := new(big.Int)
	t := new(big.Int)
	for i := 0; i < 128; i++ {
		if b.Bit(i) == 1 {
			r.Xor(r, t.Lsh(a, uint(i)))
		}
	}
	for i := 254; i >= 128; i-- {
		if r.Bit(i) == 1 {
			r.Xor(r, t.Lsh(pvP, uint(i-128)))
		}
	}
	return r
}

// x^-128 and x^128 in the field
var pvXinv128, pvX128 = func() (*big.Int, *big.Int) {
	xinv := new(big.Int)
	for _, b := range []int{127, 126, 125, 120} { // x · (x^127+x^126+x^125+x^120) = P + 1
		xinv.SetBit(xinv, b, 1)
	}
	r := xinv
	for i := 0; i < 7; i++ {
		r = pvMul(r, r)
	}
	x128 := new(big.Int).Xor(pvP, new(big.Int).Lsh(big.NewInt(1), 128))
	return r, x128
}()

// dot(a, b) = a·b·x^-128
func pvDot(a, b *big.Int) *big.Int { return pvMul(pvMul(a, b), pvXinv128) }

func pvInv(a *big.Int) *big.Int { // a^(2^128 − 2)
	r := big.NewInt(1)
	sq := a
	for i := 1; i < 128; i++ {
		sq = pvMul(sq, sq)
		r = pvMul(r, sq)
	}
	return r
}

func pvBlocks(b []byte) [][]byte {
	var out [][]byte
	for len(b) > 0 {
		blk := make([]byte, 16)
		n := copy(blk, b)
		b = b[n:]
		out = append(out, blk)
	}
	return out
}

// gcmSivDerive: RFC 8452 §4 derive_keys.
func gcmSivDerive(key, nonce []byte) (auth, enc []byte) {
	blk, err := aes.NewCipher(key)
	if err != nil {
		panic(err)
	}
	kdf := func(ctr uint32) []byte {
		in := make([]byte, 16)
		binary.LittleEndian.PutUint32(in, ctr)
		copy(in[4:], nonce)
		out := make([]byte, 16)
		blk.Encrypt(out, in)
		return out[:8]
	}
	auth = append(kdf(0), kdf(1)...)
	enc = append(kdf(2), kdf(3)...)
	if len(key) == 32 {
		enc = append(enc, append(kdf(4), kdf(5)...)...)
	}
	return
}

// craftGcmSiv returns a plaintext of ptLen ≥ 16 bytes whose AES-GCM-SIV tag under (key, nonce, ad) has LE32(tag[0:4])
// = low, and that tag.
func craftGcmSiv(rng *hlib.Rng, key, nonce, ad []byte, ptLen int, low uint32) (pt, tag []byte) {
	auth, enc := gcmSivDerive(key, nonce)
	eb, err := aes.NewCipher(enc)
	if err != nil {
		panic(err)
	}
	// the tag and the POLYVAL value it needs
	tag = make([]byte, 16)
	x := make([]byte, 16)
	for {
		copy(tag, rng.Bytes(16))
		binary.LittleEndian.PutUint32(tag, low)
		eb.Decrypt(x, tag)
		if x[15]&0x80 == 0 {
			break
		}
	}
	for i := 0; i < 12; i++ {
		x[i] ^= nonce[i]
	}
	h := pvFromBytes(auth)
	g := pvMul(pvInv(h), pvX128) // dot(y, H) = z  ⇔  y = z·G
	pt = rng.Bytes(ptLen)
	ptBlocks := pvBlocks(pt)
	lb := make([]byte, 16)
	binary.LittleEndian.PutUint64(lb[:8], uint64(len(ad))*8)
	binary.LittleEndian.PutUint64(lb[8:], uint64(ptLen)*8)
	// solve for plaintext block j (a full one): unwind from the end
	j := rng.Intn(ptLen / 16)
	after := append(append([][]byte{}, ptBlocks[j+1:]...), lb)
	z := pvFromBytes(x)
	for i := len(after) - 1; i >= 0; i-- {
		z = new(big.Int).Xor(pvMul(z, g), pvFromBytes(after[i]))
	}
	z = pvMul(z, g) // = S_before xor P_j
	s := new(big.Int)
	for _, blk := range append(pvBlocks(ad), ptBlocks[:j]...) {
		s = pvDot(new(big.Int).Xor(s, pvFromBytes(blk)), h)
	}
	copy(pt[16*j:], pvToBytes(new(big.Int).Xor(z, s)))
	// self-check with the forward computation
	s = new(big.Int)
	for _, blk := range append(append(pvBlocks(ad), pvBlocks(pt)...), lb) {
		s = pvDot(new(big.Int).Xor(s, pvFromBytes(blk)), h)
	}
	sb := pvToBytes(s)
	for i := 0; i < 12; i++ {
		sb[i] ^= nonce[i]
	}
	sb[15] &= 0x7f
	chk := make([]byte, 16)
	eb.Encrypt(chk, sb)
	if !bytes.Equal(chk, tag) {
		panic("c01 special: AES-GCM-SIV crafting is inconsistent")
	}
	return pt, tag
}

func runGcmSivCrafted(o *hlib.Out, rng *hlib.Rng, tape *hlib.Tape, mut bool) {
	for _, kl := range []int{16, 32} {
		for vi := 0; vi < 3; vi += 2 {
			c, k := buildKey(pspec{fam: "gcmsiv", keyLen: kl, vi: vi, id: rng.KeyID()}, rng)
			var err error
			what := "new"
			if vi == 2 && kl == 32 {
				c.prim, err = viaKeyManager(k)
				what = "keymanager"
			} else {
				c.prim, err = fromKey(k)
			}
			if err != nil {
				panic(err)
			}
			c.kind = "special/gcmsiv-crafted"
			keyBytes := hlib.FromTok(strings.Fields(c.model)[1])
			type tgt struct {
				name string
				low  uint32
				d    int
			}
			var tgts []tgt
			for w := 1; w <= 4; w++ {
				for d := 0; d <= 2; d++ {
					if (w+d+kl/16+vi)%2 == 1 && !hlib.Thorough() && w != 4 {
						continue // quick: half of the narrow ones per key, every 32-bit one
					}
					ones := uint32(1)<<(8*uint(w)) - 1
					if w == 4 {
						ones = 0xffffffff
					}
					hi := uint32(rng.U64()) &^ ones
					if w < 4 {
						hi &^= 1 << (8 * uint(w)) // the carry stops there
					}
					tgts = append(tgts, tgt{fmt.Sprintf("tag-low%d-ones-minus%d", w, d), hi | (ones - uint32(d)), d + 1})
				}
			}
			tgts = append(tgts, tgt{"tag-low32-zero", 0, 0}, tgt{"tag-low32-2^31", 0x80000000, 0}, tgt{"tag-low32-2^31-1", 0x7fffffff, 1})
			for _, t := range tgts {
				nonce := rng.Bytes(12)
				var ad []byte
				if rng.Bool() {
					ad = rng.Bytes(rng.MsgLen(40))
				}
				l := 16*max(t.d, 1) + 1 + rng.Intn(16)
				if rng.Bool() {
					l = 16*(t.d+2+rng.Intn(36)) + rng.Intn(16)
				}
				pt, tag := craftGcmSiv(rng, keyBytes, nonce, ad, l, t.low)
				o.Case()
				o.Count("special/gcmsiv-crafted/" + t.name)
				sc := specCfg{c: c, what: what}
				// same machinery; the associated data is chosen here, so special() must not draw its own:
				specialAD(o, rng, tape, sc, nonce, pt, ad, mut, 16*t.d, tag)
			}
		}
	}
}

// specialAD: as special() with a given associated data, checking that the model's tag is the crafted one.
func specialAD(o *hlib.Out, rng *hlib.Rng, tape *hlib.Tape, sc specCfg, nonce, pt, ad []byte, mut bool, carryAt int, wantTag []byte) {
	c := sc.c
	adTok := hlib.Tok(ad)
	tape.Forced = append([]byte(nil), nonce...)
	ct, err := c.prim.Encrypt(pt, ad)
	left := len(tape.Forced)
	tape.Forced = nil
	if err != nil || left != 0 || len(ct) != c.preLen+12+len(pt)+16 {
		o.Violate("Encrypt failed or did not draw a 12-byte nonce (%s): %v", c.kind, err)
	} else {
		if !bytes.Equal(ct[len(ct)-16:], wantTag) {
			o.Violate("AES-GCM-SIV tag of a crafted plaintext is not the crafted tag (%s, nonce %s |pt|=%d |ad|=%d): got %s want %s", c.kind, hlib.Tok(nonce), len(pt), len(ad),
				hlib.Tok(ct[len(ct)-16:]), hlib.Tok(wantTag))
		}
		o.Emit(fmt.Sprintf("!A enc %s %s %s %s", c.model, hlib.Tok(nonce), hlib.Tok(pt), adTok), "ok "+hlib.Tok(ct), true)
		back, err := c.prim.Decrypt(ct, ad)
		if err != nil || !bytes.Equal(back, pt) {
			o.Violate("Decrypt(Encrypt(pt)) != pt (%s, crafted tag %s, |pt|=%d)", c.kind, hlib.Tok(wantTag), len(pt))
		}
		o.Emit(fmt.Sprintf("!A dec %s %s %s", c.model, hlib.Tok(ct), adTok), rej(back, err), true)
	}
	mrng := hlib.NewRng(rng.U64(), "special-mut")
	ans := hlib.Ask(fmt.Sprintf("A enc %s %s %s %s", c.model, hlib.Tok(nonce), hlib.Tok(pt), adTok))
	if hlib.Pre() {
		return
	}
	if !strings.HasPrefix(ans, "ok ") {
		o.Violate("model could not encrypt: %s", ans)
		return
	}
	mct := hlib.FromTok(ans[3:])
	if len(mct) < 16 || !bytes.Equal(mct[len(mct)-16:], wantTag) {
		o.Violate("the model's AES-GCM-SIV tag of a crafted plaintext is not the crafted tag (harness crafting vs model): %s", hlib.Tok(wantTag))
	} else {
		o.Count("special/gcmsiv-crafted/tag-confirmed-by-model")
	}
	b3, e3 := c.prim.Decrypt(mct, ad)
	if e3 != nil || !bytes.Equal(b3, pt) {
		o.Violate("Tink does not decrypt the independent implementation's AES-GCM-SIV ciphertext whose tag (= counter block) is %s (%s via %s, |pt|=%d |ad|=%d, err=%v)",
			hlib.Tok(wantTag), c.kind, sc.what, len(pt), len(ad), e3)
	}
	o.Emit(fmt.Sprintf("!A dec %s %s %s", c.model, hlib.Tok(mct), adTok), rej(b3, e3), true)
	if !mut {
		return
	}
	body := c.preLen + 12
	for _, pos := range []int{body + carryAt - 1, body + carryAt + mrng.Intn(16), len(mct) - 17, len(mct) - 16, len(mct) - 13, len(mct) - 1, body - 1} {
		if pos < 0 || pos >= len(mct) {
			continue
		}
		m := append([]byte(nil), mct...)
		m[pos] ^= 1 << uint(mrng.Intn(8))
		b, e := c.prim.Decrypt(m, ad)
		o.Count("mut/special/gcmsiv-crafted-flip")
		if e == nil {
			o.Violate("Decrypt accepted a flipped crafted AES-GCM-SIV ciphertext (%s) ct=%s", c.kind, hlib.Tok(m))
		}
		o.Emit(fmt.Sprintf("A dec %s %s %s", c.model, hlib.Tok(m), adTok), rej(b, e), true)
	}
}

// runSpecialKeysets: a RAW key's ciphertext whose nonce starts with the output prefix of a prefixed key of the same
// keyset (probability 2^-40 with random nonces): the prefixed key is tried first and fails, the RAW keys must still
// be tried. Model-made (chosen nonce) and Go-made (nonce forced through the tape), every RAW family × TINK/CRUNCHY
// neighbour, the colliding key before / between / after the RAW keys.
func runSpecialKeysets(o *hlib.Out, rng *hlib.Rng, tape *hlib.Tape, mut bool) {
	fams := []string{"gcm", "gcmsiv", "ctrhmac", "chacha", "xchacha", "xaes"}
	n := 0
	for _, rawFam := range fams {
		for pv := 0; pv < 2; pv++ {
			for pos := 0; pos < 3; pos++ {
				n++
				pfam := fams[n%len(fams)]
				vi := pv
				if pfam == "xaes" {
					vi = 0
				}
				ps := randSpec(rng, pfam, 0)
				ps.vi = vi
				ps.id = rng.KeyID()
				_, pk := buildKey(ps, rng)
				prefix := pk.(interface{ OutputPrefix() []byte }).OutputPrefix()
				km := keyset.NewManager()
				type member struct {
					c cfg
					p tink.AEAD
				}
				var raws []member
				primary := rng.Intn(3)
				for i := 0; i < 3; i++ {
					var opts []keyset.KeyOpts
					if i == primary {
						opts = append(opts, keyset.AsPrimary())
					}
					k := pk
					if i != pos {
						f := rawFam
						if len(raws) == 1 && rng.Bool() {
							f = fams[rng.Intn(len(fams))]
						}
						var c cfg
						c, k = buildKey(randSpec(rng, f, 2), rng)
						p, err := perKey(k)
						if err != nil {
							panic(err)
						}
						raws = append(raws, member{c, p})
					}
					if _, err := km.AddKeyWithOpts(k, internalapi.Token{}, opts...); err != nil {
						panic(err)
					}
				}
				kh, err := km.Handle()
				if err != nil {
					panic(err)
				}
				ks, err := aead.New(kh)
				if err != nil {
					panic(err)
				}
				for ri, m := range raws {
					o.Case()
					o.Count("special/keyset/raw-nonce-starts-with-member-prefix/" + rawFam)
					nonce := rng.Bytes(m.c.rndLen)
					copy(nonce, prefix)
					pt := rng.Bytes(rng.MsgLen(120))
					ad, adTok := someAD(rng, 40)
					flipBit := uint(rng.Intn(8))
					tape.Forced = append([]byte(nil), nonce...)
					ct, err := m.p.Encrypt(pt, ad)
					tape.Forced = nil
					if err != nil || !bytes.HasPrefix(ct, prefix) {
						o.Violate("Encrypt failed or ignored the forced nonce (%s): %v", m.c.kind, err)
					} else {
						o.Emit(fmt.Sprintf("!A enc %s %s %s %s", m.c.model, hlib.Tok(nonce), hlib.Tok(pt), adTok), "ok "+hlib.Tok(ct), true)
						b, e := ks.Decrypt(ct, ad)
						if e != nil || !bytes.Equal(b, pt) {
							o.Violate("keyset does not decrypt the ciphertext of its RAW key #%d (%s) whose nonce starts with the output prefix %s of another member (%s at position %d): %v",
								ri, m.c.kind, hlib.Tok(prefix), pfam, pos, e)
						}
						o.Emit(fmt.Sprintf("!A dec %s %s %s", m.c.model, hlib.Tok(ct), adTok), rej(b, e), true)
					}
					ans := hlib.Ask(fmt.Sprintf("A enc %s %s %s %s", m.c.model, hlib.Tok(nonce), hlib.Tok(pt), adTok))
					if hlib.Pre() {
						continue
					}
					if !strings.HasPrefix(ans, "ok ") {
						o.Violate("model could not encrypt: %s", ans)
						continue
					}
					mct := hlib.FromTok(ans[3:])
					b, e := ks.Decrypt(mct, ad)
					if e != nil || !bytes.Equal(b, pt) {
						o.Violate("keyset does not decrypt the independent implementation's ciphertext under its RAW key #%d (%s) whose nonce starts with the output prefix %s of another member (%s at position %d): %v",
							ri, m.c.kind, hlib.Tok(prefix), pfam, pos, e)
					}
					o.Emit(fmt.Sprintf("!A dec %s %s %s", m.c.model, hlib.Tok(mct), adTok), rej(b, e), true)
					if mut {
						mc := append([]byte(nil), mct...)
						mc[len(mc)-1] ^= 1 << flipBit
						b, e := ks.Decrypt(mc, ad)
						if e == nil {
							o.Violate("keyset accepted a flipped ciphertext (%s) ct=%s", m.c.kind, hlib.Tok(mc))
						}
						o.Emit(fmt.Sprintf("A dec %s %s %s", m.c.model, hlib.Tok(mc), adTok), rej(b, e), true)
					}
				}
			}
		}
	}
}
