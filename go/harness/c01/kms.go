//go:build verif

// KMS envelope AEAD part of harness c01 (aead/kms_envelope_aead.go): the framing
// be32(|encrypted DEK|) ‖ encrypted DEK ‖ payload against the Lean model (envelopeSerialize /
// envelopeParse), the payload against the independent implementation of the DEK template's AEAD,
// the round trip for every wrapped-DEK length Encrypt accepts, and (mode mut) mutations of every field.
//
// The remote (key-encryption) AEAD is a stub of the harness: it records what the envelope code hands
// it, and either produces a wrapped DEK of a length the harness chooses (remembering wrapped→DEK so
// that it can "decrypt"), or forwards to a real AEAD as KEK. What Go's parseEnvelope decided is
// observed black-box: the stub's Decrypt is called with the encrypted DEK iff the envelope parsed.
package main

import (
	"bytes"
	"context"
	"encoding/binary"
	"errors"
	"fmt"
	"strings"

	"google.golang.org/protobuf/proto"

	"github.com/tink-crypto/tink-go/v2/aead"
	"github.com/tink-crypto/tink-go/v2/core/registry"
	"github.com/tink-crypto/tink-go/v2/internal/verifharness/hlib"
	"github.com/tink-crypto/tink-go/v2/keyset"
	ctrpb "github.com/tink-crypto/tink-go/v2/proto/aes_ctr_go_proto"
	ctrhmacpb "github.com/tink-crypto/tink-go/v2/proto/aes_ctr_hmac_aead_go_proto"
	gcmpb "github.com/tink-crypto/tink-go/v2/proto/aes_gcm_go_proto"
	gcmsivpb "github.com/tink-crypto/tink-go/v2/proto/aes_gcm_siv_go_proto"
	chachapb "github.com/tink-crypto/tink-go/v2/proto/chacha20_poly1305_go_proto"
	commonpb "github.com/tink-crypto/tink-go/v2/proto/common_go_proto"
	hmacpb "github.com/tink-crypto/tink-go/v2/proto/hmac_go_proto"
	tinkpb "github.com/tink-crypto/tink-go/v2/proto/tink_go_proto"
	xaespb "github.com/tink-crypto/tink-go/v2/proto/x_aes_gcm_go_proto"
	xchachapb "github.com/tink-crypto/tink-go/v2/proto/xchacha20_poly1305_go_proto"
	"github.com/tink-crypto/tink-go/v2/testing/fakekms"
	"github.com/tink-crypto/tink-go/v2/tink"
)

const (
	urlGCM     = "type.googleapis.com/google.crypto.tink.AesGcmKey"
	urlGCMSIV  = "type.googleapis.com/google.crypto.tink.AesGcmSivKey"
	urlCTRHMAC = "type.googleapis.com/google.crypto.tink.AesCtrHmacAeadKey"
	urlChaCha  = "type.googleapis.com/google.crypto.tink.ChaCha20Poly1305Key"
	urlXChaCha = "type.googleapis.com/google.crypto.tink.XChaCha20Poly1305Key"
	urlXAES    = "type.googleapis.com/google.crypto.tink.XAesGcmKey"
)

// ---------- the stub remote AEAD ----------

type kek struct {
	inner      tink.AEAD // real KEK, or nil: wrapped DEKs are harness-chosen strings of length nextLen
	innerModel string    // model tokens of inner ("" when the model cannot follow it)
	innerRnd   int
	rng        *hlib.Rng
	nextLen    int
	table      map[string][]byte // wrapped → DEK
	order      []string          // the table's keys in insertion order
	// log since the last reset
	encCalls, decCalls, ctxCalls int
	encDEK, encOut               []byte
	decIn, decOut                []byte
	decOK                        bool
	badAD                        bool
}

func newKEK(rng *hlib.Rng) *kek { return &kek{rng: rng, table: map[string][]byte{}} }

func (k *kek) reset() {
	k.encCalls, k.decCalls, k.ctxCalls = 0, 0, 0
	k.encDEK, k.encOut, k.decIn, k.decOut, k.decOK, k.badAD = nil, nil, nil, nil, false, false
}

func (k *kek) put(wrapped, dek []byte) {
	if _, dup := k.table[string(wrapped)]; !dup {
		k.order = append(k.order, string(wrapped))
	}
	k.table[string(wrapped)] = cp(dek)
}

func cp(b []byte) []byte { return append([]byte{}, b...) }

func (k *kek) Encrypt(pt, ad []byte) ([]byte, error) {
	k.encCalls++
	if len(ad) != 0 {
		k.badAD = true
	}
	k.encDEK = cp(pt)
	var out []byte
	if k.inner != nil {
		var err error
		if out, err = k.inner.Encrypt(pt, ad); err != nil {
			return nil, err
		}
	} else {
		for {
			out = k.rng.Bytes(k.nextLen)
			if _, dup := k.table[string(out)]; !dup || k.nextLen == 0 {
				break
			}
		}
		k.put(out, pt)
	}
	k.encOut = cp(out)
	return cp(out), nil
}

func (k *kek) Decrypt(ct, ad []byte) ([]byte, error) {
	k.decCalls++
	if len(ad) != 0 {
		k.badAD = true
	}
	k.decIn = cp(ct)
	if k.inner != nil {
		d, err := k.inner.Decrypt(cp(ct), ad)
		if err != nil {
			return nil, err
		}
		k.decOK, k.decOut = true, cp(d)
		return d, nil
	}
	d, ok := k.table[string(ct)]
	if !ok {
		return nil, errors.New("stub KMS: unknown wrapped DEK")
	}
	k.decOK, k.decOut = true, cp(d)
	return cp(d), nil
}

func (k *kek) EncryptWithContext(_ context.Context, pt, ad []byte) ([]byte, error) {
	k.ctxCalls++
	return k.Encrypt(pt, ad)
}

func (k *kek) DecryptWithContext(_ context.Context, ct, ad []byte) ([]byte, error) {
	k.ctxCalls++
	return k.Decrypt(ct, ad)
}

// stubKMS is the registry.KMSClient serving the stub AEADs to the keyset-level path.
type stubKMS struct{ m map[string]*kek }

func (c *stubKMS) Supported(uri string) bool { return strings.HasPrefix(uri, "stub-kms://") }
func (c *stubKMS) GetAEAD(uri string) (tink.AEAD, error) {
	k, ok := c.m[uri]
	if !ok {
		return nil, errors.New("stub KMS: unknown key URI")
	}
	return k, nil
}

var (
	stubClient = &stubKMS{m: map[string]*kek{}}
	stubN      int
)

// ---------- DEK templates and DEK (de)serialisation, independent of tink's parsers ----------

var hashPB = []commonpb.HashType{commonpb.HashType_SHA1, commonpb.HashType_SHA224, commonpb.HashType_SHA256, commonpb.HashType_SHA384, commonpb.HashType_SHA512}

func mustMarshal(m proto.Message) []byte {
	b, err := proto.Marshal(m)
	if err != nil {
		panic(err)
	}
	return b
}

// dekTemplate is the key template of a DEK parameter point; the template's output prefix type is
// irrelevant to the envelope (the DEK primitive is always the raw one) and is varied.
func dekTemplate(s pspec, opt tinkpb.OutputPrefixType) *tinkpb.KeyTemplate {
	t := &tinkpb.KeyTemplate{OutputPrefixType: opt}
	switch s.fam {
	case "gcm":
		t.TypeUrl, t.Value = urlGCM, mustMarshal(&gcmpb.AesGcmKeyFormat{KeySize: uint32(s.keyLen)})
	case "gcmsiv":
		t.TypeUrl, t.Value = urlGCMSIV, mustMarshal(&gcmsivpb.AesGcmSivKeyFormat{KeySize: uint32(s.keyLen)})
	case "chacha":
		t.TypeUrl = urlChaCha
	case "xchacha":
		t.TypeUrl = urlXChaCha
	case "xaes":
		t.TypeUrl, t.Value = urlXAES, mustMarshal(&xaespb.XAesGcmKeyFormat{Params: &xaespb.XAesGcmParams{SaltSize: uint32(s.salt)}})
	case "ctrhmac":
		t.TypeUrl = urlCTRHMAC
		t.Value = mustMarshal(&ctrhmacpb.AesCtrHmacAeadKeyFormat{
			AesCtrKeyFormat: &ctrpb.AesCtrKeyFormat{Params: &ctrpb.AesCtrParams{IvSize: uint32(s.ivLen)}, KeySize: uint32(s.keyLen)},
			HmacKeyFormat:   &hmacpb.HmacKeyFormat{Params: &hmacpb.HmacParams{Hash: hashPB[s.hash], TagSize: uint32(s.tagLen)}, KeySize: uint32(s.hmacLen)},
		})
	default:
		panic(s.fam)
	}
	return t
}

func rawCfg(s pspec, k1, k2 []byte) cfg {
	switch s.fam {
	case "gcm":
		return cfg{model: fmt.Sprintf("gcm %s R 0", hlib.Tok(k1)), rndLen: 12, tagLen: 16, kind: "gcm"}
	case "gcmsiv":
		return cfg{model: fmt.Sprintf("gcmsiv %s R 0", hlib.Tok(k1)), rndLen: 12, tagLen: 16, kind: "gcmsiv"}
	case "chacha":
		return cfg{model: fmt.Sprintf("chacha %s R 0", hlib.Tok(k1)), rndLen: 12, tagLen: 16, kind: "chacha"}
	case "xchacha":
		return cfg{model: fmt.Sprintf("xchacha %s R 0", hlib.Tok(k1)), rndLen: 24, tagLen: 16, kind: "xchacha"}
	case "ctrhmac":
		return cfg{model: fmt.Sprintf("ctrhmac %s %s %s %d %d R 0", hlib.Tok(k1), hlib.Tok(k2), ctrHashes[s.hash].name, s.ivLen, s.tagLen),
			rndLen: s.ivLen, tagLen: s.tagLen, kind: "ctrhmac/" + ctrHashes[s.hash].name}
	}
	panic(s.fam)
}

// dekModel reads the serialized DEK the envelope code handed to the KMS (generated protobuf code only)
// and checks it against the template.
func dekModel(s pspec, dek []byte) (cfg, error) {
	var k1, k2 []byte
	switch s.fam {
	case "gcm":
		m := &gcmpb.AesGcmKey{}
		if err := proto.Unmarshal(dek, m); err != nil {
			return cfg{}, err
		}
		if m.GetVersion() != 0 {
			return cfg{}, fmt.Errorf("version %d", m.GetVersion())
		}
		k1 = m.GetKeyValue()
	case "gcmsiv":
		m := &gcmsivpb.AesGcmSivKey{}
		if err := proto.Unmarshal(dek, m); err != nil {
			return cfg{}, err
		}
		if m.GetVersion() != 0 {
			return cfg{}, fmt.Errorf("version %d", m.GetVersion())
		}
		k1 = m.GetKeyValue()
	case "chacha":
		m := &chachapb.ChaCha20Poly1305Key{}
		if err := proto.Unmarshal(dek, m); err != nil {
			return cfg{}, err
		}
		if m.GetVersion() != 0 {
			return cfg{}, fmt.Errorf("version %d", m.GetVersion())
		}
		k1 = m.GetKeyValue()
	case "xchacha":
		m := &xchachapb.XChaCha20Poly1305Key{}
		if err := proto.Unmarshal(dek, m); err != nil {
			return cfg{}, err
		}
		if m.GetVersion() != 0 {
			return cfg{}, fmt.Errorf("version %d", m.GetVersion())
		}
		k1 = m.GetKeyValue()
	case "ctrhmac":
		m := &ctrhmacpb.AesCtrHmacAeadKey{}
		if err := proto.Unmarshal(dek, m); err != nil {
			return cfg{}, err
		}
		if m.GetVersion() != 0 || m.GetAesCtrKey().GetVersion() != 0 || m.GetHmacKey().GetVersion() != 0 {
			return cfg{}, errors.New("version != 0")
		}
		k1, k2 = m.GetAesCtrKey().GetKeyValue(), m.GetHmacKey().GetKeyValue()
		if int(m.GetAesCtrKey().GetParams().GetIvSize()) != s.ivLen || int(m.GetHmacKey().GetParams().GetTagSize()) != s.tagLen ||
			m.GetHmacKey().GetParams().GetHash() != hashPB[s.hash] || len(k2) != s.hmacLen {
			return cfg{}, fmt.Errorf("AES-CTR-HMAC DEK parameters differ from the template's (%v)", s)
		}
	default:
		return cfg{}, errors.New("unsupported family " + s.fam)
	}
	if len(k1) != s.keyLen {
		return cfg{}, fmt.Errorf("DEK key size %d, template says %d", len(k1), s.keyLen)
	}
	return rawCfg(s, k1, k2), nil
}

// makeDEK serializes a DEK of the harness's own making (for envelopes built by the independent side).
func makeDEK(s pspec, rng *hlib.Rng) ([]byte, cfg) {
	k1 := rng.Bytes(s.keyLen)
	var k2, ser []byte
	switch s.fam {
	case "gcm":
		ser = mustMarshal(&gcmpb.AesGcmKey{KeyValue: k1})
	case "gcmsiv":
		ser = mustMarshal(&gcmsivpb.AesGcmSivKey{KeyValue: k1})
	case "chacha":
		ser = mustMarshal(&chachapb.ChaCha20Poly1305Key{KeyValue: k1})
	case "xchacha":
		ser = mustMarshal(&xchachapb.XChaCha20Poly1305Key{KeyValue: k1})
	case "ctrhmac":
		k2 = rng.Bytes(s.hmacLen)
		ser = mustMarshal(&ctrhmacpb.AesCtrHmacAeadKey{
			AesCtrKey: &ctrpb.AesCtrKey{Params: &ctrpb.AesCtrParams{IvSize: uint32(s.ivLen)}, KeyValue: k1},
			HmacKey:   &hmacpb.HmacKey{Params: &hmacpb.HmacParams{Hash: hashPB[s.hash], TagSize: uint32(s.tagLen)}, KeyValue: k2},
		})
	default:
		panic(s.fam)
	}
	return ser, rawCfg(s, k1, k2)
}

// ---------- entry points ----------

type envAEAD struct {
	name   string
	prefix []byte // output prefix of the keyset key (keyset-level path with a non-RAW template)
	enc    func(pt, ad []byte) ([]byte, error)
	dec    func(ct, ad []byte) ([]byte, error)
}

var epNames = []string{"NewKMSEnvelopeAEAD2", "NewKMSEnvelopeAEADWithContext", "keyset"}

func buildEnv(ep int, tmpl *tinkpb.KeyTemplate, k *kek) (*envAEAD, error) {
	switch ep {
	case 0:
		a := aead.NewKMSEnvelopeAEAD2(tmpl, k)
		return &envAEAD{name: epNames[0], enc: a.Encrypt, dec: a.Decrypt}, nil
	case 1:
		a, err := aead.NewKMSEnvelopeAEADWithContext(tmpl, k)
		if err != nil {
			return nil, err
		}
		return &envAEAD{name: epNames[1],
			enc: func(pt, ad []byte) ([]byte, error) { return a.EncryptWithContext(context.Background(), pt, ad) },
			dec: func(ct, ad []byte) ([]byte, error) { return a.DecryptWithContext(context.Background(), ct, ad) }}, nil
	}
	// keyset-level: KMS envelope key template → keyset → aead.New; the stub is found through the
	// registered KMS client
	stubN++
	uri := fmt.Sprintf("stub-kms://kek/%d", stubN)
	stubClient.m[uri] = k
	kt, err := aead.CreateKMSEnvelopeAEADKeyTemplate(uri, tmpl)
	if err != nil {
		return nil, err
	}
	name := epNames[2] + "/RAW"
	switch stubN % 3 {
	case 1:
		kt.OutputPrefixType, name = tinkpb.OutputPrefixType_TINK, epNames[2]+"/TINK"
	case 2:
		kt.OutputPrefixType, name = tinkpb.OutputPrefixType_CRUNCHY, epNames[2]+"/CRUNCHY"
	}
	kh, err := keyset.NewHandle(kt)
	if err != nil {
		return nil, err
	}
	p, err := aead.New(kh)
	if err != nil {
		return nil, err
	}
	e := &envAEAD{name: name, enc: p.Encrypt, dec: p.Decrypt}
	if kt.OutputPrefixType != tinkpb.OutputPrefixType_RAW {
		pe, err := kh.Primary()
		if err != nil {
			return nil, err
		}
		e.prefix = binary.BigEndian.AppendUint32([]byte{map[bool]byte{true: 1, false: 0}[kt.OutputPrefixType == tinkpb.OutputPrefixType_TINK]}, pe.KeyID())
	}
	return e, nil
}

// goParse is Go's parseEnvelope verdict on env as observed at the stub: the stub's Decrypt is called
// with the encrypted DEK iff the envelope parsed; the payload is what follows it.
func goParse(k *kek, env []byte) string {
	if k.decCalls == 0 {
		return "reject"
	}
	rest := []byte{}
	if 4+len(k.decIn) <= len(env) {
		rest = env[4+len(k.decIn):]
	}
	return "ok " + hlib.Tok(k.decIn) + " " + hlib.Tok(rest)
}

func envelope(wrapped, payload []byte) []byte {
	e := binary.BigEndian.AppendUint32(nil, uint32(len(wrapped)))
	return append(append(e, wrapped...), payload...)
}

func lenBucket(n int) string {
	switch {
	case n == 0, n == 1, n == 2, n == 4095, n == 4096, n == 4097, n == 5000:
		return fmt.Sprint(n)
	case n < 4095:
		return "3..4094"
	}
	return ">4097"
}

// ---------- one case ----------

// kmsCase exercises one envelope AEAD (entry point ep, DEK parameter point s, remote AEAD k) on
// `rounds` messages; wrapped-DEK lengths in stub mode are taken from lens.
func kmsCase(o *hlib.Out, rng *hlib.Rng, mut bool, ep int, s pspec, tmpl *tinkpb.KeyTemplate, k *kek, lens []int, rounds int) {
	var env *envAEAD
	var err error
	if p := hlib.Recover(func() { env, err = buildEnv(ep, tmpl, k) }); p != "" || err != nil {
		o.Violate("KMS envelope AEAD could not be built (%s, DEK %v): %v %s", epNames[ep], s, err, p)
		return
	}
	mode := "stub"
	if k.inner != nil {
		mode = "real-kek"
	}
	o.Count("kms/entry/" + env.name)
	o.Count("kms/dek/" + s.fam)
	o.Count("kms/kek/" + mode)
	desc := fmt.Sprintf("%s, DEK %v, %s", env.name, s, mode)
	for j := 0; j < rounds; j++ {
		// ---- all randomness of the round up front (the pre phase leaves early) ----
		ptl := rng.MsgLen(300)
		if rng.Chance(12) {
			ptl = 0
		}
		pt := rng.Bytes(ptl)
		ad, adTok := someAD(rng, 64)
		dek2, c2 := makeDEK(s, rng)
		rnd2 := rng.Bytes(c2.rndLen)
		L := lens[j%len(lens)]
		L2 := []int{1, 2, 28, 4095, 4096, 4097, 5000, 300}[rng.Intn(8)]
		w2 := rng.Bytes(L2)
		rndK := rng.Bytes(k.innerRnd)
		mrng := hlib.NewRng(rng.U64(), "kms-mut")

		// ---- Tink encrypts ----
		k.nextLen = L
		k.reset()
		var ct []byte
		if p := hlib.Recover(func() { ct, err = env.enc(pt, ad) }); p != "" {
			o.Violate("KMS envelope Encrypt panicked (%s): %s", desc, p)
			continue
		}
		if k.badAD {
			o.Violate("KMS envelope: the key-encryption AEAD was called with non-empty associated data (%s)", desc)
		}
		if k.encCalls != 1 {
			if err == nil {
				o.Violate("KMS envelope Encrypt succeeded after %d calls of the key-encryption AEAD (%s)", k.encCalls, desc)
			} else {
				o.Violate("KMS envelope Encrypt failed before wrapping a DEK (%s): %v", desc, err)
			}
			continue
		}
		if ep == 1 && k.ctxCalls != 1 {
			o.Violate("KMSEnvelopeAEADWithContext did not use the context API of the key-encryption AEAD (%s)", desc)
		}
		wrapped, dek := k.encOut, k.encDEK
		dc, derr := dekModel(s, dek)
		if derr != nil {
			o.Violate("KMS envelope: what was handed to the KMS is not a serialized key of the DEK template (%s): %v", desc, derr)
			continue
		}
		o.Count("kms/encrypt/wrapped-len=" + lenBucket(len(wrapped)))
		if err != nil {
			// what Encrypt rejects is compared with the model's guard (size errors of envelopeSerialize)
			o.Emit(fmt.Sprintf("!A envser %s -", hlib.Tok(wrapped)), "err", true)
			o.Count("kms/encrypt-rejected/wrapped-len=" + lenBucket(len(wrapped)))
		} else if len(ct) < len(env.prefix)+4+len(wrapped) || !bytes.Equal(ct[:len(env.prefix)], env.prefix) {
			o.Violate("KMS envelope ciphertext of %d bytes does not start with the key's output prefix or is shorter than 4+|encrypted DEK|=%d (%s)", len(ct), 4+len(wrapped), desc)
		} else {
			envl := ct[len(env.prefix):]
			payload := envl[4+len(wrapped):]
			// (a) layout: the model serializes (encrypted DEK, payload) to exactly Go's bytes and parses them back
			o.Emit(fmt.Sprintf("!A envser %s %s", hlib.Tok(wrapped), hlib.Tok(payload)), "ok "+hlib.Tok(envl), true)
			o.Emit(fmt.Sprintf("!A envparse %s", hlib.Tok(envl)), "ok "+hlib.Tok(wrapped)+" "+hlib.Tok(payload), true)
			// (c) the payload is a RAW ciphertext of the DEK template's AEAD under the DEK the KMS saw
			if len(payload) != dc.rndLen+len(pt)+dc.tagLen {
				o.Violate("KMS envelope payload length %d is not nonce+|pt|+tag of the DEK AEAD (%s |pt|=%d)", len(payload), desc, len(pt))
			}
			o.Emit(fmt.Sprintf("!A dec %s %s %s", dc.model, hlib.Tok(payload), adTok), "ok "+hlib.Tok(pt), true)
			if k.innerModel != "" { // … and the independent implementation unwraps the DEK
				o.Emit(fmt.Sprintf("!A dec %s %s -", k.innerModel, hlib.Tok(wrapped)), "ok "+hlib.Tok(dek), true)
			}
			// (b) round trip
			saved := cp(ct)
			k.reset()
			var back []byte
			var e2 error
			if p := hlib.Recover(func() { back, e2 = env.dec(ct, ad) }); p != "" {
				o.Violate("KMS envelope Decrypt panicked (%s): %s", desc, p)
				continue
			}
			rtOK := e2 == nil && bytes.Equal(back, pt)
			if !rtOK {
				o.Violate("KMS envelope round trip: Encrypt succeeded with an encrypted DEK of %d bytes but Decrypt of its output failed (%s, |pt|=%d |ad|=%d |ct|=%d): %v",
					len(wrapped), desc, len(pt), len(ad), len(ct), e2)
			}
			o.Emit(fmt.Sprintf("!A envparse %s", hlib.Tok(envl)), goParse(k, envl), true)
			o.Count("kms/roundtrip/wrapped-len=" + lenBucket(len(wrapped)))
			if ep == 1 && k.ctxCalls != 1 {
				o.Violate("KMSEnvelopeAEADWithContext did not use the context API of the key-encryption AEAD on Decrypt (%s)", desc)
			}
			if k.badAD {
				o.Violate("KMS envelope: the key-encryption AEAD was asked to decrypt with non-empty associated data (%s)", desc)
			}
			if !bytes.Equal(ct, saved) {
				o.Violate("KMS envelope Decrypt modified the caller's ciphertext buffer (%s)", desc)
			}
			if b, e := env.dec(ct, ad); rtOK && (e != nil || !bytes.Equal(b, pt)) {
				o.Violate("KMS envelope: second Decrypt of the same ciphertext buffer failed (%s, |encrypted DEK|=%d)", desc, len(wrapped))
			}
			if len(ad) == 0 && rtOK {
				other := []byte{}
				if ad != nil {
					other = nil
				}
				if b, e := env.dec(saved, other); e != nil || !bytes.Equal(b, pt) {
					o.Violate("KMS envelope: nil/empty associated data are not interchangeable (%s)", desc)
				}
			}
			// the other entry point over the same remote AEAD and DEK template reads the same envelope
			alt := 0
			if ep == 0 {
				alt = 1
			}
			if other, err := buildEnv(alt, tmpl, k); err != nil {
				o.Violate("KMS envelope AEAD could not be built (%s, DEK %v): %v", epNames[alt], s, err)
			} else if b, e := other.dec(cp(saved[len(env.prefix):]), ad); rtOK && (e != nil || !bytes.Equal(b, pt)) {
				o.Violate("a KMS envelope ciphertext made through %s is not decrypted by %s over the same key-encryption AEAD and DEK template (DEK %v, %s, |encrypted DEK|=%d): %v",
					env.name, other.name, s, mode, len(wrapped), e)
			}
			o.Count("kms/cross-entry-decrypt")
			if mut {
				kmsMutations(o, mrng, env, k, s, desc, saved[len(env.prefix):], len(wrapped), dc, pt, ad, adTok)
			}
		}

		// ---- the independent side builds the envelope: model-made payload under a DEK of the harness,
		// wrapped DEK of a chosen length (stub) or wrapped by the model's implementation of the KEK ----
		ans := hlib.Ask(fmt.Sprintf("A enc %s %s %s %s", c2.model, hlib.Tok(rnd2), hlib.Tok(pt), adTok))
		wans := ""
		if k.innerModel != "" {
			wans = hlib.Ask(fmt.Sprintf("A enc %s %s %s -", k.innerModel, hlib.Tok(rndK), hlib.Tok(dek2)))
		} else if k.inner != nil {
			if w2, err = k.inner.Encrypt(dek2, []byte{}); err != nil {
				panic(err)
			}
		}
		if hlib.Pre() {
			continue
		}
		if !strings.HasPrefix(ans, "ok ") || (wans != "" && !strings.HasPrefix(wans, "ok ")) {
			o.Violate("model could not encrypt: %s %s", ans, wans)
			continue
		}
		payload2 := hlib.FromTok(ans[3:])
		if wans != "" {
			w2 = hlib.FromTok(wans[3:])
		} else if k.inner == nil {
			k.put(w2, dek2)
		}
		env2 := envelope(w2, payload2)
		k.reset()
		var b3 []byte
		var e3 error
		if p := hlib.Recover(func() { b3, e3 = env.dec(append(cp(env.prefix), env2...), ad) }); p != "" {
			o.Violate("KMS envelope Decrypt panicked on a model-made envelope (%s): %s", desc, p)
			continue
		}
		o.Emit(fmt.Sprintf("!A envparse %s", hlib.Tok(env2)), goParse(k, env2), true)
		o.Count("kms/model-made/wrapped-len=" + lenBucket(len(w2)))
		if len(w2) <= 4096 {
			o.Emit(fmt.Sprintf("!A envser %s %s", hlib.Tok(w2), hlib.Tok(payload2)), "ok "+hlib.Tok(env2), true)
			if e3 != nil || !bytes.Equal(b3, pt) {
				o.Violate("Tink does not decrypt a KMS envelope built by the independent implementation (%s, |encrypted DEK|=%d |pt|=%d |ad|=%d): %v", desc, len(w2), len(pt), len(ad), e3)
			}
			o.Emit(fmt.Sprintf("!A dec %s %s %s", c2.model, hlib.Tok(payload2), adTok), rej(b3, e3), true)
		} else if e3 == nil {
			o.Violate("KMS envelope Decrypt accepted an encrypted DEK of %d bytes (%s)", len(w2), desc)
		}
	}
}

// kmsMutations (mode mut, property C02): every field of a valid envelope is modified; the stub must
// then fail, or Go must reject; the model's verdicts come from the same `A envparse` / `A dec` lines.
func kmsMutations(o *hlib.Out, rng *hlib.Rng, env *envAEAD, k *kek, s pspec, desc string, envl []byte, L int, dc cfg, pt, ad []byte, adTok string) {
	type mu struct {
		kind string
		data []byte
	}
	var ms []mu
	flip := func(kind string, pos int) {
		if pos >= 0 && pos < len(envl) {
			m := cp(envl)
			m[pos] ^= 1 << uint(rng.Intn(8))
			ms = append(ms, mu{kind, m})
		}
	}
	cut := func(kind string, n int) {
		if n >= 0 && n < len(envl) {
			ms = append(ms, mu{kind, cp(envl[:n])})
		}
	}
	setLen := func(kind string, n uint32, pad int) {
		m := cp(envl)
		binary.BigEndian.PutUint32(m, n)
		if pad > len(m) {
			m = append(m, rng.Bytes(pad-len(m))...)
		}
		ms = append(ms, mu{kind, m})
	}
	for i := 0; i < 4; i++ {
		flip("len-flip", i)
		cut("len-cut", i)
	}
	cut("len-cut", 4)
	flip("dek-flip", 4)
	flip("dek-flip", 4+L-1)
	flip("dek-flip", 4+rng.Intn(L))
	cut("dek-cut", 4+1)
	cut("dek-cut", 4+L-1)
	cut("dek-cut", 4+rng.Intn(L))
	cut("payload-cut", 4+L) // nothing left of the payload
	cut("payload-cut", 4+L+1)
	cut("payload-cut", len(envl)-1)
	cut("payload-cut", 4+L+rng.Intn(len(envl)-4-L+1))
	flip("payload-flip", 4+L)
	flip("payload-flip", len(envl)-1)
	flip("payload-flip", 4+L+rng.Intn(len(envl)-4-L+1))
	setLen("len+1", uint32(L+1), 0)
	if L > 1 {
		setLen("len-1", uint32(L-1), 0)
	}
	setLen("len-zero", 0, 0)
	setLen("len-to-end", uint32(len(envl)-4), 0)
	setLen("len-past-end", uint32(len(envl)-3), 0)
	setLen("len-huge", 0xFFFFFFFF, 0)
	setLen("len-huge", 0x80000000|uint32(L), 0)
	setLen("len-huge", 0x00010000|uint32(L), 0)
	setLen("len-over-limit", 4097, 4+4097+len(envl)-4-L)
	setLen("len-over-limit", 4097+uint32(rng.Intn(900)), 4+5000+16)
	if L != 4096 {
		setLen("len-at-limit", 4096, 4+4096+len(envl)-4-L)
	}
	ms = append(ms, mu{"extend", append(cp(envl), rng.Bytes(1+rng.Intn(3))...)})
	for l := 0; l <= 6; l++ {
		ms = append(ms, mu{"short-random", rng.Bytes(l)})
	}
	// the encrypted DEK of another envelope of the same KMS in front of this payload
	if k.inner == nil {
		for _, w := range k.order {
			if w != string(envl[4:4+L]) && len(w) > 0 && len(w) <= 4096 {
				ms = append(ms, mu{"other-dek", envelope([]byte(w), envl[4+L:])})
				break
			}
		}
	}
	for _, m := range ms {
		k.reset()
		var b []byte
		var e error
		if p := hlib.Recover(func() { b, e = env.dec(append(cp(env.prefix), m.data...), ad) }); p != "" {
			o.Violate("KMS envelope Decrypt panicked on a %s input (%s): %s", m.kind, desc, p)
			continue
		}
		o.Count("mut/kms/" + m.kind)
		if e == nil && !bytes.Equal(m.data, envl) {
			o.Violate("KMS envelope Decrypt accepted a %s-mutated ciphertext (%s) ct=%s", m.kind, desc, hlib.Tok(m.data))
		}
		o.Emit(fmt.Sprintf("A envparse %s", hlib.Tok(m.data)), goParse(k, m.data), true)
		if k.decCalls > 0 && k.decOK && 4+len(k.decIn) <= len(m.data) {
			// the KMS unwrapped a DEK: the verdict on the payload is the DEK AEAD's, model side by `A dec`
			if dm, err := dekModel(s, k.decOut); err == nil {
				o.Emit(fmt.Sprintf("A dec %s %s %s", dm.model, hlib.Tok(m.data[4+len(k.decIn):]), adTok), rej(b, e), true)
			}
		}
	}
	ct := append(cp(env.prefix), envl...)
	for _, m := range append(rng.Mutations(ad, 3), hlib.Mut{Kind: "ad-dropped", Data: nil}, hlib.Mut{Kind: "ad-extended", Data: append(cp(ad), 0)}) {
		b, e := env.dec(ct, m.Data)
		if e == nil && !bytes.Equal(m.Data, ad) {
			o.Violate("KMS envelope Decrypt accepted modified associated data (%s, %s)", m.Kind, desc)
		}
		o.Count("mut/kms/ad")
		o.Emit(fmt.Sprintf("A dec %s %s %s", dc.model, hlib.Tok(envl[4+L:]), hlib.Tok(m.Data)), rej(b, e), true)
	}
}

// ---------- the run ----------

var dekFams = []string{"gcm", "gcmsiv", "ctrhmac", "chacha", "xchacha"}

// publicDEKTemplates: the exported key templates of the supported DEK types with their parameter points.
func publicDEKTemplates() []struct {
	t *tinkpb.KeyTemplate
	s pspec
} {
	type ts = struct {
		t *tinkpb.KeyTemplate
		s pspec
	}
	return []ts{
		{aead.AES128GCMKeyTemplate(), pspec{fam: "gcm", keyLen: 16}},
		{aead.AES256GCMKeyTemplate(), pspec{fam: "gcm", keyLen: 32}},
		{aead.AES256GCMNoPrefixKeyTemplate(), pspec{fam: "gcm", keyLen: 32}},
		{aead.AES128GCMSIVKeyTemplate(), pspec{fam: "gcmsiv", keyLen: 16}},
		{aead.AES256GCMSIVKeyTemplate(), pspec{fam: "gcmsiv", keyLen: 32}},
		{aead.AES256GCMSIVNoPrefixKeyTemplate(), pspec{fam: "gcmsiv", keyLen: 32}},
		{aead.AES128CTRHMACSHA256KeyTemplate(), pspec{fam: "ctrhmac", keyLen: 16, ivLen: 16, hmacLen: 32, tagLen: 16, hash: 2}},
		{aead.AES256CTRHMACSHA256KeyTemplate(), pspec{fam: "ctrhmac", keyLen: 32, ivLen: 16, hmacLen: 32, tagLen: 32, hash: 2}},
		{aead.ChaCha20Poly1305KeyTemplate(), pspec{fam: "chacha", keyLen: 32}},
		{aead.XChaCha20Poly1305KeyTemplate(), pspec{fam: "xchacha", keyLen: 32}},
	}
}

var prefixTypes = []tinkpb.OutputPrefixType{tinkpb.OutputPrefixType_TINK, tinkpb.OutputPrefixType_RAW, tinkpb.OutputPrefixType_CRUNCHY, tinkpb.OutputPrefixType_LEGACY}

func runKMS(o *hlib.Out, rng *hlib.Rng, mut bool) {
	registry.RegisterKMSClient(stubClient)
	lens := []int{0, 1, 2, 28, 4095, 4096, 4097, 5000}
	n := 0
	// quick-tier sizes: the round-trip mode (C01) has room for more than the mutation mode (C02)
	reps, nReal, nFake := hlib.N(3, 12), hlib.N(100, 1000), hlib.N(20, 200)
	if mut {
		reps, nReal, nFake = hlib.N(1, 3), hlib.N(40, 200), hlib.N(10, 50)
	}
	// 1. stub KMS: every wrapped-DEK length × every entry point × every DEK key type
	for rep := 0; rep < reps; rep++ {
		for _, fam := range dekFams {
			for ep := 0; ep < 3; ep++ {
				for li, L := range lens {
					o.Case()
					n++
					s := randSpec(rng, fam, 2)
					// second round: another length from the list, so that one KMS holds several wrapped DEKs
					kmsCase(o, rng, mut, ep, s, dekTemplate(s, prefixTypes[n%4]), newKEK(rng), []int{L, lens[(li+3)%len(lens)]}, 2)
				}
			}
		}
	}
	// 2. the exported key templates as DEK templates
	for i, pt := range publicDEKTemplates() {
		o.Case()
		o.Count("kms/public-dek-template")
		kmsCase(o, rng, mut, i%3, pt.s, pt.t, newKEK(rng), []int{28 + i, 4096}, 2)
	}
	// 3. a real AEAD as KEK (every AEAD type of this harness, and the fake KMS's AEAD), spied on by the stub
	for i := 0; i < nReal; i++ {
		o.Case()
		k := newKEK(rng)
		if i%8 == 7 {
			uri, err := fakekms.NewKeyURI()
			if err != nil {
				panic(err)
			}
			if k.inner, err = fakekms.NewAEAD(uri); err != nil {
				panic(err)
			}
			o.Count("kms/kek/fakekms")
		} else {
			for {
				c, cerr := pick(rng)
				if cerr == nil {
					k.inner, k.innerModel, k.innerRnd = c.prim, c.model, c.rndLen
					o.Count("kms/kek/" + c.kind)
					break
				}
			}
		}
		s := randSpec(rng, dekFams[i%len(dekFams)], 2)
		kmsCase(o, rng, mut, (i/5)%3, s, dekTemplate(s, prefixTypes[i%4]), k, []int{0}, 2)
	}
	// 4. the keyset-level path through the fake KMS client itself (no spy: the wrapped DEK is opened
	// with the same fake KMS AEAD, the framing and payload checked by the model)
	fc, err := fakekms.NewClient("fake-kms://")
	if err != nil {
		panic(err)
	}
	registry.RegisterKMSClient(fc)
	for i := 0; i < nFake; i++ {
		o.Case()
		fakeKMSCase(o, rng, randSpec(rng, dekFams[i%len(dekFams)], 2))
	}
	// 5. DEK templates outside the allowed list are refused by every entry point (not a C01 clause; counted)
	for salt := 8; salt <= 12; salt += 4 {
		t := dekTemplate(pspec{fam: "xaes", salt: salt}, tinkpb.OutputPrefixType_RAW)
		_, e1 := aead.NewKMSEnvelopeAEAD2(t, newKEK(rng)).Encrypt([]byte("x"), nil)
		_, e2 := aead.NewKMSEnvelopeAEADWithContext(t, newKEK(rng))
		_, e3 := aead.CreateKMSEnvelopeAEADKeyTemplate("stub-kms://x", t)
		if e1 != nil && e2 != nil && e3 != nil {
			o.Count("kms/unsupported-dek-template-refused")
		} else {
			o.Count("kms/unsupported-dek-template-accepted")
		}
	}
	// 6. objects whose constructor could not report its error (NewKMSEnvelopeAEAD2 has no error result
	// and is documented to "always fail" afterwards): every call on them, in particular Decrypt on
	// WELL-FORMED envelopes, returns an error and never panics (C02: no input makes Decrypt panic).
	misconfigured(o, rng)
	// 7. … and hand-assembled envelopes whose DEK has the object's own unsupported-but-registered key type
	// (kms_unsupported.go)
	unsupportedDEK(o, rng, mut)
}

var supportedDEK = map[string]bool{urlGCM: true, urlGCMSIV: true, urlCTRHMAC: true, urlChaCha: true, urlXChaCha: true}

func misconfigured(o *hlib.Out, rng *hlib.Rng) {
	k := newKEK(rng)
	k.nextLen = 48
	good := aead.NewKMSEnvelopeAEAD2(dekTemplate(randSpec(rng, dekFams[0], 2), tinkpb.OutputPrefixType_RAW), k)
	var inputs [][]byte
	for i := 0; i < 3; i++ {
		ct, err := good.Encrypt(rng.Bytes(i*17), rng.Bytes(i))
		if err != nil {
			panic(err)
		}
		inputs = append(inputs, ct)
	}
	for _, n := range []int{1, 2, 12, 4096} {
		b := append([]byte{0, 0, byte(n >> 8), byte(n)}, rng.Bytes(n+rng.Intn(40))...)
		inputs = append(inputs, b)
	}
	inputs = append(inputs, nil, []byte{}, []byte{0, 0, 0, 1}, rng.Bytes(5), rng.Bytes(64))
	var bad []*tinkpb.KeyTemplate
	for salt := 8; salt <= 12; salt += 4 {
		bad = append(bad, dekTemplate(pspec{fam: "xaes", salt: salt}, tinkpb.OutputPrefixType_RAW))
	}
	if kt, err := aead.CreateKMSEnvelopeAEADKeyTemplate("stub-kms://x", aead.AES128GCMKeyTemplate()); err == nil {
		bad = append(bad, kt)
	}
	bad = append(bad,
		&tinkpb.KeyTemplate{TypeUrl: "type.googleapis.com/google.crypto.tink.HmacKey", OutputPrefixType: tinkpb.OutputPrefixType_RAW},
		&tinkpb.KeyTemplate{TypeUrl: "type.googleapis.com/google.crypto.tink.NoSuchKey", Value: rng.Bytes(9), OutputPrefixType: tinkpb.OutputPrefixType_RAW},
		&tinkpb.KeyTemplate{TypeUrl: "", OutputPrefixType: tinkpb.OutputPrefixType_RAW},
		&tinkpb.KeyTemplate{TypeUrl: aead.AES128GCMKeyTemplate().TypeUrl, Value: rng.Bytes(7), OutputPrefixType: tinkpb.OutputPrefixType_RAW},
		&tinkpb.KeyTemplate{TypeUrl: aead.AES128GCMKeyTemplate().TypeUrl, Value: nil, OutputPrefixType: tinkpb.OutputPrefixType_RAW},
	)
	for ti, t := range bad {
		o.Case()
		desc := fmt.Sprintf("misconfigured NewKMSEnvelopeAEAD2 #%d dek=%q", ti, t.GetTypeUrl())
		a := aead.NewKMSEnvelopeAEAD2(t, k)
		var encErr error
		var encCT []byte
		if p := hlib.Recover(func() { encCT, encErr = a.Encrypt([]byte("x"), nil) }); p != "" {
			o.Violate("KMS envelope Encrypt panicked (%s): %s", desc, p)
			continue
		}
		if encErr == nil {
			// the template was usable after all: then the object must work
			var pt []byte
			var err error
			if p := hlib.Recover(func() { pt, err = a.Decrypt(encCT, nil) }); p != "" || err != nil || string(pt) != "x" {
				o.Violate("KMS envelope object accepts Encrypt but does not decrypt its own output (%s): panic=%q err=%v", desc, p, err)
			}
			o.Count("kms/misconfigured/usable")
			continue
		}
		for _, in := range inputs {
			var pt []byte
			var err error
			p := hlib.Recover(func() { pt, err = a.Decrypt(in, nil) })
			switch {
			case p != "":
				o.Violate("KMS envelope Decrypt panicked on a %d-byte input (%s) ct=%s: %s", len(in), desc, hlib.Tok(in), p)
			case err == nil && !supportedDEK[t.GetTypeUrl()]:
				// the constructor documents that an object with an unsupported DEK type "always fails"
				o.Violate("KMS envelope Decrypt succeeded on an object with an unsupported DEK key type (%s) ct=%s pt=%s", desc, hlib.Tok(in), hlib.Tok(pt))
			case err == nil:
				// supported type, unusable key format: only key generation (Encrypt) needs the format
				o.Count("kms/misconfigured/decrypt-ok-supported-type")
			default:
				o.Count("kms/misconfigured/decrypt-refused")
			}
		}
	}
}

func fakeKMSCase(o *hlib.Out, rng *hlib.Rng, s pspec) {
	pt := rng.Bytes(rng.MsgLen(200))
	ad, adTok := someAD(rng, 64)
	uri, err := fakekms.NewKeyURI()
	if err != nil {
		panic(err)
	}
	kekA, err := fakekms.NewAEAD(uri)
	if err != nil {
		panic(err)
	}
	kt, err := aead.CreateKMSEnvelopeAEADKeyTemplate(uri, dekTemplate(s, tinkpb.OutputPrefixType_TINK))
	if err != nil {
		o.Violate("CreateKMSEnvelopeAEADKeyTemplate failed (DEK %v): %v", s, err)
		return
	}
	kh, err := keyset.NewHandle(kt)
	if err != nil {
		o.Violate("keyset.NewHandle failed for a KMS envelope key template (DEK %v): %v", s, err)
		return
	}
	p, err := aead.New(kh)
	if err != nil {
		o.Violate("aead.New failed for a KMS envelope keyset (DEK %v): %v", s, err)
		return
	}
	o.Count("kms/entry/keyset+fakekms-client")
	ct, err := p.Encrypt(pt, ad)
	if err != nil {
		o.Violate("KMS envelope Encrypt failed (fake KMS client, DEK %v): %v", s, err)
		return
	}
	back, err := p.Decrypt(ct, ad)
	if err != nil || !bytes.Equal(back, pt) {
		o.Violate("KMS envelope round trip failed (fake KMS client, DEK %v, |pt|=%d): %v", s, len(pt), err)
	}
	// framing: the fake KMS wraps with AES128-GCM/TINK: 5+12+|dek|+16 bytes
	if len(ct) < 4 {
		o.Violate("KMS envelope ciphertext of %d bytes", len(ct))
		return
	}
	wl := int(binary.BigEndian.Uint32(ct))
	if wl <= 0 || wl > len(ct)-4 {
		o.Violate("KMS envelope (fake KMS client): length field %d in a ciphertext of %d bytes", wl, len(ct))
		return
	}
	wrapped, payload := ct[4:4+wl], ct[4+wl:]
	o.Emit(fmt.Sprintf("!A envparse %s", hlib.Tok(ct)), "ok "+hlib.Tok(wrapped)+" "+hlib.Tok(payload), true)
	dek, err := kekA.Decrypt(wrapped, []byte{})
	if err != nil {
		o.Violate("KMS envelope (fake KMS client): the encrypted DEK in the ciphertext is not a ciphertext of the KEK with empty associated data: %v", err)
		return
	}
	dc, err := dekModel(s, dek)
	if err != nil {
		o.Violate("KMS envelope (fake KMS client): the wrapped DEK is not a serialized key of the DEK template (%v): %v", s, err)
		return
	}
	o.Emit(fmt.Sprintf("!A dec %s %s %s", dc.model, hlib.Tok(payload), adTok), rej(back, nil), true)
}
