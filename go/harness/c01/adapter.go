//go:build verif

// Keyset-level prefix matrix of harness c01 (aead/aead_factory.go: prefix lookup, RAW fallback and the
// fullAEADPrimitiveAdapter that turns a key-manager ("legacy") primitive into a full one).
//
// A legacy primitive does not know its output prefix: the adapter prepends it on Encrypt and DROPS
// len(prefix) bytes on Decrypt without looking at them — the prefix is validated by nothing but the
// factory's prefix lookup. So the class (keyset shape) × (legacy-adapter primitive) × (prefix type) ×
// (prefix mutations / inputs shorter than the prefix) is run here through aead.New(handle) for
//
//	stub : a custom registry.KeyManager AEAD of the harness (own type URL, subtle AES-GCM) — prefix T/C/L/R
//	kms  : KmsEnvelopeAeadKey keys (stub remote AEAD through a registered KMS client)       — prefix T/C/L/R
//	full : the full primitives of every AEAD key type                                         — every variant
//
// in keysets of size 1 and of size 2..4 with the producing key first / last / between ENABLED and
// DISABLED neighbours (in particular: the only enabled key of a larger keyset), primary or not.
//
// Mode rt (C01): ciphertext = cryptofmt output prefix ‖ raw ciphertext, byte-identical to the model's
// (`!A enc`), round trip through the keyset, model-made ciphertexts decrypt. Mode mut (C02): every
// single-bit flip of the 5 prefix bytes, other start bytes, every other member's and foreign key ids,
// prefix stripped / doubled / zeroed, RAW↔prefixed confusion, inputs of 0..5 bytes (cap == len and
// re-slices of longer buffers, nil), cuts, body/tag flips, associated-data changes: error expected,
// never plaintext, never a panic. The independent verdict is the model's `A dec` line with the model's
// own prefix handling (Full/EtM/GcmSiv/Xaes over the key's variant and id): for stub and full keys on
// the whole input, for KMS keys over the DEK's AEAD on prefix ‖ payload whenever the envelope header
// behind the prefix is untouched (otherwise the Go-side oracle alone).
package main

import (
	"bytes"
	"encoding/binary"
	"errors"
	"fmt"
	"strings"

	"google.golang.org/protobuf/proto"

	"github.com/tink-crypto/tink-go/v2/aead"
	"github.com/tink-crypto/tink-go/v2/aead/subtle"
	"github.com/tink-crypto/tink-go/v2/core/cryptofmt"
	"github.com/tink-crypto/tink-go/v2/core/registry"
	"github.com/tink-crypto/tink-go/v2/internal/internalapi"
	"github.com/tink-crypto/tink-go/v2/internal/protoserialization"
	"github.com/tink-crypto/tink-go/v2/internal/verifharness/hlib"
	"github.com/tink-crypto/tink-go/v2/key"
	"github.com/tink-crypto/tink-go/v2/keyset"
	tinkpb "github.com/tink-crypto/tink-go/v2/proto/tink_go_proto"
	"github.com/tink-crypto/tink-go/v2/tink"
)

// ---------- the stub key manager (legacy path: FallbackProtoKey → legacyprimitive → adapter) ----------

const urlStubAEAD = "type.googleapis.com/verif.c01.RawAesGcm"

type stubAeadKM struct{}

func (stubAeadKM) Primitive(v []byte) (any, error) { return subtle.NewAESGCM(v) }
func (stubAeadKM) NewKey([]byte) (proto.Message, error) {
	return nil, errors.New("verif stub: key generation unsupported")
}
func (stubAeadKM) NewKeyData([]byte) (*tinkpb.KeyData, error) {
	return nil, errors.New("verif stub: key generation unsupported")
}
func (stubAeadKM) DoesSupport(u string) bool { return u == urlStubAEAD }
func (stubAeadKM) TypeURL() string           { return urlStubAEAD }

// ---------- members ----------

// the four output prefix types, in the order of the model's variant letters
var (
	v4code  = []string{"T", "C", "L", "R"}
	v4proto = []tinkpb.OutputPrefixType{tinkpb.OutputPrefixType_TINK, tinkpb.OutputPrefixType_CRUNCHY, tinkpb.OutputPrefixType_LEGACY, tinkpb.OutputPrefixType_RAW}
)

// wirePrefix is the harness's own computation of the output prefix (not tink's).
func wirePrefix(v int, id uint32) []byte {
	switch v {
	case 0:
		return binary.BigEndian.AppendUint32([]byte{1}, id)
	case 1, 2:
		return binary.BigEndian.AppendUint32([]byte{0}, id)
	}
	return []byte{}
}

type amember struct {
	kind   string // stub | kms | full/<fam>
	legacy bool
	v      int    // 0 T, 1 C, 2 L, 3 R
	id     uint32 // the key id in the keyset (RAW keys have one too; it is not on the wire)
	k      key.Key
	pre    []byte
	// stub / full: the model description (with the key's variant and id), nonce and tag length
	model          string
	rndLen, tagLen int
	// kms: the stub remote AEAD and the DEK parameter point
	kek *kek
	s   pspec
	// a single-key keyset primitive of the same key, built on demand (producer of ciphertexts when the key
	// is not the primary of the keyset under test)
	solo tink.AEAD
}

func (m *amember) desc() string { return m.kind + "/" + v4code[m.v] }

func (m *amember) vs() string {
	if m.v == 3 {
		return "R 0"
	}
	return fmt.Sprintf("%s %d", v4code[m.v], m.id)
}

func fallbackKey(kd *tinkpb.KeyData, v int, id uint32) key.Key {
	idReq := id
	if v == 3 {
		idReq = 0
	}
	ser, err := protoserialization.NewKeySerialization(kd, v4proto[v], idReq)
	if err != nil {
		panic(err)
	}
	k, err := protoserialization.ParseKey(ser)
	if err != nil {
		panic(err)
	}
	if _, ok := k.(*protoserialization.FallbackProtoKey); !ok {
		panic(fmt.Sprintf("c01 adapter: key of %s parsed to %T, not a fallback key: the legacy path is not taken", kd.GetTypeUrl(), k))
	}
	return k
}

func newStubMember(rng *hlib.Rng, v int, id uint32) *amember {
	kb := rng.Bytes(rng.Pick(16, 32))
	m := &amember{kind: "stub", legacy: true, v: v, id: id, pre: wirePrefix(v, id), rndLen: 12, tagLen: 16}
	m.k = fallbackKey(&tinkpb.KeyData{TypeUrl: urlStubAEAD, Value: kb, KeyMaterialType: tinkpb.KeyData_SYMMETRIC}, v, id)
	m.model = fmt.Sprintf("gcm %s %s", hlib.Tok(kb), m.vs())
	return m
}

func newKMSMember(rng *hlib.Rng, v int, id uint32, fam string) *amember {
	m := &amember{kind: "kms", legacy: true, v: v, id: id, pre: wirePrefix(v, id), s: randSpec(rng, fam, 2)}
	// the stub draws the wrapped DEKs from a stream of its own: the pre phase makes fewer ciphertexts
	m.kek = newKEK(hlib.NewRng(rng.U64(), "adp-kek"))
	m.kek.nextLen = rng.Pick(1, 2, 28, 28, 60, 300)
	stubN++
	uri := fmt.Sprintf("stub-kms://adp/%d", stubN)
	stubClient.m[uri] = m.kek
	kt, err := aead.CreateKMSEnvelopeAEADKeyTemplate(uri, dekTemplate(m.s, prefixTypes[rng.Intn(4)]))
	if err != nil {
		panic(err)
	}
	kd, err := registry.NewKeyData(kt)
	if err != nil {
		panic(err)
	}
	m.k = fallbackKey(kd, v, id)
	return m
}

// newFullMember: v is a prefix type of the four; key types without a LEGACY variant take CRUNCHY, XAES
// (no CRUNCHY either) takes TINK.
func newFullMember(rng *hlib.Rng, fam string, v int, id uint32) *amember {
	s := randSpec(rng, fam, 2)
	switch {
	case v == 3:
		s.vi = 2
	case v == 0 || fam == "xaes":
		s.vi, v = 0, 0
	default:
		s.vi, v = 1, 1
	}
	s.id = id
	c, k := buildKey(s, rng)
	return &amember{kind: "full/" + fam, v: v, id: id, k: k, pre: wirePrefix(v, id), model: c.model, rndLen: c.rndLen, tagLen: c.tagLen}
}

func (m *amember) soloPrim() tink.AEAD {
	if m.solo == nil {
		km := keyset.NewManager()
		if _, err := km.AddKeyWithOpts(m.k, internalapi.Token{}, keyset.AsPrimary(), keyset.WithFixedID(m.id)); err != nil {
			panic(err)
		}
		kh, err := km.Handle()
		if err != nil {
			panic(err)
		}
		if m.solo, err = aead.New(kh); err != nil {
			panic(err)
		}
	}
	return m.solo
}

// kmsModel: the model description of "this key's prefix over the DEK's AEAD" for the DEK the stub saw.
func (m *amember) kmsModel(dek []byte) (cfg, error) {
	dc, err := dekModel(m.s, dek)
	if err != nil {
		return dc, err
	}
	dc.model = strings.TrimSuffix(dc.model, "R 0") + m.vs()
	return dc, nil
}

// ---------- keyset shapes ----------

// slots: T the producing key, e an ENABLED neighbour, d a DISABLED neighbour; prim = index of the primary.
var adpShapes = []struct {
	name, slots string
	prim        int
}{
	{"single", "T", 0},
	{"first-of-2", "Te", 0},
	{"first-of-4", "Teee", 2},
	{"last-of-2", "eT", 0},
	{"last-of-4", "eeeT", 3},
	{"only-enabled/Td", "Td", 0},
	{"only-enabled/dT", "dT", 1},
	{"only-enabled/dTd", "dTd", 1},
	{"only-enabled/ddTd", "ddTd", 2},
	{"mixed/edT", "edT", 0},
	{"mixed/dTed", "dTed", 1},
	{"mixed/eTd", "eTd", 1},
}

var fullFams = []string{"gcm", "gcmsiv", "ctrhmac", "chacha", "xchacha", "xaes"}

type adpTarget struct {
	kind, fam string
	v         int
}

func adpTargets() []adpTarget {
	var ts []adpTarget
	for v := 0; v < 4; v++ {
		ts = append(ts, adpTarget{"stub", "", v}, adpTarget{"kms", "", v})
	}
	for _, f := range fullFams {
		for _, v := range []int{0, 1, 3} {
			if f == "xaes" && v == 1 {
				continue
			}
			ts = append(ts, adpTarget{"full", f, v})
		}
	}
	return ts
}

var adpRegistered bool

func runAdapters(o *hlib.Out, rng *hlib.Rng, mut bool) {
	if !adpRegistered {
		if err := registry.RegisterKeyManager(stubAeadKM{}); err != nil {
			panic(err)
		}
		registry.RegisterKMSClient(stubClient)
		adpRegistered = true
	}
	reps := hlib.N(2, 10)
	if mut {
		reps = hlib.N(1, 6)
	}
	n := 0
	for rep := 0; rep < reps; rep++ {
		for _, tg := range adpTargets() {
			for _, sh := range adpShapes {
				o.Case()
				n++
				adpCase(o, rng, mut, n, tg, sh.name, sh.slots, sh.prim)
			}
		}
	}
}

func freshID(rng *hlib.Rng, used map[uint32]bool) uint32 {
	for {
		id := rng.KeyID()
		if !used[id] {
			used[id] = true
			return id
		}
	}
}

func adpCase(o *hlib.Out, rng *hlib.Rng, mut bool, n int, tg adpTarget, shape, slots string, prim int) {
	used := map[uint32]bool{}
	var ms []*amember
	ti := strings.IndexByte(slots, 'T')
	for i := range slots {
		id := freshID(rng, used)
		var m *amember
		if i == ti {
			switch tg.kind {
			case "stub":
				m = newStubMember(rng, tg.v, id)
			case "kms":
				m = newKMSMember(rng, tg.v, id, dekFams[n%len(dekFams)])
			default:
				m = newFullMember(rng, tg.fam, tg.v, id)
			}
		} else {
			// neighbours: every kind and prefix type in turn (legacy ones twice as often)
			v := rng.Intn(4)
			switch (n + i) % 5 {
			case 0, 1:
				m = newStubMember(rng, v, id)
			case 2:
				m = newKMSMember(rng, v, id, dekFams[rng.Intn(len(dekFams))])
			default:
				m = newFullMember(rng, fullFams[rng.Intn(len(fullFams))], v, id)
			}
		}
		ms = append(ms, m)
	}
	t := ms[ti]
	km := keyset.NewManager()
	for i, m := range ms {
		opts := []keyset.KeyOpts{keyset.WithFixedID(m.id)}
		if slots[i] == 'd' {
			opts = append(opts, keyset.WithStatus(keyset.Disabled))
		}
		if i == prim {
			opts = append(opts, keyset.AsPrimary())
		}
		if _, err := km.AddKeyWithOpts(m.k, internalapi.Token{}, opts...); err != nil {
			panic(fmt.Sprintf("c01 adapter: %s %s: %v", shape, m.desc(), err))
		}
	}
	kh, err := km.Handle()
	if err != nil {
		panic(err)
	}
	what := fmt.Sprintf("keyset %s (%d keys), producing key %s id %d", shape, len(ms), t.desc(), t.id)
	var ks tink.AEAD
	if p := hlib.Recover(func() { ks, err = aead.New(kh) }); p != "" || err != nil {
		o.Violate("aead.New failed on %s: %v %s", what, err, p)
		return
	}
	size := "multi-key"
	if len(ms) == 1 {
		size = "single-key"
	} else if !strings.Contains(slots, "e") {
		size = "multi-key-one-enabled"
	}
	kindClass := "full-primitive"
	if t.legacy {
		kindClass = "legacy-adapter/" + t.kind
	}
	o.Count("adp/shape/" + shape)
	o.Count("adp/key/" + t.desc())
	o.Count(fmt.Sprintf("adp/matrix/%s × %s × %s", size, kindClass, v4code[t.v]))
	for _, m := range ms {
		if m != t {
			o.Count("adp/neighbour/" + m.desc())
		}
	}

	// ---- all randomness of the case up front (the pre phase leaves early) ----
	sub := hlib.NewRng(rng.U64(), "adp-case")
	rounds := 2
	for j := 0; j < rounds; j++ {
		ptl := sub.MsgLen(64)
		if sub.Chance(15) {
			ptl = 0
		}
		pt := sub.Bytes(ptl)
		ad, adTok := someAD(sub, 32)
		nonce := sub.Bytes(t.rndLen)
		mrng := hlib.NewRng(sub.U64(), "adp-mut")
		modelMade := t.kind != "kms" && j == 1

		var ct []byte
		model := t.model
		hdr := 0 // kms: length of the envelope header 4+|encrypted DEK| behind the prefix
		if modelMade {
			ans := hlib.Ask(fmt.Sprintf("A enc %s %s %s %s", t.model, hlib.Tok(nonce), hlib.Tok(pt), adTok))
			if hlib.Pre() {
				continue
			}
			if !strings.HasPrefix(ans, "ok ") {
				o.Violate("model could not encrypt: %s", ans)
				continue
			}
			ct = hlib.FromTok(ans[3:])
			o.Count("adp/ct/model-made")
		} else {
			if hlib.Pre() {
				continue
			}
			producer, via := ks, "the keyset"
			if ti != prim {
				producer, via = t.soloPrim(), "a single-key keyset of the same key"
			}
			if t.kek != nil {
				t.kek.reset()
			}
			var err error
			if p := hlib.Recover(func() { ct, err = producer.Encrypt(pt, ad) }); p != "" || err != nil {
				o.Violate("Encrypt through %s failed (%s): %v %s", via, what, err, p)
				continue
			}
			o.Count("adp/ct/tink-made")
			// the ciphertext starts with the key's output prefix: the harness's own value and cryptofmt's
			cf, err := cryptofmt.OutputPrefix(&tinkpb.Keyset_Key{KeyId: t.id, OutputPrefixType: v4proto[t.v], Status: tinkpb.KeyStatusType_ENABLED})
			if err != nil || cf != string(t.pre) {
				o.Violate("cryptofmt.OutputPrefix for %s id %d is %x, expected %x", v4code[t.v], t.id, cf, t.pre)
			}
			if !bytes.HasPrefix(ct, t.pre) {
				o.Violate("ciphertext does not start with the key's output prefix %x (%s): %s", t.pre, what, hlib.Tok(ct[:min(len(ct), 8)]))
				continue
			}
			if t.kind == "kms" {
				if t.kek.encCalls != 1 {
					o.Violate("KMS envelope Encrypt made %d calls of the key-encryption AEAD (%s)", t.kek.encCalls, what)
					continue
				}
				wrapped := t.kek.encOut
				dc, derr := t.kmsModel(t.kek.encDEK)
				if derr != nil {
					o.Violate("KMS envelope: what was handed to the KMS is not a serialized key of the DEK template (%s): %v", what, derr)
					continue
				}
				model, hdr = dc.model, 4+len(wrapped)
				envl := ct[len(t.pre):]
				if len(envl) != hdr+dc.rndLen+len(pt)+dc.tagLen || !bytes.Equal(envl[:hdr], envelope(wrapped, nil)) {
					o.Violate("KMS envelope ciphertext is not prefix ‖ be32(|encrypted DEK|) ‖ encrypted DEK ‖ nonce ‖ body ‖ tag (%s, |pt|=%d |ct|=%d)", what, len(pt), len(ct))
					continue
				}
				o.Emit(fmt.Sprintf("!A envparse %s", hlib.Tok(envl)), "ok "+hlib.Tok(wrapped)+" "+hlib.Tok(envl[hdr:]), true)
			} else {
				if len(ct) != len(t.pre)+t.rndLen+len(pt)+t.tagLen {
					o.Violate("ciphertext length %d is not prefix+nonce+|pt|+tag (%s)", len(ct), what)
					continue
				}
				o.Emit(fmt.Sprintf("!A enc %s %s %s %s", t.model, hlib.Tok(ct[len(t.pre):len(t.pre)+t.rndLen]), hlib.Tok(pt), adTok), "ok "+hlib.Tok(ct), true)
			}
		}
		// view: what the model is asked about an input — the input itself, or (kms) prefix ‖ payload
		// when the envelope header behind the prefix is the genuine one
		P := len(t.pre)
		view := func(d []byte) ([]byte, bool) {
			if hdr == 0 {
				return d, true
			}
			if len(d) >= P+hdr && bytes.Equal(d[P:P+hdr], ct[P:P+hdr]) {
				return append(cp(d[:P]), d[P+hdr:]...), true
			}
			return nil, false
		}
		// ---- positive: the keyset decrypts it (twice, buffer untouched), nil/empty ad interchangeable ----
		saved := cp(ct)
		var back []byte
		var derr error
		if p := hlib.Recover(func() { back, derr = ks.Decrypt(ct, ad) }); p != "" {
			o.Violate("Decrypt panicked on a valid ciphertext (%s): %s", what, p)
			continue
		}
		if derr != nil || !bytes.Equal(back, pt) {
			o.Violate("%s: a valid ciphertext of the producing key does not decrypt (model-made=%v |pt|=%d |ad|=%d): %v", what, modelMade, len(pt), len(ad), derr)
		}
		vct, _ := view(saved)
		o.Emit(fmt.Sprintf("!A dec %s %s %s", model, hlib.Tok(vct), adTok), rej(back, derr), true)
		if !bytes.Equal(ct, saved) {
			o.Violate("Decrypt modified the caller's ciphertext buffer (%s)", what)
			copy(ct, saved)
		}
		if b2, e2 := ks.Decrypt(ct, ad); e2 != nil || !bytes.Equal(b2, pt) {
			o.Violate("second Decrypt of the same ciphertext buffer failed (%s)", what)
		}
		if len(ad) == 0 {
			other := []byte{}
			if ad != nil {
				other = nil
			}
			if b2, e2 := ks.Decrypt(ct, other); e2 != nil || !bytes.Equal(b2, pt) {
				o.Violate("nil/empty associated data are not interchangeable (%s)", what)
			}
		}
		// the single-key keyset of the same key reads it too
		if b2, e2 := t.soloPrim().Decrypt(ct, ad); e2 != nil || !bytes.Equal(b2, pt) {
			o.Violate("a single-key keyset of the producing key does not decrypt its ciphertext (%s): %v", what, e2)
		}
		o.Count("adp/roundtrip/" + size + "/" + kindClass)
		if !mut {
			continue
		}

		// ---- C02: nothing else is accepted ----
		nPanic, nAccept := 0, 0 // at most two reports of a kind per ciphertext: the 20 slots should show the breadth
		for _, mu := range adpMutations(mrng, t, ms, ct, hdr) {
			in := mu.Data
			var before []byte
			if in != nil {
				before = cp(in)
			}
			var b []byte
			var e error
			p := hlib.Recover(func() { b, e = ks.Decrypt(in, ad) })
			o.Count("mut/adp/" + mu.Kind)
			o.Count("adp/mut-matrix/" + size + " × " + kindClass + " × " + v4code[t.v] + " × " + mutClass(mu.Kind))
			goRes := rej(b, e)
			switch {
			case p != "":
				goRes = "panic"
				if nPanic++; nPanic > 2 {
					break
				}
				o.Violate("Decrypt panicked on a %s input of %d bytes (%s) ct=%s: %s", mu.Kind, len(in), what, hlib.Tok(in), p)
			case e == nil && !bytes.Equal(in, ct):
				if nAccept++; nAccept > 2 {
					break
				}
				o.Violate("Decrypt released plaintext for a %s input (%s) valid=%s presented=%s", mu.Kind, what, hlib.Tok(ct), hlib.Tok(in))
			case !bytes.Equal(in, before):
				o.Violate("Decrypt modified the caller's buffer on a rejected %s input (%s)", mu.Kind, what)
			}
			if v, ok := view(in); ok {
				o.Emit(fmt.Sprintf("A dec %s %s %s", model, hlib.Tok(v), adTok), goRes, true)
			} else {
				o.Count("adp/go-oracle-only")
			}
		}
		vct, _ = view(ct)
		for _, mu := range append(mrng.Mutations(ad, 2), hlib.Mut{Kind: "ad-dropped", Data: nil}, hlib.Mut{Kind: "ad-extended", Data: append(cp(ad), 0)}) {
			b, e := ks.Decrypt(ct, mu.Data)
			if e == nil && !bytes.Equal(mu.Data, ad) {
				o.Violate("Decrypt accepted modified associated data (%s, %s)", mu.Kind, what)
			}
			o.Count("mut/adp/ad")
			o.Emit(fmt.Sprintf("A dec %s %s %s", model, hlib.Tok(vct), hlib.Tok(mu.Data)), rej(b, e), true)
		}
	}
}

func mutClass(kind string) string {
	switch {
	case strings.HasPrefix(kind, "prefix-bit"), strings.HasPrefix(kind, "start-byte"), strings.HasPrefix(kind, "key-id"),
		strings.HasPrefix(kind, "prefix-"), strings.HasPrefix(kind, "raw-"), strings.HasPrefix(kind, "prefixed-"):
		return "prefix"
	case strings.HasPrefix(kind, "short"):
		return "short"
	}
	return "body"
}

// adpMutations: the inputs derived from the valid ciphertext ct of member t in the keyset ms.
func adpMutations(rng *hlib.Rng, t *amember, ms []*amember, ct []byte, hdr int) []hlib.Mut {
	var out []hlib.Mut
	add := func(kind string, d []byte) { out = append(out, hlib.Mut{Kind: kind, Data: d}) }
	P := len(t.pre)
	body := ct[P:]
	withPrefix := func(p []byte) []byte { return append(cp(p), body...) }
	// every single bit of the first five bytes (the output prefix; for RAW keys: the start of the raw ciphertext)
	keep := rng.Intn(8)
	for bit := 0; bit < 40 && bit/8 < len(ct); bit++ {
		if P == 0 && bit >= 8 && bit%8 != keep { // RAW: all of byte 0, one bit of the others
			continue
		}
		m := cp(ct)
		m[bit/8] ^= 1 << uint(bit%8)
		if P == 5 {
			add("prefix-bitflip", m)
		} else {
			add("first5-bitflip", m)
		}
	}
	startByte := byte(1)
	if P == 5 {
		startByte = ct[0]
		// the other variant's start byte, and start bytes of no variant
		for _, sb := range []byte{0, 1, 2, 0x80, 0xff} {
			if sb != ct[0] {
				m := cp(ct)
				m[0] = sb
				add("start-byte", m)
			}
		}
	}
	// another key's id: every other member of the keyset (enabled or not; for RAW members the prefix
	// they would have), and ids of no member
	ids := []uint32{t.id + 1, t.id - 1, t.id ^ 0x80000000, t.id<<8 | t.id>>24, uint32(rng.U64())}
	for _, id := range ids {
		p := binary.BigEndian.AppendUint32([]byte{startByte}, id)
		if P == 5 {
			add("key-id/foreign", withPrefix(p))
		} else {
			add("prefixed-of-raw/foreign-id", append(p, ct...))
		}
	}
	for _, m := range ms {
		if m == t {
			continue
		}
		for _, sb := range []byte{0, 1} {
			p := binary.BigEndian.AppendUint32([]byte{sb}, m.id)
			if P == 5 {
				add("key-id/member", withPrefix(p))
			} else {
				add("prefixed-of-raw/member-id", append(p, ct...))
			}
		}
	}
	if P == 5 {
		add("prefix-stripped", cp(body)) // = the RAW ciphertext presented to a prefixed key
		add("prefix-doubled", append(cp(t.pre), ct...))
		add("prefix-zeroed", withPrefix([]byte{0, 0, 0, 0, 0}))
		add("prefix-ones", withPrefix([]byte{0xff, 0xff, 0xff, 0xff, 0xff}))
		add("prefix-4-bytes", append(cp(t.pre[:4]), body...))
		add("prefix-6-bytes", append(append(cp(t.pre), 0), body...))
		add("prefix-reversed", withPrefix([]byte{ct[4], ct[3], ct[2], ct[1], ct[0]}))
	} else {
		// a prefixed ciphertext presented to a RAW key
		add("prefixed-of-raw/own-id-tink", append(wirePrefix(0, t.id), ct...))
		add("prefixed-of-raw/own-id-crunchy", append(wirePrefix(1, t.id), ct...))
		add("prefixed-of-raw/zero", append([]byte{0, 0, 0, 0, 0}, ct...))
	}
	// inputs of 0..5 bytes: nil, fresh slices with cap == len, re-slices of a longer buffer, random ones,
	// (parts of) the prefixes of the members
	add("short/nil", nil)
	for n := 0; n <= 5 && n <= len(ct); n++ {
		fresh := make([]byte, n)
		copy(fresh, ct[:n])
		add(fmt.Sprintf("short/%d/cap=len", n), fresh)
		add(fmt.Sprintf("short/%d/reslice", n), cp(ct)[:n])
		add(fmt.Sprintf("short/%d/random", n), rng.Bytes(n))
		for _, m := range ms {
			if m != t && n > 0 {
				add(fmt.Sprintf("short/%d/member-prefix", n), wirePrefix(m.v%3, m.id)[:n])
			}
		}
	}
	// cut points: everything up to the minimal length +1, the last byte
	minLen := P + hdr + t.rndLen + t.tagLen
	if t.kind == "kms" {
		minLen = P + hdr + 12 + 10
	}
	for _, l := range []int{6, 7, P + hdr, P + hdr + 1, minLen - 1, minLen, 6 + rng.Intn(max(len(ct)-6, 1)), len(ct) - 1} {
		if l > 5 && l < len(ct) {
			add("cut", cp(ct[:l]))
		}
	}
	add("extend", append(cp(ct), byte(rng.Intn(256))))
	// flips in every field behind the prefix
	for _, pos := range []int{P, P + 3, P + 4, P + hdr - 1, P + hdr, P + hdr + 11, len(ct) - 17, len(ct) - 16, len(ct) - 1, P + rng.Intn(len(ct)-P)} {
		if pos >= P && pos < len(ct) {
			m := cp(ct)
			m[pos] ^= 1 << uint(rng.Intn(8))
			add("flip", m)
		}
	}
	for _, mu := range rng.Mutations(ct, 4) {
		if !bytes.Equal(mu.Data, ct) {
			add("random/"+mu.Kind, mu.Data)
		}
	}
	return out
}
