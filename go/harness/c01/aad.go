//go:build verif

// The associated-data length block of the AES-CTR-HMAC encrypt-then-MAC input
// (ad ‖ iv ‖ ciphertext ‖ be64(8·|ad|)) for sizes that cannot be exercised end to end: the encoders of
// aead/aesctrhmac (hook VerifAADSizeInBits) and of the legacy aead/subtle.EncryptThenAuthenticate
// (a recording MAC sees the assembled MAC input) are compared with the model's `A aadbits <n>`
// (EtM.macInput) on zero-filled, never touched slices around 2^29, 2^31 and 2^32 bytes.
package main

import (
	"encoding/hex"
	"fmt"
	"runtime"
	"syscall"

	"github.com/tink-crypto/tink-go/v2/aead/aesctrhmac"
	"github.com/tink-crypto/tink-go/v2/aead/subtle"
	"github.com/tink-crypto/tink-go/v2/internal/verifharness/hlib"
)

// tailMAC is a tink.MAC that records the last 8 bytes of what it is asked to authenticate.
type tailMAC struct {
	tail []byte
	n    int
}

func (m *tailMAC) see(data []byte) {
	m.n = len(data)
	m.tail = nil
	if len(data) >= 8 {
		m.tail = cp(data[len(data)-8:])
	}
}
func (m *tailMAC) ComputeMAC(data []byte) ([]byte, error) { m.see(data); return make([]byte, 16), nil }
func (m *tailMAC) VerifyMAC(_, data []byte) error         { m.see(data); return nil }

// idCipher is an INDCPACipher with a 16-byte zero "IV" and no encryption.
type idCipher struct{}

func (idCipher) Encrypt(p []byte) ([]byte, error) { return append(make([]byte, 16), p...), nil }
func (idCipher) Decrypt(c []byte) ([]byte, error) { return cp(c[16:]), nil }

func runAADBits(o *hlib.Out, rng *hlib.Rng) {
	o.Case()
	if hlib.Pre() { // nothing is asked of the model here
		return
	}
	sizes := []int{0, 1, 2, 31, 32, 4096, 4097, 1<<29 - 1, 1 << 29, 1<<29 + 1, 1 << 30, 1<<31 - 1, 1 << 31, 1<<31 + 1, 3 << 29, 5 << 29, 7 << 29, 1<<32 - 1, 1 << 32, 1<<32 + 1}
	for i := 0; i < 12; i++ {
		sizes = append(sizes, rng.Intn(1<<32+2), 1<<29*(1+rng.Intn(8))+rng.Intn(3)-1, rng.Intn(1<<16))
	}
	// one anonymous read-only mapping, never written: the pages are not touched (the Go allocator might
	// zero a 4 GiB heap object), only len() is read; the legacy path below reads 512 MiB of zero pages
	big, err := syscall.Mmap(-1, 0, 1<<32+1, syscall.PROT_READ, syscall.MAP_ANON|syscall.MAP_PRIVATE|syscall.MAP_NORESERVE)
	if err != nil {
		panic(fmt.Sprintf("c01: cannot map 4 GiB of address space: %v", err))
	}
	defer syscall.Munmap(big)
	for _, n := range sizes {
		got := aesctrhmac.VerifAADSizeInBits(big[:n])
		o.Emit(fmt.Sprintf("!A aadbits %d", n), hex.EncodeToString(got), true)
		o.Count("aadbits/aesctrhmac")
		if n >= 1<<29 {
			o.Count("aadbits/aesctrhmac/ad>=2^29")
		}
	}
	// legacy aead/subtle.EncryptThenAuthenticate assembles ad ‖ ciphertext ‖ bitlen in one buffer (the
	// associated data is copied): sizes just around the 2^32-bit boundary only, one at a time
	legacy := []int{0, 1, 4097, 1<<29 + 1}
	if hlib.Thorough() {
		legacy = append(legacy, 1<<29-1, 1<<29, 1<<30, 1<<31)
	}
	m := &tailMAC{}
	eta, err := subtle.NewEncryptThenAuthenticate(idCipher{}, m, 16)
	if err != nil {
		panic(err)
	}
	for _, n := range legacy {
		ct, err := eta.Encrypt([]byte("p"), big[:n])
		if err != nil {
			o.Violate("subtle.EncryptThenAuthenticate.Encrypt failed with %d bytes of associated data: %v", n, err)
			continue
		}
		if m.n != n+17+8 {
			o.Violate("subtle.EncryptThenAuthenticate authenticated %d bytes for |ad|=%d, |iv‖ct|=17: not ad ‖ ciphertext ‖ 8-byte length", m.n, n)
		}
		o.Emit(fmt.Sprintf("!A aadbits %d", n), hex.EncodeToString(m.tail), true)
		m.see(nil)
		runtime.GC() // the copy of the associated data made by Encrypt is garbage now
		if _, err := eta.Decrypt(ct, big[:n]); err != nil {
			o.Violate("subtle.EncryptThenAuthenticate.Decrypt failed with %d bytes of associated data: %v", n, err)
			continue
		}
		o.Emit(fmt.Sprintf("!A aadbits %d", n), hex.EncodeToString(m.tail), true)
		runtime.GC()
		o.Count("aadbits/subtle-legacy")
		if n >= 1<<29 {
			o.Count("aadbits/subtle-legacy/ad>=2^29")
		}
	}
}
