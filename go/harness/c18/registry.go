//go:build verif

package main

// Section 4: the global registries under concurrent lookups — core/registry (key managers, KMS
// clients), internal/primitiveregistry, internal/protoserialization, internal/keygenregistry
// (through keyset.NewHandle / Manager.AddNewKeyFromParameters), internal/internalregistry
// (monitoring client) — mixed over all key types in one window, concurrently with idempotent
// re-registration, KMS client registration and monitoring client registration.

import (
	"fmt"
	"runtime"
	"strings"
	"sync"
	"sync/atomic"

	"github.com/tink-crypto/tink-go/v2/core/registry"
	"github.com/tink-crypto/tink-go/v2/insecurecleartextkeyset"
	"github.com/tink-crypto/tink-go/v2/internal/internalregistry"
	"github.com/tink-crypto/tink-go/v2/internal/primitiveregistry"
	"github.com/tink-crypto/tink-go/v2/internal/protoserialization"
	"github.com/tink-crypto/tink-go/v2/internal/verifharness/hlib"
	"github.com/tink-crypto/tink-go/v2/internal/verifharness/kslib"
	"github.com/tink-crypto/tink-go/v2/key"
	"github.com/tink-crypto/tink-go/v2/keyset"
	tinkpb "github.com/tink-crypto/tink-go/v2/proto/tink_go_proto"
	"github.com/tink-crypto/tink-go/v2/testing/fakemonitoring"
	"github.com/tink-crypto/tink-go/v2/tink"
)

// c18KMS is a KMS client for its own URI prefix only.
type c18KMS struct {
	prefix string
	a      tink.AEAD
}

func (c *c18KMS) Supported(uri string) bool { return strings.HasPrefix(uri, c.prefix) }
func (c *c18KMS) GetAEAD(uri string) (tink.AEAD, error) {
	if !c.Supported(uri) {
		return nil, fmt.Errorf("unsupported")
	}
	return c.a, nil
}

var kmsCounter atomic.Uint64

func (e *engine) simpleJob(id, class string, build func(rep *report) (*target, error)) job {
	return job{id: id, cost: 1, run: func() *report {
		rep := newReport(id, class)
		t, err := build(rep)
		if err != nil {
			rep.violate("%s could not be built (harness): %v", id, err)
			return rep
		}
		runTarget(rep, e.seed, t, false)
		return rep
	}}
}

func (e *engine) registrySection(pool *kslib.Pool, its []*item) {
	seed := e.seed
	// ---- key managers, for every type URL of the pool at once
	kmJob := e.simpleJob("registry:key-managers", "registry", func(rep *report) (*target, error) {
		t := &target{id: "registry:key-managers", class: "registry", cost: 0}
		seen := map[string]bool{}
		for _, pk := range pool.Keys {
			url := pk.KD.GetTypeUrl()
			if seen[url] {
				continue
			}
			seen[url] = true
			look := func() string {
				km, err := registry.GetKeyManager(url)
				if err != nil {
					return "err"
				}
				return fmt.Sprintf("%p|%s|%v|%v", km, km.TypeURL(), km.DoesSupport(url), km.DoesSupport(url+"x"))
			}
			t.add("get-key-manager", []byte(url), look(), func(*hlib.Rng) string { return look() })
			if km0, err := registry.GetKeyManager(url); err == nil {
				rereg := func() string {
					s := "re-registration-accepted"
					if err := registry.RegisterKeyManager(km0); err != nil {
						s = "already-registered"
					}
					km, err := registry.GetKeyManager(url)
					if err != nil || km != km0 {
						return s + ",lookup-changed"
					}
					return s + ",same-manager"
				}
				t.add("re-register-key-manager", []byte(url), rereg(), func(*hlib.Rng) string { return rereg() })
			}
			rep.count("registry/type-urls")
		}
		t.add("get-key-manager", []byte("unknown"), "err", func(*hlib.Rng) string {
			if _, err := registry.GetKeyManager("type.googleapis.com/google.crypto.tink.NoSuchKey"); err != nil {
				return "err"
			}
			return "found"
		})
		// legacy primitive construction through the registry + use, and key generation through
		// the registry, one key per type URL
		seenT := map[string]bool{}
		for _, it := range its {
			it := it
			if seenT[it.pk.Type] || it.cost > 1 {
				continue
			}
			seenT[it.pk.Type] = true
			mk := it.mkKM()
			if p0, err := mk(); err == nil {
				r := hlib.NewRng(seed, "registry-use/"+it.token)
				if want, use, err := fixedUse(p0, r, it.cost); err == nil {
					t.add("primitive-from-key-data-then-use", []byte(it.token), want, func(*hlib.Rng) string {
						p, err := mk()
						if err != nil {
							return "err:" + errStr(err)
						}
						return use(p)
					})
				}
			}
			tmpl, err := protoserialization.SerializeParameters(it.key.Parameters())
			if err != nil {
				continue
			}
			gen := func() string {
				kd, err := registry.NewKeyData(tmpl)
				if err != nil {
					return "err"
				}
				s := fmt.Sprintf("%s,%v,%v", kslib.TypeOfURL(kd.GetTypeUrl()), kd.GetKeyMaterialType(), len(kd.GetValue()) > 0)
				if _, err := registry.NewKey(tmpl); err != nil {
					s += ",newkey-err"
				}
				return s
			}
			t.add("new-key-data", []byte(it.token), gen(), func(*hlib.Rng) string { return gen() })
		}
		return t, nil
	})

	// ---- protoserialization / primitiveregistry / keygen over all key types at once
	psJob := e.simpleJob("registry:protoserialization", "registry", func(rep *report) (*target, error) {
		t := &target{id: "registry:protoserialization", class: "registry", cost: 0}
		add := func(tokn string, k key.Key, cost int) {
			ser, err := protoserialization.SerializeKey(k)
			if err != nil {
				return
			}
			t.add("parse-key", []byte(tokn), "equal", func(*hlib.Rng) string {
				k2, err := protoserialization.ParseKey(ser)
				if err != nil {
					return "err:" + errStr(err)
				}
				if !k2.Equal(k) {
					return "differs"
				}
				return "equal"
			})
			wantSer := canon(detMarshal(ser.KeyData()))
			t.add("serialize-key", []byte(tokn), wantSer, func(*hlib.Rng) string {
				s, err := protoserialization.SerializeKey(k)
				if err != nil {
					return "err:" + errStr(err)
				}
				return canon(detMarshal(s.KeyData()))
			})
			cons := func() string {
				p, err := primitiveregistry.Primitive(k)
				if err != nil {
					return "err"
				}
				return fmt.Sprintf("%T", p)
			}
			t.add("primitive-constructor", []byte(tokn), cons(), func(*hlib.Rng) string { return cons() })
			if tmpl, err := protoserialization.SerializeParameters(k.Parameters()); err == nil {
				t.add("parse-parameters", []byte(tokn), "equal", func(*hlib.Rng) string {
					p2, err := protoserialization.ParseParameters(tmpl)
					if err != nil {
						return "err:" + errStr(err)
					}
					if !p2.Equal(k.Parameters()) {
						return "differs"
					}
					return "equal"
				})
			}
			rep.count("registry/keys")
		}
		for _, it := range its {
			add(it.token, it.key, it.cost)
			if it.pubk != nil {
				add(it.token+".pub", it.pubk, it.cost)
			}
		}
		return t, nil
	})

	// ---- keyset.NewHandle(template) / AddNewKeyFromParameters for many templates at once:
	// key generation registry + manager + factories
	nhJob := e.simpleJob("registry:new-handle", "registry", func(rep *report) (*target, error) {
		t := &target{id: "registry:new-handle", class: "registry", cost: 1}
		for _, it := range its {
			it := it
			if it.cost > 0 && !(hlib.Thorough() && it.cost == 1) {
				continue
			}
			if strings.HasPrefix(it.pk.Name, "ECIES-X25519") {
				continue
			}
			params := it.key.Parameters()
			tmpl, err := protoserialization.SerializeParameters(params)
			if err != nil {
				continue
			}
			class := it.pk.Class
			check := func(h *keyset.Handle, gr *hlib.Rng) string {
				if h.Len() != 1 {
					return fmt.Sprintf("len=%d", h.Len())
				}
				en, err := h.Primary()
				if err != nil {
					return "no-primary"
				}
				if !en.Key().Parameters().Equal(params) {
					return "parameters-differ"
				}
				var pub *keyset.Handle
				if it.pub != nil {
					if pub, err = h.Public(); err != nil {
						return "public-err"
					}
				}
				p, err := factoryPrims(class, h, pub)
				if err != nil {
					return "factory-err:" + errStr(err)
				}
				want, use, err := fixedUse(p, gr, 0)
				if err != nil {
					return "use-err:" + errStr(err)
				}
				if got := use(p); got != want {
					return "self-use-mismatch:" + got
				}
				return "ok"
			}
			viaTemplate := func(gr *hlib.Rng) string {
				h, err := keyset.NewHandle(tmpl)
				if err != nil {
					return "err:" + errStr(err)
				}
				return check(h, gr)
			}
			viaParams := func(gr *hlib.Rng) string {
				m := keyset.NewManager()
				id, err := m.AddNewKeyFromParameters(params)
				if err != nil {
					return "err:" + errStr(err)
				}
				if err := m.SetPrimary(id); err != nil {
					return "set-primary-err"
				}
				h, err := m.Handle()
				if err != nil {
					return "handle-err"
				}
				return check(h, gr)
			}
			r0 := hlib.NewRng(seed, "new-handle/"+it.token)
			t.add("new-handle-from-template-then-use", []byte(it.token), viaTemplate(r0), viaTemplate)
			t.add("add-new-key-from-parameters-then-use", []byte(it.token), viaParams(r0), viaParams)
			rep.count("registry/templates")
		}
		return t, nil
	})
	e.runJobs([]job{kmJob, psJob, nhJob}, 3)

	// ---- KMS clients: lookups concurrent with registrations
	var envItem *item
	for _, it := range its {
		if strings.HasPrefix(it.pk.Name, "KMSEnvelope") {
			envItem = it
		}
	}
	kmsJob := e.simpleJob("registry:kms-clients", "registry", func(rep *report) (*target, error) {
		t := &target{id: "registry:kms-clients", class: "registry", cost: 0}
		look := func(uri string) string {
			c, err := registry.GetKMSClient(uri)
			if err != nil {
				return "err"
			}
			return fmt.Sprintf("%p", c)
		}
		if kslib.KEKURI != "" {
			t.add("get-kms-client", []byte("kek-uri"), look(kslib.KEKURI), func(*hlib.Rng) string { return look(kslib.KEKURI) })
		}
		t.add("get-kms-client", []byte("unknown"), "err", func(*hlib.Rng) string { return look("no-such-kms://key") })
		for i := 0; i < 3; i++ {
			t.add("register-kms-client-then-get", []byte{byte(i)}, "ok", func(*hlib.Rng) string {
				c := &c18KMS{prefix: fmt.Sprintf("c18-kms-%d://", kmsCounter.Add(1))}
				registry.RegisterKMSClient(c)
				runtime.Gosched()
				got, err := registry.GetKMSClient(c.prefix + "some-key")
				if err != nil {
					return "not-found-after-registration"
				}
				if got != registry.KMSClient(c) {
					return "another-client-returned"
				}
				return "ok"
			})
		}
		if envItem != nil {
			if p0, err := factoryPrims("aead", envItem.h, nil); err == nil {
				if want, use, err := fixedUse(p0, hlib.NewRng(seed, "kms-envelope"), 0); err == nil {
					t.add("kms-envelope-aead-new-then-decrypt", []byte("envelope"), want, func(*hlib.Rng) string {
						p, err := factoryPrims("aead", envItem.h, nil)
						if err != nil {
							return "factory-err:" + errStr(err)
						}
						return use(p)
					})
				}
			}
		}
		return t, nil
	})
	e.runJobs([]job{kmsJob}, 1)

	// ---- monitoring client
	def := internalregistry.GetMonitoringClient()
	monJob := e.simpleJob("registry:monitoring-client", "registry", func(rep *report) (*target, error) {
		t := &target{id: "registry:monitoring-client", class: "registry", cost: 0}
		for i := 0; i < 4; i++ {
			t.add("get-monitoring-client", []byte{byte(i)}, fmt.Sprintf("%p", def), func(*hlib.Rng) string {
				return fmt.Sprintf("%p", internalregistry.GetMonitoringClient())
			})
		}
		return t, nil
	})
	e.runJobs([]job{monJob}, 1)
	if e.filter == nil || e.filter["registry:monitoring-client"] {
		e.monitoringRegistration(its, def)
	}
}

// monitoringRegistration: one goroutine registers a monitoring client while the others look it
// up; then primitives built from annotated handles (the monitored wrappers) are exercised with
// the client in place.
func (e *engine) monitoringRegistration(its []*item, def any) {
	o := e.o
	fake := fakemonitoring.NewClient("c18")
	const G, M = 8, 300
	bad := make([]string, G)
	startc := make(chan struct{})
	var wg sync.WaitGroup
	for g := 0; g < G; g++ {
		wg.Add(1)
		go func(g int) {
			defer wg.Done()
			<-startc
			if g == 0 {
				runtime.Gosched()
				if err := internalregistry.RegisterMonitoringClient(fake); err != nil {
					bad[g] = "registration refused: " + err.Error()
				}
				return
			}
			seenFake := false
			for i := 0; i < M; i++ {
				c := internalregistry.GetMonitoringClient()
				switch {
				case c == fake:
					seenFake = true
				case any(c) == def:
					if seenFake {
						bad[g] = fmt.Sprintf("call %d: default client returned after the registered one", i)
					}
				default:
					bad[g] = fmt.Sprintf("call %d: unknown client %T", i, c)
				}
				if i%7 == 0 {
					runtime.Gosched()
				}
			}
		}(g)
	}
	close(startc)
	wg.Wait()
	res := "seq"
	if c := internalregistry.GetMonitoringClient(); c != fake {
		res = "diverged:after_registration_the_lookup_does_not_return_the_registered_client"
	}
	for g, b := range bad {
		if b != "" && res == "seq" {
			res = strings.ReplaceAll(fmt.Sprintf("diverged:g=%d,%s", g, b), " ", "_")
		}
	}
	o.Case()
	o.Emit(fmt.Sprintf("!Q conc registry:monitoring-client register-vs-get g=%d m=%d inputs=-", G, M), res, true)
	o.Count("batch/registry/register-vs-get/g8")
	e.nWin++
	e.nCalls += G * M

	// monitored primitives: annotated handles, one cheap key per class
	var jobs []job
	seen := map[string]bool{}
	for _, it := range its {
		it := it
		if seen[it.pk.Class] || it.cost > 0 || strings.HasPrefix(it.pk.Name, "ECIES-X25519") {
			continue
		}
		seen[it.pk.Class] = true
		ann := map[string]string{"c18": it.token}
		h, err := insecurecleartextkeyset.Read(&keyset.MemReaderWriter{Keyset: kslib.Clone(it.ks)}, keyset.WithAnnotations(ann))
		if err != nil {
			o.Violate("annotated handle for %s could not be read (harness): %v", it.pk.Name, err)
			continue
		}
		var pubh *keyset.Handle
		if it.pub != nil {
			pks := insecurecleartextkeyset.KeysetMaterial(it.pubh)
			if pubh, err = insecurecleartextkeyset.Read(&keyset.MemReaderWriter{Keyset: pks}, keyset.WithAnnotations(ann)); err != nil {
				o.Violate("annotated public handle for %s could not be read (harness): %v", it.pk.Name, err)
				continue
			}
		}
		class := it.pk.Class
		mk := func() (*prims, error) { return factoryPrims(class, h, pubh) }
		jobs = append(jobs, e.targetJob("monitored:"+class+":"+it.token, class, 0, false, mk, nil, false))
	}
	e.runJobs(jobs, 4)
	o.Hist["monitoring/events-logged"] = len(fake.Events())
	o.Hist["monitoring/failures-logged"] = len(fake.Failures())
	if len(jobs) > 0 && len(fake.Events()) == 0 {
		o.Violate("monitored primitives logged nothing to the registered monitoring client (harness expectation)")
	}
	internalregistry.ClearMonitoringClient()
	if c := internalregistry.GetMonitoringClient(); any(c) != def {
		o.Violate("after ClearMonitoringClient the lookup does not return the default client")
	}
}

var _ = tinkpb.KeyStatusType_ENABLED
