//go:build verif

package main

// Section 2 (reads on ONE shared handle) and section 3 (reads on ONE shared key / parameters
// object). The oracle is computed on a TWIN object parsed separately from the same keyset, so that
// the shared object is touched for the very first time by the concurrent window (lazy
// initialisation, if there were any, would be hit by many goroutines at once).

import (
	"bytes"
	"errors"
	"fmt"
	"math/big"
	"reflect"
	"sort"
	"strings"

	"google.golang.org/protobuf/proto"

	"github.com/tink-crypto/tink-go/v2/aead"
	"github.com/tink-crypto/tink-go/v2/insecurecleartextkeyset"
	"github.com/tink-crypto/tink-go/v2/insecuresecretdataaccess"
	"github.com/tink-crypto/tink-go/v2/internal/protoserialization"
	"github.com/tink-crypto/tink-go/v2/internal/verifharness/hlib"
	"github.com/tink-crypto/tink-go/v2/internal/verifharness/kslib"
	"github.com/tink-crypto/tink-go/v2/jwt"
	"github.com/tink-crypto/tink-go/v2/key"
	"github.com/tink-crypto/tink-go/v2/keyset"
	tinkpb "github.com/tink-crypto/tink-go/v2/proto/tink_go_proto"
	"github.com/tink-crypto/tink-go/v2/secretdata"
	"github.com/tink-crypto/tink-go/v2/tink"
)

// fixedUse prepares, with the oracle primitives p0, one fixed artefact per class and returns the
// expected result of use(p) for any primitives p built from the same key material.
func fixedUse(p0 *prims, r *hlib.Rng, cost int) (want string, use func(p *prims) string, err error) {
	pt := r.Bytes(100 + r.Intn(200))
	ad := r.Bytes(r.Intn(20))
	fail := func(what string, e error) (string, func(p *prims) string, error) { return "", nil, oracleErr(what, e) }
	switch {
	case p0.aead != nil:
		ct, e := p0.aead.Encrypt(pt, ad)
		if e != nil {
			return fail("Encrypt", e)
		}
		return canon(pt), func(p *prims) string {
			got, err := p.aead.Decrypt(ct, ad)
			if err != nil {
				return "err:" + errStr(err)
			}
			return canon(got)
		}, nil
	case p0.daead != nil:
		ct, e := p0.daead.EncryptDeterministically(pt, ad)
		if e != nil {
			return fail("EncryptDeterministically", e)
		}
		return canon(ct), func(p *prims) string {
			got, err := p.daead.EncryptDeterministically(pt, ad)
			if err != nil {
				return "err:" + errStr(err)
			}
			return canon(got)
		}, nil
	case p0.mac != nil:
		tag, e := p0.mac.ComputeMAC(pt)
		if e != nil {
			return fail("ComputeMAC", e)
		}
		return canon(tag) + ",ok", func(p *prims) string {
			got, err := p.mac.ComputeMAC(pt)
			if err != nil {
				return "err:" + errStr(err)
			}
			if err := p.mac.VerifyMAC(tag, pt); err != nil {
				return canon(got) + ",rejected"
			}
			return canon(got) + ",ok"
		}, nil
	case p0.prfs != nil:
		out, e := p0.prfs.ComputePrimaryPRF(pt, 16)
		if e != nil {
			return fail("ComputePrimaryPRF", e)
		}
		return canon(out), func(p *prims) string {
			got, err := p.prfs.ComputePrimaryPRF(pt, 16)
			if err != nil {
				return "err:" + errStr(err)
			}
			return canon(got)
		}, nil
	case p0.prf != nil:
		out, e := p0.prf.ComputePRF(pt, 16)
		if e != nil {
			return fail("ComputePRF", e)
		}
		return canon(out), func(p *prims) string {
			got, err := p.prf.ComputePRF(pt, 16)
			if err != nil {
				return "err:" + errStr(err)
			}
			return canon(got)
		}, nil
	case p0.signer != nil && p0.verifier != nil && cost >= 3:
		// signing takes seconds here: construction plus the rejection of a non-signature only
		return "rejected", func(p *prims) string {
			if err := p.verifier.Verify(pt, ad); err != nil {
				return "rejected"
			}
			return "accepted-garbage"
		}, nil
	case p0.signer != nil && p0.verifier != nil:
		sig, e := p0.signer.Sign(pt)
		if e != nil {
			return fail("Sign", e)
		}
		return "ok", func(p *prims) string {
			if err := p.verifier.Verify(sig, pt); err != nil {
				return "rejected:" + errStr(err)
			}
			if cost <= 1 {
				s, err := p.signer.Sign(pt)
				if err != nil {
					return "sign-err:" + errStr(err)
				}
				if err := p.verifier.Verify(s, pt); err != nil {
					return "own-signature-rejected:" + errStr(err)
				}
			}
			return "ok"
		}, nil
	case p0.henc != nil && p0.hdec != nil:
		ct, e := p0.henc.Encrypt(pt, ad)
		if e != nil {
			return fail("hybrid Encrypt", e)
		}
		return canon(pt), func(p *prims) string {
			got, err := p.hdec.Decrypt(ct, ad)
			if err != nil {
				return "err:" + errStr(err)
			}
			if cost <= 1 {
				c, err := p.henc.Encrypt(pt, ad)
				if err != nil {
					return "enc-err:" + errStr(err)
				}
				g2, err := p.hdec.Decrypt(c, ad)
				if err != nil || !bytes.Equal(g2, pt) {
					return "roundtrip-failed"
				}
			}
			return canon(got)
		}, nil
	case p0.saead != nil:
		long := r.Bytes(5000 + r.Intn(5000))
		ct, e := streamEncrypt(p0.saead, long, ad, nil)
		if e != nil {
			return fail("streaming encrypt", e)
		}
		return canon(long), func(p *prims) string {
			got, err := streamDecrypt(p.saead, ct, ad, nil)
			if err != nil {
				return "err:" + errStr(err)
			}
			return canon(got)
		}, nil
	case p0.jmac != nil:
		raws, _, e := rawJWTs(r, 2)
		if e != nil {
			return fail("NewRawJWT", e)
		}
		val, e := jwtValidator()
		if e != nil {
			return fail("NewValidator", e)
		}
		c, e := p0.jmac.ComputeMACAndEncode(raws[1])
		if e != nil {
			return fail("ComputeMACAndEncode", e)
		}
		v0, e := p0.jmac.VerifyMACAndDecode(c, val)
		if e != nil {
			return fail("VerifyMACAndDecode", e)
		}
		return verifiedCanon(v0), func(p *prims) string {
			v, err := p.jmac.VerifyMACAndDecode(c, val)
			if err != nil {
				return "rejected:" + errStr(err)
			}
			return verifiedCanon(v)
		}, nil
	case p0.jsigner != nil && p0.jverifier != nil:
		raws, _, e := rawJWTs(r, 2)
		if e != nil {
			return fail("NewRawJWT", e)
		}
		val, e := jwtValidator()
		if e != nil {
			return fail("NewValidator", e)
		}
		c, e := p0.jsigner.SignAndEncode(raws[1])
		if e != nil {
			return fail("SignAndEncode", e)
		}
		v0, e := p0.jverifier.VerifyAndDecode(c, val)
		if e != nil {
			return fail("VerifyAndDecode", e)
		}
		return verifiedCanon(v0), func(p *prims) string {
			v, err := p.jverifier.VerifyAndDecode(c, val)
			if err != nil {
				return "rejected:" + errStr(err)
			}
			return verifiedCanon(v)
		}, nil
	case p0.kd != nil:
		salt := r.Bytes(12)
		h, e := p0.kd.DeriveKeyset(salt)
		if e != nil {
			return fail("DeriveKeyset", e)
		}
		return canon(detMarshal(insecurecleartextkeyset.KeysetMaterial(h))), func(p *prims) string {
			h, err := p.kd.DeriveKeyset(salt)
			if err != nil {
				return "err:" + errStr(err)
			}
			return canon(detMarshal(insecurecleartextkeyset.KeysetMaterial(h)))
		}, nil
	case p0.kder != nil:
		salt := r.Bytes(12)
		f := func(p *prims) string {
			k, err := p.kder.DeriveKey(salt)
			if err != nil {
				return "err:" + errStr(err)
			}
			ser, err := protoserialization.SerializeKey(k)
			if err != nil {
				return "err:" + errStr(err)
			}
			return canon(detMarshal(ser.KeyData()))
		}
		w := f(p0)
		if strings.HasPrefix(w, "err:") {
			return fail("DeriveKey", errors.New(w))
		}
		return w, f, nil
	}
	return "", nil, errors.New("no primitive")
}

// ---------------------------------------------------------------- section 2: handles

func entriesString(h *keyset.Handle) string {
	var sb strings.Builder
	fmt.Fprintf(&sb, "len=%d", h.Len())
	for i := 0; i < h.Len(); i++ {
		e, err := h.Entry(i)
		if err != nil {
			fmt.Fprintf(&sb, ";%d:err", i)
			continue
		}
		fmt.Fprintf(&sb, ";%d:id=%d,status=%v,primary=%v", i, e.KeyID(), e.KeyStatus(), e.IsPrimary())
	}
	if _, err := h.Entry(h.Len()); err == nil {
		sb.WriteString(";out-of-range-accepted")
	}
	if _, err := h.Entry(-1); err == nil {
		sb.WriteString(";negative-accepted")
	}
	return sb.String()
}

func primaryString(h *keyset.Handle) string {
	e, err := h.Primary()
	if err != nil {
		return "err:" + errStr(err)
	}
	s := fmt.Sprintf("id=%d,status=%v,primary=%v", e.KeyID(), e.KeyStatus(), e.IsPrimary())
	if id, req := e.Key().IDRequirement(); req {
		s += fmt.Sprintf(",idreq=%d", id)
	}
	return s
}

func materialCanon(h *keyset.Handle) string {
	return canon(detMarshal(insecurecleartextkeyset.KeysetMaterial(h)))
}

func publicCanon(h *keyset.Handle) string {
	p, err := h.Public()
	if err != nil {
		return "err"
	}
	return materialCanon(p) + "|" + trunc(p.String(), 4000)
}

func writeBinaryCanon(h *keyset.Handle) string {
	var buf bytes.Buffer
	if err := insecurecleartextkeyset.Write(h, keyset.NewBinaryWriter(&buf)); err != nil {
		return "err:" + errStr(err)
	}
	ks := &tinkpb.Keyset{}
	if err := proto.Unmarshal(buf.Bytes(), ks); err != nil {
		return "unmarshal-err:" + errStr(err)
	}
	return canon(detMarshal(ks))
}

func writeJSONCanon(h *keyset.Handle) string {
	var buf bytes.Buffer
	if err := insecurecleartextkeyset.Write(h, keyset.NewJSONWriter(&buf)); err != nil {
		return "err:" + errStr(err)
	}
	ks, err := keyset.NewJSONReader(&buf).Read()
	if err != nil {
		return "read-err:" + errStr(err)
	}
	return canon(detMarshal(ks))
}

func writeNoSecretsCanon(h *keyset.Handle) string {
	mem := &keyset.MemReaderWriter{}
	if err := h.WriteWithNoSecrets(mem); err != nil {
		return "err"
	}
	return canon(detMarshal(mem.Keyset))
}

func writeEncryptedCanon(h *keyset.Handle, master tink.AEAD) string {
	mem := &keyset.MemReaderWriter{}
	if err := h.WriteWithAssociatedData(mem, master, []byte("c18")); err != nil {
		return "err:" + errStr(err)
	}
	h2, err := keyset.ReadWithAssociatedData(mem, master, []byte("c18"))
	if err != nil {
		return "read-err:" + errStr(err)
	}
	return materialCanon(h2)
}

func managerCanon(h *keyset.Handle) string {
	m := keyset.NewManagerFromHandle(h)
	h1, err := m.Handle()
	if err != nil {
		return "err:" + errStr(err)
	}
	s := materialCanon(h1)
	// every goroutine owns its manager: adding to it must not show in the shared handle
	id, err := m.Add(aead.AES128GCMKeyTemplate())
	if err != nil {
		return s + ",add-err"
	}
	h2, err := m.Handle()
	if err != nil {
		return s + ",handle-err"
	}
	if _, err := h2.Entry(h2.Len() - 1); err != nil || h2.Len() != h.Len()+1 {
		return s + fmt.Sprintf(",len=%d", h2.Len())
	}
	_ = id
	return s + ",+1"
}

func (e *engine) handleTarget(id, class string, cost int, ks *tinkpb.Keyset, other key.Key, master tink.AEAD) (*target, error) {
	h0, err, pan := kslib.ReadMem(ks)
	if err != nil || pan != "" {
		return nil, fmt.Errorf("twin handle: %v %s", err, pan)
	}
	h, err, pan := kslib.ReadMem(ks)
	if err != nil || pan != "" {
		return nil, fmt.Errorf("shared handle: %v %s", err, pan)
	}
	t := &target{id: id, class: "handle", cost: cost, noSelf: true}
	tok := func(s string) []byte { return []byte(id + "/" + s) }
	pure := func(op string, f func(h *keyset.Handle) string) {
		t.add(op, tok(op), f(h0), func(*hlib.Rng) string { return f(h) })
	}
	pure("keyset-info", func(h *keyset.Handle) string { return canon(detMarshal(h.KeysetInfo())) })
	pure("string", func(h *keyset.Handle) string { return trunc(h.String(), 4000) })
	pure("len-entries", entriesString)
	pure("primary", primaryString)
	pure("public", publicCanon)
	pure("keyset-material", materialCanon)
	pure("write-binary", writeBinaryCanon)
	pure("write-json", writeJSONCanon)
	pure("write-no-secrets", writeNoSecretsCanon)
	pure("manager-from-handle", managerCanon)
	if class == "jwtsig" {
		pure("jwk-set-roundtrip", func(h *keyset.Handle) string {
			ph, err := h.Public()
			if err != nil {
				return "public-err"
			}
			b, err := jwt.JWKSetFromPublicKeysetHandle(ph)
			if err != nil {
				return "err:" + errStr(err)
			}
			h2, err := jwt.JWKSetToPublicKeysetHandle(b)
			if err != nil {
				return canon(b) + ",parse-err:" + errStr(err)
			}
			// the converter draws fresh key ids: only id-independent facts are compared
			var types []string
			for _, ki := range h2.KeysetInfo().GetKeyInfo() {
				types = append(types, kslib.TypeOfURL(ki.GetTypeUrl())+"/"+ki.GetStatus().String()+"/"+ki.GetOutputPrefixType().String())
			}
			return canon(b) + "," + strings.Join(types, ";")
		})
	}
	if master != nil {
		pure("write-encrypted-read", func(h *keyset.Handle) string { return writeEncryptedCanon(h, master) })
	}
	// entry keys: Equal against the twin's keys and against a foreign key
	keys0 := make([]key.Key, h0.Len())
	for i := range keys0 {
		e0, err := h0.Entry(i)
		if err != nil {
			return nil, err
		}
		keys0[i] = e0.Key()
	}
	t.add("entry-key-equal", tok("entry-key-equal"), "ok", func(*hlib.Rng) string {
		for i := 0; i < h.Len(); i++ {
			en, err := h.Entry(i)
			if err != nil {
				return "entry-err"
			}
			k := en.Key()
			if !k.Equal(keys0[i]) || !keys0[i].Equal(k) {
				return fmt.Sprintf("entry %d: key not equal to its twin", i)
			}
			if other != nil && k.Equal(other) {
				return fmt.Sprintf("entry %d: equal to a foreign key", i)
			}
			if !k.Parameters().Equal(keys0[i].Parameters()) {
				return fmt.Sprintf("entry %d: parameters differ", i)
			}
		}
		return "ok"
	})
	// primitive construction from the shared handle (first-ever construction happens inside the
	// window) and use of the new primitive on an artefact made by the twin's primitive
	var pub0 *keyset.Handle
	if ph, err := h0.Public(); err == nil {
		pub0 = ph
	}
	if p0, err := factoryPrims(class, h0, pub0); err == nil {
		r := hlib.NewRng(e.seed, "fixed/"+id)
		want, use, err := fixedUse(p0, r, cost)
		if err == nil {
			t.add("factory-then-use", tok("factory-then-use"), want, func(*hlib.Rng) string {
				var pub *keyset.Handle
				if pub0 != nil {
					ph, err := h.Public()
					if err != nil {
						return "public-err:" + errStr(err)
					}
					pub = ph
				}
				p, err := factoryPrims(class, h, pub)
				if err != nil {
					return "factory-err:" + errStr(err)
				}
				return use(p)
			})
		}
	}
	return t, nil
}

func (e *engine) handleJobs(its []*item) (jobs []job) {
	var master tink.AEAD
	if mh, err := keyset.NewHandle(aead.AES256GCMKeyTemplate()); err == nil {
		master, _ = aead.New(mh)
	}
	mk := func(id, class string, cost int, ks *tinkpb.Keyset, other key.Key) job {
		return job{id: id, cost: cost, run: func() *report {
			rep := newReport(id, "handle")
			t, err := e.handleTarget(id, class, cost, ks, other, master)
			if err != nil {
				rep.violate("handle target %s could not be built (harness): %v", id, err)
				return rep
			}
			runTarget(rep, e.seed, t, false)
			return rep
		}}
	}
	for i, it := range its {
		other := its[(i+1)%len(its)].key
		cost := it.cost
		if cost == 1 && !hlib.Thorough() {
			cost = 2 // quick tier: 2 and 8 goroutines for the P-384/P-521/ML-DSA/ML-KEM handles
		}
		jobs = append(jobs, mk("handle:"+it.pk.Class+":"+it.token, it.pk.Class, cost, it.ks, other))
	}
	// keysets with several keys, one of them disabled, primary in the middle
	for _, class := range multiClasses {
		ks, members := multiKeyset(its, class, true)
		if ks == nil {
			continue
		}
		jobs = append(jobs, mk(fmt.Sprintf("handle:%s:MULTI-%dkeys-1disabled", class, len(members)), class, 1, ks, nil))
	}
	return
}

// ---------------------------------------------------------------- section 3: keys and parameters

var (
	keyIface    = reflect.TypeOf((*key.Key)(nil)).Elem()
	paramsIface = reflect.TypeOf((*key.Parameters)(nil)).Elem()
	errIface    = reflect.TypeOf((*error)(nil)).Elem()
)

// render gives a canonical, address-free form of an accessor result; ok=false if the type is not
// one the harness knows how to compare (such accessors are left out, and counted).
func render(v reflect.Value) (s string, ok bool) {
	if !v.IsValid() {
		return "invalid", true
	}
	t := v.Type()
	if (v.Kind() == reflect.Interface || v.Kind() == reflect.Pointer || v.Kind() == reflect.Slice || v.Kind() == reflect.Map) && v.IsNil() {
		return "nil", true
	}
	if t.Implements(errIface) {
		return "error:" + trunc(v.Interface().(error).Error(), 60), true
	}
	if t.Implements(keyIface) {
		k := v.Interface().(key.Key)
		ser, err := protoserialization.SerializeKey(k)
		if err != nil {
			return "", false
		}
		id, _ := ser.IDRequirement()
		return fmt.Sprintf("key:%s,%v,%d", canon(detMarshal(ser.KeyData())), ser.OutputPrefixType(), id), true
	}
	if t.Implements(paramsIface) {
		tmpl, err := protoserialization.SerializeParameters(v.Interface().(key.Parameters))
		if err != nil {
			return "", false
		}
		return "params:" + canon(detMarshal(tmpl)), true
	}
	switch x := v.Interface().(type) {
	case secretdata.Bytes:
		return "secret:" + canon(x.Data(insecuresecretdataaccess.Token{})), true
	case []byte:
		return "bytes:" + canon(x), true
	case *big.Int:
		return "big:" + x.String(), true
	case fmt.Stringer:
		if v.Kind() != reflect.Pointer && v.Kind() != reflect.Struct {
			return "str:" + x.String(), true
		}
	}
	switch v.Kind() {
	case reflect.Bool, reflect.Int, reflect.Int8, reflect.Int16, reflect.Int32, reflect.Int64, reflect.Uint, reflect.Uint8, reflect.Uint16, reflect.Uint32,
		reflect.Uint64, reflect.String:
		return fmt.Sprint(v.Interface()), true
	}
	return "", false
}

// accessors calls every exported zero-argument method of x and renders the results.
func accessors(x any, skip map[string]bool) (string, int) {
	v := reflect.ValueOf(x)
	t := v.Type()
	var parts []string
	skipped := 0
	for i := 0; i < t.NumMethod(); i++ {
		m := t.Method(i)
		if m.Type.NumIn() != 1 || m.Type.NumOut() == 0 || skip[m.Name] {
			continue
		}
		var outs []string
		good := true
		var res []reflect.Value
		if p := hlib.Recover(func() { res = v.Method(i).Call(nil) }); p != "" {
			parts = append(parts, m.Name+"=panic:"+trunc(p, 60))
			continue
		}
		for _, r := range res {
			s, ok := render(r)
			if !ok {
				good = false
				break
			}
			outs = append(outs, s)
		}
		if !good {
			skipped++
			continue
		}
		parts = append(parts, m.Name+"="+strings.Join(outs, ","))
	}
	sort.Strings(parts)
	return strings.Join(parts, ";"), skipped
}

func keyOf(ks *tinkpb.Keyset) (key.Key, error) {
	h, err, pan := kslib.ReadMem(ks)
	if err != nil || pan != "" {
		return nil, fmt.Errorf("%v %s", err, pan)
	}
	e, err := h.Entry(0)
	if err != nil {
		return nil, err
	}
	return e.Key(), nil
}

func (e *engine) keyTarget(id string, rep *report, ks *tinkpb.Keyset, other key.Key, public bool) (*target, error) {
	k0, err := keyOf(ks)
	if err != nil {
		return nil, err
	}
	k, err := keyOf(ks)
	if err != nil {
		return nil, err
	}
	if public {
		pk0, ok := k0.(interface{ PublicKey() (key.Key, error) })
		if !ok {
			return nil, errors.New("not a private key")
		}
		if k0, err = pk0.PublicKey(); err != nil {
			return nil, err
		}
		if k, err = k.(interface{ PublicKey() (key.Key, error) }).PublicKey(); err != nil {
			return nil, err
		}
	}
	t := &target{id: id, class: "key", cost: 0, noSelf: true}
	tok := func(s string) []byte { return []byte(id + "/" + s) }
	pure := func(op string, f func(k key.Key) string) {
		t.add(op, tok(op), f(k0), func(*hlib.Rng) string { return f(k) })
	}
	t.add("equal", tok("equal"), "twin=true,true;self=true;other=false", func(*hlib.Rng) string {
		s := fmt.Sprintf("twin=%v,%v;self=%v", k.Equal(k0), k0.Equal(k), k.Equal(k))
		if other != nil {
			s += fmt.Sprintf(";other=%v", k.Equal(other) || other.Equal(k))
		} else {
			s += ";other=false"
		}
		return s
	})
	pure("id-requirement", func(k key.Key) string {
		id, req := k.IDRequirement()
		return fmt.Sprintf("%d,%v,%v", id, req, k.Parameters().HasIDRequirement())
	})
	p0 := k0.Parameters()
	t.add("parameters-equal", tok("parameters-equal"), "true,true,true", func(*hlib.Rng) string {
		p := k.Parameters()
		return fmt.Sprintf("%v,%v,%v", p.Equal(p0), p0.Equal(p), p.Equal(p))
	})
	pure("serialize-key", func(k key.Key) string {
		ser, err := protoserialization.SerializeKey(k)
		if err != nil {
			return "err:" + errStr(err)
		}
		id, req := ser.IDRequirement()
		return fmt.Sprintf("%s,%v,%d,%v", canon(detMarshal(ser.KeyData())), ser.OutputPrefixType(), id, req)
	})
	// one shared serialization object parsed by everybody
	if ser0, err := protoserialization.SerializeKey(k0); err == nil {
		t.add("parse-key", tok("parse-key"), "equal", func(*hlib.Rng) string {
			k2, err := protoserialization.ParseKey(ser0)
			if err != nil {
				return "err:" + errStr(err)
			}
			if !k2.Equal(k) || !k.Equal(k2) {
				return "parsed key differs"
			}
			return "equal"
		})
	}
	pure("serialize-parameters", func(k key.Key) string {
		tmpl, err := protoserialization.SerializeParameters(k.Parameters())
		if err != nil {
			return "err"
		}
		return canon(detMarshal(tmpl))
	})
	if tmpl0, err := protoserialization.SerializeParameters(p0); err == nil {
		t.add("parse-parameters", tok("parse-parameters"), "equal", func(*hlib.Rng) string {
			p2, err := protoserialization.ParseParameters(tmpl0)
			if err != nil {
				return "err:" + errStr(err)
			}
			if !p2.Equal(k.Parameters()) {
				return "parsed parameters differ"
			}
			return "equal"
		})
	}
	skip := map[string]bool{"Equal": true}
	want, skipped := accessors(k0, skip)
	rep.addn("key-accessors-skipped-unknown-type", skipped)
	rep.addn("key-accessors", strings.Count(want, ";")+1)
	t.add("accessors", tok("accessors"), want, func(*hlib.Rng) string { s, _ := accessors(k, skip); return s })
	wantP, skippedP := accessors(p0, skip)
	rep.addn("key-accessors-skipped-unknown-type", skippedP)
	rep.addn("parameters-accessors", strings.Count(wantP, ";")+1)
	t.add("parameters-accessors", tok("parameters-accessors"), wantP, func(*hlib.Rng) string { s, _ := accessors(k.Parameters(), skip); return s })
	return t, nil
}

func (e *engine) keyJobs(its []*item) (jobs []job) {
	mk := func(id string, ks *tinkpb.Keyset, other key.Key, public bool) job {
		return job{id: id, cost: 0, run: func() *report {
			rep := newReport(id, "key")
			t, err := e.keyTarget(id, rep, ks, other, public)
			if err != nil {
				rep.violate("key target %s could not be built (harness): %v", id, err)
				return rep
			}
			runTarget(rep, e.seed, t, false)
			return rep
		}}
	}
	for i, it := range its {
		o := its[(i+1)%len(its)]
		jobs = append(jobs, mk("key:"+it.pk.Class+":"+it.token, it.ks, o.key, false))
		if it.pub != nil {
			jobs = append(jobs, mk("key:"+it.pk.Class+"pub:"+it.token+".pub", it.ks, o.pubk, true))
		}
	}
	return
}
