//go:build verif

package main

// Parent side: re-execute with GORACE pointing at log files, then turn every race report into a
// violation (deduplicated by the first library frames of both accesses).

import (
	"encoding/json"
	"fmt"
	"os"
	"os/exec"
	"path/filepath"
	"regexp"
	"sort"
	"strings"

	"github.com/tink-crypto/tink-go/v2/internal/verifharness/hlib"
)

const libPrefix = "github.com/tink-crypto/tink-go/"
const harnessPrefix = "github.com/tink-crypto/tink-go/v2/internal/verifharness/"

type raceReport struct {
	text  string
	sides [2][]string // function names of the two conflicting accesses, innermost first
	kinds [2]string
}

var funcLine = regexp.MustCompile(`^  (\S.*)$`)

// parseRaces splits the race detector's log into reports.
func parseRaces(log string) []raceReport {
	var out []raceReport
	for _, blk := range strings.Split(log, "==================") {
		if !strings.Contains(blk, "WARNING: DATA RACE") {
			continue
		}
		rep := raceReport{text: strings.TrimSpace(blk)}
		secs := strings.Split(strings.TrimSpace(blk), "\n\n")
		n := 0
		for _, sec := range secs {
			lines := strings.Split(sec, "\n")
			// skip the "WARNING" line
			for len(lines) > 0 && (strings.HasPrefix(lines[0], "WARNING") || strings.TrimSpace(lines[0]) == "") {
				lines = lines[1:]
			}
			if len(lines) == 0 {
				continue
			}
			head := lines[0]
			if !(strings.Contains(head, " by goroutine ") || strings.Contains(head, " by main goroutine")) {
				continue
			}
			if n >= 2 {
				break
			}
			rep.kinds[n] = strings.SplitN(strings.TrimSpace(head), " at ", 2)[0]
			for _, l := range lines[1:] {
				if strings.HasPrefix(l, "      ") {
					continue // file:line
				}
				if m := funcLine.FindStringSubmatch(l); m != nil {
					f := m[1]
					if i := strings.LastIndex(f, "("); i > 0 && strings.HasSuffix(f, ")") {
						f = f[:i]
					}
					rep.sides[n] = append(rep.sides[n], f)
				}
			}
			n++
		}
		out = append(out, rep)
	}
	return out
}

// key gives the first two library frames (outside the harness) of each side; harnessOnly reports
// whether neither side touches library code at all.
func (r *raceReport) key() (k string, harnessOnly bool) {
	harnessOnly = true
	var parts []string
	for s := 0; s < 2; s++ {
		var fr []string
		for _, f := range r.sides[s] {
			if strings.HasPrefix(f, libPrefix) && !strings.HasPrefix(f, harnessPrefix) {
				if len(fr) < 2 {
					fr = append(fr, strings.TrimPrefix(f, libPrefix))
				}
			}
		}
		if len(fr) > 0 {
			harnessOnly = false
		} else {
			// no library frame on this side: show where it is instead
			for _, f := range r.sides[s] {
				if len(fr) < 2 {
					fr = append(fr, f)
				}
			}
		}
		kind := strings.ToLower(strings.TrimPrefix(r.kinds[s], "Previous "))
		parts = append(parts, kind+" in "+strings.Join(fr, " < "))
	}
	sort.Strings(parts) // "A || B" and "B || A" are the same race
	return strings.Join(parts, "  ||  "), harnessOnly
}

func parent() int {
	if *hlib.FlagOps == "" {
		fmt.Fprintln(os.Stderr, "c18: -ops is required")
		return 2
	}
	wd := filepath.Dir(*hlib.FlagOps)
	if old, _ := filepath.Glob(filepath.Join(wd, "race.*")); len(old) > 0 {
		for _, f := range old {
			os.Remove(f)
		}
	}
	cmd := exec.Command(os.Args[0], os.Args[1:]...)
	gorace := "log_path=" + filepath.Join(wd, "race") + " halt_on_error=0 exitcode=0 history_size=3"
	env := []string{}
	for _, kv := range os.Environ() {
		if !strings.HasPrefix(kv, "GORACE=") {
			env = append(env, kv)
		}
	}
	cmd.Env = append(env, "GORACE="+gorace, "C18_CHILD=1")
	cmd.Stdout = os.Stdout
	cmd.Stderr = os.Stderr
	if err := cmd.Run(); err != nil {
		fmt.Fprintln(os.Stderr, "c18: child failed:", err)
		if ee, ok := err.(*exec.ExitError); ok && ee.ExitCode() > 0 {
			return ee.ExitCode()
		}
		return 2
	}
	// collect the race detector's output
	files, _ := filepath.Glob(filepath.Join(wd, "race.*"))
	sort.Strings(files)
	var all strings.Builder
	for _, f := range files {
		b, err := os.ReadFile(f)
		if err == nil {
			all.Write(b)
			all.WriteString("\n")
		}
	}
	reports := parseRaces(all.String())
	type agg struct {
		n       int
		harness bool
		first   string
	}
	seen := map[string]*agg{}
	var order []string
	for i := range reports {
		k, ho := reports[i].key()
		a := seen[k]
		if a == nil {
			a = &agg{harness: ho, first: reports[i].text}
			seen[k] = a
			order = append(order, k)
		}
		a.n++
	}
	var rep strings.Builder
	fmt.Fprintf(&rep, "# %d race reports, %d distinct\n", len(reports), len(order))
	for _, k := range order {
		fmt.Fprintf(&rep, "\n######## %d× %s\n%s\n", seen[k].n, k, seen[k].first)
	}
	os.WriteFile(filepath.Join(wd, "race_reports.txt"), []byte(rep.String()), 0o644)

	// amend the child's outputs: one line for the race detector's verdict, one violation per
	// distinct race
	ncase := 0
	if b, err := os.ReadFile(*hlib.FlagOps); err == nil {
		ncase = strings.Count("\n"+string(b), "\n# case ")
	}
	ncase++
	// one line saying that the race detector's log was scanned, and one (diverging) line per
	// distinct race, so that each can be matched by a regular expression on its frames
	line := fmt.Sprintf("# case %d\n!Q conc race-detector log-scanned g=0 m=0 inputs=-\n", ncase)
	res := fmt.Sprintf("# case %d\nseq\n", ncase)
	for _, k := range order {
		tokn := strings.ReplaceAll(strings.ReplaceAll(k, "  ||  ", "||"), " ", "_")
		line += fmt.Sprintf("!Q conc race-detector %s g=0 m=0 inputs=-\n", tokn)
		res += fmt.Sprintf("diverged:data_race_reported_%d_times_see_race_reports.txt\n", seen[k].n)
	}
	appendFile(*hlib.FlagOps, line)
	appendFile(*hlib.FlagRes, res)
	if *hlib.FlagStats != "" {
		st := map[string]any{}
		if b, err := os.ReadFile(*hlib.FlagStats); err == nil {
			json.Unmarshal(b, &st)
		}
		var viol []any
		if v, ok := st["oracle_violations"].([]any); ok {
			viol = v
		}
		for _, k := range order {
			tag := "DATA RACE"
			if seen[k].harness {
				tag = "DATA RACE (no library frame on either side: harness bug)"
			}
			viol = append(viol, fmt.Sprintf("[case %d] %s: %s (%d×; full report in %s)", ncase, tag, k, seen[k].n, filepath.Join(wd, "race_reports.txt")))
		}
		if len(viol) > 40 {
			viol = viol[:40]
		}
		st["oracle_violations"] = viol
		if n, ok := st["evaluations"].(float64); ok {
			st["evaluations"] = int(n) + 1 + len(order)
		}
		hist, _ := st["hist"].(map[string]any)
		if hist == nil {
			hist = map[string]any{}
		}
		hist["race-detector/reports"] = len(reports)
		hist["race-detector/distinct"] = len(order)
		hist["race-detector/log-files"] = len(files)
		st["hist"] = hist
		b, _ := json.MarshalIndent(st, "", " ")
		os.WriteFile(*hlib.FlagStats, b, 0o644)
	}
	if len(order) > 0 {
		fmt.Fprintf(os.Stderr, "c18: %d distinct data races (%d reports): %s\n", len(order), len(reports), filepath.Join(wd, "race_reports.txt"))
	}
	return 0
}

func appendFile(path, s string) {
	f, err := os.OpenFile(path, os.O_APPEND|os.O_WRONLY, 0o644)
	if err != nil {
		return
	}
	defer f.Close()
	f.WriteString(s)
}
