//go:build verif

package main

// The legacy adapter path: keys of a custom type URL served by a registry.KeyManager become
// protoserialization.FallbackProtoKey values; the keyset-level factories then wrap the key manager's
// RAW primitive with their full*Adapter types (output prefix, LEGACY 0x00 suffix). Same oracles,
// same windows; source token "legacy".

import (
	"crypto/ed25519"
	"errors"
	"fmt"

	"google.golang.org/protobuf/proto"

	aeadsubtle "github.com/tink-crypto/tink-go/v2/aead/subtle"
	"github.com/tink-crypto/tink-go/v2/core/registry"
	daeadsubtle "github.com/tink-crypto/tink-go/v2/daead/subtle"
	"github.com/tink-crypto/tink-go/v2/internal/verifharness/hlib"
	"github.com/tink-crypto/tink-go/v2/internal/verifharness/kslib"
	"github.com/tink-crypto/tink-go/v2/keyset"
	macsubtle "github.com/tink-crypto/tink-go/v2/mac/subtle"
	tinkpb "github.com/tink-crypto/tink-go/v2/proto/tink_go_proto"
	sigsubtle "github.com/tink-crypto/tink-go/v2/signature/subtle"
)

const (
	urlLegAEAD    = "type.googleapis.com/verif.c18.RawAead"
	urlLegDAEAD   = "type.googleapis.com/verif.c18.RawDaead"
	urlLegMAC     = "type.googleapis.com/verif.c18.RawMac"
	urlLegSigPriv = "type.googleapis.com/verif.c18.RawSigPriv"
	urlLegSigPub  = "type.googleapis.com/verif.c18.RawSigPub"
)

type legKM struct {
	url string
	mk  func(val []byte) (any, error)
}

func (m *legKM) Primitive(v []byte) (any, error) { return m.mk(v) }
func (m *legKM) NewKey([]byte) (proto.Message, error) {
	return nil, errors.New("c18 stub: key generation unsupported")
}
func (m *legKM) NewKeyData([]byte) (*tinkpb.KeyData, error) {
	return nil, errors.New("c18 stub: key generation unsupported")
}
func (m *legKM) DoesSupport(u string) bool { return u == m.url }
func (m *legKM) TypeURL() string           { return m.url }

type legPrivKM struct{ legKM }

func (m *legPrivKM) PublicKeyData(v []byte) (*tinkpb.KeyData, error) {
	if len(v) != ed25519.SeedSize {
		return nil, errors.New("c18 stub: bad seed")
	}
	pub := ed25519.NewKeyFromSeed(v).Public().(ed25519.PublicKey)
	return &tinkpb.KeyData{TypeUrl: urlLegSigPub, Value: []byte(pub), KeyMaterialType: tinkpb.KeyData_ASYMMETRIC_PUBLIC}, nil
}

func registerLegacy() error {
	kms := []registry.KeyManager{
		&legKM{urlLegAEAD, func(v []byte) (any, error) { return aeadsubtle.NewAESGCM(v) }},
		&legKM{urlLegDAEAD, func(v []byte) (any, error) { return daeadsubtle.NewAESSIV(v) }},
		&legKM{urlLegMAC, func(v []byte) (any, error) { return macsubtle.NewHMAC("SHA256", v, 16) }},
		&legPrivKM{legKM{urlLegSigPriv, func(v []byte) (any, error) { return sigsubtle.NewED25519Signer(v) }}},
		&legKM{urlLegSigPub, func(v []byte) (any, error) { return sigsubtle.NewED25519Verifier(v) }},
	}
	for _, km := range kms {
		if err := registry.RegisterKeyManager(km); err != nil {
			return err
		}
	}
	return nil
}

func (e *engine) legacyJobs() (jobs []job) {
	if err := registerLegacy(); err != nil {
		e.o.Violate("legacy stub key managers could not be registered (harness): %v", err)
		return nil
	}
	r := hlib.NewRng(e.seed, "legacy-keys")
	type spec struct {
		class, url string
		mat        tinkpb.KeyData_KeyMaterialType
		klen       int
	}
	specs := []spec{
		{"aead", urlLegAEAD, tinkpb.KeyData_SYMMETRIC, 16},
		{"daead", urlLegDAEAD, tinkpb.KeyData_SYMMETRIC, 64},
		{"mac", urlLegMAC, tinkpb.KeyData_SYMMETRIC, 32},
		{"sig", urlLegSigPriv, tinkpb.KeyData_ASYMMETRIC_PRIVATE, 32},
	}
	prefixes := []tinkpb.OutputPrefixType{tinkpb.OutputPrefixType_TINK, tinkpb.OutputPrefixType_LEGACY, tinkpb.OutputPrefixType_CRUNCHY, tinkpb.OutputPrefixType_RAW}
	n := 0
	for _, s := range specs {
		for _, pf := range prefixes {
			if s.class == "aead" || s.class == "daead" {
				if pf == tinkpb.OutputPrefixType_LEGACY || pf == tinkpb.OutputPrefixType_CRUNCHY {
					continue // same adapter code as TINK for these classes
				}
			}
			n++
			id := uint32(0x51000000 + n)
			ks := &tinkpb.Keyset{PrimaryKeyId: id, Key: []*tinkpb.Keyset_Key{{
				KeyData: &tinkpb.KeyData{TypeUrl: s.url, Value: r.Bytes(s.klen), KeyMaterialType: s.mat},
				Status:  tinkpb.KeyStatusType_ENABLED, KeyId: id, OutputPrefixType: pf}}}
			name := fmt.Sprintf("legacy:%s:custom-key-manager-%s", s.class, pf)
			h, err, pan := kslib.ReadMem(ks)
			if err != nil || pan != "" {
				e.o.Violate("legacy keyset %s could not be read (harness): %v %s", name, err, pan)
				continue
			}
			var pub *keyset.Handle
			if s.class == "sig" {
				if pub, err = h.Public(); err != nil {
					e.o.Violate("legacy keyset %s: Public: %v", name, err)
					continue
				}
			}
			class := s.class
			mk := func() (*prims, error) { return factoryPrims(class, h, pub) }
			jobs = append(jobs, e.targetJob(name, class, 0, true, mk, nil, false))
		}
	}
	return
}
