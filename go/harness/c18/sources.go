//go:build verif

package main

// Where the shared primitive objects come from, for every key of the kslib pool:
//   ks     keyset-level factories on a single-key handle (aead.New, …)
//   full   the per-key full primitive registered for the key type (primitiveregistry.Primitive)
//   direct the exported per-key constructors called directly (aesgcm.NewAEAD, hmac.NewMAC, …)
//   km     the legacy key-manager path registry.PrimitiveFromKeyData (raw primitives)
//   multi  keyset-level factories on a handle holding all keys of the class
// The legacy subtle constructors are in subtle.go.

import (
	"errors"
	"fmt"
	"runtime"
	"strings"

	"google.golang.org/protobuf/proto"

	"github.com/tink-crypto/tink-go/v2/internal/verifharness/hlib"

	"github.com/tink-crypto/tink-go/v2/aead"
	"github.com/tink-crypto/tink-go/v2/aead/aesgcm"
	"github.com/tink-crypto/tink-go/v2/aead/xaesgcm"
	"github.com/tink-crypto/tink-go/v2/core/registry"
	"github.com/tink-crypto/tink-go/v2/daead"
	"github.com/tink-crypto/tink-go/v2/daead/aessiv"
	"github.com/tink-crypto/tink-go/v2/hybrid"
	"github.com/tink-crypto/tink-go/v2/hybrid/ecies"
	"github.com/tink-crypto/tink-go/v2/hybrid/hpke"
	"github.com/tink-crypto/tink-go/v2/internal/internalapi"
	"github.com/tink-crypto/tink-go/v2/internal/primitiveregistry"
	"github.com/tink-crypto/tink-go/v2/internal/verifharness/kslib"
	"github.com/tink-crypto/tink-go/v2/jwt"
	"github.com/tink-crypto/tink-go/v2/key"
	"github.com/tink-crypto/tink-go/v2/keyderivation"
	"github.com/tink-crypto/tink-go/v2/keyderivation/prfbasedkeyderivation"
	"github.com/tink-crypto/tink-go/v2/keyset"
	"github.com/tink-crypto/tink-go/v2/mac"
	"github.com/tink-crypto/tink-go/v2/mac/aescmac"
	"github.com/tink-crypto/tink-go/v2/mac/hmac"
	"github.com/tink-crypto/tink-go/v2/prf"
	tinkpb "github.com/tink-crypto/tink-go/v2/proto/tink_go_proto"
	"github.com/tink-crypto/tink-go/v2/signature"
	"github.com/tink-crypto/tink-go/v2/signature/compositemldsa"
	"github.com/tink-crypto/tink-go/v2/signature/ecdsa"
	"github.com/tink-crypto/tink-go/v2/signature/ed25519"
	"github.com/tink-crypto/tink-go/v2/signature/mldsa"
	"github.com/tink-crypto/tink-go/v2/signature/rsassapkcs1"
	"github.com/tink-crypto/tink-go/v2/signature/rsassapss"
	"github.com/tink-crypto/tink-go/v2/signature/slhdsa"
	"github.com/tink-crypto/tink-go/v2/signprehash"
	"github.com/tink-crypto/tink-go/v2/streamingaead"
	"github.com/tink-crypto/tink-go/v2/tink"
)

func yield() { runtime.Gosched() }

// item is one private/symmetric pool key with everything derived from it sequentially.
type item struct {
	idx   int
	pk    *kslib.PoolKey
	pub   *kslib.PoolKey // public counterpart or nil
	id    uint32
	ks    *tinkpb.Keyset
	h     *keyset.Handle
	pubh  *keyset.Handle
	key   key.Key
	pubk  key.Key
	cost  int
	big   bool
	token string
}

func keysetOf(pk *kslib.PoolKey, id uint32) *tinkpb.Keyset {
	return &tinkpb.Keyset{PrimaryKeyId: id, Key: []*tinkpb.Keyset_Key{{KeyData: pk.KD, Status: tinkpb.KeyStatusType_ENABLED, KeyId: id, OutputPrefixType: pk.Prefix}}}
}

func costOf(name string) int {
	has := func(ss ...string) bool {
		for _, s := range ss {
			if strings.Contains(name, s) {
				return true
			}
		}
		return false
	}
	switch {
	case has("SLHDSA"):
		return 3
	case has("RSA", "RS256", "PS256", "MLDSA87", "Composite"):
		return 2
	case has("P384", "P521", "ES384", "ES512", "MLDSA", "XWING", "MLKEM"):
		return 1
	}
	return 0
}

var bigNames = map[string]bool{"AES128GCM": true, "AES256CTRHMACSHA256": true, "XChaCha20Poly1305": true, "AES256GCMSIV-raw": true, "XAES256GCM192": true,
	"HMACSHA256Tag128": true, "AESCMACTag128": true, "AESSIV": true, "ED25519": true, "ECDSAP256": true, "HPKE-X25519-CHACHA": true, "ECIES-P256-AES128CTRHMAC": true,
	"AES128GCMHKDF4KB": true, "AES256CTRHMACSHA256Segment4KB": true, "HMACSHA256PRF": true, "HKDFSHA256PRF": true, "AESCMACPRF": true, "KMSEnvelope-fakekms-AES128GCM": true,
	"RSASSAPKCS1-3072-SHA256": true}

func tokenOf(name string) string {
	return strings.Map(func(r rune) rune {
		if r == ' ' || r == '\t' {
			return '_'
		}
		return r
	}, name)
}

// items builds handle, key and public counterparts for every non-public pool key.
func items(p *kslib.Pool) (out []*item, problems []string) {
	for i, pk := range p.Keys {
		if pk.Priv >= 0 {
			continue // public keys are used through their private counterpart
		}
		it := &item{idx: i, pk: pk, id: 0x2A000000 + uint32(i)*0x01010101, cost: costOf(pk.Name), big: bigNames[pk.Name], token: tokenOf(pk.Name)}
		if pk.Prefix == tinkpb.OutputPrefixType_RAW {
			// RAW keys have no id requirement; the keyset id is free
			it.id = 0x100 + uint32(i)
		}
		if pk.Pub >= 0 {
			it.pub = p.Keys[pk.Pub]
		}
		it.ks = keysetOf(pk, it.id)
		h, err, pan := kslib.ReadMem(it.ks)
		if err != nil || pan != "" {
			problems = append(problems, fmt.Sprintf("%s: handle: %v %s", pk.Name, err, pan))
			continue
		}
		it.h = h
		e, err := h.Entry(0)
		if err != nil {
			problems = append(problems, fmt.Sprintf("%s: entry: %v", pk.Name, err))
			continue
		}
		it.key = e.Key()
		if it.pub != nil {
			ph, err := h.Public()
			if err != nil {
				problems = append(problems, fmt.Sprintf("%s: public: %v", pk.Name, err))
				continue
			}
			it.pubh = ph
			pe, err := ph.Entry(0)
			if err != nil {
				problems = append(problems, fmt.Sprintf("%s: public entry: %v", pk.Name, err))
				continue
			}
			it.pubk = pe.Key()
		}
		out = append(out, it)
	}
	return
}

// ---------------------------------------------------------------- ks: keyset-level factories

func factoryPrims(class string, h, pubh *keyset.Handle) (*prims, error) {
	p := &prims{}
	var err error
	switch class {
	case "aead":
		p.aead, err = aead.New(h)
	case "daead":
		p.daead, err = daead.New(h)
	case "mac":
		p.mac, err = mac.New(h)
	case "prf":
		p.prfs, err = prf.NewPRFSet(h)
	case "sig":
		if p.signer, err = signature.NewSigner(h); err == nil {
			p.verifier, err = signature.NewVerifier(pubh)
		}
	case "hyb":
		if p.hdec, err = hybrid.NewHybridDecrypt(h); err == nil {
			p.henc, err = hybrid.NewHybridEncrypt(pubh)
		}
	case "saead":
		p.saead, err = streamingaead.New(h)
	case "jwtmac":
		p.jmac, err = jwt.NewMAC(h)
	case "jwtsig":
		if p.jsigner, err = jwt.NewSigner(h); err == nil {
			p.jverifier, err = jwt.NewVerifier(pubh)
		}
	case "kd":
		p.kd, err = keyderivation.New(h)
	default:
		err = fmt.Errorf("unknown class %s", class)
	}
	if err != nil {
		return nil, err
	}
	return p, nil
}

// mkPrehash: the pre-hashed signature flow of signprehash (ML-DSA keys)
func (it *item) mkPrehash() maker {
	return func() (*prims, error) {
		p := &prims{}
		var err error
		if p.prehash, err = signprehash.NewPrehash(it.pubh); err != nil {
			return nil, err
		}
		if p.phsigner, err = signprehash.NewPrehashSigner(it.h); err != nil {
			return nil, err
		}
		if p.verifier, err = signature.NewVerifier(it.pubh); err != nil {
			return nil, err
		}
		if op, ok := it.pubk.(interface{ OutputPrefix() []byte }); ok {
			p.sigPrefix = op.OutputPrefix()
		}
		return p, nil
	}
}

func (it *item) mkKS() maker {
	return func() (*prims, error) { return factoryPrims(it.pk.Class, it.h, it.pubh) }
}

// ---------------------------------------------------------------- full / km: untyped primitives

// assign sorts an untyped primitive into prims according to the pool class (tink.AEAD also
// satisfies both hybrid interfaces, so the class decides).
func assign(p *prims, class string, priv, pub any) error {
	bad := func(x any) error { return fmt.Errorf("unexpected primitive type %T for class %s", x, class) }
	var ok bool
	switch class {
	case "aead":
		if p.aead, ok = priv.(tink.AEAD); !ok {
			return bad(priv)
		}
	case "daead":
		if p.daead, ok = priv.(tink.DeterministicAEAD); !ok {
			return bad(priv)
		}
	case "mac":
		if p.mac, ok = priv.(tink.MAC); !ok {
			return bad(priv)
		}
	case "prf":
		if p.prf, ok = priv.(prf.PRF); !ok {
			return bad(priv)
		}
	case "sig":
		if p.signer, ok = priv.(tink.Signer); !ok {
			return bad(priv)
		}
		if p.verifier, ok = pub.(tink.Verifier); !ok {
			return bad(pub)
		}
	case "hyb":
		if p.hdec, ok = priv.(tink.HybridDecrypt); !ok {
			return bad(priv)
		}
		if p.henc, ok = pub.(tink.HybridEncrypt); !ok {
			return bad(pub)
		}
	case "saead":
		if p.saead, ok = priv.(tink.StreamingAEAD); !ok {
			return bad(priv)
		}
	case "jwtmac":
		if p.jmac, ok = priv.(jwt.MAC); !ok {
			return bad(priv)
		}
	case "jwtsig":
		if p.jsigner, ok = priv.(jwt.Signer); !ok {
			return bad(priv)
		}
		if p.jverifier, ok = pub.(jwt.Verifier); !ok {
			return bad(pub)
		}
	case "kd":
		if p.kder, ok = priv.(keyDeriver); !ok {
			return bad(priv)
		}
	default:
		return fmt.Errorf("unknown class %s", class)
	}
	return nil
}

func (it *item) mkFull() maker {
	return func() (*prims, error) {
		priv, err := primitiveregistry.Primitive(it.key)
		if err != nil {
			return nil, err
		}
		var pub any
		if it.pubk != nil {
			if pub, err = primitiveregistry.Primitive(it.pubk); err != nil {
				return nil, err
			}
		}
		p := &prims{}
		if err := assign(p, it.pk.Class, priv, pub); err != nil {
			return nil, err
		}
		return p, nil
	}
}

func (it *item) mkKM() maker {
	return func() (*prims, error) {
		priv, err := registry.PrimitiveFromKeyData(it.pk.KD)
		if err != nil {
			return nil, err
		}
		var pub any
		if it.pub != nil {
			if pub, err = registry.PrimitiveFromKeyData(it.pub.KD); err != nil {
				return nil, err
			}
		}
		p := &prims{}
		if err := assign(p, it.pk.Class, priv, pub); err != nil {
			return nil, err
		}
		return p, nil
	}
}

// ---------------------------------------------------------------- direct: exported constructors

var errNoDirect = errors.New("no exported per-key constructor")

func (it *item) mkDirect() maker {
	tok := internalapi.Token{}
	return func() (*prims, error) {
		p := &prims{}
		var err error
		switch k := it.key.(type) {
		case *aesgcm.Key:
			p.aead, err = aesgcm.NewAEAD(k)
		case *xaesgcm.Key:
			p.aead, err = xaesgcm.NewAEAD(k, tok)
		case *aessiv.Key:
			p.daead, err = aessiv.NewDeterministicAEAD(k, tok)
		case *hmac.Key:
			p.mac, err = hmac.NewMAC(k, tok)
		case *aescmac.Key:
			p.mac, err = aescmac.NewMAC(k, tok)
		case *ecdsa.PrivateKey:
			if p.signer, err = ecdsa.NewSigner(k, tok); err == nil {
				p.verifier, err = ecdsa.NewVerifier(it.pubk.(*ecdsa.PublicKey), tok)
			}
		case *ed25519.PrivateKey:
			if p.signer, err = ed25519.NewSigner(k, tok); err == nil {
				p.verifier, err = ed25519.NewVerifier(it.pubk.(*ed25519.PublicKey), tok)
			}
		case *rsassapkcs1.PrivateKey:
			if p.signer, err = rsassapkcs1.NewSigner(k, tok); err == nil {
				p.verifier, err = rsassapkcs1.NewVerifier(it.pubk.(*rsassapkcs1.PublicKey), tok)
			}
		case *rsassapss.PrivateKey:
			if p.signer, err = rsassapss.NewSigner(k, tok); err == nil {
				p.verifier, err = rsassapss.NewVerifier(it.pubk.(*rsassapss.PublicKey), tok)
			}
		case *mldsa.PrivateKey:
			if p.signer, err = mldsa.NewSigner(k, tok); err == nil {
				p.verifier, err = mldsa.NewVerifier(it.pubk.(*mldsa.PublicKey), tok)
			}
		case *slhdsa.PrivateKey:
			if p.signer, err = slhdsa.NewSigner(k, tok); err == nil {
				p.verifier, err = slhdsa.NewVerifier(it.pubk.(*slhdsa.PublicKey), tok)
			}
		case *compositemldsa.PrivateKey:
			if p.signer, err = compositemldsa.NewSigner(k, tok); err == nil {
				p.verifier, err = compositemldsa.NewVerifier(it.pubk.(*compositemldsa.PublicKey), tok)
			}
		case *hpke.PrivateKey:
			if p.hdec, err = hpke.NewHybridDecrypt(k, tok); err == nil {
				p.henc, err = hpke.NewHybridEncrypt(it.pubk.(*hpke.PublicKey), tok)
			}
		case *ecies.PrivateKey:
			if p.hdec, err = ecies.NewHybridDecrypt(k, tok); err == nil {
				p.henc, err = ecies.NewHybridEncrypt(it.pubk.(*ecies.PublicKey), tok)
			}
		case *prfbasedkeyderivation.Key:
			p.kder, err = prfbasedkeyderivation.NewKeyDeriver(k, tok)
		default:
			return nil, errNoDirect
		}
		if err != nil {
			return nil, err
		}
		return p, nil
	}
}

// ---------------------------------------------------------------- multi-key keysets

var multiClasses = []string{"aead", "daead", "mac", "prf", "sig", "hyb", "saead", "jwtmac", "jwtsig", "kd"}

// multiKeyset puts all cheap keys of one class into one keyset; the primary is in the middle;
// optionally the last key is disabled.
func multiKeyset(its []*item, class string, disableLast bool) (*tinkpb.Keyset, []*item) {
	ks := &tinkpb.Keyset{}
	var members []*item
	for _, it := range its {
		if it.pk.Class != class || it.cost > 1 || strings.HasPrefix(it.pk.Name, "KMSEnvelope") {
			continue
		}
		if class == "hyb" && strings.HasPrefix(it.pk.Name, "ECIES-X25519") {
			continue // no primitive exists for this key type
		}
		k := proto.Clone(it.ks.Key[0]).(*tinkpb.Keyset_Key)
		ks.Key = append(ks.Key, k)
		members = append(members, it)
	}
	if len(members) < 2 {
		return nil, nil
	}
	ks.PrimaryKeyId = members[len(members)/2].id
	if disableLast {
		ks.Key[(len(members)/2+1)%len(members)].Status = tinkpb.KeyStatusType_DISABLED
	}
	return ks, members
}

func (e *engine) multiJobs(its []*item) (jobs []job) {
	for _, class := range multiClasses {
		class := class
		ks, members := multiKeyset(its, class, false)
		if ks == nil {
			continue
		}
		id := fmt.Sprintf("multi:%s:%dkeys", class, len(members))
		h, err, pan := kslib.ReadMem(ks)
		if err != nil || pan != "" {
			e.o.Violate("multi-key keyset %s could not be read (harness): %v %s", id, err, pan)
			continue
		}
		var pub *keyset.Handle
		if members[0].pub != nil {
			if pub, err = h.Public(); err != nil {
				e.o.Violate("multi-key keyset %s: Public: %v", id, err)
				continue
			}
		}
		mk := func() (*prims, error) { return factoryPrims(class, h, pub) }
		extra := func(t *target, r *hlib.Rng, p *prims) error {
			val, err := jwtValidator()
			if err != nil {
				return err
			}
			for _, m := range members {
				m := m
				pm, err := factoryPrims(class, m.h, m.pubh)
				if err != nil {
					return fmt.Errorf("member %s: %v", m.pk.Name, err)
				}
				pt := t.input(r, 40+r.Intn(100))
				ad := t.input(r, r.Intn(20))
				switch class {
				case "aead":
					ct, err := pm.aead.Encrypt(pt, ad)
					if err != nil {
						return err
					}
					t.addX("dec-member", ct, pt, canon(pt), func(*hlib.Rng) string {
						got, err := p.aead.Decrypt(ct, ad)
						if err != nil {
							return "err:" + errStr(err)
						}
						return canon(got)
					})
				case "daead":
					ct, err := pm.daead.EncryptDeterministically(pt, ad)
					if err != nil {
						return err
					}
					t.addX("dec-member", ct, pt, canon(pt), func(*hlib.Rng) string {
						got, err := p.daead.DecryptDeterministically(ct, ad)
						if err != nil {
							return "err:" + errStr(err)
						}
						return canon(got)
					})
				case "mac":
					tag, err := pm.mac.ComputeMAC(pt)
					if err != nil {
						return err
					}
					t.addX("verify-member", tag, pt, "ok", func(*hlib.Rng) string {
						if err := p.mac.VerifyMAC(tag, pt); err != nil {
							return "rejected:" + errStr(err)
						}
						return "ok"
					})
				case "prf":
					out, err := pm.prfs.ComputePrimaryPRF(pt, 16)
					if err != nil {
						return err
					}
					t.add("prf-member", pt, canon(out), func(*hlib.Rng) string {
						f, ok := p.prfs.PRFs[m.id]
						if !ok {
							return "no-entry"
						}
						got, err := f.ComputePRF(pt, 16)
						if err != nil {
							return "err:" + errStr(err)
						}
						return canon(got)
					})
				case "sig":
					sig, err := pm.signer.Sign(pt)
					if err != nil {
						return err
					}
					t.addX("verify-member", sig, pt, "ok", func(*hlib.Rng) string {
						if err := p.verifier.Verify(sig, pt); err != nil {
							return "rejected:" + errStr(err)
						}
						return "ok"
					})
				case "hyb":
					ct, err := pm.henc.Encrypt(pt, ad)
					if err != nil {
						return err
					}
					t.addX("dec-member", ct, pt, canon(pt), func(*hlib.Rng) string {
						got, err := p.hdec.Decrypt(ct, ad)
						if err != nil {
							return "err:" + errStr(err)
						}
						return canon(got)
					})
				case "saead":
					long := t.input(r, 9000)
					ct, err := streamEncrypt(pm.saead, long, ad, nil)
					if err != nil {
						return err
					}
					t.addX("stream-dec-member", ct, long, canon(long), func(gr *hlib.Rng) string {
						got, err := streamDecrypt(p.saead, ct, ad, gr)
						if err != nil {
							return "err:" + errStr(err)
						}
						return canon(got)
					})
				case "jwtmac":
					raws, _, err := rawJWTs(r, 2)
					if err != nil {
						return err
					}
					c, err := pm.jmac.ComputeMACAndEncode(raws[1])
					if err != nil {
						return err
					}
					v0, err := pm.jmac.VerifyMACAndDecode(c, val)
					if err != nil {
						return err
					}
					t.addX("jwt-verify-member", []byte(c), []byte(m.token), verifiedCanon(v0), func(*hlib.Rng) string {
						v, err := p.jmac.VerifyMACAndDecode(c, val)
						if err != nil {
							return "rejected:" + errStr(err)
						}
						return verifiedCanon(v)
					})
				case "jwtsig":
					raws, _, err := rawJWTs(r, 2)
					if err != nil {
						return err
					}
					c, err := pm.jsigner.SignAndEncode(raws[1])
					if err != nil {
						return err
					}
					v0, err := pm.jverifier.VerifyAndDecode(c, val)
					if err != nil {
						return err
					}
					t.addX("jwt-verify-member", []byte(c), []byte(m.token), verifiedCanon(v0), func(*hlib.Rng) string {
						v, err := p.jverifier.VerifyAndDecode(c, val)
						if err != nil {
							return "rejected:" + errStr(err)
						}
						return verifiedCanon(v)
					})
				}
			}
			return nil
		}
		jobs = append(jobs, e.targetJob(id, class, 1, false, mk, extra, false))
	}
	return
}
