//go:build verif

package main

import "github.com/tink-crypto/tink-go/v2/internal/verifharness/kslib"

func (e *engine) handleJobs(its []*item) []job                  { return nil }
func (e *engine) keyJobs(its []*item) []job                     { return nil }
func (e *engine) registrySection(p *kslib.Pool, its []*item)    {}
func (e *engine) multiJobs(its []*item) []job                   { return nil }
