//go:build verif

package main

import "github.com/tink-crypto/tink-go/v2/internal/verifharness/kslib"

func (e *engine) registrySection(p *kslib.Pool, its []*item) {}
