//go:build verif

package main

// Per primitive class: the sequential oracle and the calls performed concurrently. All closures read
// the primitive out of the shared *prims at call time, so that the object can be replaced by a
// freshly constructed one between the oracle and the first concurrent window.

import (
	"bytes"
	"errors"
	"fmt"
	"io"
	"slices"

	"google.golang.org/protobuf/proto"

	"github.com/tink-crypto/tink-go/v2/insecurecleartextkeyset"
	"github.com/tink-crypto/tink-go/v2/internal/protoserialization"
	"github.com/tink-crypto/tink-go/v2/internal/verifharness/hlib"
	"github.com/tink-crypto/tink-go/v2/jwt"
	"github.com/tink-crypto/tink-go/v2/key"
	"github.com/tink-crypto/tink-go/v2/keyderivation"
	"github.com/tink-crypto/tink-go/v2/prf"
	"github.com/tink-crypto/tink-go/v2/tink"
)

type keyDeriver interface {
	DeriveKey(salt []byte) (key.Key, error)
}

// prims holds whichever primitives a source produced for one key.
type prims struct {
	aead      tink.AEAD
	daead     tink.DeterministicAEAD
	mac       tink.MAC
	prfs      *prf.Set
	prf       prf.PRF
	signer    tink.Signer
	verifier  tink.Verifier
	henc      tink.HybridEncrypt
	hdec      tink.HybridDecrypt
	saead     tink.StreamingAEAD
	jmac      jwt.MAC
	jsigner   jwt.Signer
	jverifier jwt.Verifier
	kd        keyderivation.KeysetDeriver
	kder      keyDeriver
	prehash   tink.Prehash // with phsigner and verifier: the pre-hashed signature flow
	phsigner  tink.PrehashSigner
	sigPrefix []byte // output prefix the (prefix-less) pre-hashed signature needs for the verifier
}

func (p *prims) empty() bool {
	return p == nil || (p.aead == nil && p.daead == nil && p.mac == nil && p.prfs == nil && p.prf == nil && p.signer == nil && p.verifier == nil &&
		p.henc == nil && p.hdec == nil && p.saead == nil && p.prehash == nil && p.jmac == nil && p.jsigner == nil && p.jverifier == nil && p.kd == nil && p.kder == nil)
}

type maker func() (*prims, error)

// lensFor gives the input lengths by cost class; big adds one input above 64 KiB.
func lensFor(cost int, big bool) []int {
	var l []int
	switch cost {
	case 0:
		l = []int{0, 1, 16, 33, 255, 4099}
		if hlib.Thorough() {
			l = append(l, 31, 64, 1000, 8192)
		}
		if big {
			l = append(l, 70001)
		}
	case 1:
		l = []int{0, 1000}
		if hlib.Thorough() {
			l = []int{0, 33, 1000}
		}
		if big {
			l = append(l, 66000)
		}
	case 2:
		l = []int{0, 100}
	default:
		l = []int{17}
	}
	return l
}

// flip returns a copy of b with one bit flipped at a seeded position (b must not be empty).
func flip(r *hlib.Rng, b []byte) []byte {
	c := bytes.Clone(b)
	if len(c) == 0 {
		return []byte{0x42}
	}
	c[r.Intn(len(c))] ^= 1 << uint(r.Intn(8))
	return c
}

var errOracle = errors.New("sequential oracle failed")

func oracleErr(what string, err error) error {
	return fmt.Errorf("%w: %s: %v", errOracle, what, err)
}

// ---------------------------------------------------------------- AEAD

func addAEAD(t *target, r *hlib.Rng, p *prims, lens []int) error {
	for _, L := range lens {
		pt := t.input(r, L)
		ad := t.input(r, r.Pick(0, 1, 13, 40))
		ct0, err := p.aead.Encrypt(pt, ad)
		if err != nil {
			return oracleErr("Encrypt", err)
		}
		ct := t.guardBytes(ct0)
		bad := t.guardBytes(flip(r, ct0))
		wantPT := canon(pt)
		t.add("enc-dec", pt, "ok", func(*hlib.Rng) string {
			c, err := p.aead.Encrypt(pt, ad)
			if err != nil {
				return "enc-err:" + errStr(err)
			}
			got, err := p.aead.Decrypt(c, ad)
			if err != nil {
				return "dec-err:" + errStr(err)
			}
			if !bytes.Equal(got, pt) {
				return "wrong-plaintext:" + canon(got)
			}
			return "ok"
		})
		t.addX("dec-fixed", ct, pt, wantPT, func(*hlib.Rng) string {
			got, err := p.aead.Decrypt(ct, ad)
			if err != nil {
				return "err:" + errStr(err)
			}
			return canon(got)
		})
		t.addX("dec-bad", bad, pt, "err", func(*hlib.Rng) string {
			got, err := p.aead.Decrypt(bad, ad)
			if err != nil {
				return "err"
			}
			return "accepted:" + canon(got)
		})
	}
	return nil
}

// ---------------------------------------------------------------- DAEAD

func addDAEAD(t *target, r *hlib.Rng, p *prims, lens []int) error {
	for _, L := range lens {
		pt := t.input(r, L)
		ad := t.input(r, r.Pick(0, 1, 13, 40))
		ct0, err := p.daead.EncryptDeterministically(pt, ad)
		if err != nil {
			return oracleErr("EncryptDeterministically", err)
		}
		ct := t.guardBytes(ct0)
		bad := t.guardBytes(flip(r, ct0))
		t.add("enc-det", pt, canon(ct0), func(*hlib.Rng) string {
			c, err := p.daead.EncryptDeterministically(pt, ad)
			if err != nil {
				return "err:" + errStr(err)
			}
			return canon(c)
		})
		t.addX("dec-fixed", ct, pt, canon(pt), func(*hlib.Rng) string {
			got, err := p.daead.DecryptDeterministically(ct, ad)
			if err != nil {
				return "err:" + errStr(err)
			}
			return canon(got)
		})
		t.addX("dec-bad", bad, pt, "err", func(*hlib.Rng) string {
			got, err := p.daead.DecryptDeterministically(bad, ad)
			if err != nil {
				return "err"
			}
			return "accepted:" + canon(got)
		})
	}
	return nil
}

// ---------------------------------------------------------------- MAC

func addMAC(t *target, r *hlib.Rng, p *prims, lens []int) error {
	for _, L := range lens {
		msg := t.input(r, L)
		tag0, err := p.mac.ComputeMAC(msg)
		if err != nil {
			return oracleErr("ComputeMAC", err)
		}
		tag := t.guardBytes(tag0)
		bad := t.guardBytes(flip(r, tag0))
		other := t.input(r, L+1)
		t.add("compute", msg, canon(tag0), func(*hlib.Rng) string {
			g, err := p.mac.ComputeMAC(msg)
			if err != nil {
				return "err:" + errStr(err)
			}
			return canon(g)
		})
		t.add("verify-ok", msg, "ok", func(*hlib.Rng) string {
			if err := p.mac.VerifyMAC(tag, msg); err != nil {
				return "rejected:" + errStr(err)
			}
			return "ok"
		})
		t.addX("verify-bad", bad, msg, "err,err", func(*hlib.Rng) string {
			a, b := "err", "err"
			if p.mac.VerifyMAC(bad, msg) == nil {
				a = "accepted-corrupted-tag"
			}
			if p.mac.VerifyMAC(tag, other) == nil {
				b = "accepted-other-message"
			}
			return a + "," + b
		})
	}
	return nil
}

// ---------------------------------------------------------------- PRF

var prfLens = []uint32{1, 16, 32, 64, 100}

func addPRFFunc(t *target, r *hlib.Rng, lens []int, op string, f func(in []byte, n uint32) ([]byte, error)) error {
	okAny := false
	for _, L := range lens {
		in := t.input(r, L)
		for _, n := range prfLens {
			n := n
			want := "err"
			out, err := f(in, n)
			if err == nil {
				want = canon(out)
				okAny = true
				if uint32(len(out)) != n {
					want = "wrong-length"
				}
			}
			t.add(fmt.Sprintf("%s-%d", op, n), in, want, func(*hlib.Rng) string {
				o, err := f(in, n)
				if err != nil {
					return "err"
				}
				if uint32(len(o)) != n {
					return "wrong-length"
				}
				return canon(o)
			})
		}
	}
	if !okAny {
		return oracleErr("ComputePRF", errors.New("no output length accepted"))
	}
	return nil
}

func addPRFSet(t *target, r *hlib.Rng, p *prims, lens []int) error {
	if err := addPRFFunc(t, r, lens, "primary-prf", func(in []byte, n uint32) ([]byte, error) { return p.prfs.ComputePrimaryPRF(in, n) }); err != nil {
		return err
	}
	// the same through the exported map of the shared Set (read-only use of the map)
	return addPRFFunc(t, r, lens[:1], "map-prf", func(in []byte, n uint32) ([]byte, error) {
		s := p.prfs
		f, ok := s.PRFs[s.PrimaryID]
		if !ok {
			return nil, errors.New("no primary entry")
		}
		return f.ComputePRF(in, n)
	})
}

func addPRF(t *target, r *hlib.Rng, p *prims, lens []int) error {
	return addPRFFunc(t, r, lens, "prf", func(in []byte, n uint32) ([]byte, error) { return p.prf.ComputePRF(in, n) })
}

// ---------------------------------------------------------------- signatures

func addSig(t *target, r *hlib.Rng, p *prims, lens []int) error {
	for i, L := range lens {
		msg := t.input(r, L)
		sig0, err := p.signer.Sign(msg)
		if err != nil {
			return oracleErr("Sign", err)
		}
		if p.verifier != nil {
			if err := p.verifier.Verify(sig0, msg); err != nil {
				return oracleErr("Verify of own signature", err)
			}
		}
		det := false
		if t.cost <= 2 || (hlib.Thorough() && i == 0) {
			if s2, err := p.signer.Sign(msg); err == nil && bytes.Equal(s2, sig0) {
				det = true
			}
		}
		if det {
			t.add("sign-det", msg, canon(sig0), func(*hlib.Rng) string {
				s, err := p.signer.Sign(msg)
				if err != nil {
					return "err:" + errStr(err)
				}
				return canon(s)
			})
		}
		if p.verifier == nil {
			continue
		}
		t.add("sign-verify", msg, "ok", func(*hlib.Rng) string {
			s, err := p.signer.Sign(msg)
			if err != nil {
				return "sign-err:" + errStr(err)
			}
			if err := p.verifier.Verify(s, msg); err != nil {
				return "own-signature-rejected:" + errStr(err)
			}
			return "ok"
		})
		sig := t.guardBytes(sig0)
		bad := t.guardBytes(flip(r, sig0))
		other := t.input(r, L+1)
		t.add("verify-ok", msg, "ok", func(*hlib.Rng) string {
			if err := p.verifier.Verify(sig, msg); err != nil {
				return "rejected:" + errStr(err)
			}
			return "ok"
		})
		t.addX("verify-bad", bad, msg, "err,err", func(*hlib.Rng) string {
			a, b := "err", "err"
			if p.verifier.Verify(bad, msg) == nil {
				a = "accepted-corrupted-signature"
			}
			if p.verifier.Verify(sig, other) == nil {
				b = "accepted-other-message"
			}
			return a + "," + b
		})
	}
	return nil
}

// ---------------------------------------------------------------- pre-hashed signatures

func addPrehash(t *target, r *hlib.Rng, p *prims, lens []int) error {
	for _, L := range lens {
		msg := t.input(r, L)
		mu0, err := p.prehash.ComputePrehash(msg)
		if err != nil {
			return oracleErr("ComputePrehash", err)
		}
		sig0, err := p.phsigner.SignPrehash(mu0)
		if err != nil {
			return oracleErr("SignPrehash", err)
		}
		if err := p.verifier.Verify(slices.Concat(p.sigPrefix, sig0), msg); err != nil {
			return oracleErr("Verify of a pre-hashed signature", err)
		}
		mu := t.guardBytes(mu0)
		t.add("compute-prehash", msg, canon(mu0), func(*hlib.Rng) string {
			m, err := p.prehash.ComputePrehash(msg)
			if err != nil {
				return "err:" + errStr(err)
			}
			return canon(m)
		})
		t.add("prehash-sign-verify", msg, "ok", func(*hlib.Rng) string {
			m, err := p.prehash.ComputePrehash(msg)
			if err != nil {
				return "prehash-err:" + errStr(err)
			}
			s, err := p.phsigner.SignPrehash(m)
			if err != nil {
				return "sign-err:" + errStr(err)
			}
			if err := p.verifier.Verify(slices.Concat(p.sigPrefix, s), msg); err != nil {
				return "own-signature-rejected:" + errStr(err)
			}
			return "ok"
		})
		t.add("sign-fixed-prehash-verify", msg, "ok", func(*hlib.Rng) string {
			s, err := p.phsigner.SignPrehash(mu)
			if err != nil {
				return "sign-err:" + errStr(err)
			}
			if err := p.verifier.Verify(slices.Concat(p.sigPrefix, s), msg); err != nil {
				return "own-signature-rejected:" + errStr(err)
			}
			return "ok"
		})
	}
	return nil
}

// ---------------------------------------------------------------- hybrid

func addHybrid(t *target, r *hlib.Rng, p *prims, lens []int) error {
	for _, L := range lens {
		pt := t.input(r, L)
		ctx := t.input(r, r.Pick(0, 1, 13, 40))
		ct0, err := p.henc.Encrypt(pt, ctx)
		if err != nil {
			return oracleErr("hybrid Encrypt", err)
		}
		if got, err := p.hdec.Decrypt(ct0, ctx); err != nil || !bytes.Equal(got, pt) {
			return oracleErr("hybrid Decrypt", fmt.Errorf("%v", err))
		}
		ct := t.guardBytes(ct0)
		bad := t.guardBytes(flip(r, ct0))
		t.add("enc-dec", pt, "ok", func(*hlib.Rng) string {
			c, err := p.henc.Encrypt(pt, ctx)
			if err != nil {
				return "enc-err:" + errStr(err)
			}
			got, err := p.hdec.Decrypt(c, ctx)
			if err != nil {
				return "dec-err:" + errStr(err)
			}
			if !bytes.Equal(got, pt) {
				return "wrong-plaintext:" + canon(got)
			}
			return "ok"
		})
		t.addX("dec-fixed", ct, pt, canon(pt), func(*hlib.Rng) string {
			got, err := p.hdec.Decrypt(ct, ctx)
			if err != nil {
				return "err:" + errStr(err)
			}
			return canon(got)
		})
		t.addX("dec-bad", bad, pt, "err", func(*hlib.Rng) string {
			got, err := p.hdec.Decrypt(bad, ctx)
			if err != nil {
				return "err"
			}
			return "accepted:" + canon(got)
		})
	}
	return nil
}

// ---------------------------------------------------------------- streaming AEAD

func streamEncrypt(s tink.StreamingAEAD, pt, ad []byte, r *hlib.Rng) ([]byte, error) {
	var buf bytes.Buffer
	w, err := s.NewEncryptingWriter(&buf, ad)
	if err != nil {
		return nil, err
	}
	for off := 0; off < len(pt); {
		n := len(pt) - off
		if r != nil {
			switch r.Intn(4) {
			case 0:
				n = 1 + r.Intn(16)
			case 1:
				n = 1 + r.Intn(5000)
			case 2:
				n = 4096
			}
			if n > len(pt)-off {
				n = len(pt) - off
			}
			if r.Chance(10) {
				if _, err := w.Write(nil); err != nil {
					return nil, err
				}
			}
			if r.Chance(20) {
				yield()
			}
		}
		k, err := w.Write(pt[off : off+n])
		if err != nil {
			return nil, err
		}
		if k != n {
			return nil, fmt.Errorf("short write %d of %d", k, n)
		}
		off += n
	}
	if err := w.Close(); err != nil {
		return nil, err
	}
	return buf.Bytes(), nil
}

func streamDecrypt(s tink.StreamingAEAD, ct, ad []byte, r *hlib.Rng) ([]byte, error) {
	rd, err := s.NewDecryptingReader(bytes.NewReader(ct), ad)
	if err != nil {
		return nil, err
	}
	if r == nil {
		return io.ReadAll(rd)
	}
	var out []byte
	buf := make([]byte, 6000)
	for {
		n := 1 + r.Intn(len(buf))
		if r.Chance(30) {
			n = 1 + r.Intn(32)
		}
		k, err := rd.Read(buf[:n])
		out = append(out, buf[:k]...)
		if err == io.EOF {
			return out, nil
		}
		if err != nil {
			return out, err
		}
		if r.Chance(20) {
			yield()
		}
	}
}

func addStream(t *target, r *hlib.Rng, p *prims, lens []int) error {
	for _, L := range lens {
		pt := t.input(r, L)
		ad := t.input(r, r.Pick(0, 1, 13, 40))
		ct0, err := streamEncrypt(p.saead, pt, ad, nil)
		if err != nil {
			return oracleErr("streaming encrypt", err)
		}
		if got, err := streamDecrypt(p.saead, ct0, ad, nil); err != nil || !bytes.Equal(got, pt) {
			return oracleErr("streaming decrypt", fmt.Errorf("%v", err))
		}
		ct := t.guardBytes(ct0)
		bad := t.guardBytes(flip(r, ct0))
		t.add("stream-roundtrip", pt, "ok", func(gr *hlib.Rng) string {
			c, err := streamEncrypt(p.saead, pt, ad, gr)
			if err != nil {
				return "enc-err:" + errStr(err)
			}
			if len(c) != len(ct) {
				return fmt.Sprintf("ciphertext-length:%d", len(c))
			}
			got, err := streamDecrypt(p.saead, c, ad, gr)
			if err != nil {
				return "dec-err:" + errStr(err)
			}
			if !bytes.Equal(got, pt) {
				return "wrong-plaintext:" + canon(got)
			}
			return "ok"
		})
		t.addX("stream-dec-fixed", ct, pt, canon(pt), func(gr *hlib.Rng) string {
			got, err := streamDecrypt(p.saead, ct, ad, gr)
			if err != nil {
				return "err:" + errStr(err)
			}
			return canon(got)
		})
		t.addX("stream-dec-bad", bad, pt, "err", func(gr *hlib.Rng) string {
			got, err := streamDecrypt(p.saead, bad, ad, gr)
			if err != nil {
				return "err"
			}
			return "accepted:" + canon(got)
		})
	}
	// error-path + retry histories, then interleaved fresh streams (streamfault.go)
	return addStreamFaults(t, r, p, 6000)
}

// ---------------------------------------------------------------- JWT

func rawJWTs(r *hlib.Rng, n int) ([]*jwt.RawJWT, [][]byte, error) {
	var out []*jwt.RawJWT
	var ins [][]byte
	iss := "c18"
	for i := 0; i < n; i++ {
		sub := fmt.Sprintf("subject-%d-%x", i, r.Bytes(1+4*i))
		id := fmt.Sprintf("%x", r.Bytes(8))
		opts := &jwt.RawJWTOptions{Issuer: &iss, Subject: &sub, JWTID: &id, WithoutExpiration: true}
		if i%2 == 1 {
			opts.Audiences = []string{"aud-a", "aud-b"}
			opts.CustomClaims = map[string]any{"n": float64(i), "s": "x", "arr": []any{"a", float64(1), true}, "obj": map[string]any{"k": "v"}}
			typ := "JWT"
			opts.TypeHeader = &typ
		}
		raw, err := jwt.NewRawJWT(opts)
		if err != nil {
			return nil, nil, err
		}
		out = append(out, raw)
		ins = append(ins, []byte(sub+"/"+id))
	}
	return out, ins, nil
}

func jwtValidator() (*jwt.Validator, error) {
	iss := "c18"
	return jwt.NewValidator(&jwt.ValidatorOpts{ExpectedIssuer: &iss, AllowMissingExpiration: true, IgnoreAudiences: true, IgnoreTypeHeader: true})
}

func verifiedCanon(v *jwt.VerifiedJWT) string {
	pl, err := v.JSONPayload()
	if err != nil {
		return "payload-err:" + errStr(err)
	}
	s := canon(pl)
	if iss, err := v.Issuer(); err != nil || iss != "c18" {
		s += ",issuer=" + iss
	}
	return s
}

// badCompact corrupts the first character of the signature part (all six bits significant).
func badCompact(c string) string {
	i := len(c) - 1
	for i >= 0 && c[i] != '.' {
		i--
	}
	if i+1 >= len(c) {
		return c + "A"
	}
	b := []byte(c)
	if b[i+1] == 'A' {
		b[i+1] = 'B'
	} else {
		b[i+1] = 'A'
	}
	return string(b)
}

func addJWTMAC(t *target, r *hlib.Rng, p *prims, n int) error {
	raws, ins, err := rawJWTs(r, n)
	if err != nil {
		return oracleErr("NewRawJWT", err)
	}
	val, err := jwtValidator()
	if err != nil {
		return oracleErr("NewValidator", err)
	}
	for i, raw := range raws {
		raw := raw
		in := ins[i]
		c0, err := p.jmac.ComputeMACAndEncode(raw)
		if err != nil {
			return oracleErr("ComputeMACAndEncode", err)
		}
		v0, err := p.jmac.VerifyMACAndDecode(c0, val)
		if err != nil {
			return oracleErr("VerifyMACAndDecode", err)
		}
		want := canon([]byte(c0)) + "|" + verifiedCanon(v0)
		bad := badCompact(c0)
		t.add("jwt-compute-verify", in, want, func(*hlib.Rng) string {
			c, err := p.jmac.ComputeMACAndEncode(raw)
			if err != nil {
				return "compute-err:" + errStr(err)
			}
			v, err := p.jmac.VerifyMACAndDecode(c, val)
			if err != nil {
				return "own-token-rejected:" + errStr(err)
			}
			return canon([]byte(c)) + "|" + verifiedCanon(v)
		})
		t.addX("jwt-verify-fixed", []byte(c0), in, verifiedCanon(v0), func(*hlib.Rng) string {
			v, err := p.jmac.VerifyMACAndDecode(c0, val)
			if err != nil {
				return "rejected:" + errStr(err)
			}
			return verifiedCanon(v)
		})
		t.addX("jwt-verify-bad", []byte(bad), in, "err", func(*hlib.Rng) string {
			if _, err := p.jmac.VerifyMACAndDecode(bad, val); err != nil {
				return "err"
			}
			return "accepted-corrupted-token"
		})
	}
	return nil
}

func addJWTSig(t *target, r *hlib.Rng, p *prims, n int) error {
	raws, ins, err := rawJWTs(r, n)
	if err != nil {
		return oracleErr("NewRawJWT", err)
	}
	val, err := jwtValidator()
	if err != nil {
		return oracleErr("NewValidator", err)
	}
	for i, raw := range raws {
		raw := raw
		in := ins[i]
		c0, err := p.jsigner.SignAndEncode(raw)
		if err != nil {
			return oracleErr("SignAndEncode", err)
		}
		v0, err := p.jverifier.VerifyAndDecode(c0, val)
		if err != nil {
			return oracleErr("VerifyAndDecode", err)
		}
		want := verifiedCanon(v0)
		bad := badCompact(c0)
		t.add("jwt-sign-verify", in, want, func(*hlib.Rng) string {
			c, err := p.jsigner.SignAndEncode(raw)
			if err != nil {
				return "sign-err:" + errStr(err)
			}
			v, err := p.jverifier.VerifyAndDecode(c, val)
			if err != nil {
				return "own-token-rejected:" + errStr(err)
			}
			return verifiedCanon(v)
		})
		t.addX("jwt-verify-fixed", []byte(c0), in, want, func(*hlib.Rng) string {
			v, err := p.jverifier.VerifyAndDecode(c0, val)
			if err != nil {
				return "rejected:" + errStr(err)
			}
			return verifiedCanon(v)
		})
		t.addX("jwt-verify-bad", []byte(bad), in, "err", func(*hlib.Rng) string {
			if _, err := p.jverifier.VerifyAndDecode(bad, val); err != nil {
				return "err"
			}
			return "accepted-corrupted-token"
		})
	}
	return nil
}

// ---------------------------------------------------------------- key derivation

func detMarshal(m proto.Message) []byte {
	b, err := proto.MarshalOptions{Deterministic: true}.Marshal(m)
	if err != nil {
		return []byte("marshal-error:" + err.Error())
	}
	return b
}

func addKD(t *target, r *hlib.Rng, p *prims, lens []int) error {
	derive := func(salt []byte) (string, error) {
		h, err := p.kd.DeriveKeyset(salt)
		if err != nil {
			return "", err
		}
		return canon(detMarshal(insecurecleartextkeyset.KeysetMaterial(h))), nil
	}
	for _, L := range lens {
		salt := t.input(r, L)
		want, err := derive(salt)
		if err != nil {
			return oracleErr("DeriveKeyset", err)
		}
		t.add("derive-keyset", salt, want, func(*hlib.Rng) string {
			s, err := derive(salt)
			if err != nil {
				return "err:" + errStr(err)
			}
			return s
		})
	}
	return nil
}

func addKeyDeriver(t *target, r *hlib.Rng, p *prims, lens []int) error {
	derive := func(salt []byte) (string, error) {
		k, err := p.kder.DeriveKey(salt)
		if err != nil {
			return "", err
		}
		ser, err := protoserialization.SerializeKey(k)
		if err != nil {
			return "", err
		}
		return canon(detMarshal(ser.KeyData())), nil
	}
	for _, L := range lens {
		salt := t.input(r, L)
		want, err := derive(salt)
		if err != nil {
			return oracleErr("DeriveKey", err)
		}
		t.add("derive-key", salt, want, func(*hlib.Rng) string {
			s, err := derive(salt)
			if err != nil {
				return "err:" + errStr(err)
			}
			return s
		})
	}
	return nil
}

// ---------------------------------------------------------------- dispatch

// buildTarget runs the sequential oracle for whatever primitives mk produces.
func buildTarget(seed uint64, id, class string, cost int, big bool, mk maker, extra func(t *target, r *hlib.Rng, p *prims) error) (*target, error) {
	p, err := mk()
	if err != nil {
		return nil, err
	}
	if p.empty() && extra == nil {
		return nil, errors.New("no primitive")
	}
	t := &target{id: id, class: class, cost: cost}
	r := hlib.NewRng(seed, "inputs/"+id)
	lens := lensFor(cost, big)
	type step struct {
		on bool
		f  func() error
	}
	steps := []step{
		{p.aead != nil, func() error { return addAEAD(t, r, p, lens) }},
		{p.daead != nil, func() error { return addDAEAD(t, r, p, lens) }},
		{p.mac != nil, func() error { return addMAC(t, r, p, lens) }},
		{p.prfs != nil, func() error { return addPRFSet(t, r, p, lens) }},
		{p.prf != nil, func() error { return addPRF(t, r, p, lens) }},
		{p.signer != nil, func() error { return addSig(t, r, p, lens) }},
		{p.prehash != nil && p.phsigner != nil && p.verifier != nil, func() error { return addPrehash(t, r, p, lens) }},
		{p.henc != nil && p.hdec != nil, func() error { return addHybrid(t, r, p, lens) }},
		{p.saead != nil, func() error { return addStream(t, r, p, lens) }},
		{p.jmac != nil, func() error { return addJWTMAC(t, r, p, len(lens)) }},
		{p.jsigner != nil && p.jverifier != nil, func() error { return addJWTSig(t, r, p, len(lens)) }},
		{p.kd != nil, func() error { return addKD(t, r, p, lens) }},
		{p.kder != nil, func() error { return addKeyDeriver(t, r, p, lens) }},
	}
	for _, s := range steps {
		if s.on {
			if err := s.f(); err != nil {
				return nil, err
			}
		}
	}
	if extra != nil {
		if err := extra(t, r, p); err != nil {
			return nil, err
		}
	}
	if !p.empty() {
		t.fresh = func() {
			if q, err := mk(); err == nil && !q.empty() {
				*p = *q
			}
		}
	}
	return t, nil
}
