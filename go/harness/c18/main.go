//go:build verif

// Harness c18 — property C18: primitives, handles, keys and the global registries are safe for
// concurrent use. Built with the race detector.
//
// The process re-executes itself once with GORACE="log_path=<wd>/race halt_on_error=0 exitcode=0
// history_size=3"; the child does the work (sequential oracle, then G goroutines × M calls on ONE
// shared object, every result compared with the oracle), the parent turns every race report the
// child's runtime wrote into a violation.
//
// Lines:  !Q conc <object-id> <op> g=<goroutines> m=<calls per goroutine> inputs=<hash>
// result: seq | diverged:<first mismatch>
package main

import (
	"crypto/rand"
	"flag"
	"fmt"
	"os"
	"runtime"
	"sort"
	"strings"
	"time"

	"github.com/tink-crypto/tink-go/v2/internal/verifharness/hlib"
	"github.com/tink-crypto/tink-go/v2/internal/verifharness/kslib"
)

var flagOnly = flag.String("only", "", "comma separated sections to run: registry,handles,keys,builders,prims,multi,legacy,subtle (default all)")
var flagKeys = flag.String("keys", "", "substring filter on pool key names (debugging)")

var logw = os.Stderr

func want(section string) bool {
	if *flagOnly == "" || section == "shared-objects" {
		return true
	}
	for _, s := range strings.Split(*flagOnly, ",") {
		if s == section {
			return true
		}
	}
	return false
}

func main() {
	flag.Parse()
	if os.Getenv("C18_CHILD") == "" {
		os.Exit(parent())
	}
	child()
}

func child() {
	runtime.GOMAXPROCS(16)
	o := hlib.Open("C18")
	defer o.Close()
	seed := *hlib.FlagSeed
	e := &engine{o: o, seed: seed, start: time.Now(), classT: map[string]time.Duration{}, verbose: os.Getenv("C18_VERBOSE") != ""}

	if *hlib.FlagReplay != "" {
		e.filter = replayFilter(*hlib.FlagReplay)
	}
	// the pool is generated from a seeded reader (single goroutine); everything concurrent
	// afterwards uses the real crypto/rand reader again
	realRand := rand.Reader
	kslib.InstallDetRand(seed)
	t0 := time.Now()
	pool := kslib.BuildPool()
	rand.Reader = realRand
	for _, s := range pool.Skipped {
		o.Count("pool-skipped")
		fmt.Fprintln(os.Stderr, "c18: pool skipped:", s)
	}
	its, problems := items(pool)
	for _, p := range problems {
		o.Violate("pool key unusable (harness): %s", p)
	}
	if *flagKeys != "" {
		var f []*item
		for _, it := range its {
			if strings.Contains(it.pk.Name, *flagKeys) {
				f = append(f, it)
			}
		}
		its = f
	}
	o.Hist["pool/keys"] = len(pool.Keys)
	o.Hist["pool/items"] = len(its)
	tPool := time.Since(t0)

	timings := map[string]time.Duration{"pool": tPool}
	section := func(name string, f func()) {
		if !want(name) {
			return
		}
		t := time.Now()
		f()
		timings[name] = time.Since(t)
	}
	// the registry section runs alone (it registers KMS and monitoring clients); handle and key
	// targets parse their own, never used twin objects, so their position in the queue is free
	lanes := 8
	section("registry", func() { e.registrySection(pool, its) })
	// everything else is one queue of jobs over eight lanes (most expensive first); the reports
	// are replayed in this order
	section("shared-objects", func() {
		var jobs []job
		add := func(name string, f func() []job) {
			if want(name) {
				jobs = append(jobs, f()...)
			}
		}
		add("handles", func() []job { return e.handleJobs(its) })
		add("keys", func() []job { return e.keyJobs(its) })
		add("builders", func() []job { return e.builderJobs(its) })
		add("prims", func() []job { return e.primJobs(its) })
		add("multi", func() []job { return e.multiJobs(its) })
		add("legacy", func() []job { return e.legacyJobs() })
		add("subtle", func() []job { return e.subtleJobs() })
		e.runJobs(jobs, lanes)
	})

	var names []string
	for k := range timings {
		names = append(names, k)
	}
	sort.Strings(names)
	for _, k := range names {
		fmt.Fprintf(os.Stderr, "c18: section %-9s %6.1fs\n", k, timings[k].Seconds())
		o.Hist["seconds/"+k] = int(timings[k].Seconds() + 0.5)
	}
	names = names[:0]
	for k := range e.classT {
		names = append(names, k)
	}
	sort.Strings(names)
	for _, k := range names {
		fmt.Fprintf(os.Stderr, "c18:   class %-9s %6.1fs\n", k, e.classT[k].Seconds())
	}
	o.Hist["windows"] = e.nWin
	o.Hist["concurrent-calls-compared"] = e.nCalls
	fmt.Fprintf(os.Stderr, "c18: %d windows, %d concurrent calls compared, %d diverged lines, %.1fs\n", e.nWin, e.nCalls, e.diverge, time.Since(e.start).Seconds())
}

// ---------------------------------------------------------------- section 1

func (e *engine) targetJob(id, class string, cost int, big bool, mk maker, extra func(t *target, r *hlib.Rng, p *prims) error, light bool) job {
	return job{id: id, cost: cost, run: func() *report {
		rep := newReport(id, class)
		var t *target
		var err error
		if p := hlib.Recover(func() { t, err = buildTarget(e.seed, id, class, cost, big, mk, extra) }); p != "" {
			rep.violate("panic while building the sequential oracle of %s: %s", id, trunc(p, 200))
			rep.count("oracle-panic/" + class)
			return rep
		}
		if err != nil {
			if err == errNoDirect {
				return nil
			}
			rep.count("no-target/" + strings.SplitN(id, ":", 2)[0] + "/" + class)
			if e.verbose {
				fmt.Fprintf(logw, "c18: no target %s: %v\n", id, err)
			}
			return rep
		}
		runTarget(rep, e.seed, t, light)
		return rep
	}}
}

func (e *engine) primJobs(its []*item) (jobs []job) {
	th := hlib.Thorough()
	directSeen := map[string]bool{}
	kmSeen := map[string]bool{}
	for _, it := range its {
		cl := it.pk.Class
		// keyset-level factory: every key, all goroutine counts
		jobs = append(jobs, e.targetJob("ks:"+cl+":"+it.token, cl, it.cost, it.big, it.mkKS(), nil, false))
		// per-key full primitive: every key (quick tier: one goroutine count; the slowest keys in
		// the thorough tier only — they are the objects the keyset factory wraps)
		if th || it.cost <= 2 {
			jobs = append(jobs, e.targetJob("full:"+cl+":"+it.token, cl, it.cost, false, it.mkFull(), nil, !th))
		}
		if cl == "sig" && strings.HasPrefix(it.pk.Name, "MLDSA") {
			jobs = append(jobs, e.targetJob("prehash:sig:"+it.token, "prehash", it.cost, false, it.mkPrehash(), nil, false))
		}
		// exported constructor called directly: one key per Go key type
		ty := fmt.Sprintf("%T", it.key)
		if (!directSeen[ty] || th) && (th || it.cost <= 2) {
			directSeen[ty] = true
			jobs = append(jobs, e.targetJob("direct:"+cl+":"+it.token, cl, it.cost, false, it.mkDirect(), nil, !th))
		}
		// legacy key manager: one key per type URL
		if (!kmSeen[it.pk.Type] || th) && (th || it.cost <= 2) {
			kmSeen[it.pk.Type] = true
			jobs = append(jobs, e.targetJob("km:"+cl+":"+it.token, cl, it.cost, false, it.mkKM(), nil, !th))
		}
	}
	return
}

func (e *engine) subtleJobs() (jobs []job) {
	for _, s := range subtleSpecs(e.seed) {
		jobs = append(jobs, e.targetJob("subtle:"+s.class+":"+s.name, s.class, s.cost, s.big, s.mk, s.extra, false))
	}
	return
}

// replayFilter reads the object ids named by the "!Q conc <id> …" lines of a replay file: a replay
// re-runs all batches of exactly those shared objects.
func replayFilter(path string) map[string]bool {
	b, err := os.ReadFile(path)
	if err != nil {
		return nil
	}
	f := map[string]bool{}
	for _, l := range strings.Split(string(b), "\n") {
		w := strings.Fields(strings.TrimPrefix(strings.TrimSpace(l), "# "))
		if len(w) >= 3 && w[0] == "!Q" && w[1] == "conc" && w[2] != "race-detector" {
			f[w[2]] = true
		}
	}
	if len(f) == 0 {
		return nil // a race-only replay: everything is run again
	}
	return f
}
