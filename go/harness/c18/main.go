//go:build verif

// placeholder: harness c18 is being written
package main

import "github.com/tink-crypto/tink-go/v2/internal/verifharness/hlib"

func main() {
	o := hlib.Open("c18")
	defer o.Close()
	o.Emit("B contract placeholder", "clean", true)
}
