//go:build verif

package main

// The batch engine: a target is ONE shared object (primitive, handle, key, registry) with a list
// of calls. Every call carries the result the same call gave when executed alone on that object
// (the sequential oracle, computed beforehand by a single goroutine). A window runs G goroutines
// which all perform every call of the target `reps` times, each in its own order, after a common
// start barrier, and records every result that differs from the oracle.
//
// hlib.Out is not goroutine-safe: goroutines of a window write only their own slices; a job
// collects its lines, counters and violations in a private report; the main goroutine replays the
// reports in job order. Jobs on DIFFERENT objects run in a few parallel lanes (the slow sequential
// oracles — SLH-DSA, RSA, P-521 — would otherwise leave 14 of 16 cores idle); an object is never
// touched by two jobs.

import (
	"bytes"
	"crypto/sha256"
	"encoding/hex"
	"fmt"
	"hash/fnv"
	"runtime"
	"sort"
	"strings"
	"sync"
	"time"

	"github.com/tink-crypto/tink-go/v2/internal/verifharness/hlib"
)

// call is one operation on the shared object with a fixed input.
type call struct {
	op   string // operation name (token, no spaces)
	in   []byte // the input shown in a divergence message
	hin  []byte // the seeded input hashed into the line (in itself when that is seeded)
	want string // canonical result of the same call executed alone
	// do performs the call and returns its canonical result. r is private to the calling
	// goroutine (chunk sizes, yields).
	do func(r *hlib.Rng) string
}

type target struct {
	id       string // stable token: <source>:<class>:<key name>
	class    string
	calls    []call
	cost     int    // 0 fast, 1 medium, 2 slow, 3 very slow
	fresh    func() // optional: replace the shared object by a newly constructed, never used one
	noSelf   bool   // the shared object must not be touched before the first window
	guardHit bool
	guard    []*guarded
}

type mismatch struct {
	g, idx    int
	op        string
	in        []byte
	got, want string
}

// guarded is an input slice with spare capacity behind it; the library must not write to either.
type guarded struct {
	s    []byte // len n, cap n+spare
	copy []byte // snapshot of s[:cap]
}

const spare = 8

// input draws n seeded bytes into a slice with spare capacity filled with a sentinel and registers
// it for the "inputs untouched" check.
func (t *target) input(r *hlib.Rng, n int) []byte {
	return t.guardBytes(r.Bytes(n))
}

func (t *target) guardBytes(b []byte) []byte {
	buf := make([]byte, len(b)+spare)
	copy(buf, b)
	for i := len(b); i < len(buf); i++ {
		buf[i] = 0xA5
	}
	g := &guarded{s: buf[:len(b)], copy: bytes.Clone(buf)}
	t.guard = append(t.guard, g)
	return g.s
}

func (t *target) add(op string, in []byte, want string, do func(r *hlib.Rng) string) {
	t.calls = append(t.calls, call{op: op, in: in, hin: in, want: want, do: do})
}

// addX is add for inputs that are not functions of the seed (ciphertexts, signatures, tags made
// with fresh randomness): `show` appears in a divergence message, the seeded `hin` (the plaintext
// or message behind it) is what the line's inputs hash covers.
func (t *target) addX(op string, show, hin []byte, want string, do func(r *hlib.Rng) string) {
	t.calls = append(t.calls, call{op: op, in: show, hin: hin, want: want, do: do})
}

// canon is the canonical form of an output: length, first bytes, digest.
func canon(b []byte) string {
	h := sha256.Sum256(b)
	n := len(b)
	if n > 12 {
		n = 12
	}
	return fmt.Sprintf("%d:%s:%s", len(b), hlib.Tok(b[:n]), hex.EncodeToString(h[:8]))
}

func errStr(err error) string {
	return trunc(err.Error(), 80)
}

func trunc(s string, n int) string {
	s = strings.ReplaceAll(strings.ReplaceAll(s, "\n", " "), "\r", " ")
	if len(s) > n {
		return s[:n] + "…"
	}
	return s
}

func safeDo(c *call, r *hlib.Rng) (res string) {
	defer func() {
		if p := recover(); p != nil {
			res = "panic:" + trunc(fmt.Sprint(p), 120)
		}
	}()
	return c.do(r)
}

// ---------------------------------------------------------------- reports and lanes

type report struct {
	lines  [][2]string
	counts map[string]int
	viol   []string
	class  string
	id     string
	dur    time.Duration
	wins   int
	calls  int
	div    int
}

func newReport(id, class string) *report {
	return &report{id: id, class: class, counts: map[string]int{}}
}

func (r *report) emit(line, res string)      { r.lines = append(r.lines, [2]string{line, res}) }
func (r *report) count(k string)             { r.counts[k]++ }
func (r *report) addn(k string, n int)       { r.counts[k] += n }
func (r *report) violate(f string, a ...any) { r.viol = append(r.viol, fmt.Sprintf(f, a...)) }

type job struct {
	id   string
	cost int
	run  func() *report
}

type engine struct {
	o       *hlib.Out
	seed    uint64
	start   time.Time
	classT  map[string]time.Duration
	nWin    int
	nCalls  int
	diverge int
	verbose bool
	filter  map[string]bool // -replay: only the objects named in the replay file
}

// runJobs executes the jobs in `lanes` parallel lanes (most expensive first) and replays their
// reports in the order of the slice.
func (e *engine) runJobs(jobs []job, lanes int) {
	reps := make([]*report, len(jobs))
	order := make([]int, len(jobs))
	for i := range order {
		order[i] = i
	}
	sort.SliceStable(order, func(a, b int) bool { return jobs[order[a]].cost > jobs[order[b]].cost })
	ch := make(chan int, len(jobs))
	for _, i := range order {
		if e.filter != nil && !e.filter[jobs[i].id] {
			continue
		}
		ch <- i
	}
	close(ch)
	var wg sync.WaitGroup
	for l := 0; l < lanes; l++ {
		wg.Add(1)
		go func() {
			defer wg.Done()
			for i := range ch {
				t0 := time.Now()
				var rep *report
				if p := hlib.Recover(func() { rep = jobs[i].run() }); p != "" {
					rep = newReport(jobs[i].id, "harness")
					rep.violate("panic in job %s: %s", jobs[i].id, trunc(p, 300))
				}
				if rep != nil {
					rep.dur = time.Since(t0)
				}
				reps[i] = rep
			}
		}()
	}
	wg.Wait()
	for _, rep := range reps {
		e.replay(rep)
	}
}

func (e *engine) replay(rep *report) {
	if rep == nil {
		return
	}
	o := e.o
	if len(rep.lines) > 0 || len(rep.viol) > 0 {
		o.Case()
	}
	for _, l := range rep.lines {
		o.Emit(l[0], l[1], true)
	}
	for k, n := range rep.counts {
		o.Hist[k] += n
	}
	for _, v := range rep.viol {
		o.Violate("%s", v)
	}
	e.classT[rep.class] += rep.dur
	e.nWin += rep.wins
	e.nCalls += rep.calls
	e.diverge += rep.div
	if e.verbose {
		fmt.Fprintf(logw, "c18: job %-64s %6.2fs %4d lines\n", rep.id, rep.dur.Seconds(), len(rep.lines))
	}
}

// ---------------------------------------------------------------- windows

// selfCheck runs every call once more, alone: the oracle must reproduce itself.
func selfCheck(rep *report, seed uint64, t *target) {
	r := hlib.NewRng(seed, "self/"+t.id)
	for i := range t.calls {
		c := &t.calls[i]
		if got := safeDo(c, r); got != c.want {
			rep.violate("sequential self-check failed (the call, alone on its object, does not reproduce its own result): %s %s input=%s got=%s want=%s",
				t.id, c.op, trunc(hlib.Tok(c.in), 64), trunc(got, 120), trunc(c.want, 120))
			rep.count("SEQ-SELFCHECK-FAILED")
		}
	}
}

// window runs one concurrent batch and emits one line per operation of the target.
func window(rep *report, seed uint64, t *target, G, reps int) {
	if len(t.calls) == 0 {
		return
	}
	n := len(t.calls) * reps
	orders := make([][]int, G)
	rngs := make([]*hlib.Rng, G)
	for g := 0; g < G; g++ {
		r := hlib.NewRng(seed, fmt.Sprintf("order/%s/%d/%d", t.id, G, g))
		ord := make([]int, 0, n)
		for k := 0; k < reps; k++ {
			for i := range t.calls {
				ord = append(ord, i)
			}
		}
		for i := len(ord) - 1; i > 0; i-- {
			j := r.Intn(i + 1)
			ord[i], ord[j] = ord[j], ord[i]
		}
		orders[g] = ord
		rngs[g] = r
	}
	bad := make([][]mismatch, G)
	startc := make(chan struct{})
	var wg sync.WaitGroup
	for g := 0; g < G; g++ {
		wg.Add(1)
		go func(g int) {
			defer wg.Done()
			r := rngs[g]
			<-startc
			for k, idx := range orders[g] {
				if r.Chance(35) {
					runtime.Gosched()
				}
				c := &t.calls[idx]
				got := safeDo(c, r)
				if got != c.want {
					if len(bad[g]) < 8 {
						bad[g] = append(bad[g], mismatch{g: g, idx: k, op: c.op, in: c.in, got: got, want: c.want})
					}
				}
			}
		}(g)
	}
	close(startc)
	wg.Wait()
	rep.wins++
	rep.calls += G * n

	// per operation: inputs hash, calls per goroutine, first mismatch
	type opInfo struct {
		m     int
		h     uint64
		first *mismatch
	}
	infos := map[string]*opInfo{}
	var names []string
	for i := range t.calls {
		c := &t.calls[i]
		oi := infos[c.op]
		if oi == nil {
			oi = &opInfo{}
			infos[c.op] = oi
			names = append(names, c.op)
		}
		oi.m += reps
		f := fnv.New64a()
		f.Write([]byte{byte(oi.h), byte(oi.h >> 8), byte(oi.h >> 16), byte(oi.h >> 24), byte(oi.h >> 32), byte(oi.h >> 40), byte(oi.h >> 48), byte(oi.h >> 56)})
		f.Write(c.hin)
		oi.h = f.Sum64()
	}
	for g := 0; g < G; g++ {
		for i := range bad[g] {
			m := &bad[g][i]
			if oi := infos[m.op]; oi.first == nil {
				oi.first = m
			}
		}
	}
	sort.Strings(names)
	for _, op := range names {
		oi := infos[op]
		line := fmt.Sprintf("!Q conc %s %s g=%d m=%d inputs=%08x", t.id, op, G, oi.m, uint32(oi.h)^uint32(oi.h>>32))
		res := "seq"
		if oi.first != nil {
			m := oi.first
			res = fmt.Sprintf("diverged:g=%d,call=%d,input=%s,got=%s,want=%s", m.g, m.idx, trunc(hlib.Tok(m.in), 64), trunc(m.got, 100), trunc(m.want, 100))
			res = strings.ReplaceAll(res, " ", "_")
			rep.div++
			rep.count("DIVERGED/" + t.class + "/" + op)
		}
		rep.emit(line, res)
		rep.count(fmt.Sprintf("batch/%s/%s/g%d", t.class, op, G))
		rep.addn("calls/"+t.class+"/"+op, G*oi.m)
	}
	checkGuards(rep, t)
}

// checkGuards verifies that no input (or the spare capacity behind it) was written to.
func checkGuards(rep *report, t *target) {
	n := 0
	first := ""
	for _, g := range t.guard {
		if !bytes.Equal(g.s[:cap(g.s)], g.copy) {
			if n == 0 {
				first = fmt.Sprintf("input of len %d cap %d: now %s, was %s", len(g.s), cap(g.s), tail(g.s[:cap(g.s)]), tail(g.copy))
			}
			n++
			copy(g.s[:cap(g.s)], g.copy)
		}
	}
	if n > 0 && !t.guardHit {
		t.guardHit = true
		rep.violate("INPUT MODIFIED: %s wrote into caller-owned input slices (%d of %d inputs; bytes behind len() count as the caller's); first: %s",
			t.id, n, len(t.guard), first)
		rep.count("INPUT-MODIFIED/" + t.class)
	}
}

// tail shows the last bytes of a buffer (where appends into spare capacity land).
func tail(b []byte) string {
	if len(b) > 2*spare {
		return "…" + hlib.Tok(b[len(b)-2*spare:])
	}
	return hlib.Tok(b)
}

// plan gives the goroutine counts and repetitions for a target of the given cost.
func plan(cost int, light bool) (gs []int, reps int) {
	th := hlib.Thorough()
	switch cost {
	case 0:
		gs, reps = []int{2, 8, 32}, hlib.N(1, 4)
	case 1:
		gs, reps = []int{2, 8, 32}, hlib.N(1, 2)
	case 2:
		gs, reps = []int{2, 8}, 1
		if th {
			gs = []int{2, 8, 32}
		}
	default:
		gs, reps = []int{2}, 1
		if th {
			gs = []int{2, 8}
		}
	}
	if light && !th && len(gs) > 1 {
		// secondary sources in the quick tier: the middle goroutine count only
		gs = gs[1:2]
	}
	if th && cost == 0 {
		gs = append(gs, 64)
	}
	return
}

// runTarget executes a target: oracle self-check, fresh object, windows.
func runTarget(rep *report, seed uint64, t *target, light bool) {
	if t == nil || len(t.calls) == 0 {
		return
	}
	if t.cost <= 1 && !light && !t.noSelf {
		selfCheck(rep, seed, t)
		checkGuards(rep, t)
	}
	if t.fresh != nil {
		t.fresh()
		rep.count("fresh-object-first-use-concurrent/" + t.class)
	}
	gs, reps := plan(t.cost, light)
	for _, G := range gs {
		window(rep, seed, t, G, reps)
	}
	rep.count("targets/" + t.class)
	rep.count("targets-by-source/" + strings.SplitN(t.id, ":", 2)[0])
}
