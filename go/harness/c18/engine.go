//go:build verif

package main

// The batch engine: a target is ONE shared primitive object (or ONE shared handle / key /
// registry) with a list of calls. Every call carries the result the same call gave when executed
// alone (the sequential oracle, computed beforehand on the main goroutine). A window runs G
// goroutines which all perform every call of the target `reps` times, each in its own order, after
// a common start barrier, and records every result that differs from the oracle. Nothing but the
// per-goroutine slices is written by the goroutines; lines are emitted by the main goroutine after
// wg.Wait().

import (
	"bytes"
	"crypto/sha256"
	"encoding/hex"
	"fmt"
	"hash/fnv"
	"runtime"
	"sort"
	"strings"
	"sync"
	"time"

	"github.com/tink-crypto/tink-go/v2/internal/verifharness/hlib"
)

// call is one operation on the shared object with a fixed input.
type call struct {
	op   string // operation name (token, no spaces)
	in   []byte // the input shown in a divergence message and hashed into the line
	want string // canonical result of the same call executed alone
	// do performs the call and returns its canonical result. r is private to the calling
	// goroutine (chunk sizes, yields).
	do func(r *hlib.Rng) string
}

type target struct {
	id    string // stable token: <source>:<class>:<key name>
	class string
	calls []call
	cost  int    // 0 fast, 1 medium, 2 slow, 3 very slow
	fresh func() // optional: replace the shared object by a newly constructed, never used one
	guard []*guarded
}

type mismatch struct {
	g, idx    int
	op        string
	in        []byte
	got, want string
}

// guarded is an input slice with spare capacity behind it; the library must not write to either.
type guarded struct {
	s    []byte // len n, cap n+spare
	copy []byte // snapshot of s[:cap]
}

const spare = 8

// input draws n seeded bytes into a slice with spare capacity filled with a sentinel and registers
// it for the "inputs untouched" check.
func (t *target) input(r *hlib.Rng, n int) []byte {
	return t.guardBytes(r.Bytes(n))
}

func (t *target) guardBytes(b []byte) []byte {
	buf := make([]byte, len(b)+spare)
	copy(buf, b)
	for i := len(b); i < len(buf); i++ {
		buf[i] = 0xA5
	}
	g := &guarded{s: buf[:len(b)], copy: bytes.Clone(buf)}
	t.guard = append(t.guard, g)
	return g.s
}

func (t *target) add(op string, in []byte, want string, do func(r *hlib.Rng) string) {
	t.calls = append(t.calls, call{op: op, in: in, want: want, do: do})
}

// canon is the canonical form of an output: length, first bytes, digest.
func canon(b []byte) string {
	h := sha256.Sum256(b)
	n := len(b)
	if n > 12 {
		n = 12
	}
	return fmt.Sprintf("%d:%s:%s", len(b), hlib.Tok(b[:n]), hex.EncodeToString(h[:8]))
}

func errStr(err error) string {
	s := err.Error()
	if len(s) > 80 {
		s = s[:80]
	}
	return strings.Map(func(r rune) rune {
		if r == '\n' || r == '\r' {
			return ' '
		}
		return r
	}, s)
}

func trunc(s string, n int) string {
	s = strings.ReplaceAll(strings.ReplaceAll(s, "\n", " "), "\r", " ")
	if len(s) > n {
		return s[:n] + "…"
	}
	return s
}

func safeDo(c *call, r *hlib.Rng) (res string) {
	defer func() {
		if p := recover(); p != nil {
			res = "panic:" + trunc(fmt.Sprint(p), 120)
		}
	}()
	return c.do(r)
}

type engine struct {
	o       *hlib.Out
	seed    uint64
	start   time.Time
	classT  map[string]time.Duration
	nWin    int
	nCalls  int
	diverge int
}

// selfCheck runs every call once on the main goroutine: the oracle must reproduce itself.
func (e *engine) selfCheck(t *target) bool {
	r := hlib.NewRng(e.seed, "self/"+t.id)
	ok := true
	for i := range t.calls {
		c := &t.calls[i]
		if got := safeDo(c, r); got != c.want {
			ok = false
			e.o.Violate("sequential self-check failed (not a concurrency result): %s %s input=%s got=%s want=%s",
				t.id, c.op, trunc(hlib.Tok(c.in), 64), trunc(got, 120), trunc(c.want, 120))
			e.o.Count("SEQ-SELFCHECK-FAILED")
		}
	}
	return ok
}

// window runs one concurrent batch and emits one line per operation of the target.
func (e *engine) window(t *target, G, reps int) {
	if len(t.calls) == 0 {
		return
	}
	n := len(t.calls) * reps
	orders := make([][]int, G)
	rngs := make([]*hlib.Rng, G)
	for g := 0; g < G; g++ {
		r := hlib.NewRng(e.seed, fmt.Sprintf("order/%s/%d/%d", t.id, G, g))
		ord := make([]int, 0, n)
		for k := 0; k < reps; k++ {
			for i := range t.calls {
				ord = append(ord, i)
			}
		}
		for i := len(ord) - 1; i > 0; i-- {
			j := r.Intn(i + 1)
			ord[i], ord[j] = ord[j], ord[i]
		}
		orders[g] = ord
		rngs[g] = r
	}
	bad := make([][]mismatch, G)
	startc := make(chan struct{})
	var wg sync.WaitGroup
	for g := 0; g < G; g++ {
		wg.Add(1)
		go func(g int) {
			defer wg.Done()
			r := rngs[g]
			<-startc
			for k, idx := range orders[g] {
				if r.Chance(35) {
					runtime.Gosched()
				}
				c := &t.calls[idx]
				got := safeDo(c, r)
				if got != c.want {
					if len(bad[g]) < 8 {
						bad[g] = append(bad[g], mismatch{g: g, idx: k, op: c.op, in: c.in, got: got, want: c.want})
					}
				}
			}
		}(g)
	}
	close(startc)
	wg.Wait()
	e.nWin++
	e.nCalls += G * n

	// per operation: inputs hash, calls per goroutine, first mismatch
	type opInfo struct {
		m     int
		h     uint64
		first *mismatch
		nbad  int
	}
	infos := map[string]*opInfo{}
	var names []string
	for i := range t.calls {
		c := &t.calls[i]
		oi := infos[c.op]
		if oi == nil {
			oi = &opInfo{}
			infos[c.op] = oi
			names = append(names, c.op)
		}
		oi.m += reps
		f := fnv.New64a()
		f.Write([]byte{byte(oi.h), byte(oi.h >> 8), byte(oi.h >> 16), byte(oi.h >> 24), byte(oi.h >> 32), byte(oi.h >> 40), byte(oi.h >> 48), byte(oi.h >> 56)})
		f.Write(c.in)
		oi.h = f.Sum64()
	}
	for g := 0; g < G; g++ {
		for i := range bad[g] {
			m := &bad[g][i]
			oi := infos[m.op]
			oi.nbad++
			if oi.first == nil {
				oi.first = m
			}
		}
	}
	sort.Strings(names)
	for _, op := range names {
		oi := infos[op]
		line := fmt.Sprintf("!Q conc %s %s g=%d m=%d inputs=%08x", t.id, op, G, oi.m, uint32(oi.h)^uint32(oi.h>>32))
		res := "seq"
		if oi.first != nil {
			m := oi.first
			res = fmt.Sprintf("diverged:g=%d,call=%d,input=%s,got=%s,want=%s", m.g, m.idx, trunc(hlib.Tok(m.in), 64), trunc(m.got, 100), trunc(m.want, 100))
			res = strings.ReplaceAll(res, " ", "_")
			e.diverge++
			e.o.Count("DIVERGED/" + t.class + "/" + op)
		}
		e.o.Emit(line, res, true)
		e.o.Count(fmt.Sprintf("batch/%s/%s/g%d", t.class, op, G))
		e.o.Hist["calls/"+t.class+"/"+op] += G * oi.m
	}
	e.checkGuards(t)
}

// checkGuards verifies that no input (or the spare capacity behind it) was written to.
func (e *engine) checkGuards(t *target) {
	for _, g := range t.guard {
		if !bytes.Equal(g.s[:cap(g.s)], g.copy) {
			e.o.Violate("INPUT MODIFIED: %s wrote into a caller-owned input slice (len %d, first bytes %s): now %s, was %s", t.id, len(g.s),
				trunc(hlib.Tok(g.copy), 32), trunc(hlib.Tok(g.s[:cap(g.s)]), 48), trunc(hlib.Tok(g.copy), 48))
			e.o.Count("INPUT-MODIFIED/" + t.class)
			copy(g.s[:cap(g.s)], g.copy)
		}
	}
}

// plan gives the goroutine counts, repetitions for a target of the given cost.
func plan(cost int, light bool) (gs []int, reps int) {
	th := hlib.Thorough()
	switch cost {
	case 0:
		gs, reps = []int{2, 8, 32}, hlib.N(1, 4)
	case 1:
		gs, reps = []int{2, 8, 32}, hlib.N(1, 2)
	case 2:
		gs, reps = []int{2, 8}, 1
		if th {
			gs = []int{2, 8, 32}
		}
	default:
		gs, reps = []int{2}, 1
		if th {
			gs = []int{2, 8}
		}
	}
	if light {
		// secondary sources in the quick tier: the middle goroutine count only
		if !th {
			if len(gs) > 1 {
				gs = gs[1:2]
			}
		}
	}
	if th && cost == 0 {
		gs = append(gs, 64)
	}
	return
}

// run executes a target: oracle self-check, fresh object, windows.
func (e *engine) run(t *target, light bool) {
	if t == nil || len(t.calls) == 0 {
		return
	}
	e.o.Case()
	if t.cost <= 1 && !light {
		e.selfCheck(t)
		e.checkGuards(t)
	}
	if t.fresh != nil {
		t.fresh()
		e.o.Count("fresh-object-first-use-concurrent/" + t.class)
	}
	gs, reps := plan(t.cost, light)
	for _, G := range gs {
		e.window(t, G, reps)
	}
	e.o.Count("targets/" + t.class)
	e.o.Count("targets-by-source/" + strings.SplitN(t.id, ":", 2)[0])
}
