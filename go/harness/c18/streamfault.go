//go:build verif

package main

// Error-path and retry histories of streaming writers / readers.
//
// Per-stream state must live in the writer / reader object. State that is recycled between streams (a sync.Pool of
// segment buffers, a package-level scratch buffer) is invisible as long as every stream ends the ordinary way; the
// release of such state typically sits on the paths nobody tests: Close() returning an error from the final flush,
// Close() called again (the usual `defer w.Close()` next to an explicit Close, or a retry), a Read that failed and is
// repeated. One call of this class therefore is a whole history on ONE shared StreamingAEAD:
//
//  1. a writer over a sink whose k-th Write fails once (every k up to the number of sink writes of the clean run,
//     the last one being the flush inside Close): Write the plaintext, Close, Close again, Close a third time;
//  2. a reader over a source whose j-th Read fails once: read to the end with retries;
//  3. then two fresh writers A and B, used interleaved (A.Write, B.Write, A.Write, … A.Close, B.Close) with different
//     plaintexts of the same length, and two fresh readers interleaved on the two ciphertexts: each stream must
//     decrypt to its own plaintext.
//
// The calls run concurrently from all goroutines of a window like every other call of the target (so that recycled
// state also crosses goroutines and the race detector sees it), and once alone for the sequential oracle.

import (
	"bytes"
	"errors"
	"fmt"
	"io"

	"github.com/tink-crypto/tink-go/v2/internal/verifharness/hlib"
	"github.com/tink-crypto/tink-go/v2/tink"
)

var errInjected = errors.New("c18: injected sink/source fault")

// faultyWriter fails its failAt-th Write call (1-based) once; every other call goes through.
type faultyWriter struct {
	buf    bytes.Buffer
	n      int
	failAt int
}

func (w *faultyWriter) Write(p []byte) (int, error) {
	w.n++
	if w.n == w.failAt {
		return 0, errInjected
	}
	return w.buf.Write(p)
}

// faultyReader fails its failAt-th Read call once.
type faultyReader struct {
	r      io.Reader
	n      int
	failAt int
}

func (r *faultyReader) Read(p []byte) (int, error) {
	r.n++
	if r.n == r.failAt {
		return 0, errInjected
	}
	return r.r.Read(p)
}

// countingWriter counts the Write calls of a clean run.
type countingWriter struct {
	buf bytes.Buffer
	n   int
}

func (w *countingWriter) Write(p []byte) (int, error) { w.n++; return w.buf.Write(p) }

func other(pt []byte) []byte {
	o := make([]byte, len(pt))
	for i, b := range pt {
		o[i] = ^b
	}
	return o
}

// faultedWriter: step 1. Nothing is asserted about the faulted stream itself (C07 does that); a panic is caught by
// the engine.
func faultedWriter(s tink.StreamingAEAD, pt, ad []byte, k int) {
	sink := &faultyWriter{failAt: k}
	w, err := s.NewEncryptingWriter(sink, ad)
	if err != nil {
		return
	}
	half := len(pt) / 2
	w.Write(pt[:half])
	w.Write(pt[half:])
	w.Close()
	w.Close()
	w.Close()
}

// faultedReader: step 2.
func faultedReader(s tink.StreamingAEAD, ct, ad []byte, j int) {
	src := &faultyReader{r: bytes.NewReader(ct), failAt: j}
	rd, err := s.NewDecryptingReader(src, ad)
	if err != nil {
		return
	}
	buf := make([]byte, 1500)
	fails := 0
	for i := 0; i < 4+len(ct)/100 && fails < 3; i++ {
		_, err := rd.Read(buf)
		if err == io.EOF {
			return
		}
		if err != nil {
			fails++ // retry
		}
	}
}

// interleavedStreams: step 3; "" = both streams are intact.
func interleavedStreams(s tink.StreamingAEAD, ptA, ptB, ad []byte, gr *hlib.Rng) string {
	var bufA, bufB bytes.Buffer
	wA, err := s.NewEncryptingWriter(&bufA, ad)
	if err != nil {
		return "writerA-err:" + errStr(err)
	}
	wB, err := s.NewEncryptingWriter(&bufB, ad)
	if err != nil {
		return "writerB-err:" + errStr(err)
	}
	for off := 0; off < len(ptA); {
		n := 1 + gr.Intn(700)
		if n > len(ptA)-off {
			n = len(ptA) - off
		}
		if _, err := wA.Write(ptA[off : off+n]); err != nil {
			return "writeA-err:" + errStr(err)
		}
		if gr.Chance(30) {
			yield()
		}
		if _, err := wB.Write(ptB[off : off+n]); err != nil {
			return "writeB-err:" + errStr(err)
		}
		off += n
	}
	if err := wA.Close(); err != nil {
		return "closeA-err:" + errStr(err)
	}
	if err := wB.Close(); err != nil {
		return "closeB-err:" + errStr(err)
	}
	rA, err := s.NewDecryptingReader(bytes.NewReader(bufA.Bytes()), ad)
	if err != nil {
		return "readerA-err:" + errStr(err)
	}
	rB, err := s.NewDecryptingReader(bytes.NewReader(bufB.Bytes()), ad)
	if err != nil {
		return "readerB-err:" + errStr(err)
	}
	var gotA, gotB []byte
	chunk := make([]byte, 900)
	doneA, doneB := false, false
	for i := 0; !(doneA && doneB); i++ {
		if i > 10+2*len(ptA) {
			return "readers-do-not-terminate"
		}
		if !doneA {
			n, err := rA.Read(chunk[:1+gr.Intn(len(chunk))])
			gotA = append(gotA, chunk[:n]...)
			if err == io.EOF {
				doneA = true
			} else if err != nil {
				return "readA-err:" + errStr(err)
			}
		}
		if !doneB {
			n, err := rB.Read(chunk[:1+gr.Intn(len(chunk))])
			gotB = append(gotB, chunk[:n]...)
			if err == io.EOF {
				doneB = true
			} else if err != nil {
				return "readB-err:" + errStr(err)
			}
		}
	}
	if !bytes.Equal(gotA, ptA) {
		if bytes.Equal(gotA, ptB) {
			return "streamA-decrypts-to-the-plaintext-of-streamB"
		}
		return "streamA-wrong-plaintext:" + canon(gotA)
	}
	if !bytes.Equal(gotB, ptB) {
		if bytes.Equal(gotB, ptA) {
			return "streamB-decrypts-to-the-plaintext-of-streamA"
		}
		return "streamB-wrong-plaintext:" + canon(gotB)
	}
	return ""
}

// addStreamFaults adds one call per fault position to the target.
func addStreamFaults(t *target, r *hlib.Rng, p *prims, L int) error {
	s := p.saead
	pt := t.input(r, L)
	ptB := other(pt)
	ad := t.input(r, 5)
	// clean run: number of sink writes, and a ciphertext for the faulted reader
	cw := &countingWriter{}
	w, err := s.NewEncryptingWriter(cw, ad)
	if err != nil {
		return oracleErr("streaming writer", err)
	}
	half := len(pt) / 2
	if _, err := w.Write(pt[:half]); err != nil {
		return oracleErr("streaming write", err)
	}
	if _, err := w.Write(pt[half:]); err != nil {
		return oracleErr("streaming write", err)
	}
	if err := w.Close(); err != nil {
		return oracleErr("streaming close", err)
	}
	ct := bytes.Clone(cw.buf.Bytes())
	last := cw.n
	ks := []int{last}
	for _, k := range []int{1, 2, last - 1} {
		if k >= 1 && k < last && !containsInt(ks, k) {
			ks = append(ks, k)
		}
	}
	if !hlib.Thorough() && len(ks) > 3 {
		ks = ks[:3]
	}
	for _, k := range ks {
		k := k
		in := []byte(fmt.Sprintf("fail-sink-write-%d-of-%d,len=%d", k, last, L))
		t.addX("stream-fault-retry", in, append(bytes.Clone(pt), byte(k)), "ok", func(gr *hlib.Rng) string {
			s := p.saead // the shared object of the window (replaced by a fresh one before the first window)
			faultedWriter(s, pt, ad, k)
			faultedReader(s, ct, ad, k)
			if why := interleavedStreams(s, pt, ptB, ad, gr); why != "" {
				return why
			}
			return "ok"
		})
	}
	return nil
}

func containsInt(xs []int, x int) bool {
	for _, y := range xs {
		if x == y {
			return true
		}
	}
	return false
}
