//go:build verif

package main

// Builder objects versus their products.
//
// keyset.Manager is a builder and documented as not safe for concurrent use; the handles it produces are immutable
// values shared freely between goroutines. That only holds if a handle shares no mutable state with the manager that
// made it (entries, annotations, …): "handles obtained earlier are unaffected by later manager operations". One
// target = ONE manager and the handles it produced before the window:
//
//	earlier-handle-*   every goroutine reads the shared earlier handles (annotations, entries, primary, key material)
//	                   without any lock; the oracle is the value right after Handle() returned;
//	manager-history    the manager keeps being used — by one goroutine at a time (a harness mutex stands for "the owner
//	                   of the builder"): SetAnnotations with other non-empty maps, Add, SetPrimary, Disable, Enable,
//	                   Delete, and a new Handle() whose annotations and length are compared with what was just set.
//
// A map or slice the manager rewrites in place after handing it to a handle shows twice: the earlier handle's reads
// diverge from the oracle, and the race detector reports the manager's write against the handle readers.

import (
	"fmt"
	"sort"
	"strings"
	"sync"

	"github.com/tink-crypto/tink-go/v2/aead"
	"github.com/tink-crypto/tink-go/v2/internal/internalapi"
	"github.com/tink-crypto/tink-go/v2/internal/verifharness/hlib"
	"github.com/tink-crypto/tink-go/v2/internal/verifharness/kslib"
	"github.com/tink-crypto/tink-go/v2/keyset"
	tinkpb "github.com/tink-crypto/tink-go/v2/proto/tink_go_proto"
)

func annotationsString(h *keyset.Handle) string {
	m := h.Annotations(internalapi.Token{})
	ks := make([]string, 0, len(m))
	for k, v := range m {
		ks = append(ks, k+"="+v)
	}
	sort.Strings(ks)
	return fmt.Sprintf("%d{%s}", len(m), strings.Join(ks, ","))
}

func mapString(m map[string]string) string {
	ks := make([]string, 0, len(m))
	for k, v := range m {
		ks = append(ks, k+"="+v)
	}
	sort.Strings(ks)
	return fmt.Sprintf("%d{%s}", len(m), strings.Join(ks, ","))
}

func (e *engine) builderTarget(id string, ks *tinkpb.Keyset) (*target, error) {
	h0, err, pan := kslib.ReadMem(ks)
	if err != nil || pan != "" {
		return nil, fmt.Errorf("handle: %v %s", err, pan)
	}
	m := keyset.NewManagerFromHandle(h0)
	first := map[string]string{"owner": "team-a", "env": "prod", "id": id}
	if err := m.SetAnnotations(first); err != nil {
		return nil, err
	}
	h1, err := m.Handle()
	if err != nil {
		return nil, err
	}
	// a second product, made after one more builder operation
	added, err := m.Add(aead.AES128GCMKeyTemplate())
	if err != nil {
		return nil, err
	}
	h2, err := m.Handle()
	if err != nil {
		return nil, err
	}
	if err := m.Delete(added); err != nil {
		return nil, err
	}
	t := &target{id: id, class: "builder", cost: 0}
	tok := func(s string) []byte { return []byte(id + "/" + s) }
	// mu stands for "the owner of the builder": manager operations hold it exclusively. Reads of a handle's annotation MAP
	// hold it shared: an unsynchronised map read during a map write is not a race report but an unrecoverable runtime
	// abort ("concurrent map read and map write") that would end the whole harness run; the value oracle still sees a
	// map the manager rewrote. All other handle reads take no lock (the race detector sees them).
	var mu sync.RWMutex
	for i, h := range []*keyset.Handle{h1, h2} {
		h := h
		name := fmt.Sprintf("earlier-handle%d", i+1)
		for _, rd := range []struct {
			op string
			f  func(h *keyset.Handle) string
		}{
			{"annotations", annotationsString},
			{"entries", entriesString},
			{"primary", primaryString},
			{"material", materialCanon},
		} {
			rd := rd
			t.add(name+"-"+rd.op, tok(name+"-"+rd.op), rd.f(h), func(*hlib.Rng) string {
				if rd.op == "annotations" {
					mu.RLock()
					defer mu.RUnlock()
				}
				return rd.f(h)
			})
		}
	}
	step := 0
	var extra uint32
	hasExtra := false
	primary := ks.GetPrimaryKeyId()
	t.add("manager-history", tok("manager-history"), "ok", func(*hlib.Rng) string {
		mu.Lock()
		defer mu.Unlock()
		step++
		want := map[string]string{"owner": fmt.Sprintf("team-%d", step), "ticket": fmt.Sprint(4711 + step)}
		if step%3 == 0 {
			want["third"] = "x"
		}
		if err := m.SetAnnotations(want); err != nil {
			return "SetAnnotations:" + errStr(err)
		}
		switch step % 4 {
		case 1:
			if !hasExtra {
				id, err := m.Add(aead.AES128GCMKeyTemplate())
				if err != nil {
					return "Add:" + errStr(err)
				}
				extra, hasExtra = id, true
			}
		case 2:
			if hasExtra {
				if err := m.SetPrimary(extra); err != nil {
					return "SetPrimary:" + errStr(err)
				}
				if err := m.SetPrimary(primary); err != nil {
					return "SetPrimary-back:" + errStr(err)
				}
			}
		case 3:
			if hasExtra {
				if err := m.Disable(extra); err != nil {
					return "Disable:" + errStr(err)
				}
				if err := m.Enable(extra); err != nil {
					return "Enable:" + errStr(err)
				}
			}
		case 0:
			if hasExtra {
				if err := m.Delete(extra); err != nil {
					return "Delete:" + errStr(err)
				}
				hasExtra = false
			}
		}
		h, err := m.Handle()
		if err != nil {
			return "Handle:" + errStr(err)
		}
		wantLen := h0.Len()
		if hasExtra {
			wantLen++
		}
		if h.Len() != wantLen {
			return fmt.Sprintf("new-handle-len=%d,want=%d", h.Len(), wantLen)
		}
		if got := annotationsString(h); got != mapString(want) {
			return "new-handle-annotations=" + got
		}
		return "ok"
	})
	return t, nil
}

func (e *engine) builderJobs(its []*item) (jobs []job) {
	seen := map[string]bool{}
	for _, it := range its {
		if seen[it.pk.Class] && !hlib.Thorough() {
			continue
		}
		if it.cost > 1 {
			continue
		}
		seen[it.pk.Class] = true
		it := it
		id := "builder:manager:" + it.pk.Class + ":" + it.token
		jobs = append(jobs, job{id: id, cost: 0, run: func() *report {
			rep := newReport(id, "builder")
			t, err := e.builderTarget(id, it.ks)
			if err != nil {
				rep.violate("builder target %s could not be built (harness): %v", id, err)
				return rep
			}
			runTarget(rep, e.seed, t, false)
			return rep
		}})
	}
	return
}
