//go:build verif

package main

// The legacy subtle constructors, one key each, through the same class oracles.

import (
	"bytes"
	"crypto/ed25519"
	"crypto/elliptic"
	"fmt"

	"github.com/tink-crypto/tink-go/v2/aead/aesgcm"
	aeadsubtle "github.com/tink-crypto/tink-go/v2/aead/subtle"
	daeadsubtle "github.com/tink-crypto/tink-go/v2/daead/subtle"
	"github.com/tink-crypto/tink-go/v2/hybrid/ecies"
	hybridsubtle "github.com/tink-crypto/tink-go/v2/hybrid/subtle"
	"github.com/tink-crypto/tink-go/v2/internal/verifharness/hlib"
	kwpsubtle "github.com/tink-crypto/tink-go/v2/kwp/subtle"
	macsubtle "github.com/tink-crypto/tink-go/v2/mac/subtle"
	prfsubtle "github.com/tink-crypto/tink-go/v2/prf/subtle"
	sigsubtle "github.com/tink-crypto/tink-go/v2/signature/subtle"
	streamsubtle "github.com/tink-crypto/tink-go/v2/streamingaead/subtle"
	"github.com/tink-crypto/tink-go/v2/tink"
)

type subtleSpec struct {
	name  string
	class string
	cost  int
	big   bool
	mk    maker
	extra func(t *target, r *hlib.Rng, p *prims) error
}

// only* hide the extra methods a subtle object may have, so that assign-by-class is unambiguous.
func subtleSpecs(seed uint64) []subtleSpec {
	r := hlib.NewRng(seed, "subtle-keys")
	k16, k32, k64 := r.Bytes(16), r.Bytes(32), r.Bytes(64)
	edSeed := r.Bytes(32)
	var out []subtleSpec
	add := func(name, class string, cost int, big bool, mk maker) {
		out = append(out, subtleSpec{name: name, class: class, cost: cost, big: big, mk: mk})
	}
	A := func(f func() (tink.AEAD, error)) maker {
		return func() (*prims, error) {
			a, err := f()
			if err != nil {
				return nil, err
			}
			return &prims{aead: a}, nil
		}
	}
	add("AESGCM-128", "aead", 0, true, A(func() (tink.AEAD, error) { return aeadsubtle.NewAESGCM(k16) }))
	add("AESGCM-256", "aead", 0, false, A(func() (tink.AEAD, error) { return aeadsubtle.NewAESGCM(k32) }))
	add("AESGCMSIV-128", "aead", 0, true, A(func() (tink.AEAD, error) { return aeadsubtle.NewAESGCMSIV(k16) }))
	add("AESGCMSIV-256", "aead", 0, false, A(func() (tink.AEAD, error) { return aeadsubtle.NewAESGCMSIV(k32) }))
	add("ChaCha20Poly1305", "aead", 0, true, A(func() (tink.AEAD, error) { return aeadsubtle.NewChaCha20Poly1305(k32) }))
	add("XChaCha20Poly1305", "aead", 0, true, A(func() (tink.AEAD, error) { return aeadsubtle.NewXChaCha20Poly1305(k32) }))
	add("EncryptThenAuthenticate-AESCTR128-HMACSHA256", "aead", 0, true, A(func() (tink.AEAD, error) {
		ctr, err := aeadsubtle.NewAESCTR(k16, 16)
		if err != nil {
			return nil, err
		}
		m, err := macsubtle.NewHMAC("SHA256", k32, 16)
		if err != nil {
			return nil, err
		}
		return aeadsubtle.NewEncryptThenAuthenticate(ctr, m, 16)
	}))
	add("EncryptThenAuthenticate-AESCTR256-HMACSHA512", "aead", 0, false, A(func() (tink.AEAD, error) {
		ctr, err := aeadsubtle.NewAESCTR(k32, 12)
		if err != nil {
			return nil, err
		}
		m, err := macsubtle.NewHMAC("SHA512", k64, 32)
		if err != nil {
			return nil, err
		}
		return aeadsubtle.NewEncryptThenAuthenticate(ctr, m, 32)
	}))
	M := func(f func() (tink.MAC, error)) maker {
		return func() (*prims, error) {
			m, err := f()
			if err != nil {
				return nil, err
			}
			return &prims{mac: m}, nil
		}
	}
	add("HMAC-SHA1-10", "mac", 0, false, M(func() (tink.MAC, error) { return macsubtle.NewHMAC("SHA1", k16, 10) }))
	add("HMAC-SHA224-16", "mac", 0, false, M(func() (tink.MAC, error) { return macsubtle.NewHMAC("SHA224", k32, 16) }))
	add("HMAC-SHA256-32", "mac", 0, true, M(func() (tink.MAC, error) { return macsubtle.NewHMAC("SHA256", k32, 32) }))
	add("HMAC-SHA384-48", "mac", 0, false, M(func() (tink.MAC, error) { return macsubtle.NewHMAC("SHA384", k32, 48) }))
	add("HMAC-SHA512-64", "mac", 0, true, M(func() (tink.MAC, error) { return macsubtle.NewHMAC("SHA512", k64, 64) }))
	add("AESCMAC-256-16", "mac", 0, true, M(func() (tink.MAC, error) { return macsubtle.NewAESCMAC(k32, 16) }))
	add("AESCMAC-256-10", "mac", 0, false, M(func() (tink.MAC, error) { return macsubtle.NewAESCMAC(k32, 10) }))
	P := func(f func() (prfIface, error)) maker {
		return func() (*prims, error) {
			x, err := f()
			if err != nil {
				return nil, err
			}
			return &prims{prf: x}, nil
		}
	}
	add("AESCMACPRF-256", "prf", 0, true, P(func() (prfIface, error) { return prfsubtle.NewAESCMACPRF(k32) }))
	add("HKDFPRF-SHA256", "prf", 0, true, P(func() (prfIface, error) { return prfsubtle.NewHKDFPRF("SHA256", k32, nil) }))
	add("HKDFPRF-SHA512-salt", "prf", 0, false, P(func() (prfIface, error) { return prfsubtle.NewHKDFPRF("SHA512", k32, []byte("c18 salt")) }))
	add("HMACPRF-SHA256", "prf", 0, true, P(func() (prfIface, error) { return prfsubtle.NewHMACPRF("SHA256", k32) }))
	add("HMACPRF-SHA512", "prf", 0, false, P(func() (prfIface, error) { return prfsubtle.NewHMACPRF("SHA512", k64) }))
	add("AESSIV-512", "daead", 0, true, func() (*prims, error) {
		d, err := daeadsubtle.NewAESSIV(k64)
		if err != nil {
			return nil, err
		}
		return &prims{daead: d}, nil
	})
	for _, c := range []struct {
		name, hash, curve, enc string
		cost                   int
		keyLen                 int
	}{
		{"ECDSA-P256-SHA256-DER", "SHA256", "NIST_P256", "DER", 0, 32},
		{"ECDSA-P256-SHA256-IEEE", "SHA256", "NIST_P256", "IEEE_P1363", 0, 32},
		{"ECDSA-P384-SHA512-IEEE", "SHA512", "NIST_P384", "IEEE_P1363", 1, 48},
		{"ECDSA-P521-SHA512-DER", "SHA512", "NIST_P521", "DER", 1, 66},
	} {
		c := c
		kb := r.Bytes(c.keyLen)
		kb[0] = 0 // below the group order
		kb[1] &= 0x7f
		add(c.name, "sig", c.cost, c.cost == 0, func() (*prims, error) {
			s, err := sigsubtle.NewECDSASigner(c.hash, c.curve, c.enc, kb)
			if err != nil {
				return nil, err
			}
			cv, err := hybridsubtle.GetCurve(c.curve)
			if err != nil {
				return nil, err
			}
			x, y := cv.ScalarBaseMult(kb)
			v, err := sigsubtle.NewECDSAVerifier(c.hash, c.curve, c.enc, x.Bytes(), y.Bytes())
			if err != nil {
				return nil, err
			}
			return &prims{signer: s, verifier: v}, nil
		})
	}
	add("ED25519", "sig", 0, true, func() (*prims, error) {
		s, err := sigsubtle.NewED25519Signer(edSeed)
		if err != nil {
			return nil, err
		}
		pub := ed25519Pub(edSeed)
		v, err := sigsubtle.NewED25519Verifier(pub)
		if err != nil {
			return nil, err
		}
		return &prims{signer: s, verifier: v}, nil
	})
	// ECIES: the DEM helper of the library (hook VerifNewDEMHelper), AES128-GCM DEM
	for _, c := range []struct {
		name, curve, hash, fmt string
		cost                   int
	}{
		{"ECIES-P256-SHA256-uncompressed-AES128GCM", "NIST_P256", "SHA256", "UNCOMPRESSED", 0},
		{"ECIES-P384-SHA512-compressed-AES128GCM", "NIST_P384", "SHA512", "COMPRESSED", 1},
	} {
		c := c
		var cv elliptic.Curve
		switch c.curve {
		case "NIST_P256":
			cv = elliptic.P256()
		default:
			cv = elliptic.P384()
		}
		kb := r.Bytes((cv.Params().BitSize + 7) / 8)
		kb[0] &= 0x7f
		salt := r.Bytes(8)
		add(c.name, "hyb", c.cost, c.cost == 0, func() (*prims, error) {
			demParams, err := aesgcm.NewParameters(aesgcm.ParametersOpts{KeySizeInBytes: 16, IVSizeInBytes: 12, TagSizeInBytes: 16, Variant: aesgcm.VariantNoPrefix})
			if err != nil {
				return nil, err
			}
			dem, err := ecies.VerifNewDEMHelper(demParams)
			if err != nil {
				return nil, err
			}
			pvt := hybridsubtle.GetECPrivateKey(cv, kb)
			d, err := hybridsubtle.NewECIESAEADHKDFHybridDecrypt(pvt, salt, c.hash, c.fmt, dem)
			if err != nil {
				return nil, err
			}
			e, err := hybridsubtle.NewECIESAEADHKDFHybridEncrypt(&pvt.PublicKey, salt, c.hash, c.fmt, dem)
			if err != nil {
				return nil, err
			}
			return &prims{henc: e, hdec: d}, nil
		})
	}
	add("AESGCMHKDF-128-SHA256-seg4096", "saead", 0, true, func() (*prims, error) {
		s, err := streamsubtle.NewAESGCMHKDF(k16, "SHA256", 16, 4096, 0)
		if err != nil {
			return nil, err
		}
		return &prims{saead: s}, nil
	})
	add("AESGCMHKDF-256-SHA512-seg512-off7", "saead", 0, false, func() (*prims, error) {
		s, err := streamsubtle.NewAESGCMHKDF(k32, "SHA512", 32, 512, 7)
		if err != nil {
			return nil, err
		}
		return &prims{saead: s}, nil
	})
	add("AESCTRHMAC-128-SHA256-tag16-seg4096", "saead", 0, true, func() (*prims, error) {
		s, err := streamsubtle.NewAESCTRHMAC(k16, "SHA256", 16, "SHA256", 16, 4096, 0)
		if err != nil {
			return nil, err
		}
		return &prims{saead: s}, nil
	})
	add("AESCTRHMAC-256-SHA512-tag32-seg1024-off3", "saead", 0, false, func() (*prims, error) {
		s, err := streamsubtle.NewAESCTRHMAC(k32, "SHA512", 32, "SHA512", 32, 1024, 3)
		if err != nil {
			return nil, err
		}
		return &prims{saead: s}, nil
	})
	// no class oracle fits these two: custom calls
	out = append(out, subtleSpec{name: "AESCTR-128-iv16", class: "indcpa", cost: 0, mk: func() (*prims, error) { return &prims{}, nil },
		extra: func(t *target, r *hlib.Rng, _ *prims) error {
			c, err := aeadsubtle.NewAESCTR(k16, 16)
			if err != nil {
				return err
			}
			for _, L := range lensFor(0, true) {
				pt := t.input(r, L)
				ct0, err := c.Encrypt(pt)
				if err != nil {
					return oracleErr("AESCTR.Encrypt", err)
				}
				ct := t.guardBytes(ct0)
				t.add("ctr-enc-dec", pt, "ok", func(*hlib.Rng) string {
					x, err := c.Encrypt(pt)
					if err != nil {
						return "enc-err:" + errStr(err)
					}
					got, err := c.Decrypt(x)
					if err != nil {
						return "dec-err:" + errStr(err)
					}
					if !bytes.Equal(got, pt) {
						return "wrong-plaintext:" + canon(got)
					}
					return "ok"
				})
				t.addX("ctr-dec-fixed", ct, pt, canon(pt), func(*hlib.Rng) string {
					got, err := c.Decrypt(ct)
					if err != nil {
						return "err:" + errStr(err)
					}
					return canon(got)
				})
			}
			return nil
		}})
	out = append(out, subtleSpec{name: "KWP-256", class: "kwp", cost: 0, mk: func() (*prims, error) { return &prims{}, nil },
		extra: func(t *target, r *hlib.Rng, _ *prims) error {
			w, err := kwpsubtle.NewKWP(k32)
			if err != nil {
				return err
			}
			for _, L := range []int{16, 17, 31, 32, 64, 255, 1000, 4096} {
				pt := t.input(r, L)
				ct0, err := w.Wrap(pt)
				if err != nil {
					return oracleErr("KWP.Wrap", err)
				}
				ct := t.guardBytes(ct0)
				bad := t.guardBytes(flip(r, ct0))
				t.add("wrap", pt, canon(ct0), func(*hlib.Rng) string {
					x, err := w.Wrap(pt)
					if err != nil {
						return "err:" + errStr(err)
					}
					return canon(x)
				})
				t.addX("unwrap-fixed", ct, pt, canon(pt), func(*hlib.Rng) string {
					x, err := w.Unwrap(ct)
					if err != nil {
						return "err:" + errStr(err)
					}
					return canon(x)
				})
				t.addX("unwrap-bad", bad, pt, "err", func(*hlib.Rng) string {
					x, err := w.Unwrap(bad)
					if err != nil {
						return "err"
					}
					return "accepted:" + canon(x)
				})
			}
			return nil
		}})
	return out
}

type prfIface interface {
	ComputePRF(input []byte, outputLength uint32) ([]byte, error)
}

func ed25519Pub(seed []byte) []byte {
	return []byte(ed25519.NewKeyFromSeed(seed).Public().(ed25519.PublicKey))
}

var _ = fmt.Sprint
