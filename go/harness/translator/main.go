//go:build verif

// Translator: re-emits Lean definitions from tink-go's current source for straight-line integer code
// and tables (ML-DSA scalar arithmetic, POLYVAL), using go/parser + go/types. It refuses constructs it
// does not know instead of guessing. Run with cwd=/repo:  translator -pkg internal/signature/mldsa -out f.lean
//
// The output is alpha-normalised: it does not depend on the NAMES of Go locals and parameters, on
// comments, blank lines, panic texts, nor on the order of independent assignments.
//   - parameters (receiver first) are named by position: a0, a1, ...
//   - every assignment to a local (SSA version) becomes an auxiliary definition `fn.v<k> a0 a1 ...`;
//     k is the position in the CANONICAL order of the function's definitions: a topological order of
//     the data-flow graph in which, among the definitions whose operands are already numbered, the one
//     with the smallest text (type + expression over canonical names) comes first. Definitions are
//     pure and total, so neither hoisting them out of branches nor reordering changes any value.
//   - function, constant, struct-field and table names are structural and stay.
//   - a comment before every function maps canonical names to the Go names and source lines.
package main

import (
	"flag"
	"fmt"
	"go/ast"
	"go/constant"
	"go/importer"
	"go/parser"
	"go/token"
	"go/types"
	"os"
	"path/filepath"
	"regexp"
	"sort"
	"strconv"
	"strings"
)

// ldef is one auxiliary definition (one SSA version of a Go local, or a tuple temporary).
type ldef struct {
	goName string // Go local name ("" for the temporary holding a multi-value call result)
	legacy string // name under the former naming scheme (Go name, _2, _3 ... for later versions); -renames only
	pos    token.Pos
	ty     string
	val    string // Lean expression; other auxiliary definitions appear as placeholders \x01<id>\x02
	canon  int    // canonical index, 1-based (0 = not yet numbered)
}

type tr struct {
	fset  *token.FileSet
	info  *types.Info
	pkg   *types.Package
	funcs map[string]bool // names of functions being translated (callable)
	errs  []string
	ns    string
	// per-function state: every assignment to a local becomes an auxiliary definition `fn.v<k> params`
	curFn       string
	binders     string                  // "(a0 : Nat) (a1 : Nat)"
	args        string                  // "a0 a1"
	env         map[types.Object]string // Go local/parameter object -> Lean expression
	legacyCount map[string]int
	defs        []*ldef
	renames     []string // "old new" lines (former name -> canonical name), for the one-off proof migration
}

var phRe = regexp.MustCompile("\x01([0-9]+)\x02")

func ph(id int) string { return "\x01" + strconv.Itoa(id) + "\x02" }

// objOf: the object an identifier defines or refers to (nil for the blank identifier)
func (t *tr) objOf(id *ast.Ident) types.Object {
	if o := t.info.Defs[id]; o != nil {
		return o
	}
	return t.info.Uses[id]
}

// define records an auxiliary definition for a new version of a local variable; later uses of obj name it.
func (t *tr) define(obj types.Object, goName string, pos token.Pos, ty string, value string) string {
	lg := goName
	if lg == "" {
		lg = "tup"
	}
	t.legacyCount[lg]++
	if t.legacyCount[lg] > 1 {
		lg = fmt.Sprintf("%s_%d", lg, t.legacyCount[lg])
	}
	id := len(t.defs)
	t.defs = append(t.defs, &ldef{goName: goName, legacy: lg, pos: pos, ty: ty, val: value})
	ref := ph(id)
	if t.args != "" {
		ref = "(" + ph(id) + " " + t.args + ")"
	}
	if obj != nil {
		t.env[obj] = ref
	}
	return ref
}

// canonicalise numbers the definitions of the current function (see the package comment) and returns
// a function replacing the placeholders by canonical names.
func (t *tr) canonicalise() func(string) string {
	n := len(t.defs)
	deps := make([][]int, n)
	for i, d := range t.defs {
		for _, m := range phRe.FindAllStringSubmatch(d.val, -1) {
			k, _ := strconv.Atoi(m[1])
			deps[i] = append(deps[i], k)
		}
	}
	subst := func(s string) string {
		return phRe.ReplaceAllStringFunc(s, func(m string) string {
			k, _ := strconv.Atoi(m[1 : len(m)-1])
			return fmt.Sprintf("%s.v%d", t.curFn, t.defs[k].canon)
		})
	}
	for next := 1; next <= n; next++ {
		best, bestKey := -1, ""
		for i, d := range t.defs {
			if d.canon != 0 {
				continue
			}
			ready := true
			for _, k := range deps[i] {
				if t.defs[k].canon == 0 {
					ready = false
					break
				}
			}
			if !ready {
				continue
			}
			key := d.ty + "\x00" + subst(d.val)
			if best < 0 || key < bestKey {
				best, bestKey = i, key
			}
		}
		if best < 0 { // cannot happen: a definition only mentions earlier ones
			t.errs = append(t.errs, "cyclic definitions in "+t.curFn)
			break
		}
		t.defs[best].canon = next
	}
	return subst
}

func (t *tr) fail(n ast.Node, format string, a ...any) string {
	msg := fmt.Sprintf("%s: %s", t.fset.Position(n.Pos()), fmt.Sprintf(format, a...))
	t.errs = append(t.errs, msg)
	return "(UNSUPPORTED)"
}

// kind of a Go type as far as the translation cares: unsigned width / signed width
func kindOf(ty types.Type) (signed bool, width int, ok bool) {
	b, isB := ty.Underlying().(*types.Basic)
	if !isB {
		return false, 0, false
	}
	switch b.Kind() {
	case types.Uint8:
		return false, 8, true
	case types.Uint16:
		return false, 16, true
	case types.Uint32:
		return false, 32, true
	case types.Uint64, types.Uint, types.Uintptr:
		return false, 64, true
	case types.Int32:
		return true, 32, true
	case types.Int, types.Int64:
		return true, 64, true
	case types.UntypedInt:
		return true, 0, true
	}
	return false, 0, false
}

func pow2(w int) string { return fmt.Sprintf("%s", new(bigInt).exp2(w)) }

type bigInt struct{}

func (b *bigInt) exp2(w int) string {
	v := constant.Shift(constant.MakeInt64(1), token.SHL, uint(w))
	return v.ExactString()
}

func (t *tr) constLit(e ast.Expr) (string, bool) {
	tv, ok := t.info.Types[e]
	if !ok || tv.Value == nil {
		return "", false
	}
	if tv.Value.Kind() != constant.Int {
		return "", false
	}
	s := tv.Value.ExactString()
	signed, _, ok2 := kindOf(tv.Type)
	if !ok2 {
		return "", false
	}
	if signed {
		if strings.HasPrefix(s, "-") {
			return "(" + s + " : Int)", true
		}
		return "(" + s + " : Int)", true
	}
	return "(" + s + " : Nat)", true
}

func (t *tr) expr(e ast.Expr) string {
	if lit, ok := t.constLit(e); ok {
		return lit
	}
	switch x := e.(type) {
	case *ast.ParenExpr:
		return t.expr(x.X)
	case *ast.Ident:
		obj := t.objOf(x)
		if v, ok := t.env[obj]; ok && obj != nil {
			return v
		}
		if obj != nil && obj.Parent() != t.pkg.Scope() && obj.Parent() != types.Universe {
			// a local that has no definition here (named result, closure variable, ...)
			return t.fail(e, "local %s without a translated definition", x.Name)
		}
		return leanName(x.Name)
	case *ast.SelectorExpr:
		// struct field access on a translated struct value
		if _, ok := t.info.Selections[x]; ok {
			return "(" + t.expr(x.X) + ")." + x.Sel.Name
		}
		return t.fail(e, "selector %s", x.Sel.Name)
	case *ast.BinaryExpr:
		return t.binary(x)
	case *ast.CallExpr:
		return t.call(x)
	case *ast.CompositeLit:
		// fieldElement{lo: a, hi: b}
		var fs []string
		for _, el := range x.Elts {
			kv, ok := el.(*ast.KeyValueExpr)
			if !ok {
				return t.fail(e, "composite literal without keys")
			}
			fs = append(fs, fmt.Sprintf("%s := %s", kv.Key.(*ast.Ident).Name, t.expr(kv.Value)))
		}
		return "{ " + strings.Join(fs, ", ") + " }"
	}
	return t.fail(e, "expression %T", e)
}

func (t *tr) binary(x *ast.BinaryExpr) string {
	ty := t.info.TypeOf(x)
	a, b := t.expr(x.X), t.expr(x.Y)
	switch x.Op {
	case token.EQL:
		return fmt.Sprintf("(%s = %s)", a, b)
	case token.NEQ:
		return fmt.Sprintf("(%s ≠ %s)", a, b)
	case token.LSS:
		return fmt.Sprintf("(%s < %s)", a, b)
	case token.GTR:
		return fmt.Sprintf("(%s > %s)", a, b)
	case token.LEQ:
		return fmt.Sprintf("(%s ≤ %s)", a, b)
	case token.GEQ:
		return fmt.Sprintf("(%s ≥ %s)", a, b)
	case token.LAND:
		return fmt.Sprintf("(%s ∧ %s)", a, b)
	case token.LOR:
		return fmt.Sprintf("(%s ∨ %s)", a, b)
	}
	signed, w, ok := kindOf(ty)
	if !ok || signed || w == 0 {
		return t.fail(x, "arithmetic on type %s", ty)
	}
	m := pow2(w)
	switch x.Op {
	case token.ADD:
		return fmt.Sprintf("((%s + %s) %% %s)", a, b, m)
	case token.SUB:
		return fmt.Sprintf("((%s + %s - %s) %% %s)", a, m, b, m)
	case token.MUL:
		return fmt.Sprintf("((%s * %s) %% %s)", a, b, m)
	case token.QUO:
		return fmt.Sprintf("(%s / %s)", a, b)
	case token.REM:
		return fmt.Sprintf("(%s %% %s)", a, b)
	case token.SHR:
		return fmt.Sprintf("(%s >>> %s)", a, t.shiftCount(x.Y))
	case token.SHL:
		return fmt.Sprintf("((%s <<< %s) %% %s)", a, t.shiftCount(x.Y), m)
	case token.AND:
		return fmt.Sprintf("(%s &&& %s)", a, b)
	case token.OR:
		return fmt.Sprintf("(%s ||| %s)", a, b)
	case token.XOR:
		return fmt.Sprintf("(%s ^^^ %s)", a, b)
	}
	return t.fail(x, "operator %s", x.Op)
}

func (t *tr) shiftCount(e ast.Expr) string {
	tv := t.info.Types[e]
	if tv.Value != nil {
		return tv.Value.ExactString()
	}
	return t.expr(e)
}

func (t *tr) call(c *ast.CallExpr) string {
	// conversion?
	if tv, ok := t.info.Types[c.Fun]; ok && tv.IsType() {
		if len(c.Args) != 1 {
			return t.fail(c, "conversion arity")
		}
		src := t.info.TypeOf(c.Args[0])
		dst := tv.Type
		ss, sw, ok1 := kindOf(src)
		ds, dw, ok2 := kindOf(dst)
		if !ok1 || !ok2 {
			return t.fail(c, "conversion %s -> %s", src, dst)
		}
		a := t.expr(c.Args[0])
		switch {
		case !ss && !ds: // unsigned -> unsigned
			if dw < sw {
				return fmt.Sprintf("(%s %% %s)", a, pow2(dw))
			}
			return a
		case !ss && ds: // unsigned -> signed (two's complement of the low dw bits)
			if sw < dw {
				return fmt.Sprintf("(Int.ofNat %s)", a)
			}
			return fmt.Sprintf("(GoSem.toSigned %d %s)", dw, a)
		case ss && !ds: // signed -> unsigned
			return fmt.Sprintf("(GoSem.toUnsigned %d %s)", dw, a)
		default:
			return t.fail(c, "signed -> signed conversion")
		}
	}
	switch f := c.Fun.(type) {
	case *ast.SelectorExpr:
		// package function (crypto/subtle) or method call
		if id, ok := f.X.(*ast.Ident); ok {
			if pn, ok := t.info.Uses[id].(*types.PkgName); ok {
				if pn.Imported().Path() == "crypto/subtle" {
					var args []string
					for _, a := range c.Args {
						args = append(args, t.expr(a))
					}
					switch f.Sel.Name {
					case "ConstantTimeLessOrEq":
						return fmt.Sprintf("(GoSem.ctLessOrEq %s)", strings.Join(args, " "))
					case "ConstantTimeSelect":
						return fmt.Sprintf("(GoSem.ctSelect %s)", strings.Join(args, " "))
					case "ConstantTimeEq":
						return fmt.Sprintf("(GoSem.ctEq %s)", strings.Join(args, " "))
					}
				}
				return t.fail(c, "call to %s.%s", pn.Imported().Path(), f.Sel.Name)
			}
		}
		if !t.funcs[f.Sel.Name] {
			return t.fail(c, "call of untranslated method %s", f.Sel.Name)
		}
		args := []string{t.expr(f.X)}
		for _, a := range c.Args {
			args = append(args, t.expr(a))
		}
		return fmt.Sprintf("(%s %s)", leanName(f.Sel.Name), strings.Join(args, " "))
	case *ast.Ident:
		if f.Name == "panic" {
			return "GoSem.goPanic"
		}
		if !t.funcs[f.Name] {
			return t.fail(c, "call of untranslated function %s", f.Name)
		}
		var args []string
		for _, a := range c.Args {
			args = append(args, t.expr(a))
		}
		return fmt.Sprintf("(%s %s)", leanName(f.Name), strings.Join(args, " "))
	}
	return t.fail(c, "call %T", c.Fun)
}

func leanName(s string) string {
	switch s {
	case "at", "from", "end", "open", "then", "do", "fun", "let", "have", "show", "by", "if", "else", "in":
		return s + "'"
	}
	return s
}

// block translates a statement list into a Lean term (the function's result).
func (t *tr) block(stmts []ast.Stmt, indent string) string {
	if len(stmts) == 0 {
		return "GoSem.goPanic"
	}
	s := stmts[0]
	rest := stmts[1:]
	switch x := s.(type) {
	case *ast.DeclStmt:
		// const declarations are inlined by value
		if gd, ok := x.Decl.(*ast.GenDecl); ok && gd.Tok == token.CONST {
			return t.block(rest, indent)
		}
		return t.fail(s, "declaration")
	case *ast.AssignStmt:
		if x.Tok == token.DEFINE || x.Tok == token.ASSIGN {
			if len(x.Rhs) == 1 && len(x.Lhs) >= 1 {
				rhsTy := t.info.TypeOf(x.Rhs[0])
				if len(x.Lhs) == 1 {
					switch lv := x.Lhs[0].(type) {
					case *ast.Ident:
						val := t.expr(x.Rhs[0])
						if lv.Name != "_" {
							t.define(t.objOf(lv), lv.Name, lv.Pos(), t.leanType(rhsTy), val)
						}
						return t.block(rest, indent)
					case *ast.SelectorExpr:
						// x.f = e  →  new version of x with field f replaced
						base, ok := lv.X.(*ast.Ident)
						if !ok {
							return t.fail(s, "field assignment on a non-variable")
						}
						val := fmt.Sprintf("{ %s with %s := %s }", t.expr(lv.X), lv.Sel.Name, t.expr(x.Rhs[0]))
						t.define(t.objOf(base), base.Name, lv.Pos(), t.leanType(t.info.TypeOf(lv.X)), val)
						return t.block(rest, indent)
					default:
						return t.fail(s, "assignment target %T", lv)
					}
				}
				// tuple destructuring: one auxiliary definition for the tuple, then projections
				tup, ok := rhsTy.(*types.Tuple)
				if !ok || tup.Len() != len(x.Lhs) {
					return t.fail(s, "tuple assignment")
				}
				val := t.expr(x.Rhs[0])
				tupExpr := t.define(nil, "", x.Rhs[0].Pos(), t.leanType(rhsTy), val)
				for i, l := range x.Lhs {
					id, ok := l.(*ast.Ident)
					if !ok {
						return t.fail(s, "tuple assignment target")
					}
					if id.Name == "_" {
						continue
					}
					proj := tupExpr
					// Lean pairs nest to the right: (a, b, c) = (a, (b, c))
					for k := 0; k < i; k++ {
						proj = proj + ".2"
					}
					if i < tup.Len()-1 {
						proj = proj + ".1"
					}
					t.define(t.objOf(id), id.Name, id.Pos(), t.leanType(tup.At(i).Type()), proj)
				}
				return t.block(rest, indent)
			}
			if len(x.Lhs) == len(x.Rhs) {
				vals := make([]string, len(x.Rhs))
				for i := range x.Rhs {
					vals[i] = t.expr(x.Rhs[i])
				}
				for i := range x.Lhs {
					id, ok := x.Lhs[i].(*ast.Ident)
					if !ok {
						return t.fail(s, "assignment target")
					}
					if id.Name == "_" {
						continue
					}
					t.define(t.objOf(id), id.Name, id.Pos(), t.leanType(t.info.TypeOf(x.Rhs[i])), vals[i])
				}
				return t.block(rest, indent)
			}
		}
		// op-assign: x op= e, possibly on a struct field
		var op token.Token
		switch x.Tok {
		case token.XOR_ASSIGN:
			op = token.XOR
		case token.ADD_ASSIGN:
			op = token.ADD
		case token.OR_ASSIGN:
			op = token.OR
		case token.AND_ASSIGN:
			op = token.AND
		default:
			return t.fail(s, "assignment %s", x.Tok)
		}
		if len(x.Lhs) != 1 || len(x.Rhs) != 1 {
			return t.fail(s, "op-assign arity")
		}
		be := &ast.BinaryExpr{X: x.Lhs[0], Op: op, Y: x.Rhs[0]}
		t.info.Types[be] = types.TypeAndValue{Type: t.info.TypeOf(x.Lhs[0])}
		val := t.binary(be)
		switch lv := x.Lhs[0].(type) {
		case *ast.Ident:
			t.define(t.objOf(lv), lv.Name, lv.Pos(), t.leanType(t.info.TypeOf(lv)), val)
			return t.block(rest, indent)
		case *ast.SelectorExpr:
			base, ok := lv.X.(*ast.Ident)
			if !ok {
				return t.fail(s, "field op-assign on a non-variable")
			}
			nv := fmt.Sprintf("{ %s with %s := %s }", t.expr(lv.X), lv.Sel.Name, val)
			t.define(t.objOf(base), base.Name, lv.Pos(), t.leanType(t.info.TypeOf(lv.X)), nv)
			return t.block(rest, indent)
		}
		return t.fail(s, "op-assign target")
	case *ast.ReturnStmt:
		if len(rest) != 0 {
			return t.fail(s, "code after return")
		}
		var rs []string
		for _, r := range x.Results {
			rs = append(rs, t.expr(r))
		}
		if len(rs) == 1 {
			return indent + rs[0]
		}
		return indent + "(" + strings.Join(rs, ", ") + ")"
	case *ast.ExprStmt:
		if c, ok := x.X.(*ast.CallExpr); ok {
			if id, ok := c.Fun.(*ast.Ident); ok && id.Name == "panic" {
				return indent + "GoSem.goPanic"
			}
		}
		return t.fail(s, "expression statement")
	case *ast.IfStmt:
		if x.Init != nil {
			return t.fail(s, "if with init")
		}
		// the condition is evaluated before either branch; assignments made inside the (terminating)
		// then-branch must not be visible to the code after it
		cond := t.expr(x.Cond)
		saved := make(map[types.Object]string, len(t.env))
		for k, v := range t.env {
			saved[k] = v
		}
		thenB := t.block(x.Body.List, indent+"  ")
		t.env = saved
		var elseB string
		if x.Else == nil {
			// both branches must produce the result: `if c { return a }; rest`
			elseB = t.block(rest, indent+"  ")
		} else {
			if len(rest) != 0 {
				// if/else where neither returns is not supported; if both return, rest is dead
				if !terminates(x.Body.List) {
					return t.fail(s, "if/else followed by code")
				}
			}
			switch el := x.Else.(type) {
			case *ast.BlockStmt:
				body := el.List
				if !terminates(body) {
					body = append(append([]ast.Stmt{}, body...), rest...)
				}
				elseB = t.block(body, indent+"  ")
			case *ast.IfStmt:
				elseB = t.block(append([]ast.Stmt{el}, rest...), indent+"  ")
			}
		}
		if !terminates(x.Body.List) {
			return t.fail(s, "if branch that falls through")
		}
		return fmt.Sprintf("%sif %s then\n%s\n%selse\n%s", indent, cond, thenB, indent, elseB)
	}
	return t.fail(s, "statement %T", s)
}

func terminates(stmts []ast.Stmt) bool {
	if len(stmts) == 0 {
		return false
	}
	switch x := stmts[len(stmts)-1].(type) {
	case *ast.ReturnStmt:
		return true
	case *ast.ExprStmt:
		if c, ok := x.X.(*ast.CallExpr); ok {
			if id, ok := c.Fun.(*ast.Ident); ok && id.Name == "panic" {
				return true
			}
		}
	case *ast.IfStmt:
		if x.Else == nil {
			return false
		}
		if eb, ok := x.Else.(*ast.BlockStmt); ok {
			return terminates(x.Body.List) && terminates(eb.List)
		}
		if ei, ok := x.Else.(*ast.IfStmt); ok {
			return terminates(x.Body.List) && terminates([]ast.Stmt{ei})
		}
	}
	return false
}

func (t *tr) leanType(ty types.Type) string {
	if tup, ok := ty.(*types.Tuple); ok {
		var ps []string
		for i := 0; i < tup.Len(); i++ {
			ps = append(ps, t.leanType(tup.At(i).Type()))
		}
		return strings.Join(ps, " × ")
	}
	if named, ok := ty.(*types.Named); ok {
		if _, isStruct := named.Underlying().(*types.Struct); isStruct {
			return named.Obj().Name()
		}
	}
	signed, _, ok := kindOf(ty)
	if !ok {
		return "UNSUPPORTED_TYPE"
	}
	if signed {
		return "Int"
	}
	return "Nat"
}

func (t *tr) fn(fd *ast.FuncDecl) string {
	// parameters by position (receiver first); unnamed and blank parameters keep their position
	t.env = map[types.Object]string{}
	var params, argNames, paramNotes []string
	addParam := func(f *ast.Field) {
		ty := t.leanType(t.info.TypeOf(f.Type))
		names := f.Names
		if len(names) == 0 {
			names = []*ast.Ident{nil}
		}
		for _, n := range names {
			cn := fmt.Sprintf("a%d", len(params))
			params = append(params, fmt.Sprintf("(%s : %s)", cn, ty))
			argNames = append(argNames, cn)
			gn := "_"
			if n != nil {
				gn = n.Name
				if obj := t.info.Defs[n]; obj != nil {
					t.env[obj] = cn
				}
			}
			paramNotes = append(paramNotes, fmt.Sprintf("%s = %s", cn, gn))
		}
	}
	if fd.Recv != nil {
		for _, f := range fd.Recv.List {
			addParam(f)
		}
	}
	for _, f := range fd.Type.Params.List {
		addParam(f)
	}
	var rts []string
	if fd.Type.Results != nil {
		for _, f := range fd.Type.Results.List {
			n := len(f.Names)
			if n == 0 {
				n = 1
			}
			for i := 0; i < n; i++ {
				rts = append(rts, t.leanType(t.info.TypeOf(f.Type)))
			}
		}
	}
	t.curFn = leanName(fd.Name.Name)
	t.binders = strings.Join(params, " ")
	t.args = strings.Join(argNames, " ")
	t.legacyCount = map[string]int{}
	t.defs = nil
	body := t.block(fd.Body.List, "  ")
	subst := t.canonicalise()
	order := make([]*ldef, len(t.defs))
	for _, d := range t.defs {
		if d.canon >= 1 && d.canon <= len(order) {
			order[d.canon-1] = d
		}
	}
	var sb strings.Builder
	// reader's map: canonical name = Go name (file:line)
	pos := t.fset.Position(fd.Pos())
	sb.WriteString(fmt.Sprintf("/- %s (%s:%d): %s", t.curFn, filepath.Base(pos.Filename), pos.Line, strings.Join(paramNotes, ", ")))
	for _, d := range order {
		if d == nil {
			continue
		}
		gn := d.goName
		if gn == "" {
			gn = "(multi-value result)"
		}
		sb.WriteString(fmt.Sprintf("\n     v%d = %s (line %d)", d.canon, gn, t.fset.Position(d.pos).Line))
		t.renames = append(t.renames, fmt.Sprintf("%s.%s %s.v%d", t.curFn, d.legacy, t.curFn, d.canon))
	}
	sb.WriteString(" -/\n")
	for _, d := range order {
		if d == nil {
			continue
		}
		sb.WriteString(fmt.Sprintf("def %s.v%d %s : %s :=\n  %s\n\n", t.curFn, d.canon, t.binders, d.ty, subst(d.val)))
	}
	sb.WriteString(fmt.Sprintf("def %s %s : %s :=\n%s\n", t.curFn, t.binders, strings.Join(rts, " × "), subst(body)))
	return sb.String()
}

func main() {
	pkgDir := flag.String("pkg", "", "package directory relative to cwd")
	out := flag.String("out", "", "output .lean file")
	ns := flag.String("ns", "", "Lean namespace")
	fnList := flag.String("funcs", "", "comma-separated functions/methods to translate, in dependency order")
	constList := flag.String("consts", "", "comma-separated package constants to emit")
	tables := flag.String("tables", "", "comma-separated package-level integer array variables to emit")
	structs := flag.String("structs", "", "comma-separated struct types to emit")
	files := flag.String("files", "", "comma-separated file names to load (default: all non-test files)")
	recv := flag.String("recv", "", "receiver type whose methods are meant (plain functions are always eligible)")
	renamesOut := flag.String("renames", "", "also write `former-name canonical-name` lines for every auxiliary definition (proof migration aid)")
	flag.Parse()

	fset := token.NewFileSet()
	var astFiles []*ast.File
	entries, err := os.ReadDir(*pkgDir)
	if err != nil {
		fmt.Println("TRANSLATOR-ERROR:", err)
		os.Exit(2)
	}
	want := map[string]bool{}
	for _, f := range strings.Split(*files, ",") {
		if f != "" {
			want[f] = true
		}
	}
	for _, e := range entries {
		n := e.Name()
		if !strings.HasSuffix(n, ".go") || strings.HasSuffix(n, "_test.go") || strings.Contains(n, "_verif") {
			continue
		}
		if len(want) > 0 && !want[n] {
			continue
		}
		f, err := parser.ParseFile(fset, filepath.Join(*pkgDir, n), nil, parser.SkipObjectResolution)
		if err != nil {
			fmt.Println("TRANSLATOR-ERROR:", err)
			os.Exit(2)
		}
		astFiles = append(astFiles, f)
	}
	info := &types.Info{Types: map[ast.Expr]types.TypeAndValue{}, Uses: map[*ast.Ident]types.Object{}, Defs: map[*ast.Ident]types.Object{},
		Selections: map[*ast.SelectorExpr]*types.Selection{}}
	conf := types.Config{Importer: importer.ForCompiler(fset, "source", nil), Error: func(err error) {}}
	pkg, _ := conf.Check(*pkgDir, fset, astFiles, info)
	t := &tr{fset: fset, info: info, pkg: pkg, funcs: map[string]bool{}, ns: *ns}
	names := strings.Split(*fnList, ",")
	for _, n := range names {
		t.funcs[n] = true
	}
	decls := map[string]*ast.FuncDecl{}
	for _, f := range astFiles {
		for _, d := range f.Decls {
			if fd, ok := d.(*ast.FuncDecl); ok {
				if fd.Recv != nil {
					rt := fd.Recv.List[0].Type
					if st, ok := rt.(*ast.StarExpr); ok {
						rt = st.X
					}
					id, ok := rt.(*ast.Ident)
					if !ok || id.Name != *recv {
						continue
					}
				}
				decls[fd.Name.Name] = fd
			}
		}
	}
	var sb strings.Builder
	sb.WriteString("/- GENERATED by /verif/go/harness/translator from " + *pkgDir + " — do not edit; regenerated on every check run. -/\n")
	sb.WriteString("import TinkVerif.Base.GoSem\nset_option linter.unusedVariables false\nnamespace " + *ns + "\nopen TinkVerif\n\n")
	for _, sname := range strings.Split(*structs, ",") {
		if sname == "" {
			continue
		}
		obj := pkg.Scope().Lookup(sname)
		if obj == nil {
			t.errs = append(t.errs, "struct "+sname+" not found")
			continue
		}
		st, ok := obj.Type().Underlying().(*types.Struct)
		if !ok {
			t.errs = append(t.errs, sname+" is not a struct")
			continue
		}
		sb.WriteString("structure " + sname + " where\n")
		for i := 0; i < st.NumFields(); i++ {
			sb.WriteString(fmt.Sprintf("  %s : %s\n", st.Field(i).Name(), t.leanType(st.Field(i).Type())))
		}
		sb.WriteString("  deriving DecidableEq, Repr\n\n")
	}
	cs := strings.Split(*constList, ",")
	sort.Strings(cs)
	for _, cname := range cs {
		if cname == "" {
			continue
		}
		obj := pkg.Scope().Lookup(cname)
		c, ok := obj.(*types.Const)
		if !ok {
			t.errs = append(t.errs, "constant "+cname+" not found")
			continue
		}
		sb.WriteString(fmt.Sprintf("def %s : Nat := %s\n", leanName(cname), c.Val().ExactString()))
	}
	sb.WriteString("\n")
	for _, tname := range strings.Split(*tables, ",") {
		if tname == "" {
			continue
		}
		found := false
		for _, f := range astFiles {
			for _, d := range f.Decls {
				gd, ok := d.(*ast.GenDecl)
				if !ok || gd.Tok != token.VAR {
					continue
				}
				for _, sp := range gd.Specs {
					vs := sp.(*ast.ValueSpec)
					for i, n := range vs.Names {
						if n.Name != tname || i >= len(vs.Values) {
							continue
						}
						cl, ok := vs.Values[i].(*ast.CompositeLit)
						if !ok {
							continue
						}
						var vals []string
						for _, el := range cl.Elts {
							tv := info.Types[el]
							if tv.Value == nil {
								t.fail(el, "non-constant table element")
								continue
							}
							vals = append(vals, tv.Value.ExactString())
						}
						sb.WriteString(fmt.Sprintf("def %s : List Nat := [%s]\n\n", leanName(tname), strings.Join(vals, ", ")))
						found = true
					}
				}
			}
		}
		if !found {
			t.errs = append(t.errs, "table "+tname+" not found")
		}
	}
	for _, n := range names {
		if n == "" {
			continue
		}
		fd, ok := decls[n]
		if !ok {
			t.errs = append(t.errs, "function "+n+" not found")
			continue
		}
		sb.WriteString(t.fn(fd))
		sb.WriteString("\n")
	}
	sb.WriteString("end " + *ns + "\n")
	// positional parameter names must not capture a structural (global) name
	globals := append(append(append([]string{}, names...), cs...), strings.Split(*tables, ",")...)
	for _, g := range globals {
		if regexp.MustCompile(`^a[0-9]+$`).MatchString(g) {
			t.errs = append(t.errs, "global name "+g+" clashes with the positional parameter names")
		}
	}
	if len(t.errs) > 0 {
		for _, e := range t.errs {
			fmt.Println("TRANSLATOR-ERROR:", e)
		}
		os.Exit(1)
	}
	if err := os.WriteFile(*out, []byte(sb.String()), 0o644); err != nil {
		fmt.Println("TRANSLATOR-ERROR:", err)
		os.Exit(2)
	}
	if *renamesOut != "" {
		if err := os.WriteFile(*renamesOut, []byte(strings.Join(t.renames, "\n")+"\n"), 0o644); err != nil {
			fmt.Println("TRANSLATOR-ERROR:", err)
			os.Exit(2)
		}
	}
	fmt.Println("translated", len(names), "functions to", *out)
}
