#!/usr/bin/env python3
"""One-off migration aid for the alpha-normalised translator output.

  translator ... -out F.lean -renames F.renames      (on the unchanged tree)
  migrate_names.py F.renames [G.renames ...] -- proof1.lean proof2.lean ...

Every line `old new` of a .renames file (former Go-name-based auxiliary definition, canonical name) is
applied to the proof files as a simultaneous whole-identifier substitution (an occurrence counts only if
it is not part of a longer dotted/primed identifier). `--check-gen OLD.lean NEW.lean` additionally
verifies that the old generated file, after the substitution and positional parameter renaming, has
exactly the same set of definitions as the new one."""
import re, sys


def load(paths):
    m = {}
    for p in paths:
        for line in open(p, encoding="utf-8"):
            if line.strip():
                old, new = line.split()
                assert m.get(old, new) == new, old
                m[old] = new
    return m


def rewriter(m):
    alt = "|".join(sorted((re.escape(k) for k in m), key=len, reverse=True))
    rx = re.compile(r"(?<![\w.'’«])(" + alt + r")(?![\w'’»]|\.[A-Za-z_])")
    return lambda s: rx.subn(lambda mo: m[mo.group(1)], s)


def main():
    a = sys.argv[1:]
    i = a.index("--")
    m = load(a[:i])
    rw = rewriter(m)
    for f in a[i + 1:]:
        s = open(f, encoding="utf-8").read()
        t, n = rw(s)
        if t != s:
            open(f, "w", encoding="utf-8").write(t)
        print("%-50s %d identifiers rewritten" % (f, n))


if __name__ == "__main__":
    main()
