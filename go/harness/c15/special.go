//go:build verif

// SPECIAL-VALUES section of harness c15 (own PRNG streams "c15/special", "c15/badsets": the lines of main.go and large.go stay
// what they were).
//
//  1. special salt VALUES × lengths. HMAC zero-pads a key up to the hash block and hashes it beyond, so an all-zero (or
//     zero-padded) salt is "the same as no salt" up to the block and a different HMAC key beyond it. Salts: all-zero, all-0xff,
//     zero except the last byte, zero except the first byte, zero-prefixed, zero-suffixed at the lengths
//     {1, hLen, block−1, block, block+1, 2·block, 200} for every hash, through prfsubtle.NewHKDFPRF, subtle.ComputeHKDF and
//     HKDF-PRF keys in keysets (key object → prf.NewPRFSet, and key → serialized keyset → parsed → prf.NewPRFSet).
//  2. special KEY values × lengths (HMAC pre-hashes keys longer than the block): the same value kinds at
//     {1, 16, hLen, block−1, block, block+1, 2·block, 200} for HMAC-PRF (subtle, keyset), HKDF-PRF (subtle, keyset; the key is
//     the ikm), subtle.ComputeHKDF and AES-CMAC-PRF (16 / 32 bytes).
//  3. PRF keysets in which one key parses but cannot be instantiated as a PRF (HKDF-PRF with SHA-1 / SHA-224 / SHA-384,
//     HKDF-PRF with a 16..31-byte key, AES-CMAC-PRF with a 16-byte key, a MAC key, an AEAD key, an unknown type URL) at every
//     position of keysets of 1..4 keys, as ENABLED non-primary, primary, DISABLED and DESTROYED key. Oracle (the property's
//     "the set's primary ID and key IDs mirror the enabled keys"): whenever prf.NewPRFSet returns a set, its ids are exactly
//     the enabled key ids (a set that silently lacks an enabled key is the violation), every PRF in it equals the model, and
//     a set must not hold a PRF for a key that is no PRF key; NewPRFSet must not fail when every enabled key is instantiable.
//     The unchanged tree refuses every keyset whose un-instantiable key is ENABLED (counted as "refused").
package main

import (
	"bytes"
	"fmt"
	"sort"

	"github.com/tink-crypto/tink-go/v2/aead/aesgcm"
	"github.com/tink-crypto/tink-go/v2/insecurecleartextkeyset"
	"github.com/tink-crypto/tink-go/v2/internal/internalapi"
	"github.com/tink-crypto/tink-go/v2/internal/protoserialization"
	"github.com/tink-crypto/tink-go/v2/internal/verifharness/hlib"
	"github.com/tink-crypto/tink-go/v2/key"
	"github.com/tink-crypto/tink-go/v2/keyset"
	"github.com/tink-crypto/tink-go/v2/mac/hmac"
	"github.com/tink-crypto/tink-go/v2/prf"
	"github.com/tink-crypto/tink-go/v2/prf/aescmacprf"
	"github.com/tink-crypto/tink-go/v2/prf/hkdfprf"
	"github.com/tink-crypto/tink-go/v2/prf/hmacprf"
	prfsubtle "github.com/tink-crypto/tink-go/v2/prf/subtle"
	tinkpb "github.com/tink-crypto/tink-go/v2/proto/tink_go_proto"
	"github.com/tink-crypto/tink-go/v2/subtle"
)

func blockOf(h hdesc) int {
	if h.dl > 32 {
		return 128
	}
	return 64
}

var specialKinds = []string{"zero", "ff", "zero-but-last", "zero-but-first", "zero-prefixed", "zero-suffixed"}

func nonZero(rng *hlib.Rng, n int) []byte {
	b := rng.Bytes(n)
	for i := range b {
		if b[i] == 0 {
			b[i] = byte(1 + rng.Intn(255))
		}
	}
	return b
}

// specialBytes: n ≥ 1 bytes of the given kind.
func specialBytes(rng *hlib.Rng, kind string, n int) []byte {
	b := make([]byte, n)
	switch kind {
	case "zero":
	case "ff":
		for i := range b {
			b[i] = 0xff
		}
	case "zero-but-last":
		b[n-1] = byte(1 + rng.Intn(255))
	case "zero-but-first":
		b[0] = byte(1 + rng.Intn(255))
	case "zero-prefixed": // ⌈n/2⌉ zero bytes, then non-zero bytes (n = 1: one zero byte would be "zero": one non-zero byte)
		z := (n + 1) / 2
		if n == 1 {
			z = 0
		}
		copy(b[z:], nonZero(rng, n-z))
	case "zero-suffixed":
		z := (n + 1) / 2
		if n == 1 {
			z = 0
		}
		copy(b, nonZero(rng, n-z))
	default:
		panic(kind)
	}
	return b
}

func saltLengths(h hdesc) []int {
	bl := blockOf(h)
	return []int{1, h.dl, bl - 1, bl, bl + 1, 2 * bl, 200}
}

func keyLengths(h hdesc) []int {
	bl := blockOf(h)
	return []int{1, 16, h.dl, bl - 1, bl, bl + 1, 2 * bl, 200}
}

// reparsed: key → keyset → serialized (proto) → parsed again → prf.NewPRFSet → primary's PRF
func reparsed(k key.Key) prf.PRF {
	kh, err := hlib.HandleOf(k)
	if err != nil {
		panic(err)
	}
	buf := &bytes.Buffer{}
	if err := insecurecleartextkeyset.Write(kh, keyset.NewBinaryWriter(buf)); err != nil {
		panic(err)
	}
	kh2, err := insecurecleartextkeyset.Read(keyset.NewBinaryReader(buf))
	if err != nil {
		panic(err)
	}
	set, err := prf.NewPRFSet(kh2)
	if err != nil {
		panic(err)
	}
	return set.PRFs[set.PrimaryID]
}

// prfLines: a few outputs of one PRF against the model; prefix law and determinism on the implementation.
func prfLines(o *hlib.Out, rng *hlib.Rng, p prf.PRF, cfg, what string, dl, max int) {
	in := rng.Bytes(rng.Pick(0, 1, 8, 33, 64, 100))
	ns := []int{dl, 1 + rng.Intn(dl)}
	if max > dl {
		ns = append(ns, dl+1+rng.Intn(2*dl))
	}
	var longest []byte
	for _, n := range ns {
		out, err := p.ComputePRF(in, uint32(n))
		o.Emit(fmt.Sprintf("!%s %s %d", cfg, hlib.Tok(in), n), res(out, err), true)
		if err != nil {
			o.Violate("%s: ComputePRF(%d bytes) failed: %v", what, n, err)
			continue
		}
		if out2, _ := p.ComputePRF(in, uint32(n)); !bytes.Equal(out, out2) {
			o.Violate("%s: not deterministic", what)
		}
		if len(out) >= len(longest) {
			if !bytes.HasPrefix(out, longest) {
				o.Violate("%s: prefix law broken at %d / %d bytes", what, len(longest), n)
			}
			longest = out
		} else if !bytes.HasPrefix(longest, out) {
			o.Violate("%s: prefix law broken at %d / %d bytes", what, n, len(longest))
		}
	}
	if _, err := p.ComputePRF(in, uint32(max+1)); err == nil {
		o.Violate("%s: output length %d beyond the maximum %d succeeded", what, max+1, max)
	}
}

func hkdfLines(o *hlib.Out, rng *hlib.Rng, h hdesc, key, salt []byte, what string) {
	info := rng.Bytes(rng.Pick(0, 1, 16, 40))
	for _, ts := range []int{16, h.dl, h.dl + 1 + rng.Intn(2*h.dl)} {
		out, err := subtle.ComputeHKDF(h.name, key, salt, info, uint32(ts))
		o.Emit(fmt.Sprintf("!X hkdf %s %s %s %s %d", h.name, hlib.Tok(key), hlib.Tok(salt), hlib.Tok(info), ts), res(out, err), true)
		if err != nil {
			o.Violate("%s: ComputeHKDF(%d bytes) failed: %v", what, ts, err)
		}
	}
}

func hkdfKeyOf(h hdesc, kb, salt []byte) key.Key {
	ps, err := hkdfprf.NewParameters(len(kb), h.hk, salt)
	if err != nil {
		panic(err)
	}
	k, err := hkdfprf.NewKey(hlib.Secret(kb), ps)
	if err != nil {
		panic(err)
	}
	return k
}

func hmacKeyOf(h hdesc, kb []byte) key.Key {
	ps, err := hmacprf.NewParameters(len(kb), h.hm)
	if err != nil {
		panic(err)
	}
	k, err := hmacprf.NewKey(hlib.Secret(kb), ps)
	if err != nil {
		panic(err)
	}
	return k
}

func specialSalts(o *hlib.Out, rng *hlib.Rng) {
	rounds := 1
	if hlib.Thorough() {
		rounds = 4
	}
	for r := 0; r < rounds; r++ {
		for hi, h := range hashes {
			for li, n := range saltLengths(h) {
				for ki, kind := range specialKinds {
					o.Case()
					salt := specialBytes(rng, kind, n)
					what := fmt.Sprintf("%s salt of %d bytes, %s", kind, n, h.name)
					o.Count("special/salt/" + kind)
					o.Count(fmt.Sprintf("special/salt/%s len %d", h.name, n))
					// prf/subtle (any hash, any key size)
					kb := rng.Bytes(rng.Pick(16, 32, 33, 64, 100))
					p, err := prfsubtle.NewHKDFPRF(h.name, kb, salt)
					if err != nil {
						panic(err)
					}
					prfLines(o, rng, p, fmt.Sprintf("X prf hkdf %s %s %s", h.name, hlib.Tok(kb), hlib.Tok(salt)), "HKDF-PRF (prf/subtle) with an "+what, h.dl, 255*h.dl)
					// the library-wide helper
					hkdfLines(o, rng, h, rng.Bytes(rng.Pick(16, 32, 64)), salt, "ComputeHKDF with an "+what)
					// keyset PRFs: only SHA-256 / SHA-512 keys with ≥ 32 bytes can be instantiated
					if h.name == "SHA256" || h.name == "SHA512" {
						kb := rng.Bytes(rng.Pick(32, 48, 64))
						k := hkdfKeyOf(h, kb, salt)
						var p prf.PRF
						if (hi+li+ki+r)%2 == 0 {
							p = viaSet(k)
							o.Count("special/salt/keyset")
						} else {
							p = reparsed(k)
							o.Count("special/salt/keyset-reparsed")
						}
						prfLines(o, rng, p, fmt.Sprintf("X prf hkdf %s %s %s", h.name, hlib.Tok(kb), hlib.Tok(salt)), "HKDF-PRF (keyset) with an "+what, h.dl, 255*h.dl)
					}
				}
			}
		}
	}
}

func specialKeys(o *hlib.Out, rng *hlib.Rng) {
	rounds := 1
	if hlib.Thorough() {
		rounds = 4
	}
	for r := 0; r < rounds; r++ {
		for hi, h := range hashes {
			for li, n := range keyLengths(h) {
				for ki, kind := range specialKinds {
					o.Case()
					kb := specialBytes(rng, kind, n)
					what := fmt.Sprintf("%s key of %d bytes, %s", kind, n, h.name)
					o.Count("special/key/" + kind)
					o.Count(fmt.Sprintf("special/key/%s len %d", h.name, n))
					rot := hi + li + ki + r
					// HMAC-PRF
					p, err := prfsubtle.NewHMACPRF(h.name, kb)
					if err != nil {
						panic(err)
					}
					prfLines(o, rng, p, fmt.Sprintf("X prf hmac %s %s", h.name, hlib.Tok(kb)), "HMAC-PRF (prf/subtle) with an "+what, h.dl, h.dl)
					if n >= 16 {
						var p prf.PRF
						if rot%2 == 0 {
							p = viaSet(hmacKeyOf(h, kb))
						} else {
							p = reparsed(hmacKeyOf(h, kb))
						}
						prfLines(o, rng, p, fmt.Sprintf("X prf hmac %s %s", h.name, hlib.Tok(kb)), "HMAC-PRF (keyset) with an "+what, h.dl, h.dl)
					}
					// HKDF-PRF: the key is the ikm; salt absent / short / longer than the block
					var salt []byte
					switch rot % 3 {
					case 1:
						salt = rng.Bytes(1 + rng.Intn(h.dl))
					case 2:
						salt = rng.Bytes(blockOf(h) + 1 + rng.Intn(40))
					}
					p2, err := prfsubtle.NewHKDFPRF(h.name, kb, salt)
					if err != nil {
						panic(err)
					}
					prfLines(o, rng, p2, fmt.Sprintf("X prf hkdf %s %s %s", h.name, hlib.Tok(kb), hlib.Tok(salt)), "HKDF-PRF (prf/subtle) with an "+what, h.dl, 255*h.dl)
					if n >= 32 && (h.name == "SHA256" || h.name == "SHA512") {
						var p prf.PRF
						if rot%2 == 1 {
							p = viaSet(hkdfKeyOf(h, kb, salt))
						} else {
							p = reparsed(hkdfKeyOf(h, kb, salt))
						}
						prfLines(o, rng, p, fmt.Sprintf("X prf hkdf %s %s %s", h.name, hlib.Tok(kb), hlib.Tok(salt)), "HKDF-PRF (keyset) with an "+what, h.dl, 255*h.dl)
					}
					hkdfLines(o, rng, h, kb, salt, "ComputeHKDF with an "+what)
				}
			}
		}
		// AES-CMAC-PRF
		for _, n := range []int{16, 32} {
			for _, kind := range specialKinds {
				o.Case()
				kb := specialBytes(rng, kind, n)
				o.Count("special/key/cmac")
				p, err := prfsubtle.NewAESCMACPRF(kb)
				if err != nil {
					panic(err)
				}
				cfg := "X prf cmac " + hlib.Tok(kb)
				prfLines(o, rng, p, cfg, fmt.Sprintf("AES-CMAC-PRF (prf/subtle) with a %s key of %d bytes", kind, n), 16, 16)
				if n == 32 {
					k, err := aescmacprf.NewKey(hlib.Secret(kb))
					if err != nil {
						panic(err)
					}
					prfLines(o, rng, viaSet(k), cfg, fmt.Sprintf("AES-CMAC-PRF (keyset) with a %s key", kind), 16, 16)
					prfLines(o, rng, reparsed(k), cfg, fmt.Sprintf("AES-CMAC-PRF (reparsed keyset) with a %s key", kind), 16, 16)
				}
			}
		}
	}
}

// ---------- keysets holding a key that cannot be instantiated as a PRF ----------

type setKey struct {
	id      uint32
	k       key.Key // nil: the unknown-type-URL entry, spliced into the serialized keyset
	class   string
	cfg     string // model op prefix ("" = no PRF exists for this key)
	dl, max int
	status  keyset.KeyStatus
	bad     bool
}

var badClasses = []string{"hkdf-sha1", "hkdf-sha224", "hkdf-sha384", "hkdf-short-key", "cmac-16", "mac-key", "aead-key", "unknown-url"}

func goodSetKey(rng *hlib.Rng) setKey {
	switch rng.Intn(3) {
	case 0:
		h := hashes[rng.Intn(len(hashes))]
		kb := rng.Bytes(rng.Pick(16, 32, 64, 129))
		return setKey{k: hmacKeyOf(h, kb), class: "hmac", cfg: fmt.Sprintf("X prf hmac %s %s", h.name, hlib.Tok(kb)), dl: h.dl, max: h.dl}
	case 1:
		h := hashes[rng.Pick(2, 4)]
		kb := rng.Bytes(rng.Pick(32, 33, 64))
		salt := rng.Bytes(rng.Pick(0, 8, 32, 130))
		return setKey{k: hkdfKeyOf(h, kb, salt), class: "hkdf", cfg: fmt.Sprintf("X prf hkdf %s %s %s", h.name, hlib.Tok(kb), hlib.Tok(salt)), dl: h.dl, max: 255 * h.dl}
	}
	kb := rng.Bytes(32)
	k, err := aescmacprf.NewKey(hlib.Secret(kb))
	if err != nil {
		panic(err)
	}
	return setKey{k: k, class: "cmac", cfg: "X prf cmac " + hlib.Tok(kb), dl: 16, max: 16}
}

func badSetKey(rng *hlib.Rng, class string, id uint32) setKey {
	d := setKey{class: class, bad: true}
	hk := func(h hdesc, n int) {
		kb := rng.Bytes(n)
		salt := rng.Bytes(rng.Pick(0, 8, 32))
		d.k = hkdfKeyOf(h, kb, salt)
		d.cfg, d.dl, d.max = fmt.Sprintf("X prf hkdf %s %s %s", h.name, hlib.Tok(kb), hlib.Tok(salt)), h.dl, 255*h.dl
	}
	switch class {
	case "hkdf-sha1":
		hk(hashes[0], rng.Pick(32, 64))
	case "hkdf-sha224":
		hk(hashes[1], rng.Pick(32, 64))
	case "hkdf-sha384":
		hk(hashes[3], rng.Pick(32, 48, 64))
	case "hkdf-short-key":
		hk(hashes[rng.Pick(2, 4)], rng.Pick(16, 17, 24, 31))
	case "cmac-16":
		kb := rng.Bytes(16)
		k, err := aescmacprf.NewKey(hlib.Secret(kb))
		if err != nil {
			panic(err)
		}
		d.k, d.cfg, d.dl, d.max = k, "X prf cmac "+hlib.Tok(kb), 16, 16
	case "mac-key":
		v := []hmac.Variant{hmac.VariantNoPrefix, hmac.VariantTink}[rng.Intn(2)]
		ps, err := hmac.NewParameters(hmac.ParametersOpts{KeySizeInBytes: 32, TagSizeInBytes: 16, HashType: hmac.SHA256, Variant: v})
		if err != nil {
			panic(err)
		}
		req := uint32(0)
		if v == hmac.VariantTink {
			req = id
		}
		k, err := hmac.NewKey(hlib.Secret(rng.Bytes(32)), ps, req)
		if err != nil {
			panic(err)
		}
		d.k = k
	case "aead-key":
		ps, err := aesgcm.NewParameters(aesgcm.ParametersOpts{KeySizeInBytes: 32, IVSizeInBytes: 12, TagSizeInBytes: 16, Variant: aesgcm.VariantNoPrefix})
		if err != nil {
			panic(err)
		}
		k, err := aesgcm.NewKey(hlib.Secret(rng.Bytes(32)), 0, ps)
		if err != nil {
			panic(err)
		}
		d.k = k
	case "unknown-url":
	default:
		panic(class)
	}
	return d
}

func pbStatus(s keyset.KeyStatus) tinkpb.KeyStatusType {
	switch s {
	case keyset.Enabled:
		return tinkpb.KeyStatusType_ENABLED
	case keyset.Disabled:
		return tinkpb.KeyStatusType_DISABLED
	}
	return tinkpb.KeyStatusType_DESTROYED
}

// buildSet: the handle for the keys (primary at prim). Without an unknown-type-URL entry and without reparse the keys go through
// keyset.Manager; otherwise every key is serialized (protoserialization.SerializeKey), the keyset proto is assembled by hand
// and parsed (insecurecleartextkeyset.Read), so the factory sees keys that came out of the parsers.
func buildSet(rng *hlib.Rng, ks []setKey, prim int, reparse bool) (*keyset.Handle, error) {
	spliced := false
	for _, d := range ks {
		if d.k == nil {
			spliced = true
		}
	}
	if !spliced && !reparse {
		km := keyset.NewManager()
		for i, d := range ks {
			opts := []keyset.KeyOpts{keyset.WithFixedID(d.id), keyset.WithStatus(d.status)}
			if i == prim {
				opts = append(opts, keyset.AsPrimary())
			}
			if _, err := km.AddKeyWithOpts(d.k, internalapi.Token{}, opts...); err != nil {
				return nil, fmt.Errorf("AddKeyWithOpts: %v", err)
			}
		}
		return km.Handle()
	}
	out := &tinkpb.Keyset{PrimaryKeyId: ks[prim].id}
	for _, d := range ks {
		e := &tinkpb.Keyset_Key{Status: pbStatus(d.status), KeyId: d.id}
		if d.k == nil {
			e.KeyData = &tinkpb.KeyData{
				TypeUrl:         "type.googleapis.com/google.crypto.tink.VerifUnknownPrfKey",
				Value:           rng.Bytes(rng.Pick(0, 2, 34)),
				KeyMaterialType: tinkpb.KeyData_SYMMETRIC,
			}
			e.OutputPrefixType = tinkpb.OutputPrefixType_RAW
		} else {
			ser, err := protoserialization.SerializeKey(d.k)
			if err != nil {
				return nil, fmt.Errorf("SerializeKey: %v", err)
			}
			e.KeyData, e.OutputPrefixType = ser.KeyData(), ser.OutputPrefixType()
		}
		out.Key = append(out.Key, e)
	}
	return insecurecleartextkeyset.Read(&keyset.MemReaderWriter{Keyset: out})
}

func badSetCase(o *hlib.Out, rng *hlib.Rng, nk, pos int, class, role string, reparse bool) {
	o.Case()
	used := map[uint32]bool{}
	newID := func() uint32 {
		id := rng.KeyID()
		for used[id] {
			id++
		}
		used[id] = true
		return id
	}
	ks := make([]setKey, nk)
	prim := pos
	if role != "primary" {
		prim = (pos + 1 + rng.Intn(nk-1)) % nk
	}
	for i := range ks {
		id := newID()
		if i == pos {
			ks[i] = badSetKey(rng, class, id)
			switch role {
			case "disabled":
				ks[i].status = keyset.Disabled
			case "destroyed":
				ks[i].status = keyset.Destroyed
			default:
				ks[i].status = keyset.Enabled
			}
		} else {
			ks[i] = goodSetKey(rng)
			ks[i].status = keyset.Enabled
			if i != prim {
				switch rng.Intn(6) {
				case 0:
					ks[i].status = keyset.Disabled
				case 1:
					ks[i].status = keyset.Destroyed
				}
			}
		}
		ks[i].id = id
	}
	desc := fmt.Sprintf("keyset of %d keys, %s key (%s) at position %d, primary at %d, reparsed=%v", nk, class, role, pos, prim, reparse)
	o.Count("badset/" + class)
	o.Count("badset/role " + role)
	kh, err := buildSet(rng, ks, prim, reparse)
	if err != nil {
		// a keyset that cannot even be built / parsed tells nothing about NewPRFSet
		o.Count("badset/unbuildable " + class + " " + role)
		return
	}
	badEnabled := ks[pos].status == keyset.Enabled
	set, err := prf.NewPRFSet(kh)
	if err != nil {
		if !badEnabled {
			o.Violate("NewPRFSet failed (%v) although every enabled key can be instantiated: %s", err, desc)
		} else {
			o.Count("badset/refused")
		}
		return
	}
	if badEnabled {
		o.Count("badset/accepted-with-bad-key")
	} else {
		o.Count("badset/accepted")
	}
	var want, got []int
	for _, d := range ks {
		if d.status == keyset.Enabled {
			want = append(want, int(d.id))
		}
	}
	for id := range set.PRFs {
		got = append(got, int(id))
	}
	sort.Ints(want)
	sort.Ints(got)
	if fmt.Sprint(want) != fmt.Sprint(got) {
		o.Violate("PRF set ids %v differ from the enabled key ids %v: %s", got, want, desc)
	}
	if set.PrimaryID != ks[prim].id {
		o.Violate("PRF set PrimaryID %d is not the primary key id %d: %s", set.PrimaryID, ks[prim].id, desc)
	}
	for _, d := range ks {
		p, ok := set.PRFs[d.id]
		if d.status != keyset.Enabled || !ok || p == nil {
			continue
		}
		if d.cfg == "" {
			o.Violate("PRF set holds a PRF for key %d, which is no PRF key (%s): %s", d.id, d.class, desc)
			continue
		}
		prfLines(o, rng, p, d.cfg, fmt.Sprintf("key %d (%s) of a %s", d.id, d.class, desc), d.dl, d.max)
	}
	if p, ok := set.PRFs[set.PrimaryID]; ok && p != nil {
		in := rng.Bytes(8)
		a, e1 := set.ComputePrimaryPRF(in, 16)
		b, e2 := p.ComputePRF(in, 16)
		if e1 != nil || e2 != nil || !bytes.Equal(a, b) {
			o.Violate("ComputePrimaryPRF differs from the primary key's PRF: %s", desc)
		}
	}
}

func badSets(o *hlib.Out, rng *hlib.Rng) {
	maxKeys := 4
	if hlib.Thorough() {
		maxKeys = 6
	}
	c := 0
	for nk := 1; nk <= maxKeys; nk++ {
		for pos := 0; pos < nk; pos++ {
			for _, class := range badClasses {
				for _, role := range []string{"enabled", "primary", "disabled", "destroyed"} {
					if nk == 1 && role != "primary" {
						continue
					}
					c++
					if hlib.Thorough() {
						badSetCase(o, rng, nk, pos, class, role, false)
						badSetCase(o, rng, nk, pos, class, role, true)
					} else {
						badSetCase(o, rng, nk, pos, class, role, c%2 == 0)
					}
				}
			}
		}
	}
}

func specialValues(o *hlib.Out) {
	rng := hlib.NewRng(*hlib.FlagSeed, "c15/special")
	specialSalts(o, rng)
	specialKeys(o, rng)
	badSets(o, hlib.NewRng(*hlib.FlagSeed, "c15/badsets"))
}
