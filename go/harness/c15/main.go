//go:build verif

// Harness c15: PRFs (HMAC / HKDF / AES-CMAC), the library-wide HKDF helper and PRF sets against the
// independent reference (property C15).
package main

import (
	"bytes"
	"fmt"
	"sort"

	"github.com/tink-crypto/tink-go/v2/internal/internalapi"
	"github.com/tink-crypto/tink-go/v2/internal/verifharness/hlib"
	"github.com/tink-crypto/tink-go/v2/key"
	"github.com/tink-crypto/tink-go/v2/keyset"
	"github.com/tink-crypto/tink-go/v2/prf"
	"github.com/tink-crypto/tink-go/v2/prf/aescmacprf"
	"github.com/tink-crypto/tink-go/v2/prf/hkdfprf"
	"github.com/tink-crypto/tink-go/v2/prf/hmacprf"
	prfsubtle "github.com/tink-crypto/tink-go/v2/prf/subtle"
	"github.com/tink-crypto/tink-go/v2/subtle"
)

type hdesc struct {
	name string
	dl   int
	hm   hmacprf.HashType
	hk   hkdfprf.HashType
}

var hashes = []hdesc{{"SHA1", 20, hmacprf.SHA1, hkdfprf.SHA1}, {"SHA224", 28, hmacprf.SHA224, hkdfprf.SHA224},
	{"SHA256", 32, hmacprf.SHA256, hkdfprf.SHA256}, {"SHA384", 48, hmacprf.SHA384, hkdfprf.SHA384}, {"SHA512", 64, hmacprf.SHA512, hkdfprf.SHA512}}

func res(b []byte, err error) string {
	if err != nil {
		return "err"
	}
	return "ok " + hlib.Tok(b)
}

// lengths returns the output lengths probed for a PRF whose block is dl and whose limit is max.
func lengths(rng *hlib.Rng, dl, max int, all bool) []int {
	if all {
		ls := make([]int, 0, max+2)
		for i := 0; i <= max+1; i++ {
			ls = append(ls, i)
		}
		return ls
	}
	ls := []int{0, 1, dl - 1, dl, dl + 1, 2*dl - 1, 2 * dl, 2*dl + 1, max - 1, max, max + 1}
	for i := 0; i < 4; i++ {
		k := 1 + rng.Intn(255)
		ls = append(ls, k*dl+rng.Intn(3)-1)
	}
	for i := 0; i < 4; i++ {
		ls = append(ls, rng.Intn(max+2))
	}
	return ls
}

// probe runs one PRF over several inputs/lengths, compares with the reference lines and checks the
// prefix law and determinism directly on the implementation.
func probe(o *hlib.Out, rng *hlib.Rng, p prf.PRF, cfg string, dl, max int, exhaustive bool) {
	for j := 0; j < 2; j++ {
		in := rng.Bytes(rng.MsgLen(200))
		ls := lengths(rng, dl, max, exhaustive && j == 0)
		var longest []byte
		for _, n := range ls {
			if n < 0 {
				continue
			}
			out, err := p.ComputePRF(in, uint32(n))
			o.Emit(fmt.Sprintf("!%s %s %d", cfg, hlib.Tok(in), n), res(out, err), true)
			if n > max && err == nil {
				o.Violate("%s: output length %d beyond the maximum %d succeeded", cfg, n, max)
			}
			if err != nil {
				continue
			}
			if len(out) != n {
				o.Violate("%s: asked %d bytes, got %d", cfg, n, len(out))
			}
			out2, _ := p.ComputePRF(in, uint32(n))
			if !bytes.Equal(out, out2) {
				o.Violate("%s: not deterministic", cfg)
			}
			if len(out) > len(longest) {
				if !bytes.HasPrefix(out, longest) {
					o.Violate("%s: ComputePRF(x,%d) is not a prefix of ComputePRF(x,%d)", cfg, len(longest), n)
				}
				longest = out
			} else if !bytes.HasPrefix(longest, out) {
				o.Violate("%s: ComputePRF(x,%d) is not a prefix of ComputePRF(x,%d)", cfg, n, len(longest))
			}
		}
	}
}

func main() {
	o := hlib.Open("C15")
	defer o.Close()
	rng := hlib.NewRng(*hlib.FlagSeed, "c15")
	n := hlib.N(260, 6000)
	for c := 0; c < n; c++ {
		o.Case()
		h := hashes[rng.Intn(len(hashes))]
		switch rng.Intn(7) {
		case 0: // HMAC PRF (subtle): any key size
			key := rng.Bytes(rng.Pick(0, 1, 16, 20, 32, 64, 65, 128, 200))
			p, err := prfsubtle.NewHMACPRF(h.name, key)
			if err != nil {
				panic(err)
			}
			o.Count("hmacprf/subtle/" + h.name)
			probe(o, rng, p, fmt.Sprintf("X prf hmac %s %s", h.name, hlib.Tok(key)), h.dl, h.dl, c%3 == 0)
		case 1: // HKDF PRF (subtle): salts nil/empty/short/long
			key := rng.Bytes(rng.Pick(16, 32, 33, 64, 100))
			var salt []byte
			switch rng.Intn(5) {
			case 0:
				salt = nil
			case 1:
				salt = []byte{}
			case 2:
				salt = rng.Bytes(1 + rng.Intn(31))
			case 3:
				salt = rng.Bytes(h.dl)
			default:
				salt = rng.Bytes(129 + rng.Intn(40))
			}
			p, err := prfsubtle.NewHKDFPRF(h.name, key, salt)
			if err != nil {
				panic(err)
			}
			o.Count("hkdfprf/subtle/" + h.name)
			probe(o, rng, p, fmt.Sprintf("X prf hkdf %s %s %s", h.name, hlib.Tok(key), hlib.Tok(salt)), h.dl, 255*h.dl, false)
		case 2: // AES-CMAC PRF (subtle)
			key := rng.Bytes(rng.Pick(16, 32))
			p, err := prfsubtle.NewAESCMACPRF(key)
			if err != nil {
				panic(err)
			}
			o.Count("cmacprf/subtle")
			probe(o, rng, p, fmt.Sprintf("X prf cmac %s", hlib.Tok(key)), 16, 16, true)
		case 3: // subtle.ComputeHKDF, the helper used across the library
			key := rng.Bytes(rng.Pick(16, 32, 64))
			var salt []byte
			st := "-"
			switch rng.Intn(4) {
			case 0:
				salt = nil
			case 1:
				salt = []byte{}
			case 2:
				salt = make([]byte, h.dl)
			default:
				salt = rng.Bytes(1 + rng.Intn(40))
			}
			st = hlib.Tok(salt)
			info := rng.Bytes(rng.Intn(40))
			o.Count("computehkdf/" + h.name)
			for _, ts := range []int{0, 1, 9, 10, 11, 12, 16, 32, h.dl, h.dl + 1, 255 * h.dl, 255*h.dl + 1, rng.Intn(255 * h.dl)} {
				out, err := subtle.ComputeHKDF(h.name, key, salt, info, uint32(ts))
				o.Emit(fmt.Sprintf("!X hkdf %s %s %s %s %d", h.name, hlib.Tok(key), st, hlib.Tok(info), ts), res(out, err), true)
			}
		default: // a keyset of PRF keys → prf.NewPRFSet
			o.Count("prfset")
			km := keyset.NewManager()
			nk := 1 + rng.Intn(5)
			type kd struct {
				id  uint32
				cfg string
				dl  int
				max int
				en  bool
			}
			var ks []kd
			used := map[uint32]bool{}
			prim := rng.Intn(nk)
			for i := 0; i < nk; i++ {
				id := rng.KeyID()
				for used[id] {
					id++
				}
				used[id] = true
				var k key.Key
				var d kd
				hh := hashes[rng.Intn(len(hashes))]
				switch rng.Intn(3) {
				case 0:
					kb := rng.Bytes(rng.Pick(16, 32, 64))
					ps, err := hmacprf.NewParameters(len(kb), hh.hm)
					if err != nil {
						panic(err)
					}
					kk, err := hmacprf.NewKey(hlib.Secret(kb), ps)
					if err != nil {
						panic(err)
					}
					k = kk
					d = kd{id, fmt.Sprintf("X prf hmac %s %s", hh.name, hlib.Tok(kb)), hh.dl, hh.dl, true}
				case 1:
					hh = hashes[rng.Pick(2, 4)] // only SHA256 / SHA512 are allowed for HKDF-PRF primitives
					kb := rng.Bytes(rng.Pick(32, 48, 64))
					salt := rng.Bytes(rng.Pick(0, 8, 32))
					ps, err := hkdfprf.NewParameters(len(kb), hh.hk, salt)
					if err != nil {
						panic(err)
					}
					kk, err := hkdfprf.NewKey(hlib.Secret(kb), ps)
					if err != nil {
						panic(err)
					}
					k = kk
					d = kd{id, fmt.Sprintf("X prf hkdf %s %s %s", hh.name, hlib.Tok(kb), hlib.Tok(salt)), hh.dl, 255 * hh.dl, true}
				default:
					kb := rng.Bytes(32)
					kk, err := aescmacprf.NewKey(hlib.Secret(kb))
					if err != nil {
						panic(err)
					}
					k = kk
					d = kd{id, fmt.Sprintf("X prf cmac %s", hlib.Tok(kb)), 16, 16, true}
				}
				opts := []keyset.KeyOpts{keyset.WithFixedID(id)}
				if i == prim {
					opts = append(opts, keyset.AsPrimary())
				} else {
					switch rng.Intn(4) {
					case 0:
						opts = append(opts, keyset.WithStatus(keyset.Disabled))
						d.en = false
					case 1:
						opts = append(opts, keyset.WithStatus(keyset.Destroyed))
						d.en = false
					}
				}
				if _, err := km.AddKeyWithOpts(k, internalapi.Token{}, opts...); err != nil {
					panic(err)
				}
				ks = append(ks, d)
			}
			kh, err := km.Handle()
			if err != nil {
				panic(err)
			}
			set, err := prf.NewPRFSet(kh)
			if err != nil {
				o.Violate("NewPRFSet failed on a valid PRF keyset: %v", err)
				continue
			}
			// the set's ids are exactly the ENABLED key ids, the primary id is the primary's
			var want, got []int
			for _, d := range ks {
				if d.en {
					want = append(want, int(d.id))
				}
			}
			for id := range set.PRFs {
				got = append(got, int(id))
			}
			sort.Ints(want)
			sort.Ints(got)
			if fmt.Sprint(want) != fmt.Sprint(got) {
				o.Violate("PRF set ids %v differ from the enabled key ids %v", got, want)
			}
			if set.PrimaryID != ks[prim].id {
				o.Violate("PRF set PrimaryID %d is not the primary key id %d", set.PrimaryID, ks[prim].id)
			}
			for _, d := range ks {
				if !d.en {
					continue
				}
				probe(o, rng, set.PRFs[d.id], d.cfg, d.dl, d.max, false)
			}
			in := rng.Bytes(8)
			a, e1 := set.ComputePrimaryPRF(in, 16)
			b, e2 := set.PRFs[set.PrimaryID].ComputePRF(in, 16)
			if e1 != nil || e2 != nil || !bytes.Equal(a, b) {
				o.Violate("ComputePrimaryPRF differs from the primary key's PRF")
			}
		}
	}
	// large.go: inputs around k·64 KiB, 1 MiB and k·4 KiB (own PRNG stream)
	largeSizes(o, hlib.NewRng(*hlib.FlagSeed, "c15/sizes"))
	// special.go: special salt / key values × lengths around the hash block; keysets with an un-instantiable key (own PRNG streams)
	specialValues(o)
}
