//go:build verif

// LARGE-SIZES section of harness c15 (own PRNG stream "c15/sizes": the lines of main.go stay what they were).
//
// PRF inputs (AES-CMAC-PRF, HMAC-PRF, HKDF-PRF whose input is the HKDF info) and subtle.ComputeHKDF key / salt / info of
// k·2^16 + d bytes, k ∈ {1,2,3,4,8,16}, d ∈ {−17,−16,−15,−1,0,1,15,16,17} (which contains 2^20 ± {0,1,16}), 2^20 + 2^16,
// and the "mid" grid k·4096 + d, k ∈ {1,2,3,4,8}. Inputs travel as `@<len>:<seedhex>` (driver ops `X prfgen …`,
// `X hkdfgen …`, Driver/Sym.lean genBytes): byte i = (seed[i mod |seed|] + i + (i >> 8)) mod 256, generated here by genMsg.
//
//	quick:    each PRF family over the whole grid once, construction path (prf/subtle, keyset → prf.NewPRFSet), hash and key
//	          size rotating with the length; ComputeHKDF on a 14-length subset holding every k and every d, the large
//	          argument (key, salt, info) rotating. Mid grid: whole.
//	thorough: every path / every hash × the whole grid; ComputeHKDF: each of the three arguments × the whole grid.
package main

import (
	"bytes"
	"crypto/sha256"
	"fmt"

	"github.com/tink-crypto/tink-go/v2/internal/verifharness/hlib"
	"github.com/tink-crypto/tink-go/v2/key"
	"github.com/tink-crypto/tink-go/v2/prf"
	"github.com/tink-crypto/tink-go/v2/prf/aescmacprf"
	"github.com/tink-crypto/tink-go/v2/prf/hkdfprf"
	"github.com/tink-crypto/tink-go/v2/prf/hmacprf"
	prfsubtle "github.com/tink-crypto/tink-go/v2/prf/subtle"
	"github.com/tink-crypto/tink-go/v2/subtle"
)

var (
	sizeKs = []int{1, 2, 3, 4, 8, 16}
	midKs  = []int{1, 2, 3, 4, 8}
	sizeDs = []int{-17, -16, -15, -1, 0, 1, 15, 16, 17}
)

// genMsg: the bytes the driver's `@<n>:<seed>` token stands for.
func genMsg(seed []byte, n int) []byte {
	b := make([]byte, n)
	m := len(seed)
	for i := range b {
		s := 0
		if m > 0 {
			s = int(seed[i%m])
		}
		b[i] = byte(s + i + i>>8)
	}
	return b
}

func genTok(seed []byte, n int) string { return fmt.Sprintf("@%d:%s", n, hlib.Tok(seed)) }

func bigGrid() []int {
	var g []int
	for _, k := range sizeKs {
		for _, d := range sizeDs {
			g = append(g, k<<16+d)
		}
	}
	return append(g, 1<<20+1<<16)
}

func midGrid() []int {
	var g []int
	for _, k := range midKs {
		for _, d := range sizeDs {
			g = append(g, k<<12+d)
		}
	}
	return g
}

// subGrid: 14 lengths of the big grid in which every k and every d occurs.
func subGrid(rot int) []int {
	var g []int
	for _, k := range sizeKs {
		g = append(g, k<<16)
	}
	for j, d := range sizeDs {
		if d != 0 {
			g = append(g, sizeKs[(j+rot)%len(sizeKs)]<<16+d)
		}
	}
	return g
}

func sizeClass(n int) string {
	switch {
	case n < 1<<16-17:
		return "4K-grid"
	case n <= 1<<16+17:
		return "64K"
	case n < 1<<20-17:
		return "128K..512K"
	}
	return ">=1M"
}

type prfInst struct {
	p    prf.PRF
	cfg  string // op prefix; input token and output length follow
	dl   int    // block of the output stream
	max  int
	name string
}

// viaSet: key → single-key keyset → prf.NewPRFSet → the primary's PRF
func viaSet(k key.Key) prf.PRF {
	kh, err := hlib.HandleOf(k)
	if err != nil {
		panic(err)
	}
	set, err := prf.NewPRFSet(kh)
	if err != nil {
		panic(err)
	}
	return set.PRFs[set.PrimaryID]
}

// path 0: prf/subtle with a 16-byte key, 1: prf/subtle with a 32-byte key, 2: keyset
func newCmacPrf(rng *hlib.Rng, path int) prfInst {
	kb := rng.Bytes(32)
	if path == 0 {
		kb = kb[:16]
	}
	in := prfInst{cfg: "X prfgen cmac " + hlib.Tok(kb), dl: 16, max: 16}
	if path == 2 {
		k, err := aescmacprf.NewKey(hlib.Secret(kb))
		if err != nil {
			panic(err)
		}
		in.p, in.name = viaSet(k), "cmacprf/keyset"
		return in
	}
	p, err := prfsubtle.NewAESCMACPRF(kb)
	if err != nil {
		panic(err)
	}
	in.p, in.name = p, fmt.Sprintf("cmacprf/subtle%d", len(kb))
	return in
}

// path 0: prf/subtle (any key size), 1: keyset
func newHmacPrf(rng *hlib.Rng, path, hi int) prfInst {
	h := hashes[hi]
	if path == 1 {
		kb := rng.Bytes(rng.Pick(16, 32, 64, 65, 129))
		ps, err := hmacprf.NewParameters(len(kb), h.hm)
		if err != nil {
			panic(err)
		}
		k, err := hmacprf.NewKey(hlib.Secret(kb), ps)
		if err != nil {
			panic(err)
		}
		return prfInst{p: viaSet(k), cfg: fmt.Sprintf("X prfgen hmac %s %s", h.name, hlib.Tok(kb)), dl: h.dl, max: h.dl, name: "hmacprf/keyset/" + h.name}
	}
	kb := rng.Bytes(rng.Pick(0, 1, 16, 32, 64, 65, 128, 200))
	p, err := prfsubtle.NewHMACPRF(h.name, kb)
	if err != nil {
		panic(err)
	}
	return prfInst{p: p, cfg: fmt.Sprintf("X prfgen hmac %s %s", h.name, hlib.Tok(kb)), dl: h.dl, max: h.dl, name: "hmacprf/subtle/" + h.name}
}

// path 0: prf/subtle (any hash), 1: keyset (SHA256 / SHA512 only)
func newHkdfPrf(rng *hlib.Rng, path, hi int) prfInst {
	h := hashes[hi]
	if path == 1 {
		if hi != 2 && hi != 4 {
			h = hashes[2+2*(hi&1)]
		}
		kb := rng.Bytes(rng.Pick(32, 48, 64))
		salt := rng.Bytes(rng.Pick(0, 8, 32, 200))
		ps, err := hkdfprf.NewParameters(len(kb), h.hk, salt)
		if err != nil {
			panic(err)
		}
		k, err := hkdfprf.NewKey(hlib.Secret(kb), ps)
		if err != nil {
			panic(err)
		}
		return prfInst{p: viaSet(k), cfg: fmt.Sprintf("X prfgen hkdf %s %s %s", h.name, hlib.Tok(kb), hlib.Tok(salt)), dl: h.dl, max: 255 * h.dl,
			name: "hkdfprf/keyset/" + h.name}
	}
	kb := rng.Bytes(rng.Pick(16, 32, 33, 64, 100))
	var salt []byte
	switch rng.Intn(4) {
	case 0:
		salt = nil
	case 1:
		salt = rng.Bytes(1 + rng.Intn(31))
	case 2:
		salt = rng.Bytes(h.dl)
	default:
		salt = rng.Bytes(129 + rng.Intn(40))
	}
	p, err := prfsubtle.NewHKDFPRF(h.name, kb, salt)
	if err != nil {
		panic(err)
	}
	return prfInst{p: p, cfg: fmt.Sprintf("X prfgen hkdf %s %s %s", h.name, hlib.Tok(kb), hlib.Tok(salt)), dl: h.dl, max: 255 * h.dl,
		name: "hkdfprf/subtle/" + h.name}
}

// sizeCase: one PRF input of L bytes. One property-level line at an output length near the block (sometimes a second
// block for HKDF, sometimes a short output), prefix law and determinism on the implementation, and an input modified at
// the chunk borders must change the output.
func sizeCase(o *hlib.Out, rng *hlib.Rng, in prfInst, L int) {
	o.Case()
	seed := rng.Bytes(rng.Intn(25))
	msg := genMsg(seed, L)
	tok := genTok(seed, L)
	o.Count("sizes/" + in.name)
	o.Count("sizes/len " + sizeClass(L))
	n := in.dl
	switch rng.Intn(6) {
	case 0:
		n = 1 + rng.Intn(in.dl)
	case 1:
		if in.max > in.dl {
			n = in.dl + 1 + rng.Intn(in.dl) // HKDF: a second block T(2) = HMAC(prk, T(1) ‖ info ‖ 2)
		}
	}
	out, err := in.p.ComputePRF(msg, uint32(n))
	o.Emit(fmt.Sprintf("!%s %s %d", in.cfg, tok, n), res(out, err), true)
	if err != nil {
		o.Violate("%s: ComputePRF failed on a %d-byte input", in.name, L)
		return
	}
	if len(out) != n {
		o.Violate("%s: asked %d bytes, got %d (|input|=%d)", in.name, n, len(out), L)
	}
	if out2, _ := in.p.ComputePRF(msg, uint32(n)); !bytes.Equal(out, out2) {
		o.Violate("%s: not deterministic on a %d-byte input", in.name, L)
	}
	if short, err := in.p.ComputePRF(msg, uint32(n/2)); err != nil || !bytes.HasPrefix(out, short) || len(short) != n/2 {
		o.Violate("%s: ComputePRF(x,%d) is not a prefix of ComputePRF(x,%d) (|x|=%d)", in.name, n/2, n, L)
	}
	if _, err := in.p.ComputePRF(msg, uint32(in.max+1)); err == nil {
		o.Violate("%s: output length %d beyond the maximum succeeded (|x|=%d)", in.name, in.max+1, L)
	}
	if n >= 8 {
		for _, pos := range []int{0, 1<<16 - 1, 1 << 16, L - 1<<16, L - 17, L - 1, rng.Intn(L)} {
			if pos < 0 || pos >= L {
				continue
			}
			msg[pos] ^= 0x01
			if out2, _ := in.p.ComputePRF(msg, uint32(n)); bytes.Equal(out, out2) {
				o.Violate("%s: the output does not depend on byte %d of a %d-byte input", in.name, pos, L)
			}
			msg[pos] ^= 0x01
		}
	}
}

// hkdfCase: subtle.ComputeHKDF with one of key / salt / info (which = 0 / 1 / 2) of L bytes.
func hkdfCase(o *hlib.Out, rng *hlib.Rng, hi, which, L int) {
	o.Case()
	h := hashes[hi]
	args := [3][]byte{rng.Bytes(rng.Pick(16, 32, 64)), rng.Bytes(rng.Pick(0, 1, 20, 32, 64, 140)), rng.Bytes(rng.Intn(40))}
	toks := [3]string{hlib.Tok(args[0]), hlib.Tok(args[1]), hlib.Tok(args[2])}
	seed := rng.Bytes(rng.Intn(25))
	args[which], toks[which] = genMsg(seed, L), genTok(seed, L)
	if rng.Chance(10) { // two large arguments at once
		w2 := (which + 1 + rng.Intn(2)) % 3
		l2 := 1<<16 + sizeDs[rng.Intn(len(sizeDs))]
		s2 := rng.Bytes(1 + rng.Intn(24))
		args[w2], toks[w2] = genMsg(s2, l2), genTok(s2, l2)
	}
	ts := rng.Pick(10, 16, 32, h.dl, h.dl-1)
	if which != 2 && rng.Chance(30) {
		ts = h.dl + 1 + rng.Intn(3*h.dl) // more blocks are cheap when the info is short
	}
	if ts < 10 {
		ts = 10
	}
	o.Count("sizes/computehkdf/" + []string{"key", "salt", "info"}[which])
	o.Count("sizes/len " + sizeClass(L))
	out, err := subtle.ComputeHKDF(h.name, args[0], args[1], args[2], uint32(ts))
	o.Emit(fmt.Sprintf("!X hkdfgen %s %s %s %s %d", h.name, toks[0], toks[1], toks[2], ts), res(out, err), true)
	if err != nil {
		o.Violate("ComputeHKDF failed with a %d-byte %s", L, []string{"key", "salt", "info"}[which])
		return
	}
	for _, pos := range []int{0, 1 << 16, L - 1} {
		if pos >= L {
			continue
		}
		args[which][pos] ^= 0x01
		if out2, _ := subtle.ComputeHKDF(h.name, args[0], args[1], args[2], uint32(ts)); bytes.Equal(out, out2) {
			o.Violate("ComputeHKDF: the output does not depend on byte %d of a %d-byte %s", pos, L, []string{"key", "salt", "info"}[which])
		}
		args[which][pos] ^= 0x01
	}
}

// genEquivalence: the generator on both sides. `X gen` returns the bytes themselves, `X gensha` their SHA-256, and a
// few PRF / HKDF lines carry the same input as hex (ordinary op and …gen op) and as `@len:seed`.
func genEquivalence(o *hlib.Out, rng *hlib.Rng) {
	o.Case()
	for _, n := range []int{0, 1, 2, 255, 256, 257, 511, 512, 513, 1000, 4097} {
		seed := rng.Bytes(rng.Pick(0, 1, 2, 7, 16, 24))
		o.Emit(fmt.Sprintf("!X gen %d %s", n, hlib.Tok(seed)), hlib.Tok(genMsg(seed, n)), true)
		o.Count("sizes/gen")
	}
	for _, n := range []int{65535, 65536, 65537, 1 << 17, 1<<20 + 1<<16} {
		seed := rng.Bytes(1 + rng.Intn(24))
		d := sha256.Sum256(genMsg(seed, n))
		o.Emit(fmt.Sprintf("!X gensha %d %s", n, hlib.Tok(seed)), hlib.Tok(d[:]), true)
		o.Count("sizes/gensha")
	}
	for i, n := range []int{0, 15, 16, 17, 300, 4096, 4111, 8209, 65553} {
		seed := rng.Bytes(1 + rng.Intn(24))
		msg := genMsg(seed, n)
		for _, in := range []prfInst{newCmacPrf(rng, i%3), newHmacPrf(rng, i%2, i%5), newHkdfPrf(rng, (i+1)%2, (i+2)%5)} {
			out, err := in.p.ComputePRF(msg, uint32(in.dl))
			o.Emit(fmt.Sprintf("!%s %s %d", in.cfg, genTok(seed, n), in.dl), res(out, err), true)
			o.Emit(fmt.Sprintf("!%s %s %d", in.cfg, hlib.Tok(msg), in.dl), res(out, err), true)
			o.Emit(fmt.Sprintf("!X prf%s %s %d", in.cfg[len("X prfgen"):], hlib.Tok(msg), in.dl), res(out, err), true)
			o.Count("sizes/both-forms")
		}
		h := hashes[i%5]
		key, salt := rng.Bytes(32), rng.Bytes(20)
		out, err := subtle.ComputeHKDF(h.name, key, salt, msg, 32)
		o.Emit(fmt.Sprintf("!X hkdfgen %s %s %s %s 32", h.name, hlib.Tok(key), hlib.Tok(salt), genTok(seed, n)), res(out, err), true)
		o.Emit(fmt.Sprintf("!X hkdf %s %s %s %s 32", h.name, hlib.Tok(key), hlib.Tok(salt), hlib.Tok(msg)), res(out, err), true)
		o.Count("sizes/both-forms")
	}
}

func largeSizes(o *hlib.Out, rng *hlib.Rng) {
	genEquivalence(o, rng)
	all := append(midGrid(), bigGrid()...)
	rot := rng.Intn(1 << 16)
	// ---------- AES-CMAC-PRF ----------
	for i, l := range all {
		if hlib.Thorough() {
			for p := 0; p < 3; p++ {
				sizeCase(o, rng, newCmacPrf(rng, p), l)
			}
		} else {
			sizeCase(o, rng, newCmacPrf(rng, (i+rot)%3), l)
		}
	}
	// ---------- HMAC-PRF ----------
	for i, l := range all {
		if hlib.Thorough() {
			for hi := range hashes {
				sizeCase(o, rng, newHmacPrf(rng, (i+hi+rot)%2, hi), l)
			}
		} else {
			sizeCase(o, rng, newHmacPrf(rng, (i+rot)%2, (i+rot/7)%len(hashes)), l)
		}
	}
	// ---------- HKDF-PRF (the input is the HKDF info) ----------
	for i, l := range all {
		if hlib.Thorough() {
			for hi := range hashes {
				sizeCase(o, rng, newHkdfPrf(rng, (i+hi+rot)%2, hi), l)
			}
		} else {
			sizeCase(o, rng, newHkdfPrf(rng, (i+rot)%2, (i+rot/7)%len(hashes)), l)
		}
	}
	// ---------- subtle.ComputeHKDF: large key (ikm) / salt / info ----------
	if hlib.Thorough() {
		for i, l := range all {
			for which := 0; which < 3; which++ {
				hkdfCase(o, rng, (i+which+rot)%len(hashes), which, l)
			}
		}
	} else {
		for i, l := range append(midGrid(), subGrid(rot)...) {
			hkdfCase(o, rng, (i+rot/7)%len(hashes), (i+rot)%3, l)
		}
	}
}
