//go:build verif

// LARGE-SIZES section of harness c08 (own PRNG stream "c08/sizes": the lines of the other sections stay what they were).
//
// AES-SIV associated data and plaintexts (S2V = CMAC over the associated data, XOREndAndCompute over the plaintext), the
// S2V hook, CMAC Compute and XOREndAndCompute alone, on inputs of k·2^16 + d bytes, k ∈ {1,2,3,4,8,16},
// d ∈ {−17,−16,−15,−1,0,1,15,16,17} (which contains 2^20 ± {0,1,16}), 2^20 + 2^16, and the "mid" grid k·4096 + d,
// k ∈ {1,2,3,4,8}. Inputs travel as `@<len>:<seedhex>` (driver ops `X sivgen`, `X s2vspecgen`, `X cmacgen`,
// `X xorendspecgen`; Driver/Sym.lean genBytes): byte i = (seed[i mod |seed|] + i + (i >> 8)) mod 256, generated here by
// genMsg. `X sivgen` answers `ok <|ct|> <prefix‖SIV> <SHA-256(ct)>`, so that result lines stay short as well.
//
//	quick:    large associated data through the full primitive (keyset TINK/CRUNCHY/RAW, daead/subtle rotating) and large
//	          S2V message through the hook: the whole grid each; large plaintext through the full primitive (the model's CTR
//	          layer costs ≈ 1.4 s per MiB): mid grid + 5 lengths up to 256 KiB + one at 1 MiB; Compute / XOREndAndCompute alone and both
//	          arguments large: a 14-length subset holding every k and every d.
//	thorough: the whole grid everywhere.
package main

import (
	"bytes"
	"crypto/sha256"
	"fmt"
	"strconv"
	"strings"

	dsubtle "github.com/tink-crypto/tink-go/v2/daead/subtle"
	"github.com/tink-crypto/tink-go/v2/internal/mac/aescmac"
	"github.com/tink-crypto/tink-go/v2/internal/verifharness/hlib"
)

var (
	sizeKs = []int{1, 2, 3, 4, 8, 16}
	midKs  = []int{1, 2, 3, 4, 8}
)

// genMsg: the bytes the driver's `@<n>:<seed>` token stands for.
func genMsg(seed []byte, n int) []byte {
	b := make([]byte, n)
	m := len(seed)
	for i := range b {
		s := 0
		if m > 0 {
			s = int(seed[i%m])
		}
		b[i] = byte(s + i + i>>8)
	}
	return b
}

func genTok(seed []byte, n int) string { return fmt.Sprintf("@%d:%s", n, hlib.Tok(seed)) }

// tokBytes decodes an ordinary token or `@<n>:<seed>` (replay files).
func tokBytes(s string) []byte {
	if !strings.HasPrefix(s, "@") {
		return hlib.FromTok(s)
	}
	p := strings.SplitN(s[1:], ":", 2)
	if len(p) != 2 {
		panic("bad token " + s)
	}
	n, err := strconv.Atoi(p[0])
	if err != nil || n < 0 {
		panic("bad token " + s)
	}
	return genMsg(hlib.FromTok(p[1]), n)
}

func bigGrid() []int {
	var g []int
	for _, k := range sizeKs {
		for _, d := range chunkOffsets {
			g = append(g, k<<16+d)
		}
	}
	return append(g, 1<<20+1<<16)
}

func midGrid() []int {
	var g []int
	for _, k := range midKs {
		for _, d := range chunkOffsets {
			g = append(g, k<<12+d)
		}
	}
	return g
}

// subGrid: 14 lengths of the big grid in which every k and every d occurs.
func subGrid(rot int) []int {
	var g []int
	for _, k := range sizeKs {
		g = append(g, k<<16)
	}
	for j, d := range chunkOffsets {
		if d != 0 {
			g = append(g, sizeKs[(j+rot)%len(sizeKs)]<<16+d)
		}
	}
	return g
}

func sizeClass(n int) string {
	switch {
	case n < 1<<12-17:
		return "small"
	case n < 1<<16-17:
		return "4K-grid"
	case n <= 1<<16+17:
		return "64K"
	case n < 1<<20-17:
		return "128K..512K"
	}
	return ">=1M"
}

// sivDigest: the answer format of `X sivgen`.
func sivDigest(ct []byte, err error, pre int) string {
	if err != nil {
		return "err"
	}
	d := sha256.Sum256(ct)
	return fmt.Sprintf("ok %d %s %s", len(ct), hlib.Tok(ct[:pre+16]), hlib.Tok(d[:]))
}

var borderPositions = func(n int, rng *hlib.Rng) []int {
	return []int{0, 1<<16 - 1, 1 << 16, n - 1<<16, n - 17, n - 1, rng.Intn(n + 1)}
}

// sivSizeCase: AES-SIV on generated inputs of pl / al bytes. The encrypt line is property level; round trip and the
// rejection of modified ciphertexts / associated data (also at the 64 KiB chunk borders) are checked on the implementation.
func sivSizeCase(o *hlib.Out, rng *hlib.Rng, s sivInst, pl, al int) {
	o.Case()
	ps, as := rng.Bytes(rng.Intn(25)), rng.Bytes(rng.Intn(25))
	pt, ad := genMsg(ps, pl), genMsg(as, al)
	o.Count("sizes/siv pt " + sizeClass(pl))
	o.Count("sizes/siv ad " + sizeClass(al))
	ct, err := s.d.EncryptDeterministically(pt, ad)
	o.Emit(fmt.Sprintf("!X sivgen %s %s %s", s.cfg, genTok(ps, pl), genTok(as, al)), sivDigest(ct, err, s.pre), true)
	if err != nil {
		o.Violate("AES-SIV encryption failed (|pt|=%d |ad|=%d)", pl, al)
		return
	}
	if ct2, _ := s.d.EncryptDeterministically(pt, ad); !bytes.Equal(ct, ct2) {
		o.Violate("AES-SIV is not deterministic (|pt|=%d |ad|=%d)", pl, al)
	}
	back, err := s.d.DecryptDeterministically(ct, ad)
	if err != nil || !bytes.Equal(back, pt) {
		o.Violate("AES-SIV decrypt does not invert encrypt (|pt|=%d |ad|=%d)", pl, al)
	}
	for _, pos := range borderPositions(len(ct)-1, rng) {
		if pos < 0 || pos >= len(ct) {
			continue
		}
		ct[pos] ^= 0x01
		if _, e := s.d.DecryptDeterministically(ct, ad); e == nil {
			o.Violate("AES-SIV accepted a ciphertext modified at byte %d (|pt|=%d |ad|=%d)", pos, pl, al)
		}
		ct[pos] ^= 0x01
	}
	for _, pos := range borderPositions(al-1, rng) {
		if pos < 0 || pos >= al {
			continue
		}
		ad[pos] ^= 0x01
		if _, e := s.d.DecryptDeterministically(ct, ad); e == nil {
			o.Violate("AES-SIV accepted associated data modified at byte %d (|pt|=%d |ad|=%d)", pos, pl, al)
		}
		ad[pos] ^= 0x01
	}
}

// s2vSizeCase: the S2V hook against RFC 5297 written from the RFC.
func s2vSizeCase(o *hlib.Out, rng *hlib.Rng, ml, al int) {
	o.Case()
	key := rng.Bytes(64)
	s, err := dsubtle.NewAESSIV(append([]byte(nil), key...))
	if err != nil {
		panic(err)
	}
	ms, as := rng.Bytes(rng.Intn(25)), rng.Bytes(rng.Intn(25))
	o.Count("sizes/s2v msg " + sizeClass(ml))
	o.Count("sizes/s2v ad " + sizeClass(al))
	o.Emit(fmt.Sprintf("!X s2vspecgen %s %s %s", hlib.Tok(key[:32]), genTok(ms, ml), genTok(as, al)),
		hlib.Tok(s.VerifS2V(genMsg(ms, ml), genMsg(as, al))), true)
}

// cmacSizeCase: (*CMAC).Compute alone (16- and 32-byte keys) against the model of the routine (= RFC 4493 by theorem
// Cmac.compute_eq_spec; the RFC-text `spec` function of the driver is quadratic, so it is used up to 64 KiB + 17 only).
func cmacSizeCase(o *hlib.Out, rng *hlib.Rng, l int) {
	o.Case()
	key := rng.Bytes(rng.Pick(16, 32))
	cm, err := aescmac.New(key)
	if err != nil {
		panic(err)
	}
	seed := rng.Bytes(rng.Intn(25))
	data := genMsg(seed, l)
	tag := cm.Compute(data)
	o.Count("sizes/cmac " + sizeClass(l))
	o.Emit(fmt.Sprintf("!X cmacgen 0 %s 16 R 0 %s", hlib.Tok(key), genTok(seed, l)), "ok "+hlib.Tok(tag), true)
	if l <= 1<<16+17 {
		o.Emit(fmt.Sprintf("!X cmacspecgen %s %s", hlib.Tok(key), genTok(seed, l)), hlib.Tok(tag), true)
	}
}

func xorendSizeCase(o *hlib.Out, rng *hlib.Rng, l int) {
	o.Case()
	key := rng.Bytes(rng.Pick(16, 32))
	cm, err := aescmac.New(key)
	if err != nil {
		panic(err)
	}
	seed := rng.Bytes(rng.Intn(25))
	last := rng.Bytes(16)
	out, _ := cm.XOREndAndCompute(genMsg(seed, l), last)
	o.Count("sizes/xorend " + sizeClass(l))
	o.Emit(fmt.Sprintf("!X xorendspecgen %s %s %s", hlib.Tok(key), genTok(seed, l), hlib.Tok(last)), hlib.Tok(out), true)
}

// sizeEquivalence: the generator on both sides: `X gen` (the bytes), `X gensha` (their SHA-256), and lines that carry
// the same input as hex through the ordinary op and as `@len:seed` through the …gen op.
func sizeEquivalence(o *hlib.Out, rng *hlib.Rng) {
	o.Case()
	for _, n := range []int{0, 1, 2, 255, 256, 257, 511, 512, 513, 1000, 4097} {
		seed := rng.Bytes(rng.Pick(0, 1, 2, 7, 16, 24))
		o.Emit(fmt.Sprintf("!X gen %d %s", n, hlib.Tok(seed)), hlib.Tok(genMsg(seed, n)), true)
		o.Count("sizes/gen")
	}
	for _, n := range []int{65535, 65536, 65537, 1 << 17, 1<<20 + 1<<16} {
		seed := rng.Bytes(1 + rng.Intn(24))
		d := sha256.Sum256(genMsg(seed, n))
		o.Emit(fmt.Sprintf("!X gensha %d %s", n, hlib.Tok(seed)), hlib.Tok(d[:]), true)
		o.Count("sizes/gensha")
	}
	for i, n := range []int{0, 15, 16, 17, 300, 4096, 4111, 8209, 65553} {
		ps, as := rng.Bytes(1+rng.Intn(24)), rng.Bytes(1+rng.Intn(24))
		al := []int{0, 16, 33, 4097}[i%4]
		pt, ad := genMsg(ps, n), genMsg(as, al)
		s := randSIV(o, rng)
		ct, err := s.d.EncryptDeterministically(pt, ad)
		o.Emit(fmt.Sprintf("!X sivgen %s %s %s", s.cfg, genTok(ps, n), genTok(as, al)), sivDigest(ct, err, s.pre), true)
		o.Emit(fmt.Sprintf("!X sivgen %s %s %s", s.cfg, hlib.Tok(pt), hlib.Tok(ad)), sivDigest(ct, err, s.pre), true)
		o.Emit(fmt.Sprintf("!X siv %s %s %s", s.cfg, hlib.Tok(pt), hlib.Tok(ad)), res(ct, err), true)
		key := rng.Bytes(64)
		sv, err := dsubtle.NewAESSIV(append([]byte(nil), key...))
		if err != nil {
			panic(err)
		}
		v := hlib.Tok(sv.VerifS2V(ad, pt)) // the large one as associated data
		o.Emit(fmt.Sprintf("!X s2vspecgen %s %s %s", hlib.Tok(key[:32]), genTok(as, al), genTok(ps, n)), v, true)
		o.Emit(fmt.Sprintf("!X s2vspec %s %s %s", hlib.Tok(key[:32]), hlib.Tok(ad), hlib.Tok(pt)), v, true)
		cm, err := aescmac.New(key[:16+16*(i&1)])
		if err != nil {
			panic(err)
		}
		ck := hlib.Tok(key[:16+16*(i&1)])
		t := hlib.Tok(cm.Compute(pt))
		o.Emit(fmt.Sprintf("!X cmacgen 0 %s 16 R 0 %s", ck, genTok(ps, n)), "ok "+t, true)
		o.Emit(fmt.Sprintf("!X cmacspecgen %s %s", ck, genTok(ps, n)), t, true)
		o.Emit(fmt.Sprintf("!X cmacspec %s %s", ck, hlib.Tok(pt)), t, true)
		if n >= 16 {
			last := rng.Bytes(16)
			out, _ := cm.XOREndAndCompute(pt, last)
			o.Emit(fmt.Sprintf("!X xorendspecgen %s %s %s", ck, genTok(ps, n), hlib.Tok(last)), hlib.Tok(out), true)
			o.Emit(fmt.Sprintf("!X xorendspec %s %s %s", ck, hlib.Tok(pt), hlib.Tok(last)), hlib.Tok(out), true)
		}
		o.Count("sizes/both-forms")
	}
}

func smallSide(rng *hlib.Rng) int { return rng.Pick(0, 1, 15, 16, 17, 31, 32, 33, 100, 1041) }

// pathSIV: the construction paths rotate: keyset TINK, keyset CRUNCHY, keyset RAW, daead/subtle.
func pathSIV(o *hlib.Out, rng *hlib.Rng, p int) sivInst {
	key := rng.Bytes(64)
	id := rng.KeyID()
	switch p % 4 {
	case 0:
		return newSIV(o, key, 0, id, false)
	case 1:
		return newSIV(o, key, 1, id, false)
	case 2:
		return newSIV(o, key, 2, id, false)
	}
	return newSIV(o, key, 2, id, true)
}

func sizeLoop(o *hlib.Out, rng *hlib.Rng) {
	sizeEquivalence(o, rng)
	mid, big := midGrid(), bigGrid()
	all := append(append([]int(nil), mid...), big...)
	rot := rng.Intn(1 << 16)
	sub := subGrid(rot)
	// ---------- large associated data through the full primitive: S2V computes CMAC(ad) ----------
	for i, l := range all {
		if hlib.Thorough() {
			for p := 0; p < 4; p++ {
				sivSizeCase(o, rng, pathSIV(o, rng, p), smallSide(rng), l)
			}
		} else {
			sivSizeCase(o, rng, pathSIV(o, rng, i+rot), smallSide(rng), l)
		}
	}
	// ---------- large plaintext through the full primitive: S2V = XOREndAndCompute(pt), then CTR ----------
	pts := all
	if !hlib.Thorough() {
		d := func(j int) int { return chunkOffsets[(rot+j)%len(chunkOffsets)] }
		pts = append(append([]int(nil), mid...), 1<<16+d(0), 1<<17, 1<<17+d(1), 3<<16+d(2), 1<<18, 1<<20+d(3))
	}
	for i, l := range pts {
		sivSizeCase(o, rng, pathSIV(o, rng, i+rot/5), l, smallSide(rng))
	}
	// ---------- large S2V message through the hook (both branches of the ad size) ----------
	for _, l := range all {
		s2vSizeCase(o, rng, l, smallSide(rng))
	}
	// ---------- Compute and XOREndAndCompute alone; both arguments large ----------
	lone := append(append([]int(nil), mid...), sub...)
	if hlib.Thorough() {
		lone = all
	}
	for _, l := range lone {
		cmacSizeCase(o, rng, l)
		xorendSizeCase(o, rng, l)
	}
	npairs := 4
	if hlib.Thorough() {
		npairs = len(sub)
	}
	for i := 0; i < npairs; i++ {
		a, b := sub[(i*5+rot)%len(sub)], sub[(i*5+rot+3)%len(sub)]
		s2vSizeCase(o, rng, a, b)
		if i%2 == 0 && a+b < 3<<19 {
			sivSizeCase(o, rng, pathSIV(o, rng, i+rot/11), a, b)
		}
	}
}
