//go:build verif

package main

import (
	"encoding/binary"
	"fmt"

	dsubtle "github.com/tink-crypto/tink-go/v2/daead/subtle"
	"github.com/tink-crypto/tink-go/v2/internal/verifharness/hlib"
)

// The CTR layer of AES-SIV starts at the S2V output (bits 31 and 63 cleared) and counts big-endian over the
// whole block. A wrong carry is invisible unless the low bits of the masked SIV wrap INSIDE the message —
// for random inputs a 2^-w·blocks event for a carry of width w. Two ways to get there:
//
//   - ctrHunt: search, in Go, for (key, pt, ad) whose S2V value wraps its low 8 / 16 / 24 bits inside the
//     message (only S2V is recomputed per try, through the hook VerifS2V), then run the ordinary
//     encrypt / decrypt lines on them: end to end through the public API;
//   - ctrDirect: feed the CTR layer alone (hook VerifCtrCrypt) with IVs whose low k bits are (nearly) all
//     ones; the only way to reach carries wider than ~24 bits.

// wrapIndex: the first block index whose counter has wrapped the low w bits of the masked siv (0 = none below 2^w).
func wrapIndex(siv []byte, w uint) int {
	low := binary.BigEndian.Uint32(siv[12:16]) & 0x7fffffff & (1<<w - 1)
	if low == 0 {
		return 0
	}
	return int(1<<w - low)
}

func ctrHunt(o *hlib.Out, rng *hlib.Rng) {
	type job struct {
		w      uint
		n      int
		length func(i int) int
	}
	jobs := []job{
		{8, hlib.N(12, 96), func(i int) int { return 16*(2+rng.Intn(39)) + rng.Pick(0, 0, 1, 15)*rng.Intn(2) }},
		{16, hlib.N(10, 80), func(i int) int {
			if i%2 == 1 { // several 4 KiB chunks, so that the wrap can sit before / on / after a chunk boundary
				return 4097 + rng.Intn(16384)
			}
			return 1024 + rng.Intn(3073)
		}},
		{24, hlib.N(3, 24), func(i int) int {
			switch i % 3 {
			case 0:
				return 65536 + rng.Pick(-15, 0, 0, 1)
			case 1:
				return 49152 + rng.Intn(16384)
			}
			return 32768 + rng.Intn(16384)
		}},
	}
	for _, j := range jobs {
		for i := 0; i < j.n; i++ {
			o.Case()
			key := rng.Bytes(64)
			vi, id, sub := rng.Intn(3), rng.KeyID(), rng.Chance(50)
			pt := rng.Bytes(j.length(i))
			ad := rng.Bytes(8 + rng.Pick(0, 0, 1, 8, 9, 24, 40))
			blocks := (len(pt) + 15) / 16
			s, err := dsubtle.NewAESSIV(append([]byte(nil), key...))
			if err != nil {
				panic(err)
			}
			// expected tries: 2^w / blocks; the bound makes a miss a < e^-40 event
			bound := 40 * (1 << j.w) / blocks
			found := false
			t := 0
			for ; t < bound && !found; t++ {
				binary.BigEndian.PutUint64(ad, uint64(t))
				wi := wrapIndex(s.VerifS2V(pt, ad), j.w)
				found = wi >= 1 && wi <= blocks-1
			}
			o.Hist[fmt.Sprintf("ctrhunt/carry%d/tries", j.w)] += t
			if !found {
				o.Count(fmt.Sprintf("ctrhunt/carry%d/MISSED", j.w))
				continue
			}
			o.Count(fmt.Sprintf("ctrhunt/carry%d/found", j.w))
			sivCase(o, rng, newSIV(o, key, vi, id, sub), pt, ad, 0, 0)
		}
	}
}

func ctrDirect(o *hlib.Out, rng *hlib.Rng) {
	n := hlib.N(90, 720)
	widths := []int{8, 16, 24, 31, 32, 40, 63, 64, 95, 127, 128}
	for c := 0; c < n; c++ {
		if c%10 == 0 {
			o.Case()
		}
		key := rng.Bytes(64)
		s, err := dsubtle.NewAESSIV(append([]byte(nil), key...))
		if err != nil {
			panic(err)
		}
		iv := rng.Bytes(16)
		kind := "random"
		if c%9 != 8 {
			k := widths[c%len(widths)]
			kind = fmt.Sprint(k)
			for b := 0; b < k; b++ { // low k bits all ones …
				iv[15-b/8] |= 1 << uint(b%8)
			}
			iv[15] -= byte(rng.Pick(0, 0, 1, 2, 3, 7)) // … or a few steps before
		}
		data := rng.Bytes(16*(2+rng.Intn(39)) + rng.Pick(0, 0, 1, 8, 15))
		o.Count("ctrdirect/ones=" + kind)
		out := s.VerifCtrCrypt(append([]byte(nil), iv...), data)
		o.Emit(fmt.Sprintf("!X sivctr %s %s %s", hlib.Tok(key[32:]), hlib.Tok(iv), hlib.Tok(data)), "ok "+hlib.Tok(out), true)
	}
}
