//go:build verif

// COLLIDING-PREFIX section of harness c08 (own PRNG stream "c08/collide"; property C08 at the keyset level:
// "decryption inverts encryption" for the tink.DeterministicAEAD that daead.New builds over a keyset).
//
// A RAW (no prefix) AES-SIV key R and a TINK / CRUNCHY / LEGACY key P live in one keyset and a valid ciphertext of R —
// which begins with the synthetic IV — starts with P's 5-byte output prefix (0x01‖id or 0x00‖id). With random ids this
// has probability 2^-40, so it is built on purpose: plaintexts are searched until R's ciphertext starts with the wanted
// byte, then P gets id = ct[1:5]. wrappedDAEAD tries P first (it rejects) and must still try the RAW keys.
//
// Members are of two kinds: aessiv key objects (full primitive, variants T/C/R) and keys of a stub registry.KeyManager
// (own type URL → FallbackProtoKey → the legacy path through fullDAEADPrimitiveAdapter, output prefix types T/C/L/R).
// The colliding key sits before / between / after the RAW keys, is primary or not, ENABLED or DISABLED, with the same
// key material as R or other material. Every keyset is probed with the colliding ciphertext, modified copies, every
// member's ordinary ciphertexts, prefixed members' ciphertexts without prefix / with the other start byte, RAW
// ciphertexts behind the colliding prefix, and its own output. Demand (never hard-coded, derived from the members):
// the keyset returns a plaintext iff an ENABLED member on its own accepts, and then that member's plaintext. A member's
// own verdict comes from aessiv.NewDeterministicAEAD (key objects) or from the harness's prefix check + daead/subtle
// (stub keys); it is also a model line (`!X sivd`, Lean RFC 5297). The keyset verdict is compared with the Lean wrap
// model (`W keys …`, `!W acceptb <first 5 bytes> <len> <member bits>` = TinkVerif.Wrap.accept).
package main

import (
	"bytes"
	"encoding/binary"
	"errors"
	"fmt"
	"strings"

	"google.golang.org/protobuf/proto"

	"github.com/tink-crypto/tink-go/v2/core/registry"
	"github.com/tink-crypto/tink-go/v2/daead"
	"github.com/tink-crypto/tink-go/v2/daead/aessiv"
	dsubtle "github.com/tink-crypto/tink-go/v2/daead/subtle"
	"github.com/tink-crypto/tink-go/v2/internal/internalapi"
	"github.com/tink-crypto/tink-go/v2/internal/protoserialization"
	"github.com/tink-crypto/tink-go/v2/internal/verifharness/hlib"
	"github.com/tink-crypto/tink-go/v2/key"
	"github.com/tink-crypto/tink-go/v2/keyset"
	tinkpb "github.com/tink-crypto/tink-go/v2/proto/tink_go_proto"
	"github.com/tink-crypto/tink-go/v2/tink"
)

// ---------- stub key manager: the legacy (key-manager) path of the DAEAD factory ----------

const urlStubSIV = "type.googleapis.com/verif.c08.RawAesSiv"

type stubSivKM struct{}

func (stubSivKM) Primitive(v []byte) (any, error) { return dsubtle.NewAESSIV(v) }
func (stubSivKM) NewKey([]byte) (proto.Message, error) {
	return nil, errors.New("verif stub: key generation unsupported")
}
func (stubSivKM) NewKeyData([]byte) (*tinkpb.KeyData, error) {
	return nil, errors.New("verif stub: key generation unsupported")
}
func (stubSivKM) DoesSupport(u string) bool { return u == urlStubSIV }
func (stubSivKM) TypeURL() string           { return urlStubSIV }

var stubKMRegistered bool

func ensureStubKM() {
	if !stubKMRegistered {
		if err := registry.RegisterKeyManager(stubSivKM{}); err != nil {
			panic(err)
		}
		stubKMRegistered = true
	}
}

var (
	c4code  = []string{"T", "C", "L", "R"}
	c4proto = []tinkpb.OutputPrefixType{tinkpb.OutputPrefixType_TINK, tinkpb.OutputPrefixType_CRUNCHY, tinkpb.OutputPrefixType_LEGACY, tinkpb.OutputPrefixType_RAW}
)

// dspec describes one DAEAD key.
type dspec struct {
	stub bool // key of the stub key manager (legacy path) instead of an aessiv key object
	key  []byte
	vi   int // 0 T, 1 C, 2 L (stub only), 3 R
	id   uint32
}

func (s dspec) label() string {
	if s.stub {
		return "stub/" + c4code[s.vi]
	}
	return "aessiv/" + c4code[s.vi]
}

func (s dspec) prefix() []byte {
	switch s.vi {
	case 0:
		return binary.BigEndian.AppendUint32([]byte{1}, s.id)
	case 1, 2:
		return binary.BigEndian.AppendUint32([]byte{0}, s.id)
	}
	return nil
}

func (s dspec) modelCfg() string {
	kid := s.id
	if s.vi == 3 {
		kid = 0
	}
	return fmt.Sprintf("%s %s %d", hlib.Tok(s.key), c4code[s.vi], kid)
}

// soloStub is the harness's own single-key view of a stub key: prefix ‖ raw AES-SIV (daead/subtle).
type soloStub struct {
	pre []byte
	raw tink.DeterministicAEAD
}

func (a soloStub) EncryptDeterministically(pt, ad []byte) ([]byte, error) {
	ct, err := a.raw.EncryptDeterministically(pt, ad)
	if err != nil {
		return nil, err
	}
	return append(append([]byte(nil), a.pre...), ct...), nil
}

func (a soloStub) DecryptDeterministically(ct, ad []byte) ([]byte, error) {
	if len(ct) < len(a.pre) || !bytes.Equal(ct[:len(a.pre)], a.pre) {
		return nil, errors.New("prefix mismatch")
	}
	return a.raw.DecryptDeterministically(ct[len(a.pre):], ad)
}

// build returns the key object for the keyset and the key's own single-key primitive (no keyset wrapper involved).
func (s dspec) build() (key.Key, tink.DeterministicAEAD) {
	idReq := s.id
	if s.vi == 3 {
		idReq = 0
	}
	if s.stub {
		kd := &tinkpb.KeyData{TypeUrl: urlStubSIV, Value: append([]byte(nil), s.key...), KeyMaterialType: tinkpb.KeyData_SYMMETRIC}
		ser, err := protoserialization.NewKeySerialization(kd, c4proto[s.vi], idReq)
		if err != nil {
			panic(err)
		}
		k, err := protoserialization.ParseKey(ser)
		if err != nil {
			panic(err)
		}
		if _, ok := k.(*protoserialization.FallbackProtoKey); !ok {
			panic(fmt.Sprintf("c08 collide: stub key parsed to %T, not a fallback key", k))
		}
		raw, err := dsubtle.NewAESSIV(append([]byte(nil), s.key...))
		if err != nil {
			panic(err)
		}
		return k, soloStub{pre: s.prefix(), raw: raw}
	}
	ps, err := aessiv.NewParameters(64, []aessiv.Variant{aessiv.VariantTink, aessiv.VariantCrunchy, aessiv.VariantUnknown, aessiv.VariantNoPrefix}[s.vi])
	if err != nil {
		panic(err)
	}
	k, err := aessiv.NewKey(hlib.Secret(s.key), idReq, ps)
	if err != nil {
		panic(err)
	}
	d, err := aessiv.NewDeterministicAEAD(k, internalapi.Token{})
	if err != nil {
		panic(err)
	}
	return k, d
}

type dmember struct {
	s       dspec
	role    byte // 'R' target RAW key, 'r' other RAW key, 'P' colliding key, 'F' unrelated prefixed key
	enabled bool
	primary bool
	k       key.Key
	p       tink.DeterministicAEAD
}

type dset struct {
	o       *hlib.Out
	desc    string
	members []*dmember
	ks      tink.DeterministicAEAD
}

func (c *dset) keysLine() string {
	parts := make([]string, len(c.members))
	for i, m := range c.members {
		st := "E"
		if !m.enabled {
			st = "D"
		}
		parts[i] = fmt.Sprintf("%d:%s:%s:%s", m.s.id, st, hlib.B01(m.primary), hlib.Tok(m.s.prefix()))
	}
	return strings.Join(parts, ";")
}

func (c *dset) describe() string {
	ls := make([]string, len(c.members))
	for i, m := range c.members {
		ls[i] = fmt.Sprintf("%c=%s key=%s", m.role, m.s.label(), hlib.Tok(m.s.key))
	}
	return fmt.Sprintf("%s keyset [%s] members {%s}", c.desc, c.keysLine(), strings.Join(ls, "; "))
}

// probe: one DecryptDeterministically on the keyset against the members' own verdicts and the wrap model.
func (c *dset) probe(what string, ct, ad []byte, modelMembers bool) bool {
	o := c.o
	bits := make([]byte, len(c.members))
	var want [][]byte // plaintexts of the ENABLED members that accept
	for i, m := range c.members {
		b, err := m.p.DecryptDeterministically(ct, ad)
		bits[i] = '0'
		if err == nil {
			bits[i] = '1'
			if m.enabled {
				want = append(want, b)
			}
		}
		if modelMembers {
			o.Emit(fmt.Sprintf("!X sivd %s %s %s", m.s.modelCfg(), hlib.Tok(ct), hlib.Tok(ad)), rej(b, err), true)
		}
	}
	in := append([]byte(nil), ct...)
	var got []byte
	var err error
	if p := hlib.Recover(func() { got, err = c.ks.DecryptDeterministically(in, ad) }); p != "" {
		o.Violate("keyset DecryptDeterministically PANICS on %s: %s (%s ct=%s ad=%s)", what, p, c.describe(), hlib.Tok(ct), hlib.Tok(ad))
		return false
	}
	if !bytes.Equal(in, ct) {
		o.Violate("keyset DecryptDeterministically modified the ciphertext buffer on %s (%s)", what, c.describe())
	}
	verdict := "reject"
	if err == nil {
		verdict = "accept"
	}
	o.Count("collide/probe/" + what + "/" + verdict)
	switch {
	case err == nil && len(want) == 0:
		o.Violate("keyset DecryptDeterministically accepts %s although no ENABLED member accepts it (%s ct=%s ad=%s bits=%s)", what, c.describe(), hlib.Tok(ct), hlib.Tok(ad), bits)
	case err != nil && len(want) > 0:
		o.Violate("keyset DecryptDeterministically rejects %s although an ENABLED member's own primitive decrypts it (%s ct=%s ad=%s bits=%s): %v", what, c.describe(), hlib.Tok(ct), hlib.Tok(ad), bits, err)
	case err == nil:
		ok := false
		for _, w := range want {
			ok = ok || bytes.Equal(w, got)
		}
		if !ok {
			o.Violate("keyset DecryptDeterministically returns %s on %s, the accepting member returns %s (%s ct=%s ad=%s)", hlib.Tok(got), what, hlib.Tok(want[0]), c.describe(), hlib.Tok(ct), hlib.Tok(ad))
		}
	}
	n := len(ct)
	if n > 5 {
		n = 5
	}
	res := "reject"
	if err == nil {
		res = "ok"
	}
	o.Emit(fmt.Sprintf("!W acceptb %s %d %s", hlib.Tok(ct[:n]), len(ct), bits), res, true)
	return err == nil
}

// layouts: R = the RAW key whose ciphertext collides, r = another RAW key, P = the colliding prefixed key, F = an unrelated
// prefixed key; p / x = DISABLED colliding key / DISABLED target RAW key.
var dShapes = []string{"PR", "RP", "PRr", "PrR", "RPr", "rPR", "RrP", "rRP", "FPR", "PFR", "RFP", "RPF", "pR", "Rp", "Px", "xP", "PxR", "FrPRF"}

// colliding key kinds: aessiv T, aessiv C, stub T, stub C, stub L
var dColliders = []struct {
	stub bool
	vi   int
}{{false, 0}, {false, 1}, {true, 0}, {true, 1}, {true, 2}}

func runCollide(o *hlib.Out, rng *hlib.Rng) {
	ensureStubKM()
	for rk, rawStub := range []bool{false, true} {
		for ci, col := range dColliders {
			for si, shape := range dShapes {
				for mat := 0; mat < 2; mat++ { // 0 equal key material, 1 other key
					sub := hlib.NewRng(rng.U64(), "collide")
					if !hlib.Thorough() && (si+ci+mat+rk)%3 != 0 {
						continue // quick: a third of the matrix (every shape × colliding kind at least once over the two RAW kinds)
					}
					collideCase(o, sub, rawStub, col.stub, col.vi, shape, mat)
				}
			}
		}
	}
}

func collideCase(o *hlib.Out, rng *hlib.Rng, rawStub, colStub bool, pv int, shape string, mat int) {
	o.Case()
	rs := dspec{stub: rawStub, key: rng.Bytes(64), vi: 3}
	ps := dspec{stub: colStub, vi: pv}
	desc := fmt.Sprintf("raw=%s colliding=%s shape=%s material=%s", rs.label(), ps.label(), shape, []string{"equal", "other-key"}[mat])
	_, rp := rs.build()
	want := byte(0)
	if pv == 0 {
		want = 1
	}
	base := rng.Bytes(smallLen(rng))
	ad := rng.Bytes(smallLen(rng) % 64)
	var pt, ct []byte
	tries := 0
	for i := 0; i < 4000; i++ {
		m := binary.BigEndian.AppendUint16(append([]byte(nil), base...), uint16(i))
		t, err := rp.EncryptDeterministically(m, ad)
		if err != nil {
			panic(err)
		}
		if t[0] == want {
			pt, ct, tries = m, t, i+1
			break
		}
	}
	if ct == nil {
		o.Count("collide/search/not-found")
		return
	}
	o.Count("collide/search/found")
	o.Count(fmt.Sprintf("collide/search/tries<=%d", 1<<uint(cbitLen(tries))))
	ps.id = binary.BigEndian.Uint32(ct[1:5])
	if mat == 0 {
		ps.key = append([]byte(nil), rs.key...)
	} else {
		ps.key = rng.Bytes(64)
	}
	used := map[uint32]bool{ps.id: true}
	freshID := func() uint32 {
		for {
			id := rng.KeyID()
			if !used[id] {
				used[id] = true
				return id
			}
		}
	}
	c := &dset{o: o, desc: desc}
	var enabledIdx []int
	for i := 0; i < len(shape); i++ {
		m := &dmember{enabled: true}
		switch shape[i] {
		case 'R', 'x':
			m.s, m.role, m.enabled = rs, 'R', shape[i] == 'R'
			m.s.id = freshID()
		case 'r':
			m.s = dspec{stub: rng.Bool(), key: rng.Bytes(64), vi: 3}
			if rng.Bool() {
				m.s.key = append([]byte(nil), rs.key...) // a twin of R
			}
			m.s.id, m.role = freshID(), 'r'
		case 'P', 'p':
			m.s, m.role, m.enabled = ps, 'P', shape[i] == 'P'
		case 'F':
			m.s = dspec{stub: rng.Bool(), key: rng.Bytes(64), id: freshID()}
			m.s.vi = rng.Intn(2)
			if m.s.stub {
				m.s.vi = rng.Intn(3)
			}
			m.role = 'F'
		}
		m.k, m.p = m.s.build()
		if m.enabled {
			enabledIdx = append(enabledIdx, i)
		}
		c.members = append(c.members, m)
	}
	c.members[enabledIdx[rng.Intn(len(enabledIdx))]].primary = true
	km := keyset.NewManager()
	for _, m := range c.members {
		opts := []keyset.KeyOpts{keyset.WithFixedID(m.s.id)}
		if m.primary {
			opts = append(opts, keyset.AsPrimary())
		}
		if !m.enabled {
			opts = append(opts, keyset.WithStatus(keyset.Disabled))
		}
		if _, err := km.AddKeyWithOpts(m.k, internalapi.Token{}, opts...); err != nil {
			panic(fmt.Sprintf("harness: %v (%s)", err, c.describe()))
		}
	}
	kh, err := km.Handle()
	if err != nil {
		panic(err)
	}
	c.ks, err = daead.New(kh)
	if err != nil {
		o.Violate("daead.New refuses a valid keyset: %v (%s)", err, c.describe())
		return
	}
	o.Count("collide/keysets/raw=" + rs.label() + "/colliding=" + ps.label())
	o.Emit("W keys "+c.keysLine(), "ok", true)

	if !bytes.HasPrefix(ct, ps.prefix()) {
		panic("harness: colliding prefix was not built")
	}
	// --- the colliding ciphertext of the RAW key
	o.Emit(fmt.Sprintf("!X siv %s %s %s", rs.modelCfg(), hlib.Tok(pt), hlib.Tok(ad)), "ok "+hlib.Tok(ct), true)
	c.probe("colliding-raw-ct", ct, ad, true)
	fl := append([]byte(nil), ct...)
	fl[len(fl)-1-rng.Intn(len(fl)-5)] ^= 1 << uint(rng.Intn(8))
	c.probe("colliding-raw-ct/flipped", fl, ad, false)
	fp := append([]byte(nil), ct...)
	fp[rng.Intn(5)] ^= 1 << uint(rng.Intn(8))
	c.probe("colliding-raw-ct/flipped-in-prefix", fp, ad, false)
	c.probe("colliding-raw-ct/truncated", ct[:len(ct)-1], ad, false)
	c.probe("colliding-raw-ct/extended", append(append([]byte(nil), ct...), byte(rng.Intn(256))), ad, false)
	c.probe("colliding-raw-ct/other-ad", ct, append(append([]byte(nil), ad...), 0), false)
	c.probe("colliding-raw-ct/prefix-only", ct[:5], ad, false)
	c.probe("colliding-raw-ct/siv-only", ct[:16], ad, false)
	c.probe("colliding-raw-ct/15-bytes", ct[:15], ad, false)
	if len(ct) > 21 {
		c.probe("colliding-raw-ct/prefix+siv", ct[:21], ad, false)
	}
	// --- ordinary ciphertexts of every member, of the colliding plaintext and of a fresh one
	pt2, ad2 := rng.Bytes(smallLen(rng)), rng.Bytes(smallLen(rng)%64)
	for i, m := range c.members {
		for j, io := range [][2][]byte{{pt, ad}, {pt2, ad2}} {
			t, err := m.p.EncryptDeterministically(io[0], io[1])
			if err != nil {
				panic(err)
			}
			what := fmt.Sprintf("member-ct/%c", m.role)
			if !m.enabled {
				what += "-disabled"
			}
			if j == 1 || m.role != 'R' {
				o.Emit(fmt.Sprintf("!X siv %s %s %s", m.s.modelCfg(), hlib.Tok(io[0]), hlib.Tok(io[1])), "ok "+hlib.Tok(t), true)
			}
			c.probe(what, t, io[1], i == 0 || m.role == 'P')
			if pre := m.s.prefix(); pre != nil {
				c.probe(what+"/prefix-stripped", t[5:], io[1], false)
				sw := append([]byte(nil), t...)
				sw[0] ^= 1
				c.probe(what+"/start-byte-swapped", sw, io[1], false)
			} else {
				c.probe(what+"/behind-colliding-prefix", append(append([]byte(nil), ps.prefix()...), t...), io[1], m.role == 'R')
			}
		}
	}
	// --- the keyset's own ciphertext
	kt, err := c.ks.EncryptDeterministically(pt2, ad2)
	if err != nil {
		o.Violate("keyset EncryptDeterministically fails: %v (%s)", err, c.describe())
		return
	}
	for _, m := range c.members {
		if m.primary {
			want, _ := m.p.EncryptDeterministically(pt2, ad2)
			if !bytes.Equal(want, kt) {
				o.Violate("keyset ciphertext %s is not the primary key's ciphertext %s (%s pt=%s ad=%s)", hlib.Tok(kt), hlib.Tok(want), c.describe(), hlib.Tok(pt2), hlib.Tok(ad2))
			}
			o.Emit(fmt.Sprintf("!X siv %s %s %s", m.s.modelCfg(), hlib.Tok(pt2), hlib.Tok(ad2)), "ok "+hlib.Tok(kt), true)
		}
	}
	if !c.probe("keyset-own-ct", kt, ad2, false) {
		o.Violate("keyset does not decrypt its own ciphertext (%s ct=%s ad=%s)", c.describe(), hlib.Tok(kt), hlib.Tok(ad2))
	}
}

func cbitLen(n int) int {
	b := 0
	for n > 1 {
		n = (n + 1) / 2
		b++
	}
	return b
}
