//go:build verif

// Harness c08: AES-SIV (RFC 5297) and AES-KWP (RFC 5649) against the independent reference, with
// mutation streams (property C08).
package main

import (
	"bytes"
	"fmt"

	"github.com/tink-crypto/tink-go/v2/daead"
	"github.com/tink-crypto/tink-go/v2/daead/aessiv"
	dsubtle "github.com/tink-crypto/tink-go/v2/daead/subtle"
	"github.com/tink-crypto/tink-go/v2/internal/mac/aescmac"
	"github.com/tink-crypto/tink-go/v2/internal/verifharness/hlib"
	kwp "github.com/tink-crypto/tink-go/v2/kwp/subtle"
	"github.com/tink-crypto/tink-go/v2/tink"
)

func res(b []byte, err error) string {
	if err != nil {
		return "err"
	}
	return "ok " + hlib.Tok(b)
}

func rej(b []byte, err error) string {
	if err != nil {
		return "reject"
	}
	return "ok " + hlib.Tok(b)
}

func sivLen(rng *hlib.Rng) int {
	switch rng.Intn(5) {
	case 0:
		return rng.Intn(16)
	case 1:
		return 16
	case 2:
		return 17 + rng.Intn(15)
	case 3:
		return 16*(1+rng.Intn(8)) + rng.Intn(3) - 1
	}
	return rng.MsgLen(4100)
}

func main() {
	o := hlib.Open("C08")
	defer o.Close()
	rng := hlib.NewRng(*hlib.FlagSeed, "c08")
	n := hlib.N(700, 20000)
	variants := []aessiv.Variant{aessiv.VariantTink, aessiv.VariantCrunchy, aessiv.VariantNoPrefix}
	vcodes := []string{"T", "C", "R"}
	for c := 0; c < n; c++ {
		o.Case()
		switch rng.Intn(10) {
		case 0, 1, 2, 3: // AES-SIV
			key := rng.Bytes(64)
			vi := rng.Intn(3)
			id := rng.KeyID()
			if vi == 2 {
				id = 0
			}
			var d tink.DeterministicAEAD
			var err error
			if vi == 2 && rng.Chance(50) {
				d, err = dsubtle.NewAESSIV(key)
				o.Count("siv/subtle")
			} else {
				ps, e := aessiv.NewParameters(64, variants[vi])
				if e != nil {
					panic(e)
				}
				k, e := aessiv.NewKey(hlib.Secret(key), id, ps)
				if e != nil {
					panic(e)
				}
				kh, e := hlib.HandleOf(k)
				if e != nil {
					panic(e)
				}
				d, err = daead.New(kh)
				o.Count("siv/keyset/" + vcodes[vi])
			}
			if err != nil {
				panic(err)
			}
			cfg := fmt.Sprintf("%s %s %d", hlib.Tok(key), vcodes[vi], id)
			for j := 0; j < 3; j++ {
				pt := rng.Bytes(sivLen(rng))
				ad := rng.Bytes(sivLen(rng) % 300)
				ct, err := d.EncryptDeterministically(pt, ad)
				o.Emit(fmt.Sprintf("!X siv %s %s %s", cfg, hlib.Tok(pt), hlib.Tok(ad)), res(ct, err), true)
				if err != nil {
					continue
				}
				ct2, _ := d.EncryptDeterministically(pt, ad)
				if !bytes.Equal(ct, ct2) {
					o.Violate("AES-SIV is not deterministic")
				}
				back, err := d.DecryptDeterministically(ct, ad)
				if err != nil || !bytes.Equal(back, pt) {
					o.Violate("AES-SIV decrypt does not invert encrypt (pt=%s ad=%s)", hlib.Tok(pt), hlib.Tok(ad))
				}
				o.Emit(fmt.Sprintf("X sivd %s %s %s", cfg, hlib.Tok(ct), hlib.Tok(ad)), rej(back, err), true)
				muts := rng.Mutations(ct, 6)
				// the two IV bits that are cleared for the counter must still be authenticated
				pl := len(ct) - len(pt) - 16
				for _, bit := range []int{8, 12} {
					m := append([]byte(nil), ct...)
					m[pl+bit] ^= 0x80
					muts = append(muts, hlib.Mut{Kind: "cleared-bit", Data: m})
				}
				for _, mu := range muts {
					b, e := d.DecryptDeterministically(mu.Data, ad)
					o.Count("sivmut/" + mu.Kind)
					if e == nil && !bytes.Equal(mu.Data, ct) {
						o.Violate("AES-SIV accepted a %s-mutated ciphertext", mu.Kind)
					}
					o.Emit(fmt.Sprintf("X sivd %s %s %s", cfg, hlib.Tok(mu.Data), hlib.Tok(ad)), rej(b, e), true)
				}
				for _, mu := range rng.Mutations(ad, 2) {
					b, e := d.DecryptDeterministically(ct, mu.Data)
					if e == nil && !bytes.Equal(mu.Data, ad) {
						o.Violate("AES-SIV accepted modified associated data")
					}
					o.Emit(fmt.Sprintf("X sivd %s %s %s", cfg, hlib.Tok(ct), hlib.Tok(mu.Data)), rej(b, e), true)
				}
			}
		case 4: // S2V (both branches) against RFC 5297 written from the RFC; XOREndAndCompute
			key := rng.Bytes(64)
			s, err := dsubtle.NewAESSIV(key)
			if err != nil {
				panic(err)
			}
			o.Count("s2v")
			for l := 0; l <= 50; l += 1 + rng.Intn(2) {
				msg := rng.Bytes(l)
				ad := rng.Bytes(rng.Intn(40))
				o.Emit(fmt.Sprintf("!X s2vspec %s %s %s", hlib.Tok(key[:32]), hlib.Tok(msg), hlib.Tok(ad)), hlib.Tok(s.VerifS2V(msg, ad)), true)
			}
			cm, _ := aescmac.New(key[:32])
			for j := 0; j < 12; j++ {
				l := 16 + rng.Intn(70)
				if j < 4 {
					l = 16 * (1 + j)
				}
				data := rng.Bytes(l)
				last := rng.Bytes(16)
				out, err := cm.XOREndAndCompute(data, last)
				o.Emit(fmt.Sprintf("!X xorendspec %s %s %s", hlib.Tok(key[:32]), hlib.Tok(data), hlib.Tok(last)), hlib.Tok(out), true)
				_ = err
			}
			for _, sz := range [][2]int{{15, 16}, {16, 15}, {16, 17}, {0, 16}} {
				out, err := cm.XOREndAndCompute(rng.Bytes(sz[0]), rng.Bytes(sz[1]))
				o.Emit(fmt.Sprintf("X xorend %s %s %s", hlib.Tok(key[:32]), hlib.Tok(make([]byte, sz[0])), hlib.Tok(make([]byte, sz[1]))), res(out, err), true)
			}
		default: // AES-KWP
			kek := rng.Bytes(rng.Pick(16, 32))
			if rng.Chance(4) {
				kek = rng.Bytes(rng.Pick(0, 15, 24, 33))
			}
			w, err := kwp.NewKWP(kek)
			if err != nil {
				o.Count("kwp/badkek")
				o.Emit(fmt.Sprintf("X kwp %s %s", hlib.Tok(kek), hlib.Tok(make([]byte, 16))), "err", true)
				continue
			}
			o.Count("kwp")
			var l int
			switch rng.Intn(6) {
			case 0:
				l = rng.Pick(0, 1, 15, 16, 17, 8191, 8192, 8193)
			case 1:
				l = 16 + rng.Intn(120)
			case 2:
				l = 8*(2+rng.Intn(60)) + rng.Intn(3) - 1
			case 3:
				l = 8*(2+rng.Intn(1022)) + rng.Intn(3) - 1
			default:
				l = 16 + rng.Intn(8177)
			}
			if hlib.Thorough() && c < 8177*2 {
				l = 16 + c%8177 // every admitted length
			}
			data := rng.Bytes(l)
			wr, err := w.Wrap(data)
			o.Emit(fmt.Sprintf("!X kwp %s %s", hlib.Tok(kek), hlib.Tok(data)), res(wr, err), true)
			if err != nil {
				if l >= 16 && l <= 8192 {
					o.Violate("KWP refuses an admitted length %d", l)
				}
				continue
			}
			back, err := w.Unwrap(wr)
			if err != nil || !bytes.Equal(back, data) {
				o.Violate("KWP unwrap does not invert wrap (len %d)", l)
			}
			o.Emit(fmt.Sprintf("X kwpu %s %s", hlib.Tok(kek), hlib.Tok(wr)), rej(back, err), true)
			if l > 600 && !rng.Chance(20) {
				continue // mutations on the long ones only sometimes (driver time)
			}
			for _, mu := range rng.Mutations(wr, 5) {
				b, e := w.Unwrap(mu.Data)
				o.Count("kwpmut/" + mu.Kind)
				if e == nil && !bytes.Equal(mu.Data, wr) {
					o.Violate("KWP accepted a %s-mutated wrapping", mu.Kind)
				}
				o.Emit(fmt.Sprintf("X kwpu %s %s", hlib.Tok(kek), hlib.Tok(mu.Data)), rej(b, e), true)
			}
		}
	}
}
