//go:build verif

// Harness c08: AES-SIV (RFC 5297) and AES-KWP (RFC 5649) against the independent reference, with
// mutation streams (property C08).
//
// Sections (each with its own PRNG stream, so they do not disturb each other):
//
//	forge.go  kwpForge    wrappings of MALFORMED plaintexts-of-the-wrap, made by the model's W (two-phase: hlib.Ask)
//	main.go   mainLoop    AES-SIV / S2V / CMAC / XOREndAndCompute / AES-KWP differential lines + mutation streams
//	main.go   largeLoop   a few 16–64 KiB plaintexts / associated data on chunk boundaries
//	main.go   hugeLoop    256 KiB (thorough: 1 MiB) plaintext / associated data
//	ctr.go    ctrHunt     (key, pt, ad) searched so that the masked SIV's low 8/16/24 bits wrap inside the message
//	ctr.go    ctrDirect   the CTR layer alone (hook VerifCtrCrypt) on IVs whose low k bits are (nearly) all ones
//	sizes.go  sizeLoop    inputs of k·64 KiB + d, 1 MiB ± …, k·4 KiB + d bytes, sent as `@<len>:<seed>` (ops X …gen)
//	collide.go runCollide keysets (key objects and legacy-path stub keys) in which a RAW key's ciphertext starts with another
//	                      member's output prefix; keyset verdict = some ENABLED member's verdict = Lean wrap model
//	replay.go replay      re-evaluates the op lines of a replay file on the implementation
package main

import (
	"bytes"
	"fmt"

	"github.com/tink-crypto/tink-go/v2/daead"
	"github.com/tink-crypto/tink-go/v2/daead/aessiv"
	dsubtle "github.com/tink-crypto/tink-go/v2/daead/subtle"
	"github.com/tink-crypto/tink-go/v2/internal/mac/aescmac"
	"github.com/tink-crypto/tink-go/v2/internal/verifharness/hlib"
	kwp "github.com/tink-crypto/tink-go/v2/kwp/subtle"
	"github.com/tink-crypto/tink-go/v2/tink"
)

func res(b []byte, err error) string {
	if err != nil {
		return "err"
	}
	return "ok " + hlib.Tok(b)
}

func rej(b []byte, err error) string {
	if err != nil {
		return "reject"
	}
	return "ok " + hlib.Tok(b)
}

var (
	variants = []aessiv.Variant{aessiv.VariantTink, aessiv.VariantCrunchy, aessiv.VariantNoPrefix}
	vcodes   = []string{"T", "C", "R"}
)

// ---------- length generators (local: hlib.MsgLen's stream is shared with other harnesses) ----------

// smallLen: <16, =16, 17..31, block multiples ±1, a tail up to 300.
func smallLen(rng *hlib.Rng) int {
	switch rng.Intn(5) {
	case 0:
		return rng.Intn(16)
	case 1:
		return 16
	case 2:
		return 17 + rng.Intn(15)
	case 3:
		return 16*(1+rng.Intn(8)) + rng.Intn(3) - 1
	}
	return rng.MsgLen(300) % 301
}

var chunkOffsets = []int{-17, -16, -15, -1, 0, 1, 15, 16, 17}

// bigLen reaches up to max (+17), concentrated on the boundaries where chunked / streaming code changes
// behaviour: k·(64 blocks) ± {0,1,15,16,17}, powers of two ± 1, 1040/1041, block multiples ± 1.
func bigLen(rng *hlib.Rng, max int) int {
	var l int
	switch rng.Intn(6) {
	case 0, 1:
		k := 1 + rng.Intn(max/1024)
		l = k*1024 + chunkOffsets[rng.Intn(len(chunkOffsets))]
	case 2:
		e := 5 // a power of two in 32..max, ± 1
		for 2<<e <= max {
			e++
		}
		l = 1<<(5+rng.Intn(e-4)) + rng.Intn(3) - 1
	case 3:
		l = rng.Pick(1023, 1024, 1025, 1039, 1040, 1041, 1042, 1055, 1056, 1057, 2047, 2048, 2049, 2063, 2064, 2065)
	case 4:
		l = 16*(1+rng.Intn(max/16)) + rng.Intn(3) - 1
	default:
		l = rng.Intn(max + 1)
	}
	if l < 0 {
		l = 0
	}
	if l > max+17 {
		l = max + 17
	}
	return l
}

// sivLens draws (plaintext length, associated-data length): both routinely up to 4 KiB.
func sivLens(rng *hlib.Rng) (int, int) {
	pl, al := smallLen(rng), smallLen(rng)
	switch rng.Intn(10) {
	case 0, 1:
		pl = bigLen(rng, 4096)
	case 2, 3:
		al = bigLen(rng, 4096)
	case 4:
		pl, al = bigLen(rng, 4096), bigLen(rng, 4096)
	case 5:
		if rng.Bool() {
			pl = 0
		} else {
			al = 0
		}
	}
	return pl, al
}

func lenClass(n int) string {
	switch {
	case n < 16:
		return "<16"
	case n <= 1040:
		return "16..1040"
	case n <= 4113:
		return "1041..4113"
	case n < 16384:
		return "4114..16383"
	case n <= 65553:
		return "16384..65553"
	}
	return ">65553"
}

// ---------- AES-SIV instances ----------

type sivInst struct {
	d   tink.DeterministicAEAD
	cfg string // "<key> <variant> <id>" as the driver wants it
	pre int    // output prefix length
}

// newSIV builds the primitive for (key, variant vi, id): through keyset + daead.New, or daead/subtle for RAW.
func newSIV(o *hlib.Out, key []byte, vi int, id uint32, useSubtle bool) sivInst {
	var d tink.DeterministicAEAD
	var err error
	if vi == 2 {
		id = 0
	}
	if vi == 2 && useSubtle {
		d, err = dsubtle.NewAESSIV(append([]byte(nil), key...))
		if o != nil {
			o.Count("siv/subtle")
		}
	} else {
		ps, e := aessiv.NewParameters(64, variants[vi])
		if e != nil {
			panic(e)
		}
		k, e := aessiv.NewKey(hlib.Secret(key), id, ps)
		if e != nil {
			panic(e)
		}
		kh, e := hlib.HandleOf(k)
		if e != nil {
			panic(e)
		}
		d, err = daead.New(kh)
		if o != nil {
			o.Count("siv/keyset/" + vcodes[vi])
		}
	}
	if err != nil {
		panic(err)
	}
	pre := 5
	if vi == 2 {
		pre = 0
	}
	return sivInst{d: d, cfg: fmt.Sprintf("%s %s %d", hlib.Tok(key), vcodes[vi], id), pre: pre}
}

func randSIV(o *hlib.Out, rng *hlib.Rng) sivInst {
	key := rng.Bytes(64)
	vi := rng.Intn(3)
	id := rng.KeyID()
	return newSIV(o, key, vi, id, rng.Chance(50))
}

// sivCase: encrypt line (property level), round trip, decrypt line, nmut ciphertext mutations (+ the two cleared
// IV bits), nad associated-data mutations.
func sivCase(o *hlib.Out, rng *hlib.Rng, s sivInst, pt, ad []byte, nmut, nad int) {
	o.Count("siv/pt " + lenClass(len(pt)))
	o.Count("siv/ad " + lenClass(len(ad)))
	ct, err := s.d.EncryptDeterministically(pt, ad)
	o.Emit(fmt.Sprintf("!X siv %s %s %s", s.cfg, hlib.Tok(pt), hlib.Tok(ad)), res(ct, err), true)
	if err != nil {
		return
	}
	ct2, _ := s.d.EncryptDeterministically(pt, ad)
	if !bytes.Equal(ct, ct2) {
		o.Violate("AES-SIV is not deterministic")
	}
	back, err := s.d.DecryptDeterministically(ct, ad)
	if err != nil || !bytes.Equal(back, pt) {
		o.Violate("AES-SIV decrypt does not invert encrypt (|pt|=%d |ad|=%d)", len(pt), len(ad))
	}
	o.Emit(fmt.Sprintf("X sivd %s %s %s", s.cfg, hlib.Tok(ct), hlib.Tok(ad)), rej(back, err), true)
	muts := rng.Mutations(ct, nmut)
	// the two IV bits that are cleared for the counter must still be authenticated
	for _, bit := range []int{8, 12} {
		m := append([]byte(nil), ct...)
		m[s.pre+bit] ^= 0x80
		muts = append(muts, hlib.Mut{Kind: "cleared-bit", Data: m})
	}
	// every byte of the SIV must be compared
	if nmut > 0 {
		m := append([]byte(nil), ct...)
		m[s.pre+rng.Intn(16)] ^= 1 << uint(rng.Intn(8))
		muts = append(muts, hlib.Mut{Kind: "siv-byte", Data: m})
	}
	for _, mu := range muts {
		b, e := s.d.DecryptDeterministically(mu.Data, ad)
		o.Count("sivmut/" + mu.Kind)
		if e == nil && !bytes.Equal(mu.Data, ct) {
			o.Violate("AES-SIV accepted a %s-mutated ciphertext", mu.Kind)
		}
		o.Emit(fmt.Sprintf("X sivd %s %s %s", s.cfg, hlib.Tok(mu.Data), hlib.Tok(ad)), rej(b, e), true)
	}
	for _, mu := range rng.Mutations(ad, nad) {
		b, e := s.d.DecryptDeterministically(ct, mu.Data)
		if e == nil && !bytes.Equal(mu.Data, ad) {
			o.Violate("AES-SIV accepted modified associated data")
		}
		o.Emit(fmt.Sprintf("X sivd %s %s %s", s.cfg, hlib.Tok(ct), hlib.Tok(mu.Data)), rej(b, e), true)
	}
}

// macLines: S2V (both branches), XOREndAndCompute and CMAC Compute against the RFC-text specifications.
func macLines(o *hlib.Out, key, msg, ad []byte) {
	s, err := dsubtle.NewAESSIV(append([]byte(nil), key...))
	if err != nil {
		panic(err)
	}
	o.Count("s2v/msg " + lenClass(len(msg)))
	o.Count("s2v/ad " + lenClass(len(ad)))
	o.Emit(fmt.Sprintf("!X s2vspec %s %s %s", hlib.Tok(key[:32]), hlib.Tok(msg), hlib.Tok(ad)), hlib.Tok(s.VerifS2V(msg, ad)), true)
}

func cmacLine(o *hlib.Out, key, data []byte) {
	cm, err := aescmac.New(key)
	if err != nil {
		panic(err)
	}
	o.Count("cmac " + lenClass(len(data)))
	o.Emit(fmt.Sprintf("!X cmacspec %s %s", hlib.Tok(key), hlib.Tok(data)), hlib.Tok(cm.Compute(data)), true)
}

func xorendLine(o *hlib.Out, key, data, last []byte) {
	cm, err := aescmac.New(key)
	if err != nil {
		panic(err)
	}
	o.Count("xorend " + lenClass(len(data)))
	out, _ := cm.XOREndAndCompute(data, last)
	o.Emit(fmt.Sprintf("!X xorendspec %s %s %s", hlib.Tok(key), hlib.Tok(data), hlib.Tok(last)), hlib.Tok(out), true)
}

func kwpLen(rng *hlib.Rng) int {
	switch rng.Intn(6) {
	case 0:
		return rng.Pick(0, 1, 15, 16, 17, 8191, 8192, 8193)
	case 1:
		return 16 + rng.Intn(120)
	case 2:
		return 8*(2+rng.Intn(60)) + rng.Intn(3) - 1
	case 3:
		return 8*(2+rng.Intn(1022)) + rng.Intn(3) - 1
	}
	return 16 + rng.Intn(8177)
}

// kwpCase: wrap line (property level), unwrap inverts, nmut mutated wrappings.
func kwpCase(o *hlib.Out, rng *hlib.Rng, w *kwp.KWP, kek []byte, l int, nmut int) {
	data := rng.Bytes(l)
	wr, err := w.Wrap(data)
	o.Emit(fmt.Sprintf("!X kwp %s %s", hlib.Tok(kek), hlib.Tok(data)), res(wr, err), true)
	if err != nil {
		if l >= 16 && l <= 8192 {
			o.Violate("KWP refuses an admitted length %d", l)
		}
		return
	}
	back, err := w.Unwrap(wr)
	if err != nil || !bytes.Equal(back, data) {
		o.Violate("KWP unwrap does not invert wrap (len %d)", l)
	}
	if nmut < 0 {
		return
	}
	o.Emit(fmt.Sprintf("X kwpu %s %s", hlib.Tok(kek), hlib.Tok(wr)), rej(back, err), true)
	for _, mu := range rng.Mutations(wr, nmut) {
		b, e := w.Unwrap(mu.Data)
		o.Count("kwpmut/" + mu.Kind)
		if e == nil && !bytes.Equal(mu.Data, wr) {
			o.Violate("KWP accepted a %s-mutated wrapping", mu.Kind)
		}
		o.Emit(fmt.Sprintf("X kwpu %s %s", hlib.Tok(kek), hlib.Tok(mu.Data)), rej(b, e), true)
	}
}

func mainLoop(o *hlib.Out, rng *hlib.Rng) {
	n := hlib.N(700, 4200)
	for c := 0; c < n; c++ {
		o.Case()
		switch rng.Intn(10) {
		case 0, 1, 2, 3: // AES-SIV
			s := randSIV(o, rng)
			for j := 0; j < 3; j++ {
				pl, al := sivLens(rng)
				pt, ad := rng.Bytes(pl), rng.Bytes(al)
				if pl == 0 && rng.Bool() {
					pt = nil // nil and empty must behave alike
					o.Count("siv/nil-pt")
				}
				if al == 0 && rng.Bool() {
					ad = nil // S2V always has ONE (possibly empty) associated-data component
					o.Count("siv/nil-ad")
				}
				nmut, nad := 6, 2
				if pl+al > 1500 { // driver time
					nmut, nad = 3, 1
				}
				sivCase(o, rng, s, pt, ad, nmut, nad)
			}
		case 4: // S2V (both branches) against RFC 5297 written from the RFC; XOREndAndCompute; CMAC
			key := rng.Bytes(64)
			o.Count("s2v")
			for l := 0; l <= 50; l += 1 + rng.Intn(2) {
				macLines(o, key, rng.Bytes(l), rng.Bytes(rng.Intn(40)))
			}
			for j := 0; j < 4; j++ {
				pl, al := sivLens(rng)
				if j == 0 {
					al = bigLen(rng, 4096)
				}
				macLines(o, key, rng.Bytes(pl), rng.Bytes(al))
			}
			ck := key[:rng.Pick(16, 32, 32)]
			for j := 0; j < 14; j++ {
				l := 16 + rng.Intn(70)
				if j < 4 {
					l = 16 * (1 + j)
				}
				if j >= 11 {
					l = 16 + bigLen(rng, 4096)
				}
				xorendLine(o, ck, rng.Bytes(l), rng.Bytes(16))
			}
			for j := 0; j < 5; j++ {
				l := smallLen(rng)
				if j >= 2 {
					l = bigLen(rng, 4096)
				}
				cmacLine(o, ck, rng.Bytes(l))
			}
			cm, _ := aescmac.New(key[:32])
			for _, sz := range [][2]int{{15, 16}, {16, 15}, {16, 17}, {0, 16}} {
				out, err := cm.XOREndAndCompute(make([]byte, sz[0]), make([]byte, sz[1]))
				o.Emit(fmt.Sprintf("X xorend %s %s %s", hlib.Tok(key[:32]), hlib.Tok(make([]byte, sz[0])), hlib.Tok(make([]byte, sz[1]))), res(out, err), true)
			}
		default: // AES-KWP
			kek := rng.Bytes(rng.Pick(16, 32))
			if rng.Chance(4) {
				kek = rng.Bytes(rng.Pick(0, 15, 24, 33))
			}
			w, err := kwp.NewKWP(kek)
			if err != nil {
				o.Count("kwp/badkek")
				o.Emit(fmt.Sprintf("X kwp %s %s", hlib.Tok(kek), hlib.Tok(make([]byte, 16))), "err", true)
				continue
			}
			o.Count("kwp")
			l := kwpLen(rng)
			nmut := 5
			if l > 600 && !rng.Chance(20) {
				nmut = 0 // mutations on the long ones only sometimes (driver time)
			}
			kwpCase(o, rng, w, kek, l, nmut)
		}
	}
	if hlib.Thorough() {
		// every admitted key length once (wrap line only; Unwrap∘Wrap is checked on the Go side)
		for l := 16; l <= 8192; l++ {
			if l%64 == 16 {
				o.Case()
			}
			kek := rng.Bytes(16 + 16*(l&1))
			w, err := kwp.NewKWP(kek)
			if err != nil {
				panic(err)
			}
			o.Count("kwp/every-length")
			kwpCase(o, rng, w, kek, l, -1)
		}
	}
}

// largeLoop: a few plaintexts / associated data of 16–64 KiB, on chunk boundaries and powers of two.
func largeLoop(o *hlib.Out, rng *hlib.Rng) {
	n := hlib.N(30, 240)
	big := func() int {
		switch rng.Intn(6) {
		case 0, 1:
			return (1<<(14+rng.Intn(3)) + rng.Intn(3) - 1)
		case 2, 3:
			return rng.Pick(16, 17, 24, 31, 32, 33, 48, 63, 64)*1024 + chunkOffsets[rng.Intn(len(chunkOffsets))]
		}
		return (5+rng.Intn(11))*1024 + chunkOffsets[rng.Intn(len(chunkOffsets))] // 5..15 KiB
	}
	for c := 0; c < n; c++ {
		o.Case()
		o.Count("large")
		pl, al := sivLens(rng)
		switch c % 5 {
		case 0, 1:
			al = big()
		case 2, 3:
			pl = big()
		default:
			pl, al = big()/2, big()/2
		}
		pt, ad := rng.Bytes(pl), rng.Bytes(al)
		switch c % 2 {
		case 0:
			sivCase(o, rng, randSIV(o, rng), pt, ad, 1, 1)
		default:
			key := rng.Bytes(64)
			macLines(o, key, pt, ad)
			if al >= 16 {
				xorendLine(o, key[:32], ad, rng.Bytes(16))
			}
			cmacLine(o, key[32:32+rng.Pick(16, 32)], ad)
			if pl >= 16 {
				xorendLine(o, key[32:], pt, rng.Bytes(16))
			}
		}
	}
}

// hugeLoop: very long inputs (chunked / streaming code with large chunk sizes): 256 KiB in quick, 1 MiB in thorough.
func hugeLoop(o *hlib.Out, rng *hlib.Rng) {
	size := 256 << 10
	if hlib.Thorough() {
		size = 1 << 20
	}
	for c := 0; c < hlib.N(2, 4); c++ {
		o.Case()
		o.Count("huge")
		pl, al := sivLens(rng)
		if c%2 == 0 {
			pl = size + rng.Pick(-1, 0, 1, 15, 16, 17)
		} else {
			al = size + rng.Pick(-1, 0, 1, 15, 16, 17)
		}
		sivCase(o, rng, randSIV(o, rng), rng.Bytes(pl), rng.Bytes(al), 0, 0)
	}
}

func main() {
	o := hlib.Open("C08")
	defer o.Close()
	if *hlib.FlagReplay != "" {
		if !hlib.Pre() {
			replay(o, *hlib.FlagReplay)
		}
		return
	}
	seed := *hlib.FlagSeed
	// the only section that needs inputs made by the model (two-phase run, see hlib.Ask)
	kwpForge(o, hlib.NewRng(seed, "c08/forge"))
	if hlib.Pre() {
		return
	}
	mainLoop(o, hlib.NewRng(seed, "c08"))
	largeLoop(o, hlib.NewRng(seed, "c08/large"))
	hugeLoop(o, hlib.NewRng(seed, "c08/huge"))
	ctrHunt(o, hlib.NewRng(seed, "c08/hunt"))
	ctrDirect(o, hlib.NewRng(seed, "c08/ctr"))
	sizeLoop(o, hlib.NewRng(seed, "c08/sizes"))
	// collide.go: keysets in which a RAW key's ciphertext starts with another member's output prefix
	runCollide(o, hlib.NewRng(seed, "c08/collide"))
}
