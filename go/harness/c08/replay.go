//go:build verif

package main

import (
	"bufio"
	"crypto/sha256"
	"os"
	"strconv"
	"strings"

	"github.com/tink-crypto/tink-go/v2/daead"
	dsubtle "github.com/tink-crypto/tink-go/v2/daead/subtle"
	"github.com/tink-crypto/tink-go/v2/internal/mac/aescmac"
	"github.com/tink-crypto/tink-go/v2/internal/verifharness/hlib"
	kwp "github.com/tink-crypto/tink-go/v2/kwp/subtle"
)

// evalLine computes the implementation's answer for one op line of this harness (replay files).
func evalLine(l string) (out string) {
	defer func() {
		if r := recover(); r != nil {
			out = "panic"
		}
	}()
	t := strings.Fields(l)
	if len(t) < 2 || strings.TrimPrefix(t[0], "!") != "X" {
		return "bad-op"
	}
	a := t[2:]
	b := func(i int) []byte { return tokBytes(a[i]) } // ordinary token or `@<len>:<seed>` (sizes.go)
	switch t[1] {
	case "gen", "gensha":
		if len(a) != 2 {
			return "bad-op"
		}
		g := tokBytes("@" + a[0] + ":" + a[1])
		if t[1] == "gen" {
			return hlib.Tok(g)
		}
		d := sha256.Sum256(g)
		return hlib.Tok(d[:])
	case "sivgen":
		if len(a) != 5 {
			return "bad-op"
		}
		key := b(0)
		if len(key) != 64 {
			return "err"
		}
		vi := strings.Index("TCR", a[1])
		id, err := strconv.ParseUint(a[2], 10, 32)
		if vi < 0 || err != nil {
			return "bad-op"
		}
		run := func(sub bool) string {
			s := newSIV(nil, key, vi, uint32(id), sub)
			ct, err := s.d.EncryptDeterministically(b(3), b(4))
			return sivDigest(ct, err, s.pre)
		}
		r := run(false)
		if vi == 2 {
			if r2 := run(true); r2 != r {
				return "keyset: " + r + " / subtle: " + r2
			}
		}
		return r
	case "cmacgen": // only the form sizes.go emits: the internal routine, full tag
		if len(a) != 6 || a[0] != "0" || a[2] != "16" || a[3] != "R" || a[4] != "0" {
			return "bad-op"
		}
		cm, err := aescmac.New(b(1))
		if err != nil {
			return "err"
		}
		return "ok " + hlib.Tok(cm.Compute(b(5)))
	case "siv", "sivd":
		if len(a) != 5 {
			return "bad-op"
		}
		key := b(0)
		if len(key) != 64 {
			return "err"
		}
		vi := strings.Index("TCR", a[1])
		id, err := strconv.ParseUint(a[2], 10, 32)
		if a[1] == "L" && err == nil {
			// LEGACY exists only for keys of the legacy (key-manager) path, see collide.go: through a one-key keyset
			ensureStubKM()
			k, _ := dspec{stub: true, key: key, vi: 2, id: uint32(id)}.build()
			kh, e := hlib.HandleOf(k)
			if e != nil {
				return "err"
			}
			d, e := daead.New(kh)
			if e != nil {
				return "err"
			}
			if t[1] == "siv" {
				return res(d.EncryptDeterministically(b(3), b(4)))
			}
			return rej(d.DecryptDeterministically(b(3), b(4)))
		}
		if vi < 0 || err != nil {
			return "bad-op"
		}
		run := func(sub bool) string {
			s := newSIV(nil, key, vi, uint32(id), sub)
			if t[1] == "siv" {
				return res(s.d.EncryptDeterministically(b(3), b(4)))
			}
			return rej(s.d.DecryptDeterministically(b(3), b(4)))
		}
		r := run(false)
		if vi == 2 { // RAW: the keyset primitive and daead/subtle must agree
			if r2 := run(true); r2 != r {
				return "keyset: " + r + " / subtle: " + r2
			}
		}
		return r
	case "s2v", "s2vspec", "s2vspecgen":
		s, err := dsubtle.NewAESSIV(append(b(0), make([]byte, 32)...))
		if err != nil {
			return "err"
		}
		return hlib.Tok(s.VerifS2V(b(1), b(2)))
	case "sivctr":
		s, err := dsubtle.NewAESSIV(append(make([]byte, 32), b(0)...))
		if err != nil || len(b(1)) != 16 {
			return "err"
		}
		return "ok " + hlib.Tok(s.VerifCtrCrypt(b(1), b(2)))
	case "cmacspec", "cmacspecgen":
		cm, err := aescmac.New(b(0))
		if err != nil {
			return "err"
		}
		return hlib.Tok(cm.Compute(b(1)))
	case "xorend", "xorendspec", "xorendspecgen":
		cm, err := aescmac.New(b(0))
		if err != nil {
			return "err"
		}
		o, err := cm.XOREndAndCompute(b(1), b(2))
		if t[1] == "xorend" {
			return res(o, err)
		}
		return hlib.Tok(o)
	case "kwp", "kwpu":
		w, err := kwp.NewKWP(b(0))
		if err != nil {
			return "err"
		}
		if t[1] == "kwp" {
			return res(w.Wrap(b(1)))
		}
		return rej(w.Unwrap(b(1)))
	}
	return "bad-op"
}

func replay(o *hlib.Out, path string) {
	f, err := os.Open(path)
	if err != nil {
		panic(err)
	}
	defer f.Close()
	sc := bufio.NewScanner(f)
	sc.Buffer(make([]byte, 1<<20), 1<<28)
	for sc.Scan() {
		l := strings.TrimSpace(sc.Text())
		if l == "" {
			continue
		}
		if strings.HasPrefix(l, "#") {
			if strings.HasPrefix(l, "# case") {
				o.Case()
			}
			continue
		}
		if strings.HasPrefix(strings.TrimPrefix(l, "!"), "W ") {
			// keyset-level lines of collide.go need the keyset of their case; its `X siv` / `X sivd` lines are re-evaluated
			o.Count("replay/skipped-keyset-line")
			continue
		}
		o.Emit(l, evalLine(l), true)
		o.Count("replay")
	}
}
