//go:build verif

package main

import (
	"bytes"
	"encoding/binary"
	"fmt"
	"strings"

	"github.com/tink-crypto/tink-go/v2/internal/verifharness/hlib"
	kwp "github.com/tink-crypto/tink-go/v2/kwp/subtle"
)

// KWP forgery stream at the level of the PLAINTEXT OF THE WRAP.
//
// Mutating a wrapping only ever yields a random-looking block string after W^-1, so the IV / length /
// padding checks of Unwrap are practically never exercised one at a time by ciphertext mutations. Here the
// harness writes the block string S = A ‖ P1 … Pn itself — correct, or malformed in exactly one respect —
// lets the MODEL's wrapping function W (driver op `X kwpraw`, answered in the pre phase) turn it into a
// wrapping, and hands that to Unwrap. The verdict is compared with the model's Unwrap (`!X kwpu`, the
// model decides) and with an RFC 5649 §4.2 check written here.

type forged struct {
	kind string
	s    []byte
}

var aivConst = []byte{0xA6, 0x59, 0x59, 0xA6}

// rfcOpen: RFC 5649 §4.2 steps 2–3 on S; additionally tink's size window on the wrapping (24..8200 bytes).
func rfcOpen(s []byte) ([]byte, bool) {
	if len(s)%8 != 0 || len(s) < 24 || len(s) > 8200 {
		return nil, false
	}
	n := uint64(len(s)/8 - 1)
	if !bytes.Equal(s[:4], aivConst) {
		return nil, false
	}
	mli := uint64(binary.BigEndian.Uint32(s[4:8]))
	if mli <= 8*(n-1) || mli > 8*n {
		return nil, false
	}
	for _, b := range s[8+mli:] {
		if b != 0 {
			return nil, false
		}
	}
	return s[8 : 8+mli], true
}

func wellFormed(k []byte) []byte {
	l := len(k)
	pad := (8 - l%8) % 8
	s := make([]byte, 8+l+pad)
	copy(s, aivConst)
	binary.BigEndian.PutUint32(s[4:], uint32(l))
	copy(s[8:], k)
	return s
}

func nz(rng *hlib.Rng) byte { return byte(1 + rng.Intn(255)) }

// forgeries lists the block strings for one key: all = every position / pair, otherwise a bounded sample.
func forgeries(rng *hlib.Rng, k []byte, all bool) []forged {
	l := len(k)
	s0 := wellFormed(k)
	pad := len(s0) - 8 - l
	m := (len(s0) - 8) // 8·(number of plaintext blocks)
	var out []forged
	add := func(kind string, f func(s []byte) []byte) {
		s := f(append([]byte(nil), s0...))
		out = append(out, forged{kind, s})
	}
	setLen := func(kind string, v uint32) {
		add(kind, func(s []byte) []byte { binary.BigEndian.PutUint32(s[4:], v); return s })
	}
	add("valid", func(s []byte) []byte { return s })
	// --- the AIV constant, byte by byte
	for i := 0; i < 4; i++ {
		i := i
		add("aiv/bit", func(s []byte) []byte { s[i] ^= 1 << uint(rng.Intn(8)); return s })
		add("aiv/zero", func(s []byte) []byte { s[i] = 0; return s })
		add("aiv/swap", func(s []byte) []byte { s[i] ^= 0xA6 ^ 0x59; return s })
		add("aiv/random", func(s []byte) []byte { s[i] ^= nz(rng); return s })
	}
	add("aiv/kw-default-iv", func(s []byte) []byte { copy(s, bytes.Repeat([]byte{0xA6}, 8)); return s }) // RFC 3394 KW
	add("aiv/a6a6a6a6", func(s []byte) []byte { copy(s, bytes.Repeat([]byte{0xA6}, 4)); return s })
	add("aiv/shifted", func(s []byte) []byte { copy(s, []byte{0x59, 0x59, 0xA6, s[4]}); return s })
	// --- the length field (MLI); some of these are well-formed for another key (e.g. l+1 with a zero pad byte)
	setLen("len/+1", uint32(l+1))
	setLen("len/-1", uint32(l-1))
	setLen("len/8n", uint32(m))
	setLen("len/8n+1", uint32(m+1))
	setLen("len/8n+8", uint32(m+8))
	setLen("len/8n-7", uint32(m-7))
	setLen("len/8n-8", uint32(m-8))
	setLen("len/8n-9", uint32(m-9))
	setLen("len/8n-16", uint32(m-16))
	setLen("len/0", 0)
	setLen("len/1", 1)
	setLen("len/ffffffff", 0xFFFFFFFF)
	setLen("len/hi-bit", uint32(l)|0x80000000)
	setLen("len/byte3", uint32(l)|0x01000000)
	setLen("len/byte2", uint32(l)|0x00010000)
	setLen("len/+256", uint32(l)+256)
	setLen("len/little-endian", uint32(l)<<24|uint32(l)>>8<<16)
	setLen("len/bits", uint32(l*8))
	setLen("len/random", uint32(rng.U64()))
	add("len/extra-zero-block", func(s []byte) []byte { return append(s, make([]byte, 8)...) })
	add("len/extra-block", func(s []byte) []byte { return append(s, rng.Bytes(8)...) })
	if len(s0) >= 32 {
		add("len/missing-block", func(s []byte) []byte { return s[:len(s)-8] })
	}
	// --- the padding
	if pad >= 1 {
		for p := 0; p < pad; p++ {
			p := p
			vals := []byte{0x01, 0x80, 0xff, nz(rng)}
			if !all {
				vals = []byte{vals[rng.Intn(3)], vals[3]}
			}
			for _, v := range vals {
				v := v
				add("pad/one-byte", func(s []byte) []byte { s[8+l+p] = v; return s })
			}
		}
		add("pad/all-ones", func(s []byte) []byte { copy(s[8+l:], bytes.Repeat([]byte{0xff}, pad)); return s })
		add("pad/all-01", func(s []byte) []byte { copy(s[8+l:], bytes.Repeat([]byte{1}, pad)); return s })
		add("pad/all-80", func(s []byte) []byte { copy(s[8+l:], bytes.Repeat([]byte{0x80}, pad)); return s })
		add("pad/random", func(s []byte) []byte {
			for i := 8 + l; i < len(s); i++ {
				s[i] = nz(rng)
			}
			return s
		})
		add("pad/key-tail-repeated", func(s []byte) []byte { copy(s[8+l:], s[8+l-pad:8+l]); return s })
	}
	if pad >= 2 {
		type pr struct{ p, q int }
		var pairs []pr
		for p := 0; p < pad; p++ {
			for q := p + 1; q < pad; q++ {
				pairs = append(pairs, pr{p, q})
			}
		}
		if !all && len(pairs) > 4 {
			for i := range pairs { // sample 4 pairs, always keeping first+last position
				j := i + rng.Intn(len(pairs)-i)
				pairs[i], pairs[j] = pairs[j], pairs[i]
			}
			pairs = append(pairs[:3], pr{0, pad - 1})
		}
		for _, pq := range pairs {
			pq := pq
			add("pad/xor-to-zero-pair", func(s []byte) []byte { x := nz(rng); s[8+l+pq.p], s[8+l+pq.q] = x, x; return s })
			add("pad/add-to-zero-pair", func(s []byte) []byte { x := nz(rng); s[8+l+pq.p], s[8+l+pq.q] = x, -x; return s })
			add("pad/and-to-zero-pair", func(s []byte) []byte {
				x := byte(1 + rng.Intn(254))
				s[8+l+pq.p], s[8+l+pq.q] = x, ^x
				return s
			})
		}
		// every pad byte the same value, an even number of them: XORs to zero
		if pad%2 == 0 {
			add("pad/xor-to-zero-all", func(s []byte) []byte { copy(s[8+l:], bytes.Repeat([]byte{nz(rng)}, pad)); return s })
		}
		add("pad/first-zero-only", func(s []byte) []byte {
			for i := 8 + l + 1; i < len(s); i++ {
				s[i] = nz(rng)
			}
			return s
		})
		add("pad/last-zero-only", func(s []byte) []byte {
			for i := 8 + l; i < len(s)-1; i++ {
				s[i] = nz(rng)
			}
			return s
		})
	}
	if pad >= 3 {
		reps := 2
		if all {
			reps = 6
		}
		for r := 0; r < reps; r++ {
			// three distinct positions
			pos := []int{0, 1, 2, 3, 4, 5, 6}[:pad]
			for i := 0; i < 3; i++ {
				j := i + rng.Intn(len(pos)-i)
				pos[i], pos[j] = pos[j], pos[i]
			}
			a, b, c := 8+l+pos[0], 8+l+pos[1], 8+l+pos[2]
			add("pad/xor-to-zero-triple", func(s []byte) []byte {
				x, y := nz(rng), nz(rng)
				if x == y {
					y ^= 0x55
				}
				s[a], s[b], s[c] = x, y, x^y
				return s
			})
			add("pad/add-to-zero-triple", func(s []byte) []byte {
				x, y := nz(rng), nz(rng)
				if x+y == 0 {
					y++
				}
				s[a], s[b], s[c] = x, y, -(x + y)
				return s
			})
		}
		add("pad/xor-and-add-to-zero", func(s []byte) []byte { // 0x80 0x80 …: xor 0, sum 0 mod 256
			s[8+l], s[8+l+pad-1] = 0x80, 0x80
			return s
		})
	}
	return out
}

func forgeOne(o *hlib.Out, w *kwp.KWP, kek []byte, f forged) {
	o.Case() // one case per forgery: a replay is exactly the offending unwrap line
	ans := hlib.Ask(fmt.Sprintf("X kwpraw %s %s", hlib.Tok(kek), hlib.Tok(f.s)))
	if hlib.Pre() {
		return
	}
	if !strings.HasPrefix(ans, "ok ") {
		panic("kwpraw: model answered " + ans)
	}
	wr := hlib.FromTok(ans[3:])
	o.Count("kwpforge/" + f.kind)
	got, err := w.Unwrap(wr)
	want, ok := rfcOpen(f.s)
	switch {
	case err == nil && !ok:
		o.Count("kwpforge=accepted-FORGERY")
		o.Violate("KWP Unwrap accepted a wrapping of a malformed block string (%s): S=%s wrapped=%s kek=%s returned %s",
			f.kind, hlib.Tok(f.s), hlib.Tok(wr), hlib.Tok(kek), hlib.Tok(got))
	case err != nil && ok:
		o.Count("kwpforge=rejected-GENUINE")
		o.Violate("KWP Unwrap rejected an RFC 5649 wrapping (%s): S=%s wrapped=%s kek=%s", f.kind, hlib.Tok(f.s), hlib.Tok(wr), hlib.Tok(kek))
	case err == nil:
		o.Count("kwpforge=accepted-genuine")
		if !bytes.Equal(got, want) {
			o.Violate("KWP Unwrap returned a wrong key (%s): S=%s", f.kind, hlib.Tok(f.s))
		}
	default:
		o.Count("kwpforge=rejected-forgery")
	}
	// whatever is accepted must be exactly THE wrapping of the returned key
	if err == nil && len(got) >= kwp.MinWrapSize && len(got) <= kwp.MaxWrapSize {
		again, e := w.Wrap(got)
		if e != nil || !bytes.Equal(again, wr) {
			o.Violate("KWP Unwrap accepted a wrapping that is not Wrap(returned key) (%s): wrapped=%s kek=%s", f.kind, hlib.Tok(wr), hlib.Tok(kek))
		}
	}
	o.Emit(fmt.Sprintf("!X kwpu %s %s", hlib.Tok(kek), hlib.Tok(wr)), rej(got, err), true)
}

func kwpForge(o *hlib.Out, rng *hlib.Rng) {
	thorough := hlib.Thorough()
	group := func(l, kekLen int, all bool, sample int) {
		kek := rng.Bytes(kekLen)
		w, err := kwp.NewKWP(kek)
		if err != nil {
			panic(err)
		}
		k := rng.Bytes(l)
		k[l-1] |= 1 // a key tail that is visibly not padding
		fs := forgeries(rng, k, all)
		if sample > 0 { // long keys (driver time): the valid one, sample/2 padding forgeries, sample/2 others
			var padf, other []forged
			for _, f := range fs[1:] {
				if strings.HasPrefix(f.kind, "pad/") {
					padf = append(padf, f)
				} else {
					other = append(other, f)
				}
			}
			fs = fs[:1]
			for _, grp := range [][]forged{padf, other} {
				for i := 0; i < sample/2 && i < len(grp); i++ {
					j := i + rng.Intn(len(grp)-i)
					grp[i], grp[j] = grp[j], grp[i]
					fs = append(fs, grp[i])
				}
			}
		}
		if !hlib.Pre() {
			o.Count(fmt.Sprintf("kwpforge/keylen%%8=%d/kek%d", l%8, kekLen))
		}
		for _, f := range fs {
			forgeOne(o, w, kek, f)
		}
	}
	// key lengths 1..64: every len%8, both KEK sizes for each (alternating in quick, both in thorough).
	// (1..8: single-block ECB wrappings, 16 bytes: refused by size; 9..15: RFC-valid 24-byte wrappings.)
	for l := 1; l <= 64; l++ {
		if thorough {
			group(l, 16, true, 0)
			group(l, 32, true, 0)
		} else {
			group(l, 16+16*((l+l/8)&1), l >= 16 && l < 24, 0)
		}
	}
	// a few long ones (the padding / length checks sit behind 6·n rounds of W^-1)
	long := []int{127, 250, 513, 1021, 2043, 4090}
	if thorough {
		long = append(long, 100, 333, 777, 1500, 3001, 6002, 8185, 8186, 8191, 8192)
	} else {
		long = append(long, 8185+rng.Intn(7))
	}
	for _, l := range long {
		sample := 16
		if l > 2048 && !thorough {
			sample = 6
		}
		group(l, rng.Pick(16, 32), false, sample)
	}
}
