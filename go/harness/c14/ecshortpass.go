//go:build verif

package main

import (
	"bytes"
	"strings"

	"github.com/tink-crypto/tink-go/v2/hybrid"
	"github.com/tink-crypto/tink-go/v2/internal/verifharness/hlib"
	"github.com/tink-crypto/tink-go/v2/internal/verifharness/kslib"
	"github.com/tink-crypto/tink-go/v2/jwt"
	"github.com/tink-crypto/tink-go/v2/keyset"
	"github.com/tink-crypto/tink-go/v2/signature"

	tinkpb "github.com/tink-crypto/tink-go/v2/proto/tink_go_proto"
)

// ecShortEncodings feeds the keyset readers NIST-curve keys (ECDSA, JWT ES*, ECIES) whose
// integers x, y, d are written the way other implementations write them: leading zero bytes
// stripped (1, 2, 3 bytes shorter than the curve size, which needs a key whose coordinate or
// scalar really starts with that many zero bytes — kslib.ECShortCases), exactly curve size, or
// with further zero bytes in front; plus controls whose extra leading byte is not zero. Each is a
// single-key keyset (private, then public only) through check(): every reader must decide alike
// and an accepted handle is used. On top of that an accepted foreign encoding must be the SAME
// key as the library's own encoding of these integers: what the foreign-encoded private key
// signs verifies under the canonically encoded public key and vice versa (hybrid: sealed by one,
// opened by the other) — a parser that pads or trims on the wrong side yields a different key.
// Whether a foreign encoding is accepted at all is not a clause of this property; it is counted
// (and is checked under C13, where these keysets must be readable).
func (w *world) ecShortEncodings() {
	o := w.o
	cases, err := kslib.ECShortCases(w.pool, hlib.Thorough())
	if err != nil {
		o.Violate("harness error: kslib.ECShortCases: %v", err)
		return
	}
	pubs, err := kslib.ECShortPublicCases(w.pool, hlib.Thorough())
	if err != nil {
		o.Violate("harness error: kslib.ECShortPublicCases: %v", err)
		return
	}
	one := func(kd *tinkpb.KeyData, pre tinkpb.OutputPrefixType, id uint32, label string) (*gen, result) {
		g := &gen{ks: &tinkpb.Keyset{PrimaryKeyId: id, Key: []*tinkpb.Keyset_Key{{KeyData: cloneKD(kd),
			Status: tinkpb.KeyStatusType_ENABLED, KeyId: id, OutputPrefixType: pre}}},
			src: []*kslib.PoolKey{nil}, kinds: []string{label}}
		return g, w.check(g)
	}
	short := func(name string) string { // "EcdsaPrivateKey/P256/x-lz2/minimal…" -> type/key/form without the curve
		p := strings.Split(name, "/")
		if len(p) >= 4 {
			return p[0] + "/" + p[2] + "/" + p[3]
		}
		return name
	}
	for i, c := range append(cases, pubs...) {
		// quick tier: every third case (which third depends on the seed; all of them are run under
		// C13 in every tier), the public-only keyset of the same encoding for every other of those
		if !hlib.Thorough() && (i+int(*hlib.FlagSeed%3))%3 != 0 {
			continue
		}
		id := w.rng.KeyID()
		label := "ecshort:" + c.Name
		if c.Priv != nil {
			o.Count("ecshort-cases/private")
			g, r := one(c.Priv, c.Prefix, id, label)
			switch {
			case r.accepted && !c.Accept:
				o.Count("ecshort-control-accepted/" + short(c.Name))
			case !r.accepted && c.Accept:
				o.Count("ecshort-rejected/" + short(c.Name))
			case r.accepted:
				o.Count("ecshort-accepted/private")
				w.sameKey(g, c, id)
			}
		}
		if c.Pub != nil && (c.Priv == nil || hlib.Thorough() || i%2 == 0) {
			o.Count("ecshort-cases/public")
			_, r := one(c.Pub, c.Prefix, id, label+"/public")
			switch {
			case r.accepted && !c.AcceptPub():
				o.Count("ecshort-control-accepted/public/" + short(c.Name))
			case !r.accepted && c.AcceptPub():
				o.Count("ecshort-rejected/public/" + short(c.Name))
			case r.accepted:
				o.Count("ecshort-accepted/public")
			}
		}
	}
}

// sameKey: the accepted foreign-encoded private key and the canonical encoding of the same
// integers are one key.
func (w *world) sameKey(g *gen, c kslib.ECShortCase, id uint32) {
	o := w.o
	if c.CanonPriv == nil || c.CanonPub == nil {
		return
	}
	fPriv, fPub := oneKey(c.Priv, id, c.Prefix), oneKey(c.Pub, id, c.Prefix)
	cPriv, cPub := oneKey(c.CanonPriv, id, c.Prefix), oneKey(c.CanonPub, id, c.Prefix)
	if fPriv == nil || cPriv == nil || cPub == nil {
		if cPriv == nil || cPub == nil {
			o.Count("ecshort-canonical-form-rejected/" + c.Class)
		}
		return
	}
	bad := func(format string, a ...any) {
		o.Count("INCONSISTENT")
		o.Violate("foreign integer encoding "+c.Name+": "+format+"; "+w.ctx(g), a...)
	}
	pairs := []struct {
		what     string
		priv, pb *keyset.Handle
	}{{"foreign private key / canonical public key", fPriv, cPub}, {"canonical private key / foreign public key", cPriv, fPub}}
	for _, p := range pairs {
		if p.priv == nil || p.pb == nil {
			continue
		}
		if pan := hlib.Recover(func() {
			switch c.Class {
			case "sig":
				s, err1 := signature.NewSigner(p.priv)
				v, err2 := signature.NewVerifier(p.pb)
				if err1 != nil || err2 != nil {
					o.Count("ecshort-samekey-no-primitive/sig")
					return
				}
				sig, err := s.Sign(msg)
				if err != nil {
					bad("%s: Sign fails: %v", p.what, err)
					return
				}
				if err := v.Verify(sig, msg); err != nil {
					bad("%s: the signature does not verify (the two encodings are not the same key): %v", p.what, err)
					return
				}
				o.Count("ecshort-samekey-ok/sig")
			case "jwtsig":
				s, err1 := jwt.NewSigner(p.priv)
				v, err2 := jwt.NewVerifier(p.pb)
				if err1 != nil || err2 != nil {
					o.Count("ecshort-samekey-no-primitive/jwtsig")
					return
				}
				iss := "c14"
				raw, _ := jwt.NewRawJWT(&jwt.RawJWTOptions{Issuer: &iss, WithoutExpiration: true})
				val, _ := jwt.NewValidator(&jwt.ValidatorOpts{ExpectedIssuer: &iss, AllowMissingExpiration: true})
				tok, err := s.SignAndEncode(raw)
				if err != nil {
					bad("%s: SignAndEncode fails: %v", p.what, err)
					return
				}
				if _, err := v.VerifyAndDecode(tok, val); err != nil {
					bad("%s: the token does not verify (the two encodings are not the same key): %v", p.what, err)
					return
				}
				o.Count("ecshort-samekey-ok/jwtsig")
			case "hyb":
				d, err1 := hybrid.NewHybridDecrypt(p.priv)
				e, err2 := hybrid.NewHybridEncrypt(p.pb)
				if err1 != nil || err2 != nil {
					o.Count("ecshort-samekey-no-primitive/hyb")
					return
				}
				ct, err := e.Encrypt(msg, ad)
				if err != nil {
					bad("%s: Encrypt fails: %v", p.what, err)
					return
				}
				got, err := d.Decrypt(ct, ad)
				if err != nil || !bytes.Equal(got, msg) {
					bad("%s: the ciphertext is not opened (the two encodings are not the same key): %v", p.what, err)
					return
				}
				o.Count("ecshort-samekey-ok/hyb")
			}
		}); pan != "" {
			w.panicked(g, "ecshort same-key use ("+p.what+")", pan)
		}
	}
}
