//go:build verif

package main

import (
	"crypto/elliptic"
	"math/big"
	"strings"

	"github.com/tink-crypto/tink-go/v2/internal/verifharness/hlib"
	"github.com/tink-crypto/tink-go/v2/internal/verifharness/kslib"
	"google.golang.org/protobuf/proto"

	tinkpb "github.com/tink-crypto/tink-go/v2/proto/tink_go_proto"
)

// Structured mismatches of the public and private halves of asymmetric keys.
//
// The random "mismatch" mutation (kslib.Mismatch) swaps in a whole half of another key, and the
// bit-flip mutations almost surely leave the curve; neither produces a public half that is a VALID
// key related to the private one. This pass builds such keys for every private pool key:
//
//   - generic, every key type: each single bytes field taken from a second valid key of the same
//     parameters (struct-cross-one), and the second key with each single field taken from the
//     first (struct-cross-allbut) — "x kept, y of another key", "n of another key, own primes", …;
//   - NIST curves (ECDSA, JWT ES*, ECIES, HPKE P-256/384/521, the classical half of composite
//     ML-DSA): negated point (x, p−y), d → n−d, 2Q, Q±G, d±1, 2d, d+n, x+p, y+p, d = 0, d = n,
//     compressed point where an uncompressed one is expected;
//   - X25519 (HPKE, ECIES) and Ed25519: top/sign bit of the public key flipped, small-order
//     public keys, another clamping-equivalent scalar;
//   - RSA: p and q swapped (with and without the CRT values), d + λ(n), d + φ(n), dp + (p−1),
//     crt + p, d of the modular inverse for another exponent.
//
// Controls (valid=true) are still matching pairs written differently ((n−d, −Q), d = 1 with G,
// swapped primes with swapped CRT values, clamping aliases): they may be accepted or rejected, and
// must work if accepted. Everything else is a mismatch: the property demands that it is rejected
// or that the accepted handle's private primitive verifies / opens under its own public half —
// which is what use() checks on every accepted handle. Acceptance of a mismatch is also counted
// (struct-mismatch-accepted/…); for ECIES a private value n−d under the point of d decrypts
// correctly by construction of ECIES (DESIGN §9.5), so acceptance alone is never the violation.

type smCase struct {
	label string
	kd    *tinkpb.KeyData
	valid bool
}

func cloneKD(k *tinkpb.KeyData) *tinkpb.KeyData { return proto.Clone(k).(*tinkpb.KeyData) }

func curveBySize(n int) elliptic.Curve {
	for _, c := range []elliptic.Curve{elliptic.P256(), elliptic.P384(), elliptic.P521()} {
		if (c.Params().BitSize+7)/8 == n {
			return c
		}
	}
	return nil
}

// fit writes v big-endian into exactly n bytes (nil if it does not fit).
func fit(v *big.Int, n int) []byte {
	if v.Sign() < 0 || (v.BitLen()+7)/8 > n {
		return nil
	}
	return v.FillBytes(make([]byte, n))
}

// ecGroup is one NIST-curve key pair inside a key proto: either x / y / d fields (ECDSA, JWT,
// ECIES, composite) or an uncompressed point and a fixed-size scalar (HPKE).
type ecGroup struct {
	prefix          string // path prefix ("" or "classical_private_key/")
	px, py, pd, ppt string // paths (ppt: HPKE point)
	lx, ly, ld      int    // field lengths as written by the library
	curve           elliptic.Curve
	x, y, d         *big.Int
}

func findECGroups(k *tinkpb.KeyData) []ecGroup {
	var out []ecGroup
	for _, f := range kslib.BytesFields(k) {
		switch {
		case strings.HasSuffix(f.Path, "public_key.x"):
			p := strings.TrimSuffix(f.Path, "public_key.x")
			g := ecGroup{prefix: p, px: f.Path, py: p + "public_key.y", pd: p + "key_value"}
			xb, _ := kslib.GetBytesAt(k, g.px)
			yb, ok1 := kslib.GetBytesAt(k, g.py)
			db, ok2 := kslib.GetBytesAt(k, g.pd)
			if !ok1 || !ok2 || len(yb) == 0 {
				continue // X25519 ECIES: handled by the byte-level cases
			}
			g.lx, g.ly, g.ld = len(xb), len(yb), len(db)
			g.x, g.y, g.d = new(big.Int).SetBytes(xb), new(big.Int).SetBytes(yb), new(big.Int).SetBytes(db)
			for _, c := range []elliptic.Curve{elliptic.P256(), elliptic.P384(), elliptic.P521()} {
				if c.IsOnCurve(g.x, g.y) {
					g.curve = c
				}
			}
			if g.curve != nil {
				out = append(out, g)
			}
		case f.Path == "public_key.public_key" && (f.Len == 65 || f.Len == 97 || f.Len == 133):
			pt, _ := kslib.GetBytesAt(k, f.Path)
			db, ok := kslib.GetBytesAt(k, "private_key")
			n := (f.Len - 1) / 2
			c := curveBySize(n)
			if !ok || c == nil || pt[0] != 4 {
				continue
			}
			g := ecGroup{ppt: f.Path, pd: "private_key", lx: n, ly: n, ld: len(db), curve: c,
				x: new(big.Int).SetBytes(pt[1 : 1+n]), y: new(big.Int).SetBytes(pt[1+n:]), d: new(big.Int).SetBytes(db)}
			if c.IsOnCurve(g.x, g.y) {
				out = append(out, g)
			}
		}
	}
	return out
}

// with returns a copy of k with the group's point and scalar replaced (nil if a value does not
// fit the field width the library uses).
func (g *ecGroup) with(k *tinkpb.KeyData, x, y, d *big.Int) *tinkpb.KeyData {
	c := cloneKD(k)
	xb, yb, db := fit(x, g.lx), fit(y, g.ly), fit(d, g.ld)
	if xb == nil || yb == nil || db == nil {
		return nil
	}
	if g.ppt != "" {
		if !kslib.SetBytesAt(c, g.ppt, append(append([]byte{4}, xb...), yb...)) {
			return nil
		}
	} else if !kslib.SetBytesAt(c, g.px, xb) || !kslib.SetBytesAt(c, g.py, yb) {
		return nil
	}
	if !kslib.SetBytesAt(c, g.pd, db) {
		return nil
	}
	return c
}

func (g *ecGroup) cases(k *tinkpb.KeyData) []smCase {
	var out []smCase
	cv := g.curve
	P, N := cv.Params().P, cv.Params().N
	add := func(label string, valid bool, x, y, d *big.Int) {
		if c := g.with(k, x, y, d); c != nil {
			out = append(out, smCase{"struct-ec-" + label + ":" + g.prefix + cv.Params().Name, c, valid})
		}
	}
	one := big.NewInt(1)
	negY := new(big.Int).Sub(P, g.y)
	negD := new(big.Int).Sub(N, g.d)
	x2, y2 := cv.Double(g.x, g.y)
	xp, yp := cv.Add(g.x, g.y, cv.Params().Gx, cv.Params().Gy)
	xm, ym := cv.Add(g.x, g.y, cv.Params().Gx, new(big.Int).Sub(P, cv.Params().Gy))
	add("neg-point", false, g.x, negY, g.d)
	add("neg-scalar", false, g.x, g.y, negD)
	add("neg-both", true, g.x, negY, negD)
	add("double-point", false, x2, y2, g.d)
	add("point-plus-G", false, xp, yp, g.d)
	add("point-minus-G", false, xm, ym, g.d)
	add("scalar-plus-1", false, g.x, g.y, new(big.Int).Mod(new(big.Int).Add(g.d, one), N))
	add("scalar-minus-1", false, g.x, g.y, new(big.Int).Mod(new(big.Int).Sub(g.d, one), N))
	add("scalar-double", false, g.x, g.y, new(big.Int).Mod(new(big.Int).Lsh(g.d, 1), N))
	add("scalar-plus-n", false, g.x, g.y, new(big.Int).Add(g.d, N)) // the same scalar mod n, out of range
	add("scalar-zero", false, g.x, g.y, new(big.Int))
	add("scalar-n", false, g.x, g.y, N)
	add("x-plus-p", false, new(big.Int).Add(g.x, P), g.y, g.d) // the same point, coordinate out of range
	add("y-plus-p", false, g.x, new(big.Int).Add(g.y, P), g.d)
	add("double-both", true, x2, y2, new(big.Int).Mod(new(big.Int).Lsh(g.d, 1), N))
	add("plus-one-both", true, xp, yp, new(big.Int).Mod(new(big.Int).Add(g.d, one), N))
	add("key-one", true, cv.Params().Gx, cv.Params().Gy, one)
	add("key-n-minus-1", true, cv.Params().Gx, new(big.Int).Sub(P, cv.Params().Gy), new(big.Int).Sub(N, one))
	add("point-G-own-scalar", false, cv.Params().Gx, cv.Params().Gy, g.d)
	if g.ppt != "" { // HPKE: a compressed encoding of the right point where 04‖x‖y is expected
		c := cloneKD(k)
		if kslib.SetBytesAt(c, g.ppt, append([]byte{2 + byte(g.y.Bit(0))}, fit(g.x, g.lx)...)) {
			out = append(out, smCase{"struct-ec-compressed-point:" + cv.Params().Name, c, false})
		}
	}
	return out
}

type special struct {
	name string
	b    []byte
}

// small-order / special encodings of Curve25519 u-coordinates and Ed25519 points (little endian)
func le32(hexBE string) []byte {
	v, _ := new(big.Int).SetString(hexBE, 16)
	b := v.FillBytes(make([]byte, 32))
	for i, j := 0, 31; i < j; i, j = i+1, j-1 {
		b[i], b[j] = b[j], b[i]
	}
	return b
}

var x25519Special = []special{
	{"u-zero", le32("0")},
	{"u-one", le32("1")},
	{"u-order8-a", le32("00b8495f16056286fdb1329ceb8d09da6ac49ff1fae35616aeb8413b7c7aebe0")},
	{"u-order8-b", le32("57119fd0dd4e22d8868e1c58c45c44045bef839c55b1d0b1248c50a3bc959c5f")},
	{"u-p-minus-1", le32("7fffffffffffffffffffffffffffffffffffffffffffffffffffffffffffffec")},
	{"u-p", le32("7fffffffffffffffffffffffffffffffffffffffffffffffffffffffffffffed")},
	{"u-p-plus-1", le32("7fffffffffffffffffffffffffffffffffffffffffffffffffffffffffffffee")},
}

var ed25519Special = []special{
	{"identity", le32("1")}, // (0, 1)
	{"order2", le32("7fffffffffffffffffffffffffffffffffffffffffffffffffffffffffffffec")}, // (0, -1)
	{"order4", le32("0")}, // (sqrt(-1), 0)
	{"order4-neg", le32("8000000000000000000000000000000000000000000000000000000000000000")},      // (-sqrt(-1), 0)
	{"identity-noncan", le32("7fffffffffffffffffffffffffffffffffffffffffffffffffffffffffffffee")}, // y = p+1
	{"identity-signed", le32("8000000000000000000000000000000000000000000000000000000000000001")}, // x = 0 with the sign bit set
}

// byteCases: X25519 / Ed25519 key pairs (32-byte public key next to a 32-byte private value).
func byteCases(pk *kslib.PoolKey, k *tinkpb.KeyData) []smCase {
	var out []smCase
	type pair struct{ pub, priv, kind, prefix string }
	var pairs []pair
	for _, f := range kslib.BytesFields(k) {
		switch {
		case strings.HasSuffix(f.Path, "public_key.key_value") && f.Len == 32 &&
			(pk.Type == "Ed25519PrivateKey" || strings.HasPrefix(f.Path, "classical_private_key/")):
			p := strings.TrimSuffix(f.Path, "public_key.key_value")
			pairs = append(pairs, pair{f.Path, p + "key_value", "ed25519", p})
		case f.Path == "public_key.public_key" && f.Len == 32:
			pairs = append(pairs, pair{f.Path, "private_key", "x25519", ""})
		case f.Path == "public_key.x" && f.Len == 32:
			if y, ok := kslib.GetBytesAt(k, "public_key.y"); ok && len(y) == 0 {
				pairs = append(pairs, pair{f.Path, "key_value", "x25519", ""})
			}
		}
	}
	for _, p := range pairs {
		pub, ok1 := kslib.GetBytesAt(k, p.pub)
		priv, ok2 := kslib.GetBytesAt(k, p.priv)
		if !ok1 || !ok2 || len(priv) != 32 {
			continue
		}
		add := func(label string, valid bool, newPub, newPriv []byte) {
			c := cloneKD(k)
			if kslib.SetBytesAt(c, p.pub, newPub) && kslib.SetBytesAt(c, p.priv, newPriv) {
				out = append(out, smCase{"struct-" + p.kind + "-" + label + ":" + p.prefix, c, valid})
			}
		}
		flip := func(b []byte, i int, m byte) []byte { c := append([]byte{}, b...); c[i] ^= m; return c }
		// the top bit: ignored by X25519 (an alias of the same u), the sign of x for Ed25519 (−A)
		add("pub-top-bit", false, flip(pub, 31, 0x80), priv)
		add("pub-low-bit", false, flip(pub, 0, 1), priv)
		if p.kind == "x25519" {
			for _, s := range x25519Special {
				add("pub-"+s.name, false, s.b, priv)
			}
			// clamping ignores the low three bits of byte 0 and the two top bits of byte 31
			add("scalar-clamp-alias-low", true, pub, flip(priv, 0, 0x07))
			add("scalar-clamp-alias-high", true, pub, flip(priv, 31, 0xc0))
			add("scalar-bit3", false, pub, flip(priv, 0, 0x08))
		} else {
			for _, s := range ed25519Special {
				add("pub-"+s.name, false, s.b, priv)
			}
			add("seed-bit0", false, pub, flip(priv, 0, 1))
			add("seed-top-bit", false, pub, flip(priv, 31, 0x80))
		}
	}
	return out
}

// rsaCases: the private key written with its factors in the other order, equivalent exponents,
// and the matching inconsistent variants.
func rsaCases(k *tinkpb.KeyData) []smCase {
	get := func(p string) (*big.Int, int) {
		b, ok := kslib.GetBytesAt(k, p)
		if !ok || len(b) == 0 {
			return nil, 0
		}
		return new(big.Int).SetBytes(b), len(b)
	}
	n, ln := get("public_key.n")
	e, _ := get("public_key.e")
	d, ld := get("d")
	p, lp := get("p")
	q, lq := get("q")
	dp, ldp := get("dp")
	dq, ldq := get("dq")
	crt, lcrt := get("crt")
	if n == nil || e == nil || d == nil || p == nil || q == nil || dp == nil || dq == nil || crt == nil {
		return nil
	}
	var out []smCase
	add := func(label string, valid bool, kv map[string][]byte) {
		c := cloneKD(k)
		for path, b := range kv {
			if b == nil || !kslib.SetBytesAt(c, path, b) {
				return
			}
		}
		out = append(out, smCase{"struct-rsa-" + label, c, valid})
	}
	one := big.NewInt(1)
	p1, q1 := new(big.Int).Sub(p, one), new(big.Int).Sub(q, one)
	phi := new(big.Int).Mul(p1, q1)
	lambda := new(big.Int).Div(phi, new(big.Int).GCD(nil, nil, p1, q1))
	pInvQ := new(big.Int).ModInverse(p, q)
	add("swap-pq-only", false, map[string][]byte{"p": fit(q, lp), "q": fit(p, lq)})
	add("swap-pq-full", true, map[string][]byte{"p": fit(q, lp), "q": fit(p, lq), "dp": fit(dq, ldp), "dq": fit(dp, ldq), "crt": fit(pInvQ, lcrt)})
	add("swap-dpdq", false, map[string][]byte{"dp": fit(dq, ldp), "dq": fit(dp, ldq)})
	add("d-plus-lambda", true, map[string][]byte{"d": fit(new(big.Int).Add(d, lambda), ld)})
	add("d-plus-phi", true, map[string][]byte{"d": fit(new(big.Int).Add(d, phi), ld+1)})
	add("d-mod-lambda", true, map[string][]byte{"d": fit(new(big.Int).Mod(d, lambda), ld)})
	add("d-plus-1", false, map[string][]byte{"d": fit(new(big.Int).Add(d, one), ld)})
	add("d-negated", false, map[string][]byte{"d": fit(new(big.Int).Sub(lambda, d), ld)})
	add("dp-plus-p-1", true, map[string][]byte{"dp": fit(new(big.Int).Add(dp, p1), ldp+1)})
	add("dp-plus-1", false, map[string][]byte{"dp": fit(new(big.Int).Add(dp, one), ldp)})
	add("dq-plus-1", false, map[string][]byte{"dq": fit(new(big.Int).Add(dq, one), ldq)})
	add("crt-plus-p", true, map[string][]byte{"crt": fit(new(big.Int).Add(crt, p), lcrt+1)})
	add("crt-plus-1", false, map[string][]byte{"crt": fit(new(big.Int).Add(crt, one), lcrt)})
	add("crt-of-swapped", false, map[string][]byte{"crt": fit(pInvQ, lcrt)})
	// the private exponent of another public exponent (e' = 3 or 17 or 257, whichever is invertible)
	for _, e2 := range []int64{3, 17, 257, 65539} {
		if d2 := new(big.Int).ModInverse(big.NewInt(e2), lambda); d2 != nil {
			add("d-for-other-e", false, map[string][]byte{"d": fit(d2, ld)})
			break
		}
	}
	add("n-plus-2", false, map[string][]byte{"public_key.n": fit(new(big.Int).Add(n, big.NewInt(2)), ln)})
	add("p-eq-q", false, map[string][]byte{"q": fit(p, lq)})
	add("p-one-q-n", false, map[string][]byte{"p": fit(one, lp), "q": fit(n, ln)})
	return out
}

// crossCases: every single bytes field taken from the second key, and the second key with every
// single field taken from the first.
func crossCases(k, alt *tinkpb.KeyData) []smCase {
	var out []smCase
	if alt == nil {
		return nil
	}
	for _, f := range kslib.BytesFields(k) {
		a, ok1 := kslib.GetBytesAt(k, f.Path)
		b, ok2 := kslib.GetBytesAt(alt, f.Path)
		if !ok1 || !ok2 || len(a) == 0 || string(a) == string(b) {
			continue
		}
		c := cloneKD(k)
		if kslib.SetBytesAt(c, f.Path, b) {
			out = append(out, smCase{"struct-cross-one:" + f.Path, c, false})
		}
		c = cloneKD(alt)
		if kslib.SetBytesAt(c, f.Path, a) {
			out = append(out, smCase{"struct-cross-allbut:" + f.Path, c, false})
		}
	}
	return out
}

func structCases(pk *kslib.PoolKey) []smCase {
	var out []smCase
	out = append(out, smCase{"struct-control-alt", cloneKD(pk.Alt), true})
	out = append(out, crossCases(pk.KD, pk.Alt)...)
	for _, g := range findECGroups(pk.KD) {
		out = append(out, g.cases(pk.KD)...)
	}
	out = append(out, byteCases(pk, pk.KD)...)
	if strings.Contains(pk.Type, "Rsa") {
		out = append(out, rsaCases(pk.KD)...)
	}
	return out
}

// structuredMismatches runs every case as a single-key keyset, then inside keysets of several
// keys (the mismatched key being the primary, which is the key signers and decrypters use).
func (w *world) structuredMismatches() {
	o := w.o
	var all []struct {
		pk *kslib.PoolKey
		c  smCase
	}
	for _, pk := range w.pool.Keys {
		if pk.Pub < 0 || pk.Alt == nil {
			continue
		}
		if pk.Slow && !hlib.Thorough() {
			continue // SLH-DSA (key generation and signing take seconds; excepted by the property anyway)
		}
		for _, c := range structCases(pk) {
			all = append(all, struct {
				pk *kslib.PoolKey
				c  smCase
			}{pk, c})
			id := w.rng.KeyID()
			g := &gen{ks: &tinkpb.Keyset{PrimaryKeyId: id, Key: []*tinkpb.Keyset_Key{{KeyData: cloneKD(c.kd),
				Status: tinkpb.KeyStatusType_ENABLED, KeyId: id, OutputPrefixType: pk.Prefix}}},
				src: []*kslib.PoolKey{pk}, kinds: []string{c.label}}
			o.Count("struct-cases/" + pk.Type)
			r := w.check(g)
			w.structNote(pk, c, r)
		}
	}
	if len(all) == 0 {
		return
	}
	for i, n := 0, hlib.N(250, 6000); i < n; i++ {
		g := w.genKeyset()
		a := all[w.rng.Intn(len(all))]
		if a.pk.Slow && !w.rng.Chance(10) {
			continue
		}
		t := g.primaryIdx()
		if t < 0 || w.rng.Chance(20) {
			t = w.rng.Intn(len(g.ks.Key))
		}
		g.ks.Key[t].KeyData, g.ks.Key[t].OutputPrefixType, g.src[t] = cloneKD(a.c.kd), a.pk.Prefix, a.pk
		g.kinds = append(g.kinds, a.c.label)
		w.check(g)
	}
}

func (w *world) structNote(pk *kslib.PoolKey, c smCase, r result) {
	o := w.o
	k := kindClass(c.label)
	switch {
	case c.valid && !r.accepted:
		o.Count("struct-control-rejected/" + pk.Type + "/" + k)
	case c.valid && len(r.usable) == 0:
		o.Count("struct-control-accepted-without-primitive/" + pk.Type + "/" + k)
	case c.valid:
		o.Count("struct-control-accepted/" + k)
	case r.accepted:
		o.Count("struct-mismatch-accepted/" + pk.Type + "/" + k)
		if len(r.usable) > 0 {
			o.Count("struct-mismatch-accepted-and-consistent/" + pk.Type + "/" + k + "/" + strings.Join(r.usable, "+"))
		}
	default:
		o.Count("struct-mismatch-rejected/" + k)
	}
}
