//go:build verif

package main

import (
	"fmt"
	"strings"
	"time"

	"github.com/tink-crypto/tink-go/v2/internal/primitiveregistry"
	"github.com/tink-crypto/tink-go/v2/internal/protoserialization"
	"github.com/tink-crypto/tink-go/v2/internal/verifharness/hlib"
	"github.com/tink-crypto/tink-go/v2/internal/verifharness/kslib"
	"github.com/tink-crypto/tink-go/v2/key"
	"github.com/tink-crypto/tink-go/v2/keyset"
	"github.com/tink-crypto/tink-go/v2/signature/compositemldsa"
	"github.com/tink-crypto/tink-go/v2/signature/mldsa"
	"google.golang.org/protobuf/proto"
	"google.golang.org/protobuf/reflect/protoreflect"

	tinkpb "github.com/tink-crypto/tink-go/v2/proto/tink_go_proto"
)

// Role swaps in nested keys (round 4).
//
// Some key protos embed another serialized key or key template: composite ML-DSA (the ML-DSA key
// and the classical key, in public and in private composite keys), the PRF-based deriver (the PRF
// key and the template of the derived key), the KMS envelope AEAD (the DEK template), ECIES (the
// DEM template). The sites are found by walking the key proto for fields of type KeyData /
// KeyTemplate, so a new nesting is covered without naming it. Each site is given a WELL-FORMED
// key / template of another role:
//
//   - every pool key of every type (symmetric, private, public) and the keys nested in pool keys
//     — so: private for public and public for private with EXACTLY the parameters the slot
//     requires (the classical / ML-DSA halves of the twin and of a second composite key; for
//     composite ML-DSA also the stand-alone ECDSA / Ed25519 / RSA / ML-DSA pool keys that have the
//     nested parameters), another key type over the same curve or modulus (ECDSA vs ECIES / HPKE /
//     JWT P-256, RSA-PSS vs PKCS1), another algorithm, the same type with other parameters,
//     symmetric where asymmetric is expected;
//   - with the nested material type left as the substitute's and set to the slot's, and with the
//     outer material type left and adjusted to the substitute's;
//   - templates: the serialized parameters of every pool key, the templates nested in pool keys,
//     a template under the public key's type URL, a key in place of a key format and a key format
//     in place of a key (KeyData and KeyTemplate have the same wire layout), every output prefix;
//   - composite ML-DSA keys of every classical algorithm that can be assembled from pool keys
//     (P-384 / P-521 / RSA-3072 PSS and PKCS1 next to the pool's P-256 / Ed25519 / P-384) are
//     targets as well; RSA-4096 ones are generated in the thorough tier.
//
// Rule: the readers reject the keyset, or every primitive creation from the accepted handle (all
// factories of use.go incl. Public(), and the registered key-level constructor of every entry's
// key and of its public key) RETURNS — an error or a primitive, never a panic — and a primitive
// that is created round-trips / verifies under its own public half (use.go). Which substitutions
// are accepted is counted (nested-accepted/…); acceptance alone is not a violation.
//
// Volume: the quick tier takes every same-family substitute of the other role (the role swaps
// proper) with all variants, and a sample of the same-role and other-family ones; the other
// output prefixes are tried for accepted role swaps and a sample of the other accepted cases.
// The thorough tier takes every substitute, variant and (for role swaps and accepted cases)
// prefix. Accepted substitutions are also placed inside keysets of several keys.

type nestSite struct {
	path string // dotted path of the KeyData / KeyTemplate field below the key proto
	tmpl bool
}

const (
	fnKeyData  = "google.crypto.tink.KeyData"
	fnTemplate = "google.crypto.tink.KeyTemplate"
)

// nestSites lists the populated KeyData / KeyTemplate fields of the key proto in kd.
func nestSites(kd *tinkpb.KeyData) []nestSite {
	in := kslib.Inner(kd.GetTypeUrl(), kd.GetValue())
	if in == nil {
		return nil
	}
	var out []nestSite
	var walk func(m protoreflect.Message, path string, depth int)
	walk = func(m protoreflect.Message, path string, depth int) {
		if depth > 5 {
			return
		}
		fds := m.Descriptor().Fields()
		for i := 0; i < fds.Len(); i++ {
			fd := fds.Get(i)
			if fd.Kind() != protoreflect.MessageKind || fd.IsList() || fd.IsMap() || !m.Has(fd) {
				continue
			}
			p := string(fd.Name())
			if path != "" {
				p = path + "." + p
			}
			switch fd.Message().FullName() {
			case fnKeyData:
				out = append(out, nestSite{p, false})
			case fnTemplate:
				out = append(out, nestSite{p, true})
			default:
				walk(m.Get(fd).Message(), p, depth+1)
			}
		}
	}
	walk(in, "", 0)
	return out
}

// nestGet returns a copy of the message at a site (nil if absent).
func nestGet(kd *tinkpb.KeyData, path string) proto.Message {
	m := kslib.Inner(kd.GetTypeUrl(), kd.GetValue())
	if m == nil {
		return nil
	}
	for _, p := range strings.Split(path, ".") {
		fd := m.Descriptor().Fields().ByName(protoreflect.Name(p))
		if fd == nil || fd.Kind() != protoreflect.MessageKind || !m.Has(fd) {
			return nil
		}
		m = m.Get(fd).Message()
	}
	return proto.Clone(m.Interface())
}

// nestSet returns a copy of kd with the message at the site replaced by repl.
func nestSet(kd *tinkpb.KeyData, path string, repl proto.Message) *tinkpb.KeyData {
	in := kslib.Inner(kd.GetTypeUrl(), kd.GetValue())
	if in == nil {
		return nil
	}
	m := in
	parts := strings.Split(path, ".")
	for i, p := range parts {
		fd := m.Descriptor().Fields().ByName(protoreflect.Name(p))
		if fd == nil || fd.Kind() != protoreflect.MessageKind {
			return nil
		}
		if i == len(parts)-1 {
			if fd.Message().FullName() != repl.ProtoReflect().Descriptor().FullName() {
				return nil
			}
			m.Set(fd, protoreflect.ValueOfMessage(proto.Clone(repl).ProtoReflect()))
			break
		}
		m = m.Mutable(fd).Message()
	}
	b, err := proto.MarshalOptions{AllowPartial: true}.Marshal(in.Interface())
	if err != nil {
		return nil
	}
	c := cloneKD(kd)
	c.Value = b
	return c
}

type nestSub struct {
	name string
	kd   *tinkpb.KeyData     // for KeyData sites
	tm   *tinkpb.KeyTemplate // for KeyTemplate sites
}

// family strips the role from a key type name: EcdsaPrivateKey / EcdsaPublicKey → Ecdsa.
func family(url string) string {
	t := kslib.TypeOfURL(url)
	for _, s := range []string{"PrivateKey", "PublicKey", "KeyFormat", "Key"} {
		if strings.HasSuffix(t, s) {
			return strings.TrimSuffix(t, s)
		}
	}
	return t
}

// nestTarget is one key whose nested sites are substituted.
type nestTarget struct {
	pk    *kslib.PoolKey // pool key (for extra composite keys: a synthetic PoolKey, Priv/Pub = -1)
	extra bool
}

// parseRaw parses a stand-alone key proto the way composite ML-DSA parses its halves.
func parseRaw(kd *tinkpb.KeyData) (k key.Key) {
	hlib.Recover(func() {
		ser, err := protoserialization.NewKeySerialization(cloneKD(kd), tinkpb.OutputPrefixType_RAW, 0)
		if err != nil {
			return
		}
		if p, err := protoserialization.ParseKey(ser); err == nil {
			k = p
		}
	})
	return k
}

func serializeKD(k key.Key) (kd *tinkpb.KeyData, pre tinkpb.OutputPrefixType) {
	hlib.Recover(func() {
		if ser, err := protoserialization.SerializeKey(k); err == nil {
			kd, pre = cloneKD(ser.KeyData()), ser.OutputPrefixType()
		}
	})
	return
}

// extraComposites assembles composite ML-DSA private keys of every supported parameter set from
// the stand-alone classical and ML-DSA private keys of the pool (compositemldsa.NewPrivateKey
// checks that their parameters are exactly the nested ones), and their public keys. In the
// thorough tier the sets that need an RSA-4096 key are generated.
func (w *world) extraComposites() []nestTarget {
	o := w.o
	type combo struct {
		alg  compositemldsa.ClassicalAlgorithm
		inst compositemldsa.MLDSAInstance
		name string
	}
	combos := []combo{
		{compositemldsa.Ed25519, compositemldsa.MLDSA65, "Ed25519-65"}, {compositemldsa.ECDSAP256, compositemldsa.MLDSA65, "P256-65"},
		{compositemldsa.ECDSAP384, compositemldsa.MLDSA65, "P384-65"}, {compositemldsa.RSA3072PSS, compositemldsa.MLDSA65, "RSA3072PSS-65"},
		{compositemldsa.RSA4096PSS, compositemldsa.MLDSA65, "RSA4096PSS-65"}, {compositemldsa.RSA3072PKCS1, compositemldsa.MLDSA65, "RSA3072PKCS1-65"},
		{compositemldsa.RSA4096PKCS1, compositemldsa.MLDSA65, "RSA4096PKCS1-65"}, {compositemldsa.ECDSAP384, compositemldsa.MLDSA87, "P384-87"},
		{compositemldsa.ECDSAP521, compositemldsa.MLDSA87, "P521-87"}, {compositemldsa.RSA3072PSS, compositemldsa.MLDSA87, "RSA3072PSS-87"},
		{compositemldsa.RSA4096PSS, compositemldsa.MLDSA87, "RSA4096PSS-87"},
	}
	have := map[string]bool{}
	for _, pk := range w.pool.Keys {
		if pk.Type == "CompositeMlDsaPrivateKey" {
			if in := kslib.Inner(pk.KD.TypeUrl, pk.KD.Value); in != nil {
				have[fmt.Sprint(in.Get(in.Descriptor().Fields().ByName("params")).Message().Interface())] = true
			}
		}
	}
	var classical, pq []key.Key
	for _, pk := range w.pool.Keys {
		if pk.Class != "sig" || pk.Slow {
			continue
		}
		switch pk.Type {
		case "EcdsaPrivateKey", "Ed25519PrivateKey", "RsaSsaPssPrivateKey", "RsaSsaPkcs1PrivateKey":
			if k := parseRaw(pk.KD); k != nil {
				classical = append(classical, k)
			}
		case "MlDsaPrivateKey":
			if k := parseRaw(pk.KD); k != nil {
				pq = append(pq, k)
			}
		}
	}
	var out []nestTarget
	add := func(name string, k key.Key) {
		kd, pre := serializeKD(k)
		if kd == nil {
			o.Count("nested-extra-composite-unserializable/" + name)
			return
		}
		if in := kslib.Inner(kd.TypeUrl, kd.Value); in != nil && have[fmt.Sprint(in.Get(in.Descriptor().Fields().ByName("params")).Message().Interface())] {
			return // the pool has this parameter set
		}
		priv := &kslib.PoolKey{Name: "CompositeExtra-" + name, Class: "sig", Type: kslib.TypeOfURL(kd.TypeUrl), KD: kd, Prefix: pre, Pub: -1, Priv: -1}
		out = append(out, nestTarget{priv, true})
		o.Count("nested-extra-composite/" + name)
		if pp, ok := k.(interface{ PublicKey() (key.Key, error) }); ok {
			if pub, err := pp.PublicKey(); err == nil {
				if pkd, ppre := serializeKD(pub); pkd != nil {
					out = append(out, nestTarget{&kslib.PoolKey{Name: "CompositeExtra-" + name + ".pub", Class: "sigpub",
						Type: kslib.TypeOfURL(pkd.TypeUrl), KD: pkd, Prefix: ppre, Pub: -1, Priv: -1}, true})
				}
			}
		}
	}
	for i, c := range combos {
		variant := []compositemldsa.Variant{compositemldsa.VariantTink, compositemldsa.VariantNoPrefix}[i%2]
		params, err := compositemldsa.NewParameters(c.alg, c.inst, variant)
		if err != nil {
			continue
		}
		id := uint32(0)
		if variant == compositemldsa.VariantTink {
			id = 0x0c0c0c00 + uint32(i)
		}
		var built key.Key
		for _, ck := range classical {
			for _, mk := range pq {
				if built != nil {
					break
				}
				hlib.Recover(func() {
					if k, err := compositemldsa.NewPrivateKey(mk.(*mldsa.PrivateKey), ck, id, params); err == nil {
						built = k
					}
				})
			}
		}
		if built == nil && hlib.Thorough() && strings.Contains(c.name, "4096") {
			hlib.Recover(func() {
				km := keyset.NewManager()
				kid, err := km.AddNewKeyFromParameters(params)
				if err != nil {
					return
				}
				if km.SetPrimary(kid) != nil {
					return
				}
				if h, err := km.Handle(); err == nil {
					if e, err := h.Primary(); err == nil {
						built = e.Key()
					}
				}
			})
		}
		if built == nil {
			o.Count("nested-extra-composite-not-built/" + c.name)
			continue
		}
		add(c.name, built)
	}
	return out
}

// nestSubstitutes builds the lists of well-formed keys and templates of every role.
func (w *world) nestSubstitutes(targets []nestTarget) (kds, tms []nestSub) {
	seenK, seenT := map[string]bool{}, map[string]bool{}
	addK := func(name string, kd *tinkpb.KeyData) {
		if kd == nil {
			return
		}
		b, _ := proto.MarshalOptions{Deterministic: true}.Marshal(kd)
		if seenK[string(b)] {
			return
		}
		seenK[string(b)] = true
		kds = append(kds, nestSub{name: name, kd: cloneKD(kd)})
	}
	addT := func(name string, tm *tinkpb.KeyTemplate) {
		if tm == nil {
			return
		}
		b, _ := proto.MarshalOptions{Deterministic: true}.Marshal(tm)
		if seenT[string(b)] {
			return
		}
		seenT[string(b)] = true
		tms = append(tms, nestSub{name: name, tm: proto.Clone(tm).(*tinkpb.KeyTemplate)})
	}
	nested := func(name string, kd *tinkpb.KeyData) {
		for _, s := range nestSites(kd) {
			switch m := nestGet(kd, s.path).(type) {
			case *tinkpb.KeyData:
				addK(name+"/"+s.path, m)
			case *tinkpb.KeyTemplate:
				addT(name+"/"+s.path, m)
			}
		}
	}
	for _, pk := range w.pool.Keys {
		addK(pk.Name, pk.KD)
		nested(pk.Name, pk.KD)
		if pk.Alt != nil {
			nested(pk.Name+".alt", pk.Alt)
		}
	}
	for _, t := range targets {
		if t.extra {
			addK(t.pk.Name, t.pk.KD)
			nested(t.pk.Name, t.pk.KD)
		}
	}
	// templates: the parameters of every pool key
	for _, pk := range w.pool.Keys {
		if pk.Priv >= 0 {
			continue
		}
		var tm *tinkpb.KeyTemplate
		hlib.Recover(func() {
			if k := parseWith(pk.KD, pk.Prefix); k != nil {
				if t, err := protoserialization.SerializeParameters(k.Parameters()); err == nil {
					tm = t
				}
			}
		})
		if tm == nil {
			w.o.Count("nested-template-unavailable/" + pk.Name)
			continue
		}
		addT(pk.Name+".params", tm)
		if pk.Pub >= 0 { // the format of the private key under the public key's type URL
			c := proto.Clone(tm).(*tinkpb.KeyTemplate)
			c.TypeUrl = w.pool.Keys[pk.Pub].KD.TypeUrl
			addT(pk.Name+".params-public-url", c)
		}
		// a key format where a key is expected (same wire layout)
		addK(pk.Name+".format-as-key", &tinkpb.KeyData{TypeUrl: tm.TypeUrl, Value: tm.Value, KeyMaterialType: pk.KD.KeyMaterialType})
	}
	// a key where a key format is expected
	for _, pk := range w.pool.Keys {
		addT(pk.Name+".key-as-format", &tinkpb.KeyTemplate{TypeUrl: pk.KD.TypeUrl, Value: pk.KD.Value, OutputPrefixType: pk.Prefix})
	}
	return kds, tms
}

// parseWith parses kd as a keyset entry with the given prefix would be.
func parseWith(kd *tinkpb.KeyData, pre tinkpb.OutputPrefixType) (k key.Key) {
	hlib.Recover(func() {
		id := uint32(0x0e0e0e0e)
		if pre == tinkpb.OutputPrefixType_RAW {
			id = 0
		}
		ser, err := protoserialization.NewKeySerialization(cloneKD(kd), pre, id)
		if err != nil {
			return
		}
		if p, err := protoserialization.ParseKey(ser); err == nil {
			k = p
		}
	})
	return k
}

// keyLevel calls the registered primitive constructor of every entry's key (and of its public
// key) directly: these are the functions the factories reach through the registry; none may panic.
func (w *world) keyLevel(h *keyset.Handle, g *gen) {
	o := w.o
	for i := 0; i < h.Len(); i++ {
		e, err := h.Entry(i)
		if err != nil {
			continue
		}
		ks := []key.Key{e.Key()}
		if pp, ok := e.Key().(interface{ PublicKey() (key.Key, error) }); ok {
			var pub key.Key
			if p := hlib.Recover(func() { pub, _ = pp.PublicKey() }); p != "" {
				w.panicked(g, fmt.Sprintf("%T.PublicKey()", e.Key()), p)
			}
			if pub != nil {
				ks = append(ks, pub)
			}
		}
		for _, k := range ks {
			var perr error
			var prim any
			if p := hlib.Recover(func() { prim, perr = primitiveregistry.Primitive(k) }); p != "" {
				w.panicked(g, fmt.Sprintf("primitiveregistry.Primitive(%T)", k), p)
				continue
			}
			switch {
			case perr != nil:
				o.Count("key-level-constructor/error")
			case prim == nil:
				o.Violate("primitiveregistry.Primitive(%T) returned neither a primitive nor an error; %s", k, w.ctx(g))
			default:
				o.Count("key-level-constructor/primitive")
			}
		}
	}
}

type nestedCase struct {
	pk    *kslib.PoolKey
	kd    *tinkpb.KeyData
	label string
}

// nestedOne runs one substituted key as a single-key keyset (with its own prefix; if that is
// accepted or in the thorough tier, with every other prefix too).
func (w *world) nestedOne(t nestTarget, kd *tinkpb.KeyData, label string, retry bool) {
	o := w.o
	pres := []tinkpb.OutputPrefixType{t.pk.Prefix}
	for pi := 0; pi < len(pres); pi++ {
		id := w.rng.KeyID()
		g := &gen{ks: &tinkpb.Keyset{PrimaryKeyId: id, Key: []*tinkpb.Keyset_Key{{KeyData: cloneKD(kd),
			Status: tinkpb.KeyStatusType_ENABLED, KeyId: id, OutputPrefixType: pres[pi]}}},
			src: []*kslib.PoolKey{t.pk}, kinds: []string{label}}
		o.Count("nested-cases/" + t.pk.Type)
		r := w.check(g)
		if r.accepted {
			o.Count("nested-accepted/" + t.pk.Type + "/" + nestSubClass(label))
			if len(r.usable) > 0 {
				o.Count("nested-accepted-and-usable/" + t.pk.Type + "/" + nestSubClass(label) + "/" + strings.Join(r.usable, "+"))
			}
			if h, err, p := kslib.ReadMem(g.ks); err == nil && p == "" && h != nil {
				w.keyLevel(h, g)
			}
			if pi == 0 {
				w.nestAccepted = append(w.nestAccepted, nestedCase{t.pk, cloneKD(kd), label})
			}
		}
		// the other prefixes: for accepted role swaps within the family and a sample of the other
		// accepted substitutions; in the thorough tier for every accepted one and every role swap
		if pi == 0 && (r.accepted && (retry || hlib.Thorough()) || retry && hlib.Thorough()) {
			for p := tinkpb.OutputPrefixType(1); p <= 4; p++ {
				if p != t.pk.Prefix {
					pres = append(pres, p)
				}
			}
		}
	}
}

// nestSubClass: "nested-key:classical_public_key=EcdsaPrivateKey(ECDSAP256)|as-is" → the site, the
// substitute's type and the variant, for the histogram.
func nestSubClass(label string) string {
	i := strings.Index(label, ":")
	if i < 0 {
		return "-"
	}
	s := label[i+1:]
	if a, b := strings.Index(s, "("), strings.LastIndex(s, ")"); a >= 0 && b > a {
		s = s[:a] + s[b+1:]
	}
	return s
}

func (w *world) nestedRoleSwaps() {
	o := w.o
	var targets []nestTarget
	for _, pk := range w.pool.Keys {
		if len(nestSites(pk.KD)) > 0 {
			targets = append(targets, nestTarget{pk, false})
		}
	}
	targets = append(targets, w.extraComposites()...)
	kds, tms := w.nestSubstitutes(targets)
	o.Count(fmt.Sprintf("nested-substitutes/keys=%d/templates=%d", len(kds), len(tms)))

	for _, t := range targets {
		t0 := time.Now()
		// control: the untouched target is accepted and works (pool keys were checked by the first
		// pass; this covers the assembled composite keys)
		if t.extra || hlib.Thorough() {
			w.nestedOne(t, t.pk.KD, "nested-control:("+t.pk.Name+")", false)
		}
		for _, s := range nestSites(t.pk.KD) {
			orig := nestGet(t.pk.KD, s.path)
			if orig == nil {
				continue
			}
			if !s.tmpl {
				slot := orig.(*tinkpb.KeyData)
				for _, sub := range kds {
					related := family(sub.kd.TypeUrl) == family(slot.TypeUrl)
					swap := related && sub.kd.KeyMaterialType != slot.KeyMaterialType
					// quick tier: every same-family key of the other role; a sample of the same-family
					// keys of the same role and of the other families (fewer for the assembled keys)
					if !hlib.Thorough() && !swap {
						chance := map[bool]int{false: 6, true: 2}[t.extra]
						if related {
							chance = map[bool]int{false: 50, true: 15}[t.extra]
						}
						if !w.rng.Chance(chance) {
							continue
						}
					}
					type variant struct {
						name         string
						inner, outer tinkpb.KeyData_KeyMaterialType
					}
					vs := []variant{{"as-is", sub.kd.KeyMaterialType, t.pk.KD.KeyMaterialType}}
					if slot.KeyMaterialType != sub.kd.KeyMaterialType {
						vs = append(vs, variant{"slot-material", slot.KeyMaterialType, t.pk.KD.KeyMaterialType})
					}
					if sub.kd.KeyMaterialType != t.pk.KD.KeyMaterialType && (swap && !t.extra || hlib.Thorough() || w.rng.Chance(20)) {
						vs = append(vs, variant{"outer-material-adjusted", sub.kd.KeyMaterialType, sub.kd.KeyMaterialType})
					}
					for _, v := range vs {
						n := cloneKD(sub.kd)
						n.KeyMaterialType = v.inner
						c := nestSet(t.pk.KD, s.path, n)
						if c == nil {
							continue
						}
						if proto.Equal(c, t.pk.KD) {
							continue
						}
						c.KeyMaterialType = v.outer
						w.nestedOne(t, c, "nested-key:"+s.path+"="+kslib.TypeOfURL(sub.kd.TypeUrl)+"("+sub.name+")|"+v.name, swap || w.rng.Chance(20))
					}
				}
				continue
			}
			slot := orig.(*tinkpb.KeyTemplate)
			for _, sub := range tms {
				related := family(sub.tm.TypeUrl) == family(slot.TypeUrl)
				if !related && !hlib.Thorough() && !w.rng.Chance(15) {
					continue
				}
				pres := []tinkpb.OutputPrefixType{sub.tm.OutputPrefixType}
				if slot.OutputPrefixType != sub.tm.OutputPrefixType {
					pres = append(pres, slot.OutputPrefixType)
				}
				if hlib.Thorough() {
					pres = []tinkpb.OutputPrefixType{0, 1, 2, 3, 4}
				}
				for _, pre := range pres {
					n := proto.Clone(sub.tm).(*tinkpb.KeyTemplate)
					n.OutputPrefixType = pre
					c := nestSet(t.pk.KD, s.path, n)
					if c == nil || proto.Equal(c, t.pk.KD) {
						continue
					}
					w.nestedOne(t, c, fmt.Sprintf("nested-template:%s=%s(%s)|prefix-%d", s.path, kslib.TypeOfURL(sub.tm.TypeUrl), sub.name, int32(pre)), w.rng.Chance(20))
				}
			}
		}
		o.Hist["time-ms/nested/"+t.pk.Type] += int(time.Since(t0).Milliseconds())
	}
	// the accepted substitutions inside keysets of several keys (random statuses and prefixes),
	// usually as the primary
	if len(w.nestAccepted) == 0 {
		return
	}
	for i, n := 0, hlib.N(80, 4000); i < n; i++ {
		g := w.genKeyset()
		a := w.nestAccepted[w.rng.Intn(len(w.nestAccepted))]
		t := g.primaryIdx()
		if t < 0 || w.rng.Chance(20) {
			t = w.rng.Intn(len(g.ks.Key))
		}
		g.ks.Key[t].KeyData, g.src[t] = cloneKD(a.kd), a.pk
		if w.rng.Chance(70) {
			g.ks.Key[t].OutputPrefixType = a.pk.Prefix
		}
		g.kinds = append(g.kinds, a.label)
		if r := w.check(g); r.accepted {
			if h, err, p := kslib.ReadMem(g.ks); err == nil && p == "" && h != nil {
				w.keyLevel(h, g)
			}
		}
	}
	w.nestAccepted = nil
}
