//go:build verif

package main

import (
	"bytes"
	"fmt"
	"io"
	"strings"

	"github.com/tink-crypto/tink-go/v2/aead"
	"github.com/tink-crypto/tink-go/v2/daead"
	"github.com/tink-crypto/tink-go/v2/hybrid"
	"github.com/tink-crypto/tink-go/v2/insecurecleartextkeyset"
	"github.com/tink-crypto/tink-go/v2/internal/verifharness/hlib"
	"github.com/tink-crypto/tink-go/v2/internal/verifharness/kslib"
	"github.com/tink-crypto/tink-go/v2/jwt"
	"github.com/tink-crypto/tink-go/v2/keyderivation"
	"github.com/tink-crypto/tink-go/v2/keyset"
	"github.com/tink-crypto/tink-go/v2/mac"
	"github.com/tink-crypto/tink-go/v2/prf"
	"github.com/tink-crypto/tink-go/v2/signature"
	"github.com/tink-crypto/tink-go/v2/streamingaead"
	"github.com/tink-crypto/tink-go/v2/tink"
	"google.golang.org/protobuf/proto"

	tinkpb "github.com/tink-crypto/tink-go/v2/proto/tink_go_proto"
)

var (
	msg  = []byte("c14: every primitive that is created is self-consistent")
	ad   = []byte("associated data")
	salt = []byte("derivation salt")
)

// primaryType returns the type URL suffix of the handle's primary key.
func primaryType(h *keyset.Handle) string {
	var t string
	hlib.Recover(func() {
		info := h.KeysetInfo()
		for _, ki := range info.GetKeyInfo() {
			if ki.GetKeyId() == info.GetPrimaryKeyId() {
				t = ki.GetTypeUrl()
			}
		}
	})
	return cleanType(t)
}

// publicsOf returns the public counterparts a private primitive is checked against: h.Public(),
// and the public handle of the primary key alone (signers use only the primary key, verifiers
// every enabled key, so a keyset mixing key types can give a signer although its full public
// keyset gives no verifier).
func publicsOf(h *keyset.Handle) []*keyset.Handle {
	var out []*keyset.Handle
	if pub, err := h.Public(); err == nil {
		out = append(out, pub)
	}
	pe, err := h.Primary()
	if err != nil {
		return out
	}
	for _, k := range insecurecleartextkeyset.KeysetMaterial(h).GetKey() {
		if k.GetKeyId() == pe.KeyID() {
			one, err := insecurecleartextkeyset.Read(&keyset.MemReaderWriter{Keyset: &tinkpb.Keyset{PrimaryKeyId: k.KeyId,
				Key: []*tinkpb.Keyset_Key{proto.Clone(k).(*tinkpb.Keyset_Key)}}})
			if err != nil {
				break
			}
			if pub, err := one.Public(); err == nil {
				out = append(out, pub)
			}
		}
	}
	return out
}

// maxSegment returns the largest ciphertext segment size named by a streaming key in ks.
func maxSegment(ks *tinkpb.Keyset) (sz uint64) {
	for _, k := range ks.GetKey() {
		if strings.HasSuffix(k.GetKeyData().GetTypeUrl(), "StreamingKey") {
			if m := kslib.Inner(k.GetKeyData().GetTypeUrl(), k.GetKeyData().GetValue()); m != nil {
				if p := m.Descriptor().Fields().ByName("params"); p != nil {
					pm := m.Get(p).Message()
					if f := pm.Descriptor().Fields().ByName("ciphertext_segment_size"); f != nil && pm.Get(f).Uint() > sz {
						sz = pm.Get(f).Uint()
					}
				}
			}
		}
	}
	return sz
}

// use calls every primitive factory on an accepted handle, under recover, and checks each
// primitive that is created for self-consistency. It returns the primitives that worked.
func (w *world) use(h *keyset.Handle, g *gen, depth int) (usable []string) {
	o := w.o
	pt := primaryType(h)
	slh := pt == "SlhDsaPrivateKey"
	bad := func(format string, a ...any) {
		o.Count("INCONSISTENT")
		o.Violate(format+"; primary="+pt+"; "+w.ctx(g), a...)
	}
	guard := func(name string, f func()) {
		if p := hlib.Recover(f); p != "" {
			w.panicked(g, name, p)
		}
	}
	ok := func(name string) {
		usable = append(usable, name)
		o.Count("primitive-ok/" + name)
		o.Count("primitive-ok-by-type/" + name + "/" + pt)
	}
	created := func(name string) { o.Count("primitive-created/" + name) }
	opfail := func(name string, err error) {
		o.Count("primitive-op-failed/" + name)
		ks := "-"
		if len(g.kinds) > 0 {
			ks = kindClass(g.kinds[len(g.kinds)-1])
			if strings.HasPrefix(ks, "ctor") {
				ks = "ctor"
			}
		}
		o.Count("primitive-op-failed-by/" + name + "/" + pt + "/" + ks)
		// Key material of a wrong length that is accepted AND gives a primitive must give one that
		// works: a primitive whose every operation fails on well-formed input is not
		// self-consistent. (Not a rule for the other mutations: e.g. an all-zero X25519 public key is
		// accepted by design and fails at Encrypt.)
		if depth == 0 && (strings.HasPrefix(ks, "len-") || ks == "ctor") {
			bad("key material of a wrong length was accepted and a %s primitive was created from it, but it fails on well-formed input: %v", name, err)
		}
	}

	guard("aead.New/use", func() {
		a, err := aead.New(h)
		if err != nil {
			return
		}
		created("aead")
		ct, err := a.Encrypt(msg, ad)
		if err != nil {
			opfail("aead", err)
			return
		}
		got, err := a.Decrypt(ct, ad)
		if err != nil || !bytes.Equal(got, msg) {
			bad("AEAD does not decrypt its own ciphertext: %v", err)
			return
		}
		if _, err := a.Decrypt(ct, []byte("other ad")); err == nil {
			bad("AEAD decrypts under different associated data")
			return
		}
		if _, err := a.Decrypt(ct[:len(ct)-1], ad); err == nil {
			bad("AEAD accepts a truncated ciphertext")
			return
		}
		ok("aead")
	})
	guard("daead.New/use", func() {
		d, err := daead.New(h)
		if err != nil {
			return
		}
		created("daead")
		c1, err := d.EncryptDeterministically(msg, ad)
		if err != nil {
			opfail("daead", err)
			return
		}
		c2, err2 := d.EncryptDeterministically(msg, ad)
		got, err3 := d.DecryptDeterministically(c1, ad)
		if err2 != nil || err3 != nil || !bytes.Equal(c1, c2) || !bytes.Equal(got, msg) {
			bad("DAEAD is not deterministic or does not round-trip: %v %v", err2, err3)
			return
		}
		ok("daead")
	})
	guard("mac.New/use", func() {
		m, err := mac.New(h)
		if err != nil {
			return
		}
		created("mac")
		tag, err := m.ComputeMAC(msg)
		if err != nil {
			opfail("mac", err)
			return
		}
		if err := m.VerifyMAC(tag, msg); err != nil {
			bad("MAC rejects its own tag: %v", err)
			return
		}
		if err := m.VerifyMAC(tag, []byte("other message")); err == nil {
			bad("MAC verifies a tag for another message")
			return
		}
		ok("mac")
	})
	guard("signature.NewSigner/use", func() {
		s, err := signature.NewSigner(h)
		if err != nil {
			return
		}
		created("signer")
		if slh {
			if w.slhBudget <= 0 {
				o.Count("slhdsa-sign-skipped")
				return
			}
			w.slhBudget--
		}
		sig, err := s.Sign(msg)
		if err != nil {
			opfail("signer", err)
			return
		}
		var v tink.Verifier
		for _, pub := range publicsOf(h) {
			if v, err = signature.NewVerifier(pub); err == nil {
				break
			}
		}
		if v == nil {
			if !slh {
				bad("signer works but no verifier can be created from its public half: %v", err)
			}
			return
		}
		if err := v.Verify(sig, msg); err != nil {
			if slh {
				o.Count("slhdsa-inconsistent-excepted")
				return
			}
			bad("signature does not verify under the public half: %v", err)
			return
		}
		if err := v.Verify(sig, []byte("other message")); err == nil {
			bad("signature verifies for another message")
			return
		}
		ok("signer")
	})
	guard("signature.NewVerifier/use", func() {
		v, err := signature.NewVerifier(h)
		if err != nil {
			return
		}
		created("verifier")
		if err := v.Verify([]byte("not a signature"), msg); err == nil {
			bad("verifier accepts garbage")
			return
		}
		if err := v.Verify(nil, msg); err == nil {
			bad("verifier accepts an empty signature")
			return
		}
		// well-formed inputs: what the private twins sign, random strings of signature length
		if depth == 0 && g.ks != nil && !w.useVerifier(v, h, g, bad) {
			return
		}
		ok("verifier")
	})
	guard("hybrid.NewHybridDecrypt/use", func() {
		d, err := hybrid.NewHybridDecrypt(h)
		if err != nil {
			return
		}
		created("hybrid-decrypt")
		var e tink.HybridEncrypt
		for _, pub := range publicsOf(h) {
			if e, err = hybrid.NewHybridEncrypt(pub); err == nil {
				break
			}
		}
		if e == nil {
			bad("hybrid decrypt created but no encrypter can be created from its public half: %v", err)
			return
		}
		ct, err := e.Encrypt(msg, ad)
		if err != nil {
			opfail("hybrid-decrypt", err)
			return
		}
		got, err := d.Decrypt(ct, ad)
		if err != nil || !bytes.Equal(got, msg) {
			bad("hybrid decrypt does not open what its public half sealed: %v", err)
			return
		}
		if _, err := d.Decrypt(ct, []byte("other context")); err == nil {
			bad("hybrid decrypt accepts a different context info")
			return
		}
		ok("hybrid-decrypt")
	})
	guard("hybrid.NewHybridEncrypt/use", func() {
		e, err := hybrid.NewHybridEncrypt(h)
		if err != nil {
			return
		}
		created("hybrid-encrypt")
		ct, err := e.Encrypt(msg, ad)
		if err != nil {
			opfail("hybrid-encrypt", err)
			return
		}
		if depth == 0 && g.ks != nil && !w.useEncrypter(ct, g, bad) {
			return
		}
		ok("hybrid-encrypt")
	})
	guard("streamingaead.New/use", func() {
		s, err := streamingaead.New(h)
		if err != nil {
			return
		}
		created("streamingaead")
		// a keyset may name a ciphertext segment size of gigabytes, which NewEncryptingWriter
		// allocates up front: legal, but slow; only a few of those are exercised
		if sz := maxSegment(g.ks); sz > 4<<20 {
			// above 256 MiB never: a 4 GiB buffer per keyset would make the harness itself the victim
			if w.hugeBudget <= 0 || sz > 256<<20 {
				o.Count("streaming-huge-segment-skipped")
				return
			}
			w.hugeBudget--
			o.Count("streaming-huge-segment-exercised")
		}
		var buf bytes.Buffer
		wr, err := s.NewEncryptingWriter(&buf, ad)
		if err != nil {
			opfail("streamingaead", err)
			return
		}
		long := bytes.Repeat(msg, 100) // > one 4 KiB segment
		if _, err := wr.Write(long); err != nil {
			opfail("streamingaead", err)
			return
		}
		if err := wr.Close(); err != nil {
			opfail("streamingaead", err)
			return
		}
		rd, err := s.NewDecryptingReader(bytes.NewReader(buf.Bytes()), ad)
		var got []byte
		if err == nil {
			got, err = io.ReadAll(rd)
		}
		if err != nil || !bytes.Equal(got, long) {
			bad("streaming AEAD does not decrypt its own ciphertext: %v", err)
			return
		}
		ok("streamingaead")
	})
	guard("prf.NewPRFSet/use", func() {
		s, err := prf.NewPRFSet(h)
		if err != nil {
			return
		}
		created("prf")
		o1, err := s.ComputePrimaryPRF(msg, 16)
		if err != nil {
			opfail("prf", err)
			return
		}
		o2, err2 := s.ComputePrimaryPRF(msg, 16)
		if err2 != nil || len(o1) != 16 || !bytes.Equal(o1, o2) {
			bad("PRF is not deterministic / wrong length: %v", err2)
			return
		}
		if _, present := s.PRFs[s.PrimaryID]; !present {
			bad("PRF set has no entry for its primary id")
			return
		}
		ok("prf")
	})
	iss := "c14"
	raw, rerr := jwt.NewRawJWT(&jwt.RawJWTOptions{Issuer: &iss, WithoutExpiration: true})
	val, verr := jwt.NewValidator(&jwt.ValidatorOpts{ExpectedIssuer: &iss, AllowMissingExpiration: true})
	if rerr != nil || verr != nil {
		panic(fmt.Sprint(rerr, verr))
	}
	guard("jwt.NewMAC/use", func() {
		m, err := jwt.NewMAC(h)
		if err != nil {
			return
		}
		created("jwt-mac")
		c, err := m.ComputeMACAndEncode(raw)
		if err != nil {
			opfail("jwt-mac", err)
			return
		}
		if _, err := m.VerifyMACAndDecode(c, val); err != nil {
			bad("JWT MAC rejects its own token: %v", err)
			return
		}
		ok("jwt-mac")
	})
	guard("jwt.NewSigner/use", func() {
		s, err := jwt.NewSigner(h)
		if err != nil {
			return
		}
		created("jwt-signer")
		c, err := s.SignAndEncode(raw)
		if err != nil {
			opfail("jwt-signer", err)
			return
		}
		var v jwt.Verifier
		for _, pub := range publicsOf(h) {
			if v, err = jwt.NewVerifier(pub); err == nil {
				break
			}
		}
		if v == nil {
			bad("JWT signer works but no verifier can be created from its public half: %v", err)
			return
		}
		if _, err := v.VerifyAndDecode(c, val); err != nil {
			bad("JWT does not verify under the public half: %v", err)
			return
		}
		ok("jwt-signer")
	})
	guard("jwt.NewVerifier/use", func() {
		v, err := jwt.NewVerifier(h)
		if err != nil {
			return
		}
		created("jwt-verifier")
		if _, err := v.VerifyAndDecode("e30.e30.AAAA", val); err == nil {
			bad("JWT verifier accepts garbage")
			return
		}
		if depth == 0 && g.ks != nil && !w.useJWTVerifier(v, g, raw, val, bad) {
			return
		}
		ok("jwt-verifier")
	})
	if depth == 0 {
		guard("keyderivation.New/use", func() {
			d, err := keyderivation.New(h)
			if err != nil {
				return
			}
			created("keyset-deriver")
			d1, err := d.DeriveKeyset(salt)
			if err != nil {
				opfail("keyset-deriver", err)
				return
			}
			d2, err2 := d.DeriveKeyset(salt)
			if err2 != nil {
				bad("keyset deriver fails the second time: %v", err2)
				return
			}
			if m := kslib.WellFormed(d1); m != "" {
				bad("derived keyset is not well-formed: %s", m)
				return
			}
			if !proto.Equal(insecurecleartextkeyset.KeysetMaterial(d1), insecurecleartextkeyset.KeysetMaterial(d2)) {
				bad("keyset derivation is not deterministic")
				return
			}
			sub := w.use(d1, g, depth+1)
			if len(sub) == 0 {
				o.Count("derived-keyset-unusable")
				return
			}
			ok("keyset-deriver")
		})
	}
	if len(usable) == 0 {
		o.Count("accepted-but-no-primitive")
		o.Count("accepted-but-no-primitive/" + pt)
	}
	return usable
}
