//go:build verif

package main

import (
	"fmt"
	"strings"

	"github.com/tink-crypto/tink-go/v2/internal/verifharness/hlib"
	"github.com/tink-crypto/tink-go/v2/internal/verifharness/kslib"

	tinkpb "github.com/tink-crypto/tink-go/v2/proto/tink_go_proto"
)

// Large keysets (the random stream builds 1–6 keys): 15 … 70 keys (… 257 in the thorough tier),
// with sizes on both sides of 16, 32, 64, 128, 256, so that a structural check which changes its
// method with the size of the keyset (a set instead of a scan, a bitmap of positions, a cut-off)
// is exercised on both sides of the switch.
//
//   - a repeated id, the two occurrences at first / second / middle / last-but-one / last positions
//     and around positions 15–17 and 63–65, with every pair of statuses ENABLED / DISABLED /
//     DESTROYED, the primary before, between, after or one of the occurrences; three occurrences;
//   - one structural fault at a chosen position (unknown status or prefix number, missing key
//     data, the primary DISABLED / DESTROYED there, no key with the primary id);
//   - controls without a fault, the primary at each of the chosen positions.
//
// Keysets are made of cheap keys of one class (symmetric AEAD / MAC keys, or ECDSA / Ed25519
// public keys so that the no-secret readers get past their guard), through every reader of
// check(); an accepted handle must be well-formed (distinct ids) and is used.

var statuses3 = []tinkpb.KeyStatusType{tinkpb.KeyStatusType_ENABLED, tinkpb.KeyStatusType_DISABLED, tinkpb.KeyStatusType_DESTROYED}

func (w *world) largeFlavours() [][]int {
	cheap := func(types ...string) []int {
		return w.poolWhere(func(pk *kslib.PoolKey) bool {
			for _, t := range types {
				if pk.Type == t && !pk.Slow {
					return true
				}
			}
			return false
		})
	}
	var out [][]int
	for _, f := range [][]int{
		cheap("AesGcmKey", "AesGcmSivKey", "ChaCha20Poly1305Key", "XChaCha20Poly1305Key", "AesCtrHmacAeadKey"),
		w.poolWhere(func(pk *kslib.PoolKey) bool { // fast verifiers only: use() verifies once per key and candidate
			return pk.Type == "Ed25519PublicKey" || (pk.Type == "EcdsaPublicKey" && strings.HasPrefix(pk.Name, "ECDSAP256"))
		}),
		cheap("HmacKey", "AesCmacKey"),
	} {
		if len(f) > 0 {
			out = append(out, f)
		}
	}
	return out
}

// largeBase builds n distinct-id keys of one flavour with random statuses; the key at prim is
// ENABLED and is the primary.
func (w *world) largeBase(n int, flavour []int, prim int) *gen {
	g := &gen{ks: &tinkpb.Keyset{}}
	for i := 0; i < n; i++ {
		pk := w.pool.Keys[flavour[w.rng.Intn(len(flavour))]]
		k := &tinkpb.Keyset_Key{KeyData: clonePK(pk), Status: statuses3[[]int{0, 0, 0, 1, 2}[w.rng.Intn(5)]], KeyId: w.newID(g), OutputPrefixType: pk.Prefix}
		g.ks.Key = append(g.ks.Key, k)
		g.src = append(g.src, pk)
	}
	g.ks.Key[prim].Status = tinkpb.KeyStatusType_ENABLED
	g.ks.PrimaryKeyId = g.ks.Key[prim].KeyId
	return g
}

func positionsOf(n int) []int {
	seen := map[int]bool{}
	var out []int
	for _, p := range []int{0, 1, n / 2, n - 2, n - 1, 15, 16, 17, 31, 32, 63, 64, 65, 127, 128, 255, 256} {
		if p >= 0 && p < n && !seen[p] {
			seen[p] = true
			out = append(out, p)
		}
	}
	return out
}

func (w *world) largeKeysets() {
	o := w.o
	sizes := []int{15, 16, 17, 18, 31, 32, 33, 63, 64, 65, 70}
	if hlib.Thorough() {
		sizes = append(sizes, 127, 128, 129, 255, 256, 257)
	}
	fl := w.largeFlavours()
	if len(fl) == 0 {
		o.Count("large-skipped/no-cheap-keys")
		return
	}
	rot := 0
	run := func(g *gen, label string, mustReject bool) {
		g.kinds = append(g.kinds, label)
		o.Count("large/" + kindClass(label))
		r := w.check(g)
		if mustReject && r.accepted {
			// WellFormed has already reported it if the handle shows the fault; this is the direct statement
			o.Violate("keyset of %d keys with fault %s was accepted; %s", len(g.ks.Key), label, w.ctx(g))
		}
		if !mustReject && !r.accepted {
			o.Count("large-control-rejected/" + kindClass(label))
		}
	}
	for _, n := range sizes {
		pos := positionsOf(n)
		// --- a repeated id
		for a := 0; a < len(pos); a++ {
			for b := 0; b < len(pos); b++ {
				i, j := pos[a], pos[b]
				if i >= j {
					continue
				}
				// in the quick tier: the pairs that involve an end, the middle or two neighbouring list entries
				if !hlib.Thorough() && !(a == 0 || b == a+1 || j == n-1) {
					continue
				}
				for _, si := range statuses3 {
					for _, sj := range statuses3 {
						// where the primary is: before i, between, after j, at i, at j
						var prims []int
						if i > 0 {
							prims = append(prims, w.rng.Intn(i))
						}
						if j-i > 1 {
							prims = append(prims, i+1+w.rng.Intn(j-i-1))
						}
						if j < n-1 {
							prims = append(prims, j+1+w.rng.Intn(n-1-j))
						}
						if si == tinkpb.KeyStatusType_ENABLED {
							prims = append(prims, i)
						}
						if sj == tinkpb.KeyStatusType_ENABLED {
							prims = append(prims, j)
						}
						if !hlib.Thorough() {
							rot++
							prims = []int{prims[rot%len(prims)]}
						}
						for _, prim := range prims {
							rot++
							g := w.largeBase(n, fl[rot%len(fl)], prim)
							g.ks.Key[i].Status, g.ks.Key[j].Status = si, sj
							if prim == i {
								g.ks.Key[j].KeyId = g.ks.Key[i].KeyId
							} else {
								g.ks.Key[i].KeyId = g.ks.Key[j].KeyId
							}
							run(g, fmt.Sprintf("large-duplicate-id:n=%d,i=%d,j=%d,st=%d/%d,primary=%d", n, i, j, si, sj, prim), true)
						}
					}
				}
			}
		}
		// --- three occurrences
		if n >= 3 {
			for t := 0; t < 6; t++ {
				rot++
				g := w.largeBase(n, fl[rot%len(fl)], 1+w.rng.Intn(n-2))
				p := g.primaryIdx()
				var occ []int
				for _, c := range []int{0, n / 2, n - 1, w.rng.Intn(n), w.rng.Intn(n)} {
					if c != p && len(occ) < 3 {
						dup := false
						for _, x := range occ {
							dup = dup || x == c
						}
						if !dup {
							occ = append(occ, c)
						}
					}
				}
				if len(occ) < 3 {
					continue
				}
				for x, c := range occ {
					g.ks.Key[c].KeyId = g.ks.Key[occ[0]].KeyId
					g.ks.Key[c].Status = statuses3[(t+x)%3]
					if t >= 3 {
						g.ks.Key[c].Status = statuses3[1+(t+x)%2] // no ENABLED occurrence at all
					}
				}
				run(g, fmt.Sprintf("large-triple-id:n=%d,at=%v", n, occ), true)
			}
		}
		// --- one structural fault at a chosen position; controls
		for _, p := range pos {
			rot++
			flv := fl[rot%len(fl)]
			other := func() int { // a primary position different from p
				q := w.rng.Intn(n - 1)
				if q >= p {
					q++
				}
				return q
			}
			run(w.largeBase(n, flv, p), fmt.Sprintf("large-control:n=%d,primary=%d", n, p), false)
			g := w.largeBase(n, flv, other())
			g.ks.Key[p].Status = tinkpb.KeyStatusType(w.rng.Pick(0, 4, 5, 99))
			run(g, fmt.Sprintf("large-unknown-status:n=%d,at=%d", n, p), true)
			g = w.largeBase(n, flv, other())
			g.ks.Key[p].OutputPrefixType = tinkpb.OutputPrefixType(w.rng.Pick(0, 6, 7, 99))
			run(g, fmt.Sprintf("large-unknown-prefix:n=%d,at=%d", n, p), true)
			g = w.largeBase(n, flv, other())
			g.ks.Key[p].KeyData, g.src[p] = nil, nil
			run(g, fmt.Sprintf("large-nil-keydata:n=%d,at=%d", n, p), true)
			g = w.largeBase(n, flv, p)
			g.ks.Key[p].Status = tinkpb.KeyStatusType_DISABLED
			run(g, fmt.Sprintf("large-primary-disabled:n=%d,at=%d", n, p), true)
			g = w.largeBase(n, flv, p)
			g.ks.Key[p].Status = tinkpb.KeyStatusType_DESTROYED
			run(g, fmt.Sprintf("large-primary-destroyed:n=%d,at=%d", n, p), true)
			g = w.largeBase(n, flv, p)
			g.ks.Key[p].KeyId = w.newID(g) // the primary id now names no key
			run(g, fmt.Sprintf("large-missing-primary:n=%d,at=%d", n, p), true)
			g = w.largeBase(n, flv, p)
			for x := range g.ks.Key { // the primary is the only ENABLED key, at p
				if x != p {
					g.ks.Key[x].Status = statuses3[1+w.rng.Intn(2)]
				}
			}
			run(g, fmt.Sprintf("large-control-single-enabled:n=%d,at=%d", n, p), false)
		}
	}
}
