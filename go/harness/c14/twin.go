//go:build verif

package main

import (
	"bytes"
	"encoding/base64"
	"fmt"
	"sort"
	"strings"

	"github.com/tink-crypto/tink-go/v2/hybrid"
	"github.com/tink-crypto/tink-go/v2/internal/verifharness/hlib"
	"github.com/tink-crypto/tink-go/v2/internal/verifharness/kslib"
	"github.com/tink-crypto/tink-go/v2/jwt"
	"github.com/tink-crypto/tink-go/v2/keyset"
	"github.com/tink-crypto/tink-go/v2/signature"
	"github.com/tink-crypto/tink-go/v2/tink"
	"google.golang.org/protobuf/proto"

	tinkpb "github.com/tink-crypto/tink-go/v2/proto/tink_go_proto"
)

// Public-only handles are used with well-formed inputs: a verifier gets (a) what the untouched
// private twin of each of its keys signs (the pool knows the twin) and (b) random strings of every
// plausible signature length under every prefix its keys answer to; an encrypter's ciphertext is
// given to the private twin. An entry whose key data is still the pool's must accept / be opened
// by its twin; a mutated entry may do either, consistently; nothing may panic and no random
// string may verify.

var otherMsg = []byte("c14: another message")

// prefixOf is the output prefix a key entry answers to.
func prefixOf(t tinkpb.OutputPrefixType, id uint32) []byte {
	switch t {
	case tinkpb.OutputPrefixType_TINK:
		return []byte{1, byte(id >> 24), byte(id >> 16), byte(id >> 8), byte(id)}
	case tinkpb.OutputPrefixType_LEGACY, tinkpb.OutputPrefixType_CRUNCHY:
		return []byte{0, byte(id >> 24), byte(id >> 16), byte(id >> 8), byte(id)}
	}
	return nil
}

type twinSigKey struct {
	priv   int
	legacy bool
}

type twins struct {
	sigs    map[twinSigKey][]byte
	sigLens []int // raw signature lengths of every signature key type in the pool
}

// oneKey reads a single-key keyset of kd.
func oneKey(kd *tinkpb.KeyData, id uint32, pre tinkpb.OutputPrefixType) *keyset.Handle {
	ks := &tinkpb.Keyset{PrimaryKeyId: id, Key: []*tinkpb.Keyset_Key{{KeyData: proto.Clone(kd).(*tinkpb.KeyData),
		Status: tinkpb.KeyStatusType_ENABLED, KeyId: id, OutputPrefixType: pre}}}
	h, err, p := kslib.ReadMem(ks)
	if err != nil || p != "" {
		return nil
	}
	return h
}

// twinRawSig is the prefix-less signature of msg (msg ‖ 0x00 for LEGACY entries) under the
// untouched private pool key priv; nil if it cannot be made.
func (w *world) twinRawSig(priv int, legacy bool) []byte {
	if w.tw.sigs == nil {
		w.tw.sigs = map[twinSigKey][]byte{}
	}
	k := twinSigKey{priv, legacy}
	if s, ok := w.tw.sigs[k]; ok {
		return s
	}
	var sig []byte
	pk := w.pool.Keys[priv]
	if p := hlib.Recover(func() {
		h := oneKey(pk.KD, 0x14141414, tinkpb.OutputPrefixType_RAW)
		if h == nil {
			return
		}
		s, err := signature.NewSigner(h)
		if err != nil {
			return
		}
		m := msg
		if legacy {
			m = append(append([]byte{}, msg...), 0)
		}
		if sg, err := s.Sign(m); err == nil {
			sig = sg
		}
	}); p != "" || sig == nil {
		w.o.Count("twin-signature-unavailable/" + pk.Name)
	}
	w.tw.sigs[k] = sig
	return sig
}

// poolSigLens: the signature lengths of all signature key types of the pool.
func (w *world) poolSigLens() []int {
	if w.tw.sigLens == nil {
		seen := map[int]bool{}
		for _, i := range w.pool.ByClass["sig"] {
			if s := w.twinRawSig(i, false); s != nil {
				seen[len(s)] = true
			}
		}
		for l := range seen {
			w.tw.sigLens = append(w.tw.sigLens, l)
		}
		sort.Ints(w.tw.sigLens)
	}
	return w.tw.sigLens
}

func derLen(n int) []byte {
	switch {
	case n < 128:
		return []byte{byte(n)}
	case n < 256:
		return []byte{0x81, byte(n)}
	}
	return []byte{0x82, byte(n >> 8), byte(n)}
}

// derSig is a well-formed DER ECDSA-Sig-Value with two random cs-byte integers.
func derSig(rng *hlib.Rng, cs int) []byte {
	var body []byte
	for i := 0; i < 2; i++ {
		v := rng.Bytes(cs)
		v[0] |= 1 // non-zero first byte: minimal encoding
		if v[0]&0x80 != 0 {
			v = append([]byte{0}, v...)
		}
		body = append(append(append(body, 2), derLen(len(v))...), v...)
	}
	return append(append([]byte{0x30}, derLen(len(body))...), body...)
}

// twinOf returns the untouched private pool key behind entry i of g (nil if unknown).
func (w *world) twinOf(g *gen, i int, class string) *kslib.PoolKey {
	if i < 0 || i >= len(g.src) || g.src[i] == nil || g.src[i].Priv < 0 || g.src[i].Class != class {
		return nil
	}
	return w.pool.Keys[g.src[i].Priv]
}

func enabled(k *tinkpb.Keyset_Key) bool {
	return k != nil && k.GetStatus() == tinkpb.KeyStatusType_ENABLED && k.GetKeyData() != nil
}

// useVerifier exercises a verifier made from the public handle h (= g.ks). It returns false if a
// violation was reported.
func (w *world) useVerifier(v tink.Verifier, h *keyset.Handle, g *gen, bad func(string, ...any)) bool {
	o := w.o
	good := true
	op := func(name string, f func()) {
		if p := hlib.Recover(f); p != "" {
			w.panicked(g, name, p)
			good = false
		}
	}
	fail := func(format string, a ...any) { bad(format, a...); good = false }
	lens := map[int]bool{}
	// (a) what the private twins sign
	for i, k := range g.ks.GetKey() {
		if !enabled(k) {
			continue
		}
		tw := w.twinOf(g, i, "sigpub")
		if tw == nil {
			continue
		}
		legacy := k.GetOutputPrefixType() == tinkpb.OutputPrefixType_LEGACY
		raw := w.twinRawSig(g.src[i].Priv, legacy)
		if raw == nil {
			continue
		}
		lens[len(raw)] = true
		sig := append(prefixOf(k.GetOutputPrefixType(), k.GetKeyId()), raw...)
		same := proto.Equal(k.GetKeyData(), g.src[i].KD)
		op("Verifier.Verify(signature made by the private twin)", func() {
			err := v.Verify(sig, msg)
			switch {
			case err == nil:
				if same {
					o.Count("verifier-twin/untouched-key-verifies")
				} else {
					o.Count("verifier-twin/mutated-key-verifies")
				}
				if v.Verify(sig, otherMsg) == nil {
					fail("verifier accepts the twin's signature for another message (key %d)", k.GetKeyId())
				}
			case same:
				fail("verifier rejects what the matching private key (%s) signs, key %d: %v", tw.Name, k.GetKeyId(), err)
			default:
				o.Count("verifier-twin/mutated-key-rejects")
			}
		})
	}
	// (b) random strings of the right length with the right prefix
	for _, l := range w.poolSigLens() {
		lens[l] = true
	}
	var ders []int
	for _, k := range g.ks.GetKey() {
		if !enabled(k) {
			continue
		}
		for _, f := range kslib.BytesFields(k.GetKeyData()) {
			if f.Len > 0 && f.Len <= 8192 {
				lens[f.Len], lens[2*f.Len], lens[2*(f.Len-1)] = true, true, true
				if f.Len <= 70 {
					ders = append(ders, f.Len, f.Len-1)
				}
			}
		}
	}
	delete(lens, 0)
	var ls []int
	for l := range lens {
		ls = append(ls, l)
	}
	sort.Ints(ls)
	var pres [][]byte
	addPre := func(p []byte) {
		for _, q := range pres {
			if bytes.Equal(p, q) {
				return
			}
		}
		pres = append(pres, p)
	}
	addPre(nil)
	// keysets of the large-keyset pass (more keys than any keyset of the other passes): the prefixes
	// of the primary, the first and the last entry only, and a sample of the candidates — the loop
	// below is quadratic in the number of keys otherwise
	large := h.Len() > 12
	for i := 0; i < h.Len(); i++ {
		if e, err := h.Entry(i); err == nil {
			if large && !(e.IsPrimary() || i == 0 || i == h.Len()-1) {
				continue
			}
			addPre(prefixOf(tinkpb.OutputPrefixType_TINK, e.KeyID()))
			addPre(prefixOf(tinkpb.OutputPrefixType_LEGACY, e.KeyID()))
		}
	}
	rng := hlib.NewRng(uint64(o.NCase), "c14-random-signatures")
	var cands [][]byte
	for _, l := range ls {
		cands = append(cands, rng.Bytes(l))
	}
	for _, cs := range append([]int{32, 48, 66}, ders...) {
		if cs > 0 {
			cands = append(cands, derSig(rng, cs))
		}
	}
	if large && len(cands) > 12 {
		var sample [][]byte
		for i := 0; i < 12; i++ {
			sample = append(sample, cands[(i*len(cands))/12])
		}
		cands = sample
	}
	for _, pre := range pres {
		for _, c := range cands {
			sig := append(append([]byte{}, pre...), c...)
			op(fmt.Sprintf("Verifier.Verify(random %d-byte signature)", len(c)), func() {
				o.Count("verifier-random-signatures")
				if v.Verify(sig, msg) == nil {
					fail("verifier accepts a random %d-byte string (prefix %x) as a signature: %x", len(c), pre, sig)
				}
			})
			if !good {
				return false
			}
		}
	}
	return good
}

// useEncrypter gives the ciphertext an encrypt-only handle made to the private twin of its
// primary key.
func (w *world) useEncrypter(ct []byte, g *gen, bad func(string, ...any)) bool {
	o := w.o
	p := g.primaryIdx()
	tw := w.twinOf(g, p, "hybpub")
	if tw == nil {
		return true
	}
	k := g.ks.Key[p]
	good := true
	if pn := hlib.Recover(func() {
		th := oneKey(tw.KD, k.GetKeyId(), k.GetOutputPrefixType())
		if th == nil {
			o.Count("encrypter-twin/twin-unreadable-with-this-prefix")
			return
		}
		d, err := hybrid.NewHybridDecrypt(th)
		if err != nil {
			o.Count("encrypter-twin/no-decrypter")
			return
		}
		same := proto.Equal(k.GetKeyData(), g.src[p].KD)
		got, err := d.Decrypt(ct, ad)
		switch {
		case err == nil && bytes.Equal(got, msg):
			if same {
				o.Count("encrypter-twin/untouched-key-opens")
			} else {
				o.Count("encrypter-twin/mutated-key-opens")
			}
		case err == nil:
			bad("the private twin (%s) decrypts the ciphertext to a different plaintext", tw.Name)
			good = false
		case same:
			bad("the matching private key (%s) cannot open what the public key sealed: %v", tw.Name, err)
			good = false
		default:
			o.Count("encrypter-twin/mutated-key-not-opened")
		}
	}); pn != "" {
		w.panicked(g, "HybridDecrypt.Decrypt(private twin, ciphertext of the public handle)", pn)
		good = false
	}
	return good
}

// useJWTVerifier: tokens signed by the private twins, and the same tokens with a random signature
// of the same length.
func (w *world) useJWTVerifier(v jwt.Verifier, g *gen, raw *jwt.RawJWT, val *jwt.Validator, bad func(string, ...any)) bool {
	o := w.o
	good := true
	op := func(name string, f func()) {
		if p := hlib.Recover(f); p != "" {
			w.panicked(g, name, p)
			good = false
		}
	}
	rng := hlib.NewRng(uint64(o.NCase), "c14-random-jwt-signatures")
	for i, k := range g.ks.GetKey() {
		if !enabled(k) {
			continue
		}
		tw := w.twinOf(g, i, "jwtsigpub")
		if tw == nil {
			continue
		}
		var tok string
		op("jwt twin SignAndEncode", func() {
			th := oneKey(tw.KD, k.GetKeyId(), k.GetOutputPrefixType())
			if th == nil {
				return
			}
			s, err := jwt.NewSigner(th)
			if err != nil {
				return
			}
			tok, _ = s.SignAndEncode(raw)
		})
		if tok == "" {
			o.Count("jwt-verifier-twin/twin-unavailable")
			continue
		}
		same := proto.Equal(k.GetKeyData(), g.src[i].KD)
		op("jwt.Verifier.VerifyAndDecode(token signed by the private twin)", func() {
			_, err := v.VerifyAndDecode(tok, val)
			switch {
			case err == nil && same:
				o.Count("jwt-verifier-twin/untouched-key-verifies")
			case err == nil:
				o.Count("jwt-verifier-twin/mutated-key-verifies")
			case same:
				bad("JWT verifier rejects the token signed by the matching private key (%s), key %d: %v", tw.Name, k.GetKeyId(), err)
				good = false
			default:
				o.Count("jwt-verifier-twin/mutated-key-rejects")
			}
		})
		parts := strings.Split(tok, ".")
		if len(parts) != 3 {
			continue
		}
		sg, err := base64.RawURLEncoding.DecodeString(parts[2])
		if err != nil {
			continue
		}
		forged := parts[0] + "." + parts[1] + "." + base64.RawURLEncoding.EncodeToString(rng.Bytes(len(sg)))
		op(fmt.Sprintf("jwt.Verifier.VerifyAndDecode(random %d-byte signature)", len(sg)), func() {
			o.Count("jwt-verifier-random-signatures")
			if _, err := v.VerifyAndDecode(forged, val); err == nil {
				bad("JWT verifier accepts a random %d-byte signature: %s", len(sg), forged)
				good = false
			}
		})
	}
	return good
}
