//go:build verif

// placeholder: harness c14 is being written
package main

import "github.com/tink-crypto/tink-go/v2/internal/verifharness/hlib"

func main() {
	o := hlib.Open("c14")
	defer o.Close()
	o.Emit("K validate 7 -", "err", true)
	o.Emit("K validate 8 -", "err", true)
}
