//go:build verif

// Harness c14: untrusted keyset input (property C14).
//
// Valid proto keys of every key type are combined into keysets and structurally mutated; every
// keyset goes through keyset.Validate, insecurecleartextkeyset.Read (MemReaderWriter, binary and
// JSON readers, and the encrypted-keyset reader), keyset.NewHandleWithNoSecrets /
// ReadWithNoSecrets. The accept/reject decision and the resulting entries are printed next to the
// line the Lean model (TinkVerif/Model/Keyset.lean) is given; the per-key parser verdict is
// passed to the model as an oracle bit. Go-side property oracles: no call panics, every accepted
// handle is well-formed, every accepted handle is used with every primitive factory and each
// primitive that is created must be self-consistent; keys below the library's minimum strengths
// must not give a usable primitive; random bytes / JSON must never panic.
//
// Length round (lenpass.go, ctor.go, twin.go; kslib/lenmut.go): every bytes field of every key
// proto is extended by 1 byte / by a leading zero / by 32 bytes, doubled, truncated by 1 / to half
// and emptied (labels mut/len-*), as single-key keysets, inside multi-key keysets and through the
// public New*Key constructors; public-only handles are used with well-formed inputs (what the
// untouched private twin signs, random strings of signature length, twin decryption). These
// passes run last on their own random stream, so the lines of the older passes are unchanged.
//
// Round 4 (nested.go, structpq.go; again last, own streams; -mode nested | structpq): role swaps in
// nested keys — every KeyData / KeyTemplate field inside a key proto (composite ML-DSA halves, the
// deriver's PRF key and derived-key template, the KMS envelope DEK template, the ECIES DEM
// template) is given well-formed keys / templates of another role (private for public, public for
// private, another type with the same parameters, another algorithm, symmetric for asymmetric),
// and the registered key-level constructors are called on every accepted entry; structured
// public/private mismatches of the post-quantum and hybrid keys (X-Wing, ML-KEM, ML-DSA, SLH-DSA,
// composite halves, every bit of X25519 / Ed25519 public values).
package main

import (
	"os"
	"runtime/pprof"
	"strings"

	"github.com/tink-crypto/tink-go/v2/aead"
	"github.com/tink-crypto/tink-go/v2/internal/verifharness/hlib"
	"github.com/tink-crypto/tink-go/v2/internal/verifharness/kslib"
	"github.com/tink-crypto/tink-go/v2/keyset"
	"github.com/tink-crypto/tink-go/v2/tink"
	"google.golang.org/protobuf/proto"

	tinkpb "github.com/tink-crypto/tink-go/v2/proto/tink_go_proto"
)

type world struct {
	o            *hlib.Out
	rng          *hlib.Rng
	pool         *kslib.Pool
	master       tink.AEAD
	weakRSA      []*kslib.RSAParts
	slhBudget    int
	hugeBudget   int
	jsonFlip     bool
	byType       map[string][]int // pool indices per Type
	tw           twins            // signatures of the private twins (twin.go)
	nestAccepted []nestedCase     // accepted nested substitutions (nested.go)
}

func clonePK(pk *kslib.PoolKey) *tinkpb.KeyData { return proto.Clone(pk.KD).(*tinkpb.KeyData) }

// ---------- generation ----------

type gen struct {
	ks    *tinkpb.Keyset
	src   []*kslib.PoolKey // pool key behind each entry (nil once replaced by garbage)
	kinds []string         // mutation labels applied
}

func (w *world) pickFrom(idx []int) *kslib.PoolKey {
	for try := 0; ; try++ {
		pk := w.pool.Keys[idx[w.rng.Intn(len(idx))]]
		if pk.Slow && try < 4 && !w.rng.Chance(12) {
			continue
		}
		return pk
	}
}

func (w *world) anyKey() *kslib.PoolKey {
	all := make([]int, len(w.pool.Keys))
	for i := range all {
		all[i] = i
	}
	return w.pickFrom(all)
}

func (w *world) newID(g *gen) uint32 {
	for {
		id := w.rng.KeyID()
		dup := false
		for _, k := range g.ks.Key {
			if k != nil && k.KeyId == id {
				dup = true
			}
		}
		if !dup {
			return id
		}
	}
}

func (w *world) entry(g *gen, pk *kslib.PoolKey) *tinkpb.Keyset_Key {
	st := tinkpb.KeyStatusType_ENABLED
	switch r := w.rng.Intn(100); {
	case r < 14:
		st = tinkpb.KeyStatusType_DISABLED
	case r < 26:
		st = tinkpb.KeyStatusType_DESTROYED
	}
	pre := pk.Prefix
	if w.rng.Chance(18) {
		pre = tinkpb.OutputPrefixType(1 + w.rng.Intn(4))
	}
	return &tinkpb.Keyset_Key{KeyData: clonePK(pk), Status: st, KeyId: w.newID(g), OutputPrefixType: pre}
}

func (w *world) genKeyset() *gen {
	g := &gen{ks: &tinkpb.Keyset{}}
	n := []int{1, 1, 1, 1, 1, 1, 2, 2, 2, 2, 2, 3, 3, 3, 3, 4, 4, 5, 5, 6}[w.rng.Intn(20)]
	var idx []int
	switch r := w.rng.Intn(100); {
	case r < 62: // one primitive class
		idx = w.pool.ByClass[w.pool.Classes[w.rng.Intn(len(w.pool.Classes))]]
	case r < 72: // private keys and public keys of one family
		fam := []string{"sig", "hyb", "jwtsig"}[w.rng.Intn(3)]
		idx = append(append([]int{}, w.pool.ByClass[fam]...), w.pool.ByClass[fam+"pub"]...)
	case r < 80: // one key type
		idx = w.byType[w.anyKey().Type]
	default:
		for i := range w.pool.Keys {
			idx = append(idx, i)
		}
	}
	for i := 0; i < n; i++ {
		pk := w.pickFrom(idx)
		g.ks.Key = append(g.ks.Key, w.entry(g, pk))
		g.src = append(g.src, pk)
	}
	// primary: usually an enabled key
	var en []uint32
	for _, k := range g.ks.Key {
		if k.Status == tinkpb.KeyStatusType_ENABLED {
			en = append(en, k.KeyId)
		}
	}
	switch r := w.rng.Intn(100); {
	case r < 88 && len(en) > 0:
		g.ks.PrimaryKeyId = en[w.rng.Intn(len(en))]
	case r < 88: // no enabled key: make one
		k := g.ks.Key[w.rng.Intn(n)]
		k.Status = tinkpb.KeyStatusType_ENABLED
		g.ks.PrimaryKeyId = k.KeyId
	case r < 95:
		g.ks.PrimaryKeyId = g.ks.Key[w.rng.Intn(n)].KeyId // whatever its status
	default:
		g.ks.PrimaryKeyId = w.newID(g) // absent
	}
	return g
}

func (g *gen) primaryIdx() int {
	for i, k := range g.ks.Key {
		if k != nil && k.KeyId == g.ks.PrimaryKeyId {
			return i
		}
	}
	return -1
}

// target picks the key a mutation applies to (the primary half of the time).
func (w *world) target(g *gen) int {
	if len(g.ks.Key) == 0 {
		return -1
	}
	if p := g.primaryIdx(); p >= 0 && w.rng.Chance(50) {
		return p
	}
	return w.rng.Intn(len(g.ks.Key))
}

func (w *world) replace(g *gen, t int, pk *kslib.PoolKey) {
	if g.ks.Key[t] == nil {
		g.ks.Key[t] = &tinkpb.Keyset_Key{Status: tinkpb.KeyStatusType_ENABLED, KeyId: w.newID(g)}
	}
	g.ks.Key[t].KeyData = clonePK(pk)
	g.ks.Key[t].OutputPrefixType = pk.Prefix
	g.src[t] = pk
}

func (w *world) poolWhere(f func(*kslib.PoolKey) bool) []int {
	var idx []int
	for i, pk := range w.pool.Keys {
		if f(pk) {
			idx = append(idx, i)
		}
	}
	return idx
}

var unknownEnums = []int32{0, 5, 6, 7, 99, 1<<31 - 1}

type mutation struct {
	name   string
	weight int
	f      func(w *world, g *gen) string // returns the label ("" = not applicable)
}

func kd(g *gen, t int) *tinkpb.KeyData { return g.ks.Key[t].GetKeyData() }

var mutations = []mutation{
	{"empty-keyset", 2, func(w *world, g *gen) string { g.ks.Key = nil; g.src = nil; return "empty-keyset" }},
	{"missing-primary", 3, func(w *world, g *gen) string { g.ks.PrimaryKeyId = w.newID(g); return "missing-primary" }},
	{"primary-disabled", 3, func(w *world, g *gen) string {
		p := g.primaryIdx()
		if p < 0 {
			return ""
		}
		g.ks.Key[p].Status = tinkpb.KeyStatusType_DISABLED
		return "primary-disabled"
	}},
	{"primary-destroyed", 3, func(w *world, g *gen) string {
		p := g.primaryIdx()
		if p < 0 {
			return ""
		}
		g.ks.Key[p].Status = tinkpb.KeyStatusType_DESTROYED
		return "primary-destroyed"
	}},
	{"all-disabled", 2, func(w *world, g *gen) string {
		for _, k := range g.ks.Key {
			k.Status = tinkpb.KeyStatusType(w.rng.Pick(2, 3))
		}
		return "all-disabled"
	}},
	{"duplicate-primary", 3, func(w *world, g *gen) string {
		p := g.primaryIdx()
		if p < 0 {
			return ""
		}
		c := proto.Clone(g.ks.Key[p]).(*tinkpb.Keyset_Key)
		if w.rng.Bool() {
			pk := w.anyKey()
			c.KeyData, c.OutputPrefixType = clonePK(pk), pk.Prefix
			g.src = append(g.src, pk)
		} else {
			g.src = append(g.src, g.src[p])
		}
		g.ks.Key = append(g.ks.Key, c)
		if w.rng.Bool() { // the duplicate first
			l := len(g.ks.Key) - 1
			g.ks.Key[0], g.ks.Key[l] = g.ks.Key[l], g.ks.Key[0]
			g.src[0], g.src[l] = g.src[l], g.src[0]
		}
		return "duplicate-primary"
	}},
	{"duplicate-id", 4, func(w *world, g *gen) string {
		if len(g.ks.Key) < 2 {
			pk := w.anyKey()
			g.ks.Key = append(g.ks.Key, w.entry(g, pk))
			g.src = append(g.src, pk)
		}
		i := w.rng.Intn(len(g.ks.Key))
		j := (i + 1 + w.rng.Intn(len(g.ks.Key)-1)) % len(g.ks.Key)
		g.ks.Key[j].KeyId = g.ks.Key[i].KeyId
		return "duplicate-id"
	}},
	{"unknown-status", 4, func(w *world, g *gen) string {
		t := w.target(g)
		if t < 0 {
			return ""
		}
		g.ks.Key[t].Status = tinkpb.KeyStatusType(unknownEnums[w.rng.Intn(len(unknownEnums))])
		if g.ks.Key[t].Status == 5 || g.ks.Key[t].Status == 6 || g.ks.Key[t].Status == 7 {
			g.ks.Key[t].Status -= 1 // 4, 5, 6: the first numbers past DESTROYED
		}
		return "unknown-status"
	}},
	{"unknown-prefix", 4, func(w *world, g *gen) string {
		t := w.target(g)
		if t < 0 {
			return ""
		}
		g.ks.Key[t].OutputPrefixType = tinkpb.OutputPrefixType(unknownEnums[w.rng.Intn(len(unknownEnums))])
		return "unknown-prefix"
	}},
	{"unknown-material", 4, func(w *world, g *gen) string {
		t := w.target(g)
		if t < 0 || kd(g, t) == nil {
			return ""
		}
		kd(g, t).KeyMaterialType = tinkpb.KeyData_KeyMaterialType(unknownEnums[w.rng.Intn(len(unknownEnums))])
		return "unknown-material"
	}},
	{"wrong-material", 4, func(w *world, g *gen) string {
		t := w.target(g)
		if t < 0 || kd(g, t) == nil {
			return ""
		}
		old := kd(g, t).KeyMaterialType
		for kd(g, t).KeyMaterialType == old {
			kd(g, t).KeyMaterialType = tinkpb.KeyData_KeyMaterialType(1 + w.rng.Intn(4))
		}
		return "wrong-material"
	}},
	{"negative-enum", 1, func(w *world, g *gen) string {
		t := w.target(g)
		if t < 0 || kd(g, t) == nil {
			return ""
		}
		switch w.rng.Intn(3) {
		case 0:
			g.ks.Key[t].Status = tinkpb.KeyStatusType(-1 - w.rng.Intn(3))
		case 1:
			g.ks.Key[t].OutputPrefixType = tinkpb.OutputPrefixType(-1 - w.rng.Intn(3))
		default:
			kd(g, t).KeyMaterialType = tinkpb.KeyData_KeyMaterialType(-1 - w.rng.Intn(3))
		}
		return "negative-enum"
	}},
	{"nil-keydata", 3, func(w *world, g *gen) string {
		t := w.target(g)
		if t < 0 {
			return ""
		}
		g.ks.Key[t].KeyData = nil
		g.src[t] = nil
		return "nil-keydata"
	}},
	{"empty-keydata", 2, func(w *world, g *gen) string {
		t := w.target(g)
		if t < 0 {
			return ""
		}
		g.ks.Key[t].KeyData = &tinkpb.KeyData{}
		g.src[t] = nil
		return "empty-keydata"
	}},
	{"value-truncated", 8, func(w *world, g *gen) string {
		t := w.target(g)
		if t < 0 || kd(g, t) == nil || len(kd(g, t).Value) == 0 {
			return ""
		}
		v := kd(g, t).Value
		cut := w.rng.Intn(len(v))
		if w.rng.Chance(40) { // near the end: inside the last field
			cut = len(v) - 1 - w.rng.Intn(min(len(v), 6))
		}
		kd(g, t).Value = append([]byte(nil), v[:cut]...)
		return "value-truncated"
	}},
	{"value-garbage", 4, func(w *world, g *gen) string {
		t := w.target(g)
		if t < 0 || kd(g, t) == nil {
			return ""
		}
		kd(g, t).Value = w.rng.Bytes(w.rng.Pick(1, 2, 8, 16, 32, 34, 64, 100, 300))
		return "value-garbage"
	}},
	{"value-empty", 3, func(w *world, g *gen) string {
		t := w.target(g)
		if t < 0 || kd(g, t) == nil {
			return ""
		}
		kd(g, t).Value = nil
		return "value-empty"
	}},
	{"value-extended", 3, func(w *world, g *gen) string {
		t := w.target(g)
		if t < 0 || kd(g, t) == nil {
			return ""
		}
		kd(g, t).Value = append(append([]byte(nil), kd(g, t).Value...), w.rng.Bytes(1+w.rng.Intn(12))...)
		return "value-extended"
	}},
	{"value-bitflip", 6, func(w *world, g *gen) string {
		t := w.target(g)
		if t < 0 || kd(g, t) == nil || len(kd(g, t).Value) == 0 {
			return ""
		}
		v := append([]byte(nil), kd(g, t).Value...)
		pos := w.rng.Intn(len(v))
		if w.rng.Chance(40) {
			pos = w.rng.Intn(min(len(v), 12)) // the header: tags, versions, parameters
		}
		v[pos] ^= 1 << uint(w.rng.Intn(8))
		kd(g, t).Value = v
		return "value-bitflip"
	}},
	{"unknown-typeurl", 4, func(w *world, g *gen) string {
		t := w.target(g)
		if t < 0 || kd(g, t) == nil {
			return ""
		}
		kd(g, t).TypeUrl = []string{"type.googleapis.com/verif.NoSuchKey", "type.googleapis.com/google.crypto.tink.AesGcmKeyX",
			"google.crypto.tink.AesGcmKey", "x", "type.googleapis.com/"}[w.rng.Intn(5)]
		return "unknown-typeurl"
	}},
	{"empty-typeurl", 2, func(w *world, g *gen) string {
		t := w.target(g)
		if t < 0 || kd(g, t) == nil {
			return ""
		}
		kd(g, t).TypeUrl = ""
		return "empty-typeurl"
	}},
	{"unsupported-typeurl", 2, func(w *world, g *gen) string { // well-known Tink key types without a Go implementation
		t := w.target(g)
		if t < 0 || kd(g, t) == nil {
			return ""
		}
		kd(g, t).TypeUrl = []string{"type.googleapis.com/google.crypto.tink.AesEaxKey", "type.googleapis.com/google.crypto.tink.KmsAeadKey"}[w.rng.Intn(2)]
		return "unsupported-typeurl"
	}},
	{"badutf8-typeurl", 1, func(w *world, g *gen) string {
		t := w.target(g)
		if t < 0 || kd(g, t) == nil {
			return ""
		}
		kd(g, t).TypeUrl = kd(g, t).TypeUrl + "\xff\xfe"
		return "badutf8-typeurl"
	}},
	{"other-typeurl", 5, func(w *world, g *gen) string { // the value of one key type under the URL of another
		t := w.target(g)
		if t < 0 || kd(g, t) == nil {
			return ""
		}
		kd(g, t).TypeUrl = w.anyKey().KD.TypeUrl
		return "other-typeurl"
	}},
	{"inner-field", 40, func(w *world, g *gen) string {
		t := w.target(g)
		if t < 0 || kd(g, t) == nil {
			return ""
		}
		l := kslib.MutateInner(w.rng, kd(g, t))
		if l == "" {
			return ""
		}
		return "inner-" + l
	}},
	{"version", 6, func(w *world, g *gen) string {
		t := w.target(g)
		if t < 0 || kd(g, t) == nil {
			return ""
		}
		if kslib.MutateVersion(w.rng, kd(g, t)) == "" {
			return ""
		}
		return "version"
	}},
	{"point", 8, func(w *world, g *gen) string {
		t := w.target(g)
		if t < 0 {
			return ""
		}
		if kd(g, t) == nil || kslib.MutatePoint(hlib.NewRng(1, "probe"), proto.Clone(kd(g, t)).(*tinkpb.KeyData)) == "" {
			w.replace(g, t, w.pickFrom(w.poolWhere(func(pk *kslib.PoolKey) bool {
				return strings.Contains(pk.Type, "Ec") || strings.Contains(pk.Type, "Hpke") || strings.Contains(pk.Name, "ECDSA")
			})))
		}
		return kslib.MutatePoint(w.rng, kd(g, t))
	}},
	{"mismatch", 8, func(w *world, g *gen) string {
		t := w.target(g)
		if t < 0 {
			return ""
		}
		if g.src[t] == nil || g.src[t].Alt == nil || kd(g, t) == nil {
			w.replace(g, t, w.pickFrom(w.poolWhere(func(pk *kslib.PoolKey) bool { return pk.Alt != nil })))
		}
		return kslib.Mismatch(w.rng, kd(g, t), g.src[t].Alt)
	}},
	{"weak-rsa", 4, func(w *world, g *gen) string {
		t := w.target(g)
		if t < 0 || len(w.weakRSA) == 0 {
			return ""
		}
		if g.src[t] == nil || !strings.Contains(g.src[t].Type, "Rsa") || kd(g, t) == nil {
			w.replace(g, t, w.pickFrom(w.poolWhere(func(pk *kslib.PoolKey) bool { return strings.Contains(pk.Type, "Rsa") })))
		}
		r := w.weakRSA[w.rng.Intn(len(w.weakRSA))]
		f := r.PrivFields()
		if g.src[t].Priv >= 0 {
			f = r.PubFields()
		}
		if err := kslib.SetFields(kd(g, t), f); err != nil {
			return ""
		}
		return "weak-rsa"
	}},
}

var mutTotal int

func (w *world) mutate(g *gen) {
	if mutTotal == 0 {
		for _, m := range mutations {
			mutTotal += m.weight
		}
	}
	n := 1
	switch r := w.rng.Intn(100); {
	case r < 22:
		n = 0
	case r < 82:
		n = 1
	default:
		n = 2
	}
	for i := 0; i < n; i++ {
		for try := 0; try < 6; try++ {
			x := w.rng.Intn(mutTotal)
			var m *mutation
			for j := range mutations {
				if x < mutations[j].weight {
					m = &mutations[j]
					break
				}
				x -= mutations[j].weight
			}
			if l := m.f(w, g); l != "" {
				g.kinds = append(g.kinds, l)
				break
			}
		}
	}
	if w.rng.Chance(1) && len(g.ks.Key) > 0 { // always last: the other mutations assume non-nil entries
		t := w.rng.Intn(len(g.ks.Key))
		g.ks.Key[t], g.src[t] = nil, nil
		g.kinds = append(g.kinds, "nil-key-entry")
	}
	if len(g.kinds) == 0 {
		g.kinds = []string{"unmutated"}
	}
}

// kindClass shortens "inner-bytes-truncate:key_value" to "inner-bytes-truncate" for the histogram.
func kindClass(k string) string {
	if i := strings.Index(k, ":"); i >= 0 {
		return k[:i]
	}
	return k
}

func main() {
	o := hlib.Open("c14")
	defer o.Close()
	if pf := os.Getenv("VERIF_C14_CPUPROFILE"); pf != "" { // for tuning the tier budgets
		if f, err := os.Create(pf); err == nil {
			if pprof.StartCPUProfile(f) == nil {
				defer pprof.StopCPUProfile()
			}
		}
	}
	w := &world{o: o, rng: hlib.NewRng(*hlib.FlagSeed, "c14"), byType: map[string][]int{}}
	kslib.InstallDetRand(*hlib.FlagSeed)
	w.pool = kslib.BuildPool()
	for _, s := range w.pool.Skipped {
		o.Count("pool-skipped/" + s)
	}
	for i, pk := range w.pool.Keys {
		knownTypes[pk.Type] = true
		w.byType[pk.Type] = append(w.byType[pk.Type], i)
		o.Count("pool/" + pk.Class)
	}
	var errs []string
	w.weakRSA, errs = kslib.WeakRSAKeys()
	for _, e := range errs {
		o.Count("weak-rsa-skipped/" + e)
	}
	kh, err := keyset.NewHandle(aead.AES256GCMKeyTemplate())
	if err != nil {
		panic(err)
	}
	if w.master, err = aead.New(kh); err != nil {
		panic(err)
	}
	w.slhBudget = hlib.N(3, 30)
	w.hugeBudget = hlib.N(2, 10)

	// -mode lengths | ctors (or VERIF_C14_MODE): only the systematic length passes / only the
	// key-level constructor pass (for replays and mutant triage); default: everything
	mode := *hlib.FlagMode
	if mode == "" {
		mode = os.Getenv("VERIF_C14_MODE")
	}
	if mode == "lengths" || mode == "ctors" {
		w.rng = hlib.NewRng(*hlib.FlagSeed, "c14-lengths")
		if mode == "lengths" {
			w.lengthMutations()
		} else {
			w.constructors()
		}
		return
	}
	// -mode struct | large | ecshort: only one of the round-3 passes
	if mode == "struct" || mode == "large" || mode == "ecshort" {
		w.round3(mode)
		return
	}
	// -mode nested | structpq: only one of the round-4 passes
	if mode == "nested" || mode == "structpq" {
		w.round4(mode)
		return
	}

	// every pool key alone, unmutated: each key type is accepted and usable
	for _, pk := range w.pool.Keys {
		g := &gen{ks: &tinkpb.Keyset{}, kinds: []string{"pool-key"}}
		k := &tinkpb.Keyset_Key{KeyData: clonePK(pk), Status: tinkpb.KeyStatusType_ENABLED, KeyId: w.rng.KeyID(), OutputPrefixType: pk.Prefix}
		g.ks.Key, g.src, g.ks.PrimaryKeyId = []*tinkpb.Keyset_Key{k}, []*kslib.PoolKey{pk}, k.KeyId
		r := w.check(g)
		// not demanded by the property (it speaks about untrusted input), so only recorded
		if !r.accepted {
			o.Count("POOL-KEY-REJECTED-BY-READER/" + pk.Name)
		} else if len(r.usable) == 0 {
			o.Count("pool-key-without-working-primitive/" + pk.Name)
		}
	}
	w.goSideNil()
	for i, n := 0, hlib.N(5000, 100000); i < n; i++ {
		g := w.genKeyset()
		w.mutate(g)
		w.check(g)
	}
	w.minStrength()
	w.randomInputs()

	// added last, on their own random stream, so that everything above is what it was:
	// systematic length mutations of all key material (keysets, then the key-level constructors)
	w.rng = hlib.NewRng(*hlib.FlagSeed, "c14-lengths")
	w.lengthMutations()
	w.constructors()

	// round 3, again last and on their own streams: structured public/private mismatches, large
	// keysets with structural faults at chosen positions, foreign integer encodings of EC keys
	w.round3("")

	// round 4, last and on their own streams: role swaps in nested keys / templates (nested.go),
	// structured mismatches of the post-quantum and hybrid key types (structpq.go)
	w.round4("")
}

func (w *world) round4(only string) {
	if only == "" || only == "nested" {
		w.rng = hlib.NewRng(*hlib.FlagSeed, "c14-nested")
		w.nestedRoleSwaps()
	}
	if only == "" || only == "structpq" {
		w.rng = hlib.NewRng(*hlib.FlagSeed, "c14-structpq")
		w.structuredPQ()
	}
}

func (w *world) round3(only string) {
	if only == "" || only == "struct" {
		w.rng = hlib.NewRng(*hlib.FlagSeed, "c14-struct")
		w.structuredMismatches()
	}
	if only == "" || only == "large" {
		w.rng = hlib.NewRng(*hlib.FlagSeed, "c14-large")
		w.largeKeysets()
	}
	if only == "" || only == "ecshort" {
		w.rng = hlib.NewRng(*hlib.FlagSeed, "c14-ecshort")
		w.ecShortEncodings()
	}
}
