//go:build verif

package main

import (
	"fmt"
	"time"

	"github.com/tink-crypto/tink-go/v2/internal/verifharness/hlib"
	"github.com/tink-crypto/tink-go/v2/internal/verifharness/kslib"
)

func main() {
	o := hlib.Open("c14")
	defer o.Close()
	t0 := time.Now()
	p := kslib.BuildPool()
	fmt.Println(len(p.Keys), p.Skipped, time.Since(t0))
	for _, k := range p.Keys {
		fmt.Println(k.Name, k.Class, k.Type, k.Prefix, k.KD.KeyMaterialType, len(k.KD.Value))
	}
	o.Emit("K validate 7 -", "err", true)
}
