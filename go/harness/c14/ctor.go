//go:build verif

package main

import (
	"fmt"
	"os"
	"strings"

	"github.com/tink-crypto/tink-go/v2/aead/aesctrhmac"
	"github.com/tink-crypto/tink-go/v2/aead/aesgcm"
	"github.com/tink-crypto/tink-go/v2/aead/aesgcmsiv"
	"github.com/tink-crypto/tink-go/v2/aead/chacha20poly1305"
	"github.com/tink-crypto/tink-go/v2/aead/xaesgcm"
	"github.com/tink-crypto/tink-go/v2/aead/xchacha20poly1305"
	"github.com/tink-crypto/tink-go/v2/daead/aessiv"
	"github.com/tink-crypto/tink-go/v2/hybrid/ecies"
	"github.com/tink-crypto/tink-go/v2/hybrid/hpke"
	"github.com/tink-crypto/tink-go/v2/insecurecleartextkeyset"
	"github.com/tink-crypto/tink-go/v2/insecuresecretdataaccess"
	"github.com/tink-crypto/tink-go/v2/internal/verifharness/hlib"
	"github.com/tink-crypto/tink-go/v2/internal/verifharness/kslib"
	"github.com/tink-crypto/tink-go/v2/jwt/jwtecdsa"
	"github.com/tink-crypto/tink-go/v2/jwt/jwthmac"
	"github.com/tink-crypto/tink-go/v2/jwt/jwtmldsa"
	"github.com/tink-crypto/tink-go/v2/jwt/jwtrsassapkcs1"
	"github.com/tink-crypto/tink-go/v2/jwt/jwtrsassapss"
	"github.com/tink-crypto/tink-go/v2/key"
	"github.com/tink-crypto/tink-go/v2/keyset"
	"github.com/tink-crypto/tink-go/v2/mac/aescmac"
	"github.com/tink-crypto/tink-go/v2/mac/hmac"
	"github.com/tink-crypto/tink-go/v2/prf/aescmacprf"
	"github.com/tink-crypto/tink-go/v2/prf/hkdfprf"
	"github.com/tink-crypto/tink-go/v2/prf/hmacprf"
	"github.com/tink-crypto/tink-go/v2/secretdata"
	"github.com/tink-crypto/tink-go/v2/signature/ecdsa"
	"github.com/tink-crypto/tink-go/v2/signature/ed25519"
	"github.com/tink-crypto/tink-go/v2/signature/mldsa"
	"github.com/tink-crypto/tink-go/v2/signature/rsassapkcs1"
	"github.com/tink-crypto/tink-go/v2/signature/rsassapss"
	"github.com/tink-crypto/tink-go/v2/signature/slhdsa"
	saesctrhmac "github.com/tink-crypto/tink-go/v2/streamingaead/aesctrhmac"
	"github.com/tink-crypto/tink-go/v2/streamingaead/aesgcmhkdf"
	"google.golang.org/protobuf/proto"

	tinkpb "github.com/tink-crypto/tink-go/v2/proto/tink_go_proto"
)

// The key-level constructors (public API) are given the valid material of every pool key with
// one argument length-mutated (kslib.LenKinds), the parameters left as they are. A constructor
// that accepts wrong-length material is recorded ("ctor-accepted/<api>/<arg>/<kind>"); the key is
// then put into a handle and used like every accepted handle: a panic, a primitive that is not
// self-consistent or a verifier accepting random strings is a violation. Acceptance that is
// harmless is only counted.

type ctorArg struct {
	name string
	val  []byte
}

type ctorCase struct {
	api   string
	args  []ctorArg
	build func(a [][]byte) (key.Key, error)
}

func sd(b []byte) secretdata.Bytes {
	return secretdata.NewBytesFromData(b, insecuresecretdataaccess.Token{})
}
func ds(s secretdata.Bytes) []byte { return s.Data(insecuresecretdataaccess.Token{}) }

// ctorCases lists the constructor calls that rebuild k from its own material.
func ctorCases(k key.Key) []ctorCase {
	id, _ := k.IDRequirement()
	one := func(api, arg string, v []byte, f func(b []byte) (key.Key, error)) ctorCase {
		return ctorCase{api, []ctorArg{{arg, v}}, func(a [][]byte) (key.Key, error) { return f(a[0]) }}
	}
	// typed nil pointers must not become non-nil key.Key values
	r := func(k key.Key, err error) (key.Key, error) {
		if err != nil {
			return nil, err
		}
		return k, nil
	}
	switch t := k.(type) {
	case *aesgcm.Key:
		p := t.Parameters().(*aesgcm.Parameters)
		return []ctorCase{one("aesgcm.NewKey", "keyBytes", ds(t.KeyBytes()), func(b []byte) (key.Key, error) { return r(aesgcm.NewKey(sd(b), id, p)) })}
	case *aesgcmsiv.Key:
		p := t.Parameters().(*aesgcmsiv.Parameters)
		return []ctorCase{one("aesgcmsiv.NewKey", "keyBytes", ds(t.KeyBytes()), func(b []byte) (key.Key, error) { return r(aesgcmsiv.NewKey(sd(b), id, p)) })}
	case *chacha20poly1305.Key:
		p := t.Parameters().(*chacha20poly1305.Parameters)
		return []ctorCase{one("chacha20poly1305.NewKey", "keyBytes", ds(t.KeyBytes()), func(b []byte) (key.Key, error) { return r(chacha20poly1305.NewKey(sd(b), id, p)) })}
	case *xchacha20poly1305.Key:
		p := t.Parameters().(*xchacha20poly1305.Parameters)
		return []ctorCase{one("xchacha20poly1305.NewKey", "keyBytes", ds(t.KeyBytes()), func(b []byte) (key.Key, error) { return r(xchacha20poly1305.NewKey(sd(b), id, p)) })}
	case *xaesgcm.Key:
		p := t.Parameters().(*xaesgcm.Parameters)
		return []ctorCase{one("xaesgcm.NewKey", "keyBytes", ds(t.KeyBytes()), func(b []byte) (key.Key, error) { return r(xaesgcm.NewKey(sd(b), id, p)) })}
	case *aesctrhmac.Key:
		p := t.Parameters().(*aesctrhmac.Parameters)
		return []ctorCase{{"aesctrhmac.NewKey", []ctorArg{{"AESKeyBytes", ds(t.AESKeyBytes())}, {"HMACKeyBytes", ds(t.HMACKeyBytes())}},
			func(a [][]byte) (key.Key, error) {
				return r(aesctrhmac.NewKey(aesctrhmac.KeyOpts{AESKeyBytes: sd(a[0]), HMACKeyBytes: sd(a[1]), IDRequirement: id, Parameters: p}))
			}}}
	case *aessiv.Key:
		p := t.Parameters().(*aessiv.Parameters)
		return []ctorCase{one("aessiv.NewKey", "keyBytes", ds(t.KeyBytes()), func(b []byte) (key.Key, error) { return r(aessiv.NewKey(sd(b), id, p)) })}
	case *hmac.Key:
		p := t.Parameters().(*hmac.Parameters)
		return []ctorCase{one("hmac.NewKey", "keyBytes", ds(t.KeyBytes()), func(b []byte) (key.Key, error) { return r(hmac.NewKey(sd(b), p, id)) })}
	case *aescmac.Key:
		p := t.Parameters().(*aescmac.Parameters)
		return []ctorCase{one("aescmac.NewKey", "keyBytes", ds(t.KeyBytes()), func(b []byte) (key.Key, error) { return r(aescmac.NewKey(sd(b), p, id)) })}
	case *hmacprf.Key:
		p := t.Parameters().(*hmacprf.Parameters)
		return []ctorCase{one("hmacprf.NewKey", "keyBytes", ds(t.KeyBytes()), func(b []byte) (key.Key, error) { return r(hmacprf.NewKey(sd(b), p)) })}
	case *hkdfprf.Key:
		p := t.Parameters().(*hkdfprf.Parameters)
		return []ctorCase{one("hkdfprf.NewKey", "keyBytes", ds(t.KeyBytes()), func(b []byte) (key.Key, error) { return r(hkdfprf.NewKey(sd(b), p)) })}
	case *aescmacprf.Key:
		// the parameters are derived from the length: 16 and 32 bytes are both legal
		return []ctorCase{one("aescmacprf.NewKey", "keyBytes", ds(t.KeyBytes()), func(b []byte) (key.Key, error) { return r(aescmacprf.NewKey(sd(b))) })}
	case *aesgcmhkdf.Key:
		p := t.Parameters().(*aesgcmhkdf.Parameters)
		return []ctorCase{one("streamingaead/aesgcmhkdf.NewKey", "keyBytes", ds(t.KeyBytes()), func(b []byte) (key.Key, error) { return r(aesgcmhkdf.NewKey(p, sd(b))) })}
	case *saesctrhmac.Key:
		p := t.Parameters().(*saesctrhmac.Parameters)
		return []ctorCase{one("streamingaead/aesctrhmac.NewKey", "keyBytes", ds(t.KeyBytes()), func(b []byte) (key.Key, error) { return r(saesctrhmac.NewKey(p, sd(b))) })}
	case *jwthmac.Key:
		p := t.Parameters().(*jwthmac.Parameters)
		return []ctorCase{one("jwthmac.NewKey", "KeyBytes", ds(t.KeyBytes()), func(b []byte) (key.Key, error) {
			return r(jwthmac.NewKey(jwthmac.KeyOpts{KeyBytes: sd(b), IDRequirement: id, Parameters: p}))
		})}
	case *ed25519.PublicKey:
		p := *t.Parameters().(*ed25519.Parameters)
		return []ctorCase{one("ed25519.NewPublicKey", "keyBytes", t.KeyBytes(), func(b []byte) (key.Key, error) { return r(ed25519.NewPublicKey(b, id, p)) })}
	case *ed25519.PrivateKey:
		p := *t.Parameters().(*ed25519.Parameters)
		pubK, _ := t.PublicKey()
		pub := pubK.(*ed25519.PublicKey)
		return []ctorCase{
			one("ed25519.NewPrivateKey", "privateKeyBytes", ds(t.PrivateKeyBytes()), func(b []byte) (key.Key, error) { return r(ed25519.NewPrivateKey(sd(b), id, p)) }),
			one("ed25519.NewPrivateKeyWithPublicKey", "privateKeyBytes", ds(t.PrivateKeyBytes()), func(b []byte) (key.Key, error) { return r(ed25519.NewPrivateKeyWithPublicKey(sd(b), pub)) }),
		}
	case *ecdsa.PublicKey:
		p := t.Parameters().(*ecdsa.Parameters)
		return []ctorCase{one("ecdsa.NewPublicKey", "publicPoint", t.PublicPoint(), func(b []byte) (key.Key, error) { return r(ecdsa.NewPublicKey(b, id, p)) })}
	case *ecdsa.PrivateKey:
		p := t.Parameters().(*ecdsa.Parameters)
		pubK, _ := t.PublicKey()
		pub := pubK.(*ecdsa.PublicKey)
		return []ctorCase{
			one("ecdsa.NewPrivateKey", "privateKeyValue", ds(t.PrivateKeyValue()), func(b []byte) (key.Key, error) { return r(ecdsa.NewPrivateKey(sd(b), id, p)) }),
			one("ecdsa.NewPrivateKeyFromPublicKey", "privateKeyValue", ds(t.PrivateKeyValue()), func(b []byte) (key.Key, error) { return r(ecdsa.NewPrivateKeyFromPublicKey(pub, sd(b))) }),
		}
	case *hpke.PublicKey:
		p := t.Parameters().(*hpke.Parameters)
		return []ctorCase{one("hpke.NewPublicKey", "publicKeyBytes", t.PublicKeyBytes(), func(b []byte) (key.Key, error) { return r(hpke.NewPublicKey(b, id, p)) })}
	case *hpke.PrivateKey:
		p := t.Parameters().(*hpke.Parameters)
		pubK, _ := t.PublicKey()
		pub := pubK.(*hpke.PublicKey)
		return []ctorCase{
			one("hpke.NewPrivateKey", "privateKeyBytes", ds(t.PrivateKeyBytes()), func(b []byte) (key.Key, error) { return r(hpke.NewPrivateKey(sd(b), id, p)) }),
			one("hpke.NewPrivateKeyFromPublicKey", "privateKeyBytes", ds(t.PrivateKeyBytes()), func(b []byte) (key.Key, error) { return r(hpke.NewPrivateKeyFromPublicKey(sd(b), pub)) }),
		}
	case *ecies.PublicKey:
		p := t.Parameters().(*ecies.Parameters)
		return []ctorCase{one("ecies.NewPublicKey", "publicKeyBytes", t.PublicKeyBytes(), func(b []byte) (key.Key, error) { return r(ecies.NewPublicKey(b, id, p)) })}
	case *ecies.PrivateKey:
		p := t.Parameters().(*ecies.Parameters)
		pubK, _ := t.PublicKey()
		pub := pubK.(*ecies.PublicKey)
		return []ctorCase{
			one("ecies.NewPrivateKey", "privateKeyBytes", ds(t.PrivateKeyBytes()), func(b []byte) (key.Key, error) { return r(ecies.NewPrivateKey(sd(b), id, p)) }),
			one("ecies.NewPrivateKeyFromPublicKey", "privateKeyBytes", ds(t.PrivateKeyBytes()), func(b []byte) (key.Key, error) { return r(ecies.NewPrivateKeyFromPublicKey(sd(b), pub)) }),
		}
	case *mldsa.PublicKey:
		p := t.Parameters().(*mldsa.Parameters)
		return []ctorCase{one("mldsa.NewPublicKey", "keyBytes", t.KeyBytes(), func(b []byte) (key.Key, error) { return r(mldsa.NewPublicKey(b, id, p)) })}
	case *mldsa.PrivateKey:
		p := t.Parameters().(*mldsa.Parameters)
		pubK, _ := t.PublicKey()
		pub := pubK.(*mldsa.PublicKey)
		return []ctorCase{
			one("mldsa.NewPrivateKey", "privateKeyBytes", ds(t.PrivateKeyBytes()), func(b []byte) (key.Key, error) { return r(mldsa.NewPrivateKey(sd(b), id, p)) }),
			one("mldsa.NewPrivateKeyWithPublicKey", "privateKeyBytes", ds(t.PrivateKeyBytes()), func(b []byte) (key.Key, error) { return r(mldsa.NewPrivateKeyWithPublicKey(sd(b), pub)) }),
		}
	case *slhdsa.PublicKey:
		p := t.Parameters().(*slhdsa.Parameters)
		return []ctorCase{one("slhdsa.NewPublicKey", "keyBytes", t.KeyBytes(), func(b []byte) (key.Key, error) { return r(slhdsa.NewPublicKey(b, id, p)) })}
	case *slhdsa.PrivateKey:
		p := t.Parameters().(*slhdsa.Parameters)
		pubK, _ := t.PublicKey()
		pub := pubK.(*slhdsa.PublicKey)
		return []ctorCase{
			one("slhdsa.NewPrivateKey", "privateKeyBytes", ds(t.PrivateKeyBytes()), func(b []byte) (key.Key, error) { return r(slhdsa.NewPrivateKey(sd(b), id, p)) }),
			one("slhdsa.NewPrivateKeyWithPublicKey", "privateKeyBytes", ds(t.PrivateKeyBytes()), func(b []byte) (key.Key, error) { return r(slhdsa.NewPrivateKeyWithPublicKey(sd(b), pub)) }),
		}
	case *rsassapkcs1.PublicKey:
		p := t.Parameters().(*rsassapkcs1.Parameters)
		return []ctorCase{one("rsassapkcs1.NewPublicKey", "modulus", t.Modulus(), func(b []byte) (key.Key, error) { return r(rsassapkcs1.NewPublicKey(b, id, p)) })}
	case *rsassapkcs1.PrivateKey:
		pubK, _ := t.PublicKey()
		pub := pubK.(*rsassapkcs1.PublicKey)
		return []ctorCase{{"rsassapkcs1.NewPrivateKey", []ctorArg{{"P", ds(t.P())}, {"Q", ds(t.Q())}, {"D", ds(t.D())}},
			func(a [][]byte) (key.Key, error) {
				return r(rsassapkcs1.NewPrivateKey(pub, rsassapkcs1.PrivateKeyValues{P: sd(a[0]), Q: sd(a[1]), D: sd(a[2])}))
			}}}
	case *rsassapss.PublicKey:
		p := t.Parameters().(*rsassapss.Parameters)
		return []ctorCase{one("rsassapss.NewPublicKey", "modulus", t.Modulus(), func(b []byte) (key.Key, error) { return r(rsassapss.NewPublicKey(b, id, p)) })}
	case *rsassapss.PrivateKey:
		pubK, _ := t.PublicKey()
		pub := pubK.(*rsassapss.PublicKey)
		return []ctorCase{{"rsassapss.NewPrivateKey", []ctorArg{{"P", ds(t.P())}, {"Q", ds(t.Q())}, {"D", ds(t.D())}},
			func(a [][]byte) (key.Key, error) {
				return r(rsassapss.NewPrivateKey(pub, rsassapss.PrivateKeyValues{P: sd(a[0]), Q: sd(a[1]), D: sd(a[2])}))
			}}}
	case *jwtecdsa.PublicKey:
		p := t.Parameters().(*jwtecdsa.Parameters)
		return []ctorCase{one("jwtecdsa.NewPublicKey", "PublicPoint", t.PublicPoint(), func(b []byte) (key.Key, error) {
			return r(jwtecdsa.NewPublicKey(jwtecdsa.PublicKeyOpts{PublicPoint: b, IDRequirement: id, Parameters: p}))
		})}
	case *jwtecdsa.PrivateKey:
		pubK, _ := t.PublicKey()
		pub := pubK.(*jwtecdsa.PublicKey)
		return []ctorCase{one("jwtecdsa.NewPrivateKeyFromPublicKey", "keyBytes", ds(t.PrivateKeyValue()), func(b []byte) (key.Key, error) {
			return r(jwtecdsa.NewPrivateKeyFromPublicKey(sd(b), pub))
		})}
	case *jwtrsassapkcs1.PublicKey:
		p := t.Parameters().(*jwtrsassapkcs1.Parameters)
		return []ctorCase{one("jwtrsassapkcs1.NewPublicKey", "Modulus", t.Modulus(), func(b []byte) (key.Key, error) {
			return r(jwtrsassapkcs1.NewPublicKey(jwtrsassapkcs1.PublicKeyOpts{Modulus: b, IDRequirement: id, Parameters: p}))
		})}
	case *jwtrsassapkcs1.PrivateKey:
		pubK, _ := t.PublicKey()
		pub := pubK.(*jwtrsassapkcs1.PublicKey)
		return []ctorCase{{"jwtrsassapkcs1.NewPrivateKey", []ctorArg{{"P", ds(t.P())}, {"Q", ds(t.Q())}, {"D", ds(t.D())}},
			func(a [][]byte) (key.Key, error) {
				return r(jwtrsassapkcs1.NewPrivateKey(jwtrsassapkcs1.PrivateKeyOpts{PublicKey: pub, P: sd(a[0]), Q: sd(a[1]), D: sd(a[2])}))
			}}}
	case *jwtrsassapss.PublicKey:
		p := t.Parameters().(*jwtrsassapss.Parameters)
		return []ctorCase{one("jwtrsassapss.NewPublicKey", "Modulus", t.Modulus(), func(b []byte) (key.Key, error) {
			return r(jwtrsassapss.NewPublicKey(jwtrsassapss.PublicKeyOpts{Modulus: b, IDRequirement: id, Parameters: p}))
		})}
	case *jwtrsassapss.PrivateKey:
		pubK, _ := t.PublicKey()
		pub := pubK.(*jwtrsassapss.PublicKey)
		return []ctorCase{{"jwtrsassapss.NewPrivateKey", []ctorArg{{"P", ds(t.P())}, {"Q", ds(t.Q())}, {"D", ds(t.D())}},
			func(a [][]byte) (key.Key, error) {
				return r(jwtrsassapss.NewPrivateKey(jwtrsassapss.PrivateKeyOpts{PublicKey: pub, P: sd(a[0]), Q: sd(a[1]), D: sd(a[2])}))
			}}}
	case *jwtmldsa.PublicKey:
		p := t.Parameters().(*jwtmldsa.Parameters)
		return []ctorCase{one("jwtmldsa.NewPublicKey", "KeyBytes", t.KeyBytes(), func(b []byte) (key.Key, error) {
			return r(jwtmldsa.NewPublicKey(jwtmldsa.PublicKeyOpts{KeyBytes: b, IDRequirement: id, Parameters: p}))
		})}
	case *jwtmldsa.PrivateKey:
		pubK, _ := t.PublicKey()
		pub := pubK.(*jwtmldsa.PublicKey)
		return []ctorCase{one("jwtmldsa.NewPrivateKeyFromPublicKey", "keyBytes", ds(t.PrivateKeyValue()), func(b []byte) (key.Key, error) {
			return r(jwtmldsa.NewPrivateKeyFromPublicKey(sd(b), pub))
		})}
	}
	return nil
}

// constructors runs the length mutations through the key-level constructors.
func (w *world) constructors() {
	o := w.o
	const fixedID = 0x43313421
	for _, pk := range w.pool.Keys {
		id := uint32(fixedID)
		h := oneKey(pk.KD, id, pk.Prefix)
		if h == nil {
			o.Count("ctor-pool-key-unreadable/" + pk.Name)
			continue
		}
		e, err := h.Entry(0)
		if err != nil {
			continue
		}
		orig := e.Key()
		var cases []ctorCase
		if p := hlib.Recover(func() { cases = ctorCases(orig) }); p != "" {
			o.Count("ctor-accessor-panic/" + pk.Name)
			continue
		}
		if len(cases) == 0 {
			o.Count("ctor-no-public-constructor/" + pk.Type)
			continue
		}
		for _, c := range cases {
			// the unchanged material must rebuild the key
			w.ctorCall(pk, orig, c, -1, "", id)
			for ai := range c.args {
				for _, kind := range kslib.LenKinds {
					w.ctorCall(pk, orig, c, ai, kind, id)
				}
			}
		}
	}
}

func (w *world) ctorCall(pk *kslib.PoolKey, orig key.Key, c ctorCase, ai int, kind string, id uint32) {
	o := w.o
	vals := make([][]byte, len(c.args))
	for i, a := range c.args {
		vals[i] = append([]byte{}, a.val...)
	}
	what := c.api + "(unchanged)"
	if ai >= 0 {
		m, ok := kslib.LenMutate(w.rng, vals[ai], kind)
		if !ok {
			return
		}
		vals[ai] = m
		what = fmt.Sprintf("%s/%s/%s", c.api, c.args[ai].name, kind)
	}
	o.Case()
	o.Count("ctor-calls/" + c.api)
	var hx []string
	for i, v := range vals {
		hx = append(hx, fmt.Sprintf("%s(%d bytes)=%x", c.args[i].name, len(v), v))
	}
	desc := fmt.Sprintf("ctor:%s pool-key=%s id-requirement-of-pool-key-with-id=%#x args: %s", what, pk.Name, id, strings.Join(hx, " "))
	if len(desc) > 3000 && *hlib.FlagStats != "" {
		file := fmt.Sprintf("%s.case%d.ctor", strings.TrimSuffix(*hlib.FlagStats, ".json"), o.NCase)
		if os.WriteFile(file, []byte(desc+"\n"), 0o644) == nil {
			desc = desc[:3000] + "…(full arguments: " + file + ")"
		}
	}
	g := &gen{ks: &tinkpb.Keyset{}, kinds: []string{desc}}
	var k key.Key
	var err error
	if p := hlib.Recover(func() { k, err = c.build(vals) }); p != "" {
		w.panicked(g, c.api, p)
		return
	}
	if ai < 0 {
		if err != nil || k == nil || !k.Equal(orig) {
			o.Count("CTOR-REJECTS-VALID-MATERIAL/" + c.api)
			o.Violate("%s does not rebuild pool key %s from its own material: %v", c.api, pk.Name, err)
		}
		return
	}
	if err != nil || k == nil {
		o.Count("ctor-rejected/" + c.api)
		return
	}
	o.Count("ctor-accepted/" + what)
	if k.Equal(orig) {
		o.Count("ctor-accepted-same-key/" + what) // e.g. a leading zero that is stripped
	}
	// into a handle, and use it
	var h *keyset.Handle
	if p := hlib.Recover(func() {
		km := keyset.NewManager()
		kid, err := km.AddKey(k)
		if err != nil {
			return
		}
		if err := km.SetPrimary(kid); err != nil {
			return
		}
		h, _ = km.Handle()
	}); p != "" {
		w.panicked(g, "keyset.Manager.AddKey/Handle of the key made by "+c.api, p)
		return
	}
	if h == nil {
		o.Count("ctor-accepted-no-handle/" + what)
		return
	}
	var ks *tinkpb.Keyset
	if p := hlib.Recover(func() { ks = insecurecleartextkeyset.KeysetMaterial(h) }); p != "" {
		w.panicked(g, "insecurecleartextkeyset.KeysetMaterial of the key made by "+c.api, p)
		return
	}
	if ks == nil || len(ks.GetKey()) != 1 {
		// not serializable: a stand-in entry carrying id, prefix and type, so that the twin checks apply
		o.Count("ctor-accepted-unserializable/" + what)
		kid := uint32(0)
		if e, err := h.Entry(0); err == nil {
			kid = e.KeyID()
		}
		ks = &tinkpb.Keyset{PrimaryKeyId: kid, Key: []*tinkpb.Keyset_Key{{KeyId: kid, Status: tinkpb.KeyStatusType_ENABLED,
			OutputPrefixType: pk.Prefix, KeyData: &tinkpb.KeyData{TypeUrl: pk.KD.GetTypeUrl(), KeyMaterialType: pk.KD.GetKeyMaterialType()}}}}
	} else if _, herr, _ := kslib.ReadMem(ks); herr != nil {
		o.Count("ctor-accepted-but-parser-rejects/" + what)
	}
	g.ks = proto.Clone(ks).(*tinkpb.Keyset)
	g.src = []*kslib.PoolKey{pk}
	if len(w.use(h, g, 0)) > 0 {
		o.Count("ctor-accepted-usable/" + what)
	}
}
