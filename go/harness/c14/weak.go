//go:build verif

package main

import (
	"fmt"
	"strings"

	"github.com/tink-crypto/tink-go/v2/internal/verifharness/kslib"
	"google.golang.org/protobuf/proto"

	gcmpb "github.com/tink-crypto/tink-go/v2/proto/aes_gcm_go_proto"
	eciespb "github.com/tink-crypto/tink-go/v2/proto/ecies_aead_hkdf_go_proto"
	prfderpb "github.com/tink-crypto/tink-go/v2/proto/prf_based_deriver_go_proto"
	tinkpb "github.com/tink-crypto/tink-go/v2/proto/tink_go_proto"
)

// proto enum numbers (common.proto)
const (
	hSHA1   = 1
	hSHA384 = 2
	hSHA256 = 3
	hSHA512 = 4
	hSHA224 = 5
	cP256   = 2
	cP384   = 3
	cP521   = 4
)

type weakKey struct {
	label  string
	rule   string // which minimum-strength rule of the property it breaks
	kd     *tinkpb.KeyData
	prefix tinkpb.OutputPrefixType
	strict bool // false: outside the property's list (reported in the histogram only)
}

func (w *world) poolKey(name string) *kslib.PoolKey {
	for _, pk := range w.pool.Keys {
		if pk.Name == name {
			return pk
		}
	}
	return nil
}

// minStrength crafts, at proto level, keys below the library's minimum strengths and asserts
// that no usable primitive results from them (the reader rejects, or every factory fails).
func (w *world) minStrength() {
	o := w.o
	var ws []weakKey
	add := func(rule, label, poolName string, strict bool, kv map[string]any) {
		pk := w.poolKey(poolName)
		if pk == nil {
			o.Count("minstrength-skipped/" + poolName)
			return
		}
		k := clonePK(pk)
		if err := kslib.SetFields(k, kv); err != nil {
			o.Count("minstrength-skipped/" + label + ": " + err.Error())
			return
		}
		ws = append(ws, weakKey{label: poolName + "/" + label, rule: rule, kd: k, prefix: pk.Prefix, strict: strict})
	}
	B := func(n int) []byte { return w.rng.Bytes(n) }

	// HMAC key under 16 bytes or tag under 10
	for _, n := range []int{0, 1, 8, 15} {
		add("hmac-key<16", fmt.Sprintf("key=%d", n), "HMACSHA256Tag128", true, map[string]any{"key_value": B(n)})
		add("hmac-key<16", fmt.Sprintf("key=%d", n), "HMACSHA512Tag256", true, map[string]any{"key_value": B(n)})
		add("hmac-key<16", fmt.Sprintf("key=%d", n), "HMACSHA256PRF", true, map[string]any{"key_value": B(n)})
		add("hmac-key<16", fmt.Sprintf("hmac-key=%d", n), "AES128CTRHMACSHA256", true, map[string]any{"hmac_key.key_value": B(n)})
		add("hmac-key<16", fmt.Sprintf("key=%d", n), "JWT-HS256", true, map[string]any{"key_value": B(n)})
	}
	for _, n := range []int{0, 1, 9} {
		add("hmac-tag<10", fmt.Sprintf("tag=%d", n), "HMACSHA256Tag128", true, map[string]any{"params.tag_size": n})
		add("hmac-tag<10", fmt.Sprintf("tag=%d", n), "HMACSHA512Tag256", true, map[string]any{"params.tag_size": n})
		add("hmac-tag<10", fmt.Sprintf("hmac-tag=%d", n), "AES256CTRHMACSHA256", true, map[string]any{"hmac_key.params.tag_size": n})
		add("hmac-tag<10", fmt.Sprintf("hmac-tag=%d", n), "AES128CTRHMACSHA256Segment4KB", true, map[string]any{"params.hmac_params.tag_size": n})
		add("cmac-tag<10", fmt.Sprintf("tag=%d", n), "AESCMACTag128", false, map[string]any{"params.tag_size": n})
	}
	// AES keys other than 16 or 32 bytes
	for _, n := range []int{0, 1, 8, 15, 17, 24, 31, 33, 48, 64} {
		l := fmt.Sprintf("key=%d", n)
		add("aes-key-size", l, "AES128GCM", true, map[string]any{"key_value": B(n)})
		add("aes-key-size", l, "AES256GCM-raw", true, map[string]any{"key_value": B(n)})
		add("aes-key-size", l, "AES128GCMSIV", true, map[string]any{"key_value": B(n)})
		add("aes-key-size", "aes-"+l, "AES128CTRHMACSHA256", true, map[string]any{"aes_ctr_key.key_value": B(n)})
		add("aes-key-size", l, "AESCMACTag128", true, map[string]any{"key_value": B(n)})
		add("aes-key-size", l, "AESCMACPRF", true, map[string]any{"key_value": B(n)})
		add("aes-key-size", l, "XAES256GCM192", true, map[string]any{"key_value": B(n)})
		if n != 64 { // AES-SIV: two AES keys
			add("aes-key-size", fmt.Sprintf("key=2x%d", n), "AESSIV", true, map[string]any{"key_value": B(2 * n)})
		}
	}
	for _, n := range []int{0, 8, 24, 48} {
		add("aes-key-size", fmt.Sprintf("derived=%d", n), "AES128GCMHKDF4KB", true, map[string]any{"params.derived_key_size": n, "key_value": B(max(n, 16))})
		add("aes-key-size", fmt.Sprintf("derived=%d", n), "AES256CTRHMACSHA256Segment4KB", true, map[string]any{"params.derived_key_size": n, "key_value": B(max(n, 32))})
	}
	// AES-128 where the key type demands 256 (not in the property's list)
	add("aes128-in-256-only-type", "key=16", "XAES256GCM192", false, map[string]any{"key_value": B(16)})
	add("aes128-in-256-only-type", "key=2x16", "AESSIV", false, map[string]any{"key_value": B(32)})
	// ECDSA hash weaker than its curve
	for _, c := range []struct {
		pool string
		hash int
		l    string
	}{{"ECDSAP384SHA384", hSHA256, "P384+SHA256"}, {"ECDSAP384SHA512", hSHA256, "P384+SHA256"}, {"ECDSAP521", hSHA256, "P521+SHA256"},
		{"ECDSAP521", hSHA384, "P521+SHA384"}, {"ECDSAP256", hSHA1, "P256+SHA1"}, {"ECDSAP256-raw", hSHA224, "P256+SHA224"},
		{"ECDSAP384SHA384", hSHA1, "P384+SHA1"}, {"ECDSAP521", hSHA224, "P521+SHA224"}, {"ECDSAP256", 0, "P256+UNKNOWN_HASH"}} {
		add("ecdsa-hash<curve", c.l, c.pool, true, map[string]any{"public_key.params.hash_type": c.hash})
		add("ecdsa-hash<curve", c.l, c.pool+".pub", true, map[string]any{"params.hash_type": c.hash})
	}
	// HKDF-PRF key under 32 bytes (and SHA-1 / SHA-224, which the library refuses as well)
	for _, n := range []int{0, 1, 16, 24, 31} {
		add("hkdf-key<32", fmt.Sprintf("key=%d", n), "HKDFSHA256PRF", true, map[string]any{"key_value": B(n)})
	}
	add("hkdf-weak-hash", "SHA1", "HKDFSHA256PRF", false, map[string]any{"params.hash": hSHA1})
	add("hkdf-weak-hash", "SHA224", "HKDFSHA256PRF", false, map[string]any{"params.hash": hSHA224})
	add("hkdf-weak-hash", "UNKNOWN", "HKDFSHA256PRF", false, map[string]any{"params.hash": 0})
	add("hkdf-weak-hash", "streaming-SHA1", "AES128GCMHKDF4KB", false, map[string]any{"params.hkdf_hash_type": hSHA1})
	// RSA modulus under 2048 bits or exponent other than 65537
	for _, r := range w.weakRSA {
		for _, pn := range []string{"RSASSAPKCS1-3072-SHA256", "RSASSAPSS-3072-SHA256-raw", "JWT-RS256-2048", "JWT-PS256-2048-raw"} {
			add("rsa-modulus/exponent", r.Label, pn, true, r.PrivFields())
			add("rsa-modulus/exponent", r.Label, pn+".pub", true, r.PubFields())
		}
	}
	// a genuine key whose exponent field alone is changed (inconsistent, but the public key is "valid")
	for _, pn := range []string{"RSASSAPKCS1-3072-SHA256.pub", "RSASSAPSS-3072-SHA256-raw.pub", "JWT-RS256-2048.pub", "JWT-PS256-2048-raw.pub"} {
		for _, e := range [][]byte{{3}, {1}, {1, 0, 0}, {1, 0, 3}, {1, 0, 1, 0}, {},
			// exponents that do not fit 64 bits and whose low 64 bits are 65537 (a parser that converts through
			// int64 without a range check reads them as F4), and other over-long encodings
			{1, 0, 0, 0, 0, 0, 0, 1, 0, 1}, {1, 0, 0, 0, 0, 0, 0, 0, 1, 0, 1}, {0xff, 0, 0, 0, 0, 0, 0, 0, 1, 0, 1},
			{1, 0, 0, 0, 0, 0, 0, 0, 0, 0, 0, 0, 0, 0, 0, 0, 0, 1, 0, 1}, {0x80, 0, 0, 0, 0, 1, 0, 1}, {1, 0, 0, 0, 0, 1, 0, 1}} {
			add("rsa-modulus/exponent", fmt.Sprintf("e=%x", e), pn, true, map[string]any{"e": e})
		}
	}
	// weak keys nested in other key types
	if pk := w.poolKey("PRFDeriver-HKDF-AES128GCM"); pk != nil {
		for _, n := range []int{16, 31} {
			der := &prfderpb.PrfBasedDeriverKey{}
			if proto.Unmarshal(pk.KD.Value, der) == nil {
				if kslib.SetFields(der.PrfKey, map[string]any{"key_value": B(n)}) == nil {
					b, _ := proto.Marshal(der)
					k := clonePK(pk)
					k.Value = b
					ws = append(ws, weakKey{label: fmt.Sprintf("%s/prf-key=%d", pk.Name, n), rule: "hkdf-key<32", kd: k, prefix: pk.Prefix, strict: true})
				}
			}
		}
		// derived AES key of 24 bytes
		der := &prfderpb.PrfBasedDeriverKey{}
		if proto.Unmarshal(pk.KD.Value, der) == nil {
			f, _ := proto.Marshal(&gcmpb.AesGcmKeyFormat{KeySize: 24})
			der.Params.DerivedKeyTemplate.Value = f
			b, _ := proto.Marshal(der)
			k := clonePK(pk)
			k.Value = b
			ws = append(ws, weakKey{label: pk.Name + "/derived-aes=24", rule: "aes-key-size", kd: k, prefix: pk.Prefix, strict: true})
		}
	}
	for _, pn := range []string{"ECIES-P256-AES128GCM", "ECIES-P256-AES128GCM.pub"} {
		if pk := w.poolKey(pn); pk != nil {
			f, _ := proto.Marshal(&gcmpb.AesGcmKeyFormat{KeySize: 24})
			k := clonePK(pk)
			patch := func(pub *eciespb.EciesAeadHkdfPublicKey) { pub.Params.DemParams.AeadDem.Value = f }
			if strings.HasSuffix(pn, ".pub") {
				m := &eciespb.EciesAeadHkdfPublicKey{}
				if proto.Unmarshal(k.Value, m) != nil {
					continue
				}
				patch(m)
				k.Value, _ = proto.Marshal(m)
			} else {
				m := &eciespb.EciesAeadHkdfPrivateKey{}
				if proto.Unmarshal(k.Value, m) != nil {
					continue
				}
				patch(m.PublicKey)
				k.Value, _ = proto.Marshal(m)
			}
			ws = append(ws, weakKey{label: pn + "/dem-aes=24", rule: "aes-key-size", kd: k, prefix: pk.Prefix, strict: true})
		}
	}

	for _, wk := range ws {
		for _, pre := range []tinkpb.OutputPrefixType{wk.prefix, tinkpb.OutputPrefixType_RAW} {
			if pre == tinkpb.OutputPrefixType_RAW && wk.prefix == tinkpb.OutputPrefixType_RAW {
				pre = tinkpb.OutputPrefixType_TINK
			}
			id := w.rng.KeyID()
			g := &gen{ks: &tinkpb.Keyset{PrimaryKeyId: id, Key: []*tinkpb.Keyset_Key{{KeyData: proto.Clone(wk.kd).(*tinkpb.KeyData),
				Status: tinkpb.KeyStatusType_ENABLED, KeyId: id, OutputPrefixType: pre}}},
				src: []*kslib.PoolKey{nil}, kinds: []string{"below-minimum:" + wk.label}}
			o.Count("minstrength/" + wk.rule)
			r := w.check(g)
			switch {
			case !r.accepted:
				o.Count("minstrength-rejected-by-reader/" + wk.rule)
			case len(r.usable) == 0:
				o.Count("minstrength-rejected-by-factory/" + wk.rule)
				o.Count("minstrength-reader-accepts/" + wk.label)
			case wk.strict:
				o.Count("MINSTRENGTH-USABLE/" + wk.rule)
				o.Violate("below-minimum key (%s: %s) yields usable primitives %v; keyset=%s", wk.rule, wk.label, r.usable, kslib.Hex(g.ks))
			default:
				o.Count("minstrength-usable-outside-property-list/" + wk.rule + "/" + wk.label)
			}
		}
	}
}
