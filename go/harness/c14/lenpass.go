//go:build verif

package main

import (
	"github.com/tink-crypto/tink-go/v2/internal/verifharness/hlib"
	"github.com/tink-crypto/tink-go/v2/internal/verifharness/kslib"

	tinkpb "github.com/tink-crypto/tink-go/v2/proto/tink_go_proto"
)

// lengthMutations: every bytes field of every pool key (private keys, the public keys inside
// them, and the public-only pool keys) × every length mutation of kslib.LenKinds, as a single-key
// keyset; then keysets of several keys with one length-mutated member. Accepted ones are used
// like every accepted handle (use.go / twin.go). Which wrong lengths are accepted is recorded in
// the histogram ("len-accepted/<type>/<field>/<kind>"): acceptance alone is not a violation.
func (w *world) lengthMutations() {
	o := w.o
	for _, pk := range w.pool.Keys {
		for _, f := range kslib.BytesFields(pk.KD) {
			for _, kind := range kslib.LenKinds {
				kd := clonePK(pk)
				label := kslib.MutateLenAt(w.rng, kd, f.Path, kind)
				if label == "" {
					continue
				}
				id := w.rng.KeyID()
				g := &gen{ks: &tinkpb.Keyset{PrimaryKeyId: id, Key: []*tinkpb.Keyset_Key{{KeyData: kd,
					Status: tinkpb.KeyStatusType_ENABLED, KeyId: id, OutputPrefixType: pk.Prefix}}},
					src: []*kslib.PoolKey{pk}, kinds: []string{label}}
				o.Count("len-cases/" + pk.Type)
				r := w.check(g)
				if r.accepted {
					o.Count("len-accepted/" + pk.Type + "/" + f.Path + "/" + kind)
					if len(r.usable) == 0 {
						o.Count("len-accepted-without-primitive/" + pk.Type + "/" + f.Path + "/" + kind)
					}
				}
			}
		}
	}
	// keysets of several keys (random statuses and prefixes) with one length-mutated member
	for i, n := 0, hlib.N(700, 20000); i < n; i++ {
		g := w.genKeyset()
		t := w.target(g)
		if t < 0 || kd(g, t) == nil {
			continue
		}
		l := kslib.MutateLen(w.rng, kd(g, t))
		if l == "" {
			continue
		}
		g.kinds = append(g.kinds, l)
		w.check(g)
	}
}
