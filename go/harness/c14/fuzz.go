//go:build verif

package main

import (
	"bytes"
	"fmt"
	"strings"

	"github.com/tink-crypto/tink-go/v2/insecurecleartextkeyset"
	"github.com/tink-crypto/tink-go/v2/internal/verifharness/hlib"
	"github.com/tink-crypto/tink-go/v2/internal/verifharness/kslib"
	"github.com/tink-crypto/tink-go/v2/keyset"
	"google.golang.org/protobuf/encoding/protojson"
	"google.golang.org/protobuf/proto"

	tinkpb "github.com/tink-crypto/tink-go/v2/proto/tink_go_proto"
)

// feed gives one byte string to every reader entry point. If the bytes decode (with the same
// decoder the reader uses) to a keyset the line protocol can express, the decision is also
// compared with the model.
func (w *world) feed(kind string, data []byte, json bool) {
	o := w.o
	o.Case()
	o.Count("raw-inputs/" + kind)
	g := &gen{kinds: []string{kind}}
	ctx := func() string {
		if json {
			return fmt.Sprintf("kind=%s json=%q", kind, data)
		}
		return fmt.Sprintf("kind=%s bytes=%x", kind, data)
	}
	mk := func() keyset.Reader {
		if json {
			return keyset.NewJSONReader(bytes.NewReader(data))
		}
		return keyset.NewBinaryReader(bytes.NewReader(data))
	}
	var h *keyset.Handle
	var herr error
	if p := hlib.Recover(func() { h, herr = insecurecleartextkeyset.Read(mk()) }); p != "" {
		o.Count("PANIC/raw")
		o.Violate("panic in insecurecleartextkeyset.Read: %s; %s", p, ctx())
		return
	}
	hres := kslib.HandleRes(h, herr)
	var nh *keyset.Handle
	var nerr error
	if p := hlib.Recover(func() { nh, nerr = keyset.ReadWithNoSecrets(mk()) }); p != "" {
		o.Count("PANIC/raw")
		o.Violate("panic in keyset.ReadWithNoSecrets: %s; %s", p, ctx())
		return
	}
	nres := kslib.HandleRes(nh, nerr)
	// the same bytes as an EncryptedKeyset message
	var eh *keyset.Handle
	var eerr error
	if p := hlib.Recover(func() { eh, eerr = keyset.Read(mk(), w.master) }); p != "" {
		o.Count("PANIC/raw")
		o.Violate("panic in keyset.Read (encrypted): %s; %s", p, ctx())
		return
	}
	if eerr == nil {
		// would need a forged AES-GCM ciphertext
		o.Violate("keyset.Read accepted an EncryptedKeyset not produced with the key-encryption key; %s (%s)", ctx(), kslib.HandleRes(eh, eerr))
	}
	// and as the plaintext of an encrypted keyset (binary inputs only: that is what decrypt() parses)
	if !json {
		if ct, err := w.master.Encrypt(data, nil); err == nil {
			var dh *keyset.Handle
			var derr error
			if p := hlib.Recover(func() {
				dh, derr = keyset.Read(&keyset.MemReaderWriter{EncryptedKeyset: &tinkpb.EncryptedKeyset{EncryptedKeyset: ct}}, w.master)
			}); p != "" {
				o.Count("PANIC/raw")
				o.Violate("panic in keyset.Read (decrypted bytes): %s; %s", p, ctx())
			} else if r := kslib.HandleRes(dh, derr); r != hres {
				o.Violate("keyset.Read over the encrypted bytes decides %s, the cleartext reader decides %s; %s", r, hres, ctx())
			}
		}
	}

	// decode independently and ask the model
	ks := &tinkpb.Keyset{}
	var derr error
	if json {
		derr = protojson.Unmarshal(data, ks)
	} else {
		derr = proto.Unmarshal(data, ks)
	}
	if derr != nil {
		o.Count("raw-undecodable/" + kind)
		if herr == nil || nerr == nil {
			o.Violate("reader accepted bytes that do not decode as a Keyset; %s", ctx())
		}
	} else {
		o.Count("raw-decodable/" + kind)
		g.ks = ks
		if kslib.Expressible(ks) {
			arg := fmt.Sprintf("%d %s", ks.GetPrimaryKeyId(), kslib.KeysTok(ks, nil))
			nt := len(ks.GetKey()) >= 1
			o.Emit("K handle "+arg, hres, nt)
			o.Emit("K nosecrets "+arg, nres, nt)
		}
	}
	if herr == nil {
		o.Count("raw-accepted/" + kind)
		if m := kslib.WellFormed(h); m != "" {
			o.Violate("accepted handle is not well-formed: %s; %s", m, ctx())
		}
		if g.ks == nil {
			g.ks = insecurecleartextkeyset.KeysetMaterial(h)
		}
		w.use(h, g, 0)
	}
	if nerr == nil {
		if m := kslib.WellFormed(nh); m != "" {
			o.Violate("accepted handle (no secrets) is not well-formed: %s; %s", m, ctx())
		}
	}
}

func (w *world) validBinary() []byte {
	g := w.genKeyset()
	if w.rng.Chance(30) {
		w.mutate(g)
	}
	b, err := proto.Marshal(g.ks)
	if err != nil {
		return nil
	}
	return b
}

func (w *world) validJSON() []byte {
	g := w.genKeyset()
	// keep the texts short: drop the big keys most of the time
	for i, k := range g.ks.Key {
		if len(k.GetKeyData().GetValue()) > 300 && w.rng.Chance(85) {
			pk := w.pool.Keys[w.pool.ByClass[[]string{"aead", "mac", "prf", "daead"}[w.rng.Intn(4)]][0]]
			k.KeyData, k.OutputPrefixType = clonePK(pk), pk.Prefix
			g.src[i] = pk
		}
	}
	if w.rng.Chance(30) {
		w.mutate(g)
	}
	w.jsonFlip = !w.jsonFlip
	b, err := kslib.JSONOf(g.ks, w.jsonFlip)
	if err != nil {
		return nil
	}
	return b
}

var jsonAtoms = []string{"{", "}", "[", "]", ":", ",", "\"", "null", "true", "false", "0", "-1", "1", "4294967295", "4294967296", "1e99", "1.5",
	"\"primaryKeyId\"", "\"key\"", "\"keyData\"", "\"typeUrl\"", "\"value\"", "\"keyMaterialType\"", "\"status\"", "\"keyId\"", "\"outputPrefixType\"",
	"\"primary_key_id\"", "\"key_data\"", "\"ENABLED\"", "\"DISABLED\"", "\"DESTROYED\"", "\"UNKNOWN_STATUS\"", "\"TINK\"", "\"RAW\"", "\"LEGACY\"", "\"CRUNCHY\"",
	"\"UNKNOWN_PREFIX\"", "\"SYMMETRIC\"", "\"ASYMMETRIC_PRIVATE\"", "\"ASYMMETRIC_PUBLIC\"", "\"REMOTE\"", "\"BOGUS\"", "\"enabled\"",
	"\"type.googleapis.com/google.crypto.tink.AesGcmKey\"", "\"GhAAAAAAAAAAAAAAAAAAAAAA\"", "\"!!notbase64\"", "\"\"", " ", "\n", "\\u0000", "\"encryptedKeyset\"", "\"keysetInfo\""}

func (w *world) mutateText(b []byte) ([]byte, string) {
	s := string(b)
	switch w.rng.Intn(9) {
	case 0:
		if len(s) > 0 {
			return []byte(s[:w.rng.Intn(len(s))]), "json-truncated"
		}
	case 1:
		if len(s) > 0 {
			i := w.rng.Intn(len(s))
			return []byte(s[:i] + s[i+1:]), "json-delete-char"
		}
	case 2:
		i := w.rng.Intn(len(s) + 1)
		return []byte(s[:i] + jsonAtoms[w.rng.Intn(len(jsonAtoms))] + s[i:]), "json-insert-atom"
	case 3: // replace a status / prefix / material name or number
		olds := []string{"\"ENABLED\"", "\"TINK\"", "\"RAW\"", "\"SYMMETRIC\"", "\"ASYMMETRIC_PRIVATE\"", "\"ASYMMETRIC_PUBLIC\"", "\"DISABLED\"", "\"DESTROYED\""}
		news := []string{"\"BOGUS\"", "0", "1", "2", "3", "4", "5", "2147483647", "2147483648", "-1", "\"enabled\"", "\"UNKNOWN_STATUS\"", "\"UNKNOWN_PREFIX\"",
			"\"UNKNOWN_KEYMATERIAL\"", "null", "\"1\"", "1.0", "[1]"}
		old := olds[w.rng.Intn(len(olds))]
		if strings.Contains(s, old) {
			return []byte(strings.Replace(s, old, news[w.rng.Intn(len(news))], 1+w.rng.Intn(2))), "json-enum-replaced"
		}
	case 4: // key ids / primary id
		for _, f := range []string{"\"primaryKeyId\":", "\"keyId\":"} {
			if i := strings.Index(s, f); i >= 0 && w.rng.Bool() {
				j := i + len(f)
				k := j
				for k < len(s) && (s[k] == ' ' || (s[k] >= '0' && s[k] <= '9')) {
					k++
				}
				v := []string{"0", "-1", "4294967295", "4294967296", "\"7\"", "7.0", "7.5", "1e3", "null", "\"\"", "18446744073709551616"}[w.rng.Intn(11)]
				return []byte(s[:j] + v + s[k:]), "json-id-replaced"
			}
		}
	case 5:
		fs := []string{"primaryKeyId", "keyData", "typeUrl", "value", "keyMaterialType", "status", "keyId", "outputPrefixType", "key"}
		f := fs[w.rng.Intn(len(fs))]
		if strings.Contains(s, "\""+f+"\"") {
			n := []string{"bogusField", strings.ToUpper(f), f + "2", ""}[w.rng.Intn(4)]
			return []byte(strings.Replace(s, "\""+f+"\"", "\""+n+"\"", 1)), "json-field-renamed"
		}
	case 6: // duplicate a fragment
		if len(s) > 2 {
			i := w.rng.Intn(len(s) - 1)
			j := i + 1 + w.rng.Intn(min(len(s)-i-1, 60))
			return []byte(s[:j] + s[i:j] + s[j:]), "json-fragment-duplicated"
		}
	case 7:
		if len(s) > 0 {
			c := []byte(s)
			c[w.rng.Intn(len(c))] = byte(w.rng.U64())
			return c, "json-byte-replaced"
		}
	case 8:
		return []byte(strings.Replace(s, "{", "[", 1)), "json-bracket"
	}
	return b, "json-valid"
}

func (w *world) randomInputs() {
	n := hlib.N(4500, 90000)
	for i := 0; i < n; i++ {
		switch r := w.rng.Intn(100); {
		case r < 18:
			w.feed("random-bytes", w.rng.Bytes(w.rng.Intn(201)), false)
		case r < 26:
			w.feed("random-bytes-as-json", w.rng.Bytes(w.rng.Intn(201)), true)
		case r < 36: // random JSON-ish text from atoms
			var sb strings.Builder
			for k, m := 0, w.rng.Intn(40); k < m; k++ {
				sb.WriteString(jsonAtoms[w.rng.Intn(len(jsonAtoms))])
			}
			w.feed("random-json-atoms", []byte(sb.String()), true)
		case r < 42: // random protobuf-ish: valid tags of the Keyset message with random payloads
			var b []byte
			for k, m := 0, w.rng.Intn(8); k < m; k++ {
				switch w.rng.Intn(4) {
				case 0:
					b = append(b, 0x08, byte(w.rng.U64()&0x7f))
				case 1:
					p := w.rng.Bytes(w.rng.Intn(30))
					b = append(append(b, 0x12, byte(len(p))), p...)
				case 2:
					b = append(b, 0x12, byte(w.rng.Intn(128)))
				default:
					b = append(b, w.rng.Bytes(1+w.rng.Intn(6))...)
				}
			}
			w.feed("random-protobuf-fields", b, false)
		case r < 72:
			b := w.validBinary()
			if b == nil {
				continue
			}
			ms := w.rng.Mutations(b, 1)
			if len(ms) == 0 {
				w.feed("binary-valid", b, false)
			} else {
				w.feed("binary-"+ms[0].Kind, ms[0].Data, false)
			}
		default:
			b := w.validJSON()
			if b == nil {
				continue
			}
			m, kind := w.mutateText(b)
			w.feed(kind, m, true)
		}
	}
}
