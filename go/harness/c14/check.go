//go:build verif

package main

import (
	"bytes"
	"context"
	"fmt"
	"os"
	"strings"

	"github.com/tink-crypto/tink-go/v2/internal/verifharness/hlib"
	"github.com/tink-crypto/tink-go/v2/internal/verifharness/kslib"
	"github.com/tink-crypto/tink-go/v2/keyset"
	"github.com/tink-crypto/tink-go/v2/tink"
	"google.golang.org/protobuf/encoding/protojson"
	"google.golang.org/protobuf/proto"

	tinkpb "github.com/tink-crypto/tink-go/v2/proto/tink_go_proto"
)

type result struct {
	accepted bool
	usable   []string // primitives that were created and worked
}

// ctx describes the failing input: mutation labels, key types and the hex of the marshalled
// keyset (cut in the message; the whole dump goes to a file next to the stats file).
func (w *world) ctx(g *gen) string {
	var ts []string
	for _, k := range g.ks.GetKey() {
		ts = append(ts, fmt.Sprintf("%s/id=%d/st=%d/pre=%d", typeName(k), k.GetKeyId(), int32(k.GetStatus()), int32(k.GetOutputPrefixType())))
	}
	hx := kslib.Hex(g.ks)
	file := ""
	if len(hx) > 1600 && *hlib.FlagStats != "" {
		file = fmt.Sprintf("%s.case%d.hex", strings.TrimSuffix(*hlib.FlagStats, ".json"), w.o.NCase)
		if os.WriteFile(file, []byte(hx+"\n"), 0o644) == nil {
			hx = hx[:1600] + "…(full dump: " + file + ")"
		}
	}
	return fmt.Sprintf("mutations=%v primary=%d keys=%v keyset=%s", g.kinds, g.ks.GetPrimaryKeyId(), ts, hx)
}

func (w *world) panicked(g *gen, where, pan string) {
	w.o.Count("PANIC/" + where)
	w.o.Violate("panic in %s: %s; %s", where, pan, w.ctx(g))
}

// cleanType maps a type URL to a histogram bucket: the message name for Tink key types.
func cleanType(u string) string {
	if !strings.HasPrefix(u, "type.googleapis.com/google.crypto.tink.") {
		return "<other-url>"
	}
	n := strings.TrimPrefix(u, "type.googleapis.com/google.crypto.tink.")
	if _, known := knownTypes[n]; !known {
		return "<other-url>"
	}
	return n
}

var knownTypes = map[string]bool{"AesEaxKey": true, "KmsAeadKey": true}

func typeName(k *tinkpb.Keyset_Key) string {
	if k == nil {
		return "<nil-entry>"
	}
	if k.KeyData == nil {
		return "<nil-keydata>"
	}
	return cleanType(k.KeyData.TypeUrl)
}

// check runs one keyset through every entry point, prints the model lines and applies the
// Go-side oracles.
func (w *world) check(g *gen) result {
	o := w.o
	ks := g.ks
	o.Case()
	o.Count("keysets")
	for _, k := range g.kinds {
		o.Count("mut/" + kindClass(k))
	}
	if len(ks.GetKey()) <= 6 {
		o.Count(fmt.Sprintf("nkeys/%d", len(ks.GetKey())))
	} else {
		o.Count("nkeys/7+")
	}

	// the real decisions
	var verr error
	if p := hlib.Recover(func() { verr = keyset.Validate(kslib.Clone(ks)) }); p != "" {
		w.panicked(g, "keyset.Validate", p)
		verr = fmt.Errorf("panic")
	}
	h, herr, p := kslib.ReadMem(ks)
	if p != "" {
		w.panicked(g, "insecurecleartextkeyset.Read(MemReaderWriter)", p)
		herr = fmt.Errorf("panic")
	}
	hres := kslib.HandleRes(h, herr)
	var nh *keyset.Handle
	var nerr error
	if p := hlib.Recover(func() { nh, nerr = keyset.NewHandleWithNoSecrets(kslib.Clone(ks)) }); p != "" {
		w.panicked(g, "keyset.NewHandleWithNoSecrets", p)
		nerr = fmt.Errorf("panic")
	}
	nres := kslib.HandleRes(nh, nerr)
	var rh *keyset.Handle
	var rerr error
	if p := hlib.Recover(func() { rh, rerr = keyset.ReadWithNoSecrets(&keyset.MemReaderWriter{Keyset: kslib.Clone(ks)}) }); p != "" {
		w.panicked(g, "keyset.ReadWithNoSecrets", p)
		rerr = fmt.Errorf("panic")
	}
	if r := kslib.HandleRes(rh, rerr); r != nres {
		o.Violate("ReadWithNoSecrets (%s) and NewHandleWithNoSecrets (%s) disagree; %s", r, nres, w.ctx(g))
	}
	accepted := herr == nil

	// model lines
	if kslib.Expressible(ks) {
		var pans []string
		toks := kslib.KeysTok(ks, &pans)
		for _, p := range pans {
			w.panicked(g, "protoserialization.ParseKey", p)
		}
		nt := len(ks.GetKey()) >= 1
		arg := fmt.Sprintf("%d %s", ks.GetPrimaryKeyId(), toks)
		vres := "ok"
		if verr != nil {
			vres = "err"
		}
		o.Emit("K validate "+arg, vres, nt)
		o.Emit("K handle "+arg, hres, nt)
		o.Emit("K nosecrets "+arg, nres, nt)
	} else {
		// nil entries / negative enum numbers: not expressible in the protocol; the property says
		// such keysets are rejected
		o.Count("inexpressible")
		mustReject := false
		for _, k := range ks.GetKey() {
			if k == nil || k.GetStatus() < 0 || k.GetOutputPrefixType() < 0 {
				mustReject = true
			}
		}
		if mustReject && (verr == nil || herr == nil || nerr == nil) {
			o.Violate("keyset with a nil entry or a negative status / prefix number accepted (validate=%v read=%v nosecrets=%v); %s", verr, herr, nerr, w.ctx(g))
		}
	}

	// the serialized forms must lead to the same decision
	var bin []byte
	var merr error
	if p := hlib.Recover(func() { bin, merr = proto.Marshal(ks) }); p != "" {
		merr = fmt.Errorf("panic: %s", p)
	}
	if merr != nil {
		o.Count("unmarshallable")
	} else {
		bh, berr, p := kslib.ReadBinary(bin)
		if p != "" {
			w.panicked(g, "Read(BinaryReader)", p)
		} else if r := kslib.HandleRes(bh, berr); r != hres {
			o.Violate("binary reader decides %s, in-memory keyset decides %s; %s", r, hres, w.ctx(g))
		}
		var bnh *keyset.Handle
		var bnerr error
		if p := hlib.Recover(func() { bnh, bnerr = keyset.ReadWithNoSecrets(keyset.NewBinaryReader(bytes.NewReader(bin))) }); p != "" {
			w.panicked(g, "ReadWithNoSecrets(BinaryReader)", p)
		} else if r := kslib.HandleRes(bnh, bnerr); r != nres {
			o.Violate("ReadWithNoSecrets(binary) decides %s, NewHandleWithNoSecrets decides %s; %s", r, nres, w.ctx(g))
		}
		w.jsonFlip = !w.jsonFlip
		var js []byte
		var jerr error
		if p := hlib.Recover(func() { js, jerr = kslib.JSONOf(ks, w.jsonFlip) }); p != "" {
			jerr = fmt.Errorf("panic: %s", p)
		}
		if jerr != nil {
			o.Count("json-unmarshallable")
		} else {
			jh, jherr, p := kslib.ReadJSON(js)
			if p != "" {
				w.panicked(g, "Read(JSONReader)", p)
			} else if r := kslib.HandleRes(jh, jherr); r != hres {
				o.Violate("JSON reader decides %s, in-memory keyset decides %s; json=%s; %s", r, hres, js, w.ctx(g))
			}
		}
		// the encrypted-keyset path
		ad := w.rng.Bytes(w.rng.Intn(9))
		ct, err := w.master.Encrypt(bin, ad)
		if err == nil {
			enc := &tinkpb.EncryptedKeyset{EncryptedKeyset: ct}
			var eh *keyset.Handle
			var eerr error
			where := "keyset.ReadWithAssociatedData(MemReaderWriter)"
			if p := hlib.Recover(func() {
				switch w.rng.Intn(4) {
				case 0:
					eh, eerr = keyset.ReadWithAssociatedData(&keyset.MemReaderWriter{EncryptedKeyset: enc}, w.master, ad)
				case 2:
					where = "keyset.ReadWithAssociatedData(JSONReader)"
					ej, _ := protojson.Marshal(enc)
					eh, eerr = keyset.ReadWithAssociatedData(keyset.NewJSONReader(bytes.NewReader(ej)), w.master, ad)
				case 1:
					where = "keyset.ReadWithContext(MemReaderWriter)"
					eh, eerr = keyset.ReadWithContext(context.Background(), &keyset.MemReaderWriter{EncryptedKeyset: enc}, ctxAEAD{w.master}, ad)
				default:
					where = "keyset.ReadWithAssociatedData(BinaryReader)"
					eb, _ := proto.Marshal(enc)
					eh, eerr = keyset.ReadWithAssociatedData(keyset.NewBinaryReader(bytes.NewReader(eb)), w.master, ad)
				}
			}); p != "" {
				w.panicked(g, where, p)
			} else if r := kslib.HandleRes(eh, eerr); r != hres {
				o.Violate("%s decides %s, cleartext reader decides %s; %s", where, r, hres, w.ctx(g))
			}
		}
	}

	for _, k := range ks.GetKey() {
		o.Count("type/" + typeName(k))
	}
	res := result{accepted: accepted}
	if !accepted {
		o.Count("rejected")
		return res
	}
	o.Count("accepted")
	for _, k := range g.kinds {
		o.Count("accepted-mut/" + kindClass(k))
	}
	for _, k := range ks.GetKey() {
		o.Count("accepted-type/" + typeName(k))
	}
	if msg := kslib.WellFormed(h); msg != "" {
		o.Violate("accepted handle is not well-formed: %s; %s", msg, w.ctx(g))
	} else if nh != nil {
		if msg := kslib.WellFormed(nh); msg != "" {
			o.Violate("handle accepted by NewHandleWithNoSecrets is not well-formed: %s; %s", msg, w.ctx(g))
		}
	}
	res.usable = w.use(h, g, 0)
	return res
}

// ctxAEAD turns an AEAD into a tink.AEADWithContext.
type ctxAEAD struct{ a tink.AEAD }

func (c ctxAEAD) EncryptWithContext(_ context.Context, pt, ad []byte) ([]byte, error) {
	return c.a.Encrypt(pt, ad)
}
func (c ctxAEAD) DecryptWithContext(_ context.Context, ct, ad []byte) ([]byte, error) {
	return c.a.Decrypt(ct, ad)
}

// goSideNil: inputs the line protocol cannot express.
func (w *world) goSideNil() {
	o := w.o
	o.Case()
	g := &gen{kinds: []string{"nil-inputs"}}
	try := func(name string, f func() error) {
		var err error
		if p := hlib.Recover(func() { err = f() }); p != "" {
			w.panicked(g, name, p)
			return
		}
		if err == nil {
			o.Violate("%s: accepted", name)
		}
		o.Count("nil-input-probes")
	}
	try("Validate(nil)", func() error { return keyset.Validate(nil) })
	try("NewHandleWithNoSecrets(nil)", func() error { _, err := keyset.NewHandleWithNoSecrets(nil); return err })
	try("Read(MemReaderWriter{nil})", func() error {
		_, err, p := kslib.ReadMem(nil)
		if p != "" {
			panic(p)
		}
		return err
	})
	try("ReadWithNoSecrets(MemReaderWriter{nil})", func() error { _, err := keyset.ReadWithNoSecrets(&keyset.MemReaderWriter{}); return err })
	try("keyset.Read(MemReaderWriter{nil}, aead)", func() error { _, err := keyset.Read(&keyset.MemReaderWriter{}, w.master); return err })
	try("keyset.Read(reader, nil aead)", func() error {
		_, err := keyset.Read(&keyset.MemReaderWriter{EncryptedKeyset: &tinkpb.EncryptedKeyset{EncryptedKeyset: []byte{1, 2, 3}}}, nil)
		return err
	})
	try("keyset.Read(empty EncryptedKeyset)", func() error {
		_, err := keyset.Read(&keyset.MemReaderWriter{EncryptedKeyset: &tinkpb.EncryptedKeyset{}}, w.master)
		return err
	})
	try("keyset.Read(ciphertext of garbage)", func() error {
		ct, _ := w.master.Encrypt([]byte{0xff, 0xff, 0xff}, nil)
		_, err := keyset.Read(&keyset.MemReaderWriter{EncryptedKeyset: &tinkpb.EncryptedKeyset{EncryptedKeyset: ct}}, w.master)
		return err
	})
	try("keyset.Read(ciphertext of empty keyset)", func() error {
		ct, _ := w.master.Encrypt(nil, nil)
		_, err := keyset.Read(&keyset.MemReaderWriter{EncryptedKeyset: &tinkpb.EncryptedKeyset{EncryptedKeyset: ct}}, w.master)
		return err
	})
	try("Keyset{Key:[nil]}", func() error {
		_, err, p := kslib.ReadMem(&tinkpb.Keyset{PrimaryKeyId: 0, Key: []*tinkpb.Keyset_Key{nil}})
		if p != "" {
			panic(p)
		}
		return err
	})
	try("NewHandleWithNoSecrets(Keyset{Key:[nil]})", func() error {
		_, err := keyset.NewHandleWithNoSecrets(&tinkpb.Keyset{PrimaryKeyId: 0, Key: []*tinkpb.Keyset_Key{nil}})
		return err
	})
}
