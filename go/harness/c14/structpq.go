//go:build verif

package main

import (
	"fmt"
	"strings"
	"time"

	"github.com/tink-crypto/tink-go/v2/insecurecleartextkeyset"
	"github.com/tink-crypto/tink-go/v2/internal/verifharness/hlib"
	"github.com/tink-crypto/tink-go/v2/internal/verifharness/kslib"

	tinkpb "github.com/tink-crypto/tink-go/v2/proto/tink_go_proto"
)

// Structured public/private mismatches of the post-quantum and hybrid key types (round 4; the
// classical ones are in structmis.go, whose stream is unchanged — this pass runs after it).
//
//   - HPKE X-Wing (public key = ML-KEM-768 encapsulation key (1184 bytes) ‖ X25519 share (32),
//     private key = 32-byte seed): the ML-KEM part of another key, single bits of t̂ and of ρ, one
//     coefficient changed by one, a coefficient written non-reduced (c+q, 0xfff); the X25519 share
//     with every single bit flipped (quick tier: the eight bits of the last byte and bit 0), with
//     the ignored top bit set, the small-order and non-canonical (u ≥ p) encodings, the share of
//     another key; the seed of another key / with one bit flipped;
//   - HPKE ML-KEM-768 / ML-KEM-1024 (private key = d ‖ z): the same ML-KEM public-key cases; d of
//     another key; z of another key (z does not enter the public key: a control);
//   - HPKE / ECIES X25519 and Ed25519: every single bit of the 32-byte public value;
//   - ML-DSA (stand-alone, JWT, the ML-DSA half of composite keys): single bits and bytes of ρ and
//     of t1 (first, middle, last), ρ / t1 of another key, the seed of another key / one bit;
//   - SLH-DSA (private key = SK.seed ‖ SK.prf ‖ PK.seed ‖ PK.root, public key = PK.seed ‖ PK.root):
//     PK.seed / PK.root of another key in the public key, in the copy inside the private key, in
//     both; SK.seed of another key; SK.prf of another key (does not enter the public key: control);
//   - composite ML-DSA private keys: the classical half / the ML-DSA half of another key (each
//     half carries its own public key, so these are valid keys: controls), and the mismatches
//     inside each half (here and in structmis.go);
//   - the public-only keys of these types get the public-key cases as well (nothing may panic,
//     the private twin says whether what they produce can be opened).
//
// Rule as in structmis.go: a mismatch is rejected by the readers, or the accepted handle's
// private primitive opens / verifies what its own Public() handle produces / accepts (use.go).

const mlkemQ = 3329

func get12(b []byte, i int) int {
	o := 3 * (i / 2)
	if i%2 == 0 {
		return int(b[o]) | int(b[o+1]&0x0f)<<8
	}
	return int(b[o+1]>>4) | int(b[o+2])<<4
}

func set12(b []byte, i, v int) {
	o := 3 * (i / 2)
	if i%2 == 0 {
		b[o] = byte(v)
		b[o+1] = b[o+1]&0xf0 | byte(v>>8)&0x0f
	} else {
		b[o+1] = b[o+1]&0x0f | byte(v<<4)
		b[o+2] = byte(v >> 4)
	}
}

func flipBit(b []byte, bit int) []byte {
	c := append([]byte{}, b...)
	c[bit/8] ^= 1 << uint(bit%8)
	return c
}

type pqPart struct {
	label string
	b     []byte
	valid bool
}

// mlkemPubParts: variants of an ML-KEM encapsulation key ek = ByteEncode12(t̂) ‖ ρ.
func mlkemPubParts(ek, other []byte) []pqPart {
	var out []pqPart
	n := len(ek)
	that := n - 32
	out = append(out, pqPart{"pub-of-other-key", other, false})
	out = append(out, pqPart{"that-of-other-key", append(append([]byte{}, other[:that]...), ek[that:]...), false})
	out = append(out, pqPart{"rho-of-other-key", append(append([]byte{}, ek[:that]...), other[that:]...), false})
	for _, bit := range []int{0, 8*(that/2) + 3, 8*that - 1, 8 * that, 8*n - 1} {
		out = append(out, pqPart{fmt.Sprintf("pub-bit-%d", bit), flipBit(ek, bit), false})
	}
	ncoef := that * 2 / 3
	for _, i := range []int{0, 1, ncoef / 2, ncoef - 1} {
		c := append([]byte{}, ek...)
		set12(c, i, (get12(ek, i)+1)%mlkemQ)
		out = append(out, pqPart{fmt.Sprintf("coefficient-%d-plus-1", i), c, false})
	}
	// non-reduced: the same residue written as c+q (needs c < 4096−q), and 0xfff
	done := 0
	for i := 0; i < ncoef && done < 2; i++ {
		if v := get12(ek, i); v+mlkemQ < 4096 {
			c := append([]byte{}, ek...)
			set12(c, i, v+mlkemQ)
			out = append(out, pqPart{fmt.Sprintf("coefficient-%d-plus-q", i), c, false})
			done++
		}
	}
	c := append([]byte{}, ek...)
	set12(c, ncoef-1, 0xfff)
	out = append(out, pqPart{"coefficient-0xfff", c, false})
	return out
}

// x25519Bits: single-bit flips of a 32-byte public value (all 256 in the thorough tier; the last
// byte and bit 0 otherwise).
func x25519Bits() []int {
	var bits []int
	if hlib.Thorough() {
		for i := 0; i < 256; i++ {
			bits = append(bits, i)
		}
		return bits
	}
	bits = append(bits, 0)
	for i := 248; i < 256; i++ {
		bits = append(bits, i)
	}
	return bits
}

func x25519PubParts(pub, other []byte) []pqPart {
	var out []pqPart
	for _, bit := range x25519Bits() {
		out = append(out, pqPart{fmt.Sprintf("share-bit-%d", bit), flipBit(pub, bit), false})
	}
	for _, s := range x25519Special {
		out = append(out, pqPart{"share-" + s.name, s.b, false})
		t := append([]byte{}, s.b...)
		t[31] |= 0x80
		out = append(out, pqPart{"share-" + s.name + "-top-bit", t, false})
	}
	if other != nil {
		out = append(out, pqPart{"share-of-other-key", other, false})
	}
	return out
}

// pqKeyCases builds the cases for one key (private, with alt a second key of the same
// parameters; or public-only, with alt the public key of that second key or nil).
func pqKeyCases(pk *kslib.PoolKey, k, alt *tinkpb.KeyData) []smCase {
	var out []smCase
	get := func(kd *tinkpb.KeyData, p string) []byte {
		b, ok := kslib.GetBytesAt(kd, p)
		if !ok {
			return nil
		}
		return b
	}
	add := func(label string, valid bool, kv map[string][]byte) {
		c := cloneKD(k)
		for p, b := range kv {
			if b == nil || !kslib.SetBytesAt(c, p, b) {
				return
			}
		}
		out = append(out, smCase{"structpq-" + label, c, valid})
	}
	private := k.GetKeyMaterialType() == tinkpb.KeyData_ASYMMETRIC_PRIVATE
	for _, f := range kslib.BytesFields(k) {
		path := f.Path
		switch {
		// ---- HPKE: X-Wing, ML-KEM, X25519
		case strings.HasSuffix(pk.Type, "HpkePrivateKey") && path == "public_key.public_key",
			strings.HasSuffix(pk.Type, "HpkePublicKey") && path == "public_key":
			pub := get(k, path)
			var opub, priv, opriv []byte
			if alt != nil {
				opub = get(alt, path)
			}
			if private {
				priv = get(k, "private_key")
				if alt != nil {
					opriv = get(alt, "private_key")
				}
			}
			switch len(pub) {
			case 1216:
				if len(opub) == 1216 {
					for _, p := range mlkemPubParts(pub[:1184], opub[:1184]) {
						add("xwing:mlkem-"+p.label, p.valid, map[string][]byte{path: append(append([]byte{}, p.b...), pub[1184:]...)})
					}
				}
				var ox []byte
				if len(opub) == 1216 {
					ox = opub[1184:]
				}
				for _, p := range x25519PubParts(pub[1184:], ox) {
					add("xwing:x25519-"+p.label, p.valid, map[string][]byte{path: append(append([]byte{}, pub[:1184]...), p.b...)})
				}
				if private && len(priv) == 32 {
					if len(opriv) == 32 {
						add("xwing:seed-of-other-key", false, map[string][]byte{"private_key": opriv})
						add("xwing:pub-of-other-key", false, map[string][]byte{path: opub})
					}
					add("xwing:seed-bit-0", false, map[string][]byte{"private_key": flipBit(priv, 0)})
					add("xwing:seed-bit-255", false, map[string][]byte{"private_key": flipBit(priv, 255)})
				}
			case 1184, 1568:
				if len(opub) == len(pub) {
					for _, p := range mlkemPubParts(pub, opub) {
						add(fmt.Sprintf("mlkem:%d-%s", len(pub), p.label), p.valid, map[string][]byte{path: p.b})
					}
				}
				if private && len(priv) == 64 {
					if len(opriv) == 64 {
						add("mlkem:d-of-other-key", false, map[string][]byte{"private_key": append(append([]byte{}, opriv[:32]...), priv[32:]...)})
						// z is the implicit-rejection secret: it does not enter the encapsulation key
						add("mlkem:z-of-other-key", true, map[string][]byte{"private_key": append(append([]byte{}, priv[:32]...), opriv[32:]...)})
					}
					add("mlkem:d-bit-0", false, map[string][]byte{"private_key": flipBit(priv, 0)})
					add("mlkem:d-bit-255", false, map[string][]byte{"private_key": flipBit(priv, 255)})
					add("mlkem:z-bit-0", true, map[string][]byte{"private_key": flipBit(priv, 256)})
				}
			case 32:
				for _, p := range x25519PubParts(pub, nil) {
					add("hpke-x25519:"+p.label, p.valid, map[string][]byte{path: p.b})
				}
			}
		// ---- ECIES X25519 (x holds the 32-byte public value, y is empty)
		case strings.Contains(pk.Type, "EciesAeadHkdf") && strings.HasSuffix(path, "x") && f.Len == 32 &&
			(path == "public_key.x" || path == "x"):
			if y := get(k, strings.TrimSuffix(path, "x")+"y"); len(y) == 0 {
				for _, p := range x25519PubParts(get(k, path), nil) {
					add("ecies-x25519:"+p.label, p.valid, map[string][]byte{path: p.b})
				}
			}
		// ---- Ed25519 (stand-alone and inside composite keys): every bit of the public key
		case f.Len == 32 && (pk.Type == "Ed25519PrivateKey" && path == "public_key.key_value" ||
			pk.Type == "Ed25519PublicKey" && path == "key_value" ||
			path == "classical_private_key/public_key.key_value" || path == "classical_public_key/key_value"):
			url := k.GetTypeUrl()
			if strings.Contains(path, "/") {
				if m, ok := nestGet(k, strings.SplitN(path, "/", 2)[0]).(*tinkpb.KeyData); ok {
					url = m.GetTypeUrl()
				}
			}
			if !strings.Contains(url, "Ed25519") {
				continue
			}
			for _, bit := range x25519Bits() {
				add(fmt.Sprintf("ed25519:bit-%d/%s", bit, path), false, map[string][]byte{path: flipBit(get(k, path), bit)})
			}
		// ---- ML-DSA public keys: ρ ‖ t1
		case strings.HasSuffix(path, "key_value") && (f.Len == 1312 || f.Len == 1952 || f.Len == 2592):
			pub := get(k, path)
			var opub []byte
			if alt != nil {
				opub = get(alt, path)
			}
			for _, bit := range []int{0, 255, 256, 8*(32+(f.Len-32)/2) + 5, 8*f.Len - 1} {
				add(fmt.Sprintf("mldsa:pub-bit-%d/%s", bit, path), false, map[string][]byte{path: flipBit(pub, bit)})
			}
			for _, pos := range []int{0, 31, 32, 33, f.Len / 2, f.Len - 1} {
				c := append([]byte{}, pub...)
				c[pos] ^= 0xff
				add(fmt.Sprintf("mldsa:pub-byte-%d/%s", pos, path), false, map[string][]byte{path: c})
			}
			if len(opub) == len(pub) && string(opub) != string(pub) {
				add("mldsa:rho-of-other-key/"+path, false, map[string][]byte{path: append(append([]byte{}, opub[:32]...), pub[32:]...)})
				add("mldsa:t1-of-other-key/"+path, false, map[string][]byte{path: append(append([]byte{}, pub[:32]...), opub[32:]...)})
			}
			// the seed next to this public key
			if private && strings.HasSuffix(path, "public_key.key_value") {
				sp := strings.TrimSuffix(path, "public_key.key_value") + "key_value"
				if seed := get(k, sp); len(seed) == 32 {
					add("mldsa:seed-bit-0/"+sp, false, map[string][]byte{sp: flipBit(seed, 0)})
					add("mldsa:seed-bit-255/"+sp, false, map[string][]byte{sp: flipBit(seed, 255)})
					if alt != nil {
						if os := get(alt, sp); len(os) == 32 {
							add("mldsa:seed-of-other-key/"+sp, false, map[string][]byte{sp: os})
							// a consistent pair from the other key inside this key: a valid key
							add("mldsa:half-of-other-key/"+sp, true, map[string][]byte{sp: os, path: opub})
						}
					}
				}
			}
		// ---- SLH-DSA
		case strings.Contains(pk.Type, "SlhDsa") && (path == "public_key.key_value" || !private && path == "key_value"):
			pub := get(k, path)
			n := len(pub) / 2
			if n == 0 || alt == nil {
				continue
			}
			opub := get(alt, path)
			if len(opub) != len(pub) {
				continue
			}
			seedO := append(append([]byte{}, opub[:n]...), pub[n:]...)
			rootO := append(append([]byte{}, pub[:n]...), opub[n:]...)
			add("slhdsa:pub-pkseed-of-other-key", false, map[string][]byte{path: seedO})
			add("slhdsa:pub-pkroot-of-other-key", false, map[string][]byte{path: rootO})
			add("slhdsa:pub-bit-0", false, map[string][]byte{path: flipBit(pub, 0)})
			add("slhdsa:pub-root-last-bit", false, map[string][]byte{path: flipBit(pub, 8*len(pub)-1)})
			if !private {
				continue
			}
			sk, osk := get(k, "key_value"), get(alt, "key_value")
			if len(sk) != 4*n || len(osk) != 4*n {
				continue
			}
			join := func(parts ...[]byte) []byte {
				var b []byte
				for _, p := range parts {
					b = append(b, p...)
				}
				return b
			}
			skSeed, skPrf, pkSeed, pkRoot := sk[:n], sk[n:2*n], sk[2*n:3*n], sk[3*n:]
			add("slhdsa:sk-pkseed-of-other-key", false, map[string][]byte{"key_value": join(skSeed, skPrf, osk[2*n:3*n], pkRoot)})
			add("slhdsa:sk-pkroot-of-other-key", false, map[string][]byte{"key_value": join(skSeed, skPrf, pkSeed, osk[3*n:])})
			add("slhdsa:both-pkseed-of-other-key", false, map[string][]byte{"key_value": join(skSeed, skPrf, osk[2*n:3*n], pkRoot), path: seedO})
			add("slhdsa:both-pkroot-of-other-key", false, map[string][]byte{"key_value": join(skSeed, skPrf, pkSeed, osk[3*n:]), path: rootO})
			add("slhdsa:both-pk-of-other-key", false, map[string][]byte{"key_value": join(skSeed, skPrf, osk[2*n:]), path: opub})
			add("slhdsa:skseed-of-other-key", false, map[string][]byte{"key_value": join(osk[:n], skPrf, pkSeed, pkRoot)})
			add("slhdsa:skprf-of-other-key", true, map[string][]byte{"key_value": join(skSeed, osk[n:2*n], pkSeed, pkRoot)})
		}
	}
	// composite ML-DSA private keys: a whole half of the other key (each half is a complete key
	// pair, so the result is a valid composite key)
	if pk.Type == "CompositeMlDsaPrivateKey" && alt != nil {
		for _, s := range nestSites(k) {
			if s.tmpl {
				continue
			}
			if m := nestGet(alt, s.path); m != nil {
				if c := nestSet(k, s.path, m); c != nil {
					out = append(out, smCase{"structpq-composite:half-of-other-key/" + s.path, c, true})
				}
			}
		}
	}
	return out
}

func (w *world) structuredPQ() {
	o := w.o
	type item struct {
		pk *kslib.PoolKey
		c  smCase
	}
	var all []item
	t0 := time.Now()
	defer func() { o.Hist["time-ms/structpq"] += int(time.Since(t0).Milliseconds()) }()
	for _, pk := range w.pool.Keys {
		var k, alt *tinkpb.KeyData
		switch {
		case pk.Pub >= 0 && pk.Alt != nil:
			k, alt = pk.KD, pk.Alt
		case pk.Priv >= 0: // public-only: the public key of the twin's second key
			k = pk.KD
			if a := w.pool.Keys[pk.Priv].Alt; a != nil {
				if h := oneKey(a, 0x14141415, pk.Prefix); h != nil {
					if ph, err := h.Public(); err == nil {
						if m := insecurecleartextkeyset.KeysetMaterial(ph); m != nil && len(m.GetKey()) == 1 {
							alt = m.GetKey()[0].GetKeyData()
						}
					}
				}
			}
		default:
			continue
		}
		cases := pqKeyCases(pk, k, alt)
		if len(cases) == 0 {
			continue
		}
		// control: the second key itself
		if alt != nil {
			cases = append([]smCase{{"structpq-control-alt", cloneKD(alt), true}}, cases...)
		}
		for _, c := range cases {
			all = append(all, item{pk, c})
			id := w.rng.KeyID()
			g := &gen{ks: &tinkpb.Keyset{PrimaryKeyId: id, Key: []*tinkpb.Keyset_Key{{KeyData: cloneKD(c.kd),
				Status: tinkpb.KeyStatusType_ENABLED, KeyId: id, OutputPrefixType: pk.Prefix}}},
				src: []*kslib.PoolKey{pk}, kinds: []string{c.label}}
			o.Count("structpq-cases/" + pk.Type)
			r := w.check(g)
			if pk.Priv >= 0 { // public-only: a changed public key is just another public key
				if r.accepted {
					o.Count("structpq-public-accepted/" + pk.Type + "/" + kindClass(c.label))
				} else {
					o.Count("structpq-public-rejected/" + pk.Type + "/" + kindClass(c.label))
				}
			} else {
				w.structNote(pk, c, r)
			}
			if r.accepted {
				if h, err, p := kslib.ReadMem(g.ks); err == nil && p == "" && h != nil {
					w.keyLevel(h, g)
				}
			}
		}
	}
	if len(all) == 0 {
		return
	}
	// inside keysets of several keys, the mismatched key usually being the primary
	for i, n := 0, hlib.N(120, 4000); i < n; i++ {
		g := w.genKeyset()
		a := all[w.rng.Intn(len(all))]
		if a.pk.Slow && !w.rng.Chance(10) {
			continue
		}
		t := g.primaryIdx()
		if t < 0 || w.rng.Chance(20) {
			t = w.rng.Intn(len(g.ks.Key))
		}
		g.ks.Key[t].KeyData, g.ks.Key[t].OutputPrefixType, g.src[t] = cloneKD(a.c.kd), a.pk.Prefix, a.pk
		g.kinds = append(g.kinds, a.c.label)
		w.check(g)
	}
}
