//go:build verif

package main

// Stream 1: SerializeKey → ParseKey → Equal → byte-identical re-serialisation, the accessor
// cross-check, and the `P wire` lines for the serialized value and every nested message; the same
// for parameters / key templates.

import (
	"bytes"
	"encoding/binary"
	"fmt"
	"os"
	"reflect"
	"strings"

	"github.com/tink-crypto/tink-go/v2/internal/protoserialization"
	"github.com/tink-crypto/tink-go/v2/internal/verifharness/hlib"
	"github.com/tink-crypto/tink-go/v2/key"
	"google.golang.org/protobuf/proto"
	"google.golang.org/protobuf/reflect/protoreflect"

	tinkpb "github.com/tink-crypto/tink-go/v2/proto/tink_go_proto"
)

type world struct {
	o        *hlib.Out
	seed     uint64
	seen     map[string]bool // nested messages already sent to the driver
	reported map[string]int  // violation classes already reported (first reproducer only)
	nEnc     int
	pools    map[string][]*gcase     // grid points usable in the keyset stream, by primitive class
	perturb  map[string][]perturbSrc // serializations kept for the perturbation stream, by type URL
	unser    []perturbSrc            // keys the constructors accept but SerializeKey refuses
	unserN   map[string]int
	used     map[string]bool // "keyparser|<url>", "keyserializer|<go type>", "paramsparser|<url>", "paramsserializer|<go type>"
}

// violate reports the first reproducer of a class and counts the rest.
func (w *world) violate(class, format string, a ...any) {
	w.o.Count("VIOLATION/" + class)
	w.reported[class]++
	if w.reported[class] == 1 {
		msg := fmt.Sprintf(format, a...)
		w.o.Violate("%s: %s", class, msg)
		if len(msg) > 1500 {
			msg = msg[:1500] + "…"
		}
		fmt.Fprintf(os.Stderr, "c12: FIRST %s: %s\n", class, msg)
	}
}

// emitWire sends one serialized message to the Lean strict wire decoder. The expected answer is
// built from the typed message; nested messages (and the typed payloads of nested KeyData /
// KeyTemplate messages) get their own lines. what is used in violation texts only.
func (w *world) emitWire(what string, m protoreflect.Message, b []byte, top bool) {
	name := string(m.Descriptor().FullName())
	id := name + "|" + string(b)
	if !top {
		if w.seen[id] {
			return
		}
		w.seen[id] = true
	}
	// Go side: the typed message must re-marshal to exactly these bytes
	again, err := proto.Marshal(m.Interface())
	if err != nil || !bytes.Equal(again, b) {
		w.violate("go-marshal-not-canonical/"+name, "%s: proto.Marshal of the parsed message differs from the serialized bytes %x (err %v)", what, b, err)
	}
	fs, subs, problem := fieldsOf(m, "")
	if problem != "" {
		w.violate("unexpected-proto-shape/"+name, "%s: %s", what, problem)
	}
	dump := showFields(fs)
	w.o.Emit("P wire "+hexTok(b), "ok "+dump, true)
	w.o.Count("wire-line/" + typeOfURL(name))
	// reverse direction for a subset: the Lean encoder must reproduce Go's bytes from the dump
	w.nEnc++
	if w.nEnc%4 == 0 && len(b) > 0 {
		w.o.Emit("P enc "+dump, hexTok(b), true)
		w.o.Count("enc-line")
	}
	for _, s := range subs {
		sb, _ := proto.Marshal(s.msg.Interface())
		w.emitWire(what+"."+s.path, s.msg, sb, false)
	}
	// typed payloads of nested KeyData / KeyTemplate
	switch v := m.Interface().(type) {
	case *tinkpb.KeyData:
		if im, err := newMsgForURL(v.GetTypeUrl()); err == nil {
			if proto.Unmarshal(v.GetValue(), im.Interface()) == nil {
				w.emitWire(what+".value", im, v.GetValue(), false)
			}
		}
	case *tinkpb.KeyTemplate:
		if im, err := newFormatForURL(v.GetTypeUrl()); err == nil {
			if proto.Unmarshal(v.GetValue(), im.Interface()) == nil {
				w.emitWire(what+".value", im, v.GetValue(), false)
			}
		}
	}
}

func idClassOf(i int) string { return []string{"0", "1", "0x7fffffff", "0xffffffff", "random"}[i] }

func idOfClass(i int, r *hlib.Rng) uint32 {
	switch i {
	case 0:
		return 0
	case 1:
		return 1
	case 2:
		return 0x7fffffff
	case 3:
		return 0xffffffff
	}
	return uint32(r.U64())
}

func serEqual(a, b *protoserialization.KeySerialization) string {
	ida, ra := a.IDRequirement()
	idb, rb := b.IDRequirement()
	switch {
	case a.KeyData().GetTypeUrl() != b.KeyData().GetTypeUrl():
		return "type URL differs"
	case !bytes.Equal(a.KeyData().GetValue(), b.KeyData().GetValue()):
		return fmt.Sprintf("value differs: %x vs %x", a.KeyData().GetValue(), b.KeyData().GetValue())
	case a.KeyData().GetKeyMaterialType() != b.KeyData().GetKeyMaterialType():
		return "key material type differs"
	case a.OutputPrefixType() != b.OutputPrefixType():
		return "output prefix type differs"
	case ida != idb || ra != rb:
		return "id requirement differs"
	}
	return ""
}

func expectedOutputPrefix(prefix uint64, id uint32) []byte {
	b := make([]byte, 5)
	binary.BigEndian.PutUint32(b[1:], id)
	switch prefix {
	case pfxTink:
		b[0] = 1
		return b
	case pfxCrunchy, pfxLegacy:
		return b
	}
	return nil
}

// checkKey runs the key round trip on k. It returns the first serialization (nil if none).
func (w *world) checkKey(c *gcase, k key.Key, idc string, role string) *protoserialization.KeySerialization {
	o := w.o
	ctx := fmt.Sprintf("%s[%s] %s id-class=%s material=%s key=%T", c.typ, c.label, role, idc, c.mat, k)
	var s1 *protoserialization.KeySerialization
	var err error
	if p := hlib.Recover(func() { s1, err = protoserialization.SerializeKey(k) }); p != "" {
		w.violate("panic/SerializeKey/"+c.typ, "%s: %s", ctx, p)
		return nil
	}
	if err != nil {
		// the constructors accepted this key but it cannot be serialized
		if c.docUnserKey != "" {
			o.Count("unserializable/" + c.typ + "/" + c.docUnserKey)
			return nil
		}
		reason := reasonClass(err)
		o.Count("unserializable/" + c.typ + "/" + reason)
		w.violate("UNSERIALIZABLE "+c.typ+" ("+reason+")", "the constructors accept this key but SerializeKey fails: %s: %v", ctx, err)
		return nil
	}
	kd := s1.KeyData()
	w.used["keyserializer|"+reflect.TypeOf(k).String()] = true
	w.used["keyparser|"+kd.GetTypeUrl()] = true
	tname := typeOfURL(kd.GetTypeUrl())
	o.Count("key/" + tname)
	// ---- prefix type / id requirement mapping
	wantPrefix := expectedPrefix(k.Parameters())
	if uint64(s1.OutputPrefixType()) != wantPrefix {
		w.violate("prefix-mapping/"+tname, "%s: serialized with output prefix type %d, the parameters' variant says %d", ctx, s1.OutputPrefixType(), wantPrefix)
	}
	o.Count(fmt.Sprintf("prefix/%s/%d", tname, s1.OutputPrefixType()))
	id, req := k.IDRequirement()
	sid, sreq := s1.IDRequirement()
	if req != (wantPrefix != pfxRaw) || req != k.Parameters().HasIDRequirement() || sreq != req || sid != id || (!req && id != 0) {
		w.violate("id-requirement-mapping/"+tname, "%s: key says (%d,%v), parameters.HasIDRequirement=%v, serialization says (%d,%v), prefix %d",
			ctx, id, req, k.Parameters().HasIDRequirement(), sid, sreq, wantPrefix)
	}
	if op, ok := k.(interface{ OutputPrefix() []byte }); ok {
		if want := expectedOutputPrefix(wantPrefix, id); !bytes.Equal(op.OutputPrefix(), want) {
			w.violate("output-prefix-bytes/"+tname, "%s: OutputPrefix() = %x, want %x", ctx, op.OutputPrefix(), want)
		}
	}
	// ---- accessor cross-check on the typed message
	m, err := newMsgForURL(kd.GetTypeUrl())
	if err != nil {
		w.violate("no-proto-type/"+tname, "%s: %v", ctx, err)
		return s1
	}
	if err := proto.Unmarshal(kd.GetValue(), m.Interface()); err != nil {
		w.violate("value-does-not-unmarshal/"+tname, "%s: %v", ctx, err)
		return s1
	}
	ki, have, xerr := expectKey(k)
	if have {
		o.Count("accessor-dump/" + tname)
		if xerr != nil {
			w.violate("accessor-inconsistent/"+tname, "%s: %v", ctx, xerr)
		}
		if ki.url != kd.GetTypeUrl() || ki.kmt != uint64(kd.GetKeyMaterialType()) {
			w.violate("type-url-or-material-type/"+tname, "%s: got (%s, %d), want (%s, %d)", ctx, kd.GetTypeUrl(), kd.GetKeyMaterialType(), ki.url, ki.kmt)
		}
		got := map[string]leaf{}
		leavesOf(m, "", got)
		if d := diffLeaves(ki.exp, got); d != "" {
			w.violate("accessor-vs-serialization/"+tname, "%s: %s; value=%x", ctx, d, kd.GetValue())
		}
	} else {
		o.Count("no-accessor-dump/" + tname)
	}
	// ---- parse back
	var k2 key.Key
	if p := hlib.Recover(func() { k2, err = protoserialization.ParseKey(s1) }); p != "" {
		w.violate("panic/ParseKey/"+tname, "%s: %s", ctx, p)
		return s1
	}
	if err != nil {
		w.violate("ParseKey-of-own-serialization-fails/"+tname, "%s: %v; value=%x prefix=%d id=%d", ctx, err, kd.GetValue(), s1.OutputPrefixType(), sid)
		return s1
	}
	eq1, eq2 := k2.Equal(k), k.Equal(k2)
	if !eq1 || !eq2 {
		class := "not-Equal-after-round-trip/" + tname
		if c.lossy != "" {
			class = "LOSSY " + c.lossy
		}
		w.violate(class, "%s: parsed.Equal(original)=%v original.Equal(parsed)=%v; value=%x prefix=%d id=%d", ctx, eq1, eq2, kd.GetValue(), s1.OutputPrefixType(), sid)
	} else {
		o.Count("roundtrip-equal/" + tname)
		if c.lossy != "" {
			o.Count("lossy-class-round-trips-now/" + tname)
		}
	}
	if !k2.Parameters().Equal(k.Parameters()) && c.lossy == "" {
		w.violate("parameters-of-parsed-key-differ/"+tname, "%s", ctx)
	}
	var s2 *protoserialization.KeySerialization
	if p := hlib.Recover(func() { s2, err = protoserialization.SerializeKey(k2) }); p != "" || err != nil {
		w.violate("re-serialisation-fails/"+tname, "%s: %v %s", ctx, err, p)
	} else if d := serEqual(s1, s2); d != "" {
		w.violate("re-serialisation-not-byte-identical/"+tname, "%s: %s", ctx, d)
	} else {
		o.Count("reserialize-identical/" + tname)
	}
	// ---- the Lean wire codec on the value and its nested messages
	w.emitWire(ctx, m, kd.GetValue(), true)
	return s1
}

type pubber interface{ PublicKey() (key.Key, error) }

// runKeyCase makes keys for one grid point and checks them (and their public keys).
func (w *world) runKeyCase(c *gcase, r *hlib.Rng, allIDs bool) {
	o := w.o
	var classes []int
	if !c.params.HasIDRequirement() {
		classes = []int{0}
	} else if allIDs {
		classes = []int{0, 1, 2, 3, 4}
	} else {
		a := r.Intn(5)
		classes = []int{a, (a + 1 + r.Intn(4)) % 5}
	}
	for _, ic := range classes {
		id := idOfClass(ic, r)
		idc := idClassOf(ic)
		if !c.params.HasIDRequirement() {
			idc = "none"
		}
		o.Case()
		k, err := c.make(id)
		if err != nil {
			w.violate("key-creation-fails/"+c.typ, "%s[%s] id=%d: %v", c.typ, c.label, id, err)
			continue
		}
		o.Count("id-class/" + idc)
		o.Count("material/" + c.typ + "/" + orFresh(c.mat))
		if !k.Parameters().Equal(c.params) || !c.params.Equal(k.Parameters()) {
			w.violate("created-key-parameters-differ/"+c.typ, "%s[%s]", c.typ, c.label)
		}
		s := w.checkKey(c, k, idc, "key")
		if s == nil && w.unserN[c.typ] < 8 {
			if _, err := protoserialization.SerializeKey(k); err != nil {
				w.unserN[c.typ]++
				w.unser = append(w.unser, perturbSrc{c: c, k: k})
			}
		}
		w.keepForPerturbation(c, k, s)
		if pk, ok := k.(pubber); ok {
			pub, err := pk.PublicKey()
			if err != nil {
				w.violate("PublicKey-fails/"+c.typ, "%s[%s]: %v", c.typ, c.label, err)
				continue
			}
			ps := w.checkKey(c, pub, idc, "public")
			w.keepForPerturbation(c, pub, ps)
			pid, preq := pub.IDRequirement()
			kid, kreq := k.IDRequirement()
			if pid != kid || preq != kreq || !pub.Parameters().Equal(k.Parameters()) {
				w.violate("public-key-id-or-parameters-differ/"+c.typ, "%s[%s]", c.typ, c.label)
			}
		}
	}
}

func orFresh(s string) string {
	if s == "" {
		return "fresh"
	}
	return s
}

// checkParams runs the parameters round trip.
func (w *world) checkParams(c *gcase) {
	o := w.o
	o.Case()
	ctx := fmt.Sprintf("%s[%s] parameters %T", c.typ, c.label, c.params)
	var t1 *tinkpb.KeyTemplate
	var err error
	if p := hlib.Recover(func() { t1, err = protoserialization.SerializeParameters(c.params) }); p != "" {
		w.violate("panic/SerializeParameters/"+c.typ, "%s: %s", ctx, p)
		return
	}
	if err != nil {
		if c.docUnserParams != "" {
			o.Count("unserializable/" + c.typ + " parameters/" + c.docUnserParams)
			return
		}
		reason := reasonClass(err)
		o.Count("unserializable/" + c.typ + " parameters/" + reason)
		w.violate("UNSERIALIZABLE "+c.typ+" parameters ("+reason+")", "NewParameters accepts these parameters but SerializeParameters fails: %s: %v", ctx, err)
		return
	}
	w.used["paramsserializer|"+reflect.TypeOf(c.params).String()] = true
	w.used["paramsparser|"+t1.GetTypeUrl()] = true
	tname := typeOfURL(t1.GetTypeUrl())
	o.Count("params/" + tname)
	wantPrefix := expectedPrefix(c.params)
	if uint64(t1.GetOutputPrefixType()) != wantPrefix {
		w.violate("params-prefix-mapping/"+tname, "%s: template has output prefix type %d, the variant says %d", ctx, t1.GetOutputPrefixType(), wantPrefix)
	}
	if c.params.HasIDRequirement() != (wantPrefix != pfxRaw) {
		w.violate("params-id-requirement-mapping/"+tname, "%s: HasIDRequirement=%v with prefix %d", ctx, c.params.HasIDRequirement(), wantPrefix)
	}
	m, err := newFormatForURL(t1.GetTypeUrl())
	if err != nil {
		w.violate("no-proto-type/"+tname, "%s: %v", ctx, err)
		return
	}
	if err := proto.Unmarshal(t1.GetValue(), m.Interface()); err != nil {
		w.violate("template-value-does-not-unmarshal/"+tname, "%s: %v", ctx, err)
		return
	}
	url, exp, have, xerr := expectParams(c.params)
	if have {
		o.Count("params-accessor-dump/" + tname)
		if xerr != nil {
			w.violate("params-accessor-inconsistent/"+tname, "%s: %v", ctx, xerr)
		}
		if url != t1.GetTypeUrl() {
			w.violate("params-type-url/"+tname, "%s: got %s want %s", ctx, t1.GetTypeUrl(), url)
		}
		got := map[string]leaf{}
		leavesOf(m, "", got)
		if d := diffLeaves(exp, got); d != "" && c.paramsLossy != "" {
			w.violate("LOSSY-PARAMS "+c.paramsLossy, "%s: accessors vs template: %s; value=%x", ctx, d, t1.GetValue())
		} else if d != "" {
			w.violate("params-accessor-vs-serialization/"+tname, "%s: %s; value=%x", ctx, d, t1.GetValue())
		}
	} else {
		o.Count("params-no-accessor-dump/" + tname)
	}
	var p2 key.Parameters
	if p := hlib.Recover(func() { p2, err = protoserialization.ParseParameters(t1) }); p != "" {
		w.violate("panic/ParseParameters/"+tname, "%s: %s", ctx, p)
		return
	}
	if err != nil {
		w.violate("ParseParameters-of-own-template-fails/"+tname, "%s: %v; value=%x prefix=%d", ctx, err, t1.GetValue(), t1.GetOutputPrefixType())
		return
	}
	eq1, eq2 := p2.Equal(c.params), c.params.Equal(p2)
	if !eq1 || !eq2 {
		class := "params-not-Equal-after-round-trip/" + tname
		if c.paramsLossy != "" {
			class = "LOSSY-PARAMS " + c.paramsLossy
		}
		w.violate(class, "%s: parsed.Equal(original)=%v original.Equal(parsed)=%v; template value=%x prefix=%d", ctx, eq1, eq2, t1.GetValue(), t1.GetOutputPrefixType())
	} else {
		o.Count("params-roundtrip-equal/" + tname)
		if c.paramsLossy != "" {
			o.Count("params-lossy-class-round-trips-now/" + tname)
		}
	}
	var t2 *tinkpb.KeyTemplate
	if p := hlib.Recover(func() { t2, err = protoserialization.SerializeParameters(p2) }); p != "" || err != nil {
		w.violate("params-re-serialisation-fails/"+tname, "%s: %v %s", ctx, err, p)
	} else if t1.GetTypeUrl() != t2.GetTypeUrl() || !bytes.Equal(t1.GetValue(), t2.GetValue()) || t1.GetOutputPrefixType() != t2.GetOutputPrefixType() {
		w.violate("params-re-serialisation-not-byte-identical/"+tname, "%s: %x/%d vs %x/%d", ctx, t1.GetValue(), t1.GetOutputPrefixType(), t2.GetValue(), t2.GetOutputPrefixType())
	} else {
		o.Count("params-reserialize-identical/" + tname)
	}
	w.emitWire(ctx, m, t1.GetValue(), true)
	// the KeyTemplate message itself
	tb, err := proto.Marshal(t1)
	if err == nil {
		w.emitWire(ctx+" (KeyTemplate)", t1.ProtoReflect(), tb, false)
	}
}

// reasonClass turns an error text into a short class name (digits and quotes removed).
func reasonClass(err error) string {
	var b strings.Builder
	for _, r := range err.Error() {
		switch {
		case r >= '0' && r <= '9':
			if !strings.HasSuffix(b.String(), "N") {
				b.WriteByte('N')
			}
		case r == '"' || r == '/':
		default:
			b.WriteRune(r)
		}
		if b.Len() >= 70 {
			break
		}
	}
	return b.String()
}

// registryCoverage compares what is registered in protoserialization (read through the export
// hook) with what stream 1 exercised, so that a key type added to the library shows up as uncovered.
func (w *world) registryCoverage() {
	kp, ks, pp, ps := protoserialization.VerifRegistry()
	for kind, names := range map[string][]string{"keyparser": kp, "keyserializer": ks, "paramsparser": pp, "paramsserializer": ps} {
		for _, n := range names {
			if w.used[kind+"|"+n] {
				w.o.Count("registered-and-exercised/" + kind)
			} else {
				w.o.Count("registered-but-NOT-exercised/" + kind + "/" + n)
				fmt.Fprintf(os.Stderr, "c12: registered but not exercised: %s %s\n", kind, n)
			}
		}
	}
}
